(* Proofs/CfaScriptProofs.v — property C14, unwind rows: the reader models (C06 CfiRun table evaluation over
   the instruction windows that C05 CfiRd hands out) on the bytes produced by the writer model (CfiWr) return
   the rows of the call-frame machine defined directly over the writer's script (Spec/CfaScriptSpec.v).
   A. relations between the reader-side spec state (CfaSpec, expressions = section references) and the script
      state (expressions = bytes), and the lemma that the effect of a reader instruction depends only on its
      C14 meaning (CfaEncSpec.sem);
   B. whole programs: the reader's decoded item list of a written CIE/FDE instruction area implements the
      script ([implc]/[impl]) and CfaSpec.run_spec_lim on such lists = script_rows_lim;
   C. the writer's areas decode to such lists; composition with C06 (model_eq_spec). *)
From Coq Require Import List NArith ZArith Bool Lia ZifyBool ZifyN ZifyNat.
From Coq.Strings Require Import Byte.
Require Import GV.Base.Res GV.Base.Byt GV.Base.Ints GV.Spec.LebSpec GV.Model.Leb GV.Model.Prim.
Require GV.Model.CfiRun GV.Proofs.CfiRunProofs.
Require Import GV.Spec.CfaEncSpec GV.Model.CfiWr GV.Proofs.CfiWrProofs GV.Proofs.CfiRoundtrip.
Require Import GV.Spec.CfaScriptSpec.
Require Import GV.Spec.CfaSpec.
Import ListNotations.
Local Open Scope N_scope.
Local Arguments N.add : simpl never.
Local Arguments N.sub : simpl never.
Local Arguments N.mul : simpl never.
Local Arguments N.pow : simpl never.
Local Arguments N.modulo : simpl never.
Local Arguments N.div : simpl never.
Local Arguments N.lxor : simpl never.
Local Arguments Z.mul : simpl never.
Local Arguments Z.add : simpl never.

(* ------------------------------------------------------------------ *)
(* A. relations and the step lemma                                       *)
(* ------------------------------------------------------------------ *)

Lemma wrap_i64_small z : (-9223372036854775808 <= z < 9223372036854775808)%Z -> wrap_i64 z = z.
Proof.
  intros H. unfold wrap_i64, wrap_signed, to_signed, of_signed, wrapN.
  change (2 ^ (64 - 1)) with 9223372036854775808. change (2 ^ 64) with 18446744073709551616.
  change (Z.of_N 18446744073709551616) with 18446744073709551616%Z.
  assert (Hm : (0 <= z mod 18446744073709551616 < 18446744073709551616)%Z) by (apply Z.mod_pos_bound; lia).
  rewrite N.mod_small by lia.
  assert (Hd : z = (18446744073709551616 * (z / 18446744073709551616) + z mod 18446744073709551616)%Z)
    by (apply Z.div_mod; lia).
  destruct (Z.to_N (z mod 18446744073709551616) <? 9223372036854775808) eqn:E; rewrite Z2N.id by lia; lia.
Qed.

Lemma wrap_i64_i32 z : is_i32 z = true -> wrap_i64 z = z.
Proof. intros H. apply is_i32_iff in H. apply wrap_i64_small. lia. Qed.

(* [X ue e]: the section reference ue designates the bytes e *)
Definition rule_rel (X : uexpr -> list byte -> Prop) (a : rule) (b : xrule) : Prop :=
  match a, b with
  | RUndefined, XUndefined => True
  | RSameValue, XSameValue => True
  | ROffset x, XOffset y => x = y
  | RValOffset x, XValOffset y => x = y
  | RRegister x, XRegister y => x = y
  | RConstant x, XConstant y => x = y
  | RExpression u, XExpression e => X u e
  | RValExpression u, XValExpression e => X u e
  | _, _ => False
  end.

Definition cfa_rel (X : uexpr -> list byte -> Prop) (a : cfa_rule) (b : xcfa) : Prop :=
  match a, b with
  | CfaRegOff r o, XCfaRegOff r' o' => r = r' /\ o = o'
  | CfaExpr u, XCfaExpr e => X u e
  | _, _ => False
  end.

Definition pair_rel X (p : reg * rule) (q : N * xrule) : Prop := fst p = fst q /\ rule_rel X (snd p) (snd q).
(* the two maps list the same registers in the same order with related rules *)
Definition map_rel X (m : CfaSpec.rmap) (xm : xmap) : Prop := Forall2 (pair_rel X) m xm.
Definition orule_rel X (a : option rule) (b : option xrule) : Prop :=
  match a, b with
  | Some x, Some y => rule_rel X x y
  | None, None => True
  | _, _ => False
  end.
Definition omap_rel X (a : option CfaSpec.rmap) (b : option xmap) : Prop :=
  match a, b with
  | Some m, Some xm => map_rel X m xm
  | None, None => True
  | _, _ => False
  end.
Definition entry_rel X (e : cfa_rule * CfaSpec.rmap * N) (x : xcfa * xmap * N) : Prop :=
  cfa_rel X (fst (fst e)) (fst (fst x)) /\ map_rel X (snd (fst e)) (snd (fst x)) /\ snd e = snd x.
Definition state_rel X (s : sstate) (xs : xstate) : Prop :=
  cfa_rel X (s_cfa s) (x_cfa xs) /\ map_rel X (s_rules s) (x_rules xs) /\ s_args s = x_args xs /\
  Forall2 (entry_rel X) (s_stack s) (x_stack xs).
Definition srow_rel X (sr : srow) (xr : xrow) : Prop :=
  sr_start sr = xr_start xr /\ sr_end sr = xr_end xr /\ cfa_rel X (sr_cfa sr) (xr_cfa xr) /\
  sr_args sr = xr_args xr /\ map_rel X (sr_rules sr) (xr_rules xr).

Section Rel.
Variable X : uexpr -> list byte -> Prop.

Lemma lookup_rel r m xm : map_rel X m xm -> orule_rel X (CfaSpec.lookup r m) (xlookup r xm).
Proof.
  induction 1 as [|[g x] [g' y] m xm [Hg Hr] _ IH]; [exact I|].
  cbn [fst snd] in Hg, Hr. subst g'. cbn [CfaSpec.lookup xlookup].
  destruct (g =? r); [exact Hr|exact IH].
Qed.

Lemma remove_rel r m xm : map_rel X m xm -> map_rel X (remove r m) (xremove r xm).
Proof.
  induction 1 as [|[g x] [g' y] m xm [Hg Hr] _ IH]; [constructor|].
  cbn [fst snd] in Hg, Hr. subst g'. unfold remove, xremove in *. cbn [filter fst].
  destruct (negb (g =? r)); [constructor; [split; [reflexivity|exact Hr]|exact IH]|exact IH].
Qed.

Lemma update_rel r o xo m xm : orule_rel X o xo -> map_rel X m xm -> map_rel X (update r o m) (xupdate r xo xm).
Proof.
  intros Ho Hm. destruct o as [x|], xo as [y|]; cbn [orule_rel] in Ho; try contradiction; cbn [update xupdate].
  - constructor; [split; [reflexivity|exact Ho]|apply remove_rel; exact Hm].
  - apply remove_rel; exact Hm.
Qed.

Lemma map_rel_length m xm : map_rel X m xm -> length m = length xm.
Proof. induction 1; cbn [length]; congruence. Qed.

Lemma sim_set r x y s xs : state_rel X s xs -> rule_rel X x y -> state_rel X (set_rule r x s) (x_set r y xs).
Proof.
  intros (H1 & H2 & H3 & H4) Hr. unfold set_rule, x_set, with_rules, x_with_rules, state_rel.
  cbn [s_cfa s_rules s_args s_stack x_cfa x_rules x_args x_stack].
  repeat split; try assumption. apply update_rel; [exact Hr|exact H2].
Qed.

Lemma sim_cfa c xc s xs : state_rel X s xs -> cfa_rel X c xc -> state_rel X (with_cfa c s) (x_with_cfa xc xs).
Proof.
  intros (H1 & H2 & H3 & H4) Hr. unfold with_cfa, x_with_cfa, state_rel.
  cbn [s_cfa s_rules s_args s_stack x_cfa x_rules x_args x_stack]. repeat split; assumption.
Qed.

(* a reader instruction whose C14 meaning (under the CIE's factors) is the abstract instruction i, with its
   expression operand designating the bytes of i's expression *)
Definition insn_rel (caf : N) (daf : Z) (ri : insn) (i : cfi) : Prop :=
  exists d off total,
    ri = to_insn off total d /\ sem caf daf d = MInsn i /\ cfi_wf i = true /\
    forall e, expr_of d = Some e -> X (rd_uexpr off total e) e.

Definition step_agrees (loc : N) (rs : res (sstate * option srow)) (rx : res xstate) : Prop :=
  match rs, rx with
  | Ok (s', None), Ok xs' => s_loc s' = loc /\ state_rel X s' xs'
  | Err e, Err e' => e = e'
  | _, _ => False
  end.

(* THE missing lemma of rows_read_by_reader_partial: the effect of a reader instruction on the call-frame
   state is the effect of its meaning on the script state *)
Lemma step_by_meaning p aa ini xini s xs ri i :
  state_rel X s xs -> omap_rel X ini xini -> insn_rel (sp_caf p) (sp_daf p) ri i -> vendor_ok aa i = true ->
  step_agrees (s_loc s) (spec_step p ini s ri) (script_step aa xini xs i).
Proof.
  intros Hst Hini (d & off & total & -> & Hsem & Hwf & Hex) Hv.
  pose proof Hst as (Hc & Hm & Ha & Hk).
  destruct d; cbn [sem] in Hsem; try discriminate; injection Hsem as <-;
    cbn [to_insn spec_step script_step cfi_wf] in *;
    repeat match goal with
           | Hx : _ && _ = true |- _ => apply andb_true_iff in Hx; destruct Hx
           end; unfold step_agrees.
  - (* DOffset *)
    split; [reflexivity|]. apply sim_set; [exact Hst|]. cbn [rule_rel]. unfold factored. apply wrap_i64_i32. assumption.
  - (* DRestore *)
    destruct ini as [m|], xini as [xm|]; cbn [omap_rel] in Hini; try contradiction; [|reflexivity].
    split; [reflexivity|]. unfold with_rules, x_with_rules, state_rel.
    cbn [s_cfa s_rules s_args s_stack x_cfa x_rules x_args x_stack]. repeat split; try assumption.
    apply update_rel; [apply lookup_rel; exact Hini|exact Hm].
  - split; [reflexivity|]. apply sim_set; [exact Hst|exact I].
  - split; [reflexivity|]. apply sim_set; [exact Hst|exact I].
  - split; [reflexivity|]. apply sim_set; [exact Hst|reflexivity].
  - (* DRememberState *)
    split; [reflexivity|]. unfold state_rel. cbn [s_cfa s_rules s_args s_stack x_cfa x_rules x_args x_stack].
    repeat split; try assumption. constructor; [|exact Hk]. unfold entry_rel. cbn [fst snd]. auto.
  - (* DRestoreState *)
    destruct Hk as [|[[c0 m0] a0] [[xc0 xm0] xa0] st xst (E1 & E2 & E3) Hk']; [reflexivity|].
    cbn [fst snd] in E1, E2, E3. split; [reflexivity|]. unfold state_rel.
    cbn [s_cfa s_rules s_args s_stack x_cfa x_rules x_args x_stack]. auto.
  - (* DDefCfa *)
    split; [reflexivity|]. apply sim_cfa; [exact Hst|]. cbn [cfa_rel]. split; [reflexivity|]. apply wrap_i64_i32. assumption.
  - (* DDefCfaRegister *)
    destruct (s_cfa s) as [r0 o0|u0], (x_cfa xs) as [r1 o1|e1]; cbn [cfa_rel] in Hc; try contradiction; [|reflexivity].
    destruct Hc as [-> ->]. split; [reflexivity|]. apply sim_cfa; [exact Hst|]. cbn [cfa_rel]. auto.
  - (* DDefCfaOffset *)
    destruct (s_cfa s) as [r0 o0|u0], (x_cfa xs) as [r1 o1|e1]; cbn [cfa_rel] in Hc; try contradiction; [|reflexivity].
    destruct Hc as [-> ->]. split; [reflexivity|]. apply sim_cfa; [exact Hst|]. cbn [cfa_rel]. split; [reflexivity|].
    apply wrap_i64_i32. assumption.
  - (* DDefCfaExpression *)
    split; [reflexivity|]. apply sim_cfa; [exact Hst|]. cbn [cfa_rel]. apply Hex. reflexivity.
  - (* DExpression *)
    split; [reflexivity|]. apply sim_set; [exact Hst|]. cbn [rule_rel]. apply Hex. reflexivity.
  - (* DOffsetExtendedSf *)
    split; [reflexivity|]. apply sim_set; [exact Hst|]. cbn [rule_rel]. unfold factored. apply wrap_i64_i32. assumption.
  - (* DDefCfaSf *)
    split; [reflexivity|]. apply sim_cfa; [exact Hst|]. cbn [cfa_rel]. split; [reflexivity|]. unfold factored.
    apply wrap_i64_i32. assumption.
  - (* DDefCfaOffsetSf *)
    destruct (s_cfa s) as [r0 o0|u0], (x_cfa xs) as [r1 o1|e1]; cbn [cfa_rel] in Hc; try contradiction; [|reflexivity].
    destruct Hc as [-> ->]. split; [reflexivity|]. apply sim_cfa; [exact Hst|]. cbn [cfa_rel]. split; [reflexivity|].
    unfold factored. apply wrap_i64_i32. assumption.
  - (* DValOffset *)
    split; [reflexivity|]. apply sim_set; [exact Hst|]. cbn [rule_rel]. unfold factored. apply wrap_i64_i32. assumption.
  - (* DValOffsetSf *)
    split; [reflexivity|]. apply sim_set; [exact Hst|]. cbn [rule_rel]. unfold factored. apply wrap_i64_i32. assumption.
  - (* DValExpression *)
    split; [reflexivity|]. apply sim_set; [exact Hst|]. cbn [rule_rel]. apply Hex. reflexivity.
  - (* DArgsSize *)
    split; [reflexivity|]. unfold with_args, x_with_args, state_rel.
    cbn [s_cfa s_rules s_args s_stack x_cfa x_rules x_args x_stack]. auto.
  - (* DNegateRaState *)
    unfold vendor_ok in Hv. cbn in Hv. rewrite orb_false_r in Hv. subst aa. cbn [negb].
    pose proof (lookup_rel RA_SIGN_STATE _ _ Hm) as Hl.
    destruct (CfaSpec.lookup RA_SIGN_STATE (s_rules s)) as [x|], (xlookup RA_SIGN_STATE (x_rules xs)) as [y|];
      cbn [orule_rel] in Hl; try contradiction.
    + destruct x, y; cbn [rule_rel] in Hl; try contradiction; try reflexivity.
      subst. split; [reflexivity|]. apply sim_set; [exact Hst|reflexivity].
    + split; [reflexivity|]. apply sim_set; [exact Hst|reflexivity].
Qed.

(* the storage-limit check sees the same occupancy *)
Lemma guard_rel c ini xini s xs :
  state_rel X s xs -> omap_rel X ini xini -> guard c ini s = xguard c xini xs.
Proof.
  intros (_ & Hm & _ & Hk) Hini. unfold guard, xguard, stack_occ, x_stack_occ, rules_occ, x_rules_occ.
  rewrite (map_rel_length _ _ Hm).
  assert (Hl : length (s_stack s) = length (x_stack xs)) by (induction Hk; cbn [length]; congruence).
  rewrite Hl.
  destruct ini as [m|], xini as [xm|]; cbn [omap_rel] in Hini; try contradiction; [|reflexivity].
  rewrite (map_rel_length _ _ Hini). reflexivity.
Qed.

End Rel.
