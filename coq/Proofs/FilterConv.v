(* Proofs/FilterConv.v — ConvertUnitSection::new_with_filter slices the reachable offsets exactly per
   unit; the converter's look-ups of a retained DIE succeed whenever the filter saw every reference the
   converter resolves. *)
From Coq Require Import List NArith ZArith Bool Lia.
Require Import GV.Base.Res GV.Spec.Graph GV.Model.Filter GV.Spec.FilterSpec.
Require Import GV.Proofs.FilterProofs GV.Proofs.FilterEdges.
Import ListNotations.
Local Open Scope N_scope.

(* ========================================================================================== *)
(* per-unit slices                                                                             *)

Definition in_unit (u : unitd) (x : N) : bool :=
  match to_unit_offset u x with Some _ => true | None => false end.

Lemma in_unit_iff : forall u x,
  in_unit u x = true <-> u_off u + u_hdr u <= x /\ x < unit_end u.
Proof.
  intros u x. unfold in_unit, to_unit_offset, in_bounds, unit_end.
  destruct (x <? u_off u) eqn:E1; [apply N.ltb_lt in E1; split; [discriminate|lia]|].
  apply N.ltb_ge in E1.
  destruct (x - u_off u <? u_hdr u) eqn:E2; [apply N.ltb_lt in E2; split; [discriminate|lia]|].
  apply N.ltb_ge in E2.
  destruct (x - u_off u - u_hdr u <? u_len u) eqn:E3.
  - apply N.ltb_lt in E3. split; [lia|reflexivity].
  - apply N.ltb_ge in E3. split; [discriminate|lia].
Qed.

Lemma in_unit_false_iff : forall u x,
  in_unit u x = false <-> x < u_off u + u_hdr u \/ unit_end u <= x.
Proof.
  intros u x. pose proof (in_unit_iff u x) as H.
  destruct (in_unit u x); split; intro H1; try discriminate; try reflexivity.
  - destruct (proj1 H eq_refl). lia.
  - destruct (N.lt_ge_cases x (u_off u + u_hdr u)); auto.
    destruct (N.lt_ge_cases x (unit_end u)); auto.
    assert (false = true) by (apply H; lia). discriminate.
Qed.

Lemma take_unit_split : forall u offs a b, take_unit u offs = (a, b) ->
  offs = a ++ b /\ (forall x, In x a -> in_unit u x = true) /\
  match b with [] => True | y :: _ => in_unit u y = false end.
Proof.
  intros u offs. induction offs as [|x rest IH]; intros a b H; cbn in H.
  - inversion H; subst. auto.
  - destruct (to_unit_offset u x) as [o|] eqn:E.
    + destruct (take_unit u rest) as [a' b'] eqn:Et. inversion H; subst.
      destruct (IH _ _ eq_refl) as [H1 [H2 H3]]. split; [cbn; now rewrite H1|]. split; auto.
      intros y [<-|Hy]; auto. unfold in_unit. now rewrite E.
    + inversion H; subst. split; auto. split; [intros y []|]. unfold in_unit. now rewrite E.
Qed.

Lemma strict_sorted_app_r : forall a b, strict_sorted (a ++ b) -> strict_sorted b.
Proof.
  induction a as [|x a IH]; intros b H; auto. apply IH. eapply strict_sorted_tail. exact H.
Qed.

Lemma filter_all_true : forall (f : N -> bool) l, (forall x, In x l -> f x = true) -> filter f l = l.
Proof.
  intros f l. induction l as [|x l IH]; intros H; cbn; auto.
  rewrite (H x (or_introl eq_refl)). f_equal. apply IH. intros y Hy. apply H. now right.
Qed.

Lemma filter_all_false : forall (f : N -> bool) l, (forall x, In x l -> f x = false) -> filter f l = [].
Proof.
  intros f l. induction l as [|x l IH]; intros H; cbn; auto.
  rewrite (H x (or_introl eq_refl)). apply IH. intros y Hy. apply H. now right.
Qed.

Definition covered (units : list unitd) (x : N) : Prop :=
  exists u, In u units /\ in_unit u x = true.

Lemma slices_exact : forall dbg units offs,
  units_ordered units -> strict_sorted offs -> (forall x, In x offs -> covered units x) ->
  slices dbg units offs = Ok (map (fun u => filter (in_unit u) offs) units).
Proof.
  intros dbg units. induction units as [|u us IH]; intros offs Hord Hsort Hcov.
  - destruct offs as [|x offs]; [cbn; now destruct dbg|].
    destruct (Hcov x (or_introl eq_refl)) as [u [[] _]].
  - cbn [slices map]. destruct (take_unit u offs) as [a b] eqn:Et.
    destruct (take_unit_split _ _ _ _ Et) as [Hab [Ha Hb]]. subst offs.
    destruct Hord as [Hu Hord].
    (* everything left over lies in a later unit *)
    assert (Hb' : forall z, In z b -> in_unit u z = false /\ covered us z).
    { destruct b as [|y b']; [intros z []|].
      assert (Hy : covered us y).
      { destruct (Hcov y) as [u' [[<-|Hin] Hu']]; [apply in_or_app; right; now left|congruence|].
        exists u'. auto. }
      destruct Hy as [u' [Hin' Hu']]. apply in_unit_iff in Hu'. specialize (Hu _ Hin').
      assert (Hlow : forall z, In z (y :: b') -> unit_end u <= z).
      { intros z [<-|Hz]; [lia|].
        pose proof (strict_sorted_lt _ _ (strict_sorted_app_r _ _ Hsort) _ Hz). lia. }
      intros z Hz. assert (Hf : in_unit u z = false) by (apply in_unit_false_iff; right; auto).
      split; auto.
      destruct (Hcov z) as [u2 [[<-|Hin2] Hu2]]; [apply in_or_app; now right|congruence|].
      exists u2. auto. }
    rewrite (IH b Hord (strict_sorted_app_r _ _ Hsort) (fun z Hz => proj2 (Hb' z Hz))).
    cbn [bind]. f_equal. f_equal.
    + rewrite filter_app, (filter_all_true _ a Ha), (filter_all_false _ b (fun z Hz => proj1 (Hb' z Hz))).
      now rewrite app_nil_r.
    + apply map_ext_in. intros u' Hin'. rewrite filter_app.
      rewrite (filter_all_false _ a); auto.
      intros z Hz. apply in_unit_false_iff. left.
      specialize (Ha _ Hz). apply in_unit_iff in Ha. specialize (Hu _ Hin'). lia.
Qed.

Lemma reserve_all_in : forall (f : unitd -> list N) units x,
  In x (reserve_all units (map f units)) <->
  exists u, In u units /\ (x = root_off u \/ In x (f u)).
Proof.
  intros f units x. induction units as [|u us IH]; cbn [reserve_all map].
  - split; [intros []|intros [u [[] _]]].
  - cbn [In]. rewrite in_app_iff, IH. split.
    + intros [H|[H|[u' [Hin H]]]]; [exists u; auto|exists u; auto|exists u'; auto].
    + intros [u' [[<-|Hin] H]].
      * destruct H as [->|H]; auto.
      * right. right. eauto.
Qed.

Lemma valid_covered : forall units x, wf_layout units -> f_valid units x -> covered units x.
Proof.
  intros units x [_ Hin] [u [e [par [Hocc ->]]]].
  exists u. split; [exact (proj1 Hocc)|]. apply in_unit_iff.
  destruct (Hin _ _ _ Hocc) as [H1 H2]. unfold sec, unit_end. lia.
Qed.

Definition is_root (units : list unitd) (x : N) : Prop := exists u, In u units /\ x = root_off u.

(* entry_ids after new_with_filter = the unit roots + the reachable offsets *)
Lemma filtered_ids : forall rf dbg req units, wf_offsets units -> wf_layout units ->
  exists S ids,
    reserved rf dbg req units = Ok S /\ strict_sorted S /\
    (forall x, In x S <-> reach (f_valid units) (f_edge rf units) (fun x => req x = true) x) /\
    slices dbg units S = Ok (map (fun u => filter (in_unit u) S) units) /\
    convert_filtered rf dbg req units = convert_units ids units [] /\
    (forall x, In x ids <-> is_root units x \/ In x S).
Proof.
  intros rf dbg req units Hwf Hlay.
  destruct (reserved_char rf dbg req units Hwf) as [S [HS [Hsort Hin]]].
  assert (Hvalid : forall x, In x S -> f_valid units x).
  { intros x Hx. apply Hin in Hx. destruct Hx; auto. }
  assert (Hsl : slices dbg units S = Ok (map (fun u => filter (in_unit u) S) units)).
  { apply slices_exact; auto; [exact (proj1 Hlay)|]. intros x Hx. apply valid_covered; auto. }
  exists S, (reserve_all units (map (fun u => filter (in_unit u) S) units)).
  split; [exact HS|]. split; [exact Hsort|]. split; [exact Hin|]. split; [exact Hsl|]. split.
  - unfold convert_filtered. rewrite HS. cbn [bind]. rewrite Hsl. reflexivity.
  - intros x. rewrite reserve_all_in. unfold is_root. split.
    + intros [u [Hu [->|Hx]]]; [left; eauto|]. right. apply filter_In in Hx. tauto.
    + intros [[u [Hu ->]]|Hx]; [exists u; auto|].
      destruct (valid_covered _ _ Hlay (Hvalid _ Hx)) as [u [Hu Hx']].
      exists u. split; auto. right. apply filter_In. auto.
Qed.

(* ========================================================================================== *)
(* the converter's look-ups                                                                    *)

Lemma mem_n_iff : forall x l, mem_n x l = true <-> In x l.
Proof.
  intros x l. unfold mem_n. rewrite existsb_exists. split.
  - intros [y [Hy He]]. apply N.eqb_eq in He. now subst.
  - intros H. exists x. split; auto. apply N.eqb_refl.
Qed.

Definition op_inb (u : unitd) (op : refop) (v : N) : bool :=
  match op with
  | OpDerefType | OpRegvalType | OpConvert | OpReinterpret => (v =? 0) || in_bounds u v
  | OpConstType | OpParameterRef | OpCall => in_bounds u v
  | OpCallRef | OpImplicitPointer | OpVariableValue => true
  end.

(* a unit-relative operand that is out of bounds makes the conversion fail whatever is reserved *)
Definition site_inb (u : unitd) (s : site) : bool :=
  match s_car s with
  | CAttrUnit => in_bounds u (s_val s)
  | CAttrInfo => true
  | CExpr _ op => op_inb u op (s_val s)
  | CLoc _ _ op => op_inb u op (s_val s)
  end.

Lemma convert_unit_ref_ok : forall u ids v,
  convert_unit_ref u ids v = Ok tt <-> in_bounds u v = true /\ forall y, In y (unit_target u v) -> In y ids.
Proof.
  intros u ids v. unfold convert_unit_ref, unit_target.
  destruct (in_bounds u v); cbn [negb].
  - destruct (mem_n (sec u v) ids) eqn:E.
    + apply mem_n_iff in E. split; auto. intros _. split; auto. intros y [<-|[]]. exact E.
    + split; [discriminate|]. intros [_ H]. assert (In (sec u v) ids) by (apply H; now left).
      apply mem_n_iff in H0. congruence.
  - split; [discriminate|]. intros [H _]. discriminate.
Qed.

Lemma convert_debug_info_ref_ok : forall ids v,
  convert_debug_info_ref ids v = Ok tt <-> forall y, In y [v] -> In y ids.
Proof.
  intros ids v. unfold convert_debug_info_ref. destruct (mem_n v ids) eqn:E.
  - apply mem_n_iff in E. split; auto. intros _ y [<-|[]]. exact E.
  - split; [discriminate|]. intros H. assert (In v ids) by (apply H; now left).
    apply mem_n_iff in H0. congruence.
Qed.

Lemma conv_op_ok : forall u ids op v,
  conv_op u ids op v = Ok tt <->
  op_inb u op v = true /\ forall y, In y (conv_op_refs u op v) -> In y ids.
Proof.
  intros u ids op v.
  destruct op; cbn [conv_op op_inb conv_op_refs];
    try (destruct (v =? 0) eqn:E0; cbn [orb];
         [split; [intros _; split; [reflexivity|intros y []]|reflexivity]|]);
    try apply convert_unit_ref_ok;
    try (rewrite convert_debug_info_ref_ok; tauto).
Qed.

Lemma conv_site_ok : forall u ids s,
  conv_site u ids s = Ok tt <->
  site_inb u s = true /\ forall y, In y (conv_refs u s) -> In y ids.
Proof.
  intros u ids [car v]. unfold conv_site, site_inb, conv_refs. cbn [s_car s_val].
  destruct car as [| |nest op|k nest op].
  - apply convert_unit_ref_ok.
  - rewrite convert_debug_info_ref_ok. tauto.
  - apply conv_op_ok.
  - apply conv_op_ok.
Qed.

Lemma conv_sites_ok : forall u ids ss,
  conv_sites u ids ss = Ok tt <-> forall s, In s ss -> conv_site u ids s = Ok tt.
Proof.
  intros u ids ss. induction ss as [|s ss IH]; cbn [conv_sites].
  - split; auto. intros _ s [].
  - destruct (conv_site u ids s) as [[]| | |] eqn:E; cbn [bind].
    + rewrite IH. split; [intros H s' [<-|Hs']; auto|intros H s' Hs'; apply H; now right].
    + split; [discriminate|]. intros H. rewrite <- E. rewrite (H s (or_introl eq_refl)) in E. discriminate.
    + split; [discriminate|]. intros H. rewrite (H s (or_introl eq_refl)) in E. discriminate.
    + split; [discriminate|]. intros H. rewrite (H s (or_introl eq_refl)) in E. discriminate.
Qed.

Definition ent_sec (u : unitd) (r : rawent) : N := sec u (e_off (r_ent r)).

(* the conversion of a unit succeeds iff the sites of every reserved DIE convert; its output lists the
   reserved DIEs in order *)
Lemma cu_entries_char : forall u ids rs st,
  (forall r, In r rs -> mem_n (ent_sec u r) ids = true -> conv_sites u ids (e_sites (r_ent r)) = Ok tt) ->
  exists st', cu_entries u ids st rs = Ok st' /\
              map fst (snd st') = map fst (snd st) ++ filter (fun x => mem_n x ids) (map (ent_sec u) rs).
Proof.
  intros u ids rs. induction rs as [|r rs IH]; intros [ps out] Hok.
  - exists (ps, out). cbn. now rewrite app_nil_r.
  - cbn [cu_entries cu_entry]. fold (ent_sec u r). cbn [map filter].
    destruct (mem_n (ent_sec u r) ids) eqn:Em.
    + rewrite (Hok r (or_introl eq_refl) Em). cbn [bind].
      match goal with |- exists st', cu_entries u ids ?st rs = _ /\ _ =>
        destruct (IH st) as [st' [H1 H2]] end.
      { intros r' Hr'. apply Hok. now right. }
      exists st'. split; [exact H1|]. rewrite H2. cbn [snd]. rewrite map_app. cbn [map fst].
      now rewrite <- app_assoc.
    + cbn [bind].
      match goal with |- exists st', cu_entries u ids ?st rs = _ /\ _ =>
        destruct (IH st) as [st' [H1 H2]] end.
      { intros r' Hr'. apply Hok. now right. }
      exists st'. split; [exact H1|]. exact H2.
Qed.

Lemma cu_entries_sites : forall u ids rs st st',
  cu_entries u ids st rs = Ok st' ->
  forall r, In r rs -> mem_n (ent_sec u r) ids = true -> conv_sites u ids (e_sites (r_ent r)) = Ok tt.
Proof.
  intros u ids rs. induction rs as [|r rs IH]; intros [ps out] st' H r' Hin Hm; [destruct Hin|].
  cbn [cu_entries cu_entry] in H. fold (ent_sec u r) in H.
  destruct (mem_n (ent_sec u r) ids) eqn:Em.
  - destruct (conv_sites u ids (e_sites (r_ent r))) as [[]| | |] eqn:Ec; cbn [bind] in H; try discriminate.
    destruct Hin as [<-|Hin]; auto. eapply IH; eauto.
  - cbn [bind] in H. destruct Hin as [<-|Hin]; [congruence|]. eapply IH; eauto.
Qed.

Definition unit_raw (u : unitd) : list rawent := flatten_list 1 (u_kids u).

Lemma convert_units_char : forall ids units out,
  (forall u r, In u units -> In r (unit_raw u) -> mem_n (ent_sec u r) ids = true ->
               conv_sites u ids (e_sites (r_ent r)) = Ok tt) ->
  exists out', convert_units ids units out = Ok out' /\
    map fst out' = map fst out ++
      filter (fun x => mem_n x ids) (flat_map (fun u => map (ent_sec u) (unit_raw u)) units).
Proof.
  intros ids units. induction units as [|u us IH]; intros out Hok.
  - exists out. cbn. now rewrite app_nil_r.
  - cbn [convert_units flat_map].
    match goal with |- context [cu_entries u ids ?st _] =>
      destruct (cu_entries_char u ids (unit_raw u) st) as [st' [H1 H2]] end.
    { intros r Hr. apply Hok; auto. now left. }
    unfold unit_raw in H1. rewrite H1. cbn [bind].
    destruct (IH (snd st')) as [out' [H3 H4]].
    { intros u' r Hu'. apply Hok. now right. }
    exists out'. split; [exact H3|]. rewrite H4, H2. cbn [snd]. rewrite filter_app, app_assoc. reflexivity.
Qed.

Lemma convert_units_sites : forall ids units out out',
  convert_units ids units out = Ok out' ->
  forall u r, In u units -> In r (unit_raw u) -> mem_n (ent_sec u r) ids = true ->
              conv_sites u ids (e_sites (r_ent r)) = Ok tt.
Proof.
  intros ids units. induction units as [|u us IH]; intros out out' H u' r Hu' Hr Hm; [destruct Hu'|].
  cbn [convert_units] in H.
  match type of H with context [cu_entries u ids ?st ?rs] =>
    destruct (cu_entries u ids st rs) as [st'| | |] eqn:Ec end; cbn [bind] in H; try discriminate.
  destruct Hu' as [<-|Hu'].
  - eapply cu_entries_sites; eauto.
  - eapply IH; eauto.
Qed.

(* raw entries and (DIE, parent) pairs list the same DIEs *)
Lemma annotv_fst : forall rs ps, map fst (fst (annotv ps rs)) = map r_ent rs.
Proof. induction rs as [|r rs IH]; intros ps; cbn [annotv map fst]; auto. now rewrite IH. Qed.

Lemma unit_raw_ents : forall u, map r_ent (unit_raw u) = map fst (unit_pairs u).
Proof.
  intros u. unfold unit_raw, unit_pairs.
  rewrite <- (annotv_fst (flatten_list 1 (u_kids u)) []).
  destruct (annot_forest (u_kids u) 1%Z [] None eq_refl) as [H _]. rewrite H.
  rewrite map_map. apply map_ext. intros [e par]. reflexivity.
Qed.

Lemma in_unit_raw : forall u r, In r (unit_raw u) -> exists par, In (r_ent r, par) (unit_pairs u).
Proof.
  intros u r Hr. assert (H : In (r_ent r) (map fst (unit_pairs u))).
  { rewrite <- unit_raw_ents. now apply in_map. }
  apply in_map_iff in H. destruct H as [[e par] [He Hin]]. cbn in He. subst. eauto.
Qed.

Lemma unit_raw_offsets : forall units,
  flat_map (fun u => map (ent_sec u) (unit_raw u)) units = section_offsets units.
Proof.
  induction units as [|u us IH]; [reflexivity|]. cbn [flat_map section_offsets]. f_equal; auto.
  unfold ent_sec. rewrite <- (map_map r_ent (fun e => sec u (e_off e))), unit_raw_ents, map_map.
  reflexivity.
Qed.

(* a DIE offset is never a root offset *)
Lemma valid_not_root : forall units x, wf_layout units -> f_valid units x -> ~ is_root units x.
Proof.
  intros units x Hlay [u [e [par [Hocc ->]]]] [u' [Hu' Heq]].
  destruct Hlay as [Hord Hin]. destruct (Hin _ _ _ Hocc) as [H1 H2].
  unfold root_off, sec in Heq.
  destruct Hocc as [Hu _].
  (* u and u' are units of an ordered list: equal, or one ends before the other begins *)
  assert (Hcmp : u = u' \/ unit_end u <= u_off u' \/ unit_end u' <= u_off u).
  { clear - Hord Hu Hu'. induction units as [|w ws IH]; [destruct Hu|].
    destruct Hord as [Hw Hord]. destruct Hu as [<-|Hu]; destruct Hu' as [<-|Hu']; auto. }
  unfold unit_end in Hcmp. destruct Hcmp as [<-|[Hc|Hc]]; lia.
Qed.

(* ========================================================================================== *)
(* closure clauses                                                                             *)

Lemma reach_least : forall (V : N -> Prop) (E : N -> N -> Prop) (R : N -> Prop),
  closed_under V E R (reach V E R) /\
  forall T, closed_under V E R T -> forall x, reach V E R x -> T x.
Proof.
  intros V E R. split.
  - split; [intros x Hr Hv; now apply reach_req|intros x y Hx He Hv; eapply reach_edge; eauto].
  - intros T [H1 H2] x Hx. induction Hx; eauto.
Qed.

Lemma reach_valid : forall V E R x, reach V E R x -> V x.
Proof. intros V E R x H. destruct H; auto. Qed.

(* the parent of a DIE is a DIE of the same unit *)
Lemma parent_in_pairs : forall ts top e pe,
  In (e, Some pe) (forest_pairs top ts) ->
  top = Some pe \/ exists par, In (pe, par) (forest_pairs top ts).
Proof.
  intros ts.
  apply (forest_ind2
    (fun t => forall top e pe, In (e, Some pe) (tree_pairs top t) ->
       top = Some pe \/ exists par, In (pe, par) (tree_pairs top t))
    (fun l => forall top e pe, In (e, Some pe) (forest_pairs top l) ->
       top = Some pe \/ exists par, In (pe, par) (forest_pairs top l))).
  - intros e0 ks IH top e pe. rewrite tree_pairs_eq. intros [Heq|Hin].
    + inversion Heq; subst. now left.
    + destruct (IH _ _ _ Hin) as [Heq|[par Hpar]].
      * inversion Heq; subst. right. exists top. now left.
      * right. exists par. now right.
  - intros top e pe [].
  - intros t l IHt IHl top e pe. cbn [forest_pairs]. rewrite in_app_iff. intros [Hin|Hin].
    + destruct (IHt _ _ _ Hin) as [|[par Hpar]]; auto. right. exists par. apply in_or_app. now left.
    + destruct (IHl _ _ _ Hin) as [|[par Hpar]]; auto. right. exists par. apply in_or_app. now right.
Qed.

Lemma parent_occurs : forall units u e pe, occurs units u e (Some pe) ->
  exists par, occurs units u pe par.
Proof.
  intros units u e pe [Hu Hin]. unfold unit_pairs in Hin.
  destruct (parent_in_pairs _ _ _ _ Hin) as [Heq|[par Hpar]]; [discriminate|].
  exists par. split; auto.
Qed.

Lemma dependency_closed_iff : forall rf req units T,
  dependency_closed rf req units T <->
  closed_under (f_valid units) (f_edge rf units) (fun x => req x = true) T.
Proof.
  intros rf req units T. unfold dependency_closed, closed_under. split.
  - intros [H1 [H2 [H3 H4]]]. split; [intros x Hr Hv; auto|].
    intros x y Hx He Hv. destruct He as [u e par s y Hocc Hs Hy|u e pe Hocc|u e pe Hocc Hns Hbe]; eauto.
  - intros [H1 H2]. split; [auto|]. split; [|split].
    + intros u e pe Hocc HT. eapply H2; [exact HT|eapply fe_parent; eauto|].
      destruct (parent_occurs _ _ _ _ Hocc) as [par Hpar]. exists u, pe, par. auto.
    + intros u e par s y Hocc Hs Hy Hv HT. eapply H2; [exact HT|eapply fe_ref; eauto|exact Hv].
    + intros u e pe Hocc Hns Hbe HT. eapply H2; [exact HT|eapply fe_member; eauto|].
      exists u, e, (Some pe). auto.
Qed.

(* the reserved set is the least dependency-closed set of DIE offsets *)
Lemma reserved_closure : forall rf dbg req units, wf_offsets units ->
  exists S, reserved rf dbg req units = Ok S /\ strict_sorted S /\
    dependency_closed rf req units (fun x => In x S) /\
    (forall x, In x S -> f_valid units x) /\
    (forall T, dependency_closed rf req units T -> forall x, In x S -> T x).
Proof.
  intros rf dbg req units Hwf.
  destruct (reserved_char rf dbg req units Hwf) as [S [HS [Hsort Hin]]].
  exists S. split; [exact HS|]. split; [exact Hsort|].
  destruct (reach_least (f_valid units) (f_edge rf units) (fun x => req x = true)) as [Hc Hl].
  split; [|split].
  - apply dependency_closed_iff. destruct Hc as [H1 H2]. split.
    + intros x Hr Hv. apply Hin. auto.
    + intros x y Hx He Hv. apply Hin. apply Hin in Hx. eauto.
  - intros x Hx. apply Hin in Hx. eapply reach_valid; eauto.
  - intros T HT x Hx. apply dependency_closed_iff in HT. apply Hin in Hx. eapply Hl; eauto.
Qed.

(* ========================================================================================== *)
(* no dangling reference                                                                       *)

Lemma ids_all_in : forall units x,
  In x (flat_map (fun u => root_off u :: all_offsets u) units) <-> is_root units x \/ f_valid units x.
Proof.
  intros units x. rewrite <- section_al_valid, section_al_offsets, <- unit_raw_offsets.
  rewrite !in_flat_map. unfold is_root. split.
  - intros [u [Hu [<-|Hx]]]; [left; eauto|]. right. exists u. split; auto.
  - intros [[u [Hu ->]]|[u [Hu Hx]]]; exists u; split; auto; [now left|now right].
Qed.

Lemma filter_strict_sorted : forall (f : N -> bool) l, strict_sorted l -> strict_sorted (filter f l).
Proof.
  intros f l. induction l as [|x l IH]; intros H; cbn; [constructor|].
  pose proof (strict_sorted_tail _ _ H) as Ht. destruct (f x); auto.
  apply strict_sorted_cons; auto. intros y Hy. apply filter_In in Hy.
  eapply strict_sorted_lt; eauto. tauto.
Qed.

Lemma filtered_conversion_ok : forall rf dbg req units,
  wf_offsets units -> wf_layout units ->
  (forall u e par s, occurs units u e par -> In s (e_sites e) -> incl (conv_refs u s) (rf u s)) ->
  (exists out0, convert_all units = Ok out0) ->
  exists S out,
    reserved rf dbg req units = Ok S /\
    convert_filtered rf dbg req units = Ok out /\
    (forall x, In x (map fst out) <-> In x S) /\
    (strict_sorted (section_offsets units) -> map fst out = S).
Proof.
  intros rf dbg req units Hwf Hlay Hincl [out0 Hall].
  destruct (filtered_ids rf dbg req units Hwf Hlay) as [S [ids [HS [Hsort [Hin [_ [Hconv Hids]]]]]]].
  unfold convert_all in Hall.
  pose proof (convert_units_sites _ _ _ _ Hall) as Hsites.
  assert (Hvalid_raw : forall u r, In u units -> In r (unit_raw u) -> f_valid units (ent_sec u r)).
  { intros u r Hu Hr. destruct (in_unit_raw _ _ Hr) as [par Hpar].
    exists u, (r_ent r), par. split; [split; auto|reflexivity]. }
  destruct (convert_units_char ids units []) as [out [Hout Hfst]].
  { intros u r Hu Hr Hm. apply conv_sites_ok. intros s Hs. apply conv_site_ok.
    assert (Hm0 : mem_n (ent_sec u r) (flat_map (fun u => root_off u :: all_offsets u) units) = true).
    { apply mem_n_iff, ids_all_in. right. auto. }
    pose proof (Hsites u r Hu Hr Hm0) as Hs0. rewrite conv_sites_ok in Hs0.
    specialize (Hs0 s Hs). apply conv_site_ok in Hs0. destruct Hs0 as [Hinb Hall0].
    split; [exact Hinb|]. intros y Hy. apply Hids.
    destruct (proj1 (ids_all_in units y) (Hall0 y Hy)) as [Hroot|Hv]; [now left|]. right.
    (* the source DIE is reachable, the filter recorded the reference *)
    apply mem_n_iff, Hids in Hm. destruct Hm as [Hroot|HinS].
    - exfalso. exact (valid_not_root units (ent_sec u r) Hlay (Hvalid_raw u r Hu Hr) Hroot).
    - destruct (in_unit_raw _ _ Hr) as [par Hpar].
      apply Hin. eapply reach_edge; [apply Hin; exact HinS| |exact Hv].
      eapply (fe_ref rf units u (r_ent r) par s y); [split; auto|exact Hs|].
      exact (Hincl u (r_ent r) par s (conj Hu Hpar) Hs y Hy). }
  exists S, out. split; [exact HS|]. split; [now rewrite Hconv|].
  rewrite Hfst, unit_raw_offsets. cbn [map app].
  assert (Hset : forall x, In x (filter (fun x => mem_n x ids) (section_offsets units)) <-> In x S).
  { intros x. rewrite filter_In, mem_n_iff, Hids, <- section_al_offsets, section_al_valid. split.
    - intros [Hv [Hroot|HinS]]; auto. exfalso. eapply valid_not_root; eauto.
    - intros HinS. assert (f_valid units x) by (apply Hin in HinS; eapply reach_valid; eauto). auto. }
  split; [exact Hset|].
  intros Hss. apply strict_sorted_unique; auto. now apply filter_strict_sorted.
Qed.

(* the filter records every reference the converter resolves, whatever the carrier *)
Lemma filter_refs_complete : forall u s, incl (conv_refs u s) (filter_refs u s).
Proof.
  intros u [car v]. unfold conv_refs, filter_refs. cbn [s_car s_val].
  assert (Hop : forall op, incl (conv_op_refs u op v) (filter_op_refs u op v)).
  { intros op. destruct op; cbn [filter_op_refs conv_op_refs]; try apply incl_refl;
      destruct (v =? 0); try apply incl_refl; apply incl_nil_l. }
  destruct car as [| |nest op|k nest op]; try apply incl_refl; apply Hop.
Qed.

(* and nothing else, as soon as the unit header is not empty *)
Lemma filter_refs_sound : forall u s, 0 < u_hdr u -> incl (filter_refs u s) (conv_refs u s).
Proof.
  intros u [car v] Hh. unfold conv_refs, filter_refs. cbn [s_car s_val].
  assert (Hz : unit_target u 0 = []).
  { unfold unit_target, in_bounds. assert (H : (0 <? u_hdr u) = true) by (apply N.ltb_lt; lia). now rewrite H. }
  assert (Hop : forall op, incl (filter_op_refs u op v) (conv_op_refs u op v)).
  { intros op. destruct op; cbn [filter_op_refs conv_op_refs]; try apply incl_refl;
      destruct (v =? 0) eqn:E; try apply incl_refl; apply N.eqb_eq in E; subst; rewrite Hz; apply incl_nil_l. }
  destruct car as [| |nest op|k nest op]; try apply incl_refl; apply Hop.
Qed.

(* two views of the references that agree on every site of the forest reserve the same DIEs *)
Lemma f_edge_policy : forall rf1 rf2 units,
  (forall u e par s y, occurs units u e par -> In s (e_sites e) -> In y (rf1 u s) -> In y (rf2 u s)) ->
  forall x y, f_edge rf1 units x y -> f_edge rf2 units x y.
Proof.
  intros rf1 rf2 units H x y He.
  destruct He as [u e par s y Hocc Hs Hy|u e pe Hocc|u e pe Hocc Hns Hbe].
  - eapply fe_ref; eauto.
  - eapply fe_parent; eauto.
  - eapply fe_member; eauto.
Qed.

Lemma reserved_policy_eq : forall rf1 rf2 dbg req units, wf_offsets units ->
  (forall u e par s y, occurs units u e par -> In s (e_sites e) -> (In y (rf1 u s) <-> In y (rf2 u s))) ->
  reserved rf1 dbg req units = reserved rf2 dbg req units.
Proof.
  intros rf1 rf2 dbg req units Hwf Heq.
  destruct (reserved_char rf1 dbg req units Hwf) as [S1 [H1 [Hs1 Hin1]]].
  destruct (reserved_char rf2 dbg req units Hwf) as [S2 [H2 [Hs2 Hin2]]].
  rewrite H1, H2. f_equal. apply strict_sorted_unique; auto.
  intros x. rewrite Hin1, Hin2. apply reach_ext; try tauto.
  intros a b. split; apply f_edge_policy; intros u e par s y Hocc Hs Hy.
  - exact (proj1 (Heq u e par s y Hocc Hs) Hy).
  - exact (proj2 (Heq u e par s y Hocc Hs) Hy).
Qed.

Lemma convert_filtered_policy_eq : forall rf1 rf2 dbg req units, wf_offsets units ->
  (forall u e par s y, occurs units u e par -> In s (e_sites e) -> (In y (rf1 u s) <-> In y (rf2 u s))) ->
  convert_filtered rf1 dbg req units = convert_filtered rf2 dbg req units.
Proof.
  intros. unfold convert_filtered. now rewrite (reserved_policy_eq rf1 rf2 dbg req units).
Qed.

Lemma slices_of_reserved : forall rf (dbg : bool) (req : N -> bool) (units : list unitd),
  wf_offsets units -> wf_layout units ->
  exists S ids,
    reserved rf dbg req units = Ok S /\
    slices dbg units S = Ok (map (fun u => filter (in_unit u) S) units) /\
    convert_filtered rf dbg req units = convert_units ids units [] /\
    (forall x, In x ids <-> is_root units x \/ In x S).
Proof.
  intros rf dbg req units Hwf Hlay.
  destruct (filtered_ids rf dbg req units Hwf Hlay) as [S [ids [H1 [_ [_ [H2 [H3 H4]]]]]]].
  exists S, ids. auto.
Qed.

Lemma no_dangling_full : forall (dbg : bool) (req : N -> bool) (units : list unitd),
  wf_offsets units -> wf_layout units ->
  (exists out0, convert_all units = Ok out0) ->
  exists S out,
    reserved filter_refs dbg req units = Ok S /\
    convert_filtered filter_refs dbg req units = Ok out /\
    (forall x, In x (map fst out) <-> In x S) /\
    (strict_sorted (section_offsets units) -> map fst out = S).
Proof.
  intros dbg req units Hwf Hlay Hall. apply filtered_conversion_ok; auto.
  intros u e par s _ _. apply filter_refs_complete.
Qed.

Lemma policy_eq : forall (dbg : bool) (req : N -> bool) (units : list unitd),
  wf_offsets units ->
  (forall u, In u units -> 0 < u_hdr u) ->
  convert_filtered filter_refs dbg req units = convert_filtered conv_refs dbg req units.
Proof.
  intros dbg req units Hwf Hhdr. apply convert_filtered_policy_eq; auto.
  intros u e par s y Hocc Hs. split; intro Hy.
  - eapply filter_refs_sound; eauto. apply Hhdr. exact (proj1 Hocc).
  - eapply filter_refs_complete; eauto.
Qed.

(* a filter that records every reference the converter resolves never loses a needed DIE *)
Lemma complete_filter_ok : forall (dbg : bool) (req : N -> bool) (units : list unitd),
  wf_offsets units -> wf_layout units ->
  (exists out0, convert_all units = Ok out0) ->
  exists S out,
    reserved conv_refs dbg req units = Ok S /\
    convert_filtered conv_refs dbg req units = Ok out /\
    (forall x, In x (map fst out) <-> In x S) /\
    (strict_sorted (section_offsets units) -> map fst out = S).
Proof.
  intros dbg req units Hwf Hlay Hall. apply filtered_conversion_ok; auto.
  intros u e par s _ _. apply incl_refl.
Qed.
