(* Proofs/OpWrDec.v — C15 decode direction: what write::Expression emits is decoded by the table of
   Spec/OpEncSpec.v to the operations that were built, up to the documented shorter encodings. *)
From Coq Require Import List NArith ZArith Bool Lia ZifyBool ZifyN ZifyNat.
From Coq.Strings Require Import Byte.
Require Import GV.Base.Res GV.Base.Byt GV.Base.Ints GV.Spec.LebSpec GV.Model.Leb GV.Model.Prim.
Require Import GV.Spec.OpEncSpec GV.Model.OpWr GV.Proofs.LebProofs GV.Proofs.OpWrProofs.
Import ListNotations.
Local Open Scope N_scope.
Local Arguments N.add : simpl never.
Local Arguments N.sub : simpl never.
Local Arguments N.mul : simpl never.
Local Arguments N.pow : simpl never.
Local Arguments N.modulo : simpl never.
Local Arguments N.div : simpl never.
Local Arguments N.of_nat : simpl never.
Local Arguments Z.add : simpl never.
Local Arguments Z.sub : simpl never.

(* operations whose bytes the table can be asked about: no raw bytecode, Expression::op only with opcodes
   that have no operands, piece sizes whose bit count fits 64 bits *)
Fixpoint decodable (o : wop) : bool :=
  match o with
  | WoRaw _ => false
  | WoSimple opc => match layout opc with Some [] => true | _ => false end
  | WoPiece s => s * 8 <? 2 ^ 64
  | WoEntryValue ex => forallb decodable ex
  | _ => true
  end.

(* the operation a reader must see for a built operation `o` written at `pos` as `bs` *)
Definition normal_form (dbg : bool) (e : enc) (uo : option uoffs) (refs : bool) (offsets : list N) (pos : N)
           (o : wop) (bs : list byte) (d : dop) : Prop :=
  let typed (en : N) (k : N -> dop) := exists off, entry_offset dbg uo en = Ok off /\ d = k off in
  match o with
  | WoRaw _ => False
  | WoSimple opc => meaning (dcfg_of e) opc [] = Some d
  | WoAddress (AConst v) => d = DoAddress v
  | WoAddress (ASym _ _) => False
  | WoUConst v => d = DoUConst v                                   (* lit0..31 or constu *)
  | WoSConst v => d = DoSConst v
  | WoConstType b value => typed b (fun off => DoTypedLiteral off value)
  | WoFrameOffset off => d = DoFrameOffset off
  | WoRegOffset r off => d = DoRegOffset r off 0                   (* breg0..31 or bregx *)
  | WoRegType r b => typed b (fun off => DoRegOffset r 0 off)
  | WoPick i => d = DoPick i                                       (* dup / over / pick *)
  | WoDeref sp => d = DoDeref 0 (e_asize e) sp
  | WoDerefSize sp s => d = DoDeref 0 s sp
  | WoDerefType sp s b => typed b (fun off => DoDeref off s sp)
  | WoPlusConst v => d = DoPlusConst v
  | WoSkip t => exists tv disp, nth_N offsets t = Some tv /\ (Z.of_N pos + 3 + disp = Z.of_N tv)%Z /\ d = DoSkip disp
  | WoBranch t => exists tv disp, nth_N offsets t = Some tv /\ (Z.of_N pos + 3 + disp = Z.of_N tv)%Z /\ d = DoBra disp
  | WoCall en => typed en DoCallUnit
  | WoCallRef (REntry _ _) => d = DoCallRef 0                      (* placeholder; a fix-up is pushed *)
  | WoCallRef (RSym _) => False
  | WoVarValue (REntry _ _) => d = DoVarValue 0
  | WoVarValue (RSym _) => False
  | WoConvert (Some b) => typed b DoConvert
  | WoConvert None => d = DoConvert 0
  | WoReinterpret (Some b) => typed b DoReinterpret
  | WoReinterpret None => d = DoReinterpret 0
  | WoEntryValue ex =>
      exists lb inner fx, bs = n2b (if v5 e then 163 else 243) :: lb ++ inner /\ d = DoEntryValue inner /\
                          write_expr dbg e uo refs (pos + 1 + blen lb) ex = Ok (inner, fx)
  | WoRegister r => d = DoRegister r                               (* reg0..31 or regx *)
  | WoImplicitValue data => d = DoImplicitValue data
  | WoImplicitPointer (REntry _ _) off => d = DoImplicitPointer 0 off
  | WoImplicitPointer (RSym _) _ => False
  | WoPiece s => d = DoPiece (s * 8) None
  | WoBitPiece s off => d = DoPiece s (Some off)
  | WoParameterRef en => typed en DoParameterRef
  | WoWasmLocal i => d = DoWasmLocal i
  | WoWasmGlobal i => d = DoWasmGlobal i
  | WoWasmStack i => d = DoWasmStack i
  end.

Lemma is_u64_lt n : is_u64 n = true -> n < 2 ^ 64.
Proof. unfold is_u64, two64. change (2 ^ 64) with 18446744073709551616. lia. Qed.

Lemma chk_sub_lt dbg a b c : a < 2 ^ 64 -> chk_sub 64 dbg a b = Ok c -> c < 2 ^ 64.
Proof.
  intros Ha. unfold chk_sub. destruct (b <=? a) eqn:E.
  - intros H; inversion H; lia.
  - destruct dbg; [discriminate|]. intros H; inversion H. unfold wrapN. apply N.mod_lt. lia.
Qed.

Lemma nth_N_In {A} : forall (l : list A) n x, nth_N l n = Some x -> In x l.
Proof.
  induction l as [|y r IH]; intros n x H; cbn [nth_N] in H; [discriminate|].
  destruct (n =? 0); [inversion H; left; reflexivity|right; eapply IH; eauto].
Qed.

Lemma entry_offset_lt dbg uo en off : wf_uoffs uo = true -> entry_offset dbg uo en = Ok off -> off < 2 ^ 64.
Proof.
  unfold entry_offset, wf_uoffs. destruct uo as [u|]; [|discriminate]. intros Hw H.
  apply andb_true_iff in Hw. destruct Hw as [_ Hw]. rewrite forallb_forall in Hw.
  apply bind_ok_inv in H. destruct H as [o [Ho H]]. destruct o as [v|]; [|discriminate]. inversion H; subst.
  unfold unit_offset in Ho. apply bind_ok_inv in Ho. destruct Ho as [x [Hx Ho]].
  destruct x as [w|]; [|discriminate].
  apply bind_ok_inv in Ho. destruct Ho as [dd [Hd Ho]]. inversion Ho; subst.
  unfold debug_info_offset in Hx. destruct (nth_N (uo_entries u) en) as [y|] eqn:En; [|discriminate].
  destruct (y =? 0); [discriminate|]. inversion Hx; subst.
  eapply chk_sub_lt; [|exact Hd]. apply is_u64_lt. apply Hw. eapply nth_N_In; eauto.
Qed.

Lemma uadd_lt dbg a b c : uadd dbg a b = Ok c -> c < 2 ^ 64.
Proof.
  unfold uadd, chk_add. destruct (a + b <? 2 ^ 64) eqn:E.
  - intros H; inversion H; lia.
  - destruct dbg; [discriminate|]. intros H; inversion H. unfold wrapN. apply N.mod_lt. lia.
Qed.

Lemma sum_sizes_lt dbg szf : forall ex acc n, acc < 2 ^ 64 -> sum_sizes dbg szf acc ex = Ok n -> n < 2 ^ 64.
Proof.
  induction ex as [|o r IH]; intros acc n Ha H.
  - rewrite sum_sizes_nil in H. inversion H; subst; exact Ha.
  - rewrite sum_sizes_cons in H. apply bind_ok_inv in H. destruct H as [s [_ H]].
    apply bind_ok_inv in H. destruct H as [a' [Hu H]]. eapply IH; [|exact H]. eapply uadd_lt; eauto.
Qed.

Lemma chk_add8_small dbg a b : a + b < 256 -> chk_add 8 dbg a b = Ok (a + b).
Proof. intros H. unfold chk_add. change (2 ^ 8) with 256. destruct (a + b <? 256) eqn:E; [reflexivity|lia]. Qed.

Lemma wrap8_small v : v < 256 -> wrap8 v = v.
Proof. intros. unfold wrap8. apply N.mod_small. assumption. Qed.

Lemma in_i64_in_signed v : in_i64 v = true -> (- 2 ^ 63 <= v < 2 ^ 63)%Z.
Proof. unfold in_i64. lia. Qed.

Lemma rd_kinds_cons c k ks a bs t args rest :
  rd_kind c k bs = Some (a, t) -> rd_kinds c ks t = Some (args, rest) ->
  rd_kinds c (k :: ks) bs = Some (a :: args, rest).
Proof. intros H1 H2. cbn [rd_kinds]. rewrite H1, H2. reflexivity. Qed.

Lemma rd_kinds_one c k a bs rest :
  rd_kind c k bs = Some (a, rest) -> rd_kinds c [k] bs = Some ([a], rest).
Proof. intros H. eapply rd_kinds_cons; [exact H|reflexivity]. Qed.

Ltac lit_byte :=
  match goal with Hc : chk_add 8 _ _ (wrap8 _) = Ok _ |- _ =>
    rewrite wrap8_small in Hc by lia; rewrite chk_add8_small in Hc by lia; inversion Hc; subst; clear Hc end.

Ltac layout_lit :=
  match goal with |- layout ?k = Some _ => vm_compute; reflexivity end.

Ltac step K ks args :=
  eapply (decode_one_step _ K ks _ args); [lia|lia|layout_lit| |].

Lemma dw_Raw dbg e uo refs offsets pos (bytecode : list byte) bs fx rest :
  wf_op (WoRaw bytecode) = true -> wf_uoffs uo = true -> decodable (WoRaw bytecode) = true ->
  pos + blen bs < 2 ^ 63 -> Forall (fun x => x < 2 ^ 63) offsets ->
  write_op dbg e uo refs offsets pos (WoRaw bytecode) = Ok (bs, fx) ->
  exists d, decode_one (dcfg_of e) (bs ++ rest) = Some (d, rest) /\
            normal_form dbg e uo refs offsets pos (WoRaw bytecode) bs d.
Proof.
  intros Hwf Huo Hdec Hpos Hoffs H.
  cbn [write_op] in H; cbn [wf_op decodable] in Hwf, Hdec; cbn [normal_form].
 discriminate.
Qed.

Lemma dw_Simple dbg e uo refs offsets pos (opc : N) bs fx rest :
  wf_op (WoSimple opc) = true -> wf_uoffs uo = true -> decodable (WoSimple opc) = true ->
  pos + blen bs < 2 ^ 63 -> Forall (fun x => x < 2 ^ 63) offsets ->
  write_op dbg e uo refs offsets pos (WoSimple opc) = Ok (bs, fx) ->
  exists d, decode_one (dcfg_of e) (bs ++ rest) = Some (d, rest) /\
            normal_form dbg e uo refs offsets pos (WoSimple opc) bs d.
Proof.
  intros Hwf Huo Hdec Hpos Hoffs H.
  cbn [write_op] in H; cbn [wf_op decodable] in Hwf, Hdec; cbn [normal_form].

    inv_all. destruct (layout opc) as [[|k ks]|] eqn:EL; try discriminate.
    assert (Hopc : opc < 256) by lia.
    destruct (meaning (dcfg_of e) opc []) as [d|] eqn:EM.
    + exists d. split; [|reflexivity]. cbn [app].
      unfold decode_one. rewrite b2n_n2b_small by exact Hopc.
      destruct (opc =? 237) eqn:E237.
      { assert (opc = 237) by lia. subst opc. vm_compute in EL. discriminate. }
      rewrite EL. cbn [rd_kinds]. rewrite EM. reflexivity.
    + exfalso. unfold meaning in EM.
      repeat match type of EM with context [if ?c then _ else _] => destruct c end; discriminate.
Qed.

Lemma dw_Address dbg e uo refs offsets pos (a : waddr) bs fx rest :
  wf_op (WoAddress a) = true -> wf_uoffs uo = true -> decodable (WoAddress a) = true ->
  pos + blen bs < 2 ^ 63 -> Forall (fun x => x < 2 ^ 63) offsets ->
  write_op dbg e uo refs offsets pos (WoAddress a) = Ok (bs, fx) ->
  exists d, decode_one (dcfg_of e) (bs ++ rest) = Some (d, rest) /\
            normal_form dbg e uo refs offsets pos (WoAddress a) bs d.
Proof.
  intros Hwf Huo Hdec Hpos Hoffs H.
  cbn [write_op] in H; cbn [wf_op decodable] in Hwf, Hdec; cbn [normal_form].

    destruct a as [v|sy ad]; inv_all; [|discriminate].
    cbn [write_address] in Ha0. exists (DoAddress v). split; [|reflexivity]. cbn [app].
    step 3 [K_addr] [AU v]; [|reflexivity].
    cbn [rd_kinds]. rewrite (rdk_addr (dcfg_of e) v); [reflexivity|apply is_u64_lt; exact Hwf|exact Ha0].
Qed.

Lemma dw_UConst dbg e uo refs offsets pos (v : N) bs fx rest :
  wf_op (WoUConst v) = true -> wf_uoffs uo = true -> decodable (WoUConst v) = true ->
  pos + blen bs < 2 ^ 63 -> Forall (fun x => x < 2 ^ 63) offsets ->
  write_op dbg e uo refs offsets pos (WoUConst v) = Ok (bs, fx) ->
  exists d, decode_one (dcfg_of e) (bs ++ rest) = Some (d, rest) /\
            normal_form dbg e uo refs offsets pos (WoUConst v) bs d.
Proof.
  intros Hwf Huo Hdec Hpos Hoffs H.
  cbn [write_op] in H; cbn [wf_op decodable] in Hwf, Hdec; cbn [normal_form].

    apply is_u64_lt in Hwf. exists (DoUConst v). split; [|reflexivity].
    destruct (v <? 32) eqn:Ev; inv_all.
    + lit_byte. cbn [app].
      eapply (decode_one_step _ (48 + v) [] _ []); [lia|lia|apply layout_48_111; lia|reflexivity|apply meaning_lit; lia].
    + cbn [app]. step 16 [K_uleb] [AU v]; [|reflexivity].
      cbn [rd_kinds]. rewrite (rdk_uleb _ v); [reflexivity|exact Ha0|exact Hwf].
Qed.

Lemma dw_SConst dbg e uo refs offsets pos (v : Z) bs fx rest :
  wf_op (WoSConst v) = true -> wf_uoffs uo = true -> decodable (WoSConst v) = true ->
  pos + blen bs < 2 ^ 63 -> Forall (fun x => x < 2 ^ 63) offsets ->
  write_op dbg e uo refs offsets pos (WoSConst v) = Ok (bs, fx) ->
  exists d, decode_one (dcfg_of e) (bs ++ rest) = Some (d, rest) /\
            normal_form dbg e uo refs offsets pos (WoSConst v) bs d.
Proof.
  intros Hwf Huo Hdec Hpos Hoffs H.
  cbn [write_op] in H; cbn [wf_op decodable] in Hwf, Hdec; cbn [normal_form].

    inv_all. exists (DoSConst v). split; [|reflexivity]. cbn [app].
    step 17 [K_sleb] [AS v]; [|reflexivity].
    cbn [rd_kinds]. rewrite (rdk_sleb _ v); [reflexivity|exact Ha0|exact Hwf].
Qed.

Lemma dw_ConstType dbg e uo refs offsets pos (base : N) (value : list byte) bs fx rest :
  wf_op (WoConstType base value) = true -> wf_uoffs uo = true -> decodable (WoConstType base value) = true ->
  pos + blen bs < 2 ^ 63 -> Forall (fun x => x < 2 ^ 63) offsets ->
  write_op dbg e uo refs offsets pos (WoConstType base value) = Ok (bs, fx) ->
  exists d, decode_one (dcfg_of e) (bs ++ rest) = Some (d, rest) /\
            normal_form dbg e uo refs offsets pos (WoConstType base value) bs d.
Proof.
  intros Hwf Huo Hdec Hpos Hoffs H.
  cbn [write_op] in H; cbn [wf_op decodable] in Hwf, Hdec; cbn [normal_form].

    inv_all. pose proof (entry_offset_lt _ _ _ _ Huo Ha0) as Hoff.
    exists (DoTypedLiteral a0 value). split; [|exists a0; split; [exact Ha0|reflexivity]].
    destruct (v5 e); cbn [app]; rewrite <- !app_assoc.
    + step 164 [K_uleb; K_blk_u8] [AU a0; AB value]; [|reflexivity].
      cbn [rd_kinds]. rewrite (rdk_uleb _ a0); [|exact Ha1|exact Hoff].
      rewrite (rdk_blk_u8 (dcfg_of e)); [reflexivity|exact Ha2].
    + step 244 [K_uleb; K_blk_u8] [AU a0; AB value]; [|reflexivity].
      cbn [rd_kinds]. rewrite (rdk_uleb _ a0); [|exact Ha1|exact Hoff].
      rewrite (rdk_blk_u8 (dcfg_of e)); [reflexivity|exact Ha2].
Qed.

Lemma dw_FrameOffset dbg e uo refs offsets pos (off : Z) bs fx rest :
  wf_op (WoFrameOffset off) = true -> wf_uoffs uo = true -> decodable (WoFrameOffset off) = true ->
  pos + blen bs < 2 ^ 63 -> Forall (fun x => x < 2 ^ 63) offsets ->
  write_op dbg e uo refs offsets pos (WoFrameOffset off) = Ok (bs, fx) ->
  exists d, decode_one (dcfg_of e) (bs ++ rest) = Some (d, rest) /\
            normal_form dbg e uo refs offsets pos (WoFrameOffset off) bs d.
Proof.
  intros Hwf Huo Hdec Hpos Hoffs H.
  cbn [write_op] in H; cbn [wf_op decodable] in Hwf, Hdec; cbn [normal_form].

    inv_all. exists (DoFrameOffset off). split; [|reflexivity]. cbn [app].
    step 145 [K_sleb] [AS off]; [|reflexivity].
    cbn [rd_kinds]. rewrite (rdk_sleb _ off); [reflexivity|exact Ha0|exact Hwf].
Qed.

Lemma dw_RegOffset dbg e uo refs offsets pos (reg : N) (off : Z) bs fx rest :
  wf_op (WoRegOffset reg off) = true -> wf_uoffs uo = true -> decodable (WoRegOffset reg off) = true ->
  pos + blen bs < 2 ^ 63 -> Forall (fun x => x < 2 ^ 63) offsets ->
  write_op dbg e uo refs offsets pos (WoRegOffset reg off) = Ok (bs, fx) ->
  exists d, decode_one (dcfg_of e) (bs ++ rest) = Some (d, rest) /\
            normal_form dbg e uo refs offsets pos (WoRegOffset reg off) bs d.
Proof.
  intros Hwf Huo Hdec Hpos Hoffs H.
  cbn [write_op] in H; cbn [wf_op decodable] in Hwf, Hdec; cbn [normal_form].

    apply andb_true_iff in Hwf. destruct Hwf as [Hr Ho]. exists (DoRegOffset reg off 0). split; [|reflexivity].
    destruct (reg <? 32) eqn:Er; inv_all.
    + lit_byte. cbn [app].
      eapply (decode_one_step _ (112 + reg) [K_sleb] _ [AS off]); [lia|lia|apply layout_112_143; lia| |apply meaning_breg; lia].
      cbn [rd_kinds]. rewrite (rdk_sleb _ off); [reflexivity|eassumption|exact Ho].
    + cbn [app]. rewrite <- app_assoc. step 146 [K_uleb; K_sleb] [AU reg; AS off].
      * cbn [rd_kinds]. rewrite (rdk_uleb _ reg); [|eassumption|lia].
        rewrite (rdk_sleb _ off); [reflexivity|eassumption|exact Ho].
      * unfold meaning. cbn. destruct (reg <? 65536) eqn:E; [reflexivity|lia].
Qed.

Lemma dw_RegType dbg e uo refs offsets pos (reg base : N) bs fx rest :
  wf_op (WoRegType reg base) = true -> wf_uoffs uo = true -> decodable (WoRegType reg base) = true ->
  pos + blen bs < 2 ^ 63 -> Forall (fun x => x < 2 ^ 63) offsets ->
  write_op dbg e uo refs offsets pos (WoRegType reg base) = Ok (bs, fx) ->
  exists d, decode_one (dcfg_of e) (bs ++ rest) = Some (d, rest) /\
            normal_form dbg e uo refs offsets pos (WoRegType reg base) bs d.
Proof.
  intros Hwf Huo Hdec Hpos Hoffs H.
  cbn [write_op] in H; cbn [wf_op decodable] in Hwf, Hdec; cbn [normal_form].

    apply andb_true_iff in Hwf. destruct Hwf as [Hr Hb]. inv_all.
    match goal with Hx : entry_offset _ _ _ = Ok ?o |- _ =>
      pose proof (entry_offset_lt _ _ _ _ Huo Hx) as Hoff; exists (DoRegOffset reg 0 o);
      split; [|exists o; split; [exact Hx|reflexivity]];
      destruct (v5 e); cbn [app]; rewrite <- !app_assoc;
      [step 165 [K_uleb; K_uleb] [AU reg; AU o]|step 245 [K_uleb; K_uleb] [AU reg; AU o]] end.
    all: try (unfold meaning; cbn; destruct (reg <? 65536) eqn:E; [reflexivity|lia]).
    all: cbn [rd_kinds]; rewrite (rdk_uleb _ reg); [|eassumption|lia];
         match goal with |- context [rd_kind _ K_uleb (?b ++ _)] => erewrite (rdk_uleb _ _ b) end;
         [reflexivity|eassumption|exact Hoff].
Qed.

Lemma dw_Pick dbg e uo refs offsets pos (index : N) bs fx rest :
  wf_op (WoPick index) = true -> wf_uoffs uo = true -> decodable (WoPick index) = true ->
  pos + blen bs < 2 ^ 63 -> Forall (fun x => x < 2 ^ 63) offsets ->
  write_op dbg e uo refs offsets pos (WoPick index) = Ok (bs, fx) ->
  exists d, decode_one (dcfg_of e) (bs ++ rest) = Some (d, rest) /\
            normal_form dbg e uo refs offsets pos (WoPick index) bs d.
Proof.
  intros Hwf Huo Hdec Hpos Hoffs H.
  cbn [write_op] in H; cbn [wf_op decodable] in Hwf, Hdec; cbn [normal_form].

    exists (DoPick index). split; [|reflexivity].
    destruct (index =? 0) eqn:E0; [|destruct (index =? 1) eqn:E1]; inv_all; cbn [app].
    + assert (index = 0) by lia. subst. step 18 (@nil okind) (@nil oarg); reflexivity.
    + assert (index = 1) by lia. subst. step 20 (@nil okind) (@nil oarg); reflexivity.
    + step 21 [K_u8] [AU index]; [|reflexivity]. cbn [rd_kinds]. rewrite rdk_u8 by lia. reflexivity.
Qed.

Lemma dw_Deref dbg e uo refs offsets pos (space : bool) bs fx rest :
  wf_op (WoDeref space) = true -> wf_uoffs uo = true -> decodable (WoDeref space) = true ->
  pos + blen bs < 2 ^ 63 -> Forall (fun x => x < 2 ^ 63) offsets ->
  write_op dbg e uo refs offsets pos (WoDeref space) = Ok (bs, fx) ->
  exists d, decode_one (dcfg_of e) (bs ++ rest) = Some (d, rest) /\
            normal_form dbg e uo refs offsets pos (WoDeref space) bs d.
Proof.
  intros Hwf Huo Hdec Hpos Hoffs H.
  cbn [write_op] in H; cbn [wf_op decodable] in Hwf, Hdec; cbn [normal_form].

    inv_all. exists (DoDeref 0 (e_asize e) space). split; [|reflexivity].
    destruct space; cbn [app]; [step 24 (@nil okind) (@nil oarg)|step 6 (@nil okind) (@nil oarg)]; reflexivity.
Qed.

Lemma dw_DerefSize dbg e uo refs offsets pos (space : bool) (size : N) bs fx rest :
  wf_op (WoDerefSize space size) = true -> wf_uoffs uo = true -> decodable (WoDerefSize space size) = true ->
  pos + blen bs < 2 ^ 63 -> Forall (fun x => x < 2 ^ 63) offsets ->
  write_op dbg e uo refs offsets pos (WoDerefSize space size) = Ok (bs, fx) ->
  exists d, decode_one (dcfg_of e) (bs ++ rest) = Some (d, rest) /\
            normal_form dbg e uo refs offsets pos (WoDerefSize space size) bs d.
Proof.
  intros Hwf Huo Hdec Hpos Hoffs H.
  cbn [write_op] in H; cbn [wf_op decodable] in Hwf, Hdec; cbn [normal_form].

    inv_all. exists (DoDeref 0 size space). split; [|reflexivity].
    destruct space; cbn [app].
    + step 149 [K_u8] [AU size]; [|reflexivity]. cbn [rd_kinds]. rewrite rdk_u8 by lia. reflexivity.
    + step 148 [K_u8] [AU size]; [|reflexivity]. cbn [rd_kinds]. rewrite rdk_u8 by lia. reflexivity.
Qed.

Lemma dw_DerefType dbg e uo refs offsets pos (space : bool) (size base : N) bs fx rest :
  wf_op (WoDerefType space size base) = true -> wf_uoffs uo = true -> decodable (WoDerefType space size base) = true ->
  pos + blen bs < 2 ^ 63 -> Forall (fun x => x < 2 ^ 63) offsets ->
  write_op dbg e uo refs offsets pos (WoDerefType space size base) = Ok (bs, fx) ->
  exists d, decode_one (dcfg_of e) (bs ++ rest) = Some (d, rest) /\
            normal_form dbg e uo refs offsets pos (WoDerefType space size base) bs d.
Proof.
  intros Hwf Huo Hdec Hpos Hoffs H.
  cbn [write_op] in H; cbn [wf_op decodable] in Hwf, Hdec; cbn [normal_form].

    apply andb_true_iff in Hwf. destruct Hwf as [Hs Hb]. inv_all.
    match goal with Hx : entry_offset _ _ _ = Ok ?o |- _ =>
      pose proof (entry_offset_lt _ _ _ _ Huo Hx) as Hoff; exists (DoDeref o size space);
      split; [|exists o; split; [exact Hx|reflexivity]];
      destruct space; [|destruct (v5 e)]; cbn [app];
      [step 167 [K_u8; K_uleb] [AU size; AU o]|step 166 [K_u8; K_uleb] [AU size; AU o]
      |step 246 [K_u8; K_uleb] [AU size; AU o]]; try reflexivity;
      (eapply rd_kinds_cons; [apply rdk_u8; lia|apply rd_kinds_one; eapply rdk_uleb; [eassumption|exact Hoff]]) end.
Qed.

Lemma dw_PlusConst dbg e uo refs offsets pos (v : N) bs fx rest :
  wf_op (WoPlusConst v) = true -> wf_uoffs uo = true -> decodable (WoPlusConst v) = true ->
  pos + blen bs < 2 ^ 63 -> Forall (fun x => x < 2 ^ 63) offsets ->
  write_op dbg e uo refs offsets pos (WoPlusConst v) = Ok (bs, fx) ->
  exists d, decode_one (dcfg_of e) (bs ++ rest) = Some (d, rest) /\
            normal_form dbg e uo refs offsets pos (WoPlusConst v) bs d.
Proof.
  intros Hwf Huo Hdec Hpos Hoffs H.
  cbn [write_op] in H; cbn [wf_op decodable] in Hwf, Hdec; cbn [normal_form].

    inv_all. exists (DoPlusConst v). split; [|reflexivity]. cbn [app].
    step 35 [K_uleb] [AU v]; [|reflexivity].
    cbn [rd_kinds]. rewrite (rdk_uleb _ v); [reflexivity|eassumption|apply is_u64_lt; exact Hwf].
Qed.

Lemma dw_Skip dbg e uo refs offsets pos (target : N) bs fx rest :
  wf_op (WoSkip target) = true -> wf_uoffs uo = true -> decodable (WoSkip target) = true ->
  pos + blen bs < 2 ^ 63 -> Forall (fun x => x < 2 ^ 63) offsets ->
  write_op dbg e uo refs offsets pos (WoSkip target) = Ok (bs, fx) ->
  exists d, decode_one (dcfg_of e) (bs ++ rest) = Some (d, rest) /\
            normal_form dbg e uo refs offsets pos (WoSkip target) bs d.
Proof.
  intros Hwf Huo Hdec Hpos Hoffs H.
  cbn [write_op] in H; cbn [wf_op decodable] in Hwf, Hdec; cbn [normal_form].

    inv_all. rewrite blen_cons in Hpos.
    match goal with Hb : branch_operand _ _ _ _ _ = Ok ?b |- _ =>
      pose proof (branch_operand_len _ _ _ _ _ _ Hb) as Hbl;
      rewrite branch_operand_spec in Hb;
        [|lia|intros tv Htv; apply nth_N_In in Htv; rewrite Forall_forall in Hoffs; apply Hoffs; exact Htv] end.
    destruct (nth_N offsets target) as [tv|] eqn:Et; [|discriminate].
    cbv zeta in Ha0.
    destruct (in_signed 16 (Z.of_N tv - (Z.of_N (pos + 1) + 2))) eqn:Ei; [|discriminate]. inversion Ha0; subst. clear Ha0.
    eexists. split.
    + cbn [app]. step 47 [K_i16] [AS (Z.of_N tv - (Z.of_N (pos + 1) + 2))%Z]; [|reflexivity].
      apply rd_kinds_one. apply (rdk_i16 (dcfg_of e)). exact Ei.
    + exists tv, (Z.of_N tv - (Z.of_N (pos + 1) + 2))%Z. split; [reflexivity|]. split; [lia|reflexivity].
Qed.

Lemma dw_Branch dbg e uo refs offsets pos (target : N) bs fx rest :
  wf_op (WoBranch target) = true -> wf_uoffs uo = true -> decodable (WoBranch target) = true ->
  pos + blen bs < 2 ^ 63 -> Forall (fun x => x < 2 ^ 63) offsets ->
  write_op dbg e uo refs offsets pos (WoBranch target) = Ok (bs, fx) ->
  exists d, decode_one (dcfg_of e) (bs ++ rest) = Some (d, rest) /\
            normal_form dbg e uo refs offsets pos (WoBranch target) bs d.
Proof.
  intros Hwf Huo Hdec Hpos Hoffs H.
  cbn [write_op] in H; cbn [wf_op decodable] in Hwf, Hdec; cbn [normal_form].

    inv_all. rewrite blen_cons in Hpos.
    match goal with Hb : branch_operand _ _ _ _ _ = Ok ?b |- _ =>
      pose proof (branch_operand_len _ _ _ _ _ _ Hb) as Hbl;
      rewrite branch_operand_spec in Hb;
        [|lia|intros tv Htv; apply nth_N_In in Htv; rewrite Forall_forall in Hoffs; apply Hoffs; exact Htv] end.
    destruct (nth_N offsets target) as [tv|] eqn:Et; [|discriminate].
    cbv zeta in Ha0.
    destruct (in_signed 16 (Z.of_N tv - (Z.of_N (pos + 1) + 2))) eqn:Ei; [|discriminate]. inversion Ha0; subst. clear Ha0.
    eexists. split.
    + cbn [app]. step 40 [K_i16] [AS (Z.of_N tv - (Z.of_N (pos + 1) + 2))%Z]; [|reflexivity].
      apply rd_kinds_one. apply (rdk_i16 (dcfg_of e)). exact Ei.
    + exists tv, (Z.of_N tv - (Z.of_N (pos + 1) + 2))%Z. split; [reflexivity|]. split; [lia|reflexivity].
Qed.

Lemma dw_Call dbg e uo refs offsets pos (entry : N) bs fx rest :
  wf_op (WoCall entry) = true -> wf_uoffs uo = true -> decodable (WoCall entry) = true ->
  pos + blen bs < 2 ^ 63 -> Forall (fun x => x < 2 ^ 63) offsets ->
  write_op dbg e uo refs offsets pos (WoCall entry) = Ok (bs, fx) ->
  exists d, decode_one (dcfg_of e) (bs ++ rest) = Some (d, rest) /\
            normal_form dbg e uo refs offsets pos (WoCall entry) bs d.
Proof.
  intros Hwf Huo Hdec Hpos Hoffs H.
  cbn [write_op] in H; cbn [wf_op decodable] in Hwf, Hdec; cbn [normal_form].

    inv_all.
    match goal with Hx : entry_offset _ _ _ = Ok ?o |- _ =>
      pose proof (entry_offset_lt _ _ _ _ Huo Hx) as Hoff; exists (DoCallUnit o);
      split; [|exists o; split; [exact Hx|reflexivity]]; cbn [app];
      step 153 [K_u32] [AU o]; [|reflexivity];
      apply rd_kinds_one; apply (rdk_u32 (dcfg_of e)); [exact Hoff|eassumption] end.
Qed.

Lemma dw_CallRef dbg e uo refs offsets pos (r : dref) bs fx rest :
  wf_op (WoCallRef r) = true -> wf_uoffs uo = true -> decodable (WoCallRef r) = true ->
  pos + blen bs < 2 ^ 63 -> Forall (fun x => x < 2 ^ 63) offsets ->
  write_op dbg e uo refs offsets pos (WoCallRef r) = Ok (bs, fx) ->
  exists d, decode_one (dcfg_of e) (bs ++ rest) = Some (d, rest) /\
            normal_form dbg e uo refs offsets pos (WoCallRef r) bs d.
Proof.
  intros Hwf Huo Hdec Hpos Hoffs H.
  cbn [write_op] in H; cbn [wf_op decodable] in Hwf, Hdec; cbn [normal_form].

    destruct r as [sy|un en]; unfold write_ref in H; inv_all; try discriminate.
    exists (DoCallRef 0). split; [|reflexivity]. cbn [app].
    step 154 [K_off] [AU 0]; [|reflexivity].
    apply rd_kinds_one. apply (rdk_off (dcfg_of e)); [lia|eassumption].
Qed.

Lemma dw_VarValue dbg e uo refs offsets pos (r : dref) bs fx rest :
  wf_op (WoVarValue r) = true -> wf_uoffs uo = true -> decodable (WoVarValue r) = true ->
  pos + blen bs < 2 ^ 63 -> Forall (fun x => x < 2 ^ 63) offsets ->
  write_op dbg e uo refs offsets pos (WoVarValue r) = Ok (bs, fx) ->
  exists d, decode_one (dcfg_of e) (bs ++ rest) = Some (d, rest) /\
            normal_form dbg e uo refs offsets pos (WoVarValue r) bs d.
Proof.
  intros Hwf Huo Hdec Hpos Hoffs H.
  cbn [write_op] in H; cbn [wf_op decodable] in Hwf, Hdec; cbn [normal_form].

    destruct r as [sy|un en]; unfold write_ref in H; inv_all; try discriminate.
    exists (DoVarValue 0). split; [|reflexivity]. cbn [app].
    step 253 [K_off] [AU 0]; [|reflexivity].
    apply rd_kinds_one. apply (rdk_off (dcfg_of e)); [lia|eassumption].
Qed.

Lemma dw_Convert dbg e uo refs offsets pos (base : option N) bs fx rest :
  wf_op (WoConvert base) = true -> wf_uoffs uo = true -> decodable (WoConvert base) = true ->
  pos + blen bs < 2 ^ 63 -> Forall (fun x => x < 2 ^ 63) offsets ->
  write_op dbg e uo refs offsets pos (WoConvert base) = Ok (bs, fx) ->
  exists d, decode_one (dcfg_of e) (bs ++ rest) = Some (d, rest) /\
            normal_form dbg e uo refs offsets pos (WoConvert base) bs d.
Proof.
  intros Hwf Huo Hdec Hpos Hoffs H.
  cbn [write_op] in H; cbn [wf_op decodable] in Hwf, Hdec; cbn [normal_form].

    destruct base as [b|]; inv_all.
    + match goal with Hx : entry_offset _ _ _ = Ok ?o |- _ =>
        pose proof (entry_offset_lt _ _ _ _ Huo Hx) as Hoff; exists (DoConvert o);
        split; [|exists o; split; [exact Hx|reflexivity]]; cbn [app];
        destruct (v5 e); [step 168 [K_uleb] [AU o]|step 247 [K_uleb] [AU o]]; try reflexivity;
        (apply rd_kinds_one; eapply rdk_uleb; [eassumption|exact Hoff]) end.
    + exists (DoConvert 0). split; [|reflexivity]. cbn [app].
      destruct (v5 e); [step 168 [K_uleb] [AU 0]|step 247 [K_uleb] [AU 0]]; try reflexivity;
      (apply rd_kinds_one; apply (rdk_uleb _ 0 [n2b 0] rest); [reflexivity|lia]).
Qed.

Lemma dw_Reinterpret dbg e uo refs offsets pos (base : option N) bs fx rest :
  wf_op (WoReinterpret base) = true -> wf_uoffs uo = true -> decodable (WoReinterpret base) = true ->
  pos + blen bs < 2 ^ 63 -> Forall (fun x => x < 2 ^ 63) offsets ->
  write_op dbg e uo refs offsets pos (WoReinterpret base) = Ok (bs, fx) ->
  exists d, decode_one (dcfg_of e) (bs ++ rest) = Some (d, rest) /\
            normal_form dbg e uo refs offsets pos (WoReinterpret base) bs d.
Proof.
  intros Hwf Huo Hdec Hpos Hoffs H.
  cbn [write_op] in H; cbn [wf_op decodable] in Hwf, Hdec; cbn [normal_form].

    destruct base as [b|]; inv_all.
    + match goal with Hx : entry_offset _ _ _ = Ok ?o |- _ =>
        pose proof (entry_offset_lt _ _ _ _ Huo Hx) as Hoff; exists (DoReinterpret o);
        split; [|exists o; split; [exact Hx|reflexivity]]; cbn [app];
        destruct (v5 e); [step 169 [K_uleb] [AU o]|step 249 [K_uleb] [AU o]]; try reflexivity;
        (apply rd_kinds_one; eapply rdk_uleb; [eassumption|exact Hoff]) end.
    + exists (DoReinterpret 0). split; [|reflexivity]. cbn [app].
      destruct (v5 e); [step 169 [K_uleb] [AU 0]|step 249 [K_uleb] [AU 0]]; try reflexivity;
      (apply rd_kinds_one; apply (rdk_uleb _ 0 [n2b 0] rest); [reflexivity|lia]).
Qed.

Lemma dw_Register dbg e uo refs offsets pos (reg : N) bs fx rest :
  wf_op (WoRegister reg) = true -> wf_uoffs uo = true -> decodable (WoRegister reg) = true ->
  pos + blen bs < 2 ^ 63 -> Forall (fun x => x < 2 ^ 63) offsets ->
  write_op dbg e uo refs offsets pos (WoRegister reg) = Ok (bs, fx) ->
  exists d, decode_one (dcfg_of e) (bs ++ rest) = Some (d, rest) /\
            normal_form dbg e uo refs offsets pos (WoRegister reg) bs d.
Proof.
  intros Hwf Huo Hdec Hpos Hoffs H.
  cbn [write_op] in H; cbn [wf_op decodable] in Hwf, Hdec; cbn [normal_form].

    exists (DoRegister reg). split; [|reflexivity].
    destruct (reg <? 32) eqn:Er; inv_all.
    + lit_byte. cbn [app].
      eapply (decode_one_step _ (80 + reg) [] _ []); [lia|lia|apply layout_48_111; lia|reflexivity|apply meaning_reg; lia].
    + cbn [app]. step 144 [K_uleb] [AU reg].
      * apply rd_kinds_one. eapply rdk_uleb; [eassumption|lia].
      * unfold meaning. cbn. destruct (reg <? 65536) eqn:E; [reflexivity|lia].
Qed.

Lemma dw_ImplicitValue dbg e uo refs offsets pos (data : list byte) bs fx rest :
  wf_op (WoImplicitValue data) = true -> wf_uoffs uo = true -> decodable (WoImplicitValue data) = true ->
  pos + blen bs < 2 ^ 63 -> Forall (fun x => x < 2 ^ 63) offsets ->
  write_op dbg e uo refs offsets pos (WoImplicitValue data) = Ok (bs, fx) ->
  exists d, decode_one (dcfg_of e) (bs ++ rest) = Some (d, rest) /\
            normal_form dbg e uo refs offsets pos (WoImplicitValue data) bs d.
Proof.
  intros Hwf Huo Hdec Hpos Hoffs H.
  cbn [write_op] in H; cbn [wf_op decodable] in Hwf, Hdec; cbn [normal_form].

    inv_all. exists (DoImplicitValue data). split; [|reflexivity].
    rewrite blen_cons, blen_app in Hpos. cbn [app]. rewrite <- app_assoc.
    step 158 [K_blk_uleb] [AB data]; [|reflexivity].
    apply rd_kinds_one. apply rdk_blk_uleb; [eassumption|lia].
Qed.

Lemma dw_ImplicitPointer dbg e uo refs offsets pos (r : dref) (byte_off : Z) bs fx rest :
  wf_op (WoImplicitPointer r byte_off) = true -> wf_uoffs uo = true -> decodable (WoImplicitPointer r byte_off) = true ->
  pos + blen bs < 2 ^ 63 -> Forall (fun x => x < 2 ^ 63) offsets ->
  write_op dbg e uo refs offsets pos (WoImplicitPointer r byte_off) = Ok (bs, fx) ->
  exists d, decode_one (dcfg_of e) (bs ++ rest) = Some (d, rest) /\
            normal_form dbg e uo refs offsets pos (WoImplicitPointer r byte_off) bs d.
Proof.
  intros Hwf Huo Hdec Hpos Hoffs H.
  cbn [write_op] in H; cbn [wf_op decodable] in Hwf, Hdec; cbn [normal_form].

    apply andb_true_iff in Hwf. destruct Hwf as [Hr Hb].
    destruct r as [sy|un en]; unfold write_ref in H; inv_all; try discriminate.
    exists (DoImplicitPointer 0 byte_off). split; [|reflexivity]. cbn [app]. rewrite <- app_assoc.
    destruct (v5 e); [step 160 [K_ref; K_sleb] [AU 0; AS byte_off]|step 242 [K_ref; K_sleb] [AU 0; AS byte_off]];
      try reflexivity;
      (eapply rd_kinds_cons; [apply rdk_ref; [lia|eassumption]|apply rd_kinds_one; apply rdk_sleb; [eassumption|exact Hb]]).
Qed.

Lemma dw_Piece dbg e uo refs offsets pos (size_in_bytes : N) bs fx rest :
  wf_op (WoPiece size_in_bytes) = true -> wf_uoffs uo = true -> decodable (WoPiece size_in_bytes) = true ->
  pos + blen bs < 2 ^ 63 -> Forall (fun x => x < 2 ^ 63) offsets ->
  write_op dbg e uo refs offsets pos (WoPiece size_in_bytes) = Ok (bs, fx) ->
  exists d, decode_one (dcfg_of e) (bs ++ rest) = Some (d, rest) /\
            normal_form dbg e uo refs offsets pos (WoPiece size_in_bytes) bs d.
Proof.
  intros Hwf Huo Hdec Hpos Hoffs H.
  cbn [write_op] in H; cbn [wf_op decodable] in Hwf, Hdec; cbn [normal_form].

    inv_all. exists (DoPiece (size_in_bytes * 8) None). split; [|reflexivity]. cbn [app].
    step 147 [K_uleb] [AU size_in_bytes].
    + apply rd_kinds_one. eapply rdk_uleb; [eassumption|apply is_u64_lt; exact Hwf].
    + unfold meaning. cbn. destruct (size_in_bytes * 8 <? 2 ^ 64) eqn:E; [reflexivity|lia].
Qed.

Lemma dw_BitPiece dbg e uo refs offsets pos (size_in_bits bit_off : N) bs fx rest :
  wf_op (WoBitPiece size_in_bits bit_off) = true -> wf_uoffs uo = true -> decodable (WoBitPiece size_in_bits bit_off) = true ->
  pos + blen bs < 2 ^ 63 -> Forall (fun x => x < 2 ^ 63) offsets ->
  write_op dbg e uo refs offsets pos (WoBitPiece size_in_bits bit_off) = Ok (bs, fx) ->
  exists d, decode_one (dcfg_of e) (bs ++ rest) = Some (d, rest) /\
            normal_form dbg e uo refs offsets pos (WoBitPiece size_in_bits bit_off) bs d.
Proof.
  intros Hwf Huo Hdec Hpos Hoffs H.
  cbn [write_op] in H; cbn [wf_op decodable] in Hwf, Hdec; cbn [normal_form].

    apply andb_true_iff in Hwf. destruct Hwf as [Hs Ho]. inv_all.
    exists (DoPiece size_in_bits (Some bit_off)). split; [|reflexivity]. cbn [app]. rewrite <- app_assoc.
    step 157 [K_uleb; K_uleb] [AU size_in_bits; AU bit_off]; [|reflexivity].
    eapply rd_kinds_cons; [eapply rdk_uleb; [eassumption|apply is_u64_lt; exact Hs]
                          |apply rd_kinds_one; eapply rdk_uleb; [eassumption|apply is_u64_lt; exact Ho]].
Qed.

Lemma dw_ParameterRef dbg e uo refs offsets pos (entry : N) bs fx rest :
  wf_op (WoParameterRef entry) = true -> wf_uoffs uo = true -> decodable (WoParameterRef entry) = true ->
  pos + blen bs < 2 ^ 63 -> Forall (fun x => x < 2 ^ 63) offsets ->
  write_op dbg e uo refs offsets pos (WoParameterRef entry) = Ok (bs, fx) ->
  exists d, decode_one (dcfg_of e) (bs ++ rest) = Some (d, rest) /\
            normal_form dbg e uo refs offsets pos (WoParameterRef entry) bs d.
Proof.
  intros Hwf Huo Hdec Hpos Hoffs H.
  cbn [write_op] in H; cbn [wf_op decodable] in Hwf, Hdec; cbn [normal_form].

    inv_all.
    match goal with Hx : entry_offset _ _ _ = Ok ?o |- _ =>
      pose proof (entry_offset_lt _ _ _ _ Huo Hx) as Hoff; exists (DoParameterRef o);
      split; [|exists o; split; [exact Hx|reflexivity]]; cbn [app];
      step 250 [K_u32] [AU o]; [|reflexivity];
      apply rd_kinds_one; apply (rdk_u32 (dcfg_of e)); [exact Hoff|eassumption] end.
Qed.

Lemma decode_one_wasm c k i b rest :
  k < 3 -> rd_uleb (b ++ rest) = Some (i, rest) -> i < 4294967296 ->
  decode_one c (n2b 237 :: n2b k :: b ++ rest) =
  Some ((if k =? 0 then DoWasmLocal i else if k =? 1 then DoWasmGlobal i else DoWasmStack i), rest).
Proof.
  intros Hk Hr Hi. unfold decode_one. rewrite b2n_n2b_small by lia. rewrite N.eqb_refl.
  unfold decode_wasm. rewrite b2n_n2b_small by lia.
  destruct (k <? 3) eqn:E; [|lia]. rewrite Hr.
  destruct (i <? 2 ^ 32) eqn:E2; [reflexivity|].
  exfalso. change (2 ^ 32) with 4294967296 in E2. lia.
Qed.

Lemma dw_WasmLocal dbg e uo refs offsets pos (i : N) bs fx rest :
  wf_op (WoWasmLocal i) = true -> wf_uoffs uo = true -> decodable (WoWasmLocal i) = true ->
  pos + blen bs < 2 ^ 63 -> Forall (fun x => x < 2 ^ 63) offsets ->
  write_op dbg e uo refs offsets pos (WoWasmLocal i) = Ok (bs, fx) ->
  exists d, decode_one (dcfg_of e) (bs ++ rest) = Some (d, rest) /\
            normal_form dbg e uo refs offsets pos (WoWasmLocal i) bs d.
Proof.
  intros Hwf Huo Hdec Hpos Hoffs H. clear Hpos Hoffs Huo Hdec.
  cbn [write_op] in H. cbn [wf_op] in Hwf. cbn [normal_form].
  unfold only in H. apply bind_ok_inv in H. destruct H as [x [Hx H]].
  apply bind_ok_inv in Hx. destruct Hx as [b [Hb Hx]]. inversion Hx; subst x. inversion H; subst bs fx. clear H Hx.
  exists (DoWasmLocal i). split; [|reflexivity]. cbn [app].
  apply N.ltb_lt in Hwf. unfold two32 in Hwf.
  rewrite (decode_one_wasm _ 0 i b rest); [reflexivity|reflexivity| |exact Hwf].
  eapply rd_uleb_written; [exact Hb|]. eapply N.lt_trans; [exact Hwf|reflexivity].
Qed.

Lemma dw_WasmGlobal dbg e uo refs offsets pos (i : N) bs fx rest :
  wf_op (WoWasmGlobal i) = true -> wf_uoffs uo = true -> decodable (WoWasmGlobal i) = true ->
  pos + blen bs < 2 ^ 63 -> Forall (fun x => x < 2 ^ 63) offsets ->
  write_op dbg e uo refs offsets pos (WoWasmGlobal i) = Ok (bs, fx) ->
  exists d, decode_one (dcfg_of e) (bs ++ rest) = Some (d, rest) /\
            normal_form dbg e uo refs offsets pos (WoWasmGlobal i) bs d.
Proof.
  intros Hwf Huo Hdec Hpos Hoffs H. clear Hpos Hoffs Huo Hdec.
  cbn [write_op] in H. cbn [wf_op] in Hwf. cbn [normal_form].
  unfold only in H. apply bind_ok_inv in H. destruct H as [x [Hx H]].
  apply bind_ok_inv in Hx. destruct Hx as [b [Hb Hx]]. inversion Hx; subst x. inversion H; subst bs fx. clear H Hx.
  exists (DoWasmGlobal i). split; [|reflexivity]. cbn [app].
  apply N.ltb_lt in Hwf. unfold two32 in Hwf.
  rewrite (decode_one_wasm _ 1 i b rest); [reflexivity|reflexivity| |exact Hwf].
  eapply rd_uleb_written; [exact Hb|]. eapply N.lt_trans; [exact Hwf|reflexivity].
Qed.

Lemma dw_WasmStack dbg e uo refs offsets pos (i : N) bs fx rest :
  wf_op (WoWasmStack i) = true -> wf_uoffs uo = true -> decodable (WoWasmStack i) = true ->
  pos + blen bs < 2 ^ 63 -> Forall (fun x => x < 2 ^ 63) offsets ->
  write_op dbg e uo refs offsets pos (WoWasmStack i) = Ok (bs, fx) ->
  exists d, decode_one (dcfg_of e) (bs ++ rest) = Some (d, rest) /\
            normal_form dbg e uo refs offsets pos (WoWasmStack i) bs d.
Proof.
  intros Hwf Huo Hdec Hpos Hoffs H. clear Hpos Hoffs Huo Hdec.
  cbn [write_op] in H. cbn [wf_op] in Hwf. cbn [normal_form].
  unfold only in H. apply bind_ok_inv in H. destruct H as [x [Hx H]].
  apply bind_ok_inv in Hx. destruct Hx as [b [Hb Hx]]. inversion Hx; subst x. inversion H; subst bs fx. clear H Hx.
  exists (DoWasmStack i). split; [|reflexivity]. cbn [app].
  apply N.ltb_lt in Hwf. unfold two32 in Hwf.
  rewrite (decode_one_wasm _ 2 i b rest); [reflexivity|reflexivity| |exact Hwf].
  eapply rd_uleb_written; [exact Hb|]. eapply N.lt_trans; [exact Hwf|reflexivity].
Qed.

Lemma decode_written_leaf dbg e uo refs offsets pos o bs fx rest :
  (forall ex, o <> WoEntryValue ex) ->
  wf_op o = true -> wf_uoffs uo = true -> decodable o = true ->
  pos + blen bs < 2 ^ 63 -> Forall (fun x => x < 2 ^ 63) offsets ->
  write_op dbg e uo refs offsets pos o = Ok (bs, fx) ->
  exists d, decode_one (dcfg_of e) (bs ++ rest) = Some (d, rest) /\
            normal_form dbg e uo refs offsets pos o bs d.
Proof.
  intros Hne Hwf Huo Hdec Hpos Hoffs H.
  destruct o; try (exfalso; eapply Hne; reflexivity).
  - eapply dw_Raw; eassumption.
  - eapply dw_Simple; eassumption.
  - eapply dw_Address; eassumption.
  - eapply dw_UConst; eassumption.
  - eapply dw_SConst; eassumption.
  - eapply dw_ConstType; eassumption.
  - eapply dw_FrameOffset; eassumption.
  - eapply dw_RegOffset; eassumption.
  - eapply dw_RegType; eassumption.
  - eapply dw_Pick; eassumption.
  - eapply dw_Deref; eassumption.
  - eapply dw_DerefSize; eassumption.
  - eapply dw_DerefType; eassumption.
  - eapply dw_PlusConst; eassumption.
  - eapply dw_Skip; eassumption.
  - eapply dw_Branch; eassumption.
  - eapply dw_Call; eassumption.
  - eapply dw_CallRef; eassumption.
  - eapply dw_VarValue; eassumption.
  - eapply dw_Convert; eassumption.
  - eapply dw_Reinterpret; eassumption.
  - eapply dw_Register; eassumption.
  - eapply dw_ImplicitValue; eassumption.
  - eapply dw_ImplicitPointer; eassumption.
  - eapply dw_Piece; eassumption.
  - eapply dw_BitPiece; eassumption.
  - eapply dw_ParameterRef; eassumption.
  - eapply dw_WasmLocal; eassumption.
  - eapply dw_WasmGlobal; eassumption.
  - eapply dw_WasmStack; eassumption.
Qed.


(* every operation, nested ones included: the bytes of one written operation decode to its normal form *)
Theorem decode_written_op dbg e uo refs offsets pos o bs fx rest :
  wf_op o = true -> wf_uoffs uo = true -> decodable o = true ->
  pos + blen bs < 2 ^ 63 -> Forall (fun x => x < 2 ^ 63) offsets ->
  write_op dbg e uo refs offsets pos o = Ok (bs, fx) ->
  exists d, decode_one (dcfg_of e) (bs ++ rest) = Some (d, rest) /\
            normal_form dbg e uo refs offsets pos o bs d.
Proof.
  intros Hwf Huo Hdec Hpos Hoffs H.
  destruct o; try (eapply decode_written_leaf; eauto; intros ex Hex; discriminate Hex).
  (* EntryValue *)
  cbn [write_op] in H.
  apply bind_ok_inv in H. destruct H as [len [Hlen H]].
  apply bind_ok_inv in H. destruct H as [lb [Hlb H]].
  apply bind_ok_inv in H. destruct H as [[inner f] [Hw H]]. inversion H; subst. clear H.
  rewrite blen_cons, blen_app in Hpos.
  assert (Hsz : sum_sizes dbg (size_op dbg e uo) 0 expr = Ok (blen inner)).
  { eapply write_expr_with_sizes; [|exact Hw|change (2 ^ 64) with 18446744073709551616; change (2 ^ 63) with 9223372036854775808 in Hpos; lia].
    apply Forall_forall. intros o _ offs' pos' b1 f1. apply op_size_write_all. }
  rewrite Hsz in Hlen. inversion Hlen; subst len. clear Hlen.
  exists (DoEntryValue inner). split.
  - cbn [app]. rewrite <- app_assoc.
    assert (Hb : blen inner < 2 ^ 64)
      by (change (2 ^ 64) with 18446744073709551616; change (2 ^ 63) with 9223372036854775808 in Hpos; lia).
    destruct (v5 e).
    + step 163 [K_blk_uleb] [AB inner]; [|reflexivity]. apply rd_kinds_one. apply rdk_blk_uleb; assumption.
    + step 243 [K_blk_uleb] [AB inner]; [|reflexivity]. apply rd_kinds_one. apply rdk_blk_uleb; assumption.
  - cbn [normal_form]. exists lb, inner, fx. split; [reflexivity|]. split; [reflexivity|]. exact Hw.
Qed.

(* a decodable operation emits at least one byte *)
Lemma decode_one_nil c : decode_one c [] = None.
Proof. reflexivity. Qed.

(* ---- the whole expression ---- *)

(* `decoded nf base ex offsets dl`: dl lists, for each operation of ex in order, its offset from the start of
   the expression and an operation in normal form for it *)
Inductive decoded (nf : N -> wop -> dop -> Prop) (base : N) : list wop -> list N -> list (N * dop) -> Prop :=
| dec_nil fin : decoded nf base [] [fin] []
| dec_cons o r p offs d dl :
    nf p o d -> decoded nf base r offs dl ->
    decoded nf base (o :: r) (p :: offs) ((p - base, d) :: dl).

Lemma laid_decode c (wr : N -> wop -> wres) (nf : N -> wop -> dop -> Prop) base :
  forall ex pos offs bs fx,
  laid wr pos ex offs bs fx ->
  (forall pos o b f rest, In o ex -> wr pos o = Ok (b, f) -> pos + blen b < 2 ^ 63 ->
     exists d, decode_one c (b ++ rest) = Some (d, rest) /\ nf pos o d) ->
  pos + blen bs < 2 ^ 63 -> base <= pos ->
  forall fuel, (length bs <= fuel)%nat ->
  exists dl, decode_from fuel c (pos - base) bs = Some dl /\ decoded nf base ex offs dl.
Proof.
  induction 1 as [pos|pos o r offs b f bs fx Ho Hl IH]; intros Hdec Hpos Hbase fuel Hfuel.
  - exists []. split; [destruct fuel; reflexivity|constructor].
  - rewrite blen_app in Hpos.
    destruct (Hdec pos o b f bs (or_introl eq_refl) Ho) as [d [Hd Hn]]; [lia|].
    assert (Hb : b <> []).
    { intros ->. destruct (Hdec pos o [] f [] (or_introl eq_refl) Ho) as [d' [Hd' _]]; [rewrite blen_nil; lia|].
      cbn [app] in Hd'. rewrite decode_one_nil in Hd'. discriminate. }
    destruct b as [|b0 b']; [congruence|].
    destruct fuel as [|fuel]; [cbn [app length] in Hfuel; lia|].
    destruct (IH) with (fuel := fuel) as [dl [Hdl Hdd]].
    + intros pos' o' b1 f1 rest Hin. apply Hdec. right. exact Hin.
    + lia.
    + lia.
    + cbn [app length] in Hfuel. rewrite app_length in Hfuel. lia.
    + exists ((pos - base, d) :: dl). split; [|constructor; assumption].
      cbn [app]. cbn [decode_from]. cbn [app] in Hd. rewrite Hd.
      replace (pos - base + (N.of_nat (length (b0 :: b' ++ bs)) - N.of_nat (length bs)))
        with (pos + blen (b0 :: b') - base).
      * rewrite Hdl. reflexivity.
      * unfold blen. cbn [length]. rewrite app_length. lia.
Qed.

Lemma laid_offsets_bound wr : forall ex pos offs bs fx,
  laid wr pos ex offs bs fx -> forall bound, pos + blen bs < bound -> Forall (fun x => x < bound) offs.
Proof.
  induction 1 as [pos|pos o r offs b f bs fx Ho Hl IH]; intros bound Hb.
  - constructor; [rewrite blen_nil in Hb; lia|constructor].
  - rewrite blen_app in Hb. constructor; [lia|]. apply IH. lia.
Qed.

Lemma laid_wr_ext (wr wr' : N -> wop -> wres) : forall ex pos offs bs fx,
  laid wr pos ex offs bs fx -> (forall p o, wr p o = wr' p o) -> laid wr' pos ex offs bs fx.
Proof. induction 1; intros E; constructor; auto. rewrite <- E. assumption. Qed.

(* (3) what was written decodes, operation by operation, to the normal forms of the operations built *)
Theorem decode_written_expr dbg e uo refs base ex bs fx :
  forallb wf_op ex = true -> wf_uoffs uo = true -> forallb decodable ex = true ->
  base + blen bs < 2 ^ 63 ->
  write_expr dbg e uo refs base ex = Ok (bs, fx) ->
  exists offsets dl,
    expr_offsets dbg e uo base ex = Ok offsets /\
    decode (dcfg_of e) bs = Some dl /\
    decoded (fun p o d => exists b, normal_form dbg e uo refs offsets p o b d) base ex offsets dl.
Proof.
  intros Hwf Huo Hdec Hpos H.
  destruct (write_expr_laid _ _ _ _ _ _ _ _ H) as [offsets [Ho Hl]].
  { change (2 ^ 64) with 18446744073709551616; change (2 ^ 63) with 9223372036854775808 in Hpos; lia. }
  exists offsets.
  pose proof (laid_offsets_bound _ _ _ _ _ _ Hl _ Hpos) as Hob.
  destruct (laid_decode (dcfg_of e) _ (fun p o d => exists b, normal_form dbg e uo refs offsets p o b d) base
              _ _ _ _ _ Hl) with (fuel := length bs) as [dl [Hdl Hdd]].
  - intros pos o b f rest Hin Hw Hp.
    rewrite forallb_forall in Hwf, Hdec.
    destruct (decode_written_op dbg e uo refs offsets pos o b f rest (Hwf _ Hin) Huo (Hdec _ Hin) Hp Hob Hw)
      as [d [Hd Hn]].
    exists d. split; [exact Hd|exists b; exact Hn].
  - exact Hpos.
  - lia.
  - lia.
  - exists dl. split; [exact Ho|]. split; [|exact Hdd].
    unfold decode. rewrite N.sub_diag in Hdl. exact Hdl.
Qed.

(* ================= (4) branches land on the start of the intended operation ================= *)

Lemma nth_N_nth_error {A} : forall (l : list A) n, nth_N l n = nth_error l (N.to_nat n).
Proof.
  induction l as [|x r IH]; intros n; cbn [nth_N].
  - destruct (N.to_nat n); reflexivity.
  - destruct (n =? 0) eqn:E.
    + assert (n = 0) by lia. subst. reflexivity.
    + rewrite IH. replace (N.to_nat n) with (S (N.to_nat (n - 1))) by lia. reflexivity.
Qed.

Lemma decoded_len nf base ex offs dl : decoded nf base ex offs dl -> length dl = length ex /\ length offs = S (length ex).
Proof. induction 1 as [|o r p offs d dl Hn Hd [IH1 IH2]]; cbn [length]; split; auto. Qed.

Lemma decoded_nth nf base : forall ex offs dl, decoded nf base ex offs dl ->
  forall k o, nth_error ex k = Some o ->
  exists p d, nth_error offs k = Some p /\ nth_error dl k = Some (p - base, d) /\ nf p o d.
Proof.
  induction 1 as [|o r p offs d dl Hn Hd IH]; intros k o' Hk.
  - destruct k; discriminate.
  - destruct k as [|k]; cbn [nth_error] in *.
    + inversion Hk; subst. exists p, d. auto.
    + apply IH. exact Hk.
Qed.

Lemma decoded_starts nf base : forall ex offs dl, decoded nf base ex offs dl ->
  map (fun p => p - base) offs = map fst dl ++ [last offs 0 - base].
Proof.
  induction 1 as [fin|o r p offs d dl Hn Hd IH].
  - reflexivity.
  - cbn [map app fst]. rewrite IH. f_equal. f_equal. f_equal.
    destruct offs as [|x xs]; [apply decoded_len in Hd; destruct Hd; discriminate|reflexivity].
Qed.

Lemma laid_offsets_ge wr : forall ex pos offs bs fx,
  laid wr pos ex offs bs fx -> Forall (fun p => pos <= p) offs.
Proof.
  induction 1 as [pos|pos o r offs b f bs fx Ho Hl IH].
  - constructor; [lia|constructor].
  - constructor; [lia|]. eapply Forall_impl; [|exact IH]. cbv beta. intros a Ha. lia.
Qed.

(* the start offsets of the decoded operations, then the end of the expression *)
Definition starts (dl : list (N * dop)) (bs : list byte) : list N := map fst dl ++ [blen bs].

Theorem branches_land_expr dbg e uo refs base ex bs fx :
  forallb wf_op ex = true -> wf_uoffs uo = true -> forallb decodable ex = true ->
  base + blen bs < 2 ^ 63 ->
  write_expr dbg e uo refs base ex = Ok (bs, fx) ->
  exists dl,
    decode (dcfg_of e) bs = Some dl /\ length dl = length ex /\
    (forall k t, nth_error ex k = Some (WoSkip t) ->
       exists off disp tgt, nth_error dl k = Some (off, DoSkip disp) /\
                            nth_error (starts dl bs) (N.to_nat t) = Some tgt /\
                            (Z.of_N off + 3 + disp = Z.of_N tgt)%Z) /\
    (forall k t, nth_error ex k = Some (WoBranch t) ->
       exists off disp tgt, nth_error dl k = Some (off, DoBra disp) /\
                            nth_error (starts dl bs) (N.to_nat t) = Some tgt /\
                            (Z.of_N off + 3 + disp = Z.of_N tgt)%Z).
Proof.
  intros Hwf Huo Hdec Hpos H.
  destruct (decode_written_expr _ _ _ _ _ _ _ _ Hwf Huo Hdec Hpos H) as [offsets [dl [Ho [Hd Hdd]]]].
  destruct (write_expr_laid _ _ _ _ _ _ _ _ H) as [offsets' [Ho' Hl]].
  { change (2 ^ 64) with 18446744073709551616; change (2 ^ 63) with 9223372036854775808 in Hpos; lia. }
  rewrite Ho in Ho'. inversion Ho'; subst offsets'. clear Ho'.
  pose proof (laid_offsets_ge _ _ _ _ _ _ Hl) as Hge. rewrite Forall_forall in Hge.
  pose proof (laid_end _ _ _ _ _ _ Hl) as Hend.
  pose proof (decoded_starts _ _ _ _ _ Hdd) as Hst. rewrite Hend in Hst.
  replace (base + blen bs - base) with (blen bs) in Hst by lia.
  exists dl. split; [exact Hd|]. split; [apply (decoded_len _ _ _ _ _ Hdd)|].
  assert (Hgen : forall k t o, nth_error ex k = Some o ->
            forall p d tv disp, nth_error offsets k = Some p -> nth_error dl k = Some (p - base, d) ->
            nth_N offsets t = Some tv -> (Z.of_N p + 3 + disp = Z.of_N tv)%Z ->
            nth_error (starts dl bs) (N.to_nat t) = Some (tv - base) /\
            (Z.of_N (p - base) + 3 + disp = Z.of_N (tv - base))%Z).
  { intros k t o Hk p d tv disp Hp Hdk Htv Heq.
    assert (base <= p) by (apply Hge; eapply nth_error_In; eauto).
    assert (base <= tv) by (apply Hge; eapply nth_N_In; eauto).
    split; [|lia].
    unfold starts. rewrite <- Hst. rewrite nth_N_nth_error in Htv.
    rewrite nth_error_map, Htv. reflexivity. }
  split.
  - intros k t Hk. destruct (decoded_nth _ _ _ _ _ Hdd _ _ Hk) as [p [d [Hp [Hdk [b Hn]]]]].
    cbn [normal_form] in Hn. destruct Hn as [tv [disp [Htv [Heq Hdd']]]]. subst d.
    destruct (Hgen k t _ Hk p _ tv disp Hp Hdk Htv Heq) as [G1 G2].
    exists (p - base), disp, (tv - base). auto.
  - intros k t Hk. destruct (decoded_nth _ _ _ _ _ Hdd _ _ Hk) as [p [d [Hp [Hdk [b Hn]]]]].
    cbn [normal_form] in Hn. destruct Hn as [tv [disp [Htv [Heq Hdd']]]]. subst d.
    destruct (Hgen k t _ Hk p _ tv disp Hp Hdk Htv Heq) as [G1 G2].
    exists (p - base), disp, (tv - base). auto.
Qed.

(* exact behaviour of the two branch arms, including the two failure modes *)
Theorem branch_write_spec dbg e uo refs offsets pos t :
  pos + 3 < 2 ^ 63 -> Forall (fun x => x < 2 ^ 63) offsets ->
  let result (opc : N) :=
    match nth_N offsets t with
    | None => Panic                                   (* `offsets[target]` out of range *)
    | Some tv =>
        let d := (Z.of_N tv - (Z.of_N pos + 3))%Z in
        if in_signed 16 d then Ok (n2b opc :: enc_un 2 (e_be e) (of_signed 16 d), [])
        else Err WValueTooLarge
    end in
  write_op dbg e uo refs offsets pos (WoSkip t) = result 47 /\
  write_op dbg e uo refs offsets pos (WoBranch t) = result 40.
Proof.
  intros Hp Ho. cbv zeta. cbn [write_op]. unfold only.
  rewrite branch_operand_spec;
    [|lia|intros tv Htv; apply nth_N_In in Htv; rewrite Forall_forall in Ho; apply Ho; exact Htv].
  destruct (nth_N offsets t) as [tv|]; [|split; reflexivity].
  cbv zeta. replace (Z.of_N tv - (Z.of_N (pos + 1) + 2))%Z with (Z.of_N tv - (Z.of_N pos + 3))%Z by lia.
  destruct (in_signed 16 (Z.of_N tv - (Z.of_N pos + 3))); split; reflexivity.
Qed.

(* ================= (5) references to entries ================= *)

(* the entry whose unit offset an operation embeds *)
Definition uses_entry (o : wop) : option N :=
  match o with
  | WoConstType b _ => Some b
  | WoRegType _ b => Some b
  | WoDerefType _ _ b => Some b
  | WoCall en => Some en
  | WoParameterRef en => Some en
  | WoConvert (Some b) => Some b
  | WoReinterpret (Some b) => Some b
  | _ => None
  end.

(* where the unit offset comes from, and the two ways of not having one *)
Theorem entry_offset_cases dbg uo en :
  entry_offset dbg uo en =
  match uo with
  | None => Err WUnsupportedCfiExpressionReference
  | Some u =>
      match nth_N (uo_entries u) en with
      | None => Err WUnsupportedExpressionForwardReference     (* id beyond the entries vector: reserved, never added *)
      | Some off =>
          if off =? 0 then Err WUnsupportedExpressionForwardReference
          else chk_sub 64 dbg off (uo_unit u)
      end
  end.
Proof.
  unfold entry_offset, unit_offset, debug_info_offset. destruct uo as [u|]; [|reflexivity].
  destruct (nth_N (uo_entries u) en) as [off|]; [|reflexivity].
  destruct (off =? 0); [reflexivity|]. cbn [bind].
  destruct (chk_sub 64 dbg off (uo_unit u)); reflexivity.
Qed.

Lemma entry_offset_base_size_err dbg uo en er :
  entry_offset dbg uo en = Err er -> base_size dbg uo en = Err er.
Proof.
  unfold entry_offset, base_size. destruct uo as [u|]; [|auto].
  destruct (unit_offset dbg u en) as [[v|]| | |]; cbn [bind]; auto; discriminate.
Qed.

Lemma write_uleb_fuel_ok : forall f v, v < 2 ^ (7 * N.of_nat (S f)) -> exists bs, write_uleb_fuel (S f) v = Ok bs.
Proof.
  induction f as [|f IH]; intros v Hv.
  - change (2 ^ (7 * N.of_nat 1)) with 128 in Hv. cbn [write_uleb_fuel]. rewrite shiftr7.
    destruct (v / 128 =? 0) eqn:E; [eexists; reflexivity|].
    exfalso. assert (v / 128 = 0) by (apply N.div_small; exact Hv). lia.
  - remember (S f) as g. cbn [write_uleb_fuel]. destruct (N.shiftr v 7 =? 0); [eexists; reflexivity|].
    subst g. destruct (IH (N.shiftr v 7)) as [r Hr].
    + rewrite shiftr7. replace (7 * N.of_nat (S (S f))) with (7 + 7 * N.of_nat (S f)) in Hv by lia.
      rewrite N.pow_add_r in Hv. change (2 ^ 7) with 128 in Hv.
      apply N.div_lt_upper_bound; lia.
    + rewrite Hr. eexists; reflexivity.
Qed.

Lemma write_uleb128_ok v : v < 2 ^ 64 -> exists bs, write_uleb128 v = Ok bs.
Proof.
  intros Hv. apply (write_uleb_fuel_ok 9). eapply N.lt_trans; [exact Hv|].
  change (7 * N.of_nat 10) with 70. reflexivity.
Qed.

(* without the target's unit offset both passes fail with the error that says why *)
Theorem typed_ref_needs_offset dbg e uo refs offsets pos o en er :
  uses_entry o = Some en -> wf_op o = true ->
  entry_offset dbg uo en = Err er ->
  write_op dbg e uo refs offsets pos o = Err er /\
  match o with
  | WoCall _ | WoParameterRef _ => True          (* fixed 4-byte operand: size() does not look the entry up *)
  | _ => size_op dbg e uo o = Err er
  end.
Proof.
  intros Hu Hwf He.
  destruct o; try discriminate Hu; cbn [uses_entry] in Hu;
    try (destruct base as [b|]; [|discriminate Hu]); inversion Hu; subst;
    cbn [write_op size_op]; unfold only; rewrite ?He, ?(entry_offset_base_size_err _ _ _ _ He); cbn [bind];
    try (split; [reflexivity|try reflexivity; exact I]).
  (* RegType writes the register first *)
  cbn [wf_op] in Hwf. apply andb_true_iff in Hwf. destruct Hwf as [Hr _].
  destruct (write_uleb128_ok reg) as [rb Hrb].
  { eapply N.lt_trans; [apply N.ltb_lt; exact Hr|reflexivity]. }
  rewrite Hrb. cbn [bind]. split; reflexivity.
Qed.

(* call_ref / variable_value / implicit_pointer: a placeholder of the reference size and one fix-up
   pointing at it; symbols and a missing fix-up list are errors *)
Definition ref_operand (e : enc) (o : wop) : option (dref * N) :=
  match o with
  | WoCallRef r => Some (r, word_size (e_fmt64 e))
  | WoVarValue r => Some (r, word_size (e_fmt64 e))
  | WoImplicitPointer r _ => Some (r, iptr_size e)
  | _ => None
  end.

Theorem ref_write_spec dbg e uo refs offsets pos o r size :
  ref_operand e o = Some (r, size) ->
  match r with
  | RSym _ => write_op dbg e uo refs offsets pos o = Err WInvalidReference
  | REntry u en =>
      if refs then
        forall bs fx, write_op dbg e uo refs offsets pos o = Ok (bs, fx) ->
          fx = [{| fx_offset := pos + 1; fx_size := size; fx_unit := u; fx_entry := en |}] /\
          exists opc z tail, bs = opc :: z ++ tail /\ write_udata (e_be e) 0 size = Ok z
      else write_op dbg e uo refs offsets pos o = Err WInvalidReference
  end.
Proof.
  intros Hr. destruct o; try discriminate Hr; cbn [ref_operand] in Hr; inversion Hr; subst; clear Hr;
    cbn [write_op]; unfold write_ref; destruct r as [s|u en]; try reflexivity; destruct refs; try reflexivity.
  - intros bs fx H. inv_all. split; [reflexivity|]. eexists _, _, []. rewrite app_nil_r. split; [reflexivity|eassumption].
  - intros bs fx H. inv_all. split; [reflexivity|]. eexists _, _, []. rewrite app_nil_r. split; [reflexivity|eassumption].
  - intros bs fx H. inv_all. split; [reflexivity|]. eexists _, _, _. split; [reflexivity|eassumption].
Qed.

(* applying a fix-up writes the target's .debug_info offset into the placeholder and nothing else *)
Lemma overwrite_length : forall buf n w, (n + length w <= length buf)%nat -> length (overwrite buf n w) = length buf.
Proof.
  induction buf as [|x buf IH]; intros n w H.
  - destruct n; destruct w; cbn in *; try lia; reflexivity.
  - destruct n as [|n].
    + destruct w as [|b w]; [reflexivity|]. cbn [overwrite length] in *. f_equal. apply (IH 0%nat). lia.
    + cbn [overwrite length] in *. f_equal. apply IH. lia.
Qed.

Lemma overwrite_skipn : forall buf n w, (n + length w <= length buf)%nat ->
  skipn n (overwrite buf n w) = w ++ skipn (n + length w) buf.
Proof.
  induction buf as [|x buf IH]; intros n w H.
  - destruct n; destruct w; cbn in *; try lia; reflexivity.
  - destruct n as [|n].
    + destruct w as [|b w]; [reflexivity|]. cbn [overwrite length skipn app Nat.add] in *.
      f_equal. specialize (IH 0%nat w). cbn [skipn Nat.add] in IH. apply IH. lia.
    + cbn [overwrite length skipn Nat.add] in *. apply IH. lia.
Qed.

Lemma overwrite_firstn : forall buf n w, firstn n (overwrite buf n w) = firstn n buf.
Proof.
  induction buf as [|x buf IH]; intros n w.
  - destruct n; destruct w; reflexivity.
  - destruct n as [|n]; [reflexivity|]. cbn [overwrite firstn]. f_equal. apply IH.
Qed.

Theorem fixup_resolves be units sec_base buf f buf' u off :
  apply_fixups be units sec_base buf [f] = Ok buf' ->
  nth_N units (fx_unit f) = Some u -> debug_info_offset u (fx_entry f) = Ok (Some off) -> off < 2 ^ 64 ->
  let at_ := N.to_nat (fx_offset f - sec_base) in
  length buf' = length buf /\
  firstn at_ buf' = firstn at_ buf /\
  exists tail, skipn at_ buf' = tail /\
    rd_sized be (fx_size f) tail = Some (off, skipn (at_ + N.to_nat (fx_size f)) buf).
Proof.
  intros H Hu Ho Hoff. cbv zeta. cbn [apply_fixups] in H. rewrite Hu in H. rewrite Ho in H. cbn [bind] in H.
  apply bind_ok_inv in H. destruct H as [w [Hw H]].
  apply bind_ok_inv in H. destruct H as [b1 [Hb H]]. inversion H; subst b1. clear H.
  unfold write_at in Hb.
  destruct (blen buf <? fx_offset f - sec_base) eqn:E1; [discriminate|].
  destruct (blen buf - (fx_offset f - sec_base) <? blen w) eqn:E2; [discriminate|]. inversion Hb; subst buf'. clear Hb.
  pose proof (write_udata_len _ _ _ _ Hw) as Hl. unfold blen in *.
  assert (Hfit : (N.to_nat (fx_offset f - sec_base) + length w <= length buf)%nat) by lia.
  split; [apply overwrite_length; exact Hfit|]. split; [apply overwrite_firstn|].
  eexists. split; [reflexivity|]. rewrite overwrite_skipn by exact Hfit.
  rewrite (rd_sized_written be off (fx_size f) w _ Hoff Hw). repeat f_equal. lia.
Qed.
