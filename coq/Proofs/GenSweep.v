(* Proofs/GenSweep.v — finite sweeps for the translator-tie lemmas (Proofs/GenAgree*.v): a decidable
   statement checked by vm_compute on [0, n) is lifted to `forall x, x < n -> …` with forallb_forall.
   Depends on no generated file. *)
From Coq Require Import List NArith Bool Lia.
Import ListNotations.
Local Open Scope N_scope.

(* [n-1; ...; 0] without going through nat *)
Definition count_up (n : N) : list N := N.peano_rec (fun _ => list N) [] (fun k l => k :: l) n.

Lemma count_up_in : forall n x, x < n -> In x (count_up n).
Proof.
  intros n. induction n as [|n IH] using N.peano_ind; intros x H; [lia|].
  unfold count_up. rewrite N.peano_rec_succ. fold (count_up n).
  destruct (N.eq_dec x n) as [->|]; [left; reflexivity|right; apply IH; lia].
Qed.

Lemma sweep_lt : forall (p : N -> bool) n,
  forallb p (count_up n) = true -> forall x, x < n -> p x = true.
Proof.
  intros p n S x H. rewrite forallb_forall in S. apply S. apply count_up_in. exact H.
Qed.

Lemma forallb_In : forall (A : Type) (p : A -> bool) (l : list A),
  forallb p l = true -> forall x, In x l -> p x = true.
Proof. intros A p l S x H. rewrite forallb_forall in S. apply S. exact H. Qed.

(* association lists keyed by strings (tables regenerated with Rust identifiers as keys) *)
From Coq Require Import String.
Fixpoint sassoc {A : Type} (k : string) (l : list (string * A)) : option A :=
  match l with
  | [] => None
  | (a, b) :: r => if String.eqb k a then Some b else sassoc k r
  end.
Definition smem (k : string) (l : list string) : bool := existsb (String.eqb k) l.
Fixpoint snodup (l : list string) : bool :=
  match l with [] => true | a :: r => negb (smem a r) && snodup r end.
(* same elements, no repetition: insensitive to the order of the source text *)
Definition sperm (a b : list string) : bool :=
  snodup a && snodup b && forallb (fun x => smem x b) a && forallb (fun x => smem x a) b.

Lemma smem_In : forall k l, smem k l = true <-> In k l.
Proof.
  intros k l. unfold smem. rewrite existsb_exists. split.
  - intros [x [H E]]. apply String.eqb_eq in E. subst. exact H.
  - intros H. exists k. split; [exact H|apply String.eqb_refl].
Qed.
Lemma snodup_NoDup : forall l, snodup l = true -> NoDup l.
Proof.
  induction l as [|a r IH]; cbn; intros H; [constructor|].
  apply andb_prop in H. destruct H as [H1 H2]. constructor; [|apply IH; exact H2].
  intros C. apply smem_In in C. rewrite C in H1. discriminate.
Qed.
Lemma sperm_spec : forall a b, sperm a b = true ->
  NoDup a /\ NoDup b /\ (forall x, In x a <-> In x b).
Proof.
  intros a b H. unfold sperm in H.
  apply andb_prop in H. destruct H as [H H4]. apply andb_prop in H. destruct H as [H H3].
  apply andb_prop in H. destruct H as [H1 H2].
  split; [apply snodup_NoDup; exact H1|]. split; [apply snodup_NoDup; exact H2|].
  intros x. split; intros I.
  - apply smem_In. exact (forallb_In _ _ _ H3 x I).
  - apply smem_In. exact (forallb_In _ _ _ H4 x I).
Qed.
