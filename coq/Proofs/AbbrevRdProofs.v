(* Proofs/AbbrevRdProofs.v — lemmas about Model/AbbrevRd.v (abbreviation tables). *)
From Coq Require Import List NArith ZArith Bool Lia ZifyBool ZifyN ZifyNat.
From Coq.Strings Require Import Byte.
Require Import GV.Base.Res GV.Base.Byt GV.Base.Ints GV.Model.Leb GV.Model.Prim
               GV.Spec.LebSpec GV.Spec.FormSpec GV.Model.Attr GV.Spec.Forest GV.Model.AbbrevRd
               GV.Proofs.AttrProofs.
Import ListNotations.
Local Open Scope N_scope.
Local Arguments N.add : simpl never.
Local Arguments N.sub : simpl never.
Local Arguments N.mul : simpl never.
Local Arguments N.pow : simpl never.
Local Arguments N.div : simpl never.
Local Arguments N.modulo : simpl never.
Local Arguments N.of_nat : simpl never.
Local Ltac Zify.zify_post_hook ::= Z.div_mod_to_equations.

(* ------------------------------------------------------------------ *)
(** * LEB128 helpers *)

Lemma enc_uleb_cons v : exists b r, enc_uleb v = b :: r.
Proof.
  unfold enc_uleb.
  change (enc_uleb_fuel 19 v)
    with (if v <? 128 then [n2b v] else n2b (128 + v mod 128) :: enc_uleb_fuel 18 (v / 128)).
  destruct (v <? 128); eauto.
Qed.

Lemma enc_uleb_length v : (1 <= length (enc_uleb v))%nat.
Proof. destruct (enc_uleb_cons v) as (b & r & E). rewrite E. cbn. lia. Qed.

Lemma enc_uleb_0 : enc_uleb 0 = [x00]. Proof. reflexivity. Qed.

Definition u16_ok (v : N) : bool :=
  match read_uleb128_u16 (enc_uleb v) with
  | Ok (v', []) => v' =? v
  | _ => false
  end.

Lemma u16_sweep :
  forallb (fun hi => forallb (fun lo => u16_ok (256 * hi + lo)) (nrange 256)) (nrange 256) = true.
Proof. vm_compute. reflexivity. Qed.

Lemma read_u16leb_enc v rest : v < two16 -> read_uleb128_u16 (enc_uleb v ++ rest) = Ok (v, rest).
Proof.
  intros H. unfold two16 in H.
  assert (Hhi : v / 256 < N.of_nat 256) by (change (N.of_nat 256) with 256; lia).
  assert (Hlo : v mod 256 < N.of_nat 256) by (change (N.of_nat 256) with 256; lia).
  pose proof (sweep _ 256 u16_sweep _ Hhi) as S1. cbv beta in S1.
  pose proof (sweep _ 256 S1 _ Hlo) as S. cbv beta in S.
  replace (256 * (v / 256) + v mod 256) with v in S by lia.
  unfold u16_ok in S.
  destruct (read_uleb128_u16 (enc_uleb v)) as [[v' r]| | |] eqn:E; try discriminate.
  destruct r; [|discriminate]. apply N.eqb_eq in S. subst v'.
  apply (read_u16leb_app _ _ _ rest) in E. exact E.
Qed.

(* ------------------------------------------------------------------ *)
(** * One declaration *)

Lemma parse_attr_spec_enc dbg s rest : spec_ok s ->
  parse_attr_spec dbg (enc_spec s ++ rest) = Ok (Some s, rest).
Proof.
  intros (Hn & Hf & Hi & Hz). destruct s as [name form implicit]. cbn [at_name at_form at_implicit] in *.
  unfold parse_attr_spec, enc_spec. cbn [at_name at_form at_implicit].
  rewrite <- !app_assoc. rewrite read_u16leb_enc by lia. cbn [bind].
  rewrite read_u16leb_enc by lia. cbn [bind].
  replace (name =? 0) with false by (symmetry; apply N.eqb_neq; lia).
  replace (form =? 0) with false by (symmetry; apply N.eqb_neq; lia).
  cbn [andb]. unfold DW_FORM_implicit_const.
  destruct (N.eqb_spec form 33) as [E|E].
  - rewrite read_sleb128_enc by lia. cbn [bind]. unfold aspec_new. reflexivity.
  - cbn [app]. unfold aspec_new. rewrite (Hz E). reflexivity.
Qed.

Lemma parse_attr_spec_null dbg rest : parse_attr_spec dbg (x00 :: x00 :: rest) = Ok (None, rest).
Proof. reflexivity. Qed.

Lemma parse_attr_specs_enc : forall specs fuel dbg rest,
  Forall spec_ok specs -> (length specs < fuel)%nat ->
  parse_attr_specs fuel dbg (concat (map enc_spec specs) ++ x00 :: x00 :: rest) = Ok (specs, rest).
Proof.
  induction specs as [|s specs IH]; intros fuel dbg rest Hok Hfuel.
  - destruct fuel; [cbn in Hfuel; lia|]. reflexivity.
  - destruct fuel; [cbn in Hfuel; lia|]. inversion Hok; subst.
    cbn [map concat parse_attr_specs]. rewrite <- app_assoc.
    rewrite parse_attr_spec_enc by assumption. cbn [bind].
    rewrite IH by (try assumption; cbn in Hfuel; lia). reflexivity.
Qed.

Lemma enc_spec_length s : (2 <= length (enc_spec s))%nat.
Proof.
  unfold enc_spec. rewrite !app_length.
  pose proof (enc_uleb_length (at_name s)). pose proof (enc_uleb_length (at_form s)). lia.
Qed.

Lemma concat_enc_spec_length specs : (2 * length specs <= length (concat (map enc_spec specs)))%nat.
Proof.
  induction specs as [|s specs IH]; cbn [map concat length]; [lia|].
  rewrite app_length. pose proof (enc_spec_length s). lia.
Qed.

Lemma parse_abbrev_enc dbg a rest : abbrev_ok a ->
  parse_abbrev dbg (enc_abbrev a ++ rest) = Ok (Some a, rest).
Proof.
  intros (Hc & Ht & Hs). destruct a as [code tag hc specs]. cbn [ab_code ab_tag ab_children ab_specs] in *.
  unfold parse_abbrev, enc_abbrev. cbn [ab_code ab_tag ab_children ab_specs].
  destruct (enc_uleb_cons code) as (b & r & E).
  replace (is_nil ((enc_uleb code ++ enc_uleb tag ++ [if hc then x01 else x00] ++
                    concat (map enc_spec specs) ++ [x00; x00]) ++ rest)) with false
    by (rewrite E; reflexivity).
  rewrite <- !app_assoc. rewrite read_uleb128_enc by lia. cbn [bind].
  replace (code =? 0) with false by (symmetry; apply N.eqb_neq; lia).
  unfold parse_tag. rewrite read_u16leb_enc by lia. cbn [bind].
  replace (tag =? 0) with false by (symmetry; apply N.eqb_neq; lia).
  cbn [bind]. unfold parse_has_children. cbn [app read_u8 bind].
  assert (Hhc : (if b2n (if hc then x01 else x00) =? 0 then Ok (false, concat (map enc_spec specs) ++ [x00; x00] ++ rest)
                 else if b2n (if hc then x01 else x00) =? 1
                      then Ok (true, concat (map enc_spec specs) ++ [x00; x00] ++ rest)
                      else Err EInvalidAbbreviationChildren)
                = Ok (hc, concat (map enc_spec specs) ++ [x00; x00] ++ rest)).
  { destruct hc; reflexivity. }
  cbn [app] in Hhc |- *. rewrite Hhc. cbn [bind].
  rewrite parse_attr_specs_enc; [reflexivity|assumption|].
  rewrite app_length. pose proof (concat_enc_spec_length specs). cbn [length]. lia.
Qed.

Lemma enc_abbrev_length a : (1 <= length (enc_abbrev a))%nat.
Proof. unfold enc_abbrev. rewrite app_length. pose proof (enc_uleb_length (ab_code a)). lia. Qed.

Lemma enc_decls_length ds : (length ds <= length (enc_decls ds))%nat.
Proof.
  unfold enc_decls. induction ds as [|a ds IH]; cbn [map concat length]; [lia|].
  rewrite app_length. pose proof (enc_abbrev_length a). lia.
Qed.

(* ------------------------------------------------------------------ *)
(** * The table: Vec + map is a finite map from codes to declarations *)

Definition find_code (c : N) (l : list abbrev) : option abbrev := find (fun a => ab_code a =? c) l.

Definition has_code (c : N) (l : list abbrev) : bool :=
  match find_code c l with Some _ => true | None => false end.

Record tbl_inv (t : abbrevs) (l : list abbrev) : Prop := mkInv {
  inv_get : forall c, tbl_get t c = find_code c l;
  inv_vec : forall i a, nth_error (t_vec t) i = Some a -> ab_code a = N.of_nat (S i);
  inv_map : forall c a, In (c, a) (t_map t) -> ab_code a = c /\ nlen (t_vec t) < c;
  inv_len : nlen (t_vec t) < two64
}.

Lemma tbl_inv_empty : tbl_inv tbl_empty [].
Proof.
  split.
  - intros c. unfold tbl_get, tbl_empty. cbn [t_vec t_map]. destruct (c =? 0); [reflexivity|].
    unfold nlen. cbn [length]. destruct (c - 1 <? N.of_nat 0) eqn:E; [lia|]. reflexivity.
  - intros i a H. destruct i; discriminate.
  - intros c a [].
  - reflexivity.
Qed.

Lemma find_code_app c l a :
  find_code c (l ++ [a]) =
  match find_code c l with Some x => Some x | None => if ab_code a =? c then Some a else None end.
Proof.
  unfold find_code. induction l as [|x l IH]; cbn [app find].
  - destruct (ab_code a =? c); reflexivity.
  - destruct (ab_code x =? c); [reflexivity|exact IH].
Qed.

Lemma map_get_some m c a : map_get m c = Some a -> exists c', In (c', a) m /\ c' = c.
Proof.
  unfold map_get. destruct (find (fun p => fst p =? c) m) as [[c' a']|] eqn:F; [|discriminate].
  intros H. inversion H; subst. apply find_some in F. destruct F as [Hin Heq].
  cbn [fst] in Heq. apply N.eqb_eq in Heq. eauto.
Qed.

Lemma map_get_cons m c c' a :
  map_get ((c', a) :: m) c = if c' =? c then Some a else map_get m c.
Proof. unfold map_get. cbn [find fst snd]. destruct (c' =? c); reflexivity. Qed.

Lemma nth_error_snoc {A} (l : list A) (x : A) i :
  nth_error (l ++ [x]) i =
  if Nat.ltb i (length l) then nth_error l i else if Nat.eqb i (length l) then Some x else None.
Proof.
  destruct (Nat.ltb_spec i (length l)) as [L|L].
  - apply nth_error_app1. assumption.
  - rewrite nth_error_app2 by assumption.
    destruct (Nat.eqb_spec i (length l)) as [E|E].
    + subst. rewrite Nat.sub_diag. reflexivity.
    + destruct (i - length l)%nat eqn:D; [lia|]. cbn. destruct n; reflexivity.
Qed.

(* Abbreviations::insert accepts exactly the codes that are not yet present *)
Lemma tbl_insert_spec dbg t l a :
  tbl_inv t l -> 0 < ab_code a < two64 ->
  if has_code (ab_code a) l
  then tbl_insert dbg t a = Ok None
  else exists t', tbl_insert dbg t a = Ok (Some t') /\ tbl_inv t' (l ++ [a]).
Proof.
  intros [Hget Hvec Hmap Hlen] Hc. set (c := ab_code a) in *.
  unfold has_code. rewrite <- Hget. unfold tbl_insert. fold c.
  unfold chk_sub. replace (1 <=? c) with true by lia. cbn [bind].
  unfold tbl_get. replace (c =? 0) with false by lia.
  destruct (N.ltb_spec (c - 1) (nlen (t_vec t))) as [L1|L1].
  - (* already in the Vec *)
    destruct (nth_error (t_vec t) (N.to_nat (c - 1))) eqn:E; [reflexivity|].
    apply nth_error_None in E. unfold nlen in L1. lia.
  - destruct (N.eqb_spec (c - 1) (nlen (t_vec t))) as [L2|L2].
    + (* next sequential code *)
      destruct (map_get (t_map t) c) as [x|] eqn:M.
      * destruct (t_map t) as [|p m] eqn:EM; [discriminate|]. reflexivity.
      * replace (negb (is_nil (t_map t)) && false) with false by (destruct (t_map t); reflexivity).
        eexists. split; [reflexivity|]. split; cbn [t_vec t_map].
        -- intros c'. rewrite find_code_app, <- Hget. unfold tbl_get. cbn [t_vec t_map].
           destruct (N.eqb_spec c' 0) as [Z|Z]; [subst; replace (ab_code a =? 0) with false by (fold c; lia); reflexivity|].
           unfold nlen in *. rewrite app_length. cbn [length].
           rewrite nth_error_snoc.
           destruct (N.ltb_spec (c' - 1) (N.of_nat (length (t_vec t)))) as [A|A].
           ++ replace (c' - 1 <? N.of_nat (length (t_vec t) + 1)) with true by lia.
              replace (Nat.ltb (N.to_nat (c' - 1)) (length (t_vec t))) with true
                by (symmetry; apply Nat.ltb_lt; lia).
              destruct (nth_error (t_vec t) (N.to_nat (c' - 1))) eqn:E; [reflexivity|].
              apply nth_error_None in E. lia.
           ++ replace (Nat.ltb (N.to_nat (c' - 1)) (length (t_vec t))) with false
                by (symmetry; apply Nat.ltb_ge; lia).
              fold c. destruct (N.eqb_spec c c') as [E|E].
              ** subst c'. replace (c - 1 <? N.of_nat (length (t_vec t) + 1)) with true by lia.
                 replace (Nat.eqb (N.to_nat (c - 1)) (length (t_vec t))) with true
                   by (symmetry; apply Nat.eqb_eq; lia).
                 rewrite M. reflexivity.
              ** replace (c' - 1 <? N.of_nat (length (t_vec t) + 1)) with false by lia.
                 destruct (map_get (t_map t) c'); reflexivity.
        -- intros i x. rewrite nth_error_snoc.
           destruct (Nat.ltb i (length (t_vec t))); [apply Hvec|].
           destruct (Nat.eqb_spec i (length (t_vec t))) as [E|E]; [|discriminate].
           intros H. inversion H; subst x. fold c. unfold nlen in L2. lia.
        -- intros c' x Hin. destruct (Hmap _ _ Hin) as [E1 E2]. split; [exact E1|].
           unfold nlen in *. rewrite app_length. cbn [length].
           assert (c' <> c).
           { intros ->. assert (G : map_get (t_map t) c = Some x \/ True) by (right; exact I).
             clear G. unfold map_get in M.
             destruct (find (fun p => fst p =? c) (t_map t)) eqn:F; [discriminate|].
             apply (find_none _ _ F) in Hin. cbn [fst] in Hin. lia. }
           lia.
        -- unfold nlen in *. rewrite app_length. cbn [length]. lia.
    + (* goes to the map *)
      destruct (map_get (t_map t) c) as [x|] eqn:M; [reflexivity|].
      eexists. split; [reflexivity|]. split; cbn [t_vec t_map].
      * intros c'. rewrite find_code_app, <- Hget. unfold tbl_get. cbn [t_vec t_map].
        destruct (N.eqb_spec c' 0) as [Z|Z]; [subst; replace (ab_code a =? 0) with false by (fold c; lia); reflexivity|].
        destruct (N.ltb_spec (c' - 1) (nlen (t_vec t))) as [A|A].
        -- destruct (nth_error (t_vec t) (N.to_nat (c' - 1))) eqn:E; [reflexivity|].
           apply nth_error_None in E. unfold nlen in A. lia.
        -- rewrite map_get_cons. fold c. destruct (N.eqb_spec c c') as [E|E].
           ++ subst c'. rewrite M. reflexivity.
           ++ destruct (map_get (t_map t) c'); reflexivity.
      * exact Hvec.
      * intros c' x [H|Hin]; [inversion H; subst; split; [reflexivity|lia]|apply Hmap; assumption].
      * exact Hlen.
Qed.

(* ------------------------------------------------------------------ *)
(** * The whole table *)

Definition codes_of (l : list abbrev) : list N := map ab_code l.

Lemma has_code_in c l : has_code c l = true <-> In c (codes_of l).
Proof.
  unfold has_code, find_code, codes_of. split.
  - destruct (find (fun a => ab_code a =? c) l) eqn:F; [|discriminate]. intros _.
    apply find_some in F. destruct F as [Hin Heq]. apply N.eqb_eq in Heq. subst.
    apply in_map. assumption.
  - intros Hin. apply in_map_iff in Hin. destruct Hin as (a & E & Hin).
    destruct (find (fun a => ab_code a =? c) l) eqn:F; [reflexivity|].
    apply (find_none _ _ F) in Hin. lia.
Qed.

(* the loop over a well-formed, duplicate-free list of declarations; `stop` is what ends the table *)
Lemma parse_loop_ok : forall ds fuel dbg t l stop rest,
  Forall abbrev_ok ds -> NoDup (codes_of l ++ codes_of ds) -> tbl_inv t l ->
  (length ds < fuel)%nat ->
  parse_abbrev dbg stop = Ok (None, rest) ->
  exists t', parse_abbrevs_loop fuel dbg t (enc_decls ds ++ stop) = Ok (t', rest) /\ tbl_inv t' (l ++ ds).
Proof.
  induction ds as [|a ds IH]; intros fuel dbg t l stop rest Hok Hnd Hinv Hfuel Hstop.
  - destruct fuel; [cbn in Hfuel; lia|]. cbn [enc_decls map concat app parse_abbrevs_loop].
    rewrite Hstop. cbn [bind]. exists t. rewrite app_nil_r. auto.
  - destruct fuel; [cbn in Hfuel; lia|]. inversion Hok as [|? ? Ha Hds]; subst.
    unfold enc_decls. cbn [map concat parse_abbrevs_loop]. rewrite <- app_assoc.
    rewrite parse_abbrev_enc by assumption. cbn [bind].
    destruct Ha as (Hc & Ha').
    pose proof (tbl_insert_spec dbg t l a Hinv Hc) as Hins.
    destruct (has_code (ab_code a) l) eqn:Hhas.
    + exfalso. apply has_code_in in Hhas. cbn [codes_of map] in Hnd.
      apply NoDup_remove_2 in Hnd. apply Hnd. apply in_or_app. left. exact Hhas.
    + destruct Hins as (t' & E & Hinv'). rewrite E. cbn [bind].
      destruct (IH fuel dbg t' (l ++ [a]) stop rest) as (t'' & E' & Hinv''); try assumption.
      * unfold codes_of in *. rewrite map_app. cbn [map]. rewrite <- app_assoc. exact Hnd.
      * cbn in Hfuel. lia.
      * exists t''. fold (enc_decls ds). rewrite E'. split; [reflexivity|].
        rewrite <- app_assoc in Hinv''. exact Hinv''.
Qed.

Lemma parse_abbrev_nil dbg : parse_abbrev dbg [] = Ok (None, []).
Proof. reflexivity. Qed.
Lemma parse_abbrev_null dbg rest : parse_abbrev dbg (x00 :: rest) = Ok (None, rest).
Proof. reflexivity. Qed.

Lemma find_code_nodup c l a : NoDup (codes_of l) -> In a l -> ab_code a = c -> find_code c l = Some a.
Proof.
  unfold find_code, codes_of. induction l as [|x l IH]; intros Hnd Hin Hc; [destruct Hin|].
  cbn [find]. destruct Hin as [->|Hin].
  - rewrite Hc, N.eqb_refl. reflexivity.
  - inversion Hnd as [|? ? Hx Hl]; subst.
    destruct (N.eqb_spec (ab_code x) (ab_code a)) as [E|E].
    + exfalso. apply Hx. rewrite E. apply in_map. exact Hin.
    + apply IH; auto.
Qed.

(* Theorem 1a/1b: a duplicate-free table parses to a table whose lookup is the declared map *)
Lemma abbrev_get_full dbg ds tail rest :
  Forall abbrev_ok ds -> NoDup (codes_of ds) ->
  (tail = [] /\ rest = [] \/ tail = x00 :: rest) ->
  exists t, parse_abbrevs dbg (enc_decls ds ++ tail) = Ok (t, rest) /\
            (forall c, tbl_get t c = find_code c ds) /\
            (forall a, In a ds -> tbl_get t (ab_code a) = Some a) /\
            (forall c a, tbl_get t c = Some a -> In a ds /\ ab_code a = c).
Proof.
  intros Hok Hnd Htail. unfold parse_abbrevs.
  destruct (parse_loop_ok ds (S (length (enc_decls ds ++ tail))) dbg tbl_empty [] tail rest)
    as (t & E & Hinv); try assumption.
  - exact tbl_inv_empty.
  - rewrite app_length. pose proof (enc_decls_length ds). lia.
  - destruct Htail as [[-> ->]| ->]; reflexivity.
  - exists t. split; [exact E|]. destruct Hinv as [Hget _ _ _]. cbn [app] in Hget.
    split; [exact Hget|]. split.
    + intros a Hin. rewrite Hget. apply find_code_nodup; auto.
    + intros c a H. rewrite Hget in H. unfold find_code in H. apply find_some in H.
      destruct H as [Hin Heq]. apply N.eqb_eq in Heq. auto.
Qed.

Lemma NoDup_app_snoc {A} (l : list A) (x : A) : NoDup l -> ~ In x l -> NoDup (l ++ [x]).
Proof.
  induction l as [|y l IH]; intros Hl Hx; cbn [app].
  - constructor; [intros []|constructor].
  - inversion Hl; subst. constructor.
    + intros Hin. apply in_app_or in Hin. destruct Hin as [Hin|[->|[]]]; [contradiction|].
      apply Hx. left. reflexivity.
    + apply IH; [assumption|]. intros Hin. apply Hx. right. exact Hin.
Qed.

(* Theorem 1c: a table with a repeated code is rejected, whatever follows the repeated declaration *)
Lemma parse_loop_dup : forall ds fuel dbg t l rest,
  Forall abbrev_ok ds -> NoDup (codes_of l) -> ~ NoDup (codes_of l ++ codes_of ds) -> tbl_inv t l ->
  (length ds < fuel)%nat ->
  parse_abbrevs_loop fuel dbg t (enc_decls ds ++ rest) = Err EDuplicateAbbreviationCode.
Proof.
  induction ds as [|a ds IH]; intros fuel dbg t l rest Hok Hl Hnd Hinv Hfuel.
  - exfalso. apply Hnd. cbn [codes_of map]. rewrite app_nil_r. exact Hl.
  - destruct fuel; [cbn in Hfuel; lia|]. inversion Hok as [|? ? Ha Hds]; subst.
    unfold enc_decls. cbn [map concat parse_abbrevs_loop]. rewrite <- app_assoc.
    rewrite parse_abbrev_enc by assumption. cbn [bind].
    destruct Ha as (Hc & Ha').
    pose proof (tbl_insert_spec dbg t l a Hinv Hc) as Hins.
    destruct (has_code (ab_code a) l) eqn:Hhas.
    + rewrite Hins. reflexivity.
    + destruct Hins as (t' & E & Hinv'). rewrite E. cbn [bind].
      fold (enc_decls ds). apply (IH fuel dbg t' (l ++ [a])); try assumption.
      * unfold codes_of. rewrite map_app. cbn [map].
        apply NoDup_app_snoc; [exact Hl|].
        intros Hin. apply has_code_in in Hin. congruence.
      * unfold codes_of in *. rewrite map_app. cbn [map]. rewrite <- app_assoc. exact Hnd.
      * cbn in Hfuel. lia.
Qed.

Lemma abbrev_dup_rejected dbg ds rest :
  Forall abbrev_ok ds -> ~ NoDup (codes_of ds) ->
  parse_abbrevs dbg (enc_decls ds ++ rest) = Err EDuplicateAbbreviationCode.
Proof.
  intros Hok Hnd. unfold parse_abbrevs. apply (parse_loop_dup ds _ dbg tbl_empty []); try assumption.
  - constructor.
  - exact tbl_inv_empty.
  - rewrite app_length. pose proof (enc_decls_length ds). lia.
Qed.

(* ------------------------------------------------------------------ *)
(** * Every input: what is accepted obeys the format rules; nothing panics; the fuel suffices *)

Lemma parse_attr_spec_sound dbg bs s r :
  parse_attr_spec dbg bs = Ok (Some s, r) ->
  at_name s <> 0 /\ at_form s <> 0 /\ (length r < length bs)%nat.
Proof.
  unfold parse_attr_spec.
  destruct (read_uleb128_u16 bs) as [[name r1]| | |] eqn:E1; cbn [bind]; try discriminate.
  destruct (read_uleb128_u16 r1) as [[form r2]| | |] eqn:E2; cbn [bind]; try discriminate.
  apply read_u16leb_shrinks in E1. apply read_u16leb_shrinks in E2.
  destruct (N.eqb_spec name 0) as [N0|N0]; destruct (N.eqb_spec form 0) as [F0|F0]; cbn [andb];
    try discriminate.
  destruct (form =? DW_FORM_implicit_const).
  - destruct (read_sleb128 dbg r2) as [[z r3]| | |] eqn:E3; cbn [bind]; try discriminate.
    intros H. inversion H; subst. cbn [aspec_new at_name at_form].
    apply read_sleb128_skip, skip_leb_shrinks in E3. repeat split; try assumption. lia.
  - intros H. inversion H; subst. cbn [aspec_new at_name at_form]. repeat split; try assumption. lia.
Qed.

Lemma parse_attr_spec_none_length dbg bs r :
  parse_attr_spec dbg bs = Ok (None, r) -> (length r < length bs)%nat.
Proof.
  unfold parse_attr_spec.
  destruct (read_uleb128_u16 bs) as [[name r1]| | |] eqn:E1; cbn [bind]; try discriminate.
  destruct (read_uleb128_u16 r1) as [[form r2]| | |] eqn:E2; cbn [bind]; try discriminate.
  apply read_u16leb_shrinks in E1. apply read_u16leb_shrinks in E2.
  destruct (name =? 0); destruct (form =? 0); cbn [andb]; try discriminate.
  - intros H. inversion H; subst. lia.
  - destruct (form =? DW_FORM_implicit_const); [|discriminate].
    destruct (read_sleb128 dbg r2) as [[z r3]| | |]; cbn [bind]; discriminate.
Qed.

Lemma parse_attr_spec_res dbg bs : parse_attr_spec dbg bs <> Panic /\ parse_attr_spec dbg bs <> OutOfFuel.
Proof.
  unfold parse_attr_spec.
  pose proof (read_u16leb_res bs) as [A1 A2].
  destruct (read_uleb128_u16 bs) as [[name r1]| | |]; cbn [bind]; try (split; congruence).
  pose proof (read_u16leb_res r1) as [B1 B2].
  destruct (read_uleb128_u16 r1) as [[form r2]| | |]; cbn [bind]; try (split; congruence).
  destruct ((name =? 0) && (form =? 0)); [split; discriminate|].
  destruct (name =? 0); [split; discriminate|].
  destruct (form =? 0); [split; discriminate|].
  destruct (form =? DW_FORM_implicit_const); [|split; discriminate].
  pose proof (read_sleb128_res dbg r2) as [C1 C2].
  destruct (read_sleb128 dbg r2) as [[z r3]| | |]; cbn [bind]; split; congruence.
Qed.

Lemma parse_attr_specs_sound : forall fuel dbg bs specs r,
  parse_attr_specs fuel dbg bs = Ok (specs, r) ->
  Forall (fun s => at_name s <> 0 /\ at_form s <> 0) specs /\ (length r < length bs)%nat.
Proof.
  induction fuel as [|fuel IH]; intros dbg bs specs r; cbn [parse_attr_specs]; [discriminate|].
  destruct (parse_attr_spec dbg bs) as [[[s|] r1]| | |] eqn:E; cbn [bind]; try discriminate.
  - destruct (parse_attr_specs fuel dbg r1) as [[l r2]| | |] eqn:E2; cbn [bind]; try discriminate.
    intros H. inversion H; subst. apply IH in E2. destruct E2 as [F L].
    apply parse_attr_spec_sound in E. destruct E as (A & B & C).
    split; [constructor; auto|lia].
  - intros H. inversion H; subst. apply parse_attr_spec_none_length in E. split; [constructor|exact E].
Qed.

Lemma parse_attr_specs_res : forall fuel dbg bs, (length bs < fuel)%nat ->
  parse_attr_specs fuel dbg bs <> Panic /\ parse_attr_specs fuel dbg bs <> OutOfFuel.
Proof.
  induction fuel as [|fuel IH]; intros dbg bs Hf; [lia|]. cbn [parse_attr_specs].
  pose proof (parse_attr_spec_res dbg bs) as [A1 A2].
  destruct (parse_attr_spec dbg bs) as [[[s|] r1]| | |] eqn:E; cbn [bind]; try (split; congruence).
  apply parse_attr_spec_sound in E. destruct E as (_ & _ & L).
  destruct (IH dbg r1 ltac:(lia)) as [B1 B2].
  destruct (parse_attr_specs fuel dbg r1) as [[l r2]| | |]; cbn [bind]; split; congruence.
Qed.

Lemma parse_abbrev_sound dbg bs a r :
  parse_abbrev dbg bs = Ok (Some a, r) ->
  0 < ab_code a < two64 /\ ab_tag a <> 0 /\
  Forall (fun s => at_name s <> 0 /\ at_form s <> 0) (ab_specs a) /\ (length r < length bs)%nat.
Proof.
  unfold parse_abbrev. destruct bs as [|b0 bs0]; cbn [is_nil]; [discriminate|].
  set (bs := b0 :: bs0).
  destruct (read_uleb128 dbg bs) as [[code r1]| | |] eqn:E1; cbn [bind]; try discriminate.
  destruct (N.eqb_spec code 0) as [C0|C0]; [discriminate|].
  unfold parse_tag.
  destruct (read_uleb128_u16 r1) as [[tag r2]| | |] eqn:E2; cbn [bind]; try discriminate.
  destruct (N.eqb_spec tag 0) as [T0|T0]; cbn [bind]; [discriminate|].
  unfold parse_has_children.
  destruct (read_u8 r2) as [[hcb r3]| | |] eqn:E3; cbn [bind]; try discriminate.
  assert (L3 : (length r3 < length r2)%nat).
  { destruct r2; cbn [read_u8] in E3; [discriminate|]. inversion E3; subst. cbn. lia. }
  pose proof (read_uleb128_lt _ _ _ _ E1) as Lt.
  apply read_uleb128_skip, skip_leb_shrinks in E1. apply read_u16leb_shrinks in E2.
  assert (Tail : forall hc,
    (let* (specs, r4) := parse_attr_specs (S (length r3)) dbg r3 in
     Ok (Some (mkAbbrev code tag hc specs), r4)) = Ok (Some a, r) ->
    0 < ab_code a < two64 /\ ab_tag a <> 0 /\
    Forall (fun s => at_name s <> 0 /\ at_form s <> 0) (ab_specs a) /\ (length r < length bs)%nat).
  { intros hc.
    destruct (parse_attr_specs (S (length r3)) dbg r3) as [[specs r4]| | |] eqn:E5; cbn [bind]; try discriminate.
    intros H. inversion H; subst. cbn [ab_code ab_tag ab_specs].
    apply parse_attr_specs_sound in E5. destruct E5 as [F L5].
    repeat split; try assumption; lia. }
  destruct (hcb =? 0); cbn [bind]; [apply Tail|].
  destruct (hcb =? 1); cbn [bind]; [apply Tail|discriminate].
Qed.

Lemma parse_abbrev_none_length dbg bs r : parse_abbrev dbg bs = Ok (None, r) -> (length r <= length bs)%nat.
Proof.
  unfold parse_abbrev. destruct bs as [|b0 bs0]; cbn [is_nil]; [intros H; inversion H; lia|].
  set (bs := b0 :: bs0).
  destruct (read_uleb128 dbg bs) as [[code r1]| | |] eqn:E1; cbn [bind]; try discriminate.
  apply read_uleb128_skip, skip_leb_shrinks in E1.
  destruct (code =? 0); [intros H; inversion H; subst; lia|].
  destruct (parse_tag r1) as [[tag r2]| | |]; cbn [bind]; try discriminate.
  destruct (parse_has_children r2) as [[hc r3]| | |]; cbn [bind]; try discriminate.
  destruct (parse_attr_specs (S (length r3)) dbg r3) as [[specs r4]| | |]; cbn [bind]; discriminate.
Qed.

Lemma parse_abbrev_res dbg bs : parse_abbrev dbg bs <> Panic /\ parse_abbrev dbg bs <> OutOfFuel.
Proof.
  unfold parse_abbrev. destruct (is_nil bs); [split; discriminate|].
  pose proof (read_uleb128_res dbg bs) as [A1 A2].
  destruct (read_uleb128 dbg bs) as [[code r1]| | |]; cbn [bind]; try (split; congruence).
  destruct (code =? 0); [split; discriminate|].
  unfold parse_tag. pose proof (read_u16leb_res r1) as [B1 B2].
  destruct (read_uleb128_u16 r1) as [[tag r2]| | |]; cbn [bind]; try (split; congruence).
  destruct (tag =? 0); cbn [bind]; [split; discriminate|].
  unfold parse_has_children. destruct r2 as [|hb r3]; cbn [read_u8 bind]; [split; discriminate|].
  destruct (b2n hb =? 0); cbn [bind].
  - destruct (parse_attr_specs_res (S (length r3)) dbg r3 ltac:(lia)) as [C1 C2].
    destruct (parse_attr_specs (S (length r3)) dbg r3) as [[specs r4]| | |]; cbn [bind]; split; congruence.
  - destruct (b2n hb =? 1); cbn [bind]; [|split; discriminate].
    destruct (parse_attr_specs_res (S (length r3)) dbg r3 ltac:(lia)) as [C1 C2].
    destruct (parse_attr_specs (S (length r3)) dbg r3) as [[specs r4]| | |]; cbn [bind]; split; congruence.
Qed.

Lemma tbl_insert_res dbg t a : ab_code a <> 0 ->
  tbl_insert dbg t a <> Panic /\ tbl_insert dbg t a <> OutOfFuel.
Proof.
  intros Hc. unfold tbl_insert, chk_sub. replace (1 <=? ab_code a) with true by lia. cbn [bind].
  destruct (ab_code a - 1 <? nlen (t_vec t)); [split; discriminate|].
  destruct (ab_code a - 1 =? nlen (t_vec t)).
  - destruct (negb (is_nil (t_map t)) && _); split; discriminate.
  - destruct (map_get (t_map t) (ab_code a)); split; discriminate.
Qed.

Lemma parse_abbrevs_loop_res : forall fuel dbg t bs, (length bs < fuel)%nat ->
  parse_abbrevs_loop fuel dbg t bs <> Panic /\ parse_abbrevs_loop fuel dbg t bs <> OutOfFuel.
Proof.
  induction fuel as [|fuel IH]; intros dbg t bs Hf; [lia|]. cbn [parse_abbrevs_loop].
  pose proof (parse_abbrev_res dbg bs) as [A1 A2].
  destruct (parse_abbrev dbg bs) as [[[a|] r]| | |] eqn:E; cbn [bind]; try (split; congruence).
  apply parse_abbrev_sound in E. destruct E as (Hc & _ & _ & L).
  destruct (tbl_insert_res dbg t a ltac:(lia)) as [B1 B2].
  destruct (tbl_insert dbg t a) as [[t'|]| | |]; cbn [bind]; try (split; congruence).
  apply IH. lia.
Qed.

Lemma parse_abbrevs_res dbg bs : parse_abbrevs dbg bs <> Panic /\ parse_abbrevs dbg bs <> OutOfFuel.
Proof. unfold parse_abbrevs. apply parse_abbrevs_loop_res. lia. Qed.

Lemma abbreviations_at_res dbg sec off :
  abbreviations_at dbg sec off <> Panic /\ abbreviations_at dbg sec off <> OutOfFuel.
Proof.
  unfold abbreviations_at. pose proof (skip_n_res off sec) as [A1 A2].
  destruct (skip_n off sec) as [r| | |]; cbn [bind]; try (split; congruence).
  pose proof (parse_abbrevs_res dbg r) as [B1 B2].
  destruct (parse_abbrevs dbg r) as [[t r']| | |]; cbn [bind]; split; congruence.
Qed.

(* everything a parsed table returns obeys the format rules, for every input *)
Definition decl_rules (a : abbrev) : Prop :=
  0 < ab_code a < two64 /\ ab_tag a <> 0 /\ Forall (fun s => at_name s <> 0 /\ at_form s <> 0) (ab_specs a).

Definition tbl_all (P : abbrev -> Prop) (t : abbrevs) : Prop :=
  Forall P (t_vec t) /\ Forall (fun p => P (snd p)) (t_map t).

Lemma tbl_get_all P t c a : tbl_all P t -> tbl_get t c = Some a -> P a.
Proof.
  intros [Hv Hm]. unfold tbl_get. destruct (c =? 0); [discriminate|].
  destruct (c - 1 <? nlen (t_vec t)).
  - intros H. apply nth_error_In in H. rewrite Forall_forall in Hv. auto.
  - intros H. apply map_get_some in H. destruct H as (c' & Hin & _).
    rewrite Forall_forall in Hm. apply (Hm _ Hin).
Qed.

Lemma tbl_insert_all P dbg t a t' : tbl_all P t -> P a -> tbl_insert dbg t a = Ok (Some t') -> tbl_all P t'.
Proof.
  intros [Hv Hm] Pa. unfold tbl_insert.
  destruct (chk_sub 64 dbg (ab_code a) 1) as [idx| | |]; cbn [bind]; try discriminate.
  destruct (idx <? nlen (t_vec t)); [discriminate|].
  destruct (idx =? nlen (t_vec t)).
  - destruct (negb (is_nil (t_map t)) && _); [discriminate|].
    intros H. inversion H; subst. split; cbn [t_vec t_map]; [|assumption].
    apply Forall_app. split; [assumption|constructor; [assumption|constructor]].
  - destruct (map_get (t_map t) (ab_code a)); [discriminate|].
    intros H. inversion H; subst. split; cbn [t_vec t_map]; [assumption|].
    constructor; assumption.
Qed.

Lemma parse_abbrevs_loop_all : forall fuel dbg t bs t' r,
  tbl_all decl_rules t -> parse_abbrevs_loop fuel dbg t bs = Ok (t', r) -> tbl_all decl_rules t'.
Proof.
  induction fuel as [|fuel IH]; intros dbg t bs t' r Ht; cbn [parse_abbrevs_loop]; [discriminate|].
  destruct (parse_abbrev dbg bs) as [[[a|] r1]| | |] eqn:E; cbn [bind]; try discriminate.
  - destruct (tbl_insert dbg t a) as [[t1|]| | |] eqn:E2; cbn [bind]; try discriminate.
    apply IH. apply (tbl_insert_all _ _ _ _ _ Ht) in E2; [assumption|].
    apply parse_abbrev_sound in E. destruct E as (A & B & C & _). repeat split; tauto.
  - intros H. inversion H; subst. assumption.
Qed.

Lemma parsed_table_rules dbg bs t r c a :
  parse_abbrevs dbg bs = Ok (t, r) -> tbl_get t c = Some a -> decl_rules a.
Proof.
  intros Hp Hg. apply (tbl_get_all decl_rules t c a); [|assumption].
  unfold parse_abbrevs in Hp. apply (parse_abbrevs_loop_all _ _ tbl_empty _ _ _) in Hp; [exact Hp|].
  split; cbn [tbl_empty t_vec t_map]; constructor.
Qed.

(* the specific rejections *)
Lemma abbrev_tag_zero dbg code rest : 0 < code < two64 ->
  parse_abbrev dbg (enc_uleb code ++ x00 :: rest) = Err EAbbreviationTagZero.
Proof.
  intros Hc. unfold parse_abbrev. destruct (enc_uleb_cons code) as (b & r & E).
  replace (is_nil (enc_uleb code ++ x00 :: rest)) with false by (rewrite E; reflexivity).
  rewrite read_uleb128_enc by lia. cbn [bind].
  replace (code =? 0) with false by lia. reflexivity.
Qed.

Lemma abbrev_children_invalid dbg code tag b rest :
  0 < code < two64 -> 0 < tag < two16 -> b <> x00 -> b <> x01 ->
  parse_abbrev dbg (enc_uleb code ++ enc_uleb tag ++ b :: rest) = Err EInvalidAbbreviationChildren.
Proof.
  intros Hc Ht B0 B1. unfold parse_abbrev. destruct (enc_uleb_cons code) as (b' & r & E).
  replace (is_nil (enc_uleb code ++ enc_uleb tag ++ b :: rest)) with false by (rewrite E; reflexivity).
  rewrite read_uleb128_enc by lia. cbn [bind].
  replace (code =? 0) with false by lia.
  unfold parse_tag. rewrite read_u16leb_enc by lia. cbn [bind].
  replace (tag =? 0) with false by lia. cbn [bind].
  unfold parse_has_children. cbn [read_u8 bind].
  destruct (N.eqb_spec (b2n b) 0) as [E0|E0]; [exfalso; apply B0, b2n_inj; rewrite E0; reflexivity|].
  destruct (N.eqb_spec (b2n b) 1) as [E1|E1]; [exfalso; apply B1, b2n_inj; rewrite E1; reflexivity|].
  reflexivity.
Qed.

Lemma spec_name_zero dbg form rest : 0 < form < two16 ->
  parse_attr_spec dbg (x00 :: enc_uleb form ++ rest) = Err EAttributeNameZero.
Proof.
  intros Hf. unfold parse_attr_spec. change (x00 :: enc_uleb form ++ rest) with (enc_uleb 0 ++ enc_uleb form ++ rest).
  rewrite read_u16leb_enc by reflexivity. cbn [bind]. rewrite read_u16leb_enc by lia. cbn [bind].
  replace (form =? 0) with false by lia. reflexivity.
Qed.

Lemma spec_form_zero dbg name rest : 0 < name < two16 ->
  parse_attr_spec dbg (enc_uleb name ++ x00 :: rest) = Err EAttributeFormZero.
Proof.
  intros Hn. unfold parse_attr_spec. change (x00 :: rest) with (enc_uleb 0 ++ rest).
  rewrite read_u16leb_enc by lia. cbn [bind]. rewrite read_u16leb_enc by reflexivity. cbn [bind].
  replace (name =? 0) with false by lia. reflexivity.
Qed.
