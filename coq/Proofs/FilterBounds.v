(* Proofs/FilterBounds.v — the unit-relative bounds rule of FilterUnit (C19):
   the code as written (is_in_bounds guard, then an UNCHECKED usize addition) never panics or wraps and records
   exactly Filter.unit_target; out-of-bounds unit-relative references add no edge; and on a well laid out
   forest the reserved set is the one obtained when a unit-relative reference can only ever denote a DIE of
   its own unit: a numeric coincidence with a DIE of another unit adds nothing. *)
From Coq Require Import List NArith ZArith Bool Lia.
Require Import GV.Base.Res GV.Base.Ints GV.Spec.Graph GV.Model.Filter GV.Spec.FilterSpec GV.Model.FilterAttrs.
Require Import GV.Proofs.FilterProofs GV.Proofs.FilterEdges GV.Proofs.FilterConv.
Import ListNotations.
Local Open Scope N_scope.
Local Arguments N.add : simpl never.
Local Arguments N.sub : simpl never.
Local Arguments N.pow : simpl never.

Lemma in_bounds_iff : forall u v, in_bounds u v = true <-> u_hdr u <= v /\ v < u_hdr u + u_len u.
Proof.
  intros u v. unfold in_bounds.
  destruct (v <? u_hdr u) eqn:E1; [apply N.ltb_lt in E1; split; [discriminate|lia]|].
  apply N.ltb_ge in E1. rewrite N.ltb_lt. lia.
Qed.

(* the guard makes the unchecked addition safe whenever the unit lies inside an addressable section *)
Lemma push_unit_ref_exact : forall dbg u v deps, unit_end u <= 2 ^ 64 ->
  push_unit_ref dbg u v deps = Ok (deps ++ unit_target u v).
Proof.
  intros dbg u v deps Hend. unfold push_unit_ref, unit_target.
  destruct (in_bounds u v) eqn:E; [|now rewrite app_nil_r].
  apply in_bounds_iff in E. unfold to_unit_section_offset, chk_add, unit_end, sec in *.
  assert (H : (u_off u + v <? 2 ^ 64) = true) by (apply N.ltb_lt; lia).
  rewrite H. reflexivity.
Qed.

Lemma push_site_refs_exact : forall dbg u s deps, unit_end u <= 2 ^ 64 ->
  push_site_refs dbg u s deps = Ok (deps ++ filter_refs u s).
Proof.
  intros dbg u [car v] deps Hend. unfold push_site_refs, filter_refs, push_op_ref, push_info_ref. cbn [s_car s_val].
  destruct car as [| |nest op|k nest op]; try reflexivity; try (now apply push_unit_ref_exact);
    destruct op; cbn [op_is_info filter_op_refs]; try reflexivity; now apply push_unit_ref_exact.
Qed.

Lemma push_sites_refs_exact : forall dbg u ss deps, unit_end u <= 2 ^ 64 ->
  push_sites_refs dbg u ss deps = Ok (deps ++ flat_map (filter_refs u) ss).
Proof.
  intros dbg u ss. induction ss as [|s ss IH]; intros deps Hend; cbn [push_sites_refs flat_map].
  - now rewrite app_nil_r.
  - rewrite push_site_refs_exact by exact Hend. cbn [bind]. rewrite IH by exact Hend.
    now rewrite app_assoc.
Qed.

(* an out-of-bounds unit-relative operand records nothing - whatever its value, in both build modes, with no
   assumption on the layout *)
Lemma push_oob_nothing : forall dbg u s deps,
  site_unit_relative s = true -> in_bounds u (s_val s) = false ->
  push_site_refs dbg u s deps = Ok deps /\ filter_refs u s = [].
Proof.
  intros dbg u [car v] deps Hrel Hoob. cbn [s_val] in Hoob.
  unfold push_site_refs, filter_refs, push_op_ref, push_unit_ref, unit_target. cbn [s_car s_val].
  destruct car as [| |nest op|k nest op]; cbn [site_unit_relative s_car] in Hrel; try discriminate;
    try (rewrite Hoob; split; reflexivity);
    destruct op; cbn [op_is_info negb] in Hrel; try discriminate;
    cbn [op_is_info filter_op_refs]; unfold unit_target; rewrite Hoob; split; reflexivity.
Qed.

(* every target recorded for a unit-relative site lies inside the byte range of the site's own unit *)
Lemma unit_relative_target_in_unit : forall u s y,
  site_unit_relative s = true -> In y (filter_refs u s) -> in_unit u y = true.
Proof.
  intros u [car v] y Hrel Hy.
  assert (H : In y (unit_target u v)).
  { unfold filter_refs in Hy. cbn [s_car s_val] in Hy.
    destruct car as [| |nest op|k nest op]; cbn [site_unit_relative s_car] in Hrel; try discriminate; auto;
      destruct op; cbn [op_is_info negb] in Hrel; try discriminate; exact Hy. }
  unfold unit_target in H. destruct (in_bounds u v) eqn:E; [|destruct H].
  destruct H as [<-|[]]. apply in_bounds_iff in E. apply in_unit_iff. unfold sec, unit_end. lia.
Qed.

(* ------------------------------------------------------------------------------------------ *)
(* forest level                                                                                 *)

Lemma forest_offs_pairs : forall l top,
  forest_offs l = map (fun p => e_off (fst p)) (forest_pairs top l).
Proof.
  apply (forest_ind2
           (fun t => forall top, tree_offs t = map (fun p => e_off (fst p)) (tree_pairs top t))
           (fun l => forall top, forest_offs l = map (fun p => e_off (fst p)) (forest_pairs top l))).
  - intros e ks IH top. rewrite tree_pairs_eq. cbn [map fst].
    replace (tree_offs (Node e ks)) with (e_off e :: forest_offs ks).
    + f_equal. apply IH.
    + reflexivity.
  - reflexivity.
  - intros t l Ht Hl top. cbn [forest_offs forest_pairs]. rewrite map_app, <- Ht, <- Hl. reflexivity.
Qed.

Lemma own_die_iff : forall u v, own_die u v = true <-> exists e par, In (e, par) (unit_pairs u) /\ e_off e = v.
Proof.
  intros u v. unfold own_die. rewrite mem_n_iff, (forest_offs_pairs (u_kids u) None), in_map_iff. split.
  - intros [[e par] [He Hin]]. exists e, par. auto.
  - intros [e [par [Hin He]]]. exists (e, par). auto.
Qed.

(* two units of an ordered list whose byte ranges share a point are the same unit *)
Lemma ordered_unit_unique : forall units u u' y, units_ordered units -> In u units -> In u' units ->
  in_unit u y = true -> in_unit u' y = true -> u = u'.
Proof.
  intros units u u' y Hord Hu Hu' Hy Hy'. apply in_unit_iff in Hy. apply in_unit_iff in Hy'.
  assert (Hcmp : u = u' \/ unit_end u <= u_off u' \/ unit_end u' <= u_off u).
  { clear - Hord Hu Hu'. induction units as [|w ws IH]; [destruct Hu|].
    destruct Hord as [Hw Hord]. destruct Hu as [<-|Hu]; destruct Hu' as [<-|Hu']; auto. }
  destruct Hcmp as [H|[H|H]]; auto; unfold unit_end in *; lia.
Qed.

(* on the DIEs of the forest the filter's view and the "own unit only" view of a site coincide *)
Lemma filter_own_refs : forall units u e par s y,
  wf_layout units -> occurs units u e par -> In s (e_sites e) -> f_valid units y ->
  (In y (filter_refs u s) <-> In y (own_refs u s)).
Proof.
  intros units u e par s y [Hord Hins] Hocc Hs Hv. unfold own_refs.
  destruct (site_unit_relative s) eqn:Hrel.
  - split.
    + intros Hy. pose proof (unit_relative_target_in_unit u s y Hrel Hy) as Hin.
      destruct Hv as [u' [e' [par' [Hocc' ->]]]].
      assert (Hin' : in_unit u' (sec u' (e_off e')) = true).
      { destruct (Hins _ _ _ Hocc') as [H1 H2]. apply in_unit_iff. unfold sec, unit_end. lia. }
      assert (u = u') by (eapply ordered_unit_unique; eauto; [apply Hocc|apply Hocc']). subst u'.
      assert (Hval : sec u (e_off e') = sec u (s_val s)).
      { destruct s as [car v]. unfold filter_refs in Hy. cbn [s_car s_val] in *.
        assert (H : In (sec u (e_off e')) (unit_target u v)).
        { destruct car as [| |nest op|k nest op]; cbn [site_unit_relative s_car] in Hrel; try discriminate; auto;
            destruct op; cbn [op_is_info negb] in Hrel; try discriminate; exact Hy. }
        unfold unit_target in H. destruct (in_bounds u v); [|destruct H]. destruct H as [H|[]]. now rewrite H. }
      assert (Hoff : e_off e' = s_val s) by (unfold sec in Hval; lia).
      assert (Hown : own_die u (s_val s) = true).
      { apply own_die_iff. exists e', par'. split; [apply Hocc'|exact Hoff]. }
      rewrite Hown, <- Hval. left. reflexivity.
    + destruct (own_die u (s_val s)) eqn:Hown; [|intros []]. intros [<-|[]].
      apply own_die_iff in Hown. destruct Hown as [e' [par' [Hin' Hoff]]].
      assert (Hocc' : occurs units u e' par') by (split; [apply Hocc|exact Hin']).
      destruct (Hins _ _ _ Hocc') as [H1 H2].
      assert (Hb : in_bounds u (s_val s) = true) by (apply in_bounds_iff; lia).
      destruct s as [car v]. unfold filter_refs. cbn [s_car s_val] in *.
      assert (H : In (sec u v) (unit_target u v)) by (unfold unit_target; rewrite Hb; left; reflexivity).
      destruct car as [| |nest op|k nest op]; cbn [site_unit_relative s_car] in Hrel; try discriminate; auto;
        destruct op; cbn [op_is_info negb] in Hrel; try discriminate; exact H.
  - destruct s as [car v]. unfold filter_refs. cbn [s_car s_val] in *.
    destruct car as [| |nest op|k nest op]; cbn [site_unit_relative s_car] in Hrel; try discriminate; try tauto;
      destruct op; cbn [op_is_info negb] in Hrel; try discriminate; cbn [filter_op_refs]; tauto.
Qed.

Lemma reach_ext_valid : forall (V : N -> Prop) (E E' : N -> N -> Prop) (R : N -> Prop),
  (forall x y, V y -> (E x y <-> E' x y)) ->
  forall x, reach V E R x <-> reach V E' R x.
Proof.
  intros V E E' R HE x. split; intro H.
  - induction H as [x Hr Hv|x y Hx IH He Hv]; [now apply reach_req|].
    eapply reach_edge; [exact IH|now apply HE|exact Hv].
  - induction H as [x Hr Hv|x y Hx IH He Hv]; [now apply reach_req|].
    eapply reach_edge; [exact IH|now apply HE|exact Hv].
Qed.

Lemma f_edge_policy_valid : forall rf1 rf2 units,
  (forall u e par s y, occurs units u e par -> In s (e_sites e) -> f_valid units y ->
                       In y (rf1 u s) -> In y (rf2 u s)) ->
  forall x y, f_valid units y -> f_edge rf1 units x y -> f_edge rf2 units x y.
Proof.
  intros rf1 rf2 units H x y Hv He.
  destruct He as [u e par s y Hocc Hs Hy|u e pe Hocc|u e pe Hocc Hns Hbe].
  - eapply fe_ref; eauto.
  - eapply fe_parent; eauto.
  - eapply fe_member; eauto.
Qed.

Lemma oob_refs_add_nothing_full : forall (dbg : bool) (req : N -> bool) (units : list unitd),
  wf_offsets units -> wf_layout units ->
  reserved filter_refs dbg req units = reserved own_refs dbg req units.
Proof.
  intros dbg req units Hwf Hlay.
  destruct (reserved_char filter_refs dbg req units Hwf) as [S1 [H1 [Hs1 Hin1]]].
  destruct (reserved_char own_refs dbg req units Hwf) as [S2 [H2 [Hs2 Hin2]]].
  rewrite H1, H2. f_equal. apply strict_sorted_unique; auto.
  intros x. rewrite Hin1, Hin2. apply reach_ext_valid.
  intros a b Hv. split; apply f_edge_policy_valid; auto; intros u e par s y Hocc Hs Hvy Hy.
  - apply (proj1 (filter_own_refs units u e par s y Hlay Hocc Hs Hvy) Hy).
  - apply (proj2 (filter_own_refs units u e par s y Hlay Hocc Hs Hvy) Hy).
Qed.

(* a unit-relative site never names a DIE of another unit *)
Lemma unit_relative_stays_home_full : forall units u u' e' par' s,
  wf_layout units -> In u units -> occurs units u' e' par' ->
  site_unit_relative s = true -> In (sec u' (e_off e')) (filter_refs u s) -> u' = u.
Proof.
  intros units u u' e' par' s [Hord Hins] Hu Hocc' Hrel Hy.
  pose proof (unit_relative_target_in_unit u s _ Hrel Hy) as Hin.
  assert (Hin' : in_unit u' (sec u' (e_off e')) = true).
  { destruct (Hins _ _ _ Hocc') as [H1 H2]. apply in_unit_iff. unfold sec, unit_end. lia. }
  symmetry. eapply ordered_unit_unique; eauto. apply Hocc'.
Qed.
