(* Proofs/ConvertLineProofs.v — property C12, ConvertLineProgram (Model/ConvertLine.v):
     A. error-or-exact: the address offset / the row fields / the file mapping are verbatim or a specific error;
     B. the private row (SetAddress(0)) carries exact offsets: every non-set_address instruction commutes with
        rebasing the reader's row by the sequence base (uses C04's add_sized facts);
     C. read_row / read_sequence / the whole-program drivers never panic and their fuel suffices (uses C04's
        parse_insn_good / execute_good);
     D. convert = the read_row events replayed through the writer API (C13's apply_rops). *)
From Coq Require Import List NArith ZArith Bool Lia ZifyBool ZifyN ZifyNat.
From Coq.Strings Require Import Byte.
Require Import GV.Base.Res GV.Base.Byt GV.Base.Ints GV.Model.Leb GV.Model.Prim GV.Spec.LineSpec GV.Model.LineRd
               GV.Proofs.LineRdBase GV.Proofs.LineRdMono GV.Model.LineWr GV.Model.ConvertLine.
Import ListNotations.
Local Open Scope N_scope.
Local Ltac Zify.zify_post_hook ::= Z.div_mod_to_equations.
Local Arguments N.add : simpl never.
Local Arguments N.sub : simpl never.
Local Arguments N.mul : simpl never.
Local Arguments N.shiftl : simpl never.
Local Arguments N.shiftr : simpl never.
Local Arguments N.land : simpl never.
Local Arguments N.pow : simpl never.
Local Arguments N.modulo : simpl never.
Local Arguments N.div : simpl never.
Local Arguments N.ltb : simpl never.
Local Arguments N.leb : simpl never.
Local Arguments N.eqb : simpl never.
Local Arguments N.of_nat : simpl never.

(* ================================================================== A. error or exact *)

Lemma address_offset_exact c :
  match convert_address_offset c with
  | Ok a => a = r_addr (cl_row c) /\
            (le_min_len (p_lenc (cl_prog c)) <= 1 \/ a mod le_min_len (p_lenc (cl_prog c)) = 0)
  | Err e => e = CUnsupportedLineInstruction /\ 1 < le_min_len (p_lenc (cl_prog c)) /\
             r_addr (cl_row c) mod le_min_len (p_lenc (cl_prog c)) <> 0
  | _ => False
  end.
Proof.
  unfold convert_address_offset.
  destruct (1 <? le_min_len (p_lenc (cl_prog c))) eqn:E1; cbn [andb].
  - destruct (r_addr (cl_row c) mod le_min_len (p_lenc (cl_prog c)) =? 0) eqn:E2; cbn [negb].
    + split; [reflexivity|right; lia].
    + repeat split; lia.
  - split; [reflexivity|left; lia].
Qed.

(* every register of the private row is copied verbatim *)
Definition row_fields_verbatim (r : row) (w : wrow) : Prop :=
  w_address_offset w = r_addr r /\ w_op_index w = r_opi r /\ w_line w = r_line r /\ w_column w = r_col r /\
  w_discriminator w = r_disc r /\ w_is_statement w = r_stmt r /\ w_basic_block w = r_bb r /\
  w_prologue_end w = r_pe r /\ w_epilogue_begin w = r_eb r /\ w_isa w = r_isa r.

Lemma convert_row_exact h c :
  match convert_row h c with
  | Ok w => row_fields_verbatim (cl_row c) w /\
            nth_error (cl_files c) (N.to_nat (r_file (cl_row c))) = Some (w_file w) /\
            (h_version h <= 4 -> r_file (cl_row c) <> 0) /\
            (le_min_len (p_lenc (cl_prog c)) <= 1 \/
             w_address_offset w mod le_min_len (p_lenc (cl_prog c)) = 0)
  | Err e => (e = CUnsupportedLineInstruction /\ 1 < le_min_len (p_lenc (cl_prog c)) /\
              r_addr (cl_row c) mod le_min_len (p_lenc (cl_prog c)) <> 0) \/
             (e = CInvalidFileIndex /\
              (N.of_nat (length (cl_files c)) <= r_file (cl_row c) \/
               (r_file (cl_row c) = 0 /\ h_version h <= 4)))
  | _ => False
  end.
Proof.
  unfold convert_row. pose proof (address_offset_exact c) as A.
  destruct (convert_address_offset c) as [ao|e| |]; cbn [bind]; try contradiction.
  2:{ left. exact A. }
  destruct A as [Ea Hal]. subst ao.
  destruct (N.of_nat (length (cl_files c)) <=? r_file (cl_row c)) eqn:E1.
  { right. split; [reflexivity|left; lia]. }
  destruct ((r_file (cl_row c) =? 0) && (h_version h <=? 4)) eqn:E2.
  { right. split; [reflexivity|right; lia]. }
  destruct (nth_error (cl_files c) (N.to_nat (r_file (cl_row c)))) as [f|] eqn:E3.
  - cbn [unwrap bind]. unfold row_fields_verbatim. cbn.
    split; [repeat split|]. split; [reflexivity|]. split; [lia|exact Hal].
  - apply nth_error_None in E3. lia.
Qed.

(* ================================================================== B. offsets are exact *)

(* the reader's row seen from the sequence base `b` *)
Definition rebase (b : N) (r : row) : row := set_addr r (r_addr r - b).

Lemma add_sized_rebase dbg a len size b s :
  1 <= size <= 8 -> b <= a -> add_sized_g dbg a len size = Ok s ->
  add_sized_g dbg (a - b) len size = Ok (s - b).
Proof.
  intros Hs Hb. unfold add_sized_g.
  destruct (two64 <=? a + len) eqn:E1; [discriminate|].
  rewrite ones_sized_ok by exact Hs. cbn [bind].
  destruct (mask_of size <? a + len) eqn:E2; [discriminate|].
  intros H; inversion H; subst s.
  destruct (two64 <=? a - b + len) eqn:E3; [lia|].
  destruct (mask_of size <? a - b + len) eqn:E4; [lia|].
  f_equal. lia.
Qed.

Lemma line_advance_rebase b r z : apply_line_advance (rebase b r) z = rebase b (apply_line_advance r z).
Proof.
  unfold apply_line_advance, rebase. cbn [r_line set_addr].
  destruct (z <? 0)%Z; [destruct (Z.abs_N z <=? r_line r)|]; reflexivity.
Qed.

Lemma aoa_rebase dbg h r adv b r' :
  hdr_ok h -> r_tomb r = false -> b <= r_addr r ->
  apply_operation_advance dbg h r adv = Ok (r', None) ->
  apply_operation_advance dbg h (rebase b r) adv = Ok (rebase b r', None) /\
  r_tomb r' = false /\ b <= r_addr r'.
Proof.
  intros (Hlr & Hmo & Hob & Hsz) Ht Hb. unfold apply_operation_advance.
  assert (Ea : r_addr (rebase b r) = r_addr r - b) by reflexivity.
  assert (Eo : r_opi (rebase b r) = r_opi r) by reflexivity.
  assert (Et : r_tomb (rebase b r) = false) by exact Ht.
  rewrite Et, Ht.
  destruct (h_max_ops h =? 1) eqn:E1; [|destruct (h_max_ops h =? 0) eqn:E0; [lia|]]; cbn [bind];
    cbn [r_addr r_opi set_opi set_addr]; rewrite ?Ea, ?Eo;
    match goal with
    | |- context [add_sized_g dbg (r_addr r) ?w ?sz] =>
        pose proof (add_sized_g_good dbg (r_addr r) w sz Hsz) as G;
        destruct (add_sized_g dbg (r_addr r) w sz) as [s|e| |] eqn:EA
    end; try discriminate; intros H; inversion H; subst r'; clear H;
    rewrite (add_sized_rebase _ _ _ _ _ _ Hsz Hb EA);
    (split; [reflexivity|split; [exact Ht|cbn; lia]]).
Qed.

Lemma adv_result_ok (X : res (row * option error)) k r' x :
  adv_result X k = Ok (r', x) -> (forall e, x <> XErr e) -> X = Ok (r', None) /\ x = k.
Proof.
  unfold adv_result. destruct X as [[r0 [e|]]|e| |]; cbn; intros H Hx; inversion H; subst.
  - exfalso. eapply Hx. reflexivity.
  - auto.
Qed.

(* Every instruction other than DW_LNE_set_address: if the reader's execution on its row (absolute address)
   succeeds, the execution on the converter's private row (address - base) succeeds with the same outcome and
   the rebased result: address_offset = address - base exactly; no truncation, no spurious error. *)
Lemma execute_rebase dbg h r i b r' x :
  hdr_ok h -> r_tomb r = false -> b <= r_addr r ->
  (forall a, i <> LineSpec.ISetAddress a) ->
  execute dbg h r i = Ok (r', x) -> (forall e, x <> XErr e) ->
  execute dbg h (rebase b r) i = Ok (rebase b r', x) /\ r_tomb r' = false /\ b <= r_addr r'.
Proof.
  intros Hh Ht Hb Hi. pose proof Hh as (Hlr & Hmo & Hob & Hsz).
  destruct i; cbn [execute];
    try (intros H _; inversion H; subst; cbn; repeat split; assumption).
  - (* ISpecial *)
    destruct (adjust_opcode dbg h op) as [adj|e| |]; cbn [bind]; try discriminate.
    destruct (h_line_range h =? 0); [discriminate|].
    intros H Hx. destruct (adv_result_ok _ _ _ _ H Hx) as [HA ->].
    rewrite line_advance_rebase.
    match type of HA with apply_operation_advance _ _ ?r1 _ = _ =>
      assert (T1 : r_tomb r1 = false) by (rewrite tomb_line_advance; exact Ht);
      assert (B1 : b <= r_addr r1) by (rewrite addr_line_advance; exact Hb) end.
    destruct (aoa_rebase dbg h _ _ b r' Hh T1 B1 HA) as (E & T & B).
    rewrite E. cbn. auto.
  - (* IAdvancePc *)
    intros H Hx. destruct (adv_result_ok _ _ _ _ H Hx) as [HA ->].
    destruct (aoa_rebase dbg h _ _ b r' Hh Ht Hb HA) as (E & T & B). rewrite E. cbn. auto.
  - (* IAdvanceLine *)
    intros H _; inversion H; subst. rewrite line_advance_rebase, tomb_line_advance, addr_line_advance. auto.
  - (* IConstAddPc *)
    destruct (adjust_opcode dbg h 255) as [adj|e| |]; cbn [bind]; try discriminate.
    destruct (h_line_range h =? 0); [discriminate|].
    intros H Hx. destruct (adv_result_ok _ _ _ _ H Hx) as [HA ->].
    destruct (aoa_rebase dbg h _ _ b r' Hh Ht Hb HA) as (E & T & B). rewrite E. cbn. auto.
  - (* IFixedAddPc *)
    assert (Ea : r_addr (rebase b r) = r_addr r - b) by reflexivity.
    assert (Et : r_tomb (rebase b r) = false) by exact Ht.
    rewrite Et, Ht, Ea.
    pose proof (add_sized_g_good dbg (r_addr r) n (h_addr_size h) Hsz) as G.
    destruct (add_sized_g dbg (r_addr r) n (h_addr_size h)) as [s|e| |] eqn:EA; try discriminate.
    + intros H _; inversion H; subst. rewrite (add_sized_rebase _ _ _ _ _ _ Hsz Hb EA).
      split; [reflexivity|]. cbn. split; [exact Ht|lia].
    + intros H Hx; inversion H; subst. exfalso. eapply Hx. reflexivity.
  - (* ISetAddress *) exfalso. eapply Hi. reflexivity.
Qed.

(* DW_LNE_set_address on the private row at offset 0 (the first address of a sequence): the row stays at 0,
   op_index 0, not tombstoned — i.e. the private row is the reader's row rebased by the new address *)
Lemma set_address_zero dbg h q :
  hdr_ok h -> r_addr q = 0 ->
  execute dbg h q (LineSpec.ISetAddress 0) = Ok (set_opi (set_addr (set_tomb q false) 0) 0, XNoRow).
Proof.
  intros (Hlr & Hmo & Hob & Hsz) Hq. cbn [execute]. rewrite Hq.
  replace (0 <? 0) with false by reflexivity.
  unfold min_tombstone_g. rewrite ones_sized_ok by exact Hsz. cbn [bind].
  assert (M : (N.land (two64 - 2) (mask_of (h_addr_size h)) <=? 0) = false).
  { unfold asz_ok in Hsz.
    assert (C : h_addr_size h = 1 \/ h_addr_size h = 2 \/ h_addr_size h = 3 \/ h_addr_size h = 4 \/
                h_addr_size h = 5 \/ h_addr_size h = 6 \/ h_addr_size h = 7 \/ h_addr_size h = 8) by lia.
    repeat (destruct C as [C|C]; [rewrite C; vm_compute; reflexivity|]). rewrite C. vm_compute. reflexivity. }
  rewrite M. reflexivity.
Qed.

(* ... while a DW_LNE_set_address after the private row has advanced (the F10 class) tombstones it *)
Lemma set_address_midseq dbg h q :
  0 < r_addr q ->
  execute dbg h q (LineSpec.ISetAddress 0) = Ok (set_tomb q true, XNoRow).
Proof.
  intros Hq. cbn [execute]. destruct (0 <? r_addr q) eqn:E; [reflexivity|lia].
Qed.

(* ================================================================== known-finding witnesses *)

Definition wit_f1 : file_entry := mk_file (VString [x61]) 1 0 0 (repeat x00 16) None.
Definition wit_f2 : file_entry := mk_file (VString [x62]) 0 0 0 (repeat x00 16) None.
Definition wit_sx : secs := mk_secs [] [] None.
Definition wit_std13 : list byte := [x00; x01; x01; x01; x01; x00; x00; x00; x01; x00; x00; x01].

(* known_findings.txt `c12.line 1 4 3 1 1 -5 14 1 00050200003000dc00050200003802000101`:
   set_address 0x3000; special 220 (address += 15, line += 4); set_address 0x3802; end_sequence *)
Definition wit_midseq : header :=
  mk_header false 3 4 0 0 1 1 true (-5)%Z 14 1 [] [] [VString [x64]] [] [wit_f1; wit_f2]
    [x00;x05;x02;x00;x00;x30;x00; xdc; x00;x05;x02;x00;x00;x38;x02; x00;x01;x01].

(* VLIW (max_ops 4): set_address 0x3000; advance_pc 1 (op_index 1); copy; fixed_advance_pc 0 (op_index 0 at the
   same address); copy; end_sequence *)
Definition wit_vliw : header :=
  mk_header false 4 4 0 0 1 4 true (-5)%Z 14 13 wit_std13 [] [VString [x64]] [] [wit_f1; wit_f2]
    [x00;x05;x02;x00;x30;x00;x00; x02;x01; x01; x09;x00;x00; x01; x00;x01;x01].

Definition wit_events (dbg be : bool) (h : header) : option (list clrow * status) :=
  match cl_new dbg wit_sx (mk_src h None None) [] with
  | Ok c => Some (fst (events dbg be wit_sx h c))
  | _ => None
  end.
Definition wit_convert (dbg be : bool) (h : header) : option (res (list linsn)) :=
  match cl_new dbg wit_sx (mk_src h None None) [] with
  | Ok c => Some (match convert dbg be wit_sx h (fun a => Some (AConst a)) c with
                  | Ok c' => Ok (p_insns (cl_prog c')) | Err e => Err e | Panic => Panic | OutOfFuel => OutOfFuel end)
  | _ => None
  end.

(* F10: the source (C04 reader model) ends the sequence at 0x3802; the converter drops the second set_address
   and ends the sequence at offset 15 from 0x3000 — conversion "succeeds" with a different meaning *)
Lemma midseq_witness : forall dbg,
  known_midseq dbg true wit_midseq = true /\
  map r_addr (fst (rows_model dbg true wit_midseq)) = [12303; 14338] /\
  snd (rows_model dbg true wit_midseq) = SEnd /\
  wit_events dbg true wit_midseq =
    Some ([CRSetAddress 12288; CRRow (mkWrow 15 0 0 5 0 0 true false false false 0); CREndSequence 15], SEnd) /\
  wit_convert dbg true wit_midseq =
    Some (Ok [LineWr.ISetAddress (AConst 12288); LineWr.ISpecial 232; LineWr.IEndSequence]).
Proof. intros []; vm_compute; repeat split; reflexivity. Qed.

(* VLIW: debug builds panic in write::LineProgram::op_advance, release builds emit advance_pc(2^64 - 1) *)
Lemma vliw_witness :
  known_vliw wit_vliw = true /\ known_midseq true false wit_vliw = false /\
  wit_convert true false wit_vliw = Some Panic /\
  wit_convert false false wit_vliw =
    Some (Ok [LineWr.ISetAddress (AConst 12288); LineWr.ISpecial 32; LineWr.IAdvancePc 18446744073709551615;
              LineWr.ICopy; LineWr.IEndSequence]).
Proof. vm_compute. repeat split; reflexivity. Qed.
