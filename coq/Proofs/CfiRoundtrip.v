(* Proofs/CfiRoundtrip.v — composition of the frame-table WRITER model (Model/CfiWr.v, property C14)
   with the CFI READER models of main: Model/CfiRun.v (instruction decoder + unwind table, C06) and
   Model/CfiRd.v (CIE/FDE parsing and iteration, C05). Nothing in the C05/C06 files is changed; their
   theorems are used as they are. Names of the reader side are written qualified. *)
From Coq Require Import List NArith ZArith Bool Lia ZifyBool ZifyN ZifyNat.
From Coq.Strings Require Import Byte.
Require Import GV.Base.Res GV.Base.Byt GV.Base.Ints GV.Spec.LebSpec GV.Model.Leb GV.Model.Prim.
Require GV.Spec.CfaSpec GV.Model.CfiRun GV.Proofs.CfiRunProofs.
Require Import GV.Proofs.LebProofs.
Require Import GV.Spec.CfaEncSpec GV.Model.CfiWr GV.Proofs.CfiWrProofs.
Import ListNotations.
Local Open Scope N_scope.
Local Arguments N.add : simpl never.
Local Arguments N.sub : simpl never.
Local Arguments N.mul : simpl never.
Local Arguments N.land : simpl never.
Local Arguments N.lor : simpl never.
Local Arguments N.pow : simpl never.
Local Arguments N.modulo : simpl never.
Local Arguments N.div : simpl never.
Local Arguments Z.mul : simpl never.
Local Arguments Z.add : simpl never.
Ltac Zify.zify_post_hook ::= Z.to_euclidean_division_equations.

(* ------------------------------------------------------------------ *)
(* A. one instruction: CfiRun.parse_insn on the written bytes            *)
(* ------------------------------------------------------------------ *)

(* the reader's instruction for a decoded instruction whose bytes start at section offset off and are
   total bytes long: expression operands become (offset, length) references to the trailing blob *)
Definition rd_uexpr (off total : N) (e : list byte) : CfaSpec.uexpr :=
  {| CfaSpec.ue_off := off + total - len e; CfaSpec.ue_len := len e |}.

Definition to_insn (off total : N) (d : dinsn) : CfaSpec.insn :=
  match d with
  | DAdvance x => CfaSpec.IAdvanceLoc x
  | DOffset r fo => CfaSpec.IOffset r fo
  | DRestore r => CfaSpec.IRestore r
  | DNop => CfaSpec.INop
  | DUndefined r => CfaSpec.IUndefined r
  | DSameValue r => CfaSpec.ISameValue r
  | DRegister a b => CfaSpec.IRegister a b
  | DRememberState => CfaSpec.IRememberState
  | DRestoreState => CfaSpec.IRestoreState
  | DDefCfa r o => CfaSpec.IDefCfa r o
  | DDefCfaRegister r => CfaSpec.IDefCfaRegister r
  | DDefCfaOffset o => CfaSpec.IDefCfaOffset o
  | DDefCfaExpression e => CfaSpec.IDefCfaExpression (rd_uexpr off total e)
  | DExpression r e => CfaSpec.IExpression r (rd_uexpr off total e)
  | DOffsetExtendedSf r fo => CfaSpec.IOffsetExtendedSf r fo
  | DDefCfaSf r fo => CfaSpec.IDefCfaSf r fo
  | DDefCfaOffsetSf fo => CfaSpec.IDefCfaOffsetSf fo
  | DValOffset r fo => CfaSpec.IValOffset r fo
  | DValOffsetSf r fo => CfaSpec.IValOffsetSf r fo
  | DValExpression r e => CfaSpec.IValExpression r (rd_uexpr off total e)
  | DArgsSize n => CfaSpec.IArgsSize n
  | DNegateRaState => CfaSpec.INegateRaState
  end.

(* the blob an expression operand refers to *)
Definition expr_of (d : dinsn) : option (list byte) :=
  match d with
  | DDefCfaExpression e | DExpression _ e | DValExpression _ e => Some e
  | _ => None
  end.

(* LEB operands written by the writer model are read back by the reader model (C09) *)
Lemma rd_uleb_of_write v lb : v < 2 ^ 64 -> write_uleb128 v = Ok lb ->
  forall dbg r, read_uleb128 dbg (lb ++ r) = Ok (v, r).
Proof.
  intros Hv Hw dbg r. destruct (write_uleb128_read v) as (enc & He & _ & _ & _ & Hr); [exact Hv|].
  rewrite He in Hw. injection Hw as <-. apply Hr.
Qed.

Lemma rd_sleb_of_write v lb : (-9223372036854775808 <= v < 9223372036854775808)%Z -> write_sleb128 v = Ok lb ->
  forall dbg r, read_sleb128 dbg (lb ++ r) = Ok (v, r).
Proof.
  intros Hv Hw dbg r. destruct (write_sleb128_read v) as (enc & He & _ & _ & _ & Hr); [unfold in_i64; lia|].
  rewrite He in Hw. injection Hw as <-. apply Hr.
Qed.

Lemma rd_reg_of_write g lb : g < 65536 -> write_uleb128 g = Ok lb ->
  forall dbg r, CfiRun.rd_reg dbg (lb ++ r) = Ok (g, r).
Proof.
  intros Hg Hw dbg r. unfold CfiRun.rd_reg.
  rewrite (rd_uleb_of_write g lb) by (try exact Hw; change (2 ^ 64) with 18446744073709551616; lia).
  cbn [bind]. unfold CfiRun.reg_from_u64, wrap16, two16. rewrite N.mod_small by lia. rewrite N.eqb_refl. reflexivity.
Qed.

(* a written blob: ULEB length then the bytes; `all` = everything from the opcode on *)
Lemma rd_expr_of_write e bb : is_blob e = true -> write_blob e = Ok bb ->
  forall dbg off pre rest,
    CfiRun.rd_expr dbg off (pre ++ bb ++ rest) (bb ++ rest)
    = Ok ({| CfaSpec.ue_off := off + len pre + len bb - len e; CfaSpec.ue_len := len e |}, rest) /\
    exists lb, bb = lb ++ e.
Proof.
  intros He Hw dbg off pre rest. unfold write_blob in Hw.
  destruct (write_uleb128 (len e)) as [lb| | |] eqn:El; try discriminate. cbn [bind] in Hw. injection Hw as <-.
  split; [|exists lb; reflexivity].
  unfold CfiRun.rd_expr. rewrite <- app_assoc.
  unfold is_blob in He.
  rewrite (rd_uleb_of_write (len e) lb) by (try exact El; unfold len; change (2 ^ 64) with 18446744073709551616; lia).
  cbn [bind]. unfold CfiRun.skip_n.
  destruct (N.of_nat (length (e ++ rest)) <? len e) eqn:E; [rewrite app_length in E; unfold len in E; lia|].
  cbn [bind]. change (N.to_nat (len e)) with (N.to_nat (N.of_nat (length e))). rewrite Nat2N.id, skipn_app_exact.
  f_equal. f_equal. f_equal.
  unfold CfiRun.consumed, len. rewrite !app_length. lia.
Qed.

(* opcode dispatch of the reader, one lemma per opcode the writer emits *)
Section Dispatch.
  Variables (dbg be aa : bool) (asz off : N) (r : list byte).
  Let P := CfiRun.parse_insn dbg be asz aa off.
  Lemma rp_x05 : P (x05 :: r) =
    (let* (g, r1) := CfiRun.rd_reg dbg r in let* (o, r2) := read_uleb128 dbg r1 in Ok (CfaSpec.IOffset g o, r2)).
  Proof. reflexivity. Qed.
  Lemma rp_x06 : P (x06 :: r) = (let* (g, r1) := CfiRun.rd_reg dbg r in Ok (CfaSpec.IRestore g, r1)).
  Proof. reflexivity. Qed.
  Lemma rp_x07 : P (x07 :: r) = (let* (g, r1) := CfiRun.rd_reg dbg r in Ok (CfaSpec.IUndefined g, r1)).
  Proof. reflexivity. Qed.
  Lemma rp_x08 : P (x08 :: r) = (let* (g, r1) := CfiRun.rd_reg dbg r in Ok (CfaSpec.ISameValue g, r1)).
  Proof. reflexivity. Qed.
  Lemma rp_x09 : P (x09 :: r) =
    (let* (d, r1) := CfiRun.rd_reg dbg r in let* (s, r2) := CfiRun.rd_reg dbg r1 in Ok (CfaSpec.IRegister d s, r2)).
  Proof. reflexivity. Qed.
  Lemma rp_x0a : P (x0a :: r) = Ok (CfaSpec.IRememberState, r).
  Proof. reflexivity. Qed.
  Lemma rp_x0b : P (x0b :: r) = Ok (CfaSpec.IRestoreState, r).
  Proof. reflexivity. Qed.
  Lemma rp_x0c : P (x0c :: r) =
    (let* (g, r1) := CfiRun.rd_reg dbg r in let* (o, r2) := read_uleb128 dbg r1 in Ok (CfaSpec.IDefCfa g o, r2)).
  Proof. reflexivity. Qed.
  Lemma rp_x0d : P (x0d :: r) = (let* (g, r1) := CfiRun.rd_reg dbg r in Ok (CfaSpec.IDefCfaRegister g, r1)).
  Proof. reflexivity. Qed.
  Lemma rp_x0e : P (x0e :: r) = (let* (o, r1) := read_uleb128 dbg r in Ok (CfaSpec.IDefCfaOffset o, r1)).
  Proof. reflexivity. Qed.
  Lemma rp_x0f : P (x0f :: r) =
    (let* (e, r1) := CfiRun.rd_expr dbg off (x0f :: r) r in Ok (CfaSpec.IDefCfaExpression e, r1)).
  Proof. reflexivity. Qed.
  Lemma rp_x10 : P (x10 :: r) =
    (let* (g, r1) := CfiRun.rd_reg dbg r in
     let* (e, r2) := CfiRun.rd_expr dbg off (x10 :: r) r1 in Ok (CfaSpec.IExpression g e, r2)).
  Proof. reflexivity. Qed.
  Lemma rp_x11 : P (x11 :: r) =
    (let* (g, r1) := CfiRun.rd_reg dbg r in let* (o, r2) := read_sleb128 dbg r1 in Ok (CfaSpec.IOffsetExtendedSf g o, r2)).
  Proof. reflexivity. Qed.
  Lemma rp_x12 : P (x12 :: r) =
    (let* (g, r1) := CfiRun.rd_reg dbg r in let* (o, r2) := read_sleb128 dbg r1 in Ok (CfaSpec.IDefCfaSf g o, r2)).
  Proof. reflexivity. Qed.
  Lemma rp_x13 : P (x13 :: r) = (let* (o, r1) := read_sleb128 dbg r in Ok (CfaSpec.IDefCfaOffsetSf o, r1)).
  Proof. reflexivity. Qed.
  Lemma rp_x14 : P (x14 :: r) =
    (let* (g, r1) := CfiRun.rd_reg dbg r in let* (o, r2) := read_uleb128 dbg r1 in Ok (CfaSpec.IValOffset g o, r2)).
  Proof. reflexivity. Qed.
  Lemma rp_x15 : P (x15 :: r) =
    (let* (g, r1) := CfiRun.rd_reg dbg r in let* (o, r2) := read_sleb128 dbg r1 in Ok (CfaSpec.IValOffsetSf g o, r2)).
  Proof. reflexivity. Qed.
  Lemma rp_x16 : P (x16 :: r) =
    (let* (g, r1) := CfiRun.rd_reg dbg r in
     let* (e, r2) := CfiRun.rd_expr dbg off (x16 :: r) r1 in Ok (CfaSpec.IValExpression g e, r2)).
  Proof. reflexivity. Qed.
  Lemma rp_x2e : P (x2e :: r) = (let* (n, r1) := read_uleb128 dbg r in Ok (CfaSpec.IArgsSize n, r1)).
  Proof. reflexivity. Qed.
  Lemma rp_x2d : P (x2d :: r) = if aa then Ok (CfaSpec.INegateRaState, r) else Err EUnknownCallFrameInstruction.
  Proof. unfold P. destruct aa; reflexivity. Qed.
  Lemma rp_x00 : P (x00 :: r) = Ok (CfaSpec.INop, r).
  Proof. reflexivity. Qed.
  Lemma rp_x02 : P (x02 :: r) = (let* (d, r1) := read_u8 r in Ok (CfaSpec.IAdvanceLoc d, r1)).
  Proof. reflexivity. Qed.
  Lemma rp_x03 : P (x03 :: r) = (let* (d, r1) := read_u16 be r in Ok (CfaSpec.IAdvanceLoc d, r1)).
  Proof. reflexivity. Qed.
  Lemma rp_x04 : P (x04 :: r) = (let* (d, r1) := read_u32 be r in Ok (CfaSpec.IAdvanceLoc d, r1)).
  Proof. reflexivity. Qed.
End Dispatch.

(* the three high-bit forms *)
Lemma land_hi k (x : N) : (k = 64 \/ k = 128 \/ k = 192) -> x < 64 ->
  N.land (k + x) 192 = k /\ N.land (k + x) 63 = x.
Proof.
  intros Hk Hx.
  assert (E : ((N.land (64 + x) 192 =? 64) && (N.land (64 + x) 63 =? x) &&
               (N.land (128 + x) 192 =? 128) && (N.land (128 + x) 63 =? x) &&
               (N.land (192 + x) 192 =? 192) && (N.land (192 + x) 63 =? x)) = true).
  { apply (forall_lt (fun x => (N.land (64 + x) 192 =? 64) && (N.land (64 + x) 63 =? x) &&
               (N.land (128 + x) 192 =? 128) && (N.land (128 + x) 63 =? x) &&
               (N.land (192 + x) 192 =? 192) && (N.land (192 + x) 63 =? x)) 64); [vm_compute; reflexivity|exact Hx]. }
  destruct Hk as [->|[->| ->]]; lia.
Qed.

Lemma rp_hi dbg be asz aa off (b : byte) r k x :
  (k = 64 \/ k = 128 \/ k = 192) -> x < 64 -> b2n b = k + x ->
  CfiRun.parse_insn dbg be asz aa off (b :: r) =
    if k =? 64 then Ok (CfaSpec.IAdvanceLoc x, r)
    else if k =? 128 then (let* (o, r1) := read_uleb128 dbg r in Ok (CfaSpec.IOffset x o, r1))
    else Ok (CfaSpec.IRestore x, r).
Proof.
  intros Hk Hx Hb. destruct (land_hi k x Hk Hx) as [H1 H2].
  unfold CfiRun.parse_insn. cbn [read_u8 bind]. rewrite Hb, H1, H2.
  destruct Hk as [->|[->| ->]]; reflexivity.
Qed.

Lemma len_cons' (b : byte) l : len (b :: l) = 1 + len l.
Proof. unfold len. cbn [length]. lia. Qed.

Ltac u_uleb v H :=
  let lb := fresh "lb" in let Hw := fresh "Hw" in
  destruct (write_uleb128 v) as [lb| | |] eqn:Hw; cbn [bind] in H; try discriminate.
Ltac u_sleb v H :=
  let lb := fresh "sb" in let Hw := fresh "Hw" in
  destruct (write_sleb128 v) as [lb| | |] eqn:Hw; cbn [bind] in H; try discriminate.
Ltac u_blob e H :=
  let lb := fresh "bb" in let Hw := fresh "Hw" in
  destruct (write_blob e) as [lb| | |] eqn:Hw; cbn [bind] in H; try discriminate.
Ltac done_ok H := injection H as H; subst.

Lemma insn_read_by_reader_lem dbg be (caf : N) (daf : Z) (i : cfi) bs :
  cfi_wf i = true -> is_i8 daf = true -> write_insn dbg daf i = Ok bs ->
  exists d,
    (forall rest, decode1 be (bs ++ rest) = Some (d, rest)) /\ sem caf daf d = MInsn i /\
    (forall e, expr_of d = Some e -> exists p, bs = p ++ e) /\
    forall dbg' asz aa off rest,
      CfiRun.parse_insn dbg' be asz aa off (bs ++ rest) =
      if negb aa && (match i with NegateRaState => true | _ => false end)
      then Err EUnknownCallFrameInstruction
      else Ok (to_insn off (len bs) d, rest).
Proof.
  intros Hwf Hdaf H.
  destruct (write_insn_decodes dbg be caf daf i bs Hwf Hdaf H) as (Hne & d & Hdec & Hsem).
  exists d. split; [exact Hdec|]. split; [exact Hsem|].
  (* identify d from the first decode *)
  assert (Hd : forall d', (forall rest, decode1 be (bs ++ rest) = Some (d', rest)) -> d' = d).
  { intros d' H'. specialize (H' []). specialize (Hdec []). congruence. }
  destruct i as [r o|r|o|e|r|r|r|r o|r o|r1 r2|r e|r e| | |n| ]; cbn [cfi_wf] in Hwf; cbn [write_insn] in H;
    repeat match goal with
           | Hx : _ && _ = true |- _ => apply andb_true_iff in Hx; destruct Hx
           end;
    repeat match goal with
           | Hx : is_u16 _ = true |- _ => apply is_u16_iff in Hx
           | Hx : is_u32 _ = true |- _ => apply is_u32_iff in Hx
           end;
    cbn [negb andb].
  Ltac id_d Hd D :=
    let E := fresh "E" in
    assert (E : D = _) by (apply Hd; intros rest0; cbn [app]; try rewrite <- app_assoc;
                            first [rewrite decode1_x12|rewrite decode1_x0c|rewrite decode1_x0d|rewrite decode1_x13
                                  |rewrite decode1_x0e|rewrite decode1_x0f|rewrite decode1_x06|rewrite decode1_x07
                                  |rewrite decode1_x08|rewrite decode1_x11|rewrite decode1_x05|rewrite decode1_x15
                                  |rewrite decode1_x14|rewrite decode1_x09|rewrite decode1_x10|rewrite decode1_x16
                                  |rewrite decode1_x2e|idtac]).
  all: try match goal with |- context [negb ?a && false] => rewrite andb_false_r end.
  - (* Cfa *)
    destruct (o <? 0)%Z eqn:Eo.
    + apply fdo_inv in H; [|assumption|assumption]. destruct H as (f & Hf1 & Hf2 & H).
      apply is_i32_iff in Hf2. u_uleb r H. u_sleb f H. done_ok H.
      assert (Ed : d = DDefCfaSf r f).
      { symmetry. apply Hd. intros rest0. cbn [app]. rewrite <- app_assoc, decode1_x12.
        rewrite (uleb_of_write r lb) by (try exact Hw; lia). cbn [omap].
        rewrite (sleb_of_write f sb) by (try exact Hw0; lia). reflexivity. }
      subst d. split; [intros e He; discriminate|].
      intros dbg' asz aa off rest. rewrite ?andb_false_r. cbn [app]. rewrite <- app_assoc, rp_x12.
      rewrite (rd_reg_of_write r lb) by (try exact Hw; lia). cbn [bind].
      rewrite (rd_sleb_of_write f sb) by (try exact Hw0; lia). reflexivity.
    + match goal with Hx : is_i32 o = true |- _ => apply is_i32_iff in Hx end.
      destruct (z_as_u64_nonneg o) as [Hz1 Hz2]; [lia|].
      u_uleb r H. u_uleb (z_as_u64 o) H. done_ok H.
      assert (Ed : d = DDefCfa r (z_as_u64 o)).
      { symmetry. apply Hd. intros rest0. cbn [app]. rewrite <- app_assoc, decode1_x0c.
        rewrite (uleb_of_write r lb) by (try exact Hw; lia). cbn [omap].
        rewrite (uleb_of_write (z_as_u64 o) lb0) by (try exact Hw0; change (2 ^ 64) with 18446744073709551616 in Hz1; lia).
        reflexivity. }
      subst d. split; [intros e He; discriminate|].
      intros dbg' asz aa off rest. rewrite ?andb_false_r. cbn [app]. rewrite <- app_assoc, rp_x0c.
      rewrite (rd_reg_of_write r lb) by (try exact Hw; lia). cbn [bind].
      rewrite (rd_uleb_of_write (z_as_u64 o) lb0) by (try exact Hw0; exact Hz1). reflexivity.
  - (* CfaRegister *)
    u_uleb r H. done_ok H.
    assert (Ed : d = DDefCfaRegister r).
    { symmetry. apply Hd. intros rest0. cbn [app]. rewrite decode1_x0d.
      rewrite (uleb_of_write r lb) by (try exact Hw; lia). reflexivity. }
    subst d. split; [intros e He; discriminate|].
    intros dbg' asz aa off rest. rewrite ?andb_false_r. cbn [app]. rewrite rp_x0d.
    rewrite (rd_reg_of_write r lb) by (try exact Hw; lia). reflexivity.
  - (* CfaOffset *)
    destruct (o <? 0)%Z eqn:Eo.
    + apply fdo_inv in H; [|assumption|assumption]. destruct H as (f & Hf1 & Hf2 & H).
      apply is_i32_iff in Hf2. u_sleb f H. done_ok H.
      assert (Ed : d = DDefCfaOffsetSf f).
      { symmetry. apply Hd. intros rest0. cbn [app]. rewrite decode1_x13.
        rewrite (sleb_of_write f sb) by (try exact Hw; lia). reflexivity. }
      subst d. split; [intros e He; discriminate|].
      intros dbg' asz aa off rest. rewrite ?andb_false_r. cbn [app]. rewrite rp_x13.
      rewrite (rd_sleb_of_write f sb) by (try exact Hw; lia). reflexivity.
    + apply is_i32_iff in Hwf.
      destruct (z_as_u64_nonneg o) as [Hz1 Hz2]; [lia|].
      u_uleb (z_as_u64 o) H. done_ok H.
      assert (Ed : d = DDefCfaOffset (z_as_u64 o)).
      { symmetry. apply Hd. intros rest0. cbn [app]. rewrite decode1_x0e.
        rewrite (uleb_of_write (z_as_u64 o) lb) by (try exact Hw; change (2 ^ 64) with 18446744073709551616 in Hz1; lia).
        reflexivity. }
      subst d. split; [intros e He; discriminate|].
      intros dbg' asz aa off rest. rewrite ?andb_false_r. cbn [app]. rewrite rp_x0e.
      rewrite (rd_uleb_of_write (z_as_u64 o) lb) by (try exact Hw; exact Hz1). reflexivity.
  - (* CfaExpression *)
    u_blob e H. done_ok H.
    destruct (write_blob_spec e Hwf) as (bb' & Hw' & _ & Hbd). rewrite Hw in Hw'. injection Hw' as <-.
    assert (Ed : d = DDefCfaExpression e).
    { symmetry. apply Hd. intros rest0. cbn [app]. rewrite decode1_x0f, Hbd. reflexivity. }
    subst d.
    destruct (rd_expr_of_write e bb Hwf Hw true 0 [x0f] []) as [_ (lb & Hbb)].
    split; [intros e' He; injection He as <-; exists (x0f :: lb); rewrite Hbb; reflexivity|].
    intros dbg' asz aa off rest. rewrite ?andb_false_r. cbn [app]. rewrite rp_x0f.
    destruct (rd_expr_of_write e bb Hwf Hw dbg' off [x0f] rest) as [Hr _]. cbn [app] in Hr. rewrite Hr. cbn [bind].
    cbn [to_insn]. unfold rd_uexpr. rewrite ?len_cons', ?len_app. change (len (@nil byte)) with 0. do 4 f_equal. lia.
  - (* Restore *)
    destruct (r <? 64) eqn:Er.
    + rewrite wrap8_small in H by lia. rewrite lor192_small in H by lia. done_ok H.
      assert (Hb : b2n (n2b (192 + r)) = 192 + r) by (apply byte_small; lia).
      assert (Ed : d = DRestore r).
      { symmetry. apply Hd. intros rest0. cbn [app]. rewrite decode1_hi3 by (rewrite Hb; lia). rewrite Hb.
        do 3 f_equal. lia. }
      subst d. split; [intros e He; discriminate|].
      intros dbg' asz aa off rest. rewrite ?andb_false_r. cbn [app].
      rewrite (rp_hi dbg' be asz aa off _ rest 192 r) by (auto; lia). reflexivity.
    + u_uleb r H. done_ok H.
      assert (Ed : d = DRestore r).
      { symmetry. apply Hd. intros rest0. cbn [app]. rewrite decode1_x06.
        rewrite (uleb_of_write r lb) by (try exact Hw; lia). reflexivity. }
      subst d. split; [intros e He; discriminate|].
      intros dbg' asz aa off rest. rewrite ?andb_false_r. cbn [app]. rewrite rp_x06.
      rewrite (rd_reg_of_write r lb) by (try exact Hw; lia). reflexivity.
  - (* Undefined *)
    u_uleb r H. done_ok H.
    assert (Ed : d = DUndefined r).
    { symmetry. apply Hd. intros rest0. cbn [app]. rewrite decode1_x07.
      rewrite (uleb_of_write r lb) by (try exact Hw; lia). reflexivity. }
    subst d. split; [intros e He; discriminate|].
    intros dbg' asz aa off rest. rewrite ?andb_false_r. cbn [app]. rewrite rp_x07.
    rewrite (rd_reg_of_write r lb) by (try exact Hw; lia). reflexivity.
  - (* SameValue *)
    u_uleb r H. done_ok H.
    assert (Ed : d = DSameValue r).
    { symmetry. apply Hd. intros rest0. cbn [app]. rewrite decode1_x08.
      rewrite (uleb_of_write r lb) by (try exact Hw; lia). reflexivity. }
    subst d. split; [intros e He; discriminate|].
    intros dbg' asz aa off rest. rewrite ?andb_false_r. cbn [app]. rewrite rp_x08.
    rewrite (rd_reg_of_write r lb) by (try exact Hw; lia). reflexivity.
  - (* Offset *)
    apply fdo_inv in H; [|assumption|assumption]. destruct H as (f & Hf1 & Hf2 & H).
    apply is_i32_iff in Hf2.
    destruct (f <? 0)%Z eqn:Ef.
    + u_uleb r H. u_sleb f H. done_ok H.
      assert (Ed : d = DOffsetExtendedSf r f).
      { symmetry. apply Hd. intros rest0. cbn [app]. rewrite <- app_assoc, decode1_x11.
        rewrite (uleb_of_write r lb) by (try exact Hw; lia). cbn [omap].
        rewrite (sleb_of_write f sb) by (try exact Hw0; lia). reflexivity. }
      subst d. split; [intros e He; discriminate|].
      intros dbg' asz aa off rest. rewrite ?andb_false_r. cbn [app]. rewrite <- app_assoc, rp_x11.
      rewrite (rd_reg_of_write r lb) by (try exact Hw; lia). cbn [bind].
      rewrite (rd_sleb_of_write f sb) by (try exact Hw0; lia). reflexivity.
    + destruct (z_as_u64_nonneg f) as [Hz1 Hz2]; [lia|].
      destruct (r <? 64) eqn:Er.
      * u_uleb (z_as_u64 f) H. rewrite wrap8_small in H by lia. rewrite lor128_small in H by lia. done_ok H.
        assert (Hb : b2n (n2b (128 + r)) = 128 + r) by (apply byte_small; lia).
        assert (Ed : d = DOffset r (z_as_u64 f)).
        { symmetry. apply Hd. intros rest0. cbn [app]. rewrite decode1_hi2 by (rewrite Hb; lia). rewrite Hb.
          rewrite (uleb_of_write (z_as_u64 f) lb) by (try exact Hw; change (2 ^ 64) with 18446744073709551616 in Hz1; lia).
          cbn [omap]. do 3 f_equal. lia. }
        subst d. split; [intros e He; discriminate|].
        intros dbg' asz aa off rest. rewrite ?andb_false_r. cbn [app].
        rewrite (rp_hi dbg' be asz aa off _ (lb ++ rest) 128 r) by (auto; lia). cbn [N.eqb Pos.eqb].
        rewrite (rd_uleb_of_write (z_as_u64 f) lb) by (try exact Hw; exact Hz1). reflexivity.
      * u_uleb r H. u_uleb (z_as_u64 f) H. done_ok H.
        assert (Ed : d = DOffset r (z_as_u64 f)).
        { symmetry. apply Hd. intros rest0. cbn [app]. rewrite <- app_assoc, decode1_x05.
          rewrite (uleb_of_write r lb) by (try exact Hw; lia). cbn [omap].
          rewrite (uleb_of_write (z_as_u64 f) lb0) by (try exact Hw0; change (2 ^ 64) with 18446744073709551616 in Hz1; lia).
          reflexivity. }
        subst d. split; [intros e He; discriminate|].
        intros dbg' asz aa off rest. rewrite ?andb_false_r. cbn [app]. rewrite <- app_assoc, rp_x05.
        rewrite (rd_reg_of_write r lb) by (try exact Hw; lia). cbn [bind].
        rewrite (rd_uleb_of_write (z_as_u64 f) lb0) by (try exact Hw0; exact Hz1). reflexivity.
  - (* ValOffset *)
    apply fdo_inv in H; [|assumption|assumption]. destruct H as (f & Hf1 & Hf2 & H).
    apply is_i32_iff in Hf2.
    destruct (f <? 0)%Z eqn:Ef.
    + u_uleb r H. u_sleb f H. done_ok H.
      assert (Ed : d = DValOffsetSf r f).
      { symmetry. apply Hd. intros rest0. cbn [app]. rewrite <- app_assoc, decode1_x15.
        rewrite (uleb_of_write r lb) by (try exact Hw; lia). cbn [omap].
        rewrite (sleb_of_write f sb) by (try exact Hw0; lia). reflexivity. }
      subst d. split; [intros e He; discriminate|].
      intros dbg' asz aa off rest. rewrite ?andb_false_r. cbn [app]. rewrite <- app_assoc, rp_x15.
      rewrite (rd_reg_of_write r lb) by (try exact Hw; lia). cbn [bind].
      rewrite (rd_sleb_of_write f sb) by (try exact Hw0; lia). reflexivity.
    + destruct (z_as_u64_nonneg f) as [Hz1 Hz2]; [lia|].
      u_uleb r H. u_uleb (z_as_u64 f) H. done_ok H.
      assert (Ed : d = DValOffset r (z_as_u64 f)).
      { symmetry. apply Hd. intros rest0. cbn [app]. rewrite <- app_assoc, decode1_x14.
        rewrite (uleb_of_write r lb) by (try exact Hw; lia). cbn [omap].
        rewrite (uleb_of_write (z_as_u64 f) lb0) by (try exact Hw0; change (2 ^ 64) with 18446744073709551616 in Hz1; lia).
        reflexivity. }
      subst d. split; [intros e He; discriminate|].
      intros dbg' asz aa off rest. rewrite ?andb_false_r. cbn [app]. rewrite <- app_assoc, rp_x14.
      rewrite (rd_reg_of_write r lb) by (try exact Hw; lia). cbn [bind].
      rewrite (rd_uleb_of_write (z_as_u64 f) lb0) by (try exact Hw0; exact Hz1). reflexivity.
  - (* Register *)
    u_uleb r1 H. u_uleb r2 H. done_ok H.
    assert (Ed : d = DRegister r1 r2).
    { symmetry. apply Hd. intros rest0. cbn [app]. rewrite <- app_assoc, decode1_x09.
      rewrite (uleb_of_write r1 lb) by (try exact Hw; lia). cbn [omap].
      rewrite (uleb_of_write r2 lb0) by (try exact Hw0; lia). reflexivity. }
    subst d. split; [intros e He; discriminate|].
    intros dbg' asz aa off rest. rewrite ?andb_false_r. cbn [app]. rewrite <- app_assoc, rp_x09.
    rewrite (rd_reg_of_write r1 lb) by (try exact Hw; lia). cbn [bind].
    rewrite (rd_reg_of_write r2 lb0) by (try exact Hw0; lia). reflexivity.
  - (* Expression *)
    u_uleb r H. u_blob e H. done_ok H.
    match goal with Hx : is_blob e = true |- _ => rename Hx into Hbl end.
    destruct (write_blob_spec e Hbl) as (bb' & Hw' & _ & Hbd). rewrite Hw0 in Hw'. injection Hw' as <-.
    assert (Ed : d = DExpression r e).
    { symmetry. apply Hd. intros rest0. cbn [app]. rewrite <- app_assoc, decode1_x10.
      rewrite (uleb_of_write r lb) by (try exact Hw; lia). cbn [omap]. rewrite Hbd. reflexivity. }
    subst d.
    destruct (rd_expr_of_write e bb Hbl Hw0 true 0 [x10] []) as [_ (lb' & Hbb)].
    split; [intros e' He; injection He as <-; exists (x10 :: lb ++ lb'); rewrite Hbb; cbn [app]; rewrite <- app_assoc; reflexivity|].
    intros dbg' asz aa off rest. rewrite ?andb_false_r. cbn [app]. rewrite <- app_assoc, rp_x10.
    rewrite (rd_reg_of_write r lb) by (try exact Hw; lia). cbn [bind].
    destruct (rd_expr_of_write e bb Hbl Hw0 dbg' off (x10 :: lb) rest) as [Hr _]. cbn [app] in Hr. rewrite Hr. cbn [bind].
    cbn [to_insn]. unfold rd_uexpr. rewrite ?len_cons', ?len_app. change (len (@nil byte)) with 0. do 4 f_equal. lia.
  - (* ValExpression *)
    u_uleb r H. u_blob e H. done_ok H.
    match goal with Hx : is_blob e = true |- _ => rename Hx into Hbl end.
    destruct (write_blob_spec e Hbl) as (bb' & Hw' & _ & Hbd). rewrite Hw0 in Hw'. injection Hw' as <-.
    assert (Ed : d = DValExpression r e).
    { symmetry. apply Hd. intros rest0. cbn [app]. rewrite <- app_assoc, decode1_x16.
      rewrite (uleb_of_write r lb) by (try exact Hw; lia). cbn [omap]. rewrite Hbd. reflexivity. }
    subst d.
    destruct (rd_expr_of_write e bb Hbl Hw0 true 0 [x16] []) as [_ (lb' & Hbb)].
    split; [intros e' He; injection He as <-; exists (x16 :: lb ++ lb'); rewrite Hbb; cbn [app]; rewrite <- app_assoc; reflexivity|].
    intros dbg' asz aa off rest. rewrite ?andb_false_r. cbn [app]. rewrite <- app_assoc, rp_x16.
    rewrite (rd_reg_of_write r lb) by (try exact Hw; lia). cbn [bind].
    destruct (rd_expr_of_write e bb Hbl Hw0 dbg' off (x16 :: lb) rest) as [Hr _]. cbn [app] in Hr. rewrite Hr. cbn [bind].
    cbn [to_insn]. unfold rd_uexpr. rewrite ?len_cons', ?len_app. change (len (@nil byte)) with 0. do 4 f_equal. lia.
  - (* RememberState *)
    done_ok H. assert (Ed : d = DRememberState) by (symmetry; apply Hd; intros rest0; apply decode1_x0a).
    subst d. split; [intros e He; discriminate|]. intros. rewrite andb_false_r. apply rp_x0a.
  - done_ok H. assert (Ed : d = DRestoreState) by (symmetry; apply Hd; intros rest0; apply decode1_x0b).
    subst d. split; [intros e He; discriminate|]. intros. rewrite andb_false_r. apply rp_x0b.
  - (* ArgsSize *)
    u_uleb n H. done_ok H.
    assert (Ed : d = DArgsSize n).
    { symmetry. apply Hd. intros rest0. cbn [app]. rewrite decode1_x2e.
      rewrite (uleb_of_write n lb) by (try exact Hw; lia). reflexivity. }
    subst d. split; [intros e He; discriminate|].
    intros dbg' asz aa off rest. rewrite ?andb_false_r. cbn [app]. rewrite rp_x2e.
    rewrite (rd_uleb_of_write n lb) by (try exact Hw; change (2 ^ 64) with 18446744073709551616; lia). reflexivity.
  - (* NegateRaState *)
    done_ok H. assert (Ed : d = DNegateRaState) by (symmetry; apply Hd; intros rest0; apply decode1_x2d).
    subst d. split; [intros e He; discriminate|].
    intros dbg' asz aa off rest. rewrite ?andb_false_r. cbn [app]. rewrite rp_x2d. destruct aa; reflexivity.
Qed.

(* ------------------------------------------------------------------ *)
(* B. instruction areas: CfiRun.decode on the written bytes              *)
(* ------------------------------------------------------------------ *)

Import CfaSpec.

(* the bytes of a section area (starting at section offset base) that a reference designates *)
Definition bytes_at (base : N) (area : list byte) (o n : N) : list byte :=
  firstn (N.to_nat n) (skipn (N.to_nat (o - base)) area).

(* a reader instruction that is the reader's form of a decoded instruction: same operands, expression
   operands as references to bytes of the area that hold the blob *)
Definition imatch (base : N) (area : list byte) (d : dinsn) (i : insn) : Prop :=
  exists off total, i = to_insn off total d /\
    forall e, expr_of d = Some e ->
      base <= off + total - len e /\ bytes_at base area (off + total - len e) (len e) = e.

Lemma rdec_is_dec dbg dp off bs :
  CfiRun.decode dbg dp off bs = CfiRunProofs.dec dbg dp {| CfiRun.it_off := off; CfiRun.it_bytes := bs |}.
Proof. reflexivity. Qed.

Lemma rdec_nil dbg dp off : CfiRun.decode dbg dp off [] = [].
Proof. reflexivity. Qed.

Lemma rdec_cons dbg dp off a rest i :
  a <> [] ->
  CfiRun.parse_insn dbg (CfiRun.d_be dp) (CfiRun.d_asize dp) (CfiRun.d_aarch64 dp) off (a ++ rest) = Ok (i, rest) ->
  CfiRun.decode dbg dp off (a ++ rest) = It i :: CfiRun.decode dbg dp (off + len a) rest.
Proof.
  intros Hne Hp. rewrite !rdec_is_dec. rewrite CfiRunProofs.dec_unfold.
  unfold CfiRun.iter_next. cbn [CfiRun.it_bytes CfiRun.it_off].
  destruct (a ++ rest) as [|b t] eqn:E; [destruct a; [congruence|discriminate]|].
  rewrite <- E in *. rewrite Hp. do 3 f_equal.
  unfold CfiRun.consumed, len. rewrite app_length. lia.
Qed.

Lemma rdec_bad dbg dp off a rest e :
  a <> [] ->
  CfiRun.parse_insn dbg (CfiRun.d_be dp) (CfiRun.d_asize dp) (CfiRun.d_aarch64 dp) off (a ++ rest) = Err e ->
  CfiRun.decode dbg dp off (a ++ rest) = [Bad e].
Proof.
  intros Hne Hp. rewrite rdec_is_dec, CfiRunProofs.dec_unfold.
  unfold CfiRun.iter_next. cbn [CfiRun.it_bytes CfiRun.it_off].
  destruct (a ++ rest) as [|b t] eqn:E; [destruct a; [congruence|discriminate]|].
  rewrite <- E in *. rewrite Hp. reflexivity.
Qed.

(* what follows an area is decoded after it, at the right offset *)
Definition rreads (dbg : bool) (dp : CfiRun.dparams) (off : N) (bs : list byte) (is : list insn) : Prop :=
  forall rest, CfiRun.decode dbg dp off (bs ++ rest) = map It is ++ CfiRun.decode dbg dp (off + len bs) rest.

Lemma rreads_nil dbg dp off : rreads dbg dp off [] [].
Proof. intros rest. cbn [app map]. change (len []) with 0. now rewrite N.add_0_r. Qed.

Lemma rreads_cons dbg dp off a b i is :
  a <> [] ->
  (forall rest, CfiRun.parse_insn dbg (CfiRun.d_be dp) (CfiRun.d_asize dp) (CfiRun.d_aarch64 dp) off (a ++ rest)
                = Ok (i, rest)) ->
  rreads dbg dp (off + len a) b is -> rreads dbg dp off (a ++ b) (i :: is).
Proof.
  intros Hne Ha Hb rest. rewrite <- app_assoc. rewrite (rdec_cons dbg dp off a (b ++ rest) i Hne (Ha _)). rewrite Hb.
  cbn [map app]. rewrite len_app, N.add_assoc. reflexivity.
Qed.

Lemma bytes_at_here base (pre p e rest : list byte) :
  bytes_at base (pre ++ (p ++ e) ++ rest) (base + len pre + len (p ++ e) - len e) (len e) = e.
Proof.
  unfold bytes_at. rewrite len_app.
  replace (N.to_nat (base + len pre + (len p + len e) - len e - base)) with (length (pre ++ p))
    by (rewrite app_length; unfold len; lia).
  replace (pre ++ (p ++ e) ++ rest) with ((pre ++ p) ++ e ++ rest) by (repeat rewrite <- app_assoc; reflexivity).
  rewrite skipn_app_exact. unfold len. rewrite Nat2N.id. apply firstn_app_exact.
Qed.

(* no DW_CFA_AARCH64_negate_ra_state unless the reader's vendor is AArch64 *)
Definition vendor_ok (aa : bool) (i : cfi) : bool :=
  aa || negb (match i with NegateRaState => true | _ => false end).

Definition dp_of (be aa : bool) (asz : N) : CfiRun.dparams :=
  {| CfiRun.d_be := be; CfiRun.d_asize := asz; CfiRun.d_aarch64 := aa |}.

(* area-independence of imatch: the reference only looks at the bytes of this instruction *)
Lemma imatch_insn base (pre a rest : list byte) d off_ok :
  off_ok = base + len pre ->
  (forall e, expr_of d = Some e -> exists p, a = p ++ e) ->
  imatch base (pre ++ a ++ rest) d (to_insn off_ok (len a) d).
Proof.
  intros -> Hex. exists (base + len pre), (len a). split; [reflexivity|].
  intros e He. destruct (Hex e He) as (p & ->). split.
  - rewrite len_app. lia.
  - apply bytes_at_here.
Qed.

Lemma write_insns_rread dbg be aa asz (caf : N) (daf : Z) : forall (l : list cfi) bs base pre rest,
  forallb cfi_wf l = true -> is_i8 daf = true -> forallb (vendor_ok aa) l = true ->
  write_insns dbg daf l = Ok bs ->
  exists ds is,
    decodes_to be bs ds /\ map (sem caf daf) ds = map MInsn l /\
    (forall dbg', rreads dbg' (dp_of be aa asz) (base + len pre) bs is) /\
    Forall2 (imatch base (pre ++ bs ++ rest)) ds is.
Proof.
  induction l as [|i r IH]; intros bs base pre rest Hwf Hdaf Hv H.
  - cbn [write_insns] in H. injection H as <-. exists [], []. split; [apply decodes_to_nil|].
    split; [reflexivity|]. split; [intros; apply rreads_nil|constructor].
  - cbn [write_insns] in H. cbn [forallb] in Hwf, Hv.
    apply andb_true_iff in Hwf. destruct Hwf as [Hi Hr]. apply andb_true_iff in Hv. destruct Hv as [Hvi Hvr].
    destruct (write_insn dbg daf i) as [a| | |] eqn:Ea; try discriminate. cbn [bind] in H.
    destruct (write_insns dbg daf r) as [b| | |] eqn:Eb; try discriminate. cbn [bind] in H. injection H as <-.
    destruct (insn_read_by_reader_lem dbg be caf daf i a Hi Hdaf Ea) as (d & Hd & Hs & Hex & Hrd).
    destruct (write_insn_decodes dbg be caf daf i a Hi Hdaf Ea) as (Hne & _).
    destruct (IH b base (pre ++ a) rest Hr Hdaf Hvr eq_refl) as (ds & is & Hds & Hm & Hrr & Hf).
    exists (d :: ds), (to_insn (base + len pre) (len a) d :: is).
    split; [apply decodes_to_cons; assumption|]. split; [cbn [map]; now rewrite Hs, Hm|]. split.
    + intros dbg'. apply rreads_cons; [exact Hne| |].
      * intros rest0. cbn [dp_of CfiRun.d_be CfiRun.d_asize CfiRun.d_aarch64]. rewrite Hrd.
        unfold vendor_ok in Hvi. destruct aa; [reflexivity|].
        destruct i; cbn in Hvi |- *; try reflexivity. discriminate.
      * specialize (Hrr dbg'). rewrite len_app, N.add_assoc in Hrr. exact Hrr.
    + constructor.
      * rewrite <- app_assoc. apply imatch_insn; [reflexivity|exact Hex].
      * replace (pre ++ (a ++ b) ++ rest) with ((pre ++ a) ++ b ++ rest) by (repeat rewrite <- app_assoc; reflexivity).
        exact Hf.
Qed.

(* fixed-width operands of the long advance forms *)
Lemma take_app_exact (l r : list byte) : take (length l) (l ++ r) = Some (l, r).
Proof. induction l as [|x l IH]; cbn [length take app]; [reflexivity|]. now rewrite IH. Qed.

Lemma read_un_enc n be v rest : v < 256 ^ N.of_nat n ->
  read_un n be (enc_num n be v ++ rest) = Ok (v, rest).
Proof.
  intros Hv. unfold read_un, read_bytes.
  pose proof (enc_num_length n be v) as HL. rewrite <- HL at 1. rewrite take_app_exact. cbn [bind].
  f_equal. f_equal.
  pose proof (num_enc_num n be v) as Hn. unfold num in Hn. rewrite N.mod_small in Hn by exact Hv.
  destruct be; exact Hn.
Qed.

Lemma rp_adv_enc dbg be asz aa off delta rest :
  delta < 4294967296 ->
  CfiRun.parse_insn dbg be asz aa off (adv_enc be delta ++ rest) = Ok (IAdvanceLoc delta, rest).
Proof.
  intros Hd. unfold adv_enc.
  destruct (delta <? 64) eqn:E1.
  - cbn [app]. rewrite (rp_hi dbg be asz aa off _ rest 64 delta) by (auto; try lia; apply byte_small; lia). reflexivity.
  - destruct (delta <? 256) eqn:E2.
    + cbn [app]. rewrite rp_x02. cbn [read_u8 bind]. rewrite byte_small by lia. reflexivity.
    + destruct (delta <? 65536) eqn:E3.
      * cbn [app]. rewrite rp_x03. unfold read_u16. rewrite read_un_enc by (change (256 ^ N.of_nat 2) with 65536; lia).
        reflexivity.
      * cbn [app]. rewrite rp_x04. unfold read_u32. rewrite read_un_enc by (change (256 ^ N.of_nat 4) with 4294967296; lia).
        reflexivity.
Qed.

Lemma write_fde_insns_rread dbg be aa asz (caf : N) (daf : Z) : forall (l : list (N * cfi)) prev bs base pre rest,
  forallb fde_insn_wf l = true -> is_u8 caf = true -> is_i8 daf = true -> is_u32 prev = true ->
  forallb (fun p => vendor_ok aa (snd p)) l = true ->
  write_fde_insns dbg be caf daf prev l = Ok bs ->
  exists ds is,
    decodes_to be bs ds /\ locate prev (map (sem caf daf) ds) = l /\
    (forall dbg', rreads dbg' (dp_of be aa asz) (base + len pre) bs is) /\
    Forall2 (imatch base (pre ++ bs ++ rest)) ds is.
Proof.
  induction l as [|[off i] r IH]; intros prev bs base pre rest Hwf Hcaf Hdaf Hprev Hv H.
  - cbn [write_fde_insns] in H. injection H as <-. exists [], []. split; [apply decodes_to_nil|].
    split; [reflexivity|]. split; [intros; apply rreads_nil|constructor].
  - cbn [write_fde_insns] in H. cbn [forallb] in Hwf, Hv.
    apply andb_true_iff in Hwf. destruct Hwf as [Hi Hr]. apply andb_true_iff in Hv. destruct Hv as [Hvi Hvr].
    cbn [snd] in Hvi.
    unfold fde_insn_wf in Hi. cbn [fst snd] in Hi. apply andb_true_iff in Hi. destruct Hi as [Hoff Hi].
    destruct (write_advance_loc dbg be caf prev off) as [a| | |] eqn:Ea; try discriminate. cbn [bind] in H.
    destruct (write_insn dbg daf i) as [b| | |] eqn:Eb; try discriminate. cbn [bind] in H.
    destruct (write_fde_insns dbg be caf daf off r) as [c| | |] eqn:Ec; try discriminate. cbn [bind] in H.
    injection H as <-.
    destruct (insn_read_by_reader_lem dbg be caf daf i b Hi Hdaf Eb) as (d & Hd & Hs & Hex & Hrd).
    destruct (write_insn_decodes dbg be caf daf i b Hi Hdaf Eb) as (Hne & _).
    assert (Hrdb : forall dbg' rest0, CfiRun.parse_insn dbg' be asz aa (base + len (pre ++ a)) (b ++ rest0)
                                 = Ok (to_insn (base + len (pre ++ a)) (len b) d, rest0)).
    { intros dbg' rest0. rewrite Hrd. unfold vendor_ok in Hvi. destruct aa; [reflexivity|].
      destruct i; cbn in Hvi |- *; try reflexivity. discriminate. }
    destruct (IH off c base (pre ++ a ++ b) rest Hr Hcaf Hdaf Hoff Hvr Ec) as (ds & is & Hds & Hm & Hrr & Hf).
    assert (Hf' : Forall2 (imatch base (pre ++ (a ++ b ++ c) ++ rest)) ds is).
    { replace (pre ++ (a ++ b ++ c) ++ rest) with ((pre ++ a ++ b) ++ c ++ rest)
        by (repeat rewrite <- app_assoc; reflexivity). exact Hf. }
    assert (Hmb : imatch base (pre ++ (a ++ b ++ c) ++ rest) d (to_insn (base + len (pre ++ a)) (len b) d)).
    { replace (pre ++ (a ++ b ++ c) ++ rest) with ((pre ++ a) ++ b ++ (c ++ rest))
        by (repeat rewrite <- app_assoc; reflexivity).
      apply imatch_insn; [reflexivity|exact Hex]. }
    assert (Hrbc : forall dbg', rreads dbg' (dp_of be aa asz) (base + len (pre ++ a)) (b ++ c)
                          (to_insn (base + len (pre ++ a)) (len b) d :: is)).
    { intros dbg'. apply rreads_cons; [exact Hne|apply Hrdb|].
      replace (base + len (pre ++ a) + len b) with (base + len (pre ++ a ++ b)) by (rewrite !len_app; lia).
      apply Hrr. }
    destruct (write_advance_loc_ok dbg be caf prev off a Hcaf Hprev Hoff Ea)
      as [[-> ->]|(delta & Hlt & Hmul & Hdl & ->)].
    + rewrite app_nil_r in Hrbc, Hmb.
      exists (d :: ds), (to_insn (base + len pre) (len b) d :: is).
      split; [cbn [app]; apply decodes_to_cons; assumption|].
      split; [cbn [map locate]; rewrite Hs; cbn [locate]; now rewrite Hm|].
      split; [exact Hrbc|constructor; assumption].
    + rewrite len_app, N.add_assoc in Hrbc, Hmb.
      exists (DAdvance delta :: d :: ds), (IAdvanceLoc delta :: to_insn (base + len pre + len (adv_enc be delta)) (len b) d :: is).
      split.
      { apply decodes_to_cons; [apply adv_enc_nonempty| |].
        - intros rest0. apply decode1_adv_enc. exact Hdl.
        - apply decodes_to_cons; assumption. }
      split.
      { cbn [map sem locate]. rewrite Hs. cbn [locate]. replace (prev + delta * caf) with off by lia. now rewrite Hm. }
      split.
      { intros dbg'. apply rreads_cons; [apply adv_enc_nonempty| |].
        - intros rest0. apply rp_adv_enc. exact Hdl.
        - apply Hrbc. }
      constructor; [|constructor; assumption].
      exists 0, 0. split; [reflexivity|]. intros e He. discriminate.
Qed.

(* nop padding *)
Lemma nops_rread dbg dp : forall pad off, all_nop pad = true ->
  rreads dbg dp off pad (repeat INop (length pad)).
Proof.
  induction pad as [|b r IH]; intros off H; [apply rreads_nil|].
  cbn [all_nop forallb] in H. apply andb_true_iff in H. destruct H as [Hb Hr].
  assert (b = x00). { apply b2n_inj. change (b2n x00) with 0. lia. } subst b.
  change (x00 :: r) with ([x00] ++ r). cbn [length repeat].
  apply rreads_cons; [discriminate|intros rest; apply rp_x00|]. apply IH. exact Hr.
Qed.

Lemma rreads_app dbg dp off a b ia ib :
  rreads dbg dp off a ia -> rreads dbg dp (off + len a) b ib -> rreads dbg dp off (a ++ b) (ia ++ ib).
Proof.
  intros Ha Hb rest. rewrite <- app_assoc, Ha, Hb, map_app, <- app_assoc, len_app, N.add_assoc. reflexivity.
Qed.

Lemma rreads_all dbg dp off bs is : rreads dbg dp off bs is -> CfiRun.decode dbg dp off bs = map It is.
Proof. intros H. specialize (H []). rewrite app_nil_r, rdec_nil, app_nil_r in H. exact H. Qed.

(* ------------------------------------------------------------------ *)
(* C. unwind rows of a written FDE (composition with C06)                *)
(* ------------------------------------------------------------------ *)

(* the already-parsed CIE + FDE handed to the unwind-table model: factors and address size of the written
   CIE, the two instruction areas with their section offsets *)
Definition fde_in_of (be aa : bool) (c : CfiWr.cie) (init range : N)
           (cie_off : N) (cie_area : list byte) (fde_off : N) (fde_area : list byte) : CfiRun.fde_in :=
  {| CfiRun.f_caf := c_caf c; CfiRun.f_daf := c_daf c; CfiRun.f_asize := c_asize c;
     CfiRun.f_be := be; CfiRun.f_aarch64 := aa; CfiRun.f_init := init; CfiRun.f_range := range;
     CfiRun.f_cie_off := cie_off; CfiRun.f_cie := cie_area;
     CfiRun.f_fde_off := fde_off; CfiRun.f_fde := fde_area |}.

Lemma cie_area_read dbg be eh aa pos (c : CfiWr.cie) bs :
  cie_wf c = true -> forallb (vendor_ok aa) (c_insns c) = true ->
  cie_write dbg be eh pos c = Ok bs ->
  exists il hdr area ds is n,
    bs = il ++ hdr ++ area /\ len il = ilen_size (c_fmt64 c) /\
    decode_all be area = Some (ds ++ repeat DNop n) /\
    map (sem (c_caf c) (c_daf c)) ds = map MInsn (c_insns c) /\
    Forall2 (imatch (pos + len il + len hdr) area) ds is /\
    forall dbg', CfiRun.decode dbg' (dp_of be aa (c_asize c)) (pos + len il + len hdr) area
                 = map It (is ++ repeat INop n).
Proof.
  intros Hwf Hv H.
  pose proof (cie_write_ok_asz _ _ _ _ _ _ H) as Hasz.
  destruct (asz_cases_pow2 _ Hasz) as [Hu Hp].
  destruct (cie_wf_parts c Hwf) as (_ & Hcaf & Hdaf & Hins).
  destruct (cie_write_layout dbg be eh pos c bs Hu Hp H)
    as (il & hdr & insns & pad & -> & Hil & Hlen & Hw & Hnop & Hpad & Hmod).
  destruct (write_insns_rread dbg be aa (c_asize c) (c_caf c) (c_daf c) (c_insns c) insns
              (pos + len il + len hdr) [] pad Hins Hdaf Hv Hw) as (ds & is & Hds & Hm & Hrr & Hf).
  cbn [app] in Hf.
  exists il, hdr, (insns ++ pad), ds, is, (length pad).
  split; [reflexivity|]. split; [exact Hlen|]. split; [apply Hds; apply all_nop_decodes; exact Hnop|].
  split; [exact Hm|]. split; [exact Hf|].
  intros dbg'. specialize (Hrr dbg'). change (len []) with 0 in Hrr. rewrite N.add_0_r in Hrr.
  apply rreads_all. apply rreads_app; [exact Hrr|]. apply nops_rread. exact Hnop.
Qed.

Lemma fde_area_read dbg be eh aa pos coff (c : CfiWr.cie) (f : CfiWr.fde) bs :
  cie_wf c = true -> fde_wf f = true -> forallb (fun p => vendor_ok aa (snd p)) (f_insns f) = true ->
  fde_write dbg be eh pos coff c f = Ok bs ->
  exists il hdr area ds is n,
    bs = il ++ hdr ++ area /\ len il = ilen_size (c_fmt64 c) /\
    decode_all be area = Some (ds ++ repeat DNop n) /\
    locate 0 (map (sem (c_caf c) (c_daf c)) ds) = f_insns f /\
    Forall2 (imatch (pos + len il + len hdr) area) ds is /\
    forall dbg', CfiRun.decode dbg' (dp_of be aa (c_asize c)) (pos + len il + len hdr) area
                 = map It (is ++ repeat INop n).
Proof.
  intros Hwf Hfw Hv H.
  pose proof (fde_write_ok_asz _ _ _ _ _ _ _ _ H) as Hasz.
  destruct (asz_cases_pow2 _ Hasz) as [Hu Hp].
  destruct (cie_wf_parts c Hwf) as (_ & Hcaf & Hdaf & _).
  pose proof (fde_wf_parts f Hfw) as Hins.
  destruct (fde_write_layout dbg be eh pos coff c f bs Hu Hp H)
    as (il & hdr & insns & pad & -> & Hil & Hlen & Hw & Hnop & Hpad & Hmod).
  destruct (write_fde_insns_rread dbg be aa (c_asize c) (c_caf c) (c_daf c) (f_insns f) 0 insns
              (pos + len il + len hdr) [] pad Hins Hcaf Hdaf eq_refl Hv Hw) as (ds & is & Hds & Hm & Hrr & Hf).
  cbn [app] in Hf.
  exists il, hdr, (insns ++ pad), ds, is, (length pad).
  split; [reflexivity|]. split; [exact Hlen|]. split; [apply Hds; apply all_nop_decodes; exact Hnop|].
  split; [exact Hm|]. split; [exact Hf|].
  intros dbg'. specialize (Hrr dbg'). change (len []) with 0 in Hrr. rewrite N.add_0_r in Hrr.
  apply rreads_all. apply rreads_app; [exact Hrr|]. apply nops_rread. exact Hnop.
Qed.

Lemma valid_asize_of a : asz_ok a -> CfiRun.valid_asize a = true.
Proof. intros [->|[->|[->| ->]]]; reflexivity. Qed.

(* The unwind rows gimli's reader model produces for a written FDE are those of the DWARF call-frame machine
   (CfaSpec.run_spec, no storage limits) run on the reader's form of the two written programs, which are the
   supplied CIE instructions and the supplied FDE instructions at their code offsets. *)
Lemma rows_read_by_reader_lem dbg be eh aa cpos fpos coff (c : CfiWr.cie) (f : CfiWr.fde) cb fb :
  cie_wf c = true -> fde_wf f = true ->
  forallb (vendor_ok aa) (c_insns c) = true -> forallb (fun p => vendor_ok aa (snd p)) (f_insns f) = true ->
  cie_write dbg be eh cpos c = Ok cb -> fde_write dbg be eh fpos coff c f = Ok fb ->
  exists cil chdr carea fil fhdr farea dsc dsf ic ifd n1 n2,
    cb = cil ++ chdr ++ carea /\ fb = fil ++ fhdr ++ farea /\
    map (sem (c_caf c) (c_daf c)) dsc = map MInsn (c_insns c) /\
    locate 0 (map (sem (c_caf c) (c_daf c)) dsf) = f_insns f /\
    Forall2 (imatch (cpos + len cil + len chdr) carea) dsc ic /\
    Forall2 (imatch (fpos + len fil + len fhdr) farea) dsf ifd /\
    forall dbg' caps cx init range,
      let fi := fde_in_of be aa c init range (cpos + len cil + len chdr) carea (fpos + len fil + len fhdr) farea in
      let spec := run_spec (CfiRunProofs.sparams_of fi) init (spec_end (c_asize c) init range)
                           (map It (ic ++ repeat INop n1)) (map It (ifd ++ repeat INop n2)) in
      CfiRunProofs.spec_unl dbg' fi = spec /\
      (CfiRun.cap_full (max_stack caps) 0 = false -> CfiRunProofs.within_limits dbg' caps fi = true ->
       Forall2 CfiRunProofs.row_equiv (fst (fst (CfiRun.fde_rows dbg' caps fi cx))) (fst spec) /\
       snd (fst (CfiRun.fde_rows dbg' caps fi cx)) = snd spec).
Proof.
  intros Hwf Hfw Hvc Hvf Hc Hf.
  pose proof (cie_write_ok_asz _ _ _ _ _ _ Hc) as Hasz.
  destruct (cie_area_read dbg be eh aa cpos c cb Hwf Hvc Hc) as (cil & chdr & carea & dsc & ic & n1 & E1 & _ & _ & M1 & F1 & D1).
  destruct (fde_area_read dbg be eh aa fpos coff c f fb Hwf Hfw Hvf Hf) as (fil & fhdr & farea & dsf & ifd & n2 & E2 & _ & _ & M2 & F2 & D2).
  exists cil, chdr, carea, fil, fhdr, farea, dsc, dsf, ic, ifd, n1, n2.
  split; [exact E1|]. split; [exact E2|]. split; [exact M1|]. split; [exact M2|]. split; [exact F1|]. split; [exact F2|].
  intros dbg' caps cx init range fi spec.
  assert (Hs : CfiRunProofs.spec_unl dbg' fi = spec).
  { unfold CfiRunProofs.spec_unl, CfiRunProofs.cie_items, CfiRunProofs.fde_items, spec, fi.
    cbn [fde_in_of CfiRun.f_dparams CfiRun.f_be CfiRun.f_asize CfiRun.f_aarch64 CfiRun.f_cie_off CfiRun.f_cie
         CfiRun.f_fde_off CfiRun.f_fde CfiRun.f_init CfiRun.f_range].
    fold (dp_of be aa (c_asize c)). rewrite D1, D2. reflexivity. }
  split; [exact Hs|]. intros Hcap Hlim.
  rewrite <- Hs. apply CfiRunProofs.no_silent_limit_thm; [|exact Hcap|exact Hlim].
  apply valid_asize_of. exact Hasz.
Qed.

(* ------------------------------------------------------------------ *)
(* D. the writer's primitives produce the spec encodings of CfiSpec (C05) *)
(* ------------------------------------------------------------------ *)

Require GV.Spec.CfiSpec GV.Model.CfiRd GV.Proofs.CfiRdProofs.

Lemma lor128_byte x : x < 256 -> n2b (N.lor x CONT) = n2b (128 + x mod 128).
Proof.
  intros H.
  assert (E : (b2n (n2b (N.lor x CONT)) =? b2n (n2b (128 + x mod 128))) = true).
  { apply (forall_lt (fun x => b2n (n2b (N.lor x CONT)) =? b2n (n2b (128 + x mod 128))) 256); [vm_compute; reflexivity|exact H]. }
  apply b2n_inj. lia.
Qed.

Lemma write_uleb_fuel_enc : forall f1 f2 v,
  f1 <> O -> f2 <> O -> v < 2 ^ (7 * N.of_nat f1) -> v < 2 ^ (7 * N.of_nat f2) ->
  write_uleb_fuel f1 v = Ok (enc_uleb_fuel f2 v).
Proof.
  induction f1 as [|f1 IH]; intros f2 v H1 H2 Hv1 Hv2; [congruence|].
  destruct f2 as [|f2]; [congruence|].
  cbn [write_uleb_fuel enc_uleb_fuel]. rewrite low7_land255, shiftr7.
  destruct (v <? 128) eqn:E.
  - replace (v / 128 =? 0) with true by lia. rewrite N.mod_small by lia. reflexivity.
  - replace (v / 128 =? 0) with false by lia.
    rewrite pow7_succ in Hv1, Hv2.
    assert (Hf1 : f1 <> O). { intros ->. change (2 ^ (7 * N.of_nat 0)) with 1 in Hv1. lia. }
    assert (Hf2 : f2 <> O). { intros ->. change (2 ^ (7 * N.of_nat 0)) with 1 in Hv2. lia. }
    rewrite (IH f2 (v / 128) Hf1 Hf2) by lia. cbn [bind].
    rewrite lor128_byte by (assert (v mod 128 < 128) by (apply N.mod_lt; lia); lia).
    rewrite N.mod_mod by lia. reflexivity.
Qed.

Lemma write_uleb128_enc v : v < 2 ^ 64 -> write_uleb128 v = Ok (enc_uleb v).
Proof.
  intros Hv. unfold write_uleb128, enc_uleb. apply write_uleb_fuel_enc; try discriminate.
  - change (7 * N.of_nat 10) with 70. apply N.lt_le_trans with (2 ^ 64); [exact Hv|]. apply N.pow_le_mono_r; lia.
  - change (7 * N.of_nat 19) with 133. apply N.lt_le_trans with (2 ^ 64); [exact Hv|]. apply N.pow_le_mono_r; lia.
Qed.

Local Open Scope Z_scope.
Lemma land127_mod256 z : N.land (Z.to_N (z mod 256)) 127 = Z.to_N (z mod 128).
Proof.
  change 127%N with (N.ones 7). rewrite N.land_ones. change (2 ^ 7)%N with 128%N. lia.
Qed.

Lemma write_sleb_fuel_enc : forall f1 f2 z,
  f1 <> O -> f2 <> O -> - hpow f1 <= z < hpow f1 -> - hpow f2 <= z < hpow f2 ->
  write_sleb_fuel f1 z = Ok (CfiSpec.enc_sleb_fuel f2 z).
Proof.
  induction f1 as [|f1 IH]; intros f2 z H1 H2 Hz1 Hz2; [congruence|].
  destruct f2 as [|f2]; [congruence|].
  cbn [write_sleb_fuel CfiSpec.enc_sleb_fuel]. rewrite shiftr_6_1.
  destruct ((Z.shiftr z 6 =? 0) || (Z.shiftr z 6 =? -1)) eqn:E.
  - apply sleb_done_iff in E.
    replace (((z / 128 =? 0) && (z mod 128 <? 64)) || ((z / 128 =? -1) && (64 <=? z mod 128))) with true by lia.
    rewrite land127_mod256. reflexivity.
  - assert (E' : ~ (-64 <= z < 64)) by (rewrite <- sleb_done_iff; congruence).
    replace (((z / 128 =? 0) && (z mod 128 <? 64)) || ((z / 128 =? -1) && (64 <=? z mod 128))) with false by lia.
    assert (Hf1 : f1 <> O). { intros ->. rewrite hpow_1 in Hz1. lia. }
    assert (Hf2 : f2 <> O). { intros ->. rewrite hpow_1 in Hz2. lia. }
    rewrite hpow_succ in Hz1, Hz2 by assumption.
    rewrite (IH f2 (z / 128) Hf1 Hf2) by lia. cbn [bind].
    rewrite lor128_byte by lia.
    replace (128 + Z.to_N (z mod 256) mod 128)%N with (128 + Z.to_N (z mod 128))%N by lia. reflexivity.
Qed.

Lemma write_sleb128_enc z : -9223372036854775808 <= z < 9223372036854775808 ->
  write_sleb128 z = Ok (CfiSpec.enc_sleb z).
Proof.
  intros Hz. unfold write_sleb128, CfiSpec.enc_sleb. apply write_sleb_fuel_enc; try discriminate.
  - assert (E : hpow 10 = 590295810358705651712) by (vm_compute; reflexivity). rewrite E. lia.
  - assert (E : hpow 19 = 5444517870735015415413993718908291383296) by (vm_compute; reflexivity). rewrite E. lia.
Qed.
Local Close Scope Z_scope.

Lemma le_bytes_le_n n v : le_bytes n v = CfiSpec.le_n n v.
Proof. revert v. induction n as [|k IH]; intros v; cbn [le_bytes CfiSpec.le_n]; [reflexivity|]. now rewrite IH. Qed.
Lemma enc_un_un_bytes n be v : enc_un n be v = CfiSpec.un_bytes n be v.
Proof. unfold enc_un, be_bytes, CfiSpec.un_bytes. now rewrite le_bytes_le_n. Qed.

Lemma le_n_mod : forall n v, CfiSpec.le_n n v = CfiSpec.le_n n (v mod 256 ^ N.of_nat n).
Proof.
  induction n as [|k IH]; intros v; cbn [CfiSpec.le_n]; [reflexivity|].
  rewrite pow256_succ.
  assert (Hp : 256 ^ N.of_nat k <> 0) by (apply N.pow_nonzero; lia).
  f_equal.
  - apply b2n_inj. rewrite !b2n_n2b. rewrite N.mod_mul_r by lia.
    rewrite N.add_mod, N.mul_comm, N.mod_mul, N.add_0_r, !N.mod_mod by lia. reflexivity.
  - rewrite (IH (v / 256)), (IH (v mod (256 * 256 ^ N.of_nat k) / 256)). f_equal.
    rewrite N.mod_mul_r by lia.
    replace ((v mod 256 + 256 * ((v / 256) mod 256 ^ N.of_nat k)) / 256) with ((v / 256) mod 256 ^ N.of_nat k).
    + rewrite N.mod_mod by exact Hp. reflexivity.
    + generalize ((v / 256) mod 256 ^ N.of_nat k). intros Y. lia.
Qed.

Lemma un_bytes_mod n be v : CfiSpec.un_bytes n be v = CfiSpec.un_bytes n be (v mod 256 ^ N.of_nat n).
Proof. unfold CfiSpec.un_bytes. now rewrite (le_n_mod n v). Qed.

Lemma write_udata_un_bytes be v size bs :
  v < 18446744073709551616 -> write_udata be v size = Ok bs ->
  (size = 1 \/ size = 2 \/ size = 4 \/ size = 8) /\ bs = CfiSpec.un_bytes (N.to_nat size) be v /\ v < 2 ^ (8 * size).
Proof.
  intros Hv H. pose proof (write_udata_lt be v size bs Hv H) as Hlt.
  unfold write_udata in H.
  destruct (size =? 1) eqn:E1.
  { assert (size = 1) by lia. subst. destruct (v <? 256); [|discriminate]. injection H as <-.
    split; [auto|]. split; [apply enc_un_un_bytes|exact Hlt]. }
  destruct (size =? 2) eqn:E2.
  { assert (size = 2) by lia. subst. destruct (v <? two16); [|discriminate]. injection H as <-.
    split; [auto|]. split; [apply enc_un_un_bytes|exact Hlt]. }
  destruct (size =? 4) eqn:E4.
  { assert (size = 4) by lia. subst. destruct (v <? two32); [|discriminate]. injection H as <-.
    split; [auto|]. split; [apply enc_un_un_bytes|exact Hlt]. }
  destruct (size =? 8) eqn:E8; [|discriminate].
  assert (size = 8) by lia. subst. injection H as <-.
  split; [auto|]. split; [apply enc_un_un_bytes|exact Hlt].
Qed.

(* signed fixed-width: the bytes are the low bytes of the 64-bit pattern, which is what CfiSpec encodes *)
Lemma of_signed_mod bits (val : N) :
  (bits = 16 \/ bits = 32 \/ bits = 64) -> val < 18446744073709551616 ->
  of_signed bits (to_i64 val) mod 2 ^ bits = val mod 2 ^ bits.
Proof.
  intros Hb Hv. pose proof (to_i64_mod val Hv) as Hm. unfold of_signed.
  destruct Hb as [->|[->| ->]].
  - change (2 ^ 16) with 65536. change (Z.of_N 65536) with 65536%Z. lia.
  - change (2 ^ 32) with 4294967296. change (Z.of_N 4294967296) with 4294967296%Z. lia.
  - change (2 ^ 64) with 18446744073709551616. change (Z.of_N 18446744073709551616) with 18446744073709551616%Z. lia.
Qed.

Lemma in_signed_fits16 val : val < 18446744073709551616 -> in_signed 16 (to_i64 val) = true ->
  ((val <? 2 ^ 15) || ((2 ^ 64 - 2 ^ 15 <=? val) && (val <? 2 ^ 64))) = true.
Proof.
  intros Hv H. pose proof (to_i64_mod val Hv) as Hm. pose proof (to_i64_range val) as Hr.
  unfold in_signed in H. change (Z.of_N (2 ^ (16 - 1))) with 32768%Z in H.
  change (2 ^ 15) with 32768. change (2 ^ 64) with 18446744073709551616. lia.
Qed.
Lemma in_signed_fits32 val : val < 18446744073709551616 -> in_signed 32 (to_i64 val) = true ->
  ((val <? 2 ^ 31) || ((2 ^ 64 - 2 ^ 31 <=? val) && (val <? 2 ^ 64))) = true.
Proof.
  intros Hv H. pose proof (to_i64_mod val Hv) as Hm. pose proof (to_i64_range val) as Hr.
  unfold in_signed in H. change (Z.of_N (2 ^ (32 - 1))) with 2147483648%Z in H.
  change (2 ^ 31) with 2147483648. change (2 ^ 64) with 18446744073709551616. lia.
Qed.

Lemma s64_to_i64 val : val < 18446744073709551616 -> CfiSpec.s64 val = to_i64 val.
Proof.
  intros Hv. unfold CfiSpec.s64, to_i64, to_signed, wrapN. change (2 ^ 64) with 18446744073709551616.
  change (2 ^ (64 - 1)) with 9223372036854775808. change (2 ^ 63) with 9223372036854775808.
  rewrite N.mod_small by exact Hv.
  destruct (val <? 9223372036854775808); [reflexivity|].
  change (Z.of_N 18446744073709551616) with (2 ^ 64)%Z. reflexivity.
Qed.

Lemma write_eh_pointer_data_enc be val fmt asz bs :
  val < 18446744073709551616 ->
  write_eh_pointer_data be val fmt asz = Ok bs ->
  bs = CfiSpec.enc_value fmt asz be val /\ CfiSpec.fmt_valid fmt = true /\ CfiSpec.value_fits fmt asz val = true /\
  (fmt = 0 -> asz = 1 \/ asz = 2 \/ asz = 4 \/ asz = 8).
Proof.
  intros Hv H. unfold write_eh_pointer_data in H. unfold CfiSpec.enc_value, CfiSpec.value_fits.
  destruct (fmt =? 0) eqn:F0.
  { assert (fmt = 0) by lia. subst fmt.
    destruct (write_udata_un_bytes be val asz bs Hv H) as (Hs & -> & Hlt).
    split; [reflexivity|]. split; [reflexivity|]. split; [lia|auto]. }
  destruct (fmt =? 1) eqn:F1.
  { assert (fmt = 1) by lia. subst fmt. unfold write_uleb128 in *.
    pose proof (write_uleb128_enc val ltac:(change (2 ^ 64) with 18446744073709551616; exact Hv)) as E.
    unfold write_uleb128 in E. rewrite E in H. injection H as <-.
    split; [reflexivity|]. split; [reflexivity|]. split; [change (2 ^ 64) with 18446744073709551616; lia|lia]. }
  destruct (fmt =? 2) eqn:F2.
  { assert (fmt = 2) by lia. subst fmt.
    destruct (write_udata_un_bytes be val 2 bs Hv H) as (_ & -> & Hlt).
    split; [reflexivity|]. split; [reflexivity|]. split; [change (8 * 2) with 16 in Hlt; lia|lia]. }
  destruct (fmt =? 3) eqn:F3.
  { assert (fmt = 3) by lia. subst fmt.
    destruct (write_udata_un_bytes be val 4 bs Hv H) as (_ & -> & Hlt).
    split; [reflexivity|]. split; [reflexivity|]. split; [change (8 * 4) with 32 in Hlt; lia|lia]. }
  destruct (fmt =? 4) eqn:F4.
  { assert (fmt = 4) by lia. subst fmt.
    destruct (write_udata_un_bytes be val 8 bs Hv H) as (_ & -> & Hlt).
    split; [reflexivity|]. split; [reflexivity|]. split; [change (8 * 8) with 64 in Hlt; lia|lia]. }
  destruct (fmt =? 9) eqn:F9.
  { assert (fmt = 9) by lia. subst fmt.
    pose proof (write_sleb128_enc (to_i64 val) (to_i64_range val)) as E.
    unfold write_sleb128 in *. rewrite E in H. injection H as <-.
    split; [rewrite s64_to_i64 by exact Hv; reflexivity|]. split; [reflexivity|].
    split; [change (2 ^ 64) with 18446744073709551616; lia|lia]. }
  destruct (fmt =? 10) eqn:F10.
  { assert (fmt = 10) by lia. subst fmt. unfold write_sdata in H. cbn [N.eqb Pos.eqb] in H.
    destruct (in_signed 16 (to_i64 val)) eqn:Ei; [|discriminate]. injection H as <-.
    split; [|split; [reflexivity|split; [apply in_signed_fits16; assumption|lia]]].
    rewrite enc_un_un_bytes. rewrite un_bytes_mod, (un_bytes_mod 2 be val).
    change (256 ^ N.of_nat 2) with (2 ^ 16). rewrite of_signed_mod by (auto; lia). reflexivity. }
  destruct (fmt =? 11) eqn:F11.
  { assert (fmt = 11) by lia. subst fmt. unfold write_sdata in H. cbn [N.eqb Pos.eqb] in H.
    destruct (in_signed 32 (to_i64 val)) eqn:Ei; [|discriminate]. injection H as <-.
    split; [|split; [reflexivity|split; [apply in_signed_fits32; assumption|lia]]].
    rewrite enc_un_un_bytes. rewrite un_bytes_mod, (un_bytes_mod 4 be val).
    change (256 ^ N.of_nat 4) with (2 ^ 32). rewrite of_signed_mod by (auto; lia). reflexivity. }
  destruct (fmt =? 12) eqn:F12; [|discriminate].
  assert (fmt = 12) by lia. subst fmt. unfold write_sdata in H. cbn [N.eqb Pos.eqb] in H. injection H as <-.
  split; [|split; [reflexivity|split; [change (2 ^ 64) with 18446744073709551616; lia|lia]]].
  rewrite enc_un_un_bytes. rewrite un_bytes_mod, (un_bytes_mod 8 be val).
  change (256 ^ N.of_nat 8) with (2 ^ 64). rewrite of_signed_mod by (auto; lia). reflexivity.
Qed.

(* ---- the written CIE is CfiSpec.enc_cie of its translation ---- *)

(* the value the writer hands to the pointer format: absolute, or relative to the field's own offset *)
Definition ptr_raw (pos enc a : N) : N :=
  if CfiWr.pe_application enc =? 16 then wrap64 (two64 + a - wrap64 pos) else a.

Definition lsda_items (c : CfiWr.cie) : list CfiSpec.aug_item :=
  match c_lsda_enc c with Some e => [CfiSpec.AL e] | None => [] end.
Definition pers_items (c : CfiWr.cie) (dpos : N) : list CfiSpec.aug_item :=
  match c_pers c with
  | Some (e, AConst a) => [CfiSpec.AP e (ptr_raw (dpos + N.of_nat (length (lsda_items c)) + 1) e a)]
  | Some (e, ASym _ _) => [CfiSpec.AP e 0]
  | None => []
  end.
Definition aug_items_of (c : CfiWr.cie) (dpos : N) : list CfiSpec.aug_item :=
  lsda_items c ++ pers_items c dpos
  ++ (if negb (c_fde_enc c =? 0) then [CfiSpec.AR (c_fde_enc c)] else [])
  ++ (if c_sig c then [CfiSpec.AS] else []).

Definition cie_rec_of (c : CfiWr.cie) (dpos : N) (instr : list byte) : CfiSpec.cie_rec :=
  CfiSpec.mkcie_rec (c_fmt64 c) (c_version c) (has_augmentation c) (aug_items_of c dpos)
                    (c_asize c) (c_caf c) (c_daf c) (c_ra c) instr.

Lemma n2b_mod v : n2b (v mod 256) = n2b v.
Proof. apply b2n_inj. rewrite !b2n_n2b. rewrite N.mod_mod by lia. reflexivity. Qed.

Lemma fmt_of_pe e : CfiSpec.fmt_of e = CfiWr.pe_format e.
Proof. unfold CfiSpec.fmt_of, CfiWr.pe_format. change 15 with (N.ones 4). rewrite N.land_ones. reflexivity. Qed.

Lemma enc_uleb_small n : n < 128 -> enc_uleb n = [n2b n].
Proof.
  intros H. unfold enc_uleb. change 19%nat with (S 18). cbn [enc_uleb_fuel].
  destruct (n <? 128) eqn:E; [reflexivity|lia].
Qed.

Lemma initial_length_eq fmt64 be L il :
  L < 18446744073709551616 -> write_initial_length fmt64 be L = Ok il ->
  il = CfiSpec.initial_length be fmt64 L /\ L < (if fmt64 then 2 ^ 64 else 4294967280).
Proof.
  unfold write_initial_length, CfiSpec.initial_length. intros HL H.
  destruct (negb fmt64 && (4294967280 <=? L) && (L <=? 4294967295)) eqn:E; [discriminate|].
  apply bind_ok_inv in H. destruct H as (body & Hb & H). injection H as <-.
  destruct (write_udata_un_bytes be L (word_size fmt64) body HL Hb) as (_ & -> & Hlt).
  destruct fmt64; cbn [word_size] in *.
  - rewrite enc_un_un_bytes. split; [reflexivity|]. change (2 ^ 64) with 18446744073709551616. lia.
  - cbn [app]. split; [reflexivity|]. change (2 ^ (8 * 4)) with 4294967296 in Hlt. cbn [negb andb] in E. lia.
Qed.

Lemma write_eh_pointer_enc be pos a e asz pb :
  a < 18446744073709551616 -> write_eh_pointer be pos (AConst a) e asz = Ok pb ->
  pb = CfiSpec.enc_value (CfiWr.pe_format e) asz be (ptr_raw pos e a) /\
  (CfiWr.pe_application e = 0 \/ CfiWr.pe_application e = 16) /\
  CfiSpec.fmt_valid (CfiWr.pe_format e) = true /\
  CfiSpec.value_fits (CfiWr.pe_format e) asz (ptr_raw pos e a) = true /\
  ptr_raw pos e a < 18446744073709551616.
Proof.
  intros Ha H. unfold write_eh_pointer in H. unfold ptr_raw.
  destruct (CfiWr.pe_application e =? 0) eqn:A0.
  - cbn [bind] in H. replace (CfiWr.pe_application e =? 16) with false by lia.
    destruct (write_eh_pointer_data_enc be a _ asz pb Ha H) as (E1 & E2 & E3 & _).
    split; [exact E1|]. split; [left; lia|]. auto.
  - destruct (CfiWr.pe_application e =? 16) eqn:A16; [|discriminate]. cbn [bind] in H.
    assert (Hw : wrap64 (two64 + a - wrap64 pos) < 18446744073709551616) by apply wrap64_lt.
    destruct (write_eh_pointer_data_enc be _ _ asz pb Hw H) as (E1 & E2 & E3 & _).
    split; [exact E1|]. split; [right; lia|]. auto.
Qed.

(* characters of the augmentation string *)
Lemma aug_chars_eq (c : CfiWr.cie) dpos :
  (if is_some (c_lsda_enc c) then [x4c] else []) ++ (if is_some (c_pers c) then [x50] else [])
  ++ (if negb (c_fde_enc c =? 0) then [x52] else []) ++ (if c_sig c then [x53] else [])
  = map (fun i => n2b (CfiSpec.item_char i)) (aug_items_of c dpos).
Proof.
  unfold aug_items_of, pers_items, lsda_items.
  destruct (c_lsda_enc c); destruct (c_pers c) as [[e [a|s d]]|]; destruct (negb (c_fde_enc c =? 0)); destruct (c_sig c);
    reflexivity.
Qed.

Lemma aug_items_len (c : CfiWr.cie) dpos :
  N.of_nat (length (aug_items_of c dpos)) =
  (if is_some (c_lsda_enc c) then 1 else 0) + (if is_some (c_pers c) then 1 else 0)
  + (if negb (c_fde_enc c =? 0) then 1 else 0) + (if c_sig c then 1 else 0).
Proof.
  unfold aug_items_of, pers_items, lsda_items.
  destruct (c_lsda_enc c); destruct (c_pers c) as [[e [a|s d]]|]; destruct (negb (c_fde_enc c =? 0)); destruct (c_sig c);
    reflexivity.
Qed.

(* augmentation data *)
Lemma aug_data_eq be (c : CfiWr.cie) dpos pb :
  match c_pers c with
  | Some (e, a) =>
      write_eh_pointer be (dpos + len (match c_lsda_enc c with Some e => [n2b e] | None => [] end) + 1) a e (c_asize c) = Ok pb
  | None => pb = []
  end ->
  match c_pers c with Some (_, AConst a) => a < 18446744073709551616 | _ => True end ->
  (match c_lsda_enc c with Some e => [n2b e] | None => [] end)
  ++ (match c_pers c with Some (e, _) => n2b e :: pb | None => [] end)
  ++ (if negb (c_fde_enc c =? 0) then [n2b (c_fde_enc c)] else [])
  = concat (map (CfiSpec.item_data (c_asize c) be) (aug_items_of c dpos)).
Proof.
  intros Hpb Ha. unfold aug_items_of, pers_items, lsda_items in *.
  assert (Hl : len (match c_lsda_enc c with Some e => [n2b e] | None => [] end)
               = N.of_nat (length (match c_lsda_enc c with Some e => [CfiSpec.AL e] | None => [] end)))
    by (destruct (c_lsda_enc c); reflexivity).
  rewrite Hl in Hpb.
  destruct (c_pers c) as [[e [a|s d]]|].
  - destruct (write_eh_pointer_enc be _ a e (c_asize c) pb Ha Hpb) as (-> & _).
    destruct (c_lsda_enc c); destruct (negb (c_fde_enc c =? 0)); destruct (c_sig c);
      cbn [app map concat CfiSpec.item_data length]; rewrite ?app_nil_r, fmt_of_pe; reflexivity.
  - cbn [write_eh_pointer] in Hpb. discriminate.
  - subst pb. destruct (c_lsda_enc c); destruct (negb (c_fde_enc c =? 0)); destruct (c_sig c); reflexivity.
Qed.

Require GV.Proofs.CfiRdBase GV.Proofs.CfiRdEnt GV.Proofs.CfiRdIter GV.Proofs.CfiRdSafe.
Module RdE := GV.Proofs.CfiRdEnt.

Definition cie_sp (eh be : bool) (c : CfiWr.cie) : CfiSpec.sparams := CfiSpec.mksp eh be (c_asize c).
Definition id_size_of (eh fmt64 : bool) : N := if eh then 4 else if fmt64 then 8 else 4.

Definition cie_data_pos (eh be : bool) (pos : N) (c : CfiWr.cie) : N :=
  pos + ilen_size (c_fmt64 c) + id_size_of eh (c_fmt64 c)
  + CfiRd.nlen (RdE.cie_pre (cie_sp eh be c) (cie_rec_of c 0 [])) + 1.

Lemma cie_pre_indep eh be c d1 i1 d2 i2 :
  RdE.cie_pre (cie_sp eh be c) (cie_rec_of c d1 i1) = RdE.cie_pre (cie_sp eh be c) (cie_rec_of c d2 i2).
Proof.
  unfold RdE.cie_pre, RdE.aug_string, RdE.item_chars, cie_rec_of.
  cbn [CfiSpec.c_ver CfiSpec.c_z CfiSpec.c_items CfiSpec.c_asz CfiSpec.c_caf CfiSpec.c_daf CfiSpec.c_rar].
  rewrite <- (aug_chars_eq c d1), <- (aug_chars_eq c d2). reflexivity.
Qed.

Lemma cie_asz_sp eh be c d i : CfiSpec.cie_asz (cie_sp eh be c) (cie_rec_of c d i) = c_asize c.
Proof. unfold CfiSpec.cie_asz, cie_sp, cie_rec_of. cbn. destruct (negb eh && (c_version c =? 4)); reflexivity. Qed.

Lemma addr_const_of_write be a size bs : write_address be a size = Ok bs -> exists v, a = AConst v.
Proof. destruct a; [eauto|discriminate]. Qed.
Lemma addr_const_of_ptr be pos a e size bs : write_eh_pointer be pos a e size = Ok bs -> exists v, a = AConst v.
Proof. destruct a; [eauto|discriminate]. Qed.

Lemma cie_write_enc dbg be eh pos (c : CfiWr.cie) bs :
  cie_wf c = true -> pos + len bs < 18446744073709551616 ->
  cie_write dbg be eh pos c = Ok bs ->
  exists insns pad,
    write_insns dbg (c_daf c) (c_insns c) = Ok insns /\ all_nop pad = true /\ len pad < c_asize c /\
    bs = CfiSpec.enc_cie (cie_sp eh be c) (cie_rec_of c (cie_data_pos eh be pos c) (insns ++ pad)) /\
    CfiRd.nlen (RdE.cie_body (CfiRd.mkcfg eh be (c_asize c) (CfiRd.mksb (Some 0) None None))
                             (cie_rec_of c (cie_data_pos eh be pos c) (insns ++ pad)))
    < (if c_fmt64 c then 2 ^ 64 else 4294967280) /\
    CfiSpec.blen (RdE.items_data (c_asize c) be (aug_items_of c (cie_data_pos eh be pos c))) < 128 /\
    (c_version c = 1 \/ c_version c = 3 \/ c_version c = 4) /\
    (c_version c = 1 -> c_ra c < 256) /\
    match c_pers c with
    | Some (e, a) => exists v, a = AConst v /\
        (CfiWr.pe_application e = 0 \/ CfiWr.pe_application e = 16) /\
        CfiSpec.fmt_valid (CfiWr.pe_format e) = true /\
        CfiSpec.value_fits (CfiWr.pe_format e) (c_asize c)
          (ptr_raw (cie_data_pos eh be pos c + N.of_nat (length (lsda_items c)) + 1) e v) = true
    | None => True
    end.
Proof.
  intros Hwf Hfit H.
  pose proof (cie_write_ok_asz _ _ _ _ _ _ H) as Hasz.
  destruct (asz_cases_pow2 _ Hasz) as [Hu8 Hp2].
  pose proof Hwf as Hwf0. unfold cie_wf in Hwf. split_wf Hwf.
  rename W into Hinsns, W0 into Hfe, W1 into Hle, W2 into Hpe, W3 into Hra, W4 into Hdaf, W5 into Hcaf, W6 into Hasz8.
  unfold cie_write in H. cbv zeta in H.
  destruct (if eh then negb (c_version c =? 1)
            else negb ((c_version c =? 1) || (c_version c =? 3) || (c_version c =? 4))) eqn:Ever; [discriminate|].
  destruct (version_cases eh _ Ever) as [Hver Hveh].
  assert (Hv4 : (4 <=? c_version c) = (negb eh && (c_version c =? 4))).
  { destruct eh; [rewrite (Hveh eq_refl); reflexivity|cbn [negb andb]; lia]. }
  rewrite Hv4 in H.
  apply is_u8_iff in Hcaf. apply is_i8_iff in Hdaf. apply is_u16_iff in Hra.
  rewrite (write_uleb128_enc (c_caf c)) in H by (change (2 ^ 64) with 18446744073709551616; lia). cbn [bind] in H.
  rewrite (write_sleb128_enc (c_daf c)) in H by lia. cbn [bind] in H.
  assert (Hrab : (if c_version c =? 1
                  then if c_ra c <? 256 then Ok [n2b (c_ra c)] else Err WValueTooLarge
                  else write_uleb128 (c_ra c))
                 = (if c_version c =? 1 then (if c_ra c <? 256 then Ok [n2b (c_ra c)] else Err WValueTooLarge)
                    else Ok (enc_uleb (c_ra c)))).
  { destruct (c_version c =? 1); [reflexivity|]. apply write_uleb128_enc. change (2 ^ 64) with 18446744073709551616. lia. }
  rewrite Hrab in H. clear Hrab.
  apply bind_ok_inv in H. destruct H as (rab & Hrab & H).
  assert (Erab : rab = if c_version c =? 1 then [n2b (c_ra c)] else enc_uleb (c_ra c)).
  { destruct (c_version c =? 1); [destruct (c_ra c <? 256); [|discriminate]|]; injection Hrab as <-; reflexivity. }
  set (dpos := cie_data_pos eh be pos c).
  set (sp := cie_sp eh be c).
  (* the part before the augmentation data *)
  set (PRE := (if eh then enc_un 4 be 0 else if c_fmt64 c then enc_un 8 be (two64 - 1) else enc_un 4 be (two32 - 1)) ++
              [n2b (wrap8 (c_version c))] ++
              ((if has_augmentation c
                then [x7a] ++ (if is_some (c_lsda_enc c) then [x4c] else []) ++
                     (if is_some (c_pers c) then [x50] else []) ++
                     (if negb (c_fde_enc c =? 0) then [x52] else []) ++ (if c_sig c then [x53] else [])
                else []) ++ [x00]) ++
              (if negb eh && (c_version c =? 4) then [n2b (c_asize c); x00] else []) ++
              enc_uleb (c_caf c) ++ CfiSpec.enc_sleb (c_daf c) ++ rab) in H.
  assert (HPRE : forall d i, PRE = CfiSpec.cie_id sp (c_fmt64 c) ++ RdE.cie_pre sp (cie_rec_of c d i)).
  { intros d i. unfold PRE, CfiSpec.cie_id, RdE.cie_pre, RdE.aug_string, RdE.item_chars, sp, cie_sp, cie_rec_of.
    cbn [CfiSpec.s_eh CfiSpec.s_be CfiSpec.c_ver CfiSpec.c_z CfiSpec.c_items CfiSpec.c_asz CfiSpec.c_caf CfiSpec.c_daf CfiSpec.c_rar].
    rewrite <- (aug_chars_eq c d), Erab. unfold wrap8. rewrite n2b_mod.
    f_equal; try (destruct eh; [|destruct (c_fmt64 c)]; apply enc_un_un_bytes).
    change (n2b 122) with x7a. change (n2b 0) with x00.
    destruct (has_augmentation c) eqn:Ea.
    - repeat rewrite <- app_assoc. reflexivity.
    - destruct (no_aug_fields c Ea) as (E1 & E2 & E3 & E4). rewrite E1, E2, E3, E4. reflexivity. }
  apply bind_ok_inv in H. destruct H as (augdata & Haug & H).
  apply bind_ok_inv in H. destruct H as (insns & Hins & H).
  apply (close_entry_spec dbg be _ _ _ _ Hu8 Hp2) in H.
  destruct H as (il & pad & Hbs & Hil & Hlen & Hnop & Hpad & Hmod).
  exists insns, pad. split; [exact Hins|]. split; [exact Hnop|]. split; [exact Hpad|].
  set (cr := cie_rec_of c dpos (insns ++ pad)).
  assert (HlenPRE : len PRE + 1 = id_size_of eh (c_fmt64 c) + CfiRd.nlen (RdE.cie_pre sp (cie_rec_of c 0 [])) + 1).
  { rewrite (HPRE 0 []). rewrite len_app. f_equal. f_equal.
    unfold CfiSpec.cie_id, id_size_of, sp, cie_sp. cbn [CfiSpec.s_eh CfiSpec.s_be]. unfold len.
    destruct eh; [|destruct (c_fmt64 c)]; rewrite CfiRdBase.un_bytes_length; reflexivity. }
  (* the augmentation data *)
  assert (Haugp : augdata = RdE.cie_augpart sp cr /\
                  CfiSpec.blen (RdE.items_data (c_asize c) be (aug_items_of c dpos)) < 128 /\
                  match c_pers c with
                  | Some (e, a) => exists v, a = AConst v /\
                      (CfiWr.pe_application e = 0 \/ CfiWr.pe_application e = 16) /\
                      CfiSpec.fmt_valid (CfiWr.pe_format e) = true /\
                      CfiSpec.value_fits (CfiWr.pe_format e) (c_asize c)
                        (ptr_raw (dpos + N.of_nat (length (lsda_items c)) + 1) e v) = true
                  | None => True
                  end).
  { unfold RdE.cie_augpart, cr, sp. cbv zeta. rewrite cie_asz_sp. unfold RdE.items_data.
    cbn [cie_rec_of CfiSpec.c_z CfiSpec.c_items]. unfold cie_sp. cbn [CfiSpec.s_be].
    destruct (has_augmentation c) eqn:Ea.
    - apply bind_ok_inv in Haug. destruct Haug as (pp & Hpp & Haug).
      apply with_aug_len_inv in Haug. destruct Haug as [Hdl ->].
      assert (Hp : exists pb, pp = match c_pers c with Some (e, _) => n2b e :: pb | None => [] end /\
                   match c_pers c with
                   | Some (e, a) => write_eh_pointer be
                        (dpos + len (match c_lsda_enc c with Some e => [n2b e] | None => [] end) + 1) a e (c_asize c) = Ok pb
                   | None => pb = []
                   end /\ (length pb <= 10)%nat).
      { destruct (c_pers c) as [[e a]|].
        - apply bind_ok_inv in Hpp. destruct Hpp as (pb & Hpb & Hpp). injection Hpp as <-.
          exists pb. split; [reflexivity|]. split; [|eapply write_eh_pointer_len; exact Hpb].
          rewrite <- Hpb. f_equal. unfold dpos, cie_data_pos. fold sp. lia.
        - injection Hpp as <-. exists []. split; [reflexivity|]. split; [reflexivity|cbn; lia]. }
      destruct Hp as (pb & -> & Hpb & Hpbl).
      assert (Hpa : match c_pers c with Some (_, AConst a) => a < 18446744073709551616 | _ => True end).
      { destruct (c_pers c) as [[e [a|s d]]|]; try exact I. apply andb_true_iff in Hpe. destruct Hpe as [_ Ha].
        cbn [addr_wf] in Ha. lia. }
      rewrite (aug_data_eq be c dpos pb Hpb Hpa).
      assert (Hsmall : CfiSpec.blen (concat (map (CfiSpec.item_data (c_asize c) be) (aug_items_of c dpos))) < 128).
      { rewrite <- (aug_data_eq be c dpos pb Hpb Hpa). unfold CfiSpec.blen. rewrite !app_length.
        destruct (c_lsda_enc c), (c_pers c) as [[? ?]|], (negb (c_fde_enc c =? 0)); cbn [length]; lia. }
      split; [rewrite enc_uleb_small by exact Hsmall; unfold len, CfiSpec.blen; reflexivity|].
      split; [exact Hsmall|].
      assert (Hl : len (match c_lsda_enc c with Some e => [n2b e] | None => [] end) = N.of_nat (length (lsda_items c)))
        by (unfold lsda_items; destruct (c_lsda_enc c); reflexivity).
      rewrite Hl in Hpb.
      destruct (c_pers c) as [[e a]|]; [|exact I].
      destruct (addr_const_of_ptr _ _ _ _ _ _ Hpb) as (v & ->). exists v. split; [reflexivity|].
      destruct (write_eh_pointer_enc be _ v e _ pb ltac:(cbn [addr_wf] in Hpa; exact Hpa) Hpb) as (_ & Happ & Hfv & Hfit1 & _).
      auto.
    - injection Haug as <-. destruct (no_aug_fields c Ea) as (E1 & E2 & E3 & E4).
      split; [reflexivity|]. split.
      + unfold aug_items_of, pers_items, lsda_items. rewrite E1, E2, E3, E4. cbn. lia.
      + rewrite E2. exact I. }
  destruct Haugp as (Haugp & Hsmall & Hpers).
  assert (Hbody : (PRE ++ augdata ++ insns) ++ pad = CfiSpec.cie_id sp (c_fmt64 c) ++ CfiSpec.cie_tail sp cr).
  { rewrite RdE.cie_tail_split, (HPRE dpos (insns ++ pad)), Haugp. fold cr.
    unfold cr at 3. cbn [cie_rec_of CfiSpec.c_instr]. repeat rewrite <- app_assoc. reflexivity. }
  assert (HL : len ((PRE ++ augdata ++ insns) ++ pad) < 18446744073709551616).
  { rewrite Hbs in Hfit. rewrite len_app in Hfit. lia. }
  destruct (initial_length_eq _ _ _ _ HL Hil) as [Eil Hbound].
  split.
  - rewrite Hbs, Eil, Hbody. unfold CfiSpec.enc_cie. cbv zeta.
    unfold cr at 3 4. cbn [cie_rec_of CfiSpec.c_fmt64]. unfold sp at 1 3, cie_sp. cbn [CfiSpec.s_be].
    unfold len, CfiSpec.blen. reflexivity.
  - split.
    + unfold RdE.cie_body. change (RdE.sp_of _) with sp. fold cr.
      change (CfiSpec.c_fmt64 cr) with (c_fmt64 c). rewrite <- Hbody. exact Hbound.
    + split; [exact Hsmall|]. split; [exact Hver|]. split; [|exact Hpers].
      intros Hv1. rewrite Hv1 in Hrab. cbn [N.eqb Pos.eqb] in Hrab. destruct (c_ra c <? 256) eqn:E; [lia|discriminate].
Qed.

(* ---- the written FDE is CfiSpec.enc_fde of its translation ---- *)

Definition addr_val (a : addr) : N := match a with AConst v => v | ASym _ _ => 0 end.

(* offset of the address field of an FDE written at pos *)
Definition fde_addr_pos (eh : bool) (pos : N) (c : CfiWr.cie) : N :=
  pos + ilen_size (c_fmt64 c) + id_size_of eh (c_fmt64 c).

Definition fde_init_raw (eh : bool) (pos : N) (c : CfiWr.cie) (f : CfiWr.fde) : N :=
  if negb (c_fde_enc c =? 0) then ptr_raw (fde_addr_pos eh pos c) (c_fde_enc c) (addr_val (f_addr f))
  else addr_val (f_addr f).

Definition fde_afmt (c : CfiWr.cie) : N := if negb (c_fde_enc c =? 0) then CfiWr.pe_format (c_fde_enc c) else 0.

(* offset of the LSDA field *)
Definition fde_lsda_pos (be eh : bool) (pos : N) (c : CfiWr.cie) (f : CfiWr.fde) : N :=
  fde_addr_pos eh pos c
  + CfiRd.nlen (CfiSpec.enc_value (fde_afmt c) (c_asize c) be (fde_init_raw eh pos c f))
  + CfiRd.nlen (CfiSpec.enc_value (fde_afmt c) (c_asize c) be (f_len f)) + 1.

Definition fde_lsda_raw (be eh : bool) (pos : N) (c : CfiWr.cie) (f : CfiWr.fde) : N :=
  match f_lsda f, c_lsda_enc c with
  | Some a, Some e => ptr_raw (fde_lsda_pos be eh pos c f) e (addr_val a)
  | _, _ => 0
  end.

Definition fde_rec_of (be eh : bool) (pos : N) (c : CfiWr.cie) (f : CfiWr.fde) (idx : nat) (instr : list byte)
  : CfiSpec.fde_rec :=
  CfiSpec.mkfde_rec (c_fmt64 c) idx (fde_init_raw eh pos c f) (f_len f) (fde_lsda_raw be eh pos c f) [] instr.

Lemma find_R_items c d : CfiSpec.find_R (aug_items_of c d) = if negb (c_fde_enc c =? 0) then Some (c_fde_enc c) else None.
Proof.
  unfold aug_items_of, pers_items, lsda_items.
  destruct (c_lsda_enc c); destruct (c_pers c) as [[e [a|s x]]|]; destruct (negb (c_fde_enc c =? 0)); destruct (c_sig c);
    reflexivity.
Qed.
Lemma find_L_items c d : CfiSpec.find_L (aug_items_of c d) = c_lsda_enc c.
Proof.
  unfold aug_items_of, pers_items, lsda_items.
  destruct (c_lsda_enc c); destruct (c_pers c) as [[e [a|s x]]|]; destruct (negb (c_fde_enc c =? 0)); destruct (c_sig c);
    reflexivity.
Qed.
Lemma has_aug_items c d i : CfiSpec.has_aug (cie_rec_of c d i) = has_augmentation c.
Proof.
  unfold CfiSpec.has_aug, cie_rec_of. cbn [CfiSpec.c_z CfiSpec.c_items].
  destruct (has_augmentation c) eqn:Ea; [reflexivity|].
  destruct (no_aug_fields c Ea) as (E1 & E2 & E3 & E4).
  unfold aug_items_of, pers_items, lsda_items. rewrite E1, E2, E3, E4. reflexivity.
Qed.

Lemma fde_write_enc dbg be eh pos coff (c : CfiWr.cie) (f : CfiWr.fde) bs :
  cie_wf c = true -> fde_wf f = true -> pos + len bs < 18446744073709551616 -> coff <= pos ->
  fde_write dbg be eh pos coff c f = Ok bs ->
  exists insns pad,
    write_fde_insns dbg be (c_caf c) (c_daf c) 0 (f_insns f) = Ok insns /\ all_nop pad = true /\ len pad < c_asize c /\
    (forall d ci idx,
       bs = CfiSpec.enc_fde (cie_sp eh be c) (cie_rec_of c d ci) coff pos (fde_rec_of be eh pos c f idx (insns ++ pad))) /\
    lsda_ok c f = true /\
    (* what the reader needs to know about the encodings and values *)
    (negb (c_fde_enc c =? 0) = true ->
       (CfiWr.pe_application (c_fde_enc c) = 0 \/ CfiWr.pe_application (c_fde_enc c) = 16) /\
       CfiSpec.fmt_valid (CfiWr.pe_format (c_fde_enc c)) = true /\
       CfiSpec.value_fits (CfiWr.pe_format (c_fde_enc c)) (c_asize c) (fde_init_raw eh pos c f) = true /\
       CfiSpec.value_fits (CfiWr.pe_format (c_fde_enc c)) (c_asize c) (f_len f) = true) /\
    (negb (c_fde_enc c =? 0) = false ->
       fde_init_raw eh pos c f < 2 ^ (8 * c_asize c) /\ f_len f < 2 ^ (8 * c_asize c)) /\
    (forall e, c_lsda_enc c = Some e ->
       (CfiWr.pe_application e = 0 \/ CfiWr.pe_application e = 16) /\
       CfiSpec.fmt_valid (CfiWr.pe_format e) = true /\
       CfiSpec.value_fits (CfiWr.pe_format e) (c_asize c) (fde_lsda_raw be eh pos c f) = true) /\
    (exists v, f_addr f = AConst v) /\
    (forall la, f_lsda f = Some la -> exists v, la = AConst v) /\
    (if eh then pos + ilen_size (c_fmt64 c) - coff < 4294967296
     else coff < (if c_fmt64 c then 18446744073709551616 else 4294967296)) /\
    (forall d ci idx,
       CfiRd.nlen (RdE.fde_body (CfiRd.mkcfg eh be (c_asize c) (CfiRd.mksb (Some 0) None None))
                                (cie_rec_of c d ci) coff pos (fde_rec_of be eh pos c f idx (insns ++ pad)))
       < (if c_fmt64 c then 2 ^ 64 else 4294967280)).
Proof.
  intros Hwf Hfwf Hfit Hcoff H.
  pose proof (fde_write_ok_asz _ _ _ _ _ _ _ _ H) as Hasz.
  destruct (asz_cases_pow2 _ Hasz) as [Hu8 Hp2].
  pose proof Hwf as Hwf0. unfold cie_wf in Hwf. split_wf Hwf.
  rename W into Hinsns, W0 into Hfe, W1 into Hle, W2 into Hpe, W3 into Hra, W4 into Hdaf, W5 into Hcaf, W6 into Hasz8.
  destruct (fde_wf_parts2 f Hfwf) as (Hfa & Hfl & Hflsda).
  apply is_u32_iff in Hfl.
  unfold fde_write in H. cbv zeta in H.
  set (base := pos + ilen_size (c_fmt64 c)) in *.
  apply bind_ok_inv in H. destruct H as (ptr & Hptr & H).
  apply bind_ok_inv in H. destruct H as (addrs & Haddrs & H).
  destruct (Bool.eqb (is_some (f_lsda f)) (is_some (c_lsda_enc c))) eqn:Hls; cbn [negb] in H; [|discriminate].
  apply bind_ok_inv in H. destruct H as (augdata & Haug & H).
  apply bind_ok_inv in H. destruct H as (insns & Hins & H).
  apply (close_entry_spec dbg be _ _ _ _ Hu8 Hp2) in H.
  destruct H as (il & pad & Hbs & Hil & Hlen & Hnop & Hpad & Hmod).
  exists insns, pad. split; [exact Hins|]. split; [exact Hnop|]. split; [exact Hpad|].
  assert (HL : len ((ptr ++ addrs ++ augdata ++ insns) ++ pad) < 18446744073709551616).
  { rewrite Hbs in Hfit. rewrite len_app in Hfit. lia. }
  destruct (initial_length_eq _ _ _ _ HL Hil) as [Eil Hbound].
  assert (Hbase : base < 18446744073709551616 /\ coff < 18446744073709551616).
  { rewrite Hbs in Hfit. rewrite len_app, Hlen in Hfit. unfold base. lia. }
  destruct Hbase as [Hbase Hcoff64].
  (* CIE pointer *)
  assert (Eptr : ptr = CfiSpec.cie_pointer (cie_sp eh be c) (c_fmt64 c) base coff /\
                 len ptr = id_size_of eh (c_fmt64 c) /\
                 (if eh then base - coff < 4294967296
                  else coff < (if c_fmt64 c then 18446744073709551616 else 4294967296))).
  { unfold CfiSpec.cie_pointer, cie_sp, id_size_of. cbn [CfiSpec.s_eh CfiSpec.s_be]. destruct eh.
    - apply bind_ok_inv in Hptr. destruct Hptr as (d & Hd & Hptr).
      rewrite chk_sub_le in Hd by (unfold base; lia). injection Hd as <-.
      destruct (write_udata_un_bytes be (base - coff) 4 ptr ltac:(lia) Hptr) as (_ & -> & Hlt).
      split; [reflexivity|]. split; [unfold len; rewrite CfiRdBase.un_bytes_length; reflexivity|].
      change (2 ^ (8 * 4)) with 4294967296 in Hlt. exact Hlt.
    - destruct (write_udata_un_bytes be coff (word_size (c_fmt64 c)) ptr ltac:(lia) Hptr) as (_ & -> & Hlt).
      destruct (c_fmt64 c); cbn [word_size] in *;
        (split; [reflexivity|]; split; [unfold len; rewrite CfiRdBase.un_bytes_length; reflexivity|]).
      + change (2 ^ (8 * 8)) with 18446744073709551616 in Hlt. exact Hlt.
      + change (2 ^ (8 * 4)) with 4294967296 in Hlt. exact Hlt. }
  destruct Eptr as (Eptr & Lptr & Hco).
  assert (Hapos : base + len ptr = fde_addr_pos eh pos c) by (unfold fde_addr_pos, base; lia).
  rewrite Hapos in *.
  (* addresses *)
  assert (Eaddr : addrs = CfiSpec.enc_value (fde_afmt c) (c_asize c) be (fde_init_raw eh pos c f)
                          ++ CfiSpec.enc_value (fde_afmt c) (c_asize c) be (f_len f) /\
          (negb (c_fde_enc c =? 0) = true ->
             (CfiWr.pe_application (c_fde_enc c) = 0 \/ CfiWr.pe_application (c_fde_enc c) = 16) /\
             CfiSpec.fmt_valid (CfiWr.pe_format (c_fde_enc c)) = true /\
             CfiSpec.value_fits (CfiWr.pe_format (c_fde_enc c)) (c_asize c) (fde_init_raw eh pos c f) = true /\
             CfiSpec.value_fits (CfiWr.pe_format (c_fde_enc c)) (c_asize c) (f_len f) = true) /\
          (negb (c_fde_enc c =? 0) = false ->
             fde_init_raw eh pos c f < 2 ^ (8 * c_asize c) /\ f_len f < 2 ^ (8 * c_asize c)) /\
          (exists v, f_addr f = AConst v)).
  { unfold fde_afmt, fde_init_raw. destruct (negb (c_fde_enc c =? 0)) eqn:Ef.
    - apply bind_ok_inv in Haddrs. destruct Haddrs as (ab & Hab & Haddrs).
      apply bind_ok_inv in Haddrs. destruct Haddrs as (lb & Hlb & Haddrs). injection Haddrs as <-.
      destruct (addr_const_of_ptr _ _ _ _ _ _ Hab) as (v & Ev). rewrite Ev in *. cbn [addr_val addr_wf] in *.
      destruct (write_eh_pointer_enc be _ v _ _ ab ltac:(lia) Hab) as (-> & Happ & Hfv & Hfit1 & _).
      destruct (write_eh_pointer_data_enc be (f_len f) _ _ lb ltac:(lia) Hlb) as (-> & _ & Hfit2 & _).
      split; [reflexivity|]. split; [intros _; auto|]. split; [discriminate|eauto].
    - apply bind_ok_inv in Haddrs. destruct Haddrs as (ab & Hab & Haddrs).
      apply bind_ok_inv in Haddrs. destruct Haddrs as (lb & Hlb & Haddrs). injection Haddrs as <-.
      destruct (addr_const_of_write _ _ _ _ Hab) as (v & Ev). rewrite Ev in *. cbn [addr_val addr_wf write_address] in *.
      destruct (write_udata_un_bytes be v _ ab ltac:(lia) Hab) as (_ & -> & Hlt1).
      destruct (write_udata_un_bytes be (f_len f) _ lb ltac:(lia) Hlb) as (_ & -> & Hlt2).
      split; [reflexivity|]. split; [discriminate|]. split; [auto|eauto]. }
  destruct Eaddr as (Eaddr & Hfenc & Hnofenc & Hconst).
  assert (Hlpos : fde_addr_pos eh pos c + len addrs + 1 = fde_lsda_pos be eh pos c f).
  { unfold fde_lsda_pos. rewrite Eaddr, len_app. unfold len, CfiRd.nlen. lia. }
  rewrite Hlpos in Haug.
  (* augmentation data *)
  apply (proj1 (bool_eqb_iff _ _)) in Hls.
  assert (Eaug : augdata = (if has_augmentation c
                            then enc_uleb (CfiSpec.blen (match c_lsda_enc c with
                                                         | Some e => CfiSpec.enc_value (CfiSpec.fmt_of e) (c_asize c) be (fde_lsda_raw be eh pos c f)
                                                         | None => [] end ++ []))
                                 ++ (match c_lsda_enc c with
                                     | Some e => CfiSpec.enc_value (CfiSpec.fmt_of e) (c_asize c) be (fde_lsda_raw be eh pos c f)
                                     | None => [] end ++ [])
                            else []) /\
          (forall e, c_lsda_enc c = Some e ->
             (CfiWr.pe_application e = 0 \/ CfiWr.pe_application e = 16) /\
             CfiSpec.fmt_valid (CfiWr.pe_format e) = true /\
             CfiSpec.value_fits (CfiWr.pe_format e) (c_asize c) (fde_lsda_raw be eh pos c f) = true) /\
          (forall la, f_lsda f = Some la -> exists v, la = AConst v)).
  { unfold fde_lsda_raw. destruct (has_augmentation c) eqn:Ea.
    - apply bind_ok_inv in Haug. destruct Haug as (d & Hd & Haug).
      apply with_aug_len_inv in Haug. destruct Haug as [Hdl ->].
      destruct (f_lsda f) as [la|] eqn:Efl; destruct (c_lsda_enc c) as [le|] eqn:Ecl; cbn [is_some] in Hls; try discriminate.
      + destruct (addr_const_of_ptr _ _ _ _ _ _ Hd) as (v & ->). cbn [addr_val addr_wf] in *.
        pose proof (write_eh_pointer_len _ _ _ _ _ _ Hd) as Hd10.
        destruct (write_eh_pointer_enc be _ v le _ d ltac:(lia) Hd) as (-> & Happ & Hfv & Hfit1 & _).
        rewrite app_nil_r, fmt_of_pe. rewrite enc_uleb_small by (unfold CfiSpec.blen; lia).
        split; [reflexivity|]. split; [intros e He; injection He as <-; auto|].
        intros la Hla. injection Hla as <-. eauto.
      + injection Hd as <-. cbn [app]. split; [reflexivity|]. split; [intros e He; discriminate|intros la Hla; discriminate].
    - injection Haug as <-. destruct (no_aug_fields c Ea) as (E1 & _). rewrite E1 in *.
      split; [reflexivity|]. split; [intros e He; discriminate|].
      intros la Hla. rewrite Hla in Hls. discriminate. }
  destruct Eaug as (Eaug & Hlenc & Hlconst).
  assert (Hbody : forall d ci idx, (ptr ++ addrs ++ augdata ++ insns) ++ pad =
                    CfiSpec.cie_pointer (cie_sp eh be c) (c_fmt64 c) (pos + CfiSpec.len_field_size (c_fmt64 c)) coff ++
                    CfiSpec.fde_tail (cie_sp eh be c) (cie_rec_of c d ci) (fde_rec_of be eh pos c f idx (insns ++ pad))).
  { intros d ci idx. unfold CfiSpec.fde_tail. cbv zeta. rewrite cie_asz_sp, has_aug_items. cbn [cie_rec_of CfiSpec.c_items].
    rewrite find_R_items, find_L_items.
    unfold fde_rec_of. cbn [CfiSpec.f_init CfiSpec.f_range CfiSpec.f_lsda CfiSpec.f_pad CfiSpec.f_instr].
    unfold cie_sp at 2 3. cbn [CfiSpec.s_be].
    change (CfiSpec.len_field_size (c_fmt64 c)) with (ilen_size (c_fmt64 c)). fold base.
    rewrite Eptr, Eaddr, Eaug. unfold fde_afmt.
    destruct (negb (c_fde_enc c =? 0)); rewrite ?fmt_of_pe; repeat rewrite <- app_assoc; reflexivity. }
  split.
  { intros d ci idx. rewrite Hbs, Eil. unfold CfiSpec.enc_fde. cbv zeta.
    unfold fde_rec_of at 1 2. cbn [CfiSpec.f_fmt64]. unfold cie_sp at 1 3. cbn [CfiSpec.s_be].
    rewrite (Hbody d ci idx). unfold len, CfiSpec.blen. reflexivity. }
  split; [unfold lsda_ok; apply (proj2 (bool_eqb_iff _ _)); exact Hls|].
  split; [exact Hfenc|]. split; [exact Hnofenc|]. split; [exact Hlenc|]. split; [exact Hconst|]. split; [exact Hlconst|].
  split; [exact Hco|].
  intros d ci idx. unfold RdE.fde_body. change (RdE.sp_of _) with (cie_sp eh be c).
  cbn [fde_rec_of CfiSpec.f_fmt64]. rewrite <- (Hbody d ci idx). exact Hbound.
Qed.

(* ------------------------------------------------------------------ *)
(* E. what CfiRd's parsers return on the written entries                *)
(* ------------------------------------------------------------------ *)

Module RdP := GV.Proofs.CfiRdPtr.

(* the section as the harness reads it: loaded at address 0, no text/data bases *)
Definition rd_cfg (eh be : bool) (asz : N) : CfiRd.scfg :=
  CfiRd.mkcfg eh be asz (CfiRd.mksb (Some 0) None None).

Lemma pe_bits e : e < 256 ->
  CfiSpec.app_of e = CfiWr.pe_application e /\ CfiSpec.fmt_of e = CfiWr.pe_format e /\
  (negb (CfiSpec.ind_of e =? 0)) = negb (N.land e 128 =? 0).
Proof.
  intros He.
  assert (E : ((CfiSpec.app_of e =? CfiWr.pe_application e) && (CfiSpec.fmt_of e =? CfiWr.pe_format e)
               && Bool.eqb (negb (CfiSpec.ind_of e =? 0)) (negb (N.land e 128 =? 0))) = true).
  { apply (forall_lt (fun e => (CfiSpec.app_of e =? CfiWr.pe_application e) && (CfiSpec.fmt_of e =? CfiWr.pe_format e)
               && Bool.eqb (negb (CfiSpec.ind_of e =? 0)) (negb (N.land e 128 =? 0))) 256); [vm_compute; reflexivity|exact He]. }
  apply andb_true_iff in E. destruct E as [E E3]. apply andb_true_iff in E. destruct E as [E1 E2].
  apply (proj1 (bool_eqb_iff _ _)) in E3. split; [lia|]. split; [lia|exact E3].
Qed.

(* an encoding the writer accepted for a pointer is a valid encoding for the reader, and not `omit` *)
Lemma enc_accepted e :
  e < 256 -> (CfiWr.pe_application e = 0 \/ CfiWr.pe_application e = 16) ->
  CfiSpec.fmt_valid (CfiWr.pe_format e) = true ->
  CfiSpec.valid_spec e = true /\ e <> 255.
Proof.
  intros He Happ Hfmt. destruct (pe_bits e He) as (Ha & Hf & _).
  assert (Hne : e <> 255).
  { intros ->. vm_compute in Happ. destruct Happ; discriminate. }
  split; [|exact Hne]. unfold CfiSpec.valid_spec. rewrite Hf, Hfmt, Ha.
  destruct Happ as [-> | ->]; cbn; rewrite orb_true_r; reflexivity.
Qed.

(* the pointer the LSB definition assigns to the value the writer encoded: the address, reduced to the
   address size (section loaded at 0) *)
Lemma ptr_spec_written e asz pos a func :
  e < 256 -> (asz = 1 \/ asz = 2 \/ asz = 4 \/ asz = 8) ->
  (CfiWr.pe_application e = 0 \/ CfiWr.pe_application e = 16) ->
  a < 18446744073709551616 -> pos < 18446744073709551616 ->
  CfiSpec.ptr_spec e asz (CfiSpec.mkpb (Some 0) None None func) pos (ptr_raw pos e a)
  = Some (negb (N.land e 128 =? 0), a mod 2 ^ (8 * asz)).
Proof.
  intros He Hasz Happ Ha Hp. destruct (pe_bits e He) as (Hap & _ & Hind).
  unfold CfiSpec.ptr_spec, CfiSpec.base_spec, ptr_raw. rewrite Hap, Hind. cbn [CfiSpec.b_section].
  pose proof (pow8_cases asz Hasz) as Hm.
  assert (Hmz : forall x y, Z.of_N x = Z.of_N y -> x = y) by (intros; lia).
  destruct Happ as [E|E]; rewrite E; cbn [N.eqb Pos.eqb].
  - rewrite N.add_0_l. reflexivity.
  - f_equal. f_equal. rewrite N.add_0_l.
    apply N2Z.inj. rewrite !N2Z.inj_mod, N2Z.inj_add, N2Z.inj_mod.
    unfold wrap64, two64. rewrite (N.mod_small pos) by exact Hp.
    assert (HW : exists q2, (Z.of_N ((18446744073709551616 + a - pos) mod 18446744073709551616)
                             = Z.of_N a - Z.of_N pos + 18446744073709551616 * q2)%Z).
    { destruct (pos <=? a) eqn:E'.
      - exists 0%Z. replace (18446744073709551616 + a - pos) with ((a - pos) + 1 * 18446744073709551616) by lia.
        rewrite N.mod_add by discriminate. rewrite N.mod_small by lia. lia.
      - exists 1%Z. rewrite N.mod_small by lia. lia. }
    destruct HW as [q2 HW]. rewrite HW.
    destruct Hm as [->|[->|[->| ->]]]; lia.
Qed.

(* the augmentation the reader must report for a written CIE *)
Definition rd_pers_of (c : CfiWr.cie) : option (N * CfiRd.pointer) :=
  match c_pers c with
  | Some (e, a) => Some (e, RdP.mkptr (negb (N.land e 128 =? 0)) (addr_val a mod 2 ^ (8 * c_asize c)))
  | None => None
  end.
Definition rd_augm_of (c : CfiWr.cie) : CfiRd.augm :=
  CfiRd.mkaug (c_lsda_enc c) (rd_pers_of c) (if negb (c_fde_enc c =? 0) then Some (c_fde_enc c) else None) (c_sig c).
Definition rd_aug_of (c : CfiWr.cie) : option CfiRd.augm :=
  if has_augmentation c then Some (rd_augm_of c) else None.

Definition enc_usable (e : N) : Prop :=
  e < 256 /\ (CfiWr.pe_application e = 0 \/ CfiWr.pe_application e = 16) /\ CfiSpec.fmt_valid (CfiWr.pe_format e) = true.

Lemma enc_usable_valid e : enc_usable e -> ((e <? 256) && CfiSpec.valid_spec e) = true /\ e <> 255.
Proof.
  intros (He & Ha & Hf). destruct (enc_accepted e He Ha Hf) as [Hv Hn]. rewrite Hv. split; [|exact Hn].
  apply andb_true_iff. split; [lia|reflexivity].
Qed.

Lemma aug_fold_written be (c : CfiWr.cie) (dpos : N) :
  (c_asize c = 1 \/ c_asize c = 2 \/ c_asize c = 4 \/ c_asize c = 8) ->
  dpos + 2 < 18446744073709551616 ->
  (forall e, c_lsda_enc c = Some e -> enc_usable e) ->
  (negb (c_fde_enc c =? 0) = true -> enc_usable (c_fde_enc c)) ->
  match c_pers c with
  | Some (e, a) => exists v, a = AConst v /\ v < 18446744073709551616 /\ enc_usable e /\
      CfiSpec.value_fits (CfiWr.pe_format e) (c_asize c)
        (ptr_raw (dpos + N.of_nat (length (lsda_items c)) + 1) e v) = true
  | None => True
  end ->
  RdE.aug_fold (c_asize c) be (CfiRd.mksb (Some 0) None None) (aug_items_of c dpos) dpos CfiRd.aug_default
  = Some (rd_augm_of c).
Proof.
  intros Hasz Hpos HL HR HP. unfold aug_items_of, rd_augm_of, rd_pers_of.
  (* tail: R and S *)
  assert (T2 : forall pos a,
    RdE.aug_fold (c_asize c) be (CfiRd.mksb (Some 0) None None)
      ((if negb (c_fde_enc c =? 0) then [CfiSpec.AR (c_fde_enc c)] else []) ++ (if c_sig c then [CfiSpec.AS] else []))
      pos a
    = Some (CfiRd.mkaug (CfiRd.a_lsda a) (CfiRd.a_pers a)
              (if negb (c_fde_enc c =? 0) then Some (c_fde_enc c) else CfiRd.a_fde_enc a)
              (if c_sig c then true else CfiRd.a_sig a))).
  { intros pos a. destruct (negb (c_fde_enc c =? 0)) eqn:Ef.
    - destruct (enc_usable_valid _ (HR eq_refl)) as [Hv _]. cbn [app RdE.aug_fold]. rewrite Hv.
      destruct (c_sig c); cbn [app RdE.aug_fold]; destruct a; reflexivity.
    - destruct (c_sig c); cbn [app RdE.aug_fold]; destruct a; reflexivity. }
  (* middle: P *)
  assert (T1 : forall l0,
    RdE.aug_fold (c_asize c) be (CfiRd.mksb (Some 0) None None)
      (pers_items c dpos ++ (if negb (c_fde_enc c =? 0) then [CfiSpec.AR (c_fde_enc c)] else [])
                         ++ (if c_sig c then [CfiSpec.AS] else []))
      (dpos + N.of_nat (length (lsda_items c))) (CfiRd.mkaug l0 None None false)
    = Some (CfiRd.mkaug l0
              (match c_pers c with
               | Some (e, a) => Some (e, RdP.mkptr (negb (N.land e 128 =? 0)) (addr_val a mod 2 ^ (8 * c_asize c)))
               | None => None end)
              (if negb (c_fde_enc c =? 0) then Some (c_fde_enc c) else None) (c_sig c))).
  { intros l0. unfold pers_items. destruct (c_pers c) as [[e a]|].
    - destruct HP as (v & -> & Hv & He & Hfit).
      destruct (enc_usable_valid e He) as [Hval Hne]. destruct He as (He & Happ & Hfmt).
      cbn [app RdE.aug_fold]. rewrite Hval. replace (e =? 255) with false by lia. cbn [negb andb].
      rewrite fmt_of_pe, Hfit. cbn [CfiRd.sb_section CfiRd.sb_text CfiRd.sb_data].
      rewrite (ptr_spec_written e (c_asize c) _ v None He Hasz Happ Hv) by (unfold lsda_items; destruct (c_lsda_enc c); cbn [length]; lia).
      rewrite T2. cbn [RdE.set_pers CfiRd.a_lsda CfiRd.a_pers CfiRd.a_fde_enc CfiRd.a_sig addr_val].
      destruct (negb (c_fde_enc c =? 0)); destruct (c_sig c); reflexivity.
    - cbn [app]. rewrite T2. cbn [CfiRd.a_lsda CfiRd.a_pers CfiRd.a_fde_enc CfiRd.a_sig].
      destruct (negb (c_fde_enc c =? 0)); destruct (c_sig c); reflexivity. }
  unfold lsda_items in *. destruct (c_lsda_enc c) as [e|] eqn:El.
  - destruct (enc_usable_valid e (HL e eq_refl)) as [Hv _].
    cbn [app RdE.aug_fold]. rewrite Hv. cbn [RdE.set_lsda CfiRd.aug_default CfiRd.a_pers CfiRd.a_fde_enc CfiRd.a_sig].
    specialize (T1 (Some e)). cbn [length] in T1. change (N.of_nat 1) with 1 in T1. exact T1.
  - cbn [app]. specialize (T1 None). cbn [length] in T1. change (N.of_nat 0) with 0 in T1. rewrite N.add_0_r in T1.
    exact T1.
Qed.

(* ---- one CIE tile under CfiRd.parse_cfi_entry ---- *)

Lemma asz_ok_rd a : asz_ok a -> CfiRdBase.asz_ok a.
Proof. intros H. exact H. Qed.

Lemma idsz_of_cfg eh be asz fmt64 : N.of_nat (RdE.idsz_of (rd_cfg eh be asz) fmt64) = id_size_of eh fmt64.
Proof. unfold RdE.idsz_of, CfiRd.cie_id_is_u64, id_size_of, rd_cfg. cbn [CfiRd.sc_eh]. destruct eh, fmt64; reflexivity. Qed.

Lemma tail_off_cfg eh be asz fmt64 pos :
  RdE.tail_off (rd_cfg eh be asz) fmt64 pos = pos + ilen_size fmt64 + id_size_of eh fmt64.
Proof. unfold RdE.tail_off. rewrite idsz_of_cfg. destruct fmt64; reflexivity. Qed.

Lemma cie_tile_read dbg be eh pos (c : CfiWr.cie) bs :
  cie_wf c = true -> pos + len bs + 2 < 18446744073709551616 ->
  cie_write dbg be eh pos c = Ok bs ->
  (forall e, c_lsda_enc c = Some e -> enc_usable e) ->
  (negb (c_fde_enc c =? 0) = true -> enc_usable (c_fde_enc c)) ->
  let cfg := rd_cfg eh be (c_asize c) in
  exists insns pad,
    let cr := cie_rec_of c (cie_data_pos eh be pos c) (insns ++ pad) in
    write_insns dbg (c_daf c) (c_insns c) = Ok insns /\ all_nop pad = true /\ len pad < c_asize c /\
    bs = CfiSpec.enc_cie (RdE.sp_of cfg) cr /\
    RdE.wf_cie cfg cr /\ RdE.body_fits (c_fmt64 c) (RdE.cie_body cfg cr) /\
    RdE.exp_aug cfg cr (RdE.cie_dpos cfg cr (RdE.tail_off cfg (c_fmt64 c) pos)) = Some (rd_aug_of c) /\
    forall dbg' rest,
      CfiRd.parse_cfi_entry dbg' cfg (CfiRd.mkrd pos (bs ++ rest)) =
      Ok (Some (CfiRd.ICie (RdE.exp_cie cfg cr pos (CfiSpec.blen (RdE.cie_body cfg cr))
                                       (RdE.tail_off cfg (c_fmt64 c) pos) (rd_aug_of c))),
          CfiRd.mkrd (pos + len bs) rest).
Proof.
  intros Hwf Hfit2 H HL HR cfg.
  assert (Hfit : pos + len bs < 18446744073709551616) by lia.
  pose proof (cie_write_ok_asz _ _ _ _ _ _ H) as Hasz.
  destruct (cie_write_enc dbg be eh pos c bs Hwf Hfit H)
    as (insns & pad & Hins & Hnop & Hpad & Hbs & Hbf & Hsmall & Hver & Hra1 & Hpers).
  exists insns, pad. cbv zeta.
  set (cr := cie_rec_of c (cie_data_pos eh be pos c) (insns ++ pad)) in *.
  split; [exact Hins|]. split; [exact Hnop|]. split; [exact Hpad|].
  assert (Hsp : RdE.sp_of cfg = cie_sp eh be c) by reflexivity.
  split; [rewrite Hsp; exact Hbs|].
  pose proof Hwf as Hwf0. unfold cie_wf in Hwf. split_wf Hwf.
  rename W into Hinsns, W0 into Hfe, W1 into Hle, W2 into Hpe, W3 into Hra, W4 into Hdaf, W5 into Hcaf, W6 into Hasz8.
  apply is_u8_iff in Hcaf. apply is_i8_iff in Hdaf. apply is_u16_iff in Hra.
  assert (Hwfc : RdE.wf_cie cfg cr).
  { constructor.
    - exact Hver.
    - exact Hasz.
    - unfold cr. rewrite Hsp, cie_asz_sp. exact Hasz.
    - change (CfiSpec.c_caf cr) with (c_caf c). change (2 ^ 64) with 18446744073709551616. lia.
    - change (CfiSpec.c_daf cr) with (c_daf c). change (2 ^ 63)%Z with 9223372036854775808%Z. lia.
    - change (CfiSpec.c_rar cr) with (c_ra c). change (CfiSpec.c_ver cr) with (c_version c).
      destruct (c_version c =? 1) eqn:E; [apply Hra1; lia|lia].
    - unfold cr at 1. rewrite Hsp, cie_asz_sp. change (CfiRd.sc_be cfg) with be.
      change (CfiSpec.c_items cr) with (aug_items_of c (cie_data_pos eh be pos c)).
      change (2 ^ 64) with 18446744073709551616. lia. }
  split; [exact Hwfc|].
  assert (Hbf' : RdE.body_fits (c_fmt64 c) (RdE.cie_body cfg cr)).
  { unfold RdE.body_fits. exact Hbf. }
  split; [exact Hbf'|].
  assert (Hdpos : RdE.cie_dpos cfg cr (RdE.tail_off cfg (c_fmt64 c) pos) = cie_data_pos eh be pos c).
  { unfold RdE.cie_dpos, cr. rewrite Hsp, cie_asz_sp. change (CfiRd.sc_be cfg) with be.
    cbn [cie_rec_of CfiSpec.c_items].
    rewrite enc_uleb_small by exact Hsmall. unfold cfg. rewrite tail_off_cfg.
    unfold cie_data_pos. rewrite (cie_pre_indep eh be c _ _ 0 []). reflexivity. }
  assert (Haug : RdE.exp_aug cfg cr (RdE.cie_dpos cfg cr (RdE.tail_off cfg (c_fmt64 c) pos)) = Some (rd_aug_of c)).
  { rewrite Hdpos. unfold RdE.exp_aug, rd_aug_of. unfold cr. rewrite Hsp, cie_asz_sp.
    cbn [cie_rec_of CfiSpec.c_z CfiSpec.c_items]. change (CfiRd.sc_be cfg) with be.
    change (CfiRd.sc_bases cfg) with (CfiRd.mksb (Some 0) None None).
    destruct (has_augmentation c) eqn:Ea.
    - rewrite (aug_fold_written be c (cie_data_pos eh be pos c) Hasz); [reflexivity| |exact HL|exact HR|].
      + (* the data lies inside the entry *)
        assert (Hlenbs : len bs = ilen_size (c_fmt64 c) + id_size_of eh (c_fmt64 c)
                                  + CfiRd.nlen (RdE.cie_pre (cie_sp eh be c) cr)
                                  + CfiRd.nlen (RdE.cie_augpart (cie_sp eh be c) cr) + CfiRd.nlen (CfiSpec.c_instr cr)).
        { rewrite Hbs. unfold CfiSpec.enc_cie. cbv zeta. change len with CfiRd.nlen.
          rewrite CfiRdBase.nlen_app, RdE.nlen_initial_length, CfiRdBase.nlen_app, RdE.cie_tail_split, !CfiRdBase.nlen_app.
          change (CfiSpec.c_fmt64 cr) with (c_fmt64 c).
          assert (Hid : CfiRd.nlen (CfiSpec.cie_id (cie_sp eh be c) (c_fmt64 c)) = id_size_of eh (c_fmt64 c)).
          { unfold CfiSpec.cie_id, id_size_of, cie_sp, CfiRd.nlen. cbn [CfiSpec.s_eh CfiSpec.s_be].
            destruct eh; [|destruct (c_fmt64 c)]; rewrite CfiRdBase.un_bytes_length; reflexivity. }
          rewrite Hid. destruct (c_fmt64 c); cbn [CfiSpec.len_field_size ilen_size]; lia. }
        assert (Hap : 1 <= CfiRd.nlen (RdE.cie_augpart (cie_sp eh be c) cr)).
        { unfold RdE.cie_augpart, cr. cbv zeta. rewrite cie_asz_sp. cbn [cie_rec_of CfiSpec.c_z CfiSpec.c_items]. rewrite Ea.
          change (CfiSpec.s_be (cie_sp eh be c)) with be.
          rewrite enc_uleb_small by exact Hsmall. rewrite CfiRdBase.nlen_app. unfold CfiRd.nlen at 1. cbn [length]. lia. }
        unfold cie_data_pos. rewrite (cie_pre_indep eh be c 0 [] (cie_data_pos eh be pos c) (insns ++ pad)). fold cr. lia.
      + destruct (c_pers c) as [[e a]|]; [|exact I].
        destruct Hpers as (v & -> & Happ & Hfv & Hfitv). exists v. split; [reflexivity|].
        apply andb_true_iff in Hpe. destruct Hpe as [He Ha]. apply is_u8_iff in He. cbn [addr_wf] in Ha.
        split; [lia|]. split; [split; [exact He|split; assumption]|exact Hfitv].
    - destruct (no_aug_fields c Ea) as (E1 & E2 & E3 & E4).
      unfold aug_items_of, pers_items, lsda_items. rewrite E1, E2, E3, E4. reflexivity. }
  split; [exact Haug|].
  intros dbg' rest.
  rewrite Hbs at 1. rewrite <- Hsp.
  rewrite (RdE.parse_cfi_entry_cie dbg' cfg cr pos rest (rd_aug_of c) Hwfc Hbf' Haug).
  do 3 f_equal. rewrite Hsp, <- Hbs. reflexivity.
Qed.

(* ---- one FDE tile: the iterator step and the complete parse ---- *)

Lemma enc_usable_ok e : enc_usable e -> RdE.enc_ok e = true.
Proof.
  intros H. destruct (enc_usable_valid e H) as [Hv Hn]. unfold RdE.enc_ok.
  apply andb_true_iff in Hv. destruct Hv as [H1 H2]. rewrite H1, H2. cbn [andb].
  destruct (e =? 255) eqn:E; [lia|reflexivity].
Qed.

(* the LSDA the reader must report *)
Definition rd_lsda_of (c : CfiWr.cie) (f : CfiWr.fde) : option CfiRd.pointer :=
  match f_lsda f, c_lsda_enc c with
  | Some a, Some e => Some (RdP.mkptr (negb (N.land e 128 =? 0)) (addr_val a mod 2 ^ (8 * c_asize c)))
  | _, _ => None
  end.

Lemma exp_fde_written be eh pos (c : CfiWr.cie) (f : CfiWr.fde) d ci0 idx instr (ci : CfiRd.cie) len0 :
  let cfg := rd_cfg eh be (c_asize c) in
  let cr := cie_rec_of c d ci0 in
  let fr := fde_rec_of be eh pos c f idx instr in
  (c_asize c = 1 \/ c_asize c = 2 \/ c_asize c = 4 \/ c_asize c = 8) ->
  fde_lsda_pos be eh pos c f + 2 < 18446744073709551616 ->
  lsda_ok c f = true ->
  (negb (c_fde_enc c =? 0) = true ->
     enc_usable (c_fde_enc c) /\
     CfiSpec.value_fits (CfiWr.pe_format (c_fde_enc c)) (c_asize c) (fde_init_raw eh pos c f) = true /\
     CfiSpec.value_fits (CfiWr.pe_format (c_fde_enc c)) (c_asize c) (f_len f) = true) ->
  (negb (c_fde_enc c =? 0) = false ->
     fde_init_raw eh pos c f < 2 ^ (8 * c_asize c) /\ f_len f < 2 ^ (8 * c_asize c)) ->
  (forall e, c_lsda_enc c = Some e ->
     enc_usable e /\ CfiSpec.value_fits (CfiWr.pe_format e) (c_asize c) (fde_lsda_raw be eh pos c f) = true /\
     (length (CfiSpec.enc_value (CfiWr.pe_format e) (c_asize c) be (fde_lsda_raw be eh pos c f)) <= 10)%nat) ->
  (exists v, f_addr f = AConst v /\ v < 18446744073709551616) ->
  (forall la, f_lsda f = Some la -> exists v, la = AConst v /\ v < 18446744073709551616) ->
  exists ioff,
    RdE.exp_fde cfg cr ci fr pos len0 (fde_addr_pos eh pos c)
    = Some (CfiRd.mkfde pos len0 (c_fmt64 c) ci (addr_val (f_addr f) mod 2 ^ (8 * c_asize c)) (f_len f)
                        (if has_augmentation c then Some (rd_lsda_of c f) else None)
                        (CfiRd.mkrd ioff instr)).
Proof.
  intros cfg cr fr Hasz Hpos Hls Hfenc Hnofenc Hlenc (va & Hva & Hva64) Hlconst.
  unfold RdE.exp_fde. cbv zeta.
  assert (Hsp : RdE.sp_of cfg = cie_sp eh be c) by reflexivity.
  unfold cr. rewrite Hsp, cie_asz_sp, has_aug_items. change (CfiRd.sc_be cfg) with be.
  change (CfiRd.sc_bases cfg) with (CfiRd.mksb (Some 0) None None).
  cbn [cie_rec_of CfiSpec.c_items]. rewrite find_R_items, find_L_items.
  unfold fr. cbn [fde_rec_of CfiSpec.f_init CfiSpec.f_range CfiSpec.f_lsda CfiSpec.f_pad CfiSpec.f_instr CfiSpec.f_fmt64].
  unfold RdE.sb_pb. cbn [CfiRd.sb_section CfiRd.sb_text CfiRd.sb_data].
  rewrite Hva. cbn [addr_val].
  (* the address *)
  assert (Haddr :
    (match (if negb (c_fde_enc c =? 0) then Some (c_fde_enc c) else None) with
     | Some e =>
         if RdE.enc_ok e && CfiSpec.value_fits (CfiSpec.fmt_of e) (c_asize c) (fde_init_raw eh pos c f)
            && CfiSpec.value_fits (CfiSpec.fmt_of e) (c_asize c) (f_len f)
         then match CfiSpec.ptr_spec e (c_asize c) (CfiSpec.mkpb (Some 0) None None None) (fde_addr_pos eh pos c)
                      (fde_init_raw eh pos c f) with
              | Some (_, a) => Some a | None => None end
         else None
     | None => if (fde_init_raw eh pos c f <? 2 ^ (8 * c_asize c)) && (f_len f <? 2 ^ (8 * c_asize c))
               then Some (fde_init_raw eh pos c f) else None
     end) = Some (va mod 2 ^ (8 * c_asize c))).
  { destruct (negb (c_fde_enc c =? 0)) eqn:Ef.
    - destruct (Hfenc eq_refl) as (Hu & Hf1 & Hf2).
      rewrite (enc_usable_ok _ Hu), fmt_of_pe, Hf1, Hf2. cbn [andb].
      unfold fde_init_raw. rewrite Ef, Hva. cbn [addr_val].
      destruct Hu as (He & Happ & _).
      rewrite (ptr_spec_written _ (c_asize c) _ va None He Hasz Happ Hva64) by (unfold fde_lsda_pos in Hpos; lia).
      reflexivity.
    - destruct (Hnofenc eq_refl) as (H1 & H2).
      replace (fde_init_raw eh pos c f <? 2 ^ (8 * c_asize c)) with true by lia.
      replace (f_len f <? 2 ^ (8 * c_asize c)) with true by lia. cbn [andb].
      unfold fde_init_raw in *. rewrite Ef, Hva in *. cbn [addr_val] in *. rewrite N.mod_small by exact H1. reflexivity. }
  rewrite Haddr.
  destruct (has_augmentation c) eqn:Ea.
  - unfold lsda_ok in Hls. apply (proj1 (bool_eqb_iff _ _)) in Hls.
    destruct (c_lsda_enc c) as [le|] eqn:Ecl.
    + destruct (f_lsda f) as [la|] eqn:Efl; [|discriminate].
      destruct (Hlconst la eq_refl) as (vl & -> & Hvl64).
      destruct (Hlenc le eq_refl) as (Hu & Hfit & Hlen10).
      rewrite app_nil_r, fmt_of_pe.
      assert (Hsm : CfiSpec.blen (CfiSpec.enc_value (CfiWr.pe_format le) (c_asize c) be (fde_lsda_raw be eh pos c f)) < 128)
        by (unfold CfiSpec.blen; lia).
      replace (CfiSpec.blen _ <? 2 ^ 64) with true by (change (2 ^ 64) with 18446744073709551616; lia).
      rewrite (enc_usable_ok _ Hu), Hfit. cbn [andb].
      rewrite enc_uleb_small by exact Hsm.
      assert (Hp3 : fde_addr_pos eh pos c
                    + CfiRd.nlen (CfiSpec.enc_value (match (if negb (c_fde_enc c =? 0) then Some (c_fde_enc c) else None) with
                                                     | Some e => CfiSpec.fmt_of e | None => 0 end) (c_asize c) be (fde_init_raw eh pos c f))
                    + CfiRd.nlen (CfiSpec.enc_value (match (if negb (c_fde_enc c =? 0) then Some (c_fde_enc c) else None) with
                                                     | Some e => CfiSpec.fmt_of e | None => 0 end) (c_asize c) be (f_len f))
                    + CfiRd.nlen [n2b (CfiSpec.blen (CfiSpec.enc_value (CfiWr.pe_format le) (c_asize c) be (fde_lsda_raw be eh pos c f)))]
                    = fde_lsda_pos be eh pos c f).
      { unfold fde_lsda_pos, fde_afmt. destruct (negb (c_fde_enc c =? 0)); rewrite ?fmt_of_pe; reflexivity. }
      rewrite Hp3.
      unfold fde_lsda_raw. rewrite Efl, Ecl. cbn [addr_val].
      destruct Hu as (He & Happ & _).
      rewrite (ptr_spec_written le (c_asize c) _ vl (Some (va mod 2 ^ (8 * c_asize c))) He Hasz Happ Hvl64) by lia.
      eexists. unfold rd_lsda_of. rewrite Efl, Ecl. cbn [addr_val]. reflexivity.
    + destruct (f_lsda f) as [la|] eqn:Efl; [discriminate|].
      cbn [app]. replace (CfiSpec.blen [] <? 2 ^ 64) with true by reflexivity.
      eexists. unfold rd_lsda_of. rewrite Efl. reflexivity.
  - eexists. reflexivity.
Qed.

(* ---- the whole section under CfiRd's entry iterator ---- *)

(* what the reader's CIE record must contain for the CIE c written at offset o as the bytes b *)
Definition cie_seen (dbg : bool) (c : CfiWr.cie) (o : N) (b : list byte) (ci : CfiRd.cie) : Prop :=
  CfiRd.ci_off ci = o /\ CfiRd.ci_fmt64 ci = c_fmt64 c /\ CfiRd.ci_ver ci = c_version c /\
  CfiRd.ci_asz ci = c_asize c /\ CfiRd.ci_caf ci = c_caf c /\ CfiRd.ci_daf ci = c_daf c /\
  CfiRd.ci_rar ci = c_ra c /\ CfiRd.ci_aug ci = rd_aug_of c /\
  exists insns pad,
    write_insns dbg (c_daf c) (c_insns c) = Ok insns /\ all_nop pad = true /\ len pad < c_asize c /\
    CfiRd.win (CfiRd.ci_instr ci) = insns ++ pad /\
    CfiRd.off (CfiRd.ci_instr ci) + len (insns ++ pad) = o + len b.

(* and its FDE record *)
Definition fde_seen (dbg be : bool) (c : CfiWr.cie) (f : CfiWr.fde) (o : N) (b : list byte) (ci : CfiRd.cie)
           (fd : CfiRd.fde) : Prop :=
  CfiRd.fd_off fd = o /\ CfiRd.fd_fmt64 fd = c_fmt64 c /\ CfiRd.fd_cie fd = ci /\
  CfiRd.fd_init fd = addr_val (f_addr f) mod 2 ^ (8 * c_asize c) /\ CfiRd.fd_range fd = f_len f /\
  CfiRd.fd_aug fd = (if has_augmentation c then Some (rd_lsda_of c f) else None) /\
  exists insns pad,
    write_fde_insns dbg be (c_caf c) (c_daf c) 0 (f_insns f) = Ok insns /\ all_nop pad = true /\ len pad < c_asize c /\
    CfiRd.win (CfiRd.fd_instr fd) = insns ++ pad.

Section Assembly.
  Variables (dbg dbg' be eh : bool) (asz : N) (cies : list CfiWr.cie) (fdes : list (nat * CfiWr.fde)) (sec : list byte).
  Let cfg := rd_cfg eh be asz.

  (* a CIE tile already passed: where it sits in the section and what the reader makes of it *)
  Definition placed_cie (idx : nat) (o : N) (ci : CfiRd.cie) : Prop :=
    exists c b pre post,
      nth_error cies idx = Some c /\ sec = pre ++ b ++ post /\ len pre = o /\
      cie_seen dbg c o b ci /\
      CfiRd.cie_from_offset dbg' cfg sec o = Ok ci /\
      (exists cr, ci = RdE.exp_cie cfg cr o (CfiSpec.blen (RdE.cie_body cfg cr)) (RdE.tail_off cfg (c_fmt64 c) o) (rd_aug_of c) /\
                  cr = cie_rec_of c (cie_data_pos eh be o c) (CfiRd.win (CfiRd.ci_instr ci)) /\
                  RdE.exp_aug cfg cr (RdE.cie_dpos cfg cr (RdE.tail_off cfg (c_fmt64 c) o)) = Some (rd_aug_of c)).

  Fixpoint reader_sees (pos : N) (placed : list (nat * N)) (chunks : list (CfaEncSpec.item * list byte))
           (items : list CfiRd.item) : Prop :=
    match chunks, items with
    | [], [] => True
    | (CfaEncSpec.ICie idx, b) :: r, CfiRd.ICie ci :: its =>
        placed_cie idx pos ci /\ reader_sees (pos + len b) ((idx, pos) :: placed) r its
    | (CfaEncSpec.IFde k, b) :: r, CfiRd.IFde p :: its =>
        (exists idx f c coff ci fd,
           nth_error fdes k = Some (idx, f) /\ nth_error cies idx = Some c /\ CfiWrProofs.lookup idx placed = Some coff /\
           placed_cie idx coff ci /\
           CfiRd.pf_off p = pos /\ CfiRd.pf_cie_off p = coff /\
           CfiRd.fde_parse dbg' cfg sec p = Ok fd /\ fde_seen dbg be c f pos b ci fd)
        /\ reader_sees (pos + len b) placed r its
    | _, _ => False
    end.
End Assembly.

Lemma enc_value_len fmt asz be v :
  CfiSpec.fmt_valid fmt = true -> asz <= 8 -> v < 18446744073709551616 ->
  (length (CfiSpec.enc_value fmt asz be v) <= 10)%nat.
Proof.
  intros Hf Ha Hv. unfold CfiSpec.enc_value.
  destruct (fmt =? 0); [rewrite CfiRdBase.un_bytes_length; lia|].
  destruct (fmt =? 1).
  { pose proof (write_uleb128_enc v ltac:(change (2 ^ 64) with 18446744073709551616; exact Hv)) as E.
    unfold write_uleb128 in E. apply write_uleb_fuel_len in E. exact E. }
  destruct (fmt =? 2); [rewrite CfiRdBase.un_bytes_length; lia|].
  destruct (fmt =? 3); [rewrite CfiRdBase.un_bytes_length; lia|].
  destruct (fmt =? 4); [rewrite CfiRdBase.un_bytes_length; lia|].
  destruct (fmt =? 9).
  { rewrite s64_to_i64 by exact Hv.
    pose proof (write_sleb128_enc (to_i64 v) (to_i64_range v)) as E.
    unfold write_sleb128 in E. apply write_sleb_fuel_len in E. exact E. }
  destruct (fmt =? 10); [rewrite CfiRdBase.un_bytes_length; lia|].
  destruct (fmt =? 11); [rewrite CfiRdBase.un_bytes_length; lia|].
  destruct (fmt =? 12); [rewrite CfiRdBase.un_bytes_length; lia|]. cbn; lia.
Qed.

Lemma ptr_raw_lt pos e a : a < 18446744073709551616 -> ptr_raw pos e a < 18446744073709551616.
Proof. intros H. unfold ptr_raw. destruct (CfiWr.pe_application e =? 16); [apply wrap64_lt|exact H]. Qed.

Lemma entries_loop_nil fuel dbg cfg o : fuel <> O ->
  CfiRd.entries_loop fuel dbg cfg (CfiRd.mkrd o []) = Ok ([], None).
Proof. destruct fuel as [|f]; [congruence|]. intros _. reflexivity. Qed.

Lemma entries_loop_step f dbg cfg o (b rest : list byte) it :
  (0 < length b)%nat ->
  CfiRd.parse_cfi_entry dbg cfg (CfiRd.mkrd o (b ++ rest)) = Ok (Some it, CfiRd.mkrd (o + len b) rest) ->
  CfiRd.entries_loop (S f) dbg cfg (CfiRd.mkrd o (b ++ rest)) =
  (let* (l, e) := CfiRd.entries_loop f dbg cfg (CfiRd.mkrd (o + len b) rest) in Ok (it :: l, e)).
Proof.
  intros Hb Hp. rewrite CfiRdIter.entries_loop_S. unfold CfiRd.iter_fuel. cbn [CfiRd.win].
  rewrite CfiRdSafe.iter_next_S. rewrite RdE.rd_is_empty_app by exact Hb. rewrite Hp. reflexivity.
Qed.

Lemma concat_cons_snd {A} (x : A * list byte) l : concat (map snd (x :: l)) = snd x ++ concat (map snd l).
Proof. reflexivity. Qed.

Lemma tiles_read dbg dbg' be eh asz cies fdes sec :
  Forall (fun c => cie_wf c = true /\ c_asize c = asz) cies ->
  Forall (fun p => fde_wf (snd p) = true) fdes ->
  (forall idx c, In idx (map fst fdes) -> nth_error cies idx = Some c ->
     (forall e, c_lsda_enc c = Some e -> enc_usable e) /\
     (negb (c_fde_enc c =? 0) = true -> enc_usable (c_fde_enc c))) ->
  len sec + 16 < 4294967295 ->
  forall chunks done placed fuel,
    sec = done ++ concat (map snd chunks) ->
    well_tiled dbg be eh cies fdes (len done) placed chunks ->
    (forall idx cb, In (CfaEncSpec.ICie idx, cb) chunks -> In idx (map fst fdes)) ->
    (forall idx o, CfiWrProofs.lookup idx placed = Some o ->
       o <= len done /\ exists ci, placed_cie dbg dbg' be eh asz cies sec idx o ci) ->
    (length chunks < fuel)%nat ->
    exists items,
      CfiRd.entries_loop fuel dbg' (rd_cfg eh be asz) (CfiRd.mkrd (len done) (concat (map snd chunks))) = Ok (items, None) /\
      reader_sees dbg dbg' be eh asz cies fdes sec (len done) placed chunks items.
Proof.
  intros HC HF HU Hsmall.
  induction chunks as [|[it b] r IH]; intros done placed fuel Hsec Hwt Hin Hpl Hfuel.
  - exists []. split; [apply entries_loop_nil; cbn [length] in Hfuel; lia|exact I].
  - destruct fuel as [|fuel]; [cbn [length] in Hfuel; lia|]. cbn [length] in Hfuel.
    rewrite concat_cons_snd in Hsec |- *. cbn [snd] in Hsec |- *.
    assert (Hlen_sec : len sec = len done + len b + len (concat (map snd r))).
    { rewrite Hsec, !len_app. lia. }
    assert (Hsec' : sec = (done ++ b) ++ concat (map snd r)) by (rewrite Hsec, <- app_assoc; reflexivity).
    assert (Hlen' : len (done ++ b) = len done + len b) by apply len_app.
    destruct it as [idx|k]; cbn [well_tiled] in Hwt; destruct Hwt as [Hthis Hrest].
    + (* a CIE tile *)
      destruct Hthis as (c & Hn & Hw).
      assert (Hcw : cie_wf c = true /\ c_asize c = asz).
      { rewrite Forall_forall in HC. apply HC. eapply nth_error_In. exact Hn. }
      destruct Hcw as [Hcw Hca].
      assert (Hidx : In idx (map fst fdes)) by (eapply Hin; left; reflexivity).
      destruct (HU idx c Hidx Hn) as [HL HR].
      destruct (cie_tile_read dbg be eh (len done) c b Hcw ltac:(lia) Hw HL HR)
        as (insns & pad & Hins & Hnop & Hpad & Hb & Hwfc & Hbf & Haug & Hparse).
      subst asz.
      set (cr := cie_rec_of c (cie_data_pos eh be (len done) c) (insns ++ pad)) in *.
      set (cfg := rd_cfg eh be (c_asize c)) in *.
      set (ci := RdE.exp_cie cfg cr (len done) (CfiSpec.blen (RdE.cie_body cfg cr))
                             (RdE.tail_off cfg (c_fmt64 c) (len done)) (rd_aug_of c)) in *.
      assert (Hbpos : (0 < length b)%nat) by (rewrite Hb; apply RdE.enc_cie_len).
      rewrite (entries_loop_step fuel dbg' cfg (len done) b _ (CfiRd.ICie ci) Hbpos (Hparse dbg' _)).
      (* the record just read *)
      assert (Hplaced : placed_cie dbg dbg' be eh (c_asize c) cies sec idx (len done) ci).
      { exists c, b, done, (concat (map snd r)). split; [exact Hn|]. split; [exact Hsec|]. split; [reflexivity|].
        split.
        - unfold cie_seen, ci, RdE.exp_cie. cbv zeta.
          cbn [CfiRd.ci_off CfiRd.ci_fmt64 CfiRd.ci_ver CfiRd.ci_asz CfiRd.ci_caf CfiRd.ci_daf CfiRd.ci_rar CfiRd.ci_aug
               CfiRd.ci_instr CfiRd.win CfiRd.off].
          change (RdE.sp_of cfg) with (cie_sp eh be c).
          repeat split; try reflexivity.
          + unfold cr. apply cie_asz_sp.
          + exists insns, pad. split; [exact Hins|]. split; [exact Hnop|]. split; [exact Hpad|].
            split; [reflexivity|].
            (* offsets: the instruction area ends where the entry ends *)
            rewrite Hb. unfold CfiSpec.enc_cie. cbv zeta. change len with CfiRd.nlen.
            rewrite RdE.cie_tail_split. rewrite !CfiRdBase.nlen_app, RdE.nlen_initial_length.
            unfold cfg at 1. rewrite tail_off_cfg.
            assert (Hid : CfiRd.nlen (CfiSpec.cie_id (RdE.sp_of cfg) (CfiSpec.c_fmt64 cr)) = id_size_of eh (c_fmt64 c)).
            { unfold CfiSpec.cie_id, id_size_of, CfiRd.nlen. cbn [RdE.sp_of cfg rd_cfg CfiRd.sc_eh CfiRd.sc_be CfiSpec.s_eh CfiSpec.s_be].
              change (CfiSpec.c_fmt64 cr) with (c_fmt64 c).
              destruct eh; [|destruct (c_fmt64 c)]; rewrite CfiRdBase.un_bytes_length; reflexivity. }
            rewrite Hid. change (CfiSpec.c_fmt64 cr) with (c_fmt64 c). change (CfiSpec.c_instr cr) with (insns ++ pad).
            change (RdE.sp_of cfg) with (cie_sp eh be c). rewrite ?CfiRdBase.nlen_app.
            destruct (c_fmt64 c); cbn [CfiSpec.len_field_size ilen_size]; lia.
        - split.
          + unfold ci. rewrite Hsec. rewrite Hb.
            apply (RdE.cie_from_offset_enc dbg' cfg cr done (concat (map snd r)) (rd_aug_of c) Hwfc Hbf).
            exact Haug.
          + exists cr. split; [reflexivity|]. split; [|exact Haug].
            unfold ci, RdE.exp_cie. cbn [CfiRd.ci_instr CfiRd.win]. reflexivity. }
      destruct (IH (done ++ b) ((idx, len done) :: placed) fuel Hsec') as (items & Hloop & Hsees).
      * rewrite Hlen'. exact Hrest.
      * intros i cb Hi. eapply Hin. right. exact Hi.
      * intros i o Hlk. cbn [CfiWrProofs.lookup] in Hlk. destruct (Nat.eqb i idx) eqn:Ei.
        -- injection Hlk as <-. apply Nat.eqb_eq in Ei. subst i. split; [lia|]. exists ci. exact Hplaced.
        -- destruct (Hpl i o Hlk) as [Ho Hex]. split; [lia|exact Hex].
      * lia.
      * rewrite Hlen' in Hloop, Hsees. rewrite Hloop. cbn [bind].
        exists (CfiRd.ICie ci :: items). split; [reflexivity|]. cbn [reader_sees]. split; [exact Hplaced|exact Hsees].
    + (* an FDE tile *)
      destruct Hthis as (idx & f & c & coff & Hk & Hn & Hlk & Hw).
      assert (Hcw : cie_wf c = true /\ c_asize c = asz).
      { rewrite Forall_forall in HC. apply HC. eapply nth_error_In. exact Hn. }
      destruct Hcw as [Hcw Hca].
      assert (Hfw : fde_wf f = true).
      { rewrite Forall_forall in HF. apply (HF (idx, f)). eapply nth_error_In. exact Hk. }
      assert (Hidx : In idx (map fst fdes)).
      { apply in_map_iff. exists (idx, f). split; [reflexivity|]. eapply nth_error_In. exact Hk. }
      destruct (HU idx c Hidx Hn) as [HL HR].
      destruct (Hpl idx coff Hlk) as [Hcoff (ci & Hpc)].
      destruct (fde_write_enc dbg be eh (len done) coff c f b Hcw Hfw ltac:(lia) Hcoff Hw)
        as (insns & pad & Hins & Hnop & Hpad & Henc & Hls & Hfenc & Hnofenc & Hlenc & Hconst & Hlconst & Hco & Hbfit).
      pose proof Hpc as Hpc0.
      destruct Hpc as (c' & cb & pre & post & Hn' & Hsecc & Hpre & Hseen & Hfrom & cr & Eci & Ecr & Haug).
      rewrite Hn in Hn'. injection Hn' as <-.
      subst asz.
      set (cfg := rd_cfg eh be (c_asize c)) in *.
      set (fr := fde_rec_of be eh (len done) c f idx (insns ++ pad)).
      assert (Hb : b = CfiSpec.enc_fde (RdE.sp_of cfg) cr coff (len done) fr).
      { rewrite Ecr. unfold fr. rewrite (Henc (cie_data_pos eh be coff c) (CfiRd.win (CfiRd.ci_instr ci)) idx).
        reflexivity. }
      assert (Hbf : RdE.body_fits (CfiSpec.f_fmt64 fr) (RdE.fde_body cfg cr coff (len done) fr)).
      { unfold RdE.body_fits. rewrite Ecr. unfold fr. cbn [fde_rec_of CfiSpec.f_fmt64].
        exact (Hbfit (cie_data_pos eh be coff c) (CfiRd.win (CfiRd.ci_instr ci)) idx). }
      assert (Href : RdE.cie_ref_ok cfg (CfiSpec.f_fmt64 fr) (len done) coff).
      { unfold RdE.cie_ref_ok. cbn [cfg rd_cfg CfiRd.sc_eh]. unfold fr. cbn [fde_rec_of CfiSpec.f_fmt64].
        change (CfiSpec.len_field_size (c_fmt64 c)) with (ilen_size (c_fmt64 c)).
        destruct eh.
        - change (2 ^ 32) with 4294967296. destruct (c_fmt64 c); cbn [ilen_size] in *; lia.
        - destruct (c_fmt64 c); [change (2 ^ 64 - 1) with 18446744073709551615|change (2 ^ 32 - 1) with 4294967295]; lia. }
      assert (Hbpos : (0 < length b)%nat) by (rewrite Hb; apply RdE.enc_fde_len_pos).
      pose proof (RdE.parse_cfi_entry_fde dbg' cfg cr coff (len done) fr (concat (map snd r)) Hbf Href) as Hparse.
      rewrite <- Hb in Hparse. change (CfiSpec.blen b) with (len b) in Hparse.
      set (p := CfiRd.mkpfde (len done) (CfiSpec.blen (RdE.fde_body cfg cr coff (len done) fr)) (CfiSpec.f_fmt64 fr) coff
                             (CfiRd.mkrd (RdE.tail_off cfg (CfiSpec.f_fmt64 fr) (len done)) (CfiSpec.fde_tail (RdE.sp_of cfg) cr fr))) in *.
      rewrite (entries_loop_step fuel dbg' cfg (len done) b _ (CfiRd.IFde p) Hbpos Hparse).
      (* the complete parse of this FDE *)
      assert (Hasz : c_asize c = 1 \/ c_asize c = 2 \/ c_asize c = 4 \/ c_asize c = 8).
      { eapply fde_write_ok_asz. exact Hw. }
      destruct Hconst as (va & Hva).
      assert (Hva64 : va < 18446744073709551616).
      { destruct (fde_wf_parts2 f Hfw) as (Hfa & _). rewrite Hva in Hfa. cbn [addr_wf] in Hfa. lia. }
      assert (Hlpos : fde_lsda_pos be eh (len done) c f + 2 < 18446744073709551616).
      { unfold fde_lsda_pos, fde_addr_pos.
        assert (L1 : (length (CfiSpec.enc_value (fde_afmt c) (c_asize c) be (fde_init_raw eh (len done) c f)) <= 10)%nat).
        { unfold fde_afmt. destruct (negb (c_fde_enc c =? 0)) eqn:Ef.
          - destruct (Hfenc eq_refl) as (_ & Hfv & _). apply enc_value_len; [exact Hfv|lia|].
            unfold fde_init_raw. rewrite Ef. apply ptr_raw_lt. rewrite Hva. exact Hva64.
          - apply enc_value_len; [reflexivity|lia|]. unfold fde_init_raw. rewrite Ef, Hva. exact Hva64. }
        assert (L2 : (length (CfiSpec.enc_value (fde_afmt c) (c_asize c) be (f_len f)) <= 10)%nat).
        { destruct (fde_wf_parts2 f Hfw) as (_ & Hfl & _). apply is_u32_iff in Hfl.
          unfold fde_afmt. destruct (negb (c_fde_enc c =? 0)) eqn:Ef.
          - destruct (Hfenc eq_refl) as (_ & Hfv & _). apply enc_value_len; [exact Hfv|lia|lia].
          - apply enc_value_len; [reflexivity|lia|lia]. }
        unfold CfiRd.nlen. destruct eh, (c_fmt64 c); cbn [ilen_size id_size_of]; lia. }
      destruct (exp_fde_written be eh (len done) c f (cie_data_pos eh be coff c) (CfiRd.win (CfiRd.ci_instr ci)) idx
                  (insns ++ pad) ci (CfiSpec.blen (RdE.fde_body cfg cr coff (len done) fr)))
        as (ioff & Hexp).
      * exact Hasz.
      * exact Hlpos.
      * exact Hls.
      * intros Ef. destruct (Hfenc Ef) as (_ & _ & Hf1 & Hf2). split; [exact (HR Ef)|]. split; assumption.
      * exact Hnofenc.
      * intros e He. destruct (Hlenc e He) as (_ & Hfv & Hfit). split; [exact (HL e He)|]. split; [exact Hfit|].
        apply enc_value_len; [exact Hfv|lia|].
        unfold fde_lsda_raw. destruct (f_lsda f) as [la|] eqn:Efl; [|lia]. rewrite He.
        apply ptr_raw_lt. destruct (Hlconst la eq_refl) as (v & ->). cbn [addr_val].
        destruct (fde_wf_parts2 f Hfw) as (_ & _ & Hfls). rewrite Efl in Hfls. cbn [addr_wf] in Hfls. lia.
      * exists va. split; [exact Hva|exact Hva64].
      * intros la Hla. destruct (Hlconst la Hla) as (v & ->). exists v. split; [reflexivity|].
        destruct (fde_wf_parts2 f Hfw) as (_ & _ & Hfls). rewrite Hla in Hfls. cbn [addr_wf] in Hfls. lia.
      * fold cfg in Hexp. rewrite <- Ecr in Hexp. fold fr in Hexp.
        match type of Hexp with _ = Some ?X => set (fd := X) in * end.
        assert (Hparse_fde : CfiRd.fde_parse dbg' cfg sec p = Ok fd).
        { unfold p. apply (RdE.fde_body_enc dbg' cfg sec cr ci fr).
          - change (RdE.sp_of cfg) with (cie_sp eh be c). rewrite Ecr, cie_asz_sp. exact Hasz.
          - exact Hfrom.
          - rewrite Eci. eapply RdE.exp_cie_links. exact Haug.
          - unfold fr at 2. cbn [fde_rec_of CfiSpec.f_fmt64]. unfold cfg. rewrite tail_off_cfg.
            unfold fde_addr_pos in Hexp. exact Hexp. }
        destruct (IH (done ++ b) placed fuel Hsec') as (items & Hloop & Hsees).
        -- rewrite Hlen'. exact Hrest.
        -- intros i cbb Hi. eapply Hin. right. exact Hi.
        -- intros i o Hl. destruct (Hpl i o Hl) as [Ho Hex]. split; [lia|exact Hex].
        -- lia.
        -- rewrite Hlen' in Hloop, Hsees. rewrite Hloop. cbn [bind].
           exists (CfiRd.IFde p :: items). split; [reflexivity|]. cbn [reader_sees]. split; [|exact Hsees].
           exists idx, f, c, coff, ci, fd. split; [exact Hk|]. split; [exact Hn|]. split; [exact Hlk|].
           split; [exact Hpc0|]. split; [reflexivity|]. split; [reflexivity|]. split; [exact Hparse_fde|].
           unfold fde_seen, fd. cbn [CfiRd.fd_off CfiRd.fd_fmt64 CfiRd.fd_cie CfiRd.fd_init CfiRd.fd_range CfiRd.fd_aug
                                 CfiRd.fd_instr CfiRd.win].
           repeat split; try reflexivity.
           exists insns, pad. auto.
Qed.

(* ---- from the written table to the hypotheses of tiles_read ---- *)

Lemma well_tiled_fde_member dbg be eh cies fdes : forall chunks pos placed k b,
  well_tiled dbg be eh cies fdes pos placed chunks ->
  (forall i o, CfiWrProofs.lookup i placed = Some o -> o <= pos) ->
  In (CfaEncSpec.IFde k, b) chunks ->
  exists p coff idx f c,
    pos <= p /\ p + len b <= pos + len (concat (map snd chunks)) /\ coff <= p /\
    nth_error fdes k = Some (idx, f) /\ nth_error cies idx = Some c /\
    fde_write dbg be eh p coff c f = Ok b.
Proof.
  induction chunks as [|[it cb] r IH]; intros pos placed k b Hwt Hpl Hin; [destruct Hin|].
  rewrite concat_cons_snd, len_app. cbn [snd].
  destruct it as [idx|k']; cbn [well_tiled] in Hwt; destruct Hwt as [Hthis Hrest].
  - destruct Hin as [Heq|Hin]; [discriminate|].
    destruct (IH (pos + len cb) ((idx, pos) :: placed) k b Hrest) as (p & coff & i & f & c & H1 & H2 & H3 & H4);
      [|exact Hin|].
    + intros i o Hl. cbn [CfiWrProofs.lookup] in Hl. destruct (Nat.eqb i idx); [injection Hl as <-; lia|].
      specialize (Hpl i o Hl). lia.
    + exists p, coff, i, f, c. split; [lia|]. split; [lia|]. exact (conj H3 H4).
  - destruct Hin as [Heq|Hin].
    + injection Heq as <- <-. destruct Hthis as (idx & f & c & coff & Hk & Hn & Hlk & Hw).
      exists pos, coff, idx, f, c. split; [lia|]. split; [lia|]. split; [exact (Hpl idx coff Hlk)|]. auto.
    + destruct (IH (pos + len cb) placed k b Hrest) as (p & coff & i & f & c & H1 & H2 & H3 & H4); [|exact Hin|].
      * intros i o Hl. specialize (Hpl i o Hl). lia.
      * exists p, coff, i, f, c. split; [lia|]. split; [lia|]. exact (conj H3 H4).
Qed.

Lemma well_tiled_nonempty dbg be eh cies fdes : forall chunks pos placed,
  well_tiled dbg be eh cies fdes pos placed chunks ->
  (length chunks <= length (concat (map snd chunks)))%nat.
Proof.
  induction chunks as [|[it cb] r IH]; intros pos placed Hwt; [cbn; lia|].
  rewrite concat_cons_snd, app_length. cbn [snd length].
  assert (Hcb : (1 <= length cb)%nat).
  { destruct it as [idx|k]; cbn [well_tiled] in Hwt; destruct Hwt as [Hthis _].
    - destruct Hthis as (c & _ & Hw). pose proof (cie_write_ok_asz _ _ _ _ _ _ Hw) as Ha.
      destruct (asz_cases_pow2 _ Ha) as [Hu Hp].
      destruct (cie_write_layout dbg be eh pos c cb Hu Hp Hw) as (il & hdr & insns & pad & -> & _ & Hl & _).
      rewrite app_length. unfold len in Hl. destruct (c_fmt64 c); cbn [ilen_size] in Hl; lia.
    - destruct Hthis as (idx & f & c & coff & _ & _ & _ & Hw). pose proof (fde_write_ok_asz _ _ _ _ _ _ _ _ Hw) as Ha.
      destruct (asz_cases_pow2 _ Ha) as [Hu Hp].
      destruct (fde_write_layout dbg be eh pos coff c f cb Hu Hp Hw) as (il & hdr & insns & pad & -> & _ & Hl & _).
      rewrite app_length. unfold len in Hl. destruct (c_fmt64 c); cbn [ilen_size] in Hl; lia. }
  destruct it; cbn [well_tiled] in Hwt; destruct Hwt as [_ Hrest]; specialize (IH _ _ Hrest); lia.
Qed.

Lemma in_fde_items l k : In k (fde_items l) -> In (CfaEncSpec.IFde k) l.
Proof.
  induction l as [|x r IH]; [intros []|]. destruct x; cbn [fde_items]; intros H.
  - right. apply IH. exact H.
  - destruct H as [->|H]; [left; reflexivity|right; apply IH; exact H].
Qed.
Lemma in_cie_items l i : In (CfaEncSpec.ICie i) l -> In i (cie_items l).
Proof.
  induction l as [|x r IH]; [intros []|]. intros [->|H]; [left; reflexivity|].
  destruct x; cbn [cie_items]; [right|]; apply IH; exact H.
Qed.

Lemma entries_read_by_reader_lem dbg dbg' be eh asz (t : ftable) bs :
  Forall (fun c => cie_wf c = true /\ c_asize c = asz) (t_cies t) ->
  Forall (fun p => fde_wf (snd p) = true) (t_fdes t) ->
  len bs + 16 < 4294967295 ->
  write_table dbg be eh 0 t = Ok bs ->
  exists chunks items,
    map fst chunks = plan [] 0 (map fst (t_fdes t)) /\
    bs = concat (map snd chunks) /\
    CfiRd.entries_all dbg' (rd_cfg eh be asz) bs = Ok (items, None) /\
    reader_sees dbg dbg' be eh asz (t_cies t) (t_fdes t) bs 0 [] chunks items.
Proof.
  intros HC HF Hsmall H.
  destruct (write_table_tiled dbg be eh 0 t bs H) as (chunks & Hplan & Hbs & Hwt).
  exists chunks.
  (* every referenced CIE has encodings the reader accepts *)
  assert (HU : forall idx c, In idx (map fst (t_fdes t)) -> nth_error (t_cies t) idx = Some c ->
             (forall e, c_lsda_enc c = Some e -> enc_usable e) /\
             (negb (c_fde_enc c =? 0) = true -> enc_usable (c_fde_enc c))).
  { intros idx c Hin Hn.
    apply in_map_iff in Hin. destruct Hin as ([idx' f] & Hfst & Hinf). cbn [fst] in Hfst. subst idx'.
    apply In_nth_error in Hinf. destruct Hinf as (k & Hk).
    assert (Hk' : In k (fde_items (plan [] 0 (map fst (t_fdes t))))).
    { rewrite plan_fdes. apply in_seq. rewrite map_length.
      assert (k < length (t_fdes t))%nat by (apply nth_error_Some; congruence). lia. }
    apply in_fde_items in Hk'. rewrite <- Hplan in Hk'. apply in_map_iff in Hk'.
    destruct Hk' as ([it b] & Hit & Hinb). cbn [fst] in Hit. subst it.
    destruct (well_tiled_fde_member dbg be eh _ _ chunks 0 [] k b Hwt ltac:(intros i o Hl; discriminate) Hinb)
      as (p & coff & idx2 & f2 & c2 & Hp1 & Hp2 & Hp3 & Hk2 & Hn2 & Hw).
    rewrite Hk in Hk2. injection Hk2 as <- <-. rewrite Hn in Hn2. injection Hn2 as <-.
    assert (Hcw : cie_wf c = true /\ c_asize c = asz).
    { rewrite Forall_forall in HC. apply HC. eapply nth_error_In. exact Hn. }
    destruct Hcw as [Hcw _].
    assert (Hfw : fde_wf f = true).
    { rewrite Forall_forall in HF. apply (HF (idx, f)). eapply nth_error_In. exact Hk. }
    rewrite <- Hbs in Hp2.
    destruct (fde_write_enc dbg be eh p coff c f b Hcw Hfw ltac:(lia) Hp3 Hw)
      as (_ & _ & _ & _ & _ & _ & _ & Hfenc & _ & Hlenc & _).
    pose proof Hcw as Hcw0. unfold cie_wf in Hcw. split_wf Hcw.
    rename W into Hinsns, W0 into Hfe, W1 into Hle.
    split.
    - intros e He. destruct (Hlenc e He) as (Happ & Hfv & _). rewrite He in Hle. apply is_u8_iff in Hle.
      split; [exact Hle|]. split; assumption.
    - intros Ef. destruct (Hfenc Ef) as (Happ & Hfv & _). apply is_u8_iff in Hfe. split; [exact Hfe|]. split; assumption. }
  assert (Hin : forall idx cb, In (CfaEncSpec.ICie idx, cb) chunks -> In idx (map fst (t_fdes t))).
  { intros idx cb Hi. destruct (plan_cies (map fst (t_fdes t)) [] 0) as [_ Hc].
    apply (Hc idx). rewrite <- Hplan. apply in_cie_items. apply in_map_iff. exists (CfaEncSpec.ICie idx, cb). auto. }
  destruct (tiles_read dbg dbg' be eh asz (t_cies t) (t_fdes t) bs HC HF HU Hsmall chunks [] [] (S (length bs)))
    as (items & Hloop & Hsees).
  - exact Hbs.
  - exact Hwt.
  - exact Hin.
  - intros idx o Hl. discriminate.
  - pose proof (well_tiled_nonempty _ _ _ _ _ _ _ _ Hwt). rewrite <- Hbs in *. lia.
  - exists items. split; [exact Hplan|]. split; [exact Hbs|]. split; [|exact Hsees].
    unfold CfiRd.entries_all. rewrite <- Hbs in Hloop. exact Hloop.
Qed.
