(* Proofs/ListsWrProofs.v — C16: written range / location lists read back as the same lists.
   Part 1: fixed-width and ULEB128 write->read lemmas; Part 2: DWARF 5 writers; Part 3: pre-v5 writers
   (rejects, ambiguity, decode/resolve); Part 4: tables (offsets, de-duplication); Part 5: unit base address;
   Part 6: panic freedom. *)
From Coq Require Import List NArith ZArith Bool Lia ZifyBool ZifyN ZifyNat.
From Coq.Strings Require Import Byte.
Require Import GV.Base.Res GV.Base.Byt GV.Base.Ints GV.Spec.LebSpec GV.Model.Leb GV.Model.Prim
  GV.Proofs.LebProofs GV.Spec.ListWrSpec GV.Model.ListsWr.
Import ListNotations.
Local Open Scope N_scope.
Local Arguments N.add : simpl never.
Local Arguments N.sub : simpl never.
Local Arguments N.mul : simpl never.
Local Arguments N.shiftl : simpl never.
Local Arguments N.shiftr : simpl never.
Local Arguments N.land : simpl never.
Local Arguments N.lor : simpl never.
Local Arguments N.pow : simpl never.
Local Arguments N.modulo : simpl never.
Local Arguments N.div : simpl never.
Local Arguments N.of_nat : simpl never.
Local Arguments N.to_nat : simpl never.
Local Ltac Zify.zify_post_hook ::= Z.div_mod_to_equations.

(* ================================================================ Part 1: primitive codecs *)

Lemma lw_take_app (a rest : list byte) : take (length a) (a ++ rest) = Some (a, rest).
Proof.
  induction a as [|x a IH]; cbn [length take app]; [reflexivity|]. now rewrite IH.
Qed.

Lemma lw_le_bytes_length n v : length (le_bytes n v) = n.
Proof. revert v; induction n as [|n IH]; intros v; cbn [le_bytes length]; [reflexivity|]. now rewrite IH. Qed.

Lemma lw_enc_un_length n be v : length (enc_un n be v) = n.
Proof. unfold enc_un, be_bytes. destruct be; [rewrite rev_length|]; apply lw_le_bytes_length. Qed.

Lemma lw_le_val_le_bytes n v : le_val (le_bytes n v) = v mod 256 ^ N.of_nat n.
Proof.
  revert v; induction n as [|n IH]; intros v; cbn [le_bytes le_val].
  - change (N.of_nat 0) with 0. change (256 ^ 0) with 1. now rewrite N.mod_1_r.
  - rewrite IH, b2n_n2b.
    replace (N.of_nat (S n)) with (N.of_nat n + 1) by lia.
    rewrite N.pow_add_r. change (256 ^ 1) with 256.
    rewrite (N.mul_comm (256 ^ N.of_nat n) 256).
    rewrite N.mod_mul_r by (try apply N.pow_nonzero; discriminate). reflexivity.
Qed.

Lemma lw_read_un_enc n be v rest :
  v < 256 ^ N.of_nat n -> read_un n be (enc_un n be v ++ rest) = Ok (v, rest).
Proof.
  intros Hv. unfold read_un, read_bytes.
  rewrite <- (lw_enc_un_length n be v) at 1. rewrite lw_take_app. cbn [bind].
  unfold enc_un, be_val, be_bytes. destruct be.
  - rewrite rev_involutive, lw_le_val_le_bytes, N.mod_small by exact Hv. reflexivity.
  - rewrite lw_le_val_le_bytes, N.mod_small by exact Hv. reflexivity.
Qed.

Definition size_ok (s : N) : Prop := s = 1 \/ s = 2 \/ s = 4 \/ s = 8.

Lemma lw_write_udata_ok be v size bs :
  write_udata be v size = Ok bs -> v < 2 ^ 64 ->
  size_ok size /\ v < amod size /\ bs = enc_un (N.to_nat size) be v.
Proof.
  unfold write_udata, size_ok, amod. intros H Hv.
  destruct (size =? 1) eqn:E1.
  { assert (size = 1) by lia; subst. destruct (v <? 256) eqn:E; [|discriminate].
    inversion H; subst. change (2 ^ (8 * 1)) with 256. repeat split; [lia|lia]. }
  destruct (size =? 2) eqn:E2.
  { assert (size = 2) by lia; subst. destruct (v <? two16) eqn:E; [|discriminate].
    inversion H; subst. change (2 ^ (8 * 2)) with 65536. unfold two16 in E. repeat split; [lia|lia]. }
  destruct (size =? 4) eqn:E4.
  { assert (size = 4) by lia; subst. destruct (v <? two32) eqn:E; [|discriminate].
    inversion H; subst. change (2 ^ (8 * 4)) with 4294967296. unfold two32 in E. repeat split; [lia|lia]. }
  destruct (size =? 8) eqn:E8; [|discriminate].
  assert (size = 8) by lia; subst. inversion H; subst.
  change (2 ^ (8 * 8)) with (2 ^ 64). repeat split; [lia|exact Hv].
Qed.

Lemma lw_write_udata_fits be v size :
  size_ok size -> v < amod size -> write_udata be v size = Ok (enc_un (N.to_nat size) be v).
Proof.
  unfold size_ok, amod, write_udata. intros [-> | [-> | [-> | ->]]] Hv; cbn [N.eqb Pos.eqb].
  - change (2 ^ (8 * 1)) with 256 in Hv. destruct (v <? 256) eqn:E; [reflexivity|lia].
  - change (2 ^ (8 * 2)) with 65536 in Hv. unfold two16. destruct (v <? 65536) eqn:E; [reflexivity|lia].
  - change (2 ^ (8 * 4)) with 4294967296 in Hv. unfold two32. destruct (v <? 4294967296) eqn:E; [reflexivity|lia].
  - reflexivity.
Qed.

Lemma lw_read_address_enc size be v rest :
  size_ok size -> v < amod size ->
  read_address size be (enc_un (N.to_nat size) be v ++ rest) = Ok (v, rest).
Proof.
  unfold size_ok, amod, read_address. intros [-> | [-> | [-> | ->]]] Hv; cbn [N.eqb Pos.eqb];
    apply lw_read_un_enc; exact Hv.
Qed.

Lemma lw_amod_le_64 size : size_ok size -> amod size <= 2 ^ 64.
Proof. unfold size_ok, amod. intros [-> | [-> | [-> | ->]]]; vm_compute; discriminate. Qed.

Lemma lw_mask_amod size : mask_of size = amod size - 1.
Proof. reflexivity. Qed.

(* ---- ULEB128: write then read ---- *)

Lemma lw_small_byte (x : N) : x < 128 ->
  cont_bit (n2b x) = false /\ N.land (b2n (n2b x)) 127 = x.
Proof.
  intros Hx. rewrite <- (N2Nat.id x). assert (Hn : (N.to_nat x < 128)%nat) by lia.
  revert Hn. generalize (N.to_nat x). intros n Hn.
  do 128 (destruct n as [|n]; [vm_compute; split; reflexivity|]). lia.
Qed.

Lemma lw_cont_byte (x : N) : x < 128 ->
  cont_bit (n2b (N.lor x CONT)) = true /\ N.land (b2n (n2b (N.lor x CONT))) 127 = x.
Proof.
  intros Hx. rewrite <- (N2Nat.id x). assert (Hn : (N.to_nat x < 128)%nat) by lia.
  revert Hn. generalize (N.to_nat x). intros n Hn.
  do 128 (destruct n as [|n]; [vm_compute; split; reflexivity|]). lia.
Qed.

Lemma lw_low7_land v : low7 (N.land v 255) = v mod 128.
Proof.
  unfold low7. rewrite <- N.land_assoc. change (N.land 255 127) with (N.ones 7).
  rewrite N.land_ones. reflexivity.
Qed.

Lemma lw_write_uleb_fuel fuel v bs rest :
  write_uleb_fuel fuel v = Ok bs ->
  split_leb (bs ++ rest) = Some (bs, rest) /\ uval bs = v /\ (1 <= length bs <= fuel)%nat.
Proof.
  revert v bs. induction fuel as [|f IH]; intros v bs; cbn [write_uleb_fuel]; [discriminate|].
  rewrite lw_low7_land, N.shiftr_div_pow2. change (2 ^ 7) with 128.
  assert (Hm : v mod 128 < 128) by lia.
  destruct (v / 128 =? 0) eqn:E.
  - intros H; inversion H; subst. destruct (lw_small_byte _ Hm) as [Hc Hl].
    cbn [app split_leb uval length]. rewrite Hc, Hl. repeat split; lia.
  - destruct (write_uleb_fuel f (v / 128)) as [r| | |] eqn:Hr; cbn [bind]; try discriminate.
    intros H; inversion H; subst.
    destruct (IH _ _ Hr) as [Hs [Hu Hlen]]. destruct (lw_cont_byte _ Hm) as [Hc Hl].
    cbn [app split_leb uval length]. rewrite Hc, Hs, Hl, Hu. repeat split; lia.
Qed.

Lemma lw_wuf_S f v :
  write_uleb_fuel (S f) v =
  if v / 128 =? 0 then Ok [n2b (v mod 128)]
  else let* rest := write_uleb_fuel f (v / 128) in Ok (n2b (N.lor (v mod 128) CONT) :: rest).
Proof.
  cbn [write_uleb_fuel]. rewrite lw_low7_land, N.shiftr_div_pow2. reflexivity.
Qed.

Lemma lw_write_uleb_total v : v < 2 ^ 64 -> exists bs, write_uleb128 v = Ok bs.
Proof.
  intros Hv. unfold write_uleb128.
  assert (G : forall fuel w, w < 2 ^ (7 * (N.of_nat fuel + 1)) -> exists bs, write_uleb_fuel (S fuel) w = Ok bs).
  { induction fuel as [|f IH]; intros w Hw; rewrite lw_wuf_S.
    - change (2 ^ (7 * (N.of_nat 0 + 1))) with 128 in Hw.
      destruct (w / 128 =? 0) eqn:E; [eexists; reflexivity|].
      assert (w / 128 = 0) by (apply N.div_small; exact Hw). lia.
    - destruct (w / 128 =? 0); [eexists; reflexivity|].
      destruct (IH (w / 128)) as [r Hr].
      { replace (7 * (N.of_nat (S f) + 1)) with (7 * (N.of_nat f + 1) + 7) in Hw by lia.
        rewrite N.pow_add_r in Hw. change (2 ^ 7) with 128 in Hw.
        apply N.div_lt_upper_bound; lia. }
      rewrite Hr. cbn [bind]. eexists; reflexivity. }
  apply (G 9%nat). change (7 * (N.of_nat 9 + 1)) with 70.
  apply N.lt_trans with (2 ^ 64); [exact Hv|]. vm_compute; reflexivity.
Qed.

Lemma lw_read_write_uleb dbg v bs rest :
  write_uleb128 v = Ok bs -> v < 2 ^ 64 -> read_uleb128 dbg (bs ++ rest) = Ok (v, rest).
Proof.
  intros H Hv. rewrite read_uleb128_exact. unfold uleb_spec, write_uleb128 in *.
  destruct (lw_write_uleb_fuel _ _ _ rest H) as [Hs [Hu Hl]].
  rewrite Hs, Hu.
  destruct ((length bs <=? 10)%nat && (v <? 2 ^ 64)) eqn:E; [reflexivity|lia].
Qed.

Lemma lw_write_uleb_nonempty v bs : write_uleb128 v = Ok bs -> (1 <= length bs)%nat.
Proof. intros H. destruct (lw_write_uleb_fuel _ _ _ [] H) as [_ [_ Hl]]. lia. Qed.

(* ================================================================ Part 2: DWARF 5 writers *)

Definition data_of (x : wloc) : list byte :=
  match x with
  | LBase _ => []
  | LOffsetPair _ _ d | LStartEnd _ _ d | LStartLength _ _ d | LDefault d => d
  end.

(* the input is a value of the Rust types; a range list carries no expression data *)
Definition wf (loc : bool) (x : wloc) : Prop :=
  wloc_wf x /\ N.of_nat (length (data_of x)) < 2 ^ 64 /\ (loc = false -> exists r, x = loc_of_range r).

Lemma lw_wf_range (r : wrange) : wloc_wf (loc_of_range r) -> wf false (loc_of_range r).
Proof. intros H. split; [exact H|]. split; [destruct r; vm_compute; reflexivity|]. intros _. eauto. Qed.

Lemma lw_wf_nodata loc x : wf loc x -> loc = false -> data_of x = [].
Proof. intros [_ [_ H]] Hl. destruct (H Hl) as [r ->]. destruct r; reflexivity. Qed.

Ltac bind_ok H :=
  match type of H with
  | bind ?r _ = Ok _ =>
      let E := fresh "E" in destruct r eqn:E; cbn [bind] in H; try discriminate H
  end.

Lemma lw_write_address_ok be a size bs :
  write_address be a size = Ok bs -> addr_wf a ->
  exists v, a = AConst v /\ size_ok size /\ v < amod size /\ bs = enc_un (N.to_nat size) be v.
Proof.
  destruct a as [v|s z]; cbn [write_address addr_wf]; [|discriminate].
  intros H Hv. destruct (lw_write_udata_ok _ _ _ _ H Hv) as [Hs [Hf Hb]]. eauto.
Qed.

Lemma lw_opt_data5 dbg loc be d x rest :
  opt_expression loc be 5 d = Ok x -> N.of_nat (length d) < 2 ^ 64 -> (loc = false -> d = []) ->
  dec_opt_data dbg loc true be (x ++ rest) = Ok (d, rest).
Proof.
  unfold opt_expression, dec_opt_data. destruct loc; intros H Hd Hn.
  - unfold write_expression in H. change (5 <=? 4) with false in H. cbv iota in H.
    bind_ok H. inversion H; subst. unfold dec_data.
    rewrite <- app_assoc. rewrite (lw_read_write_uleb dbg _ _ _ E Hd). cbn [bind].
    destruct (N.of_nat (length (d ++ rest)) <? N.of_nat (length d)) eqn:El.
    { rewrite app_length in El. lia. }
    unfold read_bytes. rewrite Nat2N.id, lw_take_app. reflexivity.
  - inversion H; subst. rewrite (Hn eq_refl). reflexivity.
Qed.

Lemma lw_b2n_n2b_kind k : k < 256 -> b2n (n2b k) = k.
Proof. apply b2n_n2b_small. Qed.

Lemma lw_entry5 dbg loc be asz x bs :
  write_entry_v5 loc be 5 asz x = Ok bs -> wf loc x ->
  exists k tail e, bs = n2b k :: tail /\ 1 <= k < 256 /\ ent_of x = Some e /\
    forall rest, dec5_entry dbg loc be asz k (tail ++ rest) = Ok (e, rest).
Proof.
  intros H Hw. pose proof (lw_wf_nodata _ _ Hw) as Hn. destruct Hw as [Hwf [Hd Hr]].
  destruct x as [a|b e d|b e d|b len d|d]; cbn [write_entry_v5] in H; cbn [wloc_wf data_of] in *.
  - (* base *)
    bind_ok H. inversion H; subst.
    destruct (lw_write_address_ok _ _ _ _ E Hwf) as [v [-> [Hs [Hv ->]]]].
    exists (kind_base loc), (enc_un (N.to_nat asz) be v), (EBase v).
    split; [reflexivity|]. split; [destruct loc; vm_compute; split; congruence|].
    split; [reflexivity|]. intros rest. unfold dec5_entry, kind_base.
    destruct loc; cbn [N.eqb Pos.eqb]; rewrite (lw_read_address_enc _ _ _ _ Hs Hv); reflexivity.
  - (* offset pair *)
    destruct Hwf as [Hb He]. bind_ok H. bind_ok H. bind_ok H. inversion H; subst.
    exists kind_offset_pair, (a ++ a0 ++ a1), (EOffsetPair b e d).
    split; [reflexivity|]. split; [vm_compute; split; congruence|]. split; [reflexivity|].
    intros rest. unfold dec5_entry, kind_offset_pair. cbn [N.eqb Pos.eqb].
    rewrite <- !app_assoc. rewrite (lw_read_write_uleb dbg _ _ _ E Hb). cbn [bind].
    rewrite (lw_read_write_uleb dbg _ _ _ E0 He). cbn [bind].
    rewrite (lw_opt_data5 dbg _ _ _ _ _ E1 Hd Hn). reflexivity.
  - (* start end *)
    destruct Hwf as [Hb He]. bind_ok H. bind_ok H. bind_ok H. inversion H; subst.
    destruct (lw_write_address_ok _ _ _ _ E Hb) as [vb [-> [Hs [Hvb ->]]]].
    destruct (lw_write_address_ok _ _ _ _ E0 He) as [ve [-> [_ [Hve ->]]]].
    exists (kind_start_end loc), (enc_un (N.to_nat asz) be vb ++ enc_un (N.to_nat asz) be ve ++ a1), (EStartEnd vb ve d).
    split; [reflexivity|]. split; [destruct loc; vm_compute; split; congruence|]. split; [reflexivity|].
    intros rest. unfold dec5_entry, kind_start_end.
    destruct loc; cbn [N.eqb Pos.eqb]; rewrite <- !app_assoc;
      rewrite (lw_read_address_enc _ _ _ _ Hs Hvb); cbn [bind];
      rewrite (lw_read_address_enc _ _ _ _ Hs Hve); cbn [bind];
      rewrite (lw_opt_data5 dbg _ _ _ _ _ E1 Hd Hn); reflexivity.
  - (* start length *)
    destruct Hwf as [Hb Hl]. bind_ok H. bind_ok H. bind_ok H. inversion H; subst.
    destruct (lw_write_address_ok _ _ _ _ E Hb) as [vb [-> [Hs [Hvb ->]]]].
    exists (kind_start_length loc), (enc_un (N.to_nat asz) be vb ++ a0 ++ a1), (EStartLength vb len d).
    split; [reflexivity|]. split; [destruct loc; vm_compute; split; congruence|]. split; [reflexivity|].
    intros rest. unfold dec5_entry, kind_start_length.
    destruct loc; cbn [N.eqb Pos.eqb]; rewrite <- !app_assoc;
      rewrite (lw_read_address_enc _ _ _ _ Hs Hvb); cbn [bind];
      rewrite (lw_read_write_uleb dbg _ _ _ E0 Hl); cbn [bind];
      rewrite (lw_opt_data5 dbg _ _ _ _ _ E1 Hd Hn); reflexivity.
  - (* default location: only in location lists *)
    bind_ok H. inversion H; subst.
    destruct loc.
    + exists kind_default, a, (EDefault d).
      split; [reflexivity|]. split; [vm_compute; split; congruence|]. split; [reflexivity|].
      intros rest. unfold dec5_entry, kind_default. cbn [N.eqb Pos.eqb andb].
      pose proof (lw_opt_data5 dbg true be d a rest E Hd Hn) as Hx. unfold dec_opt_data in Hx.
      rewrite Hx. reflexivity.
    + (* a range list has no such entry *)
      destruct (Hr eq_refl) as [r Hx]. destruct r; discriminate Hx.
Qed.

Lemma lw_pairs_ents_nil : ents_of [] = Some []. Proof. reflexivity. Qed.

Lemma lw_list5 dbg loc be asz l bs :
  write_list_v5 loc be 5 asz l = Ok bs -> Forall (wf loc) l ->
  exists es, ents_of l = Some es /\
    forall rest fuel, (length bs <= fuel)%nat ->
      dec5_fuel fuel dbg loc be asz (bs ++ rest) = Ok (es, rest).
Proof.
  revert bs. induction l as [|x r IH]; intros bs H Hwf; cbn [write_list_v5] in H.
  - inversion H; subst. exists []. split; [reflexivity|]. intros rest fuel Hf.
    destruct fuel as [|f]; [cbn [length] in Hf; lia|].
    cbn [dec5_fuel app read_u8 bind]. rewrite lw_b2n_n2b_kind by lia. reflexivity.
  - bind_ok H. bind_ok H. inversion H; subst.
    inversion Hwf as [|? ? Hx Hr]; subst.
    destruct (lw_entry5 dbg _ _ _ _ _ E Hx) as [k [tail [e [-> [Hk [He Hdec]]]]]].
    destruct (IH _ eq_refl Hr) as [es [Hes Hrest]].
    exists (e :: es). split; [cbn [ents_of]; rewrite He, Hes; reflexivity|].
    intros rest fuel Hf. destruct fuel as [|f]; [cbn [length app] in Hf; lia|].
    cbn [app length] in Hf. rewrite app_length in Hf.
    cbn [dec5_fuel app read_u8 bind]. rewrite lw_b2n_n2b_kind by lia.
    destruct (k =? 0) eqn:Ek; [lia|].
    rewrite <- app_assoc. rewrite Hdec. cbn [bind].
    rewrite Hrest by lia. reflexivity.
Qed.

Lemma lw_list5_dec dbg loc be asz l bs :
  write_list_v5 loc be 5 asz l = Ok bs -> Forall (wf loc) l ->
  exists es, ents_of l = Some es /\ forall rest, dec5 dbg loc be asz (bs ++ rest) = Ok (es, rest).
Proof.
  intros H Hwf. destruct (lw_list5 dbg _ _ _ _ _ H Hwf) as [es [He Hd]].
  exists es. split; [exact He|]. intros rest. unfold dec5. apply Hd. rewrite app_length. lia.
Qed.

(* ================================================================ Part 4 (used early): table layout *)

(* both table loops have this shape *)
Fixpoint tbl_gen (f : list wloc -> res (list byte)) (pos : N) (tbl : list (list wloc)) : res (list byte * list N) :=
  match tbl with
  | [] => Ok ([], [])
  | l :: r =>
      let* bs := f l in
      let* (rest, offs) := tbl_gen f (pos + N.of_nat (length bs)) r in
      Ok (bs ++ rest, pos :: offs)
  end.

Lemma lw_tbl_v4_gen dbg loc be version asz hb pos tbl :
  write_tbl_v4 dbg loc be version asz hb pos tbl = tbl_gen (write_list_v4 dbg loc be version asz hb) pos tbl.
Proof. revert pos; induction tbl as [|l r IH]; intros pos; cbn [write_tbl_v4 tbl_gen]; [reflexivity|].
  destruct (write_list_v4 dbg loc be version asz hb l); cbn [bind]; try reflexivity. now rewrite IH. Qed.

Lemma lw_lists_v5_gen loc be version asz pos tbl :
  write_lists_v5 loc be version asz pos tbl = tbl_gen (write_list_v5 loc be version asz) pos tbl.
Proof. revert pos; induction tbl as [|l r IH]; intros pos; cbn [write_lists_v5 tbl_gen]; [reflexivity|].
  destruct (write_list_v5 loc be version asz l); cbn [bind]; try reflexivity. now rewrite IH. Qed.

Fixpoint offsets_from (pos : N) (bss : list (list byte)) : list N :=
  match bss with
  | [] => []
  | b :: r => pos :: offsets_from (pos + N.of_nat (length b)) r
  end.

(* the table is emitted as one copy of every element, in table order, and the offsets are the running positions *)
Lemma lw_tbl_gen_char f : forall tbl pos body offs,
  tbl_gen f pos tbl = Ok (body, offs) ->
  exists bss, Forall2 (fun l bs => f l = Ok bs) tbl bss /\ body = concat bss /\ offs = offsets_from pos bss.
Proof.
  induction tbl as [|l r IH]; intros pos body offs H; cbn [tbl_gen] in H.
  - inversion H; subst. exists []. repeat split; constructor.
  - bind_ok H. bind_ok H. destruct a0 as [rest o]. inversion H; subst.
    destruct (IH _ _ _ E0) as [bss [HF [-> ->]]].
Show.
