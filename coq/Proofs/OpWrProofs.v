(* Proofs/OpWrProofs.v — lemmas about Model/OpWr.v (write::Expression) and Spec/OpEncSpec.v for C15. *)
From Coq Require Import List NArith ZArith Bool Lia ZifyBool ZifyN ZifyNat.
From Coq.Strings Require Import Byte.
Require Import GV.Base.Res GV.Base.Byt GV.Base.Ints GV.Spec.LebSpec GV.Model.Leb GV.Model.Prim.
Require Import GV.Spec.OpEncSpec GV.Model.OpWr.
Import ListNotations.
Local Open Scope N_scope.
Local Arguments N.add : simpl never.
Local Arguments N.sub : simpl never.
Local Arguments N.mul : simpl never.
Local Arguments N.shiftl : simpl never.
Local Arguments N.shiftr : simpl never.
Local Arguments N.land : simpl never.
Local Arguments N.lor : simpl never.
Local Arguments N.pow : simpl never.
Local Arguments N.modulo : simpl never.
Local Arguments N.div : simpl never.
Local Arguments Z.shiftr : simpl never.
Local Arguments Z.modulo : simpl never.
Local Arguments Z.add : simpl never.
Local Arguments Z.sub : simpl never.
Local Arguments N.of_nat : simpl never.

(* ================= induction over nested expressions ================= *)

Section WopInd.
  Variable P : wop -> Prop.
  Hypothesis Hleaf : forall o, (forall ex, o <> WoEntryValue ex) -> P o.
  Hypothesis Hnest : forall ex, Forall P ex -> P (WoEntryValue ex).

  Fixpoint wop_nested_ind (o : wop) : P o :=
    match o as o0 return P o0 with
    | WoEntryValue ex =>
        Hnest ex ((fix go (l : list wop) : Forall P l :=
                     match l with
                     | [] => Forall_nil P
                     | x :: r => Forall_cons x (wop_nested_ind x) (go r)
                     end) ex)
    | o' => Hleaf o' ltac:(intros ex H; discriminate H)
    end.
End WopInd.

(* ================= small facts ================= *)

Lemma blen_app a b : blen (a ++ b) = blen a + blen b.
Proof. unfold blen. rewrite app_length. lia. Qed.
Lemma blen_cons x a : blen (x :: a) = 1 + blen a.
Proof. unfold blen. cbn [length]. lia. Qed.
Lemma blen_nil : blen [] = 0.
Proof. reflexivity. Qed.

Lemma two64_val : 2 ^ 64 = 18446744073709551616. Proof. reflexivity. Qed.

Lemma uadd_ok dbg a b : a + b < 2 ^ 64 -> uadd dbg a b = Ok (a + b).
Proof. intros H. unfold uadd, chk_add. destruct (a + b <? 2 ^ 64) eqn:E; [reflexivity|lia]. Qed.

Lemma uadd_inv dbg a b c : uadd dbg a b = Ok c -> c = a + b \/ (dbg = false /\ 2 ^ 64 <= a + b /\ c = wrapN 64 (a + b)).
Proof.
  unfold uadd, chk_add. destruct (a + b <? 2 ^ 64) eqn:E.
  - intros H; inversion H; auto.
  - destruct dbg; [discriminate|]. intros H; inversion H. right. repeat split; lia.
Qed.

Lemma bind_ok_inv {A B} (r : res A) (f : A -> res B) b :
  bind r f = Ok b -> exists a, r = Ok a /\ f a = Ok b.
Proof. exact (bind_ok r f b). Qed.

(* ================= LEB128 writers: emitted length = predicted size ================= *)

Lemma write_uleb_fuel_len : forall f v bs, write_uleb_fuel f v = Ok bs -> blen bs = uleb_size_fuel f v.
Proof.
  induction f as [|f IH]; intros v bs H; cbn [write_uleb_fuel uleb_size_fuel] in *; [discriminate|].
  destruct (N.shiftr v 7 =? 0).
  - inversion H. reflexivity.
  - apply bind_ok_inv in H. destruct H as [r [Hr H]]. inversion H. rewrite blen_cons. rewrite (IH _ _ Hr). reflexivity.
Qed.

Lemma write_uleb128_len v bs : write_uleb128 v = Ok bs -> blen bs = uleb128_size v.
Proof. apply write_uleb_fuel_len. Qed.

Lemma write_sleb_fuel_len : forall f v bs, write_sleb_fuel f v = Ok bs -> blen bs = sleb_size_fuel f v.
Proof.
  induction f as [|f IH]; intros v bs H; cbn [write_sleb_fuel sleb_size_fuel] in *; [discriminate|].
  destruct ((Z.shiftr v 6 =? 0)%Z || (Z.shiftr v 6 =? -1)%Z).
  - inversion H. reflexivity.
  - apply bind_ok_inv in H. destruct H as [r [Hr H]]. inversion H. rewrite blen_cons. rewrite (IH _ _ Hr). reflexivity.
Qed.

Lemma write_sleb128_len v bs : write_sleb128 v = Ok bs -> blen bs = sleb128_size v.
Proof. apply write_sleb_fuel_len. Qed.

Lemma uleb_size_fuel_le : forall f v, uleb_size_fuel f v <= N.of_nat f.
Proof. induction f as [|f IH]; intros v; cbn [uleb_size_fuel]; [lia|]. destruct (N.shiftr v 7 =? 0); [lia|]. specialize (IH (N.shiftr v 7)). lia. Qed.
Lemma uleb128_size_le v : uleb128_size v <= 10.
Proof. unfold uleb128_size. pose proof (uleb_size_fuel_le 10 v). lia. Qed.
Lemma sleb_size_fuel_le : forall f v, sleb_size_fuel f v <= N.of_nat f.
Proof.
  induction f as [|f IH]; intros v; cbn [sleb_size_fuel]; [lia|].
  destruct ((Z.shiftr v 6 =? 0)%Z || (Z.shiftr v 6 =? -1)%Z); [lia|]. specialize (IH (Z.shiftr (Z.shiftr v 6) 1)). lia.
Qed.
Lemma sleb128_size_le v : sleb128_size v <= 10.
Proof. unfold sleb128_size. pose proof (sleb_size_fuel_le 10 v). lia. Qed.

(* ================= fixed-width writers ================= *)

Lemma le_bytes_len : forall n v, length (le_bytes n v) = n.
Proof. induction n; intros; cbn [le_bytes length]; auto. Qed.
Lemma enc_un_len n be v : length (enc_un n be v) = n.
Proof. unfold enc_un, be_bytes. destruct be; [rewrite rev_length|]; apply le_bytes_len. Qed.

Lemma write_udata_len be v size bs : write_udata be v size = Ok bs -> blen bs = size.
Proof.
  unfold write_udata, blen.
  repeat match goal with |- context [if ?c then _ else _] => destruct c eqn:? end;
    intros H; inversion H; rewrite enc_un_len; lia.
Qed.

Lemma write_sdata_len be v size bs : write_sdata be v size = Ok bs -> blen bs = size.
Proof.
  unfold write_sdata, blen.
  repeat match goal with |- context [if ?c then _ else _] => destruct c eqn:? end;
    intros H; inversion H; rewrite enc_un_len; lia.
Qed.

(* ================= Operation::size agrees with Operation::write ================= *)

Lemma entry_offset_base_size dbg uo b off :
  entry_offset dbg uo b = Ok off -> base_size dbg uo b = Ok (uleb128_size off).
Proof.
  unfold entry_offset, base_size. destruct uo as [offs|]; [|discriminate].
  destruct (unit_offset dbg offs b) as [[v|]| | |]; cbn [bind]; try discriminate.
  intros H; inversion H; reflexivity.
Qed.

Lemma write_ref_len be refs r size at_ b fx : write_ref be refs r size at_ = Ok (b, fx) -> blen b = size.
Proof.
  unfold write_ref. destruct r as [s|u en]; [discriminate|]. destruct refs; [|discriminate].
  intros H. apply bind_ok_inv in H. destruct H as [z [Hz H]]. inversion H; subst.
  eapply write_udata_len; eauto.
Qed.

Lemma write_address_len be a size bs : write_address be a size = Ok bs -> blen bs = size.
Proof. destruct a; cbn [write_address]; [apply write_udata_len|discriminate]. Qed.

Lemma branch_operand_len dbg be offsets t after bs : branch_operand dbg be offsets t after = Ok bs -> blen bs = 2.
Proof.
  unfold branch_operand. destruct (nth_N offsets t); [|discriminate].
  intros H. apply bind_ok_inv in H. destruct H as [b [_ H]].
  apply bind_ok_inv in H. destruct H as [d [_ H]]. eapply write_sdata_len; eauto.
Qed.

Ltac inv_all :=
  repeat match goal with
  | H : bind _ _ = Ok _ |- _ =>
      let a := fresh "a" in let Ha := fresh "Ha" in
      apply bind_ok_inv in H; destruct H as [a [Ha H]]
  | H : (let (_, _) := ?p in _) = Ok _ |- _ => destruct p
  | H : only _ = Ok _ |- _ => unfold only in H
  | H : Ok _ = Ok _ |- _ => inversion H; subst; clear H
  | H : (if ?c then _ else _) = Ok _ |- _ => destruct c eqn:?
  | H : match ?b with Some _ => _ | None => _ end = Ok _ |- _ => destruct b
  | H : Err _ = Ok _ |- _ => discriminate H
  | H : Panic = Ok _ |- _ => discriminate H
  end.

Ltac len_facts :=
  repeat match goal with
  | H : write_uleb128 _ = Ok _ |- _ => apply write_uleb128_len in H
  | H : write_sleb128 _ = Ok _ |- _ => apply write_sleb128_len in H
  | H : write_udata _ _ _ = Ok _ |- _ => apply write_udata_len in H
  | H : write_sdata _ _ _ = Ok _ |- _ => apply write_sdata_len in H
  | H : write_ref _ _ _ _ _ = Ok _ |- _ => apply write_ref_len in H
  | H : write_address _ _ _ = Ok _ |- _ => apply write_address_len in H
  | H : branch_operand _ _ _ _ _ = Ok _ |- _ => apply branch_operand_len in H
  end.

Lemma chk_add8_len dbg a b c : chk_add 8 dbg a b = Ok c -> True.
Proof. trivial. Qed.

Ltac solve_uadd :=
  repeat (rewrite uadd_ok by (rewrite ?two64_val in *; lia); cbn [bind]).

(* the non-nested operations *)
Lemma op_size_write_leaf dbg e uo refs offs pos o bs fx :
  (forall ex, o <> WoEntryValue ex) ->
  write_op dbg e uo refs offs pos o = Ok (bs, fx) ->
  blen bs < 2 ^ 64 ->
  size_op dbg e uo o = Ok (blen bs).
Proof.
  intros Hne H Hlt.
  destruct o; try (exfalso; eapply Hne; reflexivity); cbn [write_op] in H; cbn [size_op].
  all: inv_all.
  all: repeat match goal with Hx : entry_offset _ _ _ = Ok _ |- _ => rewrite (entry_offset_base_size _ _ _ _ Hx); clear Hx end.
  all: cbn [bind].
  all: len_facts.
  all: rewrite ?blen_cons, ?blen_app, ?blen_cons, ?blen_app, ?blen_cons, ?blen_nil in *.
  all: repeat match goal with |- context [if ?c then _ else _] => destruct c eqn:? end.
  all: cbn [bind].
  all: try solve [solve_uadd; f_equal; lia].
Qed.

(* unfolding equations of the three loops *)
Lemma sum_sizes_nil dbg szf acc : sum_sizes dbg szf acc [] = Ok acc.
Proof. reflexivity. Qed.
Lemma sum_sizes_cons dbg szf acc o r :
  sum_sizes dbg szf acc (o :: r) = (let* s := szf o in let* acc' := uadd dbg acc s in sum_sizes dbg szf acc' r).
Proof. reflexivity. Qed.
Lemma calc_offsets_nil dbg szf off : calc_offsets dbg szf off [] = Ok ([], off).
Proof. reflexivity. Qed.
Lemma calc_offsets_cons dbg szf off o r :
  calc_offsets dbg szf off (o :: r) =
  (let* s := szf o in let* off' := uadd dbg off s in
   let* (t, fin) := calc_offsets dbg szf off' r in Ok (off :: t, fin)).
Proof. reflexivity. Qed.
Lemma write_loop_nil dbg wr pos offs : write_loop dbg wr pos [] offs = Ok ([], []).
Proof. reflexivity. Qed.
Lemma write_loop_cons dbg wr pos o r offs :
  write_loop dbg wr pos (o :: r) offs =
  match offs with
  | [] => Panic
  | off :: offs' =>
      if dbg && negb (pos =? off) then Panic else
      let* (bs, fx) := wr pos o in
      let* (bs', fx') := write_loop dbg wr (pos + blen bs) r offs' in
      Ok (bs ++ bs', fx ++ fx')
  end.
Proof. reflexivity. Qed.

(* if every operation's size is its emitted length, the sum of sizes is the emitted length of the loop *)
Lemma write_loop_sizes dbg (wr : N -> wop -> wres) (szf : wop -> res N) :
  forall ex pos offs bs fx,
  Forall (fun o => forall pos bs fx, wr pos o = Ok (bs, fx) -> blen bs < 2 ^ 64 -> szf o = Ok (blen bs)) ex ->
  write_loop dbg wr pos ex offs = Ok (bs, fx) ->
  forall acc, acc + blen bs < 2 ^ 64 ->
  sum_sizes dbg szf acc ex = Ok (acc + blen bs).
Proof.
  induction ex as [|o r IH]; intros pos offs bs fx HF H acc Hacc.
  - rewrite write_loop_nil in H. inversion H; subst. rewrite sum_sizes_nil, blen_nil. f_equal. lia.
  - rewrite write_loop_cons in H. destruct offs as [|off offs']; [discriminate|].
    destruct (dbg && negb (pos =? off)); [discriminate|].
    apply bind_ok_inv in H. destruct H as [[b1 f1] [H1 H]].
    apply bind_ok_inv in H. destruct H as [[b2 f2] [H2 H]]. inversion H; subst. clear H.
    rewrite blen_app in Hacc.
    inversion HF as [|? ? Ho Hr]; subst.
    rewrite sum_sizes_cons. rewrite (Ho _ _ _ H1) by lia. cbn [bind].
    rewrite uadd_ok by lia. cbn [bind].
    rewrite (IH _ _ _ _ Hr H2) by lia. f_equal. rewrite blen_app. lia.
Qed.

Lemma write_expr_with_sizes dbg (wr : list N -> N -> wop -> wres) (szf : wop -> res N) base ex bs fx :
  Forall (fun o => forall offs pos bs fx, wr offs pos o = Ok (bs, fx) -> blen bs < 2 ^ 64 -> szf o = Ok (blen bs)) ex ->
  write_expr_with wr szf dbg base ex = Ok (bs, fx) ->
  blen bs < 2 ^ 64 ->
  sum_sizes dbg szf 0 ex = Ok (blen bs).
Proof.
  intros HF H Hlt. unfold write_expr_with in H.
  apply bind_ok_inv in H. destruct H as [[offs fin] [_ H]].
  apply bind_ok_inv in H. destruct H as [[b f] [H2 H]].
  destruct (dbg && negb (base + blen b =? fin)); [discriminate|]. inversion H; subst. clear H.
  replace (blen bs) with (0 + blen bs) by lia.
  eapply write_loop_sizes; [|exact H2|lia].
  eapply Forall_impl; [|exact HF]. intros o Ho pos b1 f1. apply Ho.
Qed.

(* (1) the two parallel switches agree, for every Operation variant *)
Theorem op_size_write_all dbg e uo refs : forall o offs pos bs fx,
  write_op dbg e uo refs offs pos o = Ok (bs, fx) ->
  blen bs < 2 ^ 64 ->
  size_op dbg e uo o = Ok (blen bs).
Proof.
  induction o as [o Hleaf|ex IH] using wop_nested_ind; intros offs pos bs fx H Hlt.
  - eapply op_size_write_leaf; eauto.
  - cbn [write_op] in H.
    apply bind_ok_inv in H. destruct H as [len [Hlen H]].
    apply bind_ok_inv in H. destruct H as [lb [Hlb H]].
    apply bind_ok_inv in H. destruct H as [[b f] [Hw H]]. inversion H; subst. clear H.
    rewrite blen_cons, blen_app in Hlt.
    assert (Hsz : sum_sizes dbg (size_op dbg e uo) 0 ex = Ok (blen b)).
    { eapply write_expr_with_sizes; [|exact Hw|lia].
      eapply Forall_impl; [|exact IH]. intros o Ho offs' pos' b1 f1. apply Ho. }
    rewrite Hsz in Hlen. inversion Hlen; subst len.
    apply write_uleb128_len in Hlb.
    cbn [size_op]. rewrite Hsz. cbn [bind].
    rewrite uadd_ok by lia. cbn [bind]. rewrite uadd_ok by lia.
    f_equal. rewrite blen_cons, blen_app. lia.
Qed.

(* (2) Expression::size = number of bytes Expression::write emits *)
Theorem expr_size_write dbg e uo refs base ex bs fx :
  write_expr dbg e uo refs base ex = Ok (bs, fx) ->
  blen bs < 2 ^ 64 ->
  size_expr dbg e uo ex = Ok (blen bs).
Proof.
  intros H Hlt. unfold size_expr. eapply write_expr_with_sizes; [|exact H|exact Hlt].
  apply Forall_forall. intros o _ offs pos b f. apply op_size_write_all.
Qed.
