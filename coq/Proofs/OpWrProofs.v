(* Proofs/OpWrProofs.v — lemmas about Model/OpWr.v (write::Expression) and Spec/OpEncSpec.v for C15. *)
From Coq Require Import List NArith ZArith Bool Lia ZifyBool ZifyN ZifyNat.
From Coq.Strings Require Import Byte.
Require Import GV.Base.Res GV.Base.Byt GV.Base.Ints GV.Spec.LebSpec GV.Model.Leb GV.Model.Prim.
Require Import GV.Spec.OpEncSpec GV.Model.OpWr GV.Proofs.LebProofs.
Import ListNotations.
Local Open Scope N_scope.
Local Arguments N.add : simpl never.
Local Arguments N.sub : simpl never.
Local Arguments N.mul : simpl never.
Local Arguments N.shiftl : simpl never.
Local Arguments N.shiftr : simpl never.
Local Arguments N.land : simpl never.
Local Arguments N.lor : simpl never.
Local Arguments N.pow : simpl never.
Local Arguments N.modulo : simpl never.
Local Arguments N.div : simpl never.
Local Arguments Z.shiftr : simpl never.
Local Arguments Z.modulo : simpl never.
Local Arguments Z.add : simpl never.
Local Arguments Z.sub : simpl never.
Local Arguments N.of_nat : simpl never.

(* ================= induction over nested expressions ================= *)

Section WopInd.
  Variable P : wop -> Prop.
  Hypothesis Hleaf : forall o, (forall ex, o <> WoEntryValue ex) -> P o.
  Hypothesis Hnest : forall ex, Forall P ex -> P (WoEntryValue ex).

  Fixpoint wop_nested_ind (o : wop) : P o :=
    match o as o0 return P o0 with
    | WoEntryValue ex =>
        Hnest ex ((fix go (l : list wop) : Forall P l :=
                     match l with
                     | [] => Forall_nil P
                     | x :: r => Forall_cons x (wop_nested_ind x) (go r)
                     end) ex)
    | o' => Hleaf o' ltac:(intros ex H; discriminate H)
    end.
End WopInd.

(* ================= small facts ================= *)

Lemma blen_app a b : blen (a ++ b) = blen a + blen b.
Proof. unfold blen. rewrite app_length. lia. Qed.
Lemma blen_cons x a : blen (x :: a) = 1 + blen a.
Proof. unfold blen. cbn [length]. lia. Qed.
Lemma blen_nil : blen [] = 0.
Proof. reflexivity. Qed.

Lemma two64_val : 2 ^ 64 = 18446744073709551616. Proof. reflexivity. Qed.

Lemma uadd_ok dbg a b : a + b < 2 ^ 64 -> uadd dbg a b = Ok (a + b).
Proof. intros H. unfold uadd, chk_add. destruct (a + b <? 2 ^ 64) eqn:E; [reflexivity|lia]. Qed.

Lemma uadd_inv dbg a b c : uadd dbg a b = Ok c -> c = a + b \/ (dbg = false /\ 2 ^ 64 <= a + b /\ c = wrapN 64 (a + b)).
Proof.
  unfold uadd, chk_add. destruct (a + b <? 2 ^ 64) eqn:E.
  - intros H; inversion H; auto.
  - destruct dbg; [discriminate|]. intros H; inversion H. right. repeat split; lia.
Qed.

Lemma bind_ok_inv {A B} (r : res A) (f : A -> res B) b :
  bind r f = Ok b -> exists a, r = Ok a /\ f a = Ok b.
Proof. exact (bind_ok r f b). Qed.

(* ================= LEB128 writers: emitted length = predicted size ================= *)

Lemma write_uleb_fuel_len : forall f v bs, write_uleb_fuel f v = Ok bs -> blen bs = uleb_size_fuel f v.
Proof.
  induction f as [|f IH]; intros v bs H; cbn [write_uleb_fuel uleb_size_fuel] in *; [discriminate|].
  destruct (N.shiftr v 7 =? 0).
  - inversion H. reflexivity.
  - apply bind_ok_inv in H. destruct H as [r [Hr H]]. inversion H. rewrite blen_cons. rewrite (IH _ _ Hr). reflexivity.
Qed.

Lemma write_uleb128_len v bs : write_uleb128 v = Ok bs -> blen bs = uleb128_size v.
Proof. apply write_uleb_fuel_len. Qed.

Lemma write_sleb_fuel_len : forall f v bs, write_sleb_fuel f v = Ok bs -> blen bs = sleb_size_fuel f v.
Proof.
  induction f as [|f IH]; intros v bs H; cbn [write_sleb_fuel sleb_size_fuel] in *; [discriminate|].
  destruct ((Z.shiftr v 6 =? 0)%Z || (Z.shiftr v 6 =? -1)%Z).
  - inversion H. reflexivity.
  - apply bind_ok_inv in H. destruct H as [r [Hr H]]. inversion H. rewrite blen_cons. rewrite (IH _ _ Hr). reflexivity.
Qed.

Lemma write_sleb128_len v bs : write_sleb128 v = Ok bs -> blen bs = sleb128_size v.
Proof. apply write_sleb_fuel_len. Qed.

Lemma uleb_size_fuel_le : forall f v, uleb_size_fuel f v <= N.of_nat f.
Proof. induction f as [|f IH]; intros v; cbn [uleb_size_fuel]; [lia|]. destruct (N.shiftr v 7 =? 0); [lia|]. specialize (IH (N.shiftr v 7)). lia. Qed.
Lemma uleb128_size_le v : uleb128_size v <= 10.
Proof. unfold uleb128_size. pose proof (uleb_size_fuel_le 10 v). lia. Qed.
Lemma sleb_size_fuel_le : forall f v, sleb_size_fuel f v <= N.of_nat f.
Proof.
  induction f as [|f IH]; intros v; cbn [sleb_size_fuel]; [lia|].
  destruct ((Z.shiftr v 6 =? 0)%Z || (Z.shiftr v 6 =? -1)%Z); [lia|]. specialize (IH (Z.shiftr (Z.shiftr v 6) 1)). lia.
Qed.
Lemma sleb128_size_le v : sleb128_size v <= 10.
Proof. unfold sleb128_size. pose proof (sleb_size_fuel_le 10 v). lia. Qed.

(* ================= fixed-width writers ================= *)

Lemma le_bytes_len : forall n v, length (le_bytes n v) = n.
Proof. induction n; intros; cbn [le_bytes length]; auto. Qed.
Lemma enc_un_len n be v : length (enc_un n be v) = n.
Proof. unfold enc_un, be_bytes. destruct be; [rewrite rev_length|]; apply le_bytes_len. Qed.

Lemma write_udata_len be v size bs : write_udata be v size = Ok bs -> blen bs = size.
Proof.
  unfold write_udata, blen.
  repeat match goal with |- context [if ?c then _ else _] => destruct c eqn:? end;
    intros H; inversion H; rewrite enc_un_len; lia.
Qed.

Lemma write_sdata_len be v size bs : write_sdata be v size = Ok bs -> blen bs = size.
Proof.
  unfold write_sdata, blen.
  repeat match goal with |- context [if ?c then _ else _] => destruct c eqn:? end;
    intros H; inversion H; rewrite enc_un_len; lia.
Qed.

(* ================= Operation::size agrees with Operation::write ================= *)

Lemma entry_offset_base_size dbg uo b off :
  entry_offset dbg uo b = Ok off -> base_size dbg uo b = Ok (uleb128_size off).
Proof.
  unfold entry_offset, base_size. destruct uo as [offs|]; [|discriminate].
  destruct (unit_offset dbg offs b) as [[v|]| | |]; cbn [bind]; try discriminate.
  intros H; inversion H; reflexivity.
Qed.

Lemma write_ref_len be refs r size at_ b fx : write_ref be refs r size at_ = Ok (b, fx) -> blen b = size.
Proof.
  unfold write_ref. destruct r as [s|u en]; [discriminate|]. destruct refs; [|discriminate].
  intros H. apply bind_ok_inv in H. destruct H as [z [Hz H]]. inversion H; subst.
  eapply write_udata_len; eauto.
Qed.

Lemma write_address_len be a size bs : write_address be a size = Ok bs -> blen bs = size.
Proof. destruct a; cbn [write_address]; [apply write_udata_len|discriminate]. Qed.

Lemma branch_operand_len dbg be offsets t after bs : branch_operand dbg be offsets t after = Ok bs -> blen bs = 2.
Proof.
  unfold branch_operand. destruct (nth_N offsets t); [|discriminate].
  intros H. apply bind_ok_inv in H. destruct H as [b [_ H]].
  apply bind_ok_inv in H. destruct H as [d [_ H]]. eapply write_sdata_len; eauto.
Qed.

Ltac inv_all :=
  repeat match goal with
  | H : bind _ _ = Ok _ |- _ =>
      let a := fresh "a" in let Ha := fresh "Ha" in
      apply bind_ok_inv in H; destruct H as [a [Ha H]]
  | H : (let (_, _) := ?p in _) = Ok _ |- _ => destruct p
  | H : only _ = Ok _ |- _ => unfold only in H
  | H : Ok _ = Ok _ |- _ => inversion H; subst; clear H
  | H : (if ?c then _ else _) = Ok _ |- _ => destruct c eqn:?
  | H : match ?b with Some _ => _ | None => _ end = Ok _ |- _ => destruct b
  | H : Err _ = Ok _ |- _ => discriminate H
  | H : Panic = Ok _ |- _ => discriminate H
  end.

Ltac len_facts :=
  repeat match goal with
  | H : write_uleb128 _ = Ok _ |- _ => apply write_uleb128_len in H
  | H : write_sleb128 _ = Ok _ |- _ => apply write_sleb128_len in H
  | H : write_udata _ _ _ = Ok _ |- _ => apply write_udata_len in H
  | H : write_sdata _ _ _ = Ok _ |- _ => apply write_sdata_len in H
  | H : write_ref _ _ _ _ _ = Ok _ |- _ => apply write_ref_len in H
  | H : write_address _ _ _ = Ok _ |- _ => apply write_address_len in H
  | H : branch_operand _ _ _ _ _ = Ok _ |- _ => apply branch_operand_len in H
  end.

Lemma chk_add8_len dbg a b c : chk_add 8 dbg a b = Ok c -> True.
Proof. trivial. Qed.

Ltac solve_uadd :=
  repeat (rewrite uadd_ok by (rewrite ?two64_val in *; lia); cbn [bind]).

(* the non-nested operations *)
Lemma op_size_write_leaf dbg e uo refs offs pos o bs fx :
  (forall ex, o <> WoEntryValue ex) ->
  write_op dbg e uo refs offs pos o = Ok (bs, fx) ->
  blen bs < 2 ^ 64 ->
  size_op dbg e uo o = Ok (blen bs).
Proof.
  intros Hne H Hlt.
  destruct o; try (exfalso; eapply Hne; reflexivity); cbn [write_op] in H; cbn [size_op].
  all: inv_all.
  all: repeat match goal with Hx : entry_offset _ _ _ = Ok _ |- _ => rewrite (entry_offset_base_size _ _ _ _ Hx); clear Hx end.
  all: cbn [bind].
  all: len_facts.
  all: rewrite ?blen_cons, ?blen_app, ?blen_cons, ?blen_app, ?blen_cons, ?blen_nil in *.
  all: repeat match goal with |- context [if ?c then _ else _] => destruct c eqn:? end.
  all: cbn [bind].
  all: try solve [solve_uadd; f_equal; lia].
Qed.

(* unfolding equations of the three loops *)
Lemma sum_sizes_nil dbg szf acc : sum_sizes dbg szf acc [] = Ok acc.
Proof. reflexivity. Qed.
Lemma sum_sizes_cons dbg szf acc o r :
  sum_sizes dbg szf acc (o :: r) = (let* s := szf o in let* acc' := uadd dbg acc s in sum_sizes dbg szf acc' r).
Proof. reflexivity. Qed.
Lemma calc_offsets_nil dbg szf off : calc_offsets dbg szf off [] = Ok ([], off).
Proof. reflexivity. Qed.
Lemma calc_offsets_cons dbg szf off o r :
  calc_offsets dbg szf off (o :: r) =
  (let* s := szf o in let* off' := uadd dbg off s in
   let* (t, fin) := calc_offsets dbg szf off' r in Ok (off :: t, fin)).
Proof. reflexivity. Qed.
Lemma write_loop_nil dbg wr pos offs : write_loop dbg wr pos [] offs = Ok ([], []).
Proof. reflexivity. Qed.
Lemma write_loop_cons dbg wr pos o r offs :
  write_loop dbg wr pos (o :: r) offs =
  match offs with
  | [] => Panic
  | off :: offs' =>
      if dbg && negb (pos =? off) then Panic else
      let* (bs, fx) := wr pos o in
      let* (bs', fx') := write_loop dbg wr (pos + blen bs) r offs' in
      Ok (bs ++ bs', fx ++ fx')
  end.
Proof. reflexivity. Qed.

(* if every operation's size is its emitted length, the sum of sizes is the emitted length of the loop *)
Lemma write_loop_sizes dbg (wr : N -> wop -> wres) (szf : wop -> res N) :
  forall ex pos offs bs fx,
  Forall (fun o => forall pos bs fx, wr pos o = Ok (bs, fx) -> blen bs < 2 ^ 64 -> szf o = Ok (blen bs)) ex ->
  write_loop dbg wr pos ex offs = Ok (bs, fx) ->
  forall acc, acc + blen bs < 2 ^ 64 ->
  sum_sizes dbg szf acc ex = Ok (acc + blen bs).
Proof.
  induction ex as [|o r IH]; intros pos offs bs fx HF H acc Hacc.
  - rewrite write_loop_nil in H. inversion H; subst. rewrite sum_sizes_nil, blen_nil. f_equal. lia.
  - rewrite write_loop_cons in H. destruct offs as [|off offs']; [discriminate|].
    destruct (dbg && negb (pos =? off)); [discriminate|].
    apply bind_ok_inv in H. destruct H as [[b1 f1] [H1 H]].
    apply bind_ok_inv in H. destruct H as [[b2 f2] [H2 H]]. inversion H; subst. clear H.
    rewrite blen_app in Hacc.
    inversion HF as [|? ? Ho Hr]; subst.
    rewrite sum_sizes_cons. rewrite (Ho _ _ _ H1) by lia. cbn [bind].
    rewrite uadd_ok by lia. cbn [bind].
    rewrite (IH _ _ _ _ Hr H2) by lia. f_equal. rewrite blen_app. lia.
Qed.

Lemma write_expr_with_sizes dbg (wr : list N -> N -> wop -> wres) (szf : wop -> res N) base ex bs fx :
  Forall (fun o => forall offs pos bs fx, wr offs pos o = Ok (bs, fx) -> blen bs < 2 ^ 64 -> szf o = Ok (blen bs)) ex ->
  write_expr_with wr szf dbg base ex = Ok (bs, fx) ->
  blen bs < 2 ^ 64 ->
  sum_sizes dbg szf 0 ex = Ok (blen bs).
Proof.
  intros HF H Hlt. unfold write_expr_with in H.
  apply bind_ok_inv in H. destruct H as [[offs fin] [_ H]].
  apply bind_ok_inv in H. destruct H as [[b f] [H2 H]].
  destruct (dbg && negb (base + blen b =? fin)); [discriminate|]. inversion H; subst. clear H.
  replace (blen bs) with (0 + blen bs) by lia.
  eapply write_loop_sizes; [|exact H2|lia].
  eapply Forall_impl; [|exact HF]. intros o Ho pos b1 f1. apply Ho.
Qed.

(* (1) the two parallel switches agree, for every Operation variant *)
Theorem op_size_write_all dbg e uo refs : forall o offs pos bs fx,
  write_op dbg e uo refs offs pos o = Ok (bs, fx) ->
  blen bs < 2 ^ 64 ->
  size_op dbg e uo o = Ok (blen bs).
Proof.
  induction o as [o Hleaf|ex IH] using wop_nested_ind; intros offs pos bs fx H Hlt.
  - eapply op_size_write_leaf; eauto.
  - cbn [write_op] in H.
    apply bind_ok_inv in H. destruct H as [len [Hlen H]].
    apply bind_ok_inv in H. destruct H as [lb [Hlb H]].
    apply bind_ok_inv in H. destruct H as [[b f] [Hw H]]. inversion H; subst. clear H.
    rewrite blen_cons, blen_app in Hlt.
    assert (Hsz : sum_sizes dbg (size_op dbg e uo) 0 ex = Ok (blen b)).
    { eapply write_expr_with_sizes; [|exact Hw|lia].
      eapply Forall_impl; [|exact IH]. intros o Ho offs' pos' b1 f1. apply Ho. }
    rewrite Hsz in Hlen. inversion Hlen; subst len.
    apply write_uleb128_len in Hlb.
    cbn [size_op]. rewrite Hsz. cbn [bind].
    rewrite uadd_ok by lia. cbn [bind]. rewrite uadd_ok by lia.
    f_equal. rewrite blen_cons, blen_app. lia.
Qed.

(* (2) Expression::size = number of bytes Expression::write emits *)
Theorem expr_size_write dbg e uo refs base ex bs fx :
  write_expr dbg e uo refs base ex = Ok (bs, fx) ->
  blen bs < 2 ^ 64 ->
  size_expr dbg e uo ex = Ok (blen bs).
Proof.
  intros H Hlt. unfold size_expr. eapply write_expr_with_sizes; [|exact H|exact Hlt].
  apply Forall_forall. intros o _ offs pos b f. apply op_size_write_all.
Qed.

(* ================= layout: the offsets vector is the list of real start positions ================= *)

(* `laid wr pos ex offsets bs fx`: the operations of ex were written one after the other starting at pos;
   offsets lists the position at which each one started, then the end position. *)
Inductive laid (wr : N -> wop -> wres) : N -> list wop -> list N -> list byte -> list fixup -> Prop :=
| laid_nil pos : laid wr pos [] [pos] [] []
| laid_cons pos o r offs b f bs fx :
    wr pos o = Ok (b, f) ->
    laid wr (pos + blen b) r offs bs fx ->
    laid wr pos (o :: r) (pos :: offs) (b ++ bs) (f ++ fx).

Lemma calc_write_laid dbg (wr : N -> wop -> wres) (szf : wop -> res N) :
  forall ex pos offs fin bs fx,
  Forall (fun o => forall pos b f, wr pos o = Ok (b, f) -> blen b < 2 ^ 64 -> szf o = Ok (blen b)) ex ->
  calc_offsets dbg szf pos ex = Ok (offs, fin) ->
  write_loop dbg wr pos ex (offs ++ [fin]) = Ok (bs, fx) ->
  pos + blen bs < 2 ^ 64 ->
  laid wr pos ex (offs ++ [fin]) bs fx /\ fin = pos + blen bs.
Proof.
  induction ex as [|o r IH]; intros pos offs fin bs fx HF Hc Hw Hlt.
  - rewrite calc_offsets_nil in Hc. inversion Hc; subst. rewrite write_loop_nil in Hw. inversion Hw; subst.
    split; [constructor|rewrite blen_nil; lia].
  - rewrite calc_offsets_cons in Hc.
    apply bind_ok_inv in Hc. destruct Hc as [s [Hs Hc]].
    apply bind_ok_inv in Hc. destruct Hc as [off' [Hoff Hc]].
    apply bind_ok_inv in Hc. destruct Hc as [[t fin'] [Ht Hc]]. inversion Hc; subst. clear Hc.
    cbn [app] in Hw. rewrite write_loop_cons in Hw.
    destruct (dbg && negb (pos =? pos)); [discriminate|].
    apply bind_ok_inv in Hw. destruct Hw as [[b1 f1] [H1 Hw]].
    apply bind_ok_inv in Hw. destruct Hw as [[b2 f2] [H2 Hw]]. inversion Hw; subst. clear Hw.
    rewrite blen_app in Hlt.
    inversion HF as [|? ? Ho Hr]; subst.
    rewrite (Ho _ _ _ H1) in Hs by lia. inversion Hs; subst s.
    rewrite uadd_ok in Hoff by lia. inversion Hoff; subst off'.
    destruct (IH _ _ _ _ _ Hr Ht H2) as [Hl Hf]; [lia|].
    split; [|rewrite blen_app; lia].
    cbn [app]. econstructor; eauto.
Qed.

Theorem write_expr_laid dbg e uo refs base ex bs fx :
  write_expr dbg e uo refs base ex = Ok (bs, fx) ->
  base + blen bs < 2 ^ 64 ->
  exists offsets,
    expr_offsets dbg e uo base ex = Ok offsets /\
    laid (write_op dbg e uo refs offsets) base ex offsets bs fx.
Proof.
  intros H Hlt. unfold write_expr, write_expr_with in H.
  apply bind_ok_inv in H. destruct H as [[offs fin] [Hc H]].
  apply bind_ok_inv in H. destruct H as [[b f] [Hw H]].
  destruct (dbg && negb (base + blen b =? fin)); [discriminate|]. inversion H; subst. clear H.
  exists (offs ++ [fin]). split.
  - unfold expr_offsets. rewrite Hc. reflexivity.
  - eapply calc_write_laid; eauto.
    apply Forall_forall. intros o _ pos b1 f1 H1 Hb. eapply op_size_write_all; eauto.
Qed.

(* facts about a layout *)
Lemma laid_length wr pos ex offs bs fx : laid wr pos ex offs bs fx -> length offs = S (length ex).
Proof. induction 1; cbn [length]; auto. Qed.

Lemma laid_end wr pos ex offs bs fx : laid wr pos ex offs bs fx -> last offs 0 = pos + blen bs.
Proof.
  induction 1.
  - cbn. rewrite blen_nil. lia.
  - assert (Hne : offs <> []) by (apply laid_length in H0; destruct offs; [discriminate|congruence]).
    destruct offs as [|x xs]; [congruence|]. cbn [last] in *. rewrite IHlaid, blen_app. lia.
Qed.

(* the k-th operation: where it starts, what it emitted, and that the first k operations emitted exactly the
   bytes before it *)
Lemma laid_split wr : forall ex pos offs bs fx, laid wr pos ex offs bs fx ->
  forall k, (k <= length ex)%nat ->
  exists pre post fpre fpost,
    bs = pre ++ post /\ fx = fpre ++ fpost /\
    nth_error offs k = Some (pos + blen pre) /\
    laid wr pos (firstn k ex) (firstn k offs ++ [pos + blen pre]) pre fpre /\
    laid wr (pos + blen pre) (skipn k ex) (skipn k offs) post fpost.
Proof.
  induction 1 as [pos|pos o r offs b f bs fx Ho Hl IH]; intros k Hk.
  - cbn [length] in Hk. assert (k = 0)%nat by lia. subst k.
    exists [], [], [], []. cbn [firstn skipn app nth_error]. rewrite blen_nil, N.add_0_r.
    split; [reflexivity|]. split; [reflexivity|]. split; [reflexivity|]. split; constructor.
  - destruct k as [|k].
    + exists [], (b ++ bs), [], (f ++ fx). cbn [firstn skipn app nth_error]. rewrite blen_nil, N.add_0_r.
      split; [reflexivity|]. split; [reflexivity|]. split; [reflexivity|].
      split; [constructor|econstructor; eauto].
    + cbn [length] in Hk. destruct (IH k) as [pre [post [fpre [fpost [E1 [E2 [E3 [E4 E5]]]]]]]]; [lia|].
      exists (b ++ pre), post, (f ++ fpre), fpost.
      cbn [firstn skipn nth_error]. rewrite blen_app, N.add_assoc.
      repeat split.
      * rewrite E1. rewrite app_assoc. reflexivity.
      * rewrite E2. rewrite app_assoc. reflexivity.
      * exact E3.
      * cbn [app]. econstructor; eauto.
      * exact E5.
Qed.

(* ================= branches ================= *)

Lemma in_signed_64_iff z : in_signed 64 z = true <-> (- 2 ^ 63 <= z < 2 ^ 63)%Z.
Proof. unfold in_signed. change (Z.of_N (2 ^ (64 - 1))) with (2 ^ 63)%Z. lia. Qed.

Lemma chk_s_ok dbg z : (- 2 ^ 63 <= z < 2 ^ 63)%Z -> chk_s 64 dbg z = Ok z.
Proof. intros H. unfold chk_s. apply in_signed_64_iff in H. rewrite H. reflexivity. Qed.

Lemma write_sdata_2 be d :
  write_sdata be d 2 = if in_signed 16 d then Ok (enc_un 2 be (of_signed 16 d)) else Err WValueTooLarge.
Proof. reflexivity. Qed.

(* exact behaviour of the displacement computation when positions are below 2^63 *)
Lemma branch_operand_spec dbg be offsets t after :
  after + 2 < 2 ^ 63 ->
  (forall tv, nth_N offsets t = Some tv -> tv < 2 ^ 63) ->
  branch_operand dbg be offsets t after =
  match nth_N offsets t with
  | None => Panic
  | Some tv =>
      let d := (Z.of_N tv - (Z.of_N after + 2))%Z in
      if in_signed 16 d then Ok (enc_un 2 be (of_signed 16 d)) else Err WValueTooLarge
  end.
Proof.
  intros Ha Ht. unfold branch_operand. destruct (nth_N offsets t) as [tv|]; [|reflexivity].
  specialize (Ht tv eq_refl).
  rewrite (to_i64_small after) by lia. rewrite (to_i64_small tv) by lia.
  assert (H63 : Z.of_N (2 ^ 63) = (2 ^ 63)%Z) by reflexivity.
  rewrite chk_s_ok by lia. cbn [bind]. rewrite chk_s_ok by lia. cbn [bind].
  apply write_sdata_2.
Qed.

(* ================= decode direction: operand encoders are inverted by the spec readers ================= *)

Ltac Zify.zify_post_hook ::= Z.div_mod_to_equations.

Lemma sweep_lt (n : nat) (P : N -> bool) :
  forallb P (map N.of_nat (seq 0 n)) = true -> forall x, x < N.of_nat n -> P x = true.
Proof.
  intros H x Hx. rewrite forallb_forall in H. apply H.
  replace x with (N.of_nat (N.to_nat x)) by lia. apply in_map. apply in_seq. lia.
Qed.

Lemma byte_last x : x < 128 -> cont_bit (n2b x) = false /\ N.land (b2n (n2b x)) 127 = x.
Proof.
  intros Hx.
  pose proof (sweep_lt 128 (fun x => negb (cont_bit (n2b x)) && (N.land (b2n (n2b x)) 127 =? x))) as S.
  specialize (S ltac:(vm_compute; reflexivity) x Hx). cbv beta in S.
  apply andb_true_iff in S. destruct S as [S1 S2]. split; [destruct (cont_bit (n2b x)); [discriminate|reflexivity]|lia].
Qed.

Lemma byte_cont x : x < 256 ->
  cont_bit (n2b (N.lor x 128)) = true /\ N.land (b2n (n2b (N.lor x 128))) 127 = x mod 128.
Proof.
  intros Hx.
  pose proof (sweep_lt 256 (fun x => cont_bit (n2b (N.lor x 128)) && (N.land (b2n (n2b (N.lor x 128))) 127 =? x mod 128))) as S.
  specialize (S ltac:(vm_compute; reflexivity) x Hx). cbv beta in S.
  apply andb_true_iff in S. destruct S as [S1 S2]. split; [exact S1|lia].
Qed.

Lemma byte_low x : x < 256 ->
  cont_bit (n2b (N.land x 127)) = false /\ N.land (b2n (n2b (N.land x 127))) 127 = x mod 128.
Proof.
  intros Hx.
  pose proof (sweep_lt 256 (fun x => negb (cont_bit (n2b (N.land x 127))) && (N.land (b2n (n2b (N.land x 127))) 127 =? x mod 128))) as S.
  specialize (S ltac:(vm_compute; reflexivity) x Hx). cbv beta in S.
  apply andb_true_iff in S. destruct S as [S1 S2].
  split; [destruct (cont_bit (n2b (N.land x 127))); [discriminate|reflexivity]|lia].
Qed.

Lemma low7_land255 v : low7 (N.land v 255) = v mod 128.
Proof.
  unfold low7. rewrite <- N.land_assoc. change (N.land 255 127) with (N.ones 7).
  rewrite N.land_ones. reflexivity.
Qed.

Lemma shiftr7 v : N.shiftr v 7 = v / 128.
Proof. rewrite N.shiftr_div_pow2. reflexivity. Qed.

(* ULEB: what the writer emits is a terminated encoding of v, at most `fuel` bytes *)
Lemma write_uleb_fuel_spec : forall f v bs rest,
  write_uleb_fuel f v = Ok bs ->
  split_leb (bs ++ rest) = Some (bs, rest) /\ uval bs = v /\ (length bs <= f)%nat.
Proof.
  induction f as [|f IH]; intros v bs rest H; cbn [write_uleb_fuel] in H; [discriminate|].
  rewrite low7_land255, shiftr7 in H.
  assert (Hm : v mod 128 < 128) by (apply N.mod_lt; lia).
  destruct (v / 128 =? 0) eqn:E.
  - inversion H; subst. destruct (byte_last _ Hm) as [C V].
    cbn [app split_leb uval length]. rewrite C, V. repeat split; [|lia].
    assert (v / 128 = 0) by lia. lia.
  - apply bind_ok_inv in H. destruct H as [r [Hr H]]. inversion H; subst. clear H.
    destruct (IH _ _ rest Hr) as [Sp [U L]].
    assert (Hm' : v mod 128 < 256) by lia.
    destruct (byte_cont _ Hm') as [C V].
    cbn [app split_leb uval length]. unfold CONT. rewrite C, Sp, V, U.
    rewrite N.mod_mod by lia. repeat split; lia.
Qed.

Lemma rd_uleb_written v bs rest :
  write_uleb128 v = Ok bs -> v < 2 ^ 64 -> rd_uleb (bs ++ rest) = Some (v, rest).
Proof.
  intros H Hv. destruct (write_uleb_fuel_spec _ _ _ rest H) as [Sp [U L]].
  unfold rd_uleb. rewrite Sp, U.
  destruct ((length bs <=? 10)%nat && (v <? 2 ^ 64)) eqn:E; [reflexivity|lia].
Qed.

(* SLEB *)
Lemma zshiftr7 v : Z.shiftr (Z.shiftr v 6) 1 = (v / 128)%Z.
Proof. rewrite !Z.shiftr_div_pow2 by lia. change (2 ^ 6)%Z with 64%Z. change (2 ^ 1)%Z with 2%Z. lia. Qed.
Lemma zshiftr6 v : Z.shiftr v 6 = (v / 64)%Z.
Proof. rewrite Z.shiftr_div_pow2 by lia. reflexivity. Qed.

Lemma write_sleb_fuel_spec : forall f v bs rest,
  write_sleb_fuel f v = Ok bs ->
  split_leb (bs ++ rest) = Some (bs, rest) /\
  (1 <= length bs <= f)%nat /\
  Z.of_N (uval bs) = (v mod 2 ^ (7 * Z.of_nat (length bs)))%Z /\
  (- 2 ^ (7 * Z.of_nat (length bs) - 1) <= v < 2 ^ (7 * Z.of_nat (length bs) - 1))%Z.
Proof.
  induction f as [|f IH]; intros v bs rest H; cbn [write_sleb_fuel] in H; [discriminate|].
  rewrite zshiftr7, zshiftr6 in H.
  set (byte := Z.to_N (v mod 256)%Z) in *.
  assert (Hb : byte < 256) by (unfold byte; lia).
  assert (Hbm : Z.of_N (byte mod 128) = (v mod 128)%Z) by (unfold byte; lia).
  destruct ((v / 64 =? 0)%Z || (v / 64 =? -1)%Z) eqn:E.
  - inversion H; subst. destruct (byte_low _ Hb) as [C V].
    cbn [app split_leb uval length]. rewrite C, V.
    change (7 * Z.of_nat 1)%Z with 7%Z. change (2 ^ 7)%Z with 128%Z. change (2 ^ (7 - 1))%Z with 64%Z.
    repeat split; lia.
  - apply bind_ok_inv in H. destruct H as [r [Hr H]]. inversion H; subst. clear H.
    destruct (IH _ _ rest Hr) as [Sp [L [U R]]].
    destruct (byte_cont _ Hb) as [C V].
    cbn [app split_leb uval length]. unfold CONT. rewrite C, Sp, V.
    replace (7 * Z.of_nat (S (length r)))%Z with (7 + 7 * Z.of_nat (length r))%Z by lia.
    replace (7 + 7 * Z.of_nat (length r) - 1)%Z with (7 + (7 * Z.of_nat (length r) - 1))%Z by lia.
    rewrite !Z.pow_add_r by lia. change (2 ^ 7)%Z with 128%Z.
    set (M := (2 ^ (7 * Z.of_nat (length r)))%Z) in *.
    set (Hf := (2 ^ (7 * Z.of_nat (length r) - 1))%Z) in *.
    assert (HM : (0 < M)%Z) by (unfold M; apply Z.pow_pos_nonneg; lia).
    split; [reflexivity|]. split; [lia|]. split.
    + rewrite Z.rem_mul_r by lia. rewrite N2Z.inj_add, N2Z.inj_mul, U, Hbm. reflexivity.
    + lia.
Qed.

Lemma sval_written f v bs :
  write_sleb_fuel f v = Ok bs -> sval bs = v.
Proof.
  intros H. destruct (write_sleb_fuel_spec _ _ _ [] H) as [_ [L [U R]]].
  unfold sval. set (k := length bs) in *.
  assert (Hbits : Z.of_N (7 * N.of_nat k) = (7 * Z.of_nat k)%Z) by lia.
  assert (Hp : Z.of_N (2 ^ (7 * N.of_nat k)) = (2 ^ (7 * Z.of_nat k))%Z).
  { rewrite N2Z.inj_pow, Hbits. reflexivity. }
  assert (Hq : Z.of_N (2 ^ (7 * N.of_nat k - 1)) = (2 ^ (7 * Z.of_nat k - 1))%Z).
  { rewrite N2Z.inj_pow. f_equal. lia. }
  assert (Hdbl : (2 ^ (7 * Z.of_nat k) = 2 * 2 ^ (7 * Z.of_nat k - 1))%Z).
  { replace (7 * Z.of_nat k)%Z with (1 + (7 * Z.of_nat k - 1))%Z at 1 by lia.
    rewrite Z.pow_add_r by lia. reflexivity. }
  set (M := (2 ^ (7 * Z.of_nat k))%Z) in *.
  set (Hf := (2 ^ (7 * Z.of_nat k - 1))%Z) in *.
  assert (HfP : (0 < Hf)%Z) by (unfold Hf; apply Z.pow_pos_nonneg; lia).
  assert (Hmod : (v mod M = if v <? 0 then v + M else v)%Z).
  { destruct (v <? 0)%Z eqn:Ev.
    - rewrite <- (Z_mod_plus_full v 1 M). rewrite Z.mod_small; lia.
    - rewrite Z.mod_small; lia. }
  rewrite Hmod in U. clear Hmod.
  destruct (uval bs <? 2 ^ (7 * N.of_nat k - 1)) eqn:E.
  - assert (Z.of_N (uval bs) < Hf)%Z by lia. destruct (v <? 0)%Z eqn:Ev; lia.
  - assert (Hf <= Z.of_N (uval bs))%Z by lia. rewrite Hp. destruct (v <? 0)%Z eqn:Ev; lia.
Qed.

Lemma rd_sleb_written v bs rest :
  write_sleb128 v = Ok bs -> (- 2 ^ 63 <= v < 2 ^ 63)%Z -> rd_sleb (bs ++ rest) = Some (v, rest).
Proof.
  intros H Hv. destruct (write_sleb_fuel_spec _ _ _ rest H) as [Sp [L _]].
  unfold rd_sleb. rewrite Sp, (sval_written _ _ _ H).
  destruct ((length bs <=? 10)%nat && (- 2 ^ 63 <=? v)%Z && (v <? 2 ^ 63)%Z) eqn:E; [reflexivity|lia].
Qed.

(* fixed-width *)
Lemma takeb_app : forall l rest, takeb (length l) (l ++ rest) = Some (l, rest).
Proof. induction l as [|b l IH]; intros rest; cbn [length takeb app]; [reflexivity|]. rewrite IH. reflexivity. Qed.

Lemma val_le_le_bytes : forall n v, val_le (le_bytes n v) = v mod 256 ^ N.of_nat n.
Proof.
  induction n as [|n IH]; intros v; cbn [le_bytes val_le].
  - change (256 ^ N.of_nat 0) with 1. rewrite N.mod_1_r. reflexivity.
  - rewrite IH, b2n_n2b. replace (N.of_nat (S n)) with (1 + N.of_nat n) by lia.
    rewrite N.pow_add_r. change (256 ^ 1) with 256.
    assert (Hp : 256 ^ N.of_nat n <> 0) by (apply N.pow_nonzero; lia).
    rewrite N.mod_mul_r by lia. reflexivity.
Qed.

Lemma val_of_enc_un n be v : val_of be (enc_un n be v) = v mod 256 ^ N.of_nat n.
Proof.
  unfold val_of, enc_un, be_bytes. destruct be; [rewrite rev_involutive|]; apply val_le_le_bytes.
Qed.

Lemma rd_fixed_enc n be v rest : rd_fixed be n (enc_un n be v ++ rest) = Some (v mod 256 ^ N.of_nat n, rest).
Proof.
  unfold rd_fixed. rewrite <- (enc_un_len n be v) at 1. rewrite takeb_app, val_of_enc_un. reflexivity.
Qed.

Lemma size_nat_spec s n : size_nat s = Some n -> s = N.of_nat n /\ (n = 1 \/ n = 2 \/ n = 4 \/ n = 8)%nat.
Proof.
  unfold size_nat. repeat match goal with |- context [if ?c then _ else _] => destruct c eqn:? end;
    intros H; inversion H; subst; split; lia.
Qed.

(* write_udata is inverted by the sized reader *)
Lemma rd_sized_written be v size bs rest :
  v < 2 ^ 64 ->
  write_udata be v size = Ok bs -> rd_sized be size (bs ++ rest) = Some (v, rest).
Proof.
  intros Hv64.
  unfold write_udata, rd_sized, size_nat.
  destruct (size =? 1) eqn:E1; [destruct (v <? 256) eqn:Ev; [|discriminate]|
  destruct (size =? 2) eqn:E2; [destruct (v <? two16) eqn:Ev; [|discriminate]|
  destruct (size =? 4) eqn:E4; [destruct (v <? two32) eqn:Ev; [|discriminate]|
  destruct (size =? 8) eqn:E8; [|discriminate]]]];
  intros H; inversion H; subst; rewrite rd_fixed_enc; f_equal; f_equal; apply N.mod_small.
  - change (256 ^ N.of_nat 1) with 256. lia.
  - change (256 ^ N.of_nat 2) with two16. lia.
  - change (256 ^ N.of_nat 4) with two32. lia.
  - change (256 ^ N.of_nat 8) with (2 ^ 64). lia.
Qed.

Lemma rd_fixed_written be v (n : nat) bs rest :
  v < 2 ^ 64 -> (n = 1 \/ n = 2 \/ n = 4 \/ n = 8)%nat ->
  write_udata be v (N.of_nat n) = Ok bs -> rd_fixed be n (bs ++ rest) = Some (v, rest).
Proof.
  intros Hv Hn H. pose proof (rd_sized_written be v _ bs rest Hv H) as R.
  unfold rd_sized in R.
  destruct Hn as [->|[->|[->| ->]]]; exact R.
Qed.

(* the i16 operand of skip/bra *)
Lemma rd_i16_written be d rest :
  in_signed 16 d = true ->
  rd_signed be 2 (enc_un 2 be (of_signed 16 d) ++ rest) = Some (d, rest).
Proof.
  intros Hd. unfold rd_signed. rewrite rd_fixed_enc. f_equal. f_equal.
  unfold in_signed in Hd. change (Z.of_N (2 ^ (16 - 1))) with 32768%Z in Hd.
  unfold sext, of_signed. change (8 * N.of_nat 2) with 16.
  change (256 ^ N.of_nat 2) with 65536. change (2 ^ (16 - 1)) with 32768. change (2 ^ 16) with 65536.
  change (Z.of_N 65536) with 65536%Z.
  destruct (Z.to_N (d mod 65536) mod 65536 <? 32768) eqn:E; lia.
Qed.


(* ---- each operand kind reads back what the writer's primitive emitted ---- *)
Definition dcfg_of (e : enc) : dcfg :=
  {| d_version := e_version e; d_fmt64 := e_fmt64 e; d_asize := e_asize e; d_be := e_be e |}.

Lemma rdk_uleb c v bs rest :
  write_uleb128 v = Ok bs -> v < 2 ^ 64 -> rd_kind c K_uleb (bs ++ rest) = Some (AU v, rest).
Proof. intros H Hv. cbn [rd_kind]. rewrite (rd_uleb_written _ _ rest H Hv). reflexivity. Qed.

Lemma rdk_sleb c v bs rest :
  write_sleb128 v = Ok bs -> in_i64 v = true -> rd_kind c K_sleb (bs ++ rest) = Some (AS v, rest).
Proof.
  intros H Hv. cbn [rd_kind]. rewrite (rd_sleb_written _ _ rest H); [reflexivity|].
  unfold in_i64 in Hv. lia.
Qed.

Lemma rd_fixed_1 be v rest : v < 256 -> rd_fixed be 1 (n2b v :: rest) = Some (v, rest).
Proof.
  intros Hv. unfold rd_fixed. cbn [takeb]. unfold val_of. cbn [rev app val_le].
  rewrite b2n_n2b_small by exact Hv. destruct be; f_equal; f_equal; lia.
Qed.

Lemma rdk_u8 c v rest : v < 256 -> rd_kind c K_u8 (n2b v :: rest) = Some (AU v, rest).
Proof. intros Hv. cbn [rd_kind]. rewrite rd_fixed_1 by exact Hv. reflexivity. Qed.

Lemma rdk_i16 c d rest :
  in_signed 16 d = true ->
  rd_kind c K_i16 (enc_un 2 (d_be c) (of_signed 16 d) ++ rest) = Some (AS d, rest).
Proof. intros Hd. cbn [rd_kind]. rewrite rd_i16_written by exact Hd. reflexivity. Qed.

Lemma rdk_u32 c v bs rest :
  v < 2 ^ 64 -> write_udata (d_be c) v 4 = Ok bs -> rd_kind c K_u32 (bs ++ rest) = Some (AU v, rest).
Proof.
  intros Hv H. cbn [rd_kind]. rewrite (rd_fixed_written (d_be c) v 4 bs rest Hv); [reflexivity|lia|exact H].
Qed.

Lemma rdk_addr c v bs rest :
  v < 2 ^ 64 -> write_udata (d_be c) v (d_asize c) = Ok bs -> rd_kind c K_addr (bs ++ rest) = Some (AU v, rest).
Proof. intros Hv H. cbn [rd_kind]. rewrite (rd_sized_written _ _ _ _ rest Hv H). reflexivity. Qed.

Lemma rdk_off c v bs rest :
  v < 2 ^ 64 -> write_udata (d_be c) v (word_size (d_fmt64 c)) = Ok bs ->
  rd_kind c K_off (bs ++ rest) = Some (AU v, rest).
Proof.
  intros Hv H. cbn [rd_kind]. unfold word_size in H.
  destruct (d_fmt64 c).
  - rewrite (rd_fixed_written (d_be c) v 8 bs rest Hv); [reflexivity|lia|exact H].
  - rewrite (rd_fixed_written (d_be c) v 4 bs rest Hv); [reflexivity|lia|exact H].
Qed.

Lemma rdk_ref e v bs rest :
  v < 2 ^ 64 -> write_udata (e_be e) v (iptr_size e) = Ok bs ->
  rd_kind (dcfg_of e) K_ref (bs ++ rest) = Some (AU v, rest).
Proof.
  intros Hv H. cbn [rd_kind dcfg_of d_version d_asize d_be d_fmt64]. unfold iptr_size in H.
  destruct (e_version e =? 2).
  - rewrite (rd_sized_written _ _ _ _ rest Hv H). reflexivity.
  - unfold word_size in H. destruct (e_fmt64 e).
    + rewrite (rd_fixed_written (e_be e) v 8 bs rest Hv); [reflexivity|lia|exact H].
    + rewrite (rd_fixed_written (e_be e) v 4 bs rest Hv); [reflexivity|lia|exact H].
Qed.

Lemma rd_block_app data rest : rd_block (blen data) (data ++ rest) = Some (data, rest).
Proof.
  unfold rd_block, blen. rewrite app_length.
  destruct (N.of_nat (length data + length rest) <? N.of_nat (length data)) eqn:E; [lia|].
  rewrite Nat2N.id. apply takeb_app.
Qed.

Lemma rdk_blk_uleb c data lb rest :
  write_uleb128 (blen data) = Ok lb -> blen data < 2 ^ 64 ->
  rd_kind c K_blk_uleb (lb ++ data ++ rest) = Some (AB data, rest).
Proof.
  intros H Hv. cbn [rd_kind]. rewrite (rd_uleb_written _ _ (data ++ rest) H Hv), rd_block_app. reflexivity.
Qed.

Lemma rdk_blk_u8 c data l rest :
  write_udata (d_be c) (blen data) 1 = Ok l ->
  rd_kind c K_blk_u8 (l ++ data ++ rest) = Some (AB data, rest).
Proof.
  intros H. cbn [rd_kind].
  assert (Hlt : blen data < 256).
  { unfold write_udata in H. change (1 =? 1) with true in H. cbv iota in H.
    destruct (blen data <? 256) eqn:E; [lia|discriminate]. }
  rewrite (rd_fixed_written (d_be c) (blen data) 1 l (data ++ rest)); [|lia|lia|exact H].
  rewrite rd_block_app. reflexivity.
Qed.

Lemma decode_one_step c K ks body args rest d :
  K < 256 -> K <> 237 -> layout K = Some ks ->
  rd_kinds c ks body = Some (args, rest) -> meaning c K args = Some d ->
  decode_one c (n2b K :: body) = Some (d, rest).
Proof.
  intros HK H237 HL HR HM. unfold decode_one. rewrite b2n_n2b_small by exact HK.
  destruct (K =? 237) eqn:E; [lia|]. rewrite HL, HR, HM. reflexivity.
Qed.

(* the literal / register ranges of the table *)
Lemma layout_48_111 k : 48 <= k <= 111 -> layout k = Some [].
Proof.
  intros Hk. unfold layout.
  repeat match goal with |- context [if ?c then _ else _] => destruct c eqn:?; try lia; try reflexivity end.
Qed.
Lemma layout_112_143 k : 112 <= k <= 143 -> layout k = Some [K_sleb].
Proof.
  intros Hk. unfold layout.
  repeat match goal with |- context [if ?c then _ else _] => destruct c eqn:?; try lia; try reflexivity end.
Qed.
Lemma meaning_lit c v : v < 32 -> meaning c (48 + v) [] = Some (DoUConst v).
Proof.
  intros Hv. unfold meaning.
  repeat match goal with |- context [if ?c then _ else _] => destruct c eqn:?; try lia end.
  f_equal. f_equal. lia.
Qed.
Lemma meaning_reg c v : v < 32 -> meaning c (80 + v) [] = Some (DoRegister v).
Proof.
  intros Hv. unfold meaning.
  repeat match goal with |- context [if ?c then _ else _] => destruct c eqn:?; try lia end.
  f_equal. f_equal. lia.
Qed.
Lemma meaning_breg c v off : v < 32 -> meaning c (112 + v) [AS off] = Some (DoRegOffset v off 0).
Proof.
  intros Hv. unfold meaning.
  repeat match goal with |- context [if ?c then _ else _] => destruct c eqn:?; try lia end.
  f_equal. f_equal. lia.
Qed.
