(* Proofs/LineRdMono.v — C04 clauses that hold for EVERY input: instruction decoding and execution
   never panic, the fuel of the model loops suffices, and emitted row addresses are monotone within a
   sequence and bounded by the address size. *)
From Coq Require Import List NArith ZArith Bool Lia ZifyBool ZifyN ZifyNat.
From Coq.Strings Require Import Byte.
Require Import GV.Base.Res GV.Base.Byt GV.Base.Ints GV.Model.Leb GV.Model.Prim GV.Spec.LineSpec GV.Model.LineRd
               GV.Proofs.LineRdBase.
Import ListNotations.
Local Open Scope N_scope.
Local Ltac Zify.zify_post_hook ::= Z.div_mod_to_equations.
Local Arguments N.add : simpl never.
Local Arguments N.sub : simpl never.
Local Arguments N.mul : simpl never.
Local Arguments N.shiftl : simpl never.
Local Arguments N.shiftr : simpl never.
Local Arguments N.land : simpl never.
Local Arguments N.lor : simpl never.
Local Arguments N.pow : simpl never.
Local Arguments N.modulo : simpl never.
Local Arguments N.div : simpl never.
Local Arguments N.ltb : simpl never.
Local Arguments N.leb : simpl never.
Local Arguments N.eqb : simpl never.

(* ---------------------------------------------------------------- what a decoded header guarantees *)
Definition asz_ok (h : header) : Prop := 1 <= h_addr_size h <= 8.
Definition hdr_ok (h : header) : Prop :=
  1 <= h_line_range h /\ 1 <= h_max_ops h /\ h_opcode_base h <= 255 /\ asz_ok h.
Definition amask (h : header) : N := mask_of (h_addr_size h).

(* what LineInstruction::parse guarantees about the instruction it returns *)
Definition insn_ok (h : header) (i : insn) : Prop :=
  match i with
  | ISpecial op => h_opcode_base h <= op /\ op < 256
  | ISetAddress a => a <= amask h /\ asz_ok h
  | _ => True
  end.

(* ---------------------------------------------------------------- reader helpers *)
Lemma split_n_good n bs : good (fun p => bs = fst p ++ snd p /\ length (fst p) = N.to_nat n) (split_n n bs).
Proof.
  unfold split_n. destruct (N.of_nat (length bs) <? n) eqn:E; [exact I|]. cbn.
  split; [symmetry; apply firstn_skipn|]. apply firstn_length_le. lia.
Qed.
Lemma split_n_sfx n bs : good (fun p => sfx (snd p) bs) (split_n n bs).
Proof. eapply good_weaken; [apply split_n_good|]. intros [a r] [H _]; cbn in *. now exists a. Qed.
Lemma skip_n_good n bs : good (fun r => sfx r bs) (skip_n n bs).
Proof.
  unfold skip_n. destruct (N.of_nat (length bs) <? n); [exact I|]. cbn.
  exists (firstn (N.to_nat n) bs). symmetry; apply firstn_skipn.
Qed.

Lemma skip_ulebs_good dbg : forall k inp, good (fun r => sfx r inp) (skip_ulebs dbg k inp).
Proof.
  induction k as [|k IH]; intros inp; cbn [skip_ulebs]; [apply sfx_refl|].
  eapply good_bind; [apply read_uleb128_good|]. intros [v r] H; cbn in H.
  eapply good_weaken; [apply IH|]. intros r' H'. eapply sfx_trans; [exact H'|exact H].
Qed.

Lemma file_entry_parse_good dbg inp path : good (fun p => sfx (snd p) inp) (file_entry_parse dbg inp path).
Proof.
  unfold file_entry_parse.
  eapply good_bind; [apply read_uleb128_good|]. intros [d r1] H1; cbn in H1.
  eapply good_bind; [apply read_uleb128_good|]. intros [t r2] H2; cbn in H2.
  eapply good_bind; [apply read_uleb128_good|]. intros [s r3] H3; cbn in H3.
  cbn. eapply sfx_trans; [eassumption|]. eapply sfx_trans; eassumption.
Qed.

(* ---------------------------------------------------------------- LineInstruction::parse *)
Definition parsed_ok (h : header) (inp : list byte) (p : insn * list byte) : Prop :=
  sfx (snd p) inp /\ (length (snd p) < length inp)%nat /\ insn_ok h (fst p).

Lemma parsed_ok_intro h b input i rest :
  sfx rest input -> insn_ok h i -> parsed_ok h (b :: input) (i, rest).
Proof.
  intros H1 H2. unfold parsed_ok; cbn [fst snd]. split; [now apply sfx_cons|].
  split; [apply sfx_len in H1; simpl; lia|exact H2].
Qed.

Ltac leaf := apply parsed_ok_intro; [eauto using sfx_refl, sfx_trans|exact I].
Ltac uleb_then := eapply good_bind; [apply read_uleb128_good|]; intros [? ?] ?; cbn [fst snd] in *.

Lemma parse_insn_good dbg be h inp : good (parsed_ok h inp) (parse_insn dbg be h inp).
Proof.
  unfold parse_insn. destruct inp as [|b input]; [exact I|].
  destruct (b2n b =? 0) eqn:E0.
  { (* extended *)
    uleb_then.
    eapply good_bind; [apply split_n_good|]. intros [instr_rest input'] [Hs Hl]; cbn [fst snd] in *.
    assert (S1 : sfx input' l) by (exists instr_rest; exact Hs).
    eapply good_bind; [apply read_u8_good|]. intros [op ir] [Hu _]; cbn [fst snd] in *.
    destruct (op =? 1); [cbn; leaf|].
    destruct (op =? 2).
    { eapply good_bind; [apply read_address_good|]. intros [a r'] (Ha1 & Ha2 & Ha3); cbn [fst snd] in *.
      cbn. apply parsed_ok_intro; [eauto using sfx_trans|]. cbn. split; [exact Ha2|exact Ha3]. }
    destruct (op =? 3).
    { destruct (h_version h <=? 4); [|cbn; leaf].
      eapply good_bind; [apply read_cstr_good|]. intros [path r'] Hc; cbn [fst snd] in *.
      eapply good_bind; [apply file_entry_parse_good|]. intros [fe r''] Hf; cbn [fst snd] in *.
      cbn; leaf. }
    destruct (op =? 4).
    { uleb_then. cbn; leaf. }
    cbn; leaf. }
  destruct (h_opcode_base h <=? b2n b) eqn:Eb.
  { cbn. apply parsed_ok_intro; [apply sfx_refl|]. cbn. pose proof (b2n_lt b). lia. }
  destruct (b2n b =? 1); [cbn; leaf|].
  destruct (b2n b =? 2); [uleb_then; cbn; leaf|].
  destruct (b2n b =? 3).
  { eapply good_bind; [apply read_sleb128_good|]. intros [? ?] ?; cbn [fst snd] in *. cbn; leaf. }
  destruct (b2n b =? 4); [uleb_then; cbn; leaf|].
  destruct (b2n b =? 5); [uleb_then; cbn; leaf|].
  destruct (b2n b =? 6); [cbn; leaf|].
  destruct (b2n b =? 7); [cbn; leaf|].
  destruct (b2n b =? 8); [cbn; leaf|].
  destruct (b2n b =? 9).
  { eapply good_bind; [apply (read_un_good 2)|]. intros [? ?] [? _]; cbn [fst snd] in *. cbn; leaf. }
  destruct (b2n b =? 10); [cbn; leaf|].
  destruct (b2n b =? 11); [cbn; leaf|].
  destruct (b2n b =? 12); [uleb_then; cbn; leaf|].
  eapply good_bind; [apply skip_n_good|]. intros ol _.
  eapply good_bind; [apply read_u8_good|]. intros [num_args ?] _; cbn [fst snd] in *.
  destruct (num_args =? 0); [cbn; leaf|].
  destruct (num_args =? 1); [uleb_then; cbn; leaf|].
  eapply good_bind; [apply skip_ulebs_good|]. intros input' Hs. cbn; leaf.
Qed.

Lemma parse_insn_np dbg be h inp : parse_insn dbg be h inp <> Panic /\ parse_insn dbg be h inp <> OutOfFuel.
Proof. eapply good_np, parse_insn_good. Qed.

(* ---------------------------------------------------------------- LineRow::execute *)
Lemma ones_sized_ok dbg size : 1 <= size <= 8 -> ones_sized dbg size = Ok (mask_of size).
Proof.
  intros H.
  assert (C : size = 1 \/ size = 2 \/ size = 3 \/ size = 4 \/ size = 5 \/ size = 6 \/ size = 7 \/ size = 8) by lia.
  destruct dbg; repeat (destruct C as [C|C]; [subst; vm_compute; reflexivity|]); subst; vm_compute; reflexivity.
Qed.

Lemma add_sized_g_good dbg a len size :
  1 <= size <= 8 ->
  match add_sized_g dbg a len size with
  | Ok a' => a' = a + len /\ a' <= mask_of size
  | Err e => e = EAddressOverflow
  | _ => False
  end.
Proof.
  intros H. unfold add_sized_g. destruct (two64 <=? a + len); [reflexivity|].
  rewrite ones_sized_ok by exact H. cbn [bind].
  destruct (mask_of size <? a + len) eqn:E; [reflexivity|]. split; [reflexivity|lia].
Qed.

Lemma min_tombstone_g_ok dbg size : 1 <= size <= 8 -> exists mt, min_tombstone_g dbg size = Ok mt.
Proof. intros H. unfold min_tombstone_g. rewrite ones_sized_ok by exact H. cbn. eauto. Qed.

(* address facts of the small setters *)
Lemma addr_set_opi r v : r_addr (set_opi r v) = r_addr r. Proof. reflexivity. Qed.
Lemma addr_set_line r v : r_addr (set_line r v) = r_addr r. Proof. reflexivity. Qed.
Lemma addr_set_tomb r v : r_addr (set_tomb r v) = r_addr r. Proof. reflexivity. Qed.
Lemma addr_set_addr r v : r_addr (set_addr r v) = v. Proof. reflexivity. Qed.
Lemma addr_line_advance r z : r_addr (apply_line_advance r z) = r_addr r.
Proof. unfold apply_line_advance. destruct (z <? 0)%Z; [destruct (Z.abs_N z <=? r_line r)|]; reflexivity. Qed.
Lemma tomb_line_advance r z : r_tomb (apply_line_advance r z) = r_tomb r.
Proof. unfold apply_line_advance. destruct (z <? 0)%Z; [destruct (Z.abs_N z <=? r_line r)|]; reflexivity. Qed.
Lemma end_line_advance r z : r_end (apply_line_advance r z) = r_end r.
Proof. unfold apply_line_advance. destruct (z <? 0)%Z; [destruct (Z.abs_N z <=? r_line r)|]; reflexivity. Qed.

(* the address only grows and stays inside the address size *)
Definition step_ok (h : header) (r r' : row) : Prop :=
  r_addr r <= r_addr r' /\ r_addr r' <= amask h.

Lemma aoa_good dbg h r adv :
  hdr_ok h -> r_addr r <= amask h ->
  good (fun p => step_ok h r (fst p)) (apply_operation_advance dbg h r adv).
Proof.
  intros (Hlr & Hmo & Hob & Hsz) Ha. unfold apply_operation_advance, step_ok.
  destruct (r_tomb r); [cbn; lia|].
  destruct (h_max_ops h =? 1) eqn:E1.
  - cbn [bind].
    pose proof (add_sized_g_good dbg (r_addr (set_opi r 0)) (wrap64 (h_min_inst_len h * adv)) (h_addr_size h) Hsz) as G.
    destruct (add_sized_g dbg (r_addr (set_opi r 0)) (wrap64 (h_min_inst_len h * adv)) (h_addr_size h));
      try contradiction; cbn in *; unfold amask in *; lia.
  - destruct (h_max_ops h =? 0) eqn:E0; [lia|]. cbn [bind].
    set (t := wrap64 (r_opi r + adv)).
    pose proof (add_sized_g_good dbg (r_addr (set_opi r (t mod h_max_ops h)))
                 (wrap64 (h_min_inst_len h * (t / h_max_ops h))) (h_addr_size h) Hsz) as G.
    destruct (add_sized_g dbg (r_addr (set_opi r (t mod h_max_ops h)))
                (wrap64 (h_min_inst_len h * (t / h_max_ops h))) (h_addr_size h));
      try contradiction; cbn in *; unfold amask in *; lia.
Qed.

Lemma adv_result_good h r (x : res (row * option error)) k :
  good (fun p => step_ok h r (fst p)) x -> good (fun p => step_ok h r (fst p)) (adv_result x k).
Proof.
  intros G. unfold adv_result. eapply good_bind; [exact G|]. intros [r' e] H; cbn [fst] in H.
  destruct e; cbn; exact H.
Qed.

Lemma execute_good dbg h r i :
  hdr_ok h -> insn_ok h i -> r_addr r <= amask h ->
  good (fun p => step_ok h r (fst p)) (execute dbg h r i).
Proof.
  intros Hh Hi Ha. pose proof Hh as (Hlr & Hmo & Hob & Hsz).
  assert (R : step_ok h r r) by (unfold step_ok; lia).
  destruct i; cbn [execute]; try exact R.
  - (* ISpecial *)
    destruct Hi as [Hi1 Hi2]. unfold adjust_opcode, chk_sub.
    destruct (h_opcode_base h <=? op) eqn:E; [|lia]. cbn [bind].
    destruct (h_line_range h =? 0) eqn:E0; [lia|].
    set (r1 := apply_line_advance r _).
    assert (A1 : r_addr r1 = r_addr r) by apply addr_line_advance.
    eapply good_weaken; [apply adv_result_good, aoa_good; [exact Hh|rewrite A1; exact Ha]|].
    intros [r' x] S1; cbn [fst] in *. unfold step_ok in *. rewrite A1 in S1. exact S1.
  - (* IAdvancePc *) apply adv_result_good, aoa_good; assumption.
  - (* IAdvanceLine *) cbn. unfold step_ok. rewrite addr_line_advance. lia.
  - (* IConstAddPc *)
    unfold adjust_opcode, chk_sub. destruct (h_opcode_base h <=? 255) eqn:E; [|lia]. cbn [bind].
    destruct (h_line_range h =? 0) eqn:E0; [lia|].
    apply adv_result_good, aoa_good; assumption.
  - (* IFixedAddPc *)
    destruct (r_tomb r); [exact R|].
    pose proof (add_sized_g_good dbg (r_addr r) n (h_addr_size h) Hsz) as G.
    destruct (add_sized_g dbg (r_addr r) n (h_addr_size h)); try contradiction; cbn in *; unfold step_ok, amask in *; cbn; lia.
  - (* ISetAddress *)
    destruct Hi as [Hi _].
    destruct (a <? r_addr r) eqn:E1; cbn [bind]; [exact R|].
    destruct (min_tombstone_g_ok dbg (h_addr_size h) Hsz) as [mt ->]. cbn [bind].
    destruct (mt <=? a); cbn; unfold step_ok; cbn; [lia|lia].
Qed.

(* ---------------------------------------------------------------- LineRows::next_row *)
Lemma row_reset_addr h r : r_addr (row_reset h r) = if r_end r then 0 else r_addr r.
Proof. unfold row_reset. destruct (r_end r); reflexivity. Qed.

Definition nr_post (h : header) (r : row) (inp : list byte) (inseq : bool) (res : nr_out * lr_state) : Prop :=
  let '(out, st') := res in
  out <> NPanic /\ out <> NFuel /\
  r_addr (st_row st') <= amask h /\
  (inseq = true -> r_addr r <= r_addr (st_row st')) /\
  sfx (st_inp st') inp /\
  (out = NRow -> (length (st_inp st') < length inp)%nat /\ st_inseq st' = negb (r_end (st_row st'))) /\
  (forall e, out = NErr e -> (length (st_inp st') < length inp)%nat) /\
  (out = NNone -> st_inp st' = []).

Lemma next_row_loop_post dbg be resumed h : hdr_ok h ->
  forall fuel r inp added inseq,
  r_addr r <= amask h -> (length inp < fuel)%nat ->
  nr_post h r inp inseq (next_row_loop fuel dbg be resumed h r inp added inseq).
Proof.
  intros Hh. induction fuel as [|f IH]; intros r inp added inseq Ha Hf; [lia|].
  cbn [next_row_loop].
  destruct inp as [|b input].
  { cbn. repeat split; try discriminate; auto; try (cbn [length] in *; lia). apply sfx_refl. }
  pose proof (parse_insn_good dbg be h (b :: input)) as G.
  destruct (parse_insn dbg be h (b :: input)) as [[i rest]|e| |]; cbn [good] in G; try contradiction.
  2:{ cbn. repeat split; try discriminate; auto; try (cbn [length] in *; lia).
      exists (b :: input). now rewrite app_nil_r. }
  destruct G as (Gs & Gl & Gi); cbn [fst snd] in *. cbn [length] in Gl, Hf.
  pose proof (execute_good dbg h r i Hh Gi Ha) as X.
  destruct (execute dbg h r i) as [[r' x]|e| |]; cbn [good] in X; try contradiction.
  2:{ cbn. repeat split; try discriminate; auto; try (cbn [length] in *; lia). }
  cbn [fst] in X. destruct X as [X1 X2].
  destruct x as [| |e].
  - (* XRow *)
    destruct (r_tomb r' && negb (r_end r' && inseq)) eqn:Et.
    + assert (A : r_addr (row_reset h r') <= amask h).
      { rewrite row_reset_addr. destruct (r_end r'); [lia|exact X2]. }
      specialize (IH (row_reset h r') rest added inseq A ltac:(lia)).
      unfold nr_post in *.
      destruct (next_row_loop f dbg be resumed h (row_reset h r') rest added inseq) as [out st'].
      destruct IH as (I1 & I2 & I3 & I4 & I6 & I7 & I8 & I9).
      split; [exact I1|]. split; [exact I2|]. split; [exact I3|]. split.
      { intros Ei. specialize (I4 Ei). rewrite row_reset_addr in I4. subst inseq.
        destruct (r_end r') eqn:Ee.
        - rewrite andb_true_r in Et. cbn in Et. rewrite andb_false_r in Et. discriminate.
        - lia. }
      split; [eapply sfx_trans; eassumption|]. split.
      { intros E. destruct (I7 E) as [? ?]. split; [cbn [length]; lia|assumption]. }
      split; [intros e0 He; specialize (I8 e0 He); cbn [length]; lia|exact I9].
    + cbn. repeat split; try discriminate; auto; try (cbn [length] in *; lia).
  - (* XNoRow *)
    specialize (IH r' rest (add_file resumed i added) inseq X2 ltac:(lia)).
    unfold nr_post in *.
    destruct (next_row_loop f dbg be resumed h r' rest (add_file resumed i added) inseq) as [out st'].
    destruct IH as (I1 & I2 & I3 & I4 & I6 & I7 & I8 & I9).
    split; [exact I1|]. split; [exact I2|]. split; [exact I3|]. split.
    { intros Ei. specialize (I4 Ei). lia. }
    split; [eapply sfx_trans; eassumption|]. split.
    { intros E. destruct (I7 E) as [? ?]. split; [cbn [length]; lia|assumption]. }
    split; [intros e0 He; specialize (I8 e0 He); cbn [length]; lia|exact I9].
  - (* XErr *)
    cbn. repeat split; try discriminate; auto; try (cbn [length] in *; lia).
Qed.

Lemma next_row_post dbg be resumed h st : hdr_ok h -> r_addr (st_row st) <= amask h ->
  nr_post h (row_reset h (st_row st)) (st_inp st) (st_inseq st) (next_row dbg be resumed h st).
Proof.
  intros Hh Ha. unfold next_row. apply next_row_loop_post; auto.
  rewrite row_reset_addr. destruct (r_end (st_row st)); lia.
Qed.

(* ---------------------------------------------------------------- iterating over all rows *)
(* `chain h a l`: starting from address floor `a` (0 at the start of a sequence), every row is at or
   above the floor and inside the address size; an end_sequence row resets the floor *)
Fixpoint chain (h : header) (a : N) (l : list row) : Prop :=
  match l with
  | [] => True
  | r :: tl => a <= r_addr r /\ r_addr r <= amask h /\ chain h (if r_end r then 0 else r_addr r) tl
  end.

Definition floor_of (st : lr_state) : N := if st_inseq st then r_addr (st_row st) else 0.
Definition st_ok (h : header) (st : lr_state) : Prop :=
  r_addr (st_row st) <= amask h /\ (st_inseq st = true -> r_end (st_row st) = false).

Lemma rows_loop_post dbg be resumed h : hdr_ok h ->
  forall fuel st l s stf,
  st_ok h st -> (length (st_inp st) < fuel)%nat ->
  rows_loop fuel dbg be resumed h st = (l, s, stf) ->
  s <> SPanic /\ s <> SFuel /\ chain h (floor_of st) l /\ r_addr (st_row stf) <= amask h.
Proof.
  intros Hh. induction fuel as [|f IH]; intros st l s stf [Ha Hi] Hf H; [lia|].
  cbn [rows_loop] in H.
  pose proof (next_row_post dbg be resumed h st Hh Ha) as P. unfold nr_post in P.
  destruct (next_row dbg be resumed h st) as [out st'].
  destruct P as (I1 & I2 & I3 & I4 & I6 & I7 & I8 & I9).
  destruct out; try congruence.
  - destruct (I7 eq_refl) as [L T].
    destruct (rows_loop f dbg be resumed h st') as [[rs s'] stf'] eqn:E.
    inversion H; subst; clear H.
    assert (Ok' : st_ok h st').
    { split; [exact I3|]. rewrite T. destruct (r_end (st_row st')); [discriminate|reflexivity]. }
    destruct (IH st' rs s stf Ok' ltac:(lia) E) as (J1 & J2 & J3 & J4).
    split; [exact J1|]. split; [exact J2|]. split; [|exact J4].
    cbn [chain]. split.
    { unfold floor_of. destruct (st_inseq st) eqn:Ei; [|lia].
      specialize (I4 eq_refl). rewrite row_reset_addr, (Hi eq_refl) in I4. exact I4. }
    split; [exact I3|].
    unfold floor_of in J3. rewrite T in J3. destruct (r_end (st_row st')); exact J3.
  - inversion H; subst. repeat split; auto; discriminate.
  - inversion H; subst. repeat split; auto; discriminate.
Qed.

Lemma st_init_ok h inp : st_ok h (st_init h inp).
Proof. split; cbn; [lia|discriminate]. Qed.

Lemma rows_full_post dbg be h l s stf : hdr_ok h ->
  rows_full dbg be h = (l, s, stf) -> s <> SPanic /\ s <> SFuel /\ chain h 0 l.
Proof.
  intros Hh H. unfold rows_full in H.
  destruct (rows_loop_post dbg be false h Hh (S (length (h_program h))) (st_init h (h_program h)) _ _ _
              (st_init_ok h _) ltac:(cbn; lia) H) as (H1 & H2 & H3 & _).
  repeat split; auto.
Qed.

(* consecutive elements of a list *)
Inductive adjacent {A} : list A -> A -> A -> Prop :=
| adj_here x y l : adjacent (x :: y :: l) x y
| adj_later z l x y : adjacent l x y -> adjacent (z :: l) x y.

Lemma chain_adjacent h : forall l a p q,
  chain h a l -> adjacent l p q -> r_end p = false -> r_addr p <= r_addr q.
Proof.
  induction l as [|x l IH]; intros a p q C A; inversion A; subst.
  - cbn [chain] in C. destruct C as (_ & _ & C). cbn [chain] in C. destruct C as (C & _).
    intros E1. rewrite E1 in C. exact C.
  - cbn [chain] in C. destruct C as (_ & _ & C). eapply IH; eauto.
Qed.

Lemma chain_bounded h : forall l a, chain h a l -> Forall (fun r => r_addr r <= amask h) l.
Proof.
  induction l as [|x l IH]; intros a C; constructor.
  - cbn [chain] in C. tauto.
  - cbn [chain] in C. destruct C as (_ & _ & C). eapply IH; eauto.
Qed.

(* within a sequence (rows up to and including an end_sequence row) addresses never decrease *)
Definition rows_monotone (rs : list row) : Prop :=
  forall r1 r2, adjacent rs r1 r2 -> r_end r1 = false -> r_addr r1 <= r_addr r2.

Lemma chain_monotone h l a : chain h a l -> rows_monotone l /\ Forall (fun r => r_addr r <= amask h) l.
Proof.
  intros C. split; [intros r1 r2; eapply chain_adjacent; eauto|eapply chain_bounded; eauto].
Qed.

Lemma rows_model_full dbg be h : rows_model dbg be h =
  (fst (fst (rows_full dbg be h)), snd (fst (rows_full dbg be h))).
Proof. unfold rows_model. destruct (rows_full dbg be h) as [[l s] stf]. reflexivity. Qed.

(* ---------------------------------------------------------------- LineProgramHeader::parse establishes hdr_ok *)
Ltac bo H := apply bind_ok in H as [? [? H]].

Lemma read_address_size_range bs s r : read_address_size bs = Ok (s, r) -> 1 <= s <= 8.
Proof.
  unfold read_address_size. intros H. bo H. destruct x as [s' r']. 
  destruct ((s' =? 1) || (s' =? 2) || (s' =? 4) || (s' =? 8)) eqn:E; inversion H; subst. lia.
Qed.

Lemma parse_header_ok dbg be asz0 bs h :
  parse_header dbg be asz0 bs = Ok h -> 1 <= asz0 <= 8 -> hdr_ok h.
Proof.
  intros H Hz. unfold parse_header in H.
  bo H. destruct x as [[ul f64] r0].
  bo H. destruct x as [rest0 r1].
  bo H. destruct x as [version rest1].
  destruct ((version <? 2) || (5 <? version)) eqn:Ev; [discriminate|].
  bo H. destruct x as [asz rest2].
  assert (Hasz : 1 <= asz <= 8).
  { destruct (5 <=? version).
    - match goal with E : bind (read_address_size _) _ = Ok _ |- _ => rename E into E1 end.
      bo E1. destruct x as [a rest']. bo E1. destruct x as [seg rest''].
      destruct (negb (seg =? 0)); inversion E1; subst. eapply read_address_size_range; eauto.
    - match goal with E : Ok _ = Ok _ |- _ => inversion E; subst end. exact Hz. }
  bo H. destruct x as [hl rest3].
  bo H. bo H.
  bo H. destruct x1 as [mil rest4].
  destruct (mil =? 0) eqn:Emil; [discriminate|].
  bo H. destruct x1 as [mops rest5].
  destruct (mops =? 0) eqn:Emops; [discriminate|].
  bo H. destruct x1 as [dis rest6].
  bo H. destruct x1 as [lb rest7].
  bo H. destruct x1 as [lr rest8].
  destruct (lr =? 0) eqn:Elr; [discriminate|].
  bo H. destruct x1 as [ob rest9].
  destruct (ob =? 0) eqn:Eob; [discriminate|].
  bo H. destruct x1 as [std rest10].
  bo H. destruct x1 as [[dfmt dirs] rest11].
  bo H. destruct x1 as [[ffmt files] rest12].
  inversion H; subst; clear H.
  unfold hdr_ok, asz_ok; cbn.
  match goal with E : read_u8 rest8 = Ok (ob, _) |- _ => apply read_u8_ok in E as [b [_ ->]] end.
  pose proof (b2n_lt b). repeat split; try lia.
Qed.

(* ---------------------------------------------------------------- the other drivers: no panic, fuel suffices *)
Lemma cont_loop_post dbg be h : hdr_ok h ->
  forall fuel st, r_addr (st_row st) <= amask h -> (length (st_inp st) < fuel)%nat ->
  snd (cont_loop fuel dbg be h st) <> SPanic /\ snd (cont_loop fuel dbg be h st) <> SFuel.
Proof.
  intros Hh. induction fuel as [|f IH]; intros st Ha Hf; [lia|].
  cbn [cont_loop].
  pose proof (next_row_post dbg be false h st Hh Ha) as P. unfold nr_post in P.
  destruct (next_row dbg be false h st) as [out st'].
  destruct P as (I1 & I2 & I3 & I4 & I6 & I7 & I8 & I9).
  destruct out; try congruence.
  - destruct (I7 eq_refl) as [L T]. specialize (IH st' I3 ltac:(lia)).
    destruct (cont_loop f dbg be h st') as [es s]. exact IH.
  - cbn. split; discriminate.
  - specialize (I8 e eq_refl). specialize (IH st' I3 ltac:(lia)).
    destruct (cont_loop f dbg be h st') as [es s]. exact IH.
Qed.

Lemma seq_loop_post dbg be h : hdr_ok h ->
  forall fuel st ins start, r_addr (st_row st) <= amask h -> (length (st_inp st) < fuel)%nat ->
  seq_loop fuel dbg be h st ins start <> Panic /\ seq_loop fuel dbg be h st ins start <> OutOfFuel.
Proof.
  intros Hh. induction fuel as [|f IH]; intros st ins start Ha Hf; [lia|].
  cbn [seq_loop].
  pose proof (next_row_post dbg be false h st Hh Ha) as P. unfold nr_post in P.
  destruct (next_row dbg be false h st) as [out st'].
  destruct P as (I1 & I2 & I3 & I4 & I6 & I7 & I8 & I9).
  destruct out; try congruence; try (split; discriminate).
  destruct (I7 eq_refl) as [L T].
  destruct (r_end (st_row st')).
  - destruct (IH st' (st_inp st') None I3 ltac:(lia)) as [J1 J2].
    destruct (seq_loop f dbg be h st' (st_inp st') None) as [[fs ss]| | |]; cbn; split; congruence.
  - apply IH; [exact I3|lia].
Qed.

Lemma no_panic_all dbg be h : hdr_ok h ->
  (snd (rows_model dbg be h) <> SPanic /\ snd (rows_model dbg be h) <> SFuel) /\
  (snd (rows_cont dbg be h) <> SPanic /\ snd (rows_cont dbg be h) <> SFuel) /\
  (sequences dbg be h <> Panic /\ sequences dbg be h <> OutOfFuel).
Proof.
  intros Hh. split; [|split].
  - rewrite rows_model_full. cbn [snd].
    destruct (rows_full dbg be h) as [[l s] stf] eqn:E. cbn.
    destruct (rows_full_post _ _ _ _ _ _ Hh E) as (H1 & H2 & _). split; assumption.
  - unfold rows_cont. apply cont_loop_post; [exact Hh|cbn; lia|cbn; lia].
  - unfold sequences. apply seq_loop_post; [exact Hh|cbn; lia|cbn; lia].
Qed.

(* ---------------------------------------------------------------- the monotonicity clause, every input *)
Lemma monotone_any_input_lemma dbg be h : hdr_ok h ->
  rows_monotone (fst (rows_model dbg be h)) /\
  Forall (fun r => r_addr r <= amask h) (fst (rows_model dbg be h)).
Proof.
  intros Hh. rewrite rows_model_full. cbn [fst].
  destruct (rows_full dbg be h) as [[l s] stf] eqn:E. cbn [fst].
  destruct (rows_full_post _ _ _ _ _ _ Hh E) as (_ & _ & C). eapply chain_monotone; eauto.
Qed.

Lemma monotone_any_unit_lemma dbg be asz0 bs h : 1 <= asz0 <= 8 ->
  parse_header dbg be asz0 bs = Ok h ->
  rows_monotone (fst (rows_model dbg be h)) /\
  Forall (fun r => r_addr r <= amask h) (fst (rows_model dbg be h)) /\
  snd (rows_model dbg be h) <> SPanic /\ snd (rows_model dbg be h) <> SFuel.
Proof.
  intros Hz H. pose proof (parse_header_ok _ _ _ _ _ H Hz) as Hh.
  destruct (monotone_any_input_lemma dbg be h Hh) as [M B].
  destruct (no_panic_all dbg be h Hh) as [[P1 P2] _]. repeat split; assumption.
Qed.

(* the program of the repaired defect (fixed: 9872ff0): set_address 0x1000; copy; set_address 0 (tombstone);
   end_sequence; set_address 0x500; copy; end_sequence. The tombstoned end_sequence row is now returned
   (at the last valid address), so the two sequences stay apart. *)
Definition witness_header : header :=
  mk_header false 4 4 0 0 1 1 true (-5) 14 13
    [x00; x01; x01; x01; x01; x00; x00; x00; x01; x00; x00; x01] [] [] [] []
    [x00; x05; x02; x00; x10; x00; x00;  x01;  x00; x05; x02; x00; x00; x00; x00;  x00; x01; x01;
     x00; x05; x02; x00; x05; x00; x00;  x01;  x00; x01; x01].

Lemma witness_hdr_ok : hdr_ok witness_header.
Proof. unfold hdr_ok, asz_ok; cbn. lia. Qed.

Lemma witness_rows : forall dbg,
  map (fun r => (r_addr r, r_end r)) (fst (rows_model dbg false witness_header)) =
  [(4096, false); (4096, true); (1280, false); (1280, true)].
Proof. intros [|]; vm_compute; reflexivity. Qed.

(* a non-trivial program: set_address 0x1000; special 0x4b; advance_pc 3; special 0x20; end_sequence;
   set_address 0x800; copy; end_sequence *)
Definition sample_header : header :=
  mk_header false 4 4 0 0 1 1 true (-5) 14 13
    [x00; x01; x01; x01; x01; x00; x00; x00; x01; x00; x00; x01] [] [] [] []
    [x00; x05; x02; x00; x10; x00; x00;  x4b;  x02; x03;  x20;  x00; x01; x01;
     x00; x05; x02; x00; x08; x00; x00;  x01;  x00; x01; x01].

Lemma sample_rows : forall dbg,
  map (fun r => (r_addr r, r_line r, r_end r)) (fst (rows_model dbg false sample_header)) =
  [(4100, 2, false); (4104, 2, false); (4104, 2, true); (2048, 1, false); (2048, 1, true)].
Proof. intros [|]; vm_compute; reflexivity. Qed.

Lemma parse_insn_consumes_lemma dbg be h inp i rest :
  parse_insn dbg be h inp = Ok (i, rest) ->
  (exists p, inp = p ++ rest) /\ (length rest < length inp)%nat /\ insn_ok h i.
Proof. intros H. exact (good_ok _ _ _ (parse_insn_good dbg be h inp) H). Qed.

Lemma no_panic_execute_lemma dbg h r i : hdr_ok h -> insn_ok h i -> r_addr r <= amask h ->
  execute dbg h r i <> Panic /\ execute dbg h r i <> OutOfFuel.
Proof. intros H1 H2 H3. exact (good_np _ _ (execute_good dbg h r i H1 H2 H3)). Qed.

Lemma hdr_ok_examples : hdr_ok sample_header /\ hdr_ok witness_header.
Proof. split; [unfold hdr_ok, asz_ok; cbn; repeat split; discriminate|exact witness_hdr_ok]. Qed.
