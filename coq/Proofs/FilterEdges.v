(* Proofs/FilterEdges.v — FilterUnit::read_entry builds exactly the dependency graph of Spec/FilterSpec.v:
   the parent stack finds the tree parent, add_entry/add_edge store the three kinds of edges. *)
From Coq Require Import List NArith ZArith Bool Lia.
Require Import GV.Base.Res GV.Spec.Graph GV.Model.Filter GV.Spec.FilterSpec GV.Proofs.FilterProofs.
Import ListNotations.
Local Open Scope N_scope.

(* ========================================================================================== *)
(* nested induction on trees                                                                   *)
Section TreeInd.
  Variable P : tree -> Prop.
  Variable Q : list tree -> Prop.
  Hypothesis HN : forall e ks, Q ks -> P (Node e ks).
  Hypothesis Hnil : Q [].
  Hypothesis Hcons : forall t l, P t -> Q l -> Q (t :: l).
  Fixpoint tree_ind2 (t : tree) : P t :=
    match t with
    | Node e ks =>
        HN e ks ((fix go (l : list tree) : Q l :=
                    match l with
                    | [] => Hnil
                    | t' :: l' => Hcons t' l' (tree_ind2 t') (go l')
                    end) ks)
    end.
  Lemma forest_ind2 : forall l, Q l.
  Proof. induction l as [|t l IH]; [exact Hnil|]. apply Hcons; auto. apply tree_ind2. Qed.
End TreeInd.

Lemma flatten_tree_eq : forall d e ks,
  flatten_tree d (Node e ks) =
  {| r_ent := e; r_depth := d; r_kids := negb (is_nil ks) |} :: flatten_list (d + 1) ks.
Proof.
  intros d e ks. cbn [flatten_tree]. f_equal.
  induction ks as [|k ks IH]; cbn [flatten_list]; auto. now rewrite IH.
Qed.

Lemma tree_pairs_eq : forall top e ks,
  tree_pairs top (Node e ks) = (e, top) :: forest_pairs (Some e) ks.
Proof.
  intros top e ks. cbn [tree_pairs]. f_equal.
  induction ks as [|k ks IH]; cbn [forest_pairs]; auto. now rewrite IH.
Qed.

(* ========================================================================================== *)
(* the parent stack computes the tree parent                                                   *)

Definition pview := option (N * N).     (* unit offset and tag of the parent *)
Definition fview (p : option fparent) : pview :=
  match p with Some p => Some (fp_off p, fp_tag p) | None => None end.
Definition eview (p : option entry) : pview :=
  match p with Some e => Some (e_off e, e_tag e) | None => None end.
Definition of_view (pv : pview) : option fparent :=
  match pv with Some (o, t) => Some {| fp_depth := 0; fp_off := o; fp_tag := t |} | None => None end.
Definition ev (p : entry * option entry) : entry * pview := (fst p, eview (snd p)).

Lemma fu_deps_view : forall rf dbg u e p d,
  fu_deps rf dbg u e p d = fu_deps rf dbg u e (of_view (fview p)) d.
Proof. intros. destruct p as [[dp po pt]|]; reflexivity. Qed.

(* entries with the parent the stack yields, and the stack afterwards *)
Fixpoint annotv (ps : list fparent) (rs : list rawent) : list (entry * pview) * list fparent :=
  match rs with
  | [] => ([], ps)
  | r :: rs' =>
      let a := annotv (fst (fu_parent ps r)) rs' in
      ((r_ent r, fview (snd (fu_parent ps r))) :: fst a, snd a)
  end.

Lemma annotv_app : forall a b ps,
  annotv ps (a ++ b) =
  (fst (annotv ps a) ++ fst (annotv (snd (annotv ps a)) b), snd (annotv (snd (annotv ps a)) b)).
Proof.
  induction a as [|r a IH]; intros b ps; cbn [annotv app fst snd].
  - now destruct (annotv ps b).
  - rewrite IH. reflexivity.
Qed.

Lemma pop_ge_idem : forall d ps, pop_ge d (pop_ge d ps) = pop_ge d ps.
Proof.
  intros d ps. induction ps as [|p ps IH]; cbn; auto.
  destruct (d <=? fp_depth p)%Z eqn:E; auto. cbn. now rewrite E.
Qed.

Lemma pop_ge_le : forall d d' ps, (d <= d')%Z -> pop_ge d (pop_ge d' ps) = pop_ge d ps.
Proof.
  intros d d' ps Hle. induction ps as [|p ps IH]; cbn; auto.
  destruct (d' <=? fp_depth p)%Z eqn:E.
  - rewrite IH. assert (H : (d <=? fp_depth p)%Z = true) by (apply Z.leb_le; apply Z.leb_le in E; lia).
    now rewrite H.
  - reflexivity.
Qed.

Definition stack_spec (t_annot : list (entry * pview) * list fparent) (d : Z) (ps : list fparent)
           (expect : list (entry * pview)) : Prop :=
  fst t_annot = expect /\ pop_ge d (snd t_annot) = pop_ge d ps.

Lemma annot_forest : forall ts d ps top,
  fview (hd_error (pop_ge d ps)) = eview top ->
  stack_spec (annotv ps (flatten_list d ts)) d ps (map ev (forest_pairs top ts)).
Proof.
  intros ts.
  apply (forest_ind2
    (fun t => forall d ps top, fview (hd_error (pop_ge d ps)) = eview top ->
       stack_spec (annotv ps (flatten_tree d t)) d ps (map ev (tree_pairs top t)))
    (fun l => forall d ps top, fview (hd_error (pop_ge d ps)) = eview top ->
       stack_spec (annotv ps (flatten_list d l)) d ps (map ev (forest_pairs top l)))).
  - (* Node *)
    intros e ks IHks d ps top Htop.
    rewrite flatten_tree_eq, tree_pairs_eq. cbn [annotv map fst snd].
    unfold fu_parent at 1 2 3. cbn [r_depth r_kids r_ent fst snd].
    destruct ks as [|k ks'].
    + cbn [is_nil negb flatten_list annotv forest_pairs map fst snd]. split.
      * cbn [fst]. unfold ev at 1. cbn [fst snd]. now rewrite Htop.
      * cbn [snd]. apply pop_ge_idem.
    + assert (Hnn : negb (is_nil (k :: ks')) = true) by reflexivity.
      set (ks := k :: ks') in *. rewrite !Hnn. clear Hnn.
      set (me := {| fp_depth := d; fp_off := e_off e; fp_tag := e_tag e |}).
      assert (Hpop : pop_ge (d + 1) (me :: pop_ge d ps) = me :: pop_ge d ps).
      { cbn. assert (H : (d + 1 <=? d)%Z = false) by (apply Z.leb_gt; lia). now rewrite H. }
      destruct (IHks (d + 1)%Z (me :: pop_ge d ps) (Some e)) as [H1 H2].
      { rewrite Hpop. reflexivity. }
      split.
      * cbn [fst]. unfold ev at 1. cbn [fst snd]. rewrite Htop. f_equal. exact H1.
      * cbn [snd].
        match goal with |- pop_ge d ?X = _ =>
          transitivity (pop_ge d (pop_ge (d + 1) X)); [symmetry; apply pop_ge_le; lia|] end.
        rewrite H2, Hpop.
        cbn. rewrite Z.leb_refl. apply pop_ge_idem.
  - intros d ps top _. cbn. split; reflexivity.
  - intros t l IHt IHl d ps top Htop.
    cbn [flatten_list forest_pairs]. rewrite annotv_app, map_app.
    destruct (IHt d ps top Htop) as [H1 H2].
    destruct (IHl d (snd (annotv ps (flatten_tree d t))) top) as [H3 H4].
    { rewrite H2. exact Htop. }
    split; cbn [fst snd].
    + now rewrite H1, H3.
    + now rewrite H4, H2.
Qed.

(* ========================================================================================== *)
(* the dependency part as a fold over (unit, DIE, parent view)                                 *)

Definition aelt := (unitd * entry * pview)%type.

Definition step_deps rf (dbg : bool) (req : N -> bool) (d : deps) (a : aelt) : res deps :=
  let '(u, e, pv) := a in
  let* d' := fu_deps rf dbg u e (of_view pv) d in
  Ok (if req (sec u (e_off e)) then require_entry (sec u (e_off e)) d' else d').

Fixpoint fold_deps rf dbg req (d : deps) (al : list aelt) : res deps :=
  match al with
  | [] => Ok d
  | a :: al' => let* d' := step_deps rf dbg req d a in fold_deps rf dbg req d' al'
  end.

Lemma fold_deps_app : forall rf dbg req a b d,
  fold_deps rf dbg req d (a ++ b) =
  (let* d' := fold_deps rf dbg req d a in fold_deps rf dbg req d' b).
Proof.
  intros rf dbg req a. induction a as [|x a IH]; intros b d; cbn [app fold_deps]; auto.
  destruct (step_deps rf dbg req d x); cbn [bind]; auto.
Qed.

Definition tag_unit (u : unitd) (p : entry * pview) : aelt := (u, fst p, snd p).

Lemma fu_entries_fold : forall rf dbg req u rs ps d,
  fu_entries rf dbg req u (ps, d) rs =
  (let* d' := fold_deps rf dbg req d (map (tag_unit u) (fst (annotv ps rs))) in
   Ok (snd (annotv ps rs), d')).
Proof.
  intros rf dbg req u rs. induction rs as [|r rs IH]; intros ps d.
  - reflexivity.
  - cbn [fu_entries annotv map fst snd fold_deps].
    unfold fu_read_entry. destruct (fu_parent ps r) as [ps' parent] eqn:Ep. cbn [fst snd].
    unfold tag_unit at 1. cbn [fst snd step_deps].
    rewrite fu_deps_view.
    destruct (fu_deps rf dbg u (r_ent r) (of_view (fview parent)) d) as [d'| | |]; cbn [bind]; auto.
Qed.

Definition unit_al (u : unitd) : list aelt := map (tag_unit u) (map ev (unit_pairs u)).
Definition section_al (units : list unitd) : list aelt := flat_map unit_al units.

Lemma filter_section_fold : forall rf dbg req units d,
  filter_section rf dbg req units d = fold_deps rf dbg req d (section_al units).
Proof.
  intros rf dbg req units. induction units as [|u us IH]; intros d.
  - reflexivity.
  - cbn [filter_section section_al flat_map]. rewrite fold_deps_app, fu_entries_fold.
    destruct (annot_forest (u_kids u) 1%Z [] None eq_refl) as [H1 _].
    rewrite H1. fold (unit_pairs u). fold (unit_al u).
    destruct (fold_deps rf dbg req d (unit_al u)) as [d'| | |]; cbn [bind snd]; auto.
Qed.

(* ========================================================================================== *)
(* what add_entry / add_edge store                                                             *)

Definition dget (d : deps) (x : N) : option (list N) := em_get x (d_edges d).

Lemma add_entry_fresh : forall dbg eo ds d, ~ dep_valid d eo ->
  exists d', add_entry dbg eo ds d = Ok d' /\ d_required d' = d_required d /\
             forall x, dget d' x = if x =? eo then Some ds else dget d x.
Proof.
  intros dbg eo ds d Hfresh. unfold add_entry.
  destruct (em_get eo (d_edges d)) as [l|] eqn:E; [exfalso; apply Hfresh; exists l; exact E|].
  eexists. split; [reflexivity|]. split; [reflexivity|].
  intros x. unfold dget. cbn [d_edges]. destruct (x =? eo) eqn:Ex.
  - apply N.eqb_eq in Ex. subst. apply em_get_insert_same.
  - apply N.eqb_neq in Ex. now apply em_get_insert_other.
Qed.

Lemma add_edge_ok : forall po eo d, dep_valid d po ->
  exists d', add_edge po eo d = Ok d' /\ d_required d' = d_required d /\
             forall x, dget d' x =
                       if x =? po then match dget d x with Some l => Some (l ++ [eo]) | None => None end
                       else dget d x.
Proof.
  intros po eo d [l Hl]. destruct (em_push_some po eo _ _ Hl) as [m' Hm'].
  unfold add_edge. rewrite Hm'. eexists. split; [reflexivity|]. split; [reflexivity|].
  intros x. unfold dget. cbn [d_edges]. destruct (x =? po) eqn:Ex.
  - apply N.eqb_eq in Ex. subst. rewrite Hl. eapply em_push_get_same; eauto.
  - apply N.eqb_neq in Ex. eapply em_push_get_other; eauto.
Qed.

(* the edges one DIE contributes *)
Definition a_off (a : aelt) : N := let '(u, e, _) := a in sec u (e_off e).

Definition a_edge (rf : unitd -> site -> list N) (a : aelt) (x y : N) : Prop :=
  let '(u, e, pv) := a in
  (x = sec u (e_off e) /\ In y (flat_map (rf u) (e_sites e))) \/
  match pv with
  | Some (po, pt) =>
      (x = sec u (e_off e) /\ y = sec u po) \/
      (x = sec u po /\ y = sec u (e_off e) /\
       pt <> DW_TAG_namespace /\ has_die_back_edge (e_tag e) (e_decl e) = true)
  | None => False
  end.

Definition al_edge rf (al : list aelt) (x y : N) : Prop := exists a, In a al /\ a_edge rf a x y.

Definition parent_avail (avail : N -> Prop) (a : aelt) : Prop :=
  let '(u, _, pv) := a in match pv with Some (po, _) => avail (sec u po) | None => True end.

Lemma step_char : forall rf dbg req d0 a,
  ~ dep_valid d0 (a_off a) -> parent_avail (dep_valid d0) a ->
  exists d1, step_deps rf dbg req d0 a = Ok d1 /\
    (forall x, dep_valid d1 x <-> dep_valid d0 x \/ x = a_off a) /\
    (forall x y, dep_edge d1 x y <-> dep_edge d0 x y \/ a_edge rf a x y) /\
    d_required d1 = d_required d0 ++ (if req (a_off a) then [a_off a] else []).
Proof.
  intros rf dbg req d0 [[u e] pv] Hfresh Hpar. cbn [a_off] in *.
  set (eo := sec u (e_off e)) in *.
  set (ds := flat_map (rf u) (e_sites e)).
  assert (Hnone : dget d0 eo = None).
  { unfold dget. destruct (em_get eo (d_edges d0)) as [l|] eqn:E; auto.
    exfalso. apply Hfresh. exists l. exact E. }
  (* in every case the resulting map has this shape *)
  assert (Hshape : exists d' cond po' extra,
    fu_deps rf dbg u e (of_view pv) d0 = Ok d' /\ d_required d' = d_required d0 /\
    po' <> eo /\
    (cond = true -> exists l0, dget d0 po' = Some l0) /\
    (forall x, dget d' x =
       if x =? eo then Some (ds ++ extra)
       else if cond && (x =? po') then match dget d0 x with Some l => Some (l ++ [eo]) | None => None end
       else dget d0 x) /\
    (forall x y, a_edge rf (u, e, pv) x y <->
       (x = eo /\ In y (ds ++ extra)) \/ (cond = true /\ x = po' /\ y = eo))).
  { destruct pv as [[po pt]|]; cbn [of_view fu_deps fp_off fp_tag parent_avail] in *.
    - fold eo. fold ds. set (po' := sec u po) in *.
      assert (Hne : po' <> eo).
      { intro Heq. apply Hfresh. rewrite <- Heq. exact Hpar. }
      set (cond := negb (pt =? DW_TAG_namespace) && has_die_back_edge (e_tag e) (e_decl e)).
      assert (Hcond : cond = true <-> pt <> DW_TAG_namespace /\ has_die_back_edge (e_tag e) (e_decl e) = true).
      { unfold cond. rewrite andb_true_iff, negb_true_iff, N.eqb_neq. tauto. }
      assert (Hedge : forall x y, a_edge rf (u, e, Some (po, pt)) x y <->
                (x = eo /\ In y (ds ++ [po'])) \/ (cond = true /\ x = po' /\ y = eo)).
      { intros x y. cbn [a_edge]. fold eo ds po'. rewrite in_app_iff. cbn [In]. rewrite Hcond.
        intuition. }
      destruct cond eqn:Ec.
      + destruct (add_edge_ok po' eo d0 Hpar) as [d1 [H1 [H1r H1g]]]. rewrite H1. cbn [bind].
        assert (Hf1 : ~ dep_valid d1 eo).
        { intros [l Hl]. unfold dget in H1g. rewrite H1g in Hl.
          destruct (eo =? po'); unfold dget in Hnone; rewrite Hnone in Hl; discriminate. }
        destruct (add_entry_fresh dbg eo (ds ++ [po']) d1 Hf1) as [d2 [H2 [H2r H2g]]].
        exists d2, true, po', [po']. split; [exact H2|]. split; [congruence|]. split; [exact Hne|].
        split; [intros _; exact Hpar|]. split; [|exact Hedge].
        intros x. rewrite H2g. destruct (x =? eo); auto. cbn [andb]. apply H1g.
      + cbn [bind].
        destruct (add_entry_fresh dbg eo (ds ++ [po']) d0 Hfresh) as [d2 [H2 [H2r H2g]]].
        exists d2, false, po', [po']. split; [exact H2|]. split; [exact H2r|]. split; [exact Hne|].
        split; [discriminate|]. split; [|exact Hedge].
        intros x. rewrite H2g. destruct (x =? eo); auto.
    - fold eo. fold ds.
      destruct (add_entry_fresh dbg eo ds d0 Hfresh) as [d2 [H2 [H2r H2g]]].
      exists d2, false, (eo + 1), []. split; [exact H2|]. split; [exact H2r|]. split; [lia|].
      split; [discriminate|]. split.
      + intros x. rewrite H2g, app_nil_r. destruct (x =? eo); auto.
      + intros x y. cbn [a_edge]. fold eo ds. rewrite app_nil_r. intuition discriminate. }
  destruct Hshape as [d' [cond [po' [extra [Hfu [Hr [Hne [Hl0 [Hg Hedge]]]]]]]]].
  unfold step_deps. rewrite Hfu. cbn [bind]. fold eo.
  set (d1 := if req eo then require_entry eo d' else d').
  assert (Hg1 : forall x, dget d1 x = dget d' x) by (intros x; unfold d1; destruct (req eo); reflexivity).
  exists d1. split; [reflexivity|]. split; [|split].
  - intros x. unfold dep_valid. fold (dget d1 x) (dget d0 x). rewrite Hg1, Hg.
    destruct (x =? eo) eqn:Ex.
    + apply N.eqb_eq in Ex. split; [auto|]. intros _. eauto.
    + apply N.eqb_neq in Ex. destruct (cond && (x =? po')) eqn:Ec.
      * apply andb_true_iff in Ec. destruct Ec as [Ec Exp]. apply N.eqb_eq in Exp. subst x.
        destruct (Hl0 Ec) as [l0 Hl0']. rewrite Hl0'. split; [eauto|]. intros _. eauto.
      * split; [auto|]. intros [H|H]; [exact H|contradiction].
  - intros x y. rewrite Hedge. unfold dep_edge. fold (dget d1 x) (dget d0 x). rewrite Hg1, Hg.
    destruct (x =? eo) eqn:Ex.
    + apply N.eqb_eq in Ex. subst x. rewrite Hnone. split.
      * intros [l [Hl Hy]]. inversion Hl; subst. right. left. auto.
      * intros [[l [Hl _]]|[[_ Hy]|[_ [Hx _]]]]; [discriminate| |congruence]. eauto.
    + apply N.eqb_neq in Ex. destruct (cond && (x =? po')) eqn:Ec.
      * apply andb_true_iff in Ec. destruct Ec as [Ec Exp]. apply N.eqb_eq in Exp. subst x.
        destruct (Hl0 Ec) as [l0 Hl0']. rewrite Hl0'. split.
        -- intros [l [Hl Hy]]. inversion Hl; subst. apply in_app_iff in Hy.
           destruct Hy as [Hy|[<-|[]]]; [left; eauto|]. right. right. auto.
        -- intros [[l [Hl Hy]]|[[Hx _]|[_ [_ Hy]]]]; [|contradiction|].
           ++ inversion Hl; subst. exists (l ++ [eo]). split; auto. apply in_app_iff. auto.
           ++ subst y. exists (l0 ++ [eo]). split; auto. apply in_app_iff. right. now left.
      * split; [auto|]. intros [H|[[Hx _]|[Hc [Hx _]]]]; [exact H|contradiction|].
        subst x. rewrite Hc, N.eqb_refl in Ec. discriminate.
  - unfold d1. destruct (req eo); cbn [require_entry d_required]; rewrite Hr; auto.
    now rewrite app_nil_r.
Qed.

(* ========================================================================================== *)
(* the whole fold                                                                              *)

Fixpoint parents_ok (avail : N -> Prop) (al : list aelt) : Prop :=
  match al with
  | [] => True
  | a :: al' => parent_avail avail a /\ parents_ok (fun x => avail x \/ x = a_off a) al'
  end.

Lemma parent_avail_ext : forall (A B : N -> Prop) a,
  (forall x, A x -> B x) -> parent_avail A a -> parent_avail B a.
Proof. intros A B [[u e] [[po pt]|]] H; cbn; auto. Qed.

Lemma parents_ok_ext : forall al (A B : N -> Prop),
  (forall x, A x -> B x) -> parents_ok A al -> parents_ok B al.
Proof.
  induction al as [|a al IH]; intros A B H; cbn; auto.
  intros [H1 H2]. split; [eapply parent_avail_ext; eauto|].
  eapply IH; [|exact H2]. intros x [Hx|Hx]; auto.
Qed.

Lemma parents_ok_app : forall l1 l2 (A : N -> Prop),
  parents_ok A l1 -> parents_ok (fun x => A x \/ In x (map a_off l1)) l2 ->
  parents_ok A (l1 ++ l2).
Proof.
  induction l1 as [|a l1 IH]; intros l2 A H1 H2; cbn [app].
  - eapply parents_ok_ext; [|exact H2]. intros x [Hx|[]]; auto.
  - destruct H1 as [Ha H1]. split; auto. apply IH; auto.
    eapply parents_ok_ext; [|exact H2]. cbn [map In].
    intros x [Hx|[Hx|Hx]]; auto.
Qed.

Lemma al_edge_cons : forall rf a al x y,
  al_edge rf (a :: al) x y <-> a_edge rf a x y \/ al_edge rf al x y.
Proof.
  intros. unfold al_edge. split.
  - intros [a' [[<-|Hin] He]]; [now left|]. right. eauto.
  - intros [He|[a' [Hin He]]]; [exists a; split; auto; now left|]. exists a'; split; auto. now right.
Qed.

Lemma fold_deps_char : forall rf dbg req al d0,
  NoDup (map a_off al) -> (forall a, In a al -> ~ dep_valid d0 (a_off a)) ->
  parents_ok (dep_valid d0) al ->
  exists d, fold_deps rf dbg req d0 al = Ok d /\
    (forall x, dep_valid d x <-> dep_valid d0 x \/ In x (map a_off al)) /\
    (forall x y, dep_edge d x y <-> dep_edge d0 x y \/ al_edge rf al x y) /\
    d_required d = d_required d0 ++ filter req (map a_off al).
Proof.
  intros rf dbg req al. induction al as [|a al IH]; intros d0 Hnd Hfresh Hpar.
  - exists d0. cbn. split; [reflexivity|]. split; [tauto|]. split.
    + intros x y. split; [auto|]. intros [H|[a [[] _]]]; exact H.
    + now rewrite app_nil_r.
  - cbn [map] in Hnd. inversion Hnd as [|? ? Hnotin Hnd']; subst.
    destruct Hpar as [Hpa Hpar].
    destruct (step_char rf dbg req d0 a (Hfresh a (or_introl eq_refl)) Hpa)
      as [d1 [Hstep [Hv1 [He1 Hr1]]]].
    destruct (IH d1 Hnd') as [d [Hfold [Hv [He Hr]]]].
    + intros a' Hin Hval. apply Hv1 in Hval. destruct Hval as [Hval|Heq].
      * eapply Hfresh; [right; exact Hin|exact Hval].
      * apply Hnotin. rewrite <- Heq. now apply in_map.
    + eapply parents_ok_ext; [|exact Hpar]. intros x Hx. now apply Hv1.
    + exists d. cbn [fold_deps]. rewrite Hstep. cbn [bind]. split; [exact Hfold|].
      split; [|split].
      * intros x. rewrite Hv, Hv1. cbn [map In]. intuition.
      * intros x y. rewrite He, He1, al_edge_cons. tauto.
      * rewrite Hr, Hr1, <- app_assoc. cbn [map filter]. now destruct (req (a_off a)).
Qed.

Lemma parents_ok_forest : forall u ts top (A : N -> Prop),
  match top with Some pe => A (sec u (e_off pe)) | None => True end ->
  parents_ok A (map (tag_unit u) (map ev (forest_pairs top ts))).
Proof.
  intros u ts.
  apply (forest_ind2
    (fun t => forall top (A : N -> Prop),
       match top with Some pe => A (sec u (e_off pe)) | None => True end ->
       parents_ok A (map (tag_unit u) (map ev (tree_pairs top t))))
    (fun l => forall top (A : N -> Prop),
       match top with Some pe => A (sec u (e_off pe)) | None => True end ->
       parents_ok A (map (tag_unit u) (map ev (forest_pairs top l))))).
  - intros e ks IH top A Htop. rewrite tree_pairs_eq. cbn [map parents_ok]. split.
    + unfold tag_unit, ev. cbn [fst snd parent_avail]. destruct top as [pe|]; cbn [eview]; auto.
    + apply IH. right. reflexivity.
  - intros top A _. exact I.
  - intros t l IHt IHl top A Htop. cbn [forest_pairs]. rewrite !map_app.
    apply parents_ok_app; [apply IHt; exact Htop|].
    apply IHl. destruct top; auto.
Qed.

Lemma parents_ok_section : forall units (A : N -> Prop), parents_ok A (section_al units).
Proof.
  induction units as [|u us IH]; intros A; [exact I|].
  cbn [section_al flat_map]. apply parents_ok_app; [|apply IH].
  unfold unit_al, unit_pairs. now apply parents_ok_forest.
Qed.

Lemma section_al_offsets : forall units, map a_off (section_al units) = section_offsets units.
Proof.
  induction units as [|u us IH]; [reflexivity|].
  cbn [section_al section_offsets flat_map]. rewrite map_app. f_equal; [|exact IH].
  unfold unit_al. rewrite !map_map. apply map_ext. intros [e par]. reflexivity.
Qed.

Lemma in_section_al : forall units a,
  In a (section_al units) <->
  exists u e par, occurs units u e par /\ a = (u, e, eview par).
Proof.
  intros units a. unfold section_al, occurs. rewrite in_flat_map. split.
  - intros [u [Hu Ha]]. unfold unit_al in Ha. rewrite map_map in Ha.
    apply in_map_iff in Ha. destruct Ha as [[e par] [Heq Hin]].
    exists u, e, par. split; [split; auto|]. now rewrite <- Heq.
  - intros [u [e [par [[Hu Hin] ->]]]]. exists u. split; auto.
    unfold unit_al. rewrite map_map. apply in_map_iff. exists (e, par). split; auto.
Qed.

Lemma section_al_valid : forall units x,
  In x (map a_off (section_al units)) <-> f_valid units x.
Proof.
  intros units x. rewrite in_map_iff. unfold f_valid. split.
  - intros [a [Hx Ha]]. apply in_section_al in Ha. destruct Ha as [u [e [par [Hocc ->]]]].
    exists u, e, par. split; auto.
  - intros [u [e [par [Hocc ->]]]]. exists (u, e, eview par). split; [reflexivity|].
    apply in_section_al. eauto.
Qed.

Lemma section_al_edge : forall rf units x y,
  al_edge rf (section_al units) x y <-> f_edge rf units x y.
Proof.
  intros rf units x y. unfold al_edge. split.
  - intros [a [Ha He]]. apply in_section_al in Ha. destruct Ha as [u [e [par [Hocc ->]]]].
    cbn [a_edge] in He. destruct He as [[-> Hy]|He].
    + apply in_flat_map in Hy. destruct Hy as [s [Hs Hy]]. eapply fe_ref; eauto.
    + destruct par as [pe|]; cbn [eview] in He; [|contradiction].
      destruct He as [[-> ->]|[-> [-> [Hns Hbe]]]].
      * eapply fe_parent; eauto.
      * eapply fe_member; eauto.
  - intros He. destruct He as [u e par s y Hocc Hs Hy|u e pe Hocc|u e pe Hocc Hns Hbe].
    + exists (u, e, eview par). split; [apply in_section_al; eauto|].
      cbn [a_edge]. left. split; auto. apply in_flat_map. eauto.
    + exists (u, e, eview (Some pe)). split; [apply in_section_al; eauto|].
      cbn [a_edge eview]. right. left. auto.
    + exists (u, e, eview (Some pe)). split; [apply in_section_al; eauto|].
      cbn [a_edge eview]. right. right. auto.
Qed.

(* FilterUnitSection + FilterUnit::read_entry build the specification graph *)
Lemma filter_graph : forall rf dbg req units, wf_offsets units ->
  exists d, filter_section rf dbg req units deps_empty = Ok d /\
    (forall x, dep_valid d x <-> f_valid units x) /\
    (forall x y, dep_edge d x y <-> f_edge rf units x y) /\
    (forall x, dep_required d x <-> f_valid units x /\ req x = true).
Proof.
  intros rf dbg req units Hwf. rewrite filter_section_fold.
  assert (Hempty : forall x, ~ dep_valid deps_empty x) by (intros x [l Hl]; discriminate).
  destruct (fold_deps_char rf dbg req (section_al units) deps_empty) as [d [Hf [Hv [He Hr]]]].
  - rewrite section_al_offsets. exact Hwf.
  - intros a _. apply Hempty.
  - apply parents_ok_section.
  - exists d. split; [exact Hf|]. split; [|split].
    + intros x. rewrite Hv, section_al_valid. split; [intros [H|H]; auto; destruct (Hempty _ H)|auto].
    + intros x y. rewrite He, section_al_edge. split; [intros [[l [Hl _]]|H]; auto; discriminate|auto].
    + intros x. unfold dep_required. rewrite Hr. cbn [deps_empty d_required app].
      rewrite filter_In, section_al_valid. tauto.
Qed.

Lemma reach_ext : forall (V V' : N -> Prop) (E E' : N -> N -> Prop) (R R' : N -> Prop),
  (forall x, V x <-> V' x) -> (forall x y, E x y <-> E' x y) ->
  (forall x, V x -> (R x <-> R' x)) ->
  forall x, reach V E R x <-> reach V' E' R' x.
Proof.
  intros V V' E E' R R' HV HE HR x. split; intro H.
  - induction H as [x Hr Hv|x y Hx IH He Hv].
    + apply reach_req; [apply HR; auto|now apply HV].
    + eapply reach_edge; [exact IH|now apply HE|now apply HV].
  - induction H as [x Hr Hv|x y Hx IH He Hv].
    + apply HV in Hv. apply reach_req; [apply HR; auto|auto].
    + eapply reach_edge; [exact IH|now apply HE|now apply HV].
Qed.

(* the reserved offsets are the reachability closure in the specification graph *)
Lemma reserved_char : forall rf dbg req units, wf_offsets units ->
  exists S, reserved rf dbg req units = Ok S /\ strict_sorted S /\
    forall x, In x S <-> reach (f_valid units) (f_edge rf units) (fun x => req x = true) x.
Proof.
  intros rf dbg req units Hwf. unfold reserved.
  destruct (filter_graph rf dbg req units Hwf) as [d [Hf [Hv [He Hr]]]].
  rewrite Hf. cbn [bind].
  destruct (get_reachable_correct d) as [S [HS [Hsort Hin]]].
  exists S. split; [exact HS|]. split; [exact Hsort|].
  intros x. rewrite Hin. apply reach_ext; auto.
  intros y Hy. rewrite Hr. apply Hv in Hy. tauto.
Qed.
