From Coq Require Import List NArith ZArith Bool Lia Permutation.
From Coq Require Import ZifyBool ZifyN ZifyNat.
From Coq.Strings Require Import Byte.
Require Import GV.Base.Res GV.Base.Byt GV.Base.Ints GV.Spec.LebSpec GV.Model.Leb GV.Model.Prim GV.Spec.CfaSpec GV.Model.CfiRun.
Import ListNotations.
Local Open Scope N_scope.
Local Arguments N.add : simpl never.
Local Arguments N.sub : simpl never.
Local Arguments N.mul : simpl never.
Local Arguments N.shiftl : simpl never.
Local Arguments N.shiftr : simpl never.
Local Arguments N.land : simpl never.
Local Arguments N.lor : simpl never.
Local Arguments N.pow : simpl never.

(* ---------- A: readers consume input, never panic ---------- *)

(* a reader result is "tame": an error, or a value with a strictly shorter rest *)
Definition tame {A} (bs : list byte) (r : res (A * list byte)) : Prop :=
  match r with
  | Ok (_, rest) => (length rest < length bs)%nat
  | Err _ => True
  | Panic => False
  | OutOfFuel => False
  end.
(* same, allowing no consumption *)
Definition tame0 {A} (bs : list byte) (r : res (A * list byte)) : Prop :=
  match r with
  | Ok (_, rest) => (length rest <= length bs)%nat
  | Err _ => True
  | Panic => False
  | OutOfFuel => False
  end.

Lemma has_cont_at_63 b : b = 0 \/ b = 1 -> has_cont b = false.
Proof. intros [->| ->]; reflexivity. Qed.

Lemma shl64_ok dbg x s : s < 64 -> exists v, shl64 dbg x s = Ok v.
Proof. intros H. unfold shl64. destruct (64 <=? s) eqn:E; [lia|]. eauto. Qed.

Lemma uleb_loop_tame dbg : forall bs result shift,
  shift <= 63 -> shift mod 7 = 0 -> tame bs (uleb_loop dbg result shift bs).
Proof.
  induction bs as [|b bs IH]; intros result shift Hs Hm; cbn [uleb_loop tame]; auto.
  destruct ((shift =? 63) && negb (b2n b =? 0) && negb (b2n b =? 1)) eqn:E63; cbn [tame]; auto.
  assert (Hlt : shift < 64) by lia.
  destruct (shl64_ok dbg (low7 (b2n b)) shift Hlt) as [v ->]. cbn [bind].
  destruct (has_cont (b2n b)) eqn:Hc.
  - destruct (N.eqb_spec shift 63) as [->|Hne].
    + assert (b2n b = 0 \/ b2n b = 1) as Hb by lia.
      rewrite (has_cont_at_63 _ Hb) in Hc. discriminate.
    + assert (shift + 7 <= 63) by lia.
      assert ((shift + 7) mod 7 = 0) by lia.
      specialize (IH (N.lor result v) (shift + 7) H H0).
      destruct (uleb_loop dbg (N.lor result v) (shift + 7) bs) as [[? ?]| | |]; cbn [tame length] in *; auto; lia.
  - cbn [tame length]. lia.
Qed.

Lemma read_uleb128_tame dbg bs : tame bs (read_uleb128 dbg bs).
Proof.
  destruct bs as [|b bs]; cbn [read_uleb128 tame]; auto.
  destruct (has_cont (b2n b)).
  - pose proof (uleb_loop_tame dbg bs (low7 (b2n b)) 7 ltac:(lia) ltac:(reflexivity)) as H.
    destruct (uleb_loop dbg (low7 (b2n b)) 7 bs) as [[? ?]| | |]; cbn [tame length] in *; auto; lia.
  - cbn [tame length]. lia.
Qed.

Lemma sleb_loop_tame dbg : forall bs result shift,
  shift <= 63 -> shift mod 7 = 0 -> tame bs (sleb_loop dbg result shift bs).
Proof.
  induction bs as [|b bs IH]; intros result shift Hs Hm; cbn [sleb_loop tame]; auto.
  destruct ((shift =? 63) && negb (b2n b =? 0) && negb (b2n b =? 127)) eqn:E63; cbn [tame]; auto.
  assert (Hlt : shift < 64) by lia.
  destruct (shl64_ok dbg (low7 (b2n b)) shift Hlt) as [v ->]. cbn [bind].
  destruct (has_cont (b2n b)) eqn:Hc.
  - destruct (N.eqb_spec shift 63) as [->|Hne].
    + assert (b2n b = 0 \/ b2n b = 127) as Hb by lia.
      destruct Hb as [Hb|Hb]; rewrite Hb in Hc; discriminate.
    + assert (shift + 7 <= 63) by lia.
      assert ((shift + 7) mod 7 = 0) by lia.
      specialize (IH (N.lor result v) (shift + 7) H H0).
      destruct (sleb_loop dbg (N.lor result v) (shift + 7) bs) as [[? ?]| | |]; cbn [tame length] in *; auto; lia.
  - destruct ((shift + 7 <? 64) && (N.land (b2n b) 64 =? 64)) eqn:E2.
    + assert (Hlt2 : shift + 7 < 64) by lia.
      destruct (shl64_ok dbg (two64 - 1) (shift + 7) Hlt2) as [w ->]. cbn [bind tame length]. lia.
    + cbn [tame length]. lia.
Qed.

Lemma read_sleb128_tame dbg bs : tame bs (read_sleb128 dbg bs).
Proof. apply sleb_loop_tame; [lia|reflexivity]. Qed.

Lemma tame_weaken {A} bs (r : res (A * list byte)) : tame bs r -> tame0 bs r.
Proof. destruct r as [[? ?]| | |]; cbn; auto; lia. Qed.

Lemma tame_bind {A B} bs (r : res (A * list byte)) (k : A * list byte -> res (B * list byte)) :
  tame bs r ->
  (forall a rest, (length rest < length bs)%nat -> tame0 rest (k (a, rest))) ->
  tame bs (bind r k).
Proof.
  intros Hr Hk. destruct r as [[a rest]| | |]; cbn [bind tame] in *; auto.
  specialize (Hk a rest Hr). destruct (k (a, rest)) as [[? ?]| | |]; cbn [tame tame0] in *; auto. lia.
Qed.

Lemma tame0_bind {A B} bs (r : res (A * list byte)) (k : A * list byte -> res (B * list byte)) :
  tame0 bs r ->
  (forall a rest, (length rest <= length bs)%nat -> tame0 rest (k (a, rest))) ->
  tame0 bs (bind r k).
Proof.
  intros Hr Hk. destruct r as [[a rest]| | |]; cbn [bind tame0] in *; auto.
  specialize (Hk a rest Hr). destruct (k (a, rest)) as [[? ?]| | |]; cbn [tame0] in *; auto. lia.
Qed.

Lemma tame0_ok {A} bs (a : A) : tame0 bs (Ok (a, bs)).
Proof. cbn. lia. Qed.

Lemma read_u8_tame bs : tame bs (read_u8 bs).
Proof. destruct bs; cbn; auto. Qed.

Lemma take_length n : forall bs h t, take n bs = Some (h, t) -> (length bs = n + length t)%nat.
Proof.
  induction n as [|n IH]; intros bs h t H; cbn [take] in H.
  - inversion H; subst. reflexivity.
  - destruct bs as [|b bs]; [discriminate|].
    destruct (take n bs) as [[h' t']|] eqn:E; [|discriminate].
    inversion H; subst. apply IH in E. cbn [length]. lia.
Qed.

Lemma read_un_tame n be bs : (0 < n)%nat -> tame bs (read_un n be bs).
Proof.
  intros Hn. unfold read_un, read_bytes.
  destruct (take n bs) as [[h t]|] eqn:E; cbn [bind tame]; auto.
  apply take_length in E. lia.
Qed.

Lemma read_address_tame asize be bs : tame bs (read_address asize be bs).
Proof.
  unfold read_address.
  destruct (asize =? 1); [apply read_un_tame; lia|].
  destruct (asize =? 2); [apply read_un_tame; lia|].
  destruct (asize =? 4); [apply read_un_tame; lia|].
  destruct (asize =? 8); [apply read_un_tame; lia|].
  exact I.
Qed.

Lemma rd_reg_tame dbg bs : tame bs (rd_reg dbg bs).
Proof.
  unfold rd_reg. apply tame_bind; [apply read_uleb128_tame|].
  intros a rest _. unfold reg_from_u64. destruct (wrap16 a =? a); cbn; auto.
Qed.

Lemma skipn_length_le {A} n (l : list A) : (length (skipn n l) <= length l)%nat.
Proof. rewrite skipn_length. lia. Qed.

Lemma rd_expr_tame dbg off all bs : tame bs (rd_expr dbg off all bs).
Proof.
  unfold rd_expr. apply tame_bind; [apply read_uleb128_tame|].
  intros a rest _. unfold skip_n.
  destruct (N.of_nat (length rest) <? a); cbn [bind tame0]; auto.
  apply skipn_length_le.
Qed.

(* the body of every opcode arm: readers in sequence *)
Ltac tame_leaf :=
  first [ apply read_uleb128_tame | apply read_sleb128_tame | apply rd_reg_tame | apply rd_expr_tame
        | apply read_u8_tame | apply read_address_tame | (apply read_un_tame; lia) ].
Ltac tame_arm :=
  repeat first
    [ apply tame0_ok
    | apply tame0_bind; [apply tame_weaken; tame_leaf | intros ? ? _; cbv beta iota] ].

Theorem parse_insn_tame dbg be asize aa off bs : tame bs (parse_insn dbg be asize aa off bs).
Proof.
  unfold parse_insn. apply tame_bind; [apply read_u8_tame|].
  intros op r _. cbv zeta.
  repeat match goal with
         | |- tame0 _ (if ?c then _ else _) => destruct c
         end;
    try (cbn; lia); try exact I;
    unfold read_u16, read_u32; tame_arm.
Qed.

(* ---------- B: the fuel loops, flattened to a recursion over the decoded items ---------- *)

Section Flatten.
Variable dbg : bool.
Variable c : caps.
Variable d : dparams.

Definition dec (it : cfi_iter) : list item := decode_fuel (S (length (it_bytes it))) dbg d it.

Lemma iter_next_cases it :
  match iter_next dbg d it with
  | (Ok None, it') => it_bytes it = [] /\ it' = it
  | (Ok (Some _), it') => (length (it_bytes it') < length (it_bytes it))%nat
  | (Err _, it') => it_bytes it' = [] /\ it_bytes it <> []
  | (Panic, _) => False
  | (OutOfFuel, _) => False
  end.
Proof.
  unfold iter_next. destruct (it_bytes it) as [|b bs] eqn:E; [auto|].
  pose proof (parse_insn_tame dbg (d_be d) (d_asize d) (d_aarch64 d) (it_off it) (b :: bs)) as H.
  destruct (parse_insn dbg (d_be d) (d_asize d) (d_aarch64 d) (it_off it) (b :: bs)) as [[i rest]|e| |];
    cbn [tame] in H; cbn [it_bytes]; auto. split; [reflexivity|discriminate].
Qed.

Lemma decode_fuel_enough : forall f1 f2 it,
  (length (it_bytes it) < f1)%nat -> (length (it_bytes it) < f2)%nat ->
  decode_fuel f1 dbg d it = decode_fuel f2 dbg d it.
Proof.
  induction f1 as [|f1 IH]; intros f2 it H1 H2; [lia|].
  destruct f2 as [|f2]; [lia|]. cbn [decode_fuel].
  pose proof (iter_next_cases it) as Hc.
  destruct (iter_next dbg d it) as [[[i|]|e| |] it']; try reflexivity.
  f_equal. apply IH; lia.
Qed.

Lemma dec_unfold it :
  dec it = match iter_next dbg d it with
           | (Ok None, _) => []
           | (Ok (Some i), it') => It i :: dec it'
           | (Err e, _) => [Bad e]
           | (Panic, _) => [BadPanic]
           | (OutOfFuel, _) => [BadFuel]
           end.
Proof.
  unfold dec at 1. cbn [decode_fuel].
  pose proof (iter_next_cases it) as Hc.
  destruct (iter_next dbg d it) as [[[i|]|e| |] it']; try reflexivity.
  f_equal. apply decode_fuel_enough; lia.
Qed.

Lemma dec_empty it : it_bytes it = [] -> dec it = [].
Proof. intros H. rewrite dec_unfold. unfold iter_next. rewrite H. reflexivity. Qed.

Lemma dec_length it : (length (dec it) <= length (it_bytes it))%nat.
Proof.
  remember (length (it_bytes it)) as n eqn:En. revert it En.
  induction n as [n IH] using lt_wf_ind. intros it En.
  rewrite dec_unfold. pose proof (iter_next_cases it) as Hc.
  destruct (iter_next dbg d it) as [[[i|]|e| |] it']; cbn [length]; try lia.
  - specialize (IH (length (it_bytes it')) ltac:(lia) it' eq_refl). lia.
  - destruct Hc as [_ Hne]. destruct (it_bytes it); [congruence|cbn [length] in En; lia].
Qed.

(* the loop of next_row over decoded items *)
Fixpoint loop_items (t : tbl) (items : list item) : res (option row) * (tbl * list item) :=
  match items with
  | [] =>
      if t_returned_last t then (Ok None, (t, [])) else
      match with_top (set_end (t_last_end t)) (t_ctx t) with
      | Ok cx => (some_row cx, (with_flags true true (with_ctx cx t), []))
      | Err e => (Err e, (t, []))
      | Panic => (Panic, (t, []))
      | OutOfFuel => (OutOfFuel, (t, []))
      end
  | Bad e :: _ => (Err e, (t, []))
  | BadPanic :: _ => (Panic, (t, []))
  | BadFuel :: _ => (OutOfFuel, (t, []))
  | It i :: rest =>
      match evaluate c t i with
      | Ok (true, t1) =>
          let t2 := with_flags (t_returned_last t1) true t1 in
          (some_row (t_ctx t2), (t2, rest))
      | Ok (false, t1) => loop_items t1 rest
      | Err e => (Err e, (t, rest))
      | Panic => (Panic, (t, rest))
      | OutOfFuel => (OutOfFuel, (t, rest))
      end
  end.

(* next_row_loop = loop_items on the decoded stream; the iterator left behind decodes to the
   items left behind (irrelevant after Panic/OutOfFuel, which never come from the iterator) *)
Lemma loop_eq : forall fuel t it,
  (length (it_bytes it) < fuel)%nat ->
  exists it',
    next_row_loop fuel dbg c d t it =
      (fst (loop_items t (dec it)), (fst (snd (loop_items t (dec it))), it')) /\
    dec it' = snd (snd (loop_items t (dec it))) /\
    (length (it_bytes it') <= length (it_bytes it))%nat.
Proof.
  induction fuel as [|fuel IH]; intros t it Hf; [lia|].
  cbn [next_row_loop]. rewrite (dec_unfold it).
  pose proof (iter_next_cases it) as Hc.
  destruct (iter_next dbg d it) as [[[i|]|e| |] it'] eqn:En; try contradiction.
  - (* instruction *)
    cbn [loop_items].
    destruct (evaluate c t i) as [[[|] t1]|e| |] eqn:Ev; cbn [fst snd].
    + exists it'. repeat split; auto; lia.
    + destruct (IH t1 it' ltac:(lia)) as (it2 & H1 & H2 & H3).
      exists it2. repeat split; auto; lia.
    + exists it'. repeat split; auto; lia.
    + exists it'. repeat split; auto; lia.
    + exists it'. repeat split; auto; lia.
  - (* end of input *)
    destruct Hc as [Hb ->]. cbn [loop_items].
    destruct (t_returned_last t).
    + exists it. cbn [fst snd]. repeat split; auto. apply dec_empty; auto.
    + destruct (with_top (set_end (t_last_end t)) (t_ctx t)) as [cx|e| |]; cbn [fst snd];
        exists it; repeat split; auto; apply dec_empty; auto.
  - (* decode error *)
    destruct Hc as [Hb _]. cbn [loop_items fst snd]. exists it'. repeat split; auto.
    + apply dec_empty; auto.
    + rewrite Hb. cbn [length]. lia.
Qed.

(* the prologue of next_row *)
Definition prologue (t : tbl) : option tbl :=
  match c_stack (t_ctx t) with
  | [] => None
  | r :: st =>
      Some (with_flags (t_returned_last t) false
              (with_ctx {| c_stack := set_start (t_next_start t) r :: st;
                           c_initial_rule := c_initial_rule (t_ctx t); c_init := c_init (t_ctx t) |} t))
  end.

Lemma next_row_eq t it :
  exists it',
    next_row dbg c d t it =
      match prologue t with
      | None => (Panic, (t, it))
      | Some t0 => (fst (loop_items t0 (dec it)), (fst (snd (loop_items t0 (dec it))), it'))
      end /\
    (forall t0, prologue t = Some t0 -> dec it' = snd (snd (loop_items t0 (dec it)))) /\
    (length (it_bytes it') <= length (it_bytes it))%nat.
Proof.
  unfold next_row, prologue, with_top.
  destruct (c_stack (t_ctx t)) as [|r st] eqn:Es.
  - exists it. repeat split; auto. discriminate.
  - match goal with |- context [next_row_loop _ _ _ _ ?t0 _] => set (T0 := t0) end.
    destruct (loop_eq (S (length (it_bytes it))) T0 it ltac:(lia)) as (it' & H1 & H2 & H3).
    exists it'. repeat split; auto. intros t0 H. inversion H; subst. exact H2.
Qed.

(* everything `while let Some(row) = table.next_row()?` sees, and the context it leaves behind,
   by recursion on the items. [t] is the table after the prologue of the next_row call under way. *)
Fixpoint run_mid (t : tbl) (items : list item) : (list row * outcome) * ctx :=
  match items with
  | [] =>
      match with_top (set_end (t_last_end t)) (t_ctx t) with
      | Ok cx =>
          let t1 := with_flags true true (with_ctx cx t) in
          match top cx with
          | Ok r =>
              match prologue t1 with
              | Some t2 => (([r], Done), t_ctx t2)
              | None => (([r], Crash), t_ctx t1)
              end
          | Err e => (([], Fail e), cx) | Panic => (([], Crash), cx) | OutOfFuel => (([], Fuel), cx)
          end
      | Err e => (([], Fail e), t_ctx t) | Panic => (([], Crash), t_ctx t) | OutOfFuel => (([], Fuel), t_ctx t)
      end
  | Bad e :: _ => (([], Fail e), t_ctx t)
  | BadPanic :: _ => (([], Crash), t_ctx t)
  | BadFuel :: _ => (([], Fuel), t_ctx t)
  | It i :: rest =>
      match evaluate c t i with
      | Ok (true, t1) =>
          let t2 := with_flags (t_returned_last t1) true t1 in
          match top (t_ctx t2) with
          | Ok r =>
              match prologue t2 with
              | Some t3 => let '((rows, o), cx) := run_mid t3 rest in ((r :: rows, o), cx)
              | None => (([r], Crash), t_ctx t2)
              end
          | Err e => (([], Fail e), t_ctx t2) | Panic => (([], Crash), t_ctx t2) | OutOfFuel => (([], Fuel), t_ctx t2)
          end
      | Ok (false, t1) => run_mid t1 rest
      | Err e => (([], Fail e), t_ctx t)
      | Panic => (([], Crash), t_ctx t)
      | OutOfFuel => (([], Fuel), t_ctx t)
      end
  end.

Definition out_of (r : res (option row)) : outcome :=
  match r with Ok _ => Done | Err e => Fail e | Panic => Crash | OutOfFuel => Fuel end.

Lemma evaluate_flags t i b t' :
  evaluate c t i = Ok (b, t') ->
  t_returned_last t' = t_returned_last t /\ t_last_end t' = t_last_end t /\
  t_caf t' = t_caf t /\ t_daf t' = t_daf t /\ t_asize t' = t_asize t.
Proof.
  unfold evaluate, t_set_rule, t_upd_top. intros H.
  repeat match type of H with
         | bind ?r _ = Ok _ => let E := fresh "E" in destruct r eqn:E; cbn [bind] in H; try discriminate
         | (match ?x with _ => _ end) = Ok _ => let E := fresh "E" in destruct x eqn:E; try discriminate
         | (if ?x then _ else _) = Ok _ => let E := fresh "E" in destruct x eqn:E; try discriminate
         | (let* _ := ?r in _) = Ok _ => let E := fresh "E" in destruct r eqn:E; cbn [bind] in H; try discriminate
         end;
    try (inversion H; subst; cbn; auto).
Qed.

Lemma prologue_flags t t0 :
  prologue t = Some t0 ->
  t_returned_last t0 = t_returned_last t /\ t_last_end t0 = t_last_end t /\
  t_caf t0 = t_caf t /\ t_daf t0 = t_daf t /\ t_asize t0 = t_asize t /\
  c_stack (t_ctx t0) <> [].
Proof.
  unfold prologue. destruct (c_stack (t_ctx t)); [discriminate|].
  intros H; inversion H; subst; cbn. repeat split; auto; discriminate.
Qed.

Lemma prologue_some t : c_stack (t_ctx t) <> [] -> exists t0, prologue t = Some t0.
Proof. unfold prologue. destruct (c_stack (t_ctx t)); [congruence|eauto]. Qed.

Lemma with_top_stack f cx cx' : with_top f cx = Ok cx' -> c_stack cx' <> [].
Proof.
  unfold with_top. destruct (c_stack cx); [discriminate|].
  intros H; inversion H; subst; cbn. discriminate.
Qed.

Lemma loop_items_char : forall items t,
  t_returned_last t = false ->
  match loop_items t items with
  | (Ok (Some r), (t', items')) =>
      (t_returned_last t' = false /\ (length items' < length items)%nat /\
       run_mid t items =
         match prologue t' with
         | Some t3 => let '((rows, o), cx) := run_mid t3 items' in ((r :: rows, o), cx)
         | None => (([r], Crash), t_ctx t')
         end)
      \/ (t_returned_last t' = true /\ items' = [] /\ c_stack (t_ctx t') <> [] /\
          run_mid t items =
            match prologue t' with
            | Some t2 => (([r], Done), t_ctx t2)
            | None => (([r], Crash), t_ctx t')
            end)
  | (Ok None, _) => False
  | (Err e, (t', _)) => run_mid t items = (([], Fail e), t_ctx t')
  | (Panic, (t', _)) => run_mid t items = (([], Crash), t_ctx t')
  | (OutOfFuel, (t', _)) => run_mid t items = (([], Fuel), t_ctx t')
  end.
Proof.
  induction items as [|x items IH]; intros t Hr.
  - cbn [loop_items run_mid]. rewrite Hr.
    destruct (with_top (set_end (t_last_end t)) (t_ctx t)) as [cx|e| |] eqn:Ew; auto.
    unfold some_row. destruct (top cx) as [r|e| |] eqn:Et; auto.
    right. cbn [t_returned_last with_flags]. repeat split; auto.
    cbn. eapply with_top_stack; eauto.
  - destruct x as [i|e| |]; cbn [loop_items run_mid]; auto.
    destruct (evaluate c t i) as [[[|] t1]|e| |] eqn:Ev; auto.
    + apply evaluate_flags in Ev. destruct Ev as (Ev1 & _).
      unfold some_row. cbn [t_ctx with_flags].
      destruct (top (t_ctx t1)) as [r|e| |] eqn:Et; auto.
      left. cbn [t_returned_last with_flags length]. repeat split; [congruence|lia].
    + pose proof Ev as Ev'. apply evaluate_flags in Ev'. destruct Ev' as (Ev1 & _).
      specialize (IH t1 ltac:(congruence)).
      destruct (loop_items t1 items) as [[[r|]|e| |] [t' items']]; auto.
      destruct IH as [(H1 & H2 & H3)|(H1 & H2 & H3 & H4)]; [left|right]; repeat split; auto.
      cbn [length]. lia.
Qed.

Lemma collect_after_last fuel t it :
  t_returned_last t = true -> dec it = [] -> (1 <= fuel)%nat ->
  collect fuel None dbg c d t it =
    match prologue t with
    | Some t0 => (([], Done), t_ctx t0)
    | None => (([], Crash), t_ctx t)
    end.
Proof.
  intros Hr Hd Hf. destruct fuel as [|f]; [lia|]. cbn [collect].
  destruct (next_row_eq t it) as (it' & H1 & _ & _). rewrite H1.
  destruct (prologue t) as [t0|] eqn:Hp; [|reflexivity].
  apply prologue_flags in Hp. destruct Hp as (Hp & _).
  rewrite Hd. cbn [loop_items]. rewrite Hp, Hr. reflexivity.
Qed.

Lemma collect_run_mid : forall n t it fuel,
  (length (dec it) <= n)%nat -> (n + 2 <= fuel)%nat -> t_returned_last t = false ->
  collect fuel None dbg c d t it =
    match prologue t with
    | None => (([], Crash), t_ctx t)
    | Some t0 => run_mid t0 (dec it)
    end.
Proof.
  induction n as [|n IH]; intros t it fuel Hn Hf Hr;
    (destruct fuel as [|f]; [lia|]); cbn [collect];
    destruct (next_row_eq t it) as (it' & H1 & H2 & H3); rewrite H1;
    (destruct (prologue t) as [t0|] eqn:Hp; [|reflexivity]);
    specialize (H2 t0 eq_refl);
    pose proof (prologue_flags _ _ Hp) as (Hp1 & _);
    pose proof (loop_items_char (dec it) t0 ltac:(congruence)) as Hc;
    destruct (loop_items t0 (dec it)) as [[[r|]|e| |] [t' items']]; cbn [fst snd] in *;
    try contradiction; try (rewrite Hc; reflexivity).
  - (* n = 0: only the final row is possible *)
    destruct Hc as [(Hc1 & Hc2 & _)|(Hc1 & Hc2 & Hc3 & Hc4)]; [lia|].
    rewrite (collect_after_last f t' it' Hc1 ltac:(congruence) ltac:(lia)).
    rewrite Hc4. destruct (prologue t'); reflexivity.
  - destruct Hc as [(Hc1 & Hc2 & Hc3)|(Hc1 & Hc2 & Hc3 & Hc4)].
    + rewrite (IH t' it' f ltac:(rewrite H2; lia) ltac:(lia) Hc1).
      rewrite Hc3. rewrite <- H2.
      destruct (prologue t') as [t3|]; [|reflexivity].
      destruct (run_mid t3 (dec it')) as [[rows o] cx]. reflexivity.
    + rewrite (collect_after_last f t' it' Hc1 ltac:(congruence) ltac:(lia)).
      rewrite Hc4. destruct (prologue t'); reflexivity.
Qed.

(* drain is collect with the rows thrown away *)
Lemma drain_collect : forall fuel t it,
  match fst (collect fuel None dbg c d t it) with
  | (_, Done) => exists t', drain fuel dbg c d t it = Ok t' /\ t_ctx t' = snd (collect fuel None dbg c d t it)
  | (_, Fail e) => drain fuel dbg c d t it = Err e
  | (_, Crash) => drain fuel dbg c d t it = Panic
  | (_, Fuel) => drain fuel dbg c d t it = OutOfFuel
  end.
Proof.
  induction fuel as [|fuel IH]; intros t it; cbn [collect drain fst snd]; auto.
  destruct (next_row dbg c d t it) as [[[r|]|e| |] [t' it']]; cbn [fst snd]; eauto.
  specialize (IH t' it').
  destruct (collect fuel None dbg c d t' it') as [[rows o] cx]. cbn [fst snd] in *. exact IH.
Qed.
End Flatten.

(* ---------- C: register rule maps ---------- *)

Definition keys (m : rmap) : list reg := map fst m.
Definition nodup (m : rmap) : Prop := NoDup (keys m).
Definition same_map (a b : rmap) : Prop := forall r, lookup r a = lookup r b.

Lemma lookup_none_iff r m : lookup r m = None <-> ~ In r (keys m).
Proof.
  induction m as [|[r' x] m IH]; cbn [lookup keys map fst In]; [tauto|].
  destruct (N.eqb_spec r' r) as [->|Hne].
  - split; [discriminate|]. intros H. exfalso. apply H. auto.
  - rewrite IH. unfold keys. tauto.
Qed.

Lemma lookup_some_in r m x : lookup r m = Some x -> In r (keys m).
Proof.
  intros H. destruct (in_dec N.eq_dec r (keys m)) as [Hi|Hn]; auto.
  apply lookup_none_iff in Hn. congruence.
Qed.

Lemma same_map_refl a : same_map a a. Proof. intros r; reflexivity. Qed.
Lemma same_map_sym a b : same_map a b -> same_map b a. Proof. intros H r; symmetry; apply H. Qed.
Lemma same_map_trans a b c : same_map a b -> same_map b c -> same_map a c.
Proof. intros H1 H2 r. rewrite H1. apply H2. Qed.

Lemma same_map_length a b : nodup a -> nodup b -> same_map a b -> length a = length b.
Proof.
  intros Ha Hb Hs.
  assert (Hincl : forall a b, same_map a b -> incl (keys a) (keys b)).
  { intros a0 b0 H r Hr. destruct (lookup r a0) eqn:E.
    - rewrite H in E. eapply lookup_some_in; eauto.
    - apply lookup_none_iff in E. contradiction. }
  pose proof (NoDup_incl_length Ha (Hincl a b Hs)) as H1.
  pose proof (NoDup_incl_length Hb (Hincl b a (same_map_sym _ _ Hs))) as H2.
  unfold keys in H1, H2. rewrite !map_length in H1, H2. lia.
Qed.

(* spec-side operations *)
Lemma keys_remove_notin r m : ~ In r (keys (remove r m)).
Proof.
  induction m as [|[r' x] m IH]; cbn [remove filter keys map fst]; [tauto|].
  destruct (N.eqb_spec r' r) as [->|Hne]; cbn [negb]; [exact IH|].
  cbn [keys map fst In]. intros [H|H]; [congruence|]. apply IH. exact H.
Qed.

Lemma keys_remove_incl r m : incl (keys (remove r m)) (keys m).
Proof.
  induction m as [|[r' x] m IH]; cbn [remove filter keys map fst]; [apply incl_refl|].
  destruct (negb (r' =? r)); cbn [map fst].
  - apply incl_cons; [left; reflexivity|]. apply incl_tl. exact IH.
  - apply incl_tl. exact IH.
Qed.

Lemma nodup_remove r m : nodup m -> nodup (remove r m).
Proof.
  unfold nodup. induction m as [|[r' x] m IH]; cbn [remove filter keys map fst]; auto.
  intros H. inversion H as [|? ? Hn Hd]; subst.
  destruct (negb (r' =? r)); cbn [map fst]; [|apply IH; exact Hd].
  constructor; [|apply IH; exact Hd].
  intros Hi. apply Hn. apply (keys_remove_incl r m). exact Hi.
Qed.

Lemma lookup_remove r r' m : lookup r' (remove r m) = if r =? r' then None else lookup r' m.
Proof.
  unfold remove. induction m as [|[k x] m IH]; cbn [filter lookup fst].
  - destruct (r =? r'); reflexivity.
  - destruct (N.eqb_spec k r) as [->|Hne]; cbn [negb lookup].
    + rewrite IH. destruct (N.eqb_spec r r'); reflexivity.
    + rewrite IH. destruct (N.eqb_spec k r') as [->|Hk]; [|reflexivity].
      destruct (N.eqb_spec r r'); [congruence|reflexivity].
Qed.

Lemma lookup_update r o r' m :
  lookup r' (update r o m) = if r =? r' then o else lookup r' m.
Proof.
  destruct o as [x|]; cbn [update].
  - change (lookup r' ((r, x) :: remove r m)) with (if r =? r' then Some x else lookup r' (remove r m)).
    rewrite lookup_remove. destruct (r =? r'); reflexivity.
  - apply lookup_remove.
Qed.

Lemma nodup_update r o m : nodup m -> nodup (update r o m).
Proof.
  intros H. destruct o as [x|]; cbn [update]; [|apply nodup_remove; exact H].
  unfold nodup. cbn [keys map fst]. constructor; [apply keys_remove_notin|].
  apply nodup_remove. exact H.
Qed.

Lemma remove_absent r m : lookup r m = None -> remove r m = m.
Proof.
  induction m as [|[k x] m IH]; cbn [remove filter lookup fst]; auto.
  destruct (N.eqb_spec k r) as [->|Hne]; [discriminate|]. cbn [negb]. intros H. f_equal. apply IH. exact H.
Qed.

(* model-side operations *)
Lemma rm_replace_none r x m : rm_replace r x m = None <-> lookup r m = None.
Proof.
  induction m as [|[k y] m IH]; cbn [rm_replace lookup]; [tauto|].
  destruct (k =? r); [split; discriminate|].
  destruct (rm_replace r x m); [split; [discriminate|]|tauto].
  intros H. apply IH in H. discriminate.
Qed.

Lemma rm_replace_some r x m m' :
  rm_replace r x m = Some m' ->
  keys m' = keys m /\ (forall r', lookup r' m' = if r =? r' then Some x else lookup r' m) /\
  lookup r m <> None.
Proof.
  revert m'. induction m as [|[k y] m IH]; intros m' H; cbn [rm_replace] in H; [discriminate|].
  destruct (N.eqb_spec k r) as [->|Hne].
  - inversion H; subst. cbn [keys map fst lookup]. rewrite N.eqb_refl. repeat split; [|discriminate].
    intros r'. destruct (r =? r'); reflexivity.
  - destruct (rm_replace r x m) as [t'|] eqn:E; [|discriminate]. inversion H; subst.
    destruct (IH t' eq_refl) as (K & L & N0). cbn [keys map fst lookup].
    repeat split.
    + f_equal. exact K.
    + intros r'. rewrite L. destruct (N.eqb_spec k r') as [->|Hk]; [|reflexivity].
      destruct (N.eqb_spec r r'); [congruence|reflexivity].
    + destruct (k =? r) eqn:Ek; [apply N.eqb_eq in Ek; congruence|exact N0].
Qed.

Lemma lookup_app r m m2 :
  lookup r (m ++ m2) = match lookup r m with Some x => Some x | None => lookup r m2 end.
Proof.
  induction m as [|[k y] m IH]; cbn [app lookup]; [reflexivity|].
  destruct (k =? r); [reflexivity|exact IH].
Qed.

Lemma keys_app m m2 : keys (m ++ m2) = keys m ++ keys m2.
Proof. unfold keys. apply map_app. Qed.

(* lookups do not depend on the order when registers are unique *)
Lemma lookup_perm a b : nodup a -> Permutation a b -> same_map a b.
Proof.
  intros Ha Hp. induction Hp as [|[k x] l l' Hp IH|[k1 x1] [k2 x2] l|l l' l'' Hp1 IH1 Hp2 IH2].
  - apply same_map_refl.
  - intros r. cbn [lookup]. destruct (k =? r); [reflexivity|].
    apply IH. unfold nodup in *. cbn [keys map fst] in Ha. inversion Ha; auto.
  - intros r. cbn [lookup].
    destruct (N.eqb_spec k2 r) as [->|H2]; destruct (N.eqb_spec k1 r) as [->|H1]; try reflexivity.
    unfold nodup in Ha. cbn [keys map fst] in Ha. inversion Ha as [|? ? Hn _]; subst.
    exfalso. apply Hn. left. reflexivity.
  - eapply same_map_trans; [apply IH1; exact Ha|].
    apply IH2. unfold nodup, keys in *. eapply Permutation_NoDup; [|exact Ha].
    apply Permutation_map. exact Hp1.
Qed.

Lemma rm_clear_perm r m : nodup m -> Permutation (rm_clear r m) (remove r m).
Proof.
  induction m as [|[k y] m IH]; intros Hn; cbn [rm_clear remove filter fst]; [constructor|].
  unfold nodup in Hn. cbn [keys map fst] in Hn. inversion Hn as [|? ? Hk Hd]; subst.
  destruct (N.eqb_spec k r) as [->|Hne]; cbn [negb].
  - (* first (and only) match: the last element moves into its slot *)
    fold (remove r m). rewrite (remove_absent r m) by (apply lookup_none_iff; exact Hk).
    destruct (rev m) as [|z rt] eqn:Er.
    + apply (f_equal (@rev _)) in Er. rewrite rev_involutive in Er. subst. constructor.
    + apply (f_equal (@rev _)) in Er. rewrite rev_involutive in Er. cbn [rev] in Er. subst m.
      apply Permutation_cons_append.
  - fold (remove r m). constructor. apply IH. exact Hd.
Qed.

Lemma rm_clear_spec r m sm :
  nodup m -> same_map m sm ->
  same_map (rm_clear r m) (remove r sm) /\ nodup (rm_clear r m).
Proof.
  intros Hn Hs. pose proof (rm_clear_perm r m Hn) as Hp. split.
  - intros r'. rewrite <- (lookup_perm _ _ (nodup_remove r m Hn) (Permutation_sym Hp) r').
    rewrite !lookup_remove, Hs. reflexivity.
  - unfold nodup, keys. eapply Permutation_NoDup; [apply Permutation_map, Permutation_sym, Hp|].
    apply nodup_remove. exact Hn.
Qed.

Lemma NoDup_snoc {A} (l : list A) (a : A) : NoDup l -> ~ In a l -> NoDup (l ++ [a]).
Proof.
  induction l as [|b l IH]; intros Hn Hi; cbn [app].
  - constructor; [intros []|constructor].
  - inversion Hn as [|? ? Hb Hd]; subst. constructor.
    + rewrite in_app_iff. cbn [In]. intros [H|[H|[]]]; [contradiction|]. subst. apply Hi. left. reflexivity.
    + apply IH; [exact Hd|]. intros H. apply Hi. right. exact H.
Qed.

Lemma rm_set_spec cap r x m sm :
  nodup m -> nodup sm -> same_map m sm ->
  match rm_set cap r x m with
  | Ok m' => same_map m' (update r (Some x) sm) /\ nodup m' /\
             (length m' = length m \/ (cap_full cap (length m) = false /\ length m' = S (length m)))
  | Err e => e = ETooManyRegisterRules /\ cap_full cap (length m) = true /\
             length (update r (Some x) sm) = S (length m)
  | Panic => False
  | OutOfFuel => False
  end.
Proof.
  intros Hn Hsn Hs. unfold rm_set.
  destruct (rm_replace r x m) as [m'|] eqn:E.
  - destruct (rm_replace_some _ _ _ _ E) as (K & L & _). repeat split.
    + intros r'. rewrite L, lookup_update, Hs. reflexivity.
    + unfold nodup. rewrite K. exact Hn.
    + left. apply (f_equal (@length _)) in K. unfold keys in K. rewrite !map_length in K. exact K.
  - apply rm_replace_none in E.
    destruct (cap_full cap (length m)) eqn:Ef.
    + repeat split. cbn [update length]. rewrite remove_absent by (rewrite <- Hs; exact E).
      f_equal. symmetry. apply same_map_length; auto.
    + repeat split.
      * intros r'. rewrite lookup_app, lookup_update, <- Hs. cbn [lookup].
        destruct (N.eqb_spec r r') as [->|Hne]; [rewrite E; reflexivity|].
        destruct (lookup r' m); reflexivity.
      * unfold nodup. rewrite keys_app. cbn [keys map fst].
        apply NoDup_snoc; [exact Hn|]. apply lookup_none_iff. exact E.
      * right. split; [reflexivity|]. rewrite app_length. cbn [length]. lia.
Qed.

(* ---------- D: arithmetic of factored offsets and addresses ---------- *)

Lemma pow64_N : Z.of_N (2 ^ 64) = 18446744073709551616%Z. Proof. reflexivity. Qed.

Lemma to_i64_mod (x : N) :
  (to_i64 x mod 18446744073709551616 = Z.of_N x mod 18446744073709551616)%Z.
Proof.
  unfold to_i64, to_signed, wrapN.
  assert (Hm : Z.of_N (x mod 2 ^ 64) = (Z.of_N x mod 18446744073709551616)%Z).
  { rewrite N2Z.inj_mod. rewrite pow64_N. reflexivity. }
  destruct (x mod 2 ^ 64 <? 2 ^ (64 - 1)).
  - rewrite Hm. apply Z.mod_mod. lia.
  - rewrite Hm, pow64_N.
    replace (Z.of_N x mod 18446744073709551616 - 18446744073709551616)%Z
      with (Z.of_N x mod 18446744073709551616 + (-1) * 18446744073709551616)%Z by lia.
    rewrite Z_mod_plus_full. apply Z.mod_mod. lia.
Qed.

Lemma wrap_signed_cong (a b : Z) :
  (a mod 18446744073709551616 = b mod 18446744073709551616)%Z -> wrap_signed 64 a = wrap_signed 64 b.
Proof. intros H. unfold wrap_signed, of_signed. rewrite pow64_N, H. reflexivity. Qed.

Lemma wmul_to_i64 (fo : N) (daf : Z) : wmul_i64 (to_i64 fo) daf = wrap_i64 (Z.of_N fo * daf).
Proof.
  unfold wmul_i64, wrap_i64. apply wrap_signed_cong.
  rewrite <- (Z.mul_mod_idemp_l (to_i64 fo)) by lia.
  rewrite <- (Z.mul_mod_idemp_l (Z.of_N fo)) by lia.
  rewrite to_i64_mod. reflexivity.
Qed.

Lemma to_i64_wrap (off : N) : to_i64 off = wrap_i64 (Z.of_N off).
Proof.
  unfold wrap_i64, wrap_signed, of_signed, to_i64, to_signed, wrapN.
  rewrite <- N2Z.inj_mod, N2Z.id. rewrite N.mod_mod by discriminate. reflexivity.
Qed.

Lemma valid_asize_cases a : valid_asize a = true -> a = 1 \/ a = 2 \/ a = 4 \/ a = 8.
Proof. unfold valid_asize. lia. Qed.

Lemma add_sized_spec a len size :
  valid_asize size = true ->
  add_sized a len size =
    if 2 ^ (8 * size) <=? a + len then Err EAddressOverflow else Ok (a + len).
Proof.
  intros Hv. unfold add_sized, mask_of. cbv zeta.
  assert (Hp : 1 <= 2 ^ (8 * size) <= two64).
  { destruct (valid_asize_cases _ Hv) as [-> | [-> | [-> | ->]]]; vm_compute; split; discriminate. }
  generalize dependent (2 ^ (8 * size)). intros P HP. generalize (a + len). intros S.
  destruct (two64 <=? S) eqn:E1; destruct (P - 1 <? S) eqn:E2; destruct (P <=? S) eqn:E3;
    try reflexivity; lia.
Qed.

Lemma end_address_spec f :
  valid_asize (f_asize f) = true ->
  end_address f = spec_end (f_asize f) (f_init f) (f_range f).
Proof.
  intros Hv. unfold end_address, wrapping_add_sized, spec_end, mask_of, wrap64.
  assert (H : forall k x, k <= 64 -> N.land (x mod two64) (2 ^ k - 1) = x mod 2 ^ k).
  { intros k x Hk. replace (2 ^ k - 1) with (N.ones k) by (rewrite N.ones_equiv, N.pred_sub; reflexivity).
    rewrite N.land_ones. change two64 with (2 ^ 64).
    replace 64 with (k + (64 - k)) at 1 by lia. rewrite N.pow_add_r.
    rewrite N.mod_mul_r by (apply N.pow_nonzero; discriminate).
    rewrite N.mul_comm, N.mod_add by (apply N.pow_nonzero; discriminate).
    apply N.mod_mod. apply N.pow_nonzero. discriminate. }
  apply H. destruct (valid_asize_cases _ Hv) as [-> | [-> | [-> | ->]]]; lia.
Qed.

(* ---------- E: one instruction — the model's evaluate against spec_step + guard ---------- *)

Lemma cap_full_over cap n : cap_full cap n = over cap (S n).
Proof. destruct cap as [k|]; cbn [cap_full over]; reflexivity. Qed.

Lemma over_mono cap n n' : (n' <= n)%nat -> over cap n = false -> over cap n' = false.
Proof. destruct cap as [k|]; cbn [over]; [|reflexivity]. lia. Qed.

Lemma remove_length r m : (length (remove r m) <= length m)%nat.
Proof.
  unfold remove, rmap, reg in *. induction m as [|a m IH]; [cbn; lia|].
  simpl. destruct (negb (fst a =? r)); simpl; lia.
Qed.

Lemma top_eq cx tp l : c_stack cx = tp :: l -> top cx = Ok tp.
Proof. unfold top. intros ->. reflexivity. Qed.

Lemma with_top_eq f cx tp l :
  c_stack cx = tp :: l ->
  with_top f cx = Ok {| c_stack := f tp :: l; c_initial_rule := c_initial_rule cx; c_init := c_init cx |}.
Proof. unfold with_top. intros ->. reflexivity. Qed.

Lemma Forall2_len {A B} (P : A -> B -> Prop) l l' : Forall2 P l l' -> length l = length l'.
Proof. induction 1; cbn [length]; congruence. Qed.

Section Sim.
Variable c : caps.
Variable p : sparams.

Definition row_equiv (r : row) (sr : srow) : Prop :=
  r_start r = sr_start sr /\ r_end r = sr_end sr /\ r_cfa r = sr_cfa sr /\ r_args r = sr_args sr /\
  (forall g, rm_get g (r_regs r) = lookup g (sr_rules sr)).

(* a model row carries a remembered (or the current) spec entry *)
Definition entry_rel (r : row) (e : cfa_rule * rmap * N) : Prop :=
  r_cfa r = fst (fst e) /\ r_args r = snd e /\ same_map (r_regs r) (snd (fst e)) /\
  nodup (r_regs r) /\ nodup (snd (fst e)) /\ over (max_rules c) (length (snd (fst e))) = false.

(* how the context stores the CIE's initial rules *)
Definition bottom_rel (ini : option rmap) (cx : ctx) (bottom : list row) : Prop :=
  match ini with
  | None => c_init cx = false /\ c_initial_rule cx = None /\ bottom = []
  | Some m =>
      c_init cx = true /\ nodup m /\
      match c_initial_rule cx with
      | Some None => m = [] /\ bottom = []
      | Some (Some (r, x)) => same_map m [(r, x)] /\ length m = 1%nat /\ bottom = []
      | None => exists b, bottom = [b] /\ same_map (r_regs b) m /\ (2 <= length m)%nat
      end
  end.

Definition Rcore (ini : option rmap) (t : tbl) (s : sstate) (tp : row) (rest bottom : list row) : Prop :=
  t_caf t = sp_caf p /\ t_daf t = sp_daf p /\ t_asize t = sp_asize p /\ valid_asize (sp_asize p) = true /\
  c_stack (t_ctx t) = tp :: rest ++ bottom /\
  entry_rel tp (s_cfa s, s_rules s, s_args s) /\
  Forall2 entry_rel rest (s_stack s) /\
  bottom_rel ini (t_ctx t) bottom /\
  guard c ini s = Ok tt.

(* the relation while a row is being built: the top row starts at the spec location *)
Definition R (ini : option rmap) (t : tbl) (s : sstate) : Prop :=
  exists tp rest bottom, Rcore ini t s tp rest bottom /\ r_start tp = s_loc s.
(* ... and right after a row was completed: the next row will start at the spec location *)
Definition Rdone (ini : option rmap) (t : tbl) (s : sstate) : Prop :=
  exists tp rest bottom, Rcore ini t s tp rest bottom /\ t_next_start t = s_loc s.

Lemma guard_ok_iff ini s :
  guard c ini s = Ok tt <->
  over (max_stack c) (stack_occ ini s) = false /\ over (max_rules c) (rules_occ s) = false.
Proof.
  unfold guard. destruct (over (max_stack c) (stack_occ ini s)); [split; [discriminate|intros [? _]; discriminate]|].
  destruct (over (max_rules c) (rules_occ s)); [split; [discriminate|intros [_ ?]; discriminate]|].
  tauto.
Qed.

Lemma bottom_len ini cx bottom :
  bottom_rel ini cx bottom ->
  length bottom = match ini with Some m => if Nat.leb 2 (length m) then 1%nat else 0%nat | None => 0%nat end /\
  (length bottom = 1%nat <-> (c_init cx = true /\ c_initial_rule cx = None)).
Proof.
  unfold bottom_rel. destruct ini as [m|].
  - intros (Hi & Hn & H). destruct (c_initial_rule cx) as [[[r x]|]|].
    + destruct H as (_ & Hl & ->). rewrite Hl. cbn. split; [reflexivity|]. split; [discriminate|intros [_ ?]; discriminate].
    + destruct H as (-> & ->). cbn. split; [reflexivity|]. split; [discriminate|intros [_ ?]; discriminate].
    + destruct H as (b & -> & _ & Hl). cbn [length].
      destruct (Nat.leb 2 (length m)) eqn:E; [|apply Nat.leb_gt in E; lia]. tauto.
  - intros (Hi & Hr & ->). cbn. split; [reflexivity|]. split; [discriminate|]. rewrite Hi. intros [? _]; discriminate.
Qed.

Lemma stack_len ini t s tp rest bottom :
  Rcore ini t s tp rest bottom -> length (c_stack (t_ctx t)) = stack_occ ini s.
Proof.
  intros (_ & _ & _ & _ & Hst & _ & Hrest & Hbot & _).
  rewrite Hst. cbn [length]. rewrite app_length.
  apply Forall2_len in Hrest. apply bottom_len in Hbot. destruct Hbot as (Hb & _).
  unfold stack_occ. rewrite Hrest, Hb. lia.
Qed.

(* replacing the top row *)
Lemma Rcore_top ini t s tp rest bottom tp' s' :
  Rcore ini t s tp rest bottom ->
  entry_rel tp' (s_cfa s', s_rules s', s_args s') ->
  s_stack s' = s_stack s ->
  over (max_rules c) (rules_occ s') = false ->
  Rcore ini (with_ctx {| c_stack := tp' :: rest ++ bottom; c_initial_rule := c_initial_rule (t_ctx t);
                         c_init := c_init (t_ctx t) |} t) s' tp' rest bottom.
Proof.
  intros (H1 & H2 & H3 & H4 & Hst & Htop & Hrest & Hbot & Hg) He Hs Ho.
  unfold Rcore. cbn [t_caf t_daf t_asize t_ctx with_ctx c_stack].
  refine (conj H1 (conj H2 (conj H3 (conj H4 (conj eq_refl (conj He (conj _ (conj Hbot _)))))))).
  - rewrite Hs. exact Hrest.
  - apply guard_ok_iff in Hg. apply guard_ok_iff. split; [|exact Ho].
    unfold stack_occ in *. rewrite Hs. tauto.
Qed.

Lemma entry_rel_set_start a r e : entry_rel r e -> entry_rel (set_start a r) e.
Proof. unfold entry_rel. cbn. tauto. Qed.
Lemma entry_rel_set_end a r e : entry_rel r e -> entry_rel (set_end a r) e.
Proof. unfold entry_rel. cbn. tauto. Qed.

Lemma R_top ini t s :
  R ini t s ->
  exists tp, top (t_ctx t) = Ok tp /\ r_start tp = s_loc s /\ r_cfa tp = s_cfa s /\ r_args tp = s_args s /\
             same_map (r_regs tp) (s_rules s).
Proof.
  intros (tp & rest & bottom & (_ & _ & _ & _ & Hst & (E1 & E2 & E3 & _) & _) & Hl).
  exists tp. repeat split; auto. eapply top_eq; eauto.
Qed.

Lemma guard_same_occ ini s s' :
  s_stack s' = s_stack s -> length (s_rules s') = length (s_rules s) -> guard c ini s' = guard c ini s.
Proof. intros H1 H2. unfold guard, stack_occ, rules_occ. rewrite H1, H2. reflexivity. Qed.

(* instructions that only touch cfa / args of the current row *)
Lemma sim_upd_top ini t s (f : row -> row) (s' : sstate) :
  R ini t s ->
  (forall r, r_start (f r) = r_start r /\ r_regs (f r) = r_regs r) ->
  (forall r, r_cfa r = s_cfa s -> r_args r = s_args s -> r_cfa (f r) = s_cfa s' /\ r_args (f r) = s_args s') ->
  s_loc s' = s_loc s -> s_rules s' = s_rules s -> s_stack s' = s_stack s ->
  exists t', t_upd_top f t = Ok (false, t') /\ R ini t' s' /\ guard c ini s' = Ok tt.
Proof.
  intros (tp & rest & bottom & HR & Hl) Hf1 Hf2 El Er Es.
  pose proof HR as (_ & _ & _ & _ & Hst & (E1 & E2 & E3 & E4 & E5 & E6) & _ & _ & Hg).
  unfold t_upd_top. rewrite (with_top_eq f _ _ _ Hst). cbn [bind].
  eexists. split; [reflexivity|].
  destruct (Hf1 tp) as (F1 & F2). destruct (Hf2 tp E1 E2) as (F3 & F4).
  assert (Hg' : guard c ini s' = Ok tt).
  { rewrite (guard_same_occ ini s s'); auto. rewrite Er. reflexivity. }
  split; [|exact Hg'].
  exists (f tp), rest, bottom. split; [|rewrite F1, El; exact Hl].
  apply Rcore_top with (tp := tp) (s := s); auto.
  - unfold entry_rel. cbn [fst snd]. rewrite F2, Er. cbn [fst snd] in *. repeat split; auto.
  - apply guard_ok_iff in Hg'. tauto.
Qed.

Lemma sim_set_rule ini t s r x :
  R ini t s ->
  match t_set_rule c r x t, guard c ini (set_rule r x s) with
  | Ok (b, t'), Ok _ => b = false /\ R ini t' (set_rule r x s)
  | Err e, Err e' => e = e'
  | _, _ => False
  end.
Proof.
  intros (tp & rest & bottom & HR & Hl).
  pose proof HR as (_ & _ & _ & _ & Hst & (E1 & E2 & E3 & E4 & E5 & E6) & _ & _ & Hg).
  cbn [fst snd] in *.
  unfold t_set_rule, set_register_rule. rewrite (top_eq _ _ _ Hst). cbn [bind].
  pose proof (rm_set_spec (max_rules c) r x (r_regs tp) (s_rules s) E4 E5 E3) as Hs.
  apply guard_ok_iff in Hg. destruct Hg as (Hg1 & Hg2).
  assert (Hlen : length (r_regs tp) = length (s_rules s)) by (apply same_map_length; auto).
  destruct (rm_set (max_rules c) r x (r_regs tp)) as [m'|e| |]; cbn [bind]; try contradiction.
  - destruct Hs as (S1 & S2 & S3).
    rewrite (with_top_eq (set_regs m') _ _ _ Hst). cbn [bind].
    assert (Hn' : nodup (update r (Some x) (s_rules s))) by (apply nodup_update; exact E5).
    assert (Hlen' : length m' = length (update r (Some x) (s_rules s))) by (apply same_map_length; auto).
    assert (Ho : over (max_rules c) (length (update r (Some x) (s_rules s))) = false).
    { rewrite <- Hlen'. destruct S3 as [S3|(S3 & S4)].
      - rewrite S3, Hlen. exact Hg2.
      - rewrite S4, <- cap_full_over. exact S3. }
    assert (Hg' : guard c ini (set_rule r x s) = Ok tt).
    { apply guard_ok_iff. split; [exact Hg1|exact Ho]. }
    rewrite Hg'. split; [reflexivity|].
    exists (set_regs m' tp), rest, bottom. split; [|exact Hl].
    apply Rcore_top with (tp := tp) (s := s); auto.
    unfold entry_rel. cbn [fst snd set_rule with_rules s_cfa s_rules s_args set_regs r_cfa r_args r_regs].
    repeat split; auto.
  - destruct Hs as (-> & S2 & S3).
    unfold guard.
    change (stack_occ ini (set_rule r x s)) with (stack_occ ini s). rewrite Hg1.
    change (rules_occ (set_rule r x s)) with (length (update r (Some x) (s_rules s))).
    rewrite S3, <- cap_full_over, S2. reflexivity.
Qed.

Lemma sim_clear ini t s r :
  R ini t s ->
  exists cx, clear_register_rule r (t_ctx t) = Ok cx /\
             R ini (with_ctx cx t) (with_rules (remove r (s_rules s)) s) /\
             guard c ini (with_rules (remove r (s_rules s)) s) = Ok tt.
Proof.
  intros (tp & rest & bottom & HR & Hl).
  pose proof HR as (_ & _ & _ & _ & Hst & (E1 & E2 & E3 & E4 & E5 & E6) & _ & _ & Hg).
  cbn [fst snd] in *.
  unfold clear_register_rule. rewrite (top_eq _ _ _ Hst). cbn [bind].
  rewrite (with_top_eq _ _ _ _ Hst). eexists. split; [reflexivity|].
  destruct (rm_clear_spec r (r_regs tp) (s_rules s) E4 E3) as (C1 & C2).
  apply guard_ok_iff in Hg. destruct Hg as (Hg1 & Hg2).
  assert (Ho : over (max_rules c) (length (remove r (s_rules s))) = false).
  { eapply over_mono; [apply remove_length|exact Hg2]. }
  assert (Hg' : guard c ini (with_rules (remove r (s_rules s)) s) = Ok tt).
  { apply guard_ok_iff. split; [exact Hg1|exact Ho]. }
  split; [|exact Hg'].
  exists (set_regs (rm_clear r (r_regs tp)) tp), rest, bottom. split; [|exact Hl].
  apply Rcore_top with (tp := tp) (s := s); auto.
  unfold entry_rel. cbn [fst snd with_rules s_cfa s_rules s_args set_regs r_cfa r_args r_regs].
  repeat split; auto. apply nodup_remove. exact E5.
Qed.

Lemma last_opt_app {A} (l : list A) (b : A) : last_opt (l ++ [b]) = Some b.
Proof.
  induction l as [|a l IH]; [reflexivity|]. cbn [app].
  destruct (l ++ [b]) eqn:E; [destruct l; discriminate|]. cbn [last_opt]. exact IH.
Qed.

Lemma sim_get_initial ini t s r :
  R ini t s ->
  get_initial_rule (t_ctx t) r =
    Ok (match ini with None => None | Some m => Some (lookup r m) end).
Proof.
  intros (tp & rest & bottom & HR & Hl).
  pose proof HR as (_ & _ & _ & _ & Hst & _ & _ & Hb & _).
  unfold get_initial_rule. unfold bottom_rel in Hb. destruct ini as [m|].
  - destruct Hb as (Hi & Hn & Hb). rewrite Hi. cbn [negb].
    destruct (c_initial_rule (t_ctx t)) as [[[r' x]|]|].
    + destruct Hb as (Hm & _ & _). rewrite (Hm r). cbn [lookup].
      destruct (r' =? r); reflexivity.
    + destruct Hb as (-> & _). reflexivity.
    + destruct Hb as (b & -> & Hm & _). rewrite Hst.
      change (tp :: rest ++ [b]) with ((tp :: rest) ++ [b]). rewrite last_opt_app.
      unfold rm_get. rewrite (Hm r). reflexivity.
  - destruct Hb as (Hi & _ & _). rewrite Hi. reflexivity.
Qed.

Lemma sim_push ini t s :
  R ini t s ->
  let s' := {| s_loc := s_loc s; s_cfa := s_cfa s; s_rules := s_rules s; s_args := s_args s;
               s_stack := (s_cfa s, s_rules s, s_args s) :: s_stack s |} in
  match push_row c (t_ctx t), guard c ini s' with
  | Ok cx, Ok _ => R ini (with_ctx cx t) s'
  | Err e, Err e' => e = e'
  | _, _ => False
  end.
Proof.
  intros (tp & rest & bottom & HR & Hl) s'.
  pose proof (stack_len _ _ _ _ _ _ HR) as Hlen.
  pose proof HR as (H1 & H2 & H3 & H4 & Hst & Htop & Hrest & Hb & Hg).
  unfold push_row. rewrite (top_eq _ _ _ Hst). cbn [bind].
  apply guard_ok_iff in Hg. destruct Hg as (Hg1 & Hg2).
  assert (Hocc : stack_occ ini s' = S (stack_occ ini s)) by (unfold stack_occ, s'; cbn [s_stack length]; lia).
  unfold guard. rewrite Hocc, <- cap_full_over, <- Hlen.
  destruct (cap_full (max_stack c) (length (c_stack (t_ctx t)))) eqn:Ef; [reflexivity|].
  unfold rules_occ. change (s_rules s') with (s_rules s). unfold rules_occ in Hg2. rewrite Hg2.
  exists tp, (tp :: rest), bottom. split; [|exact Hl].
  unfold Rcore. cbn [t_caf t_daf t_asize t_ctx with_ctx with_stack c_stack c_init c_initial_rule].
  refine (conj H1 (conj H2 (conj H3 (conj H4 (conj _ (conj Htop (conj _ (conj Hb _)))))))).
  - rewrite Hst. reflexivity.
  - constructor; [exact Htop|exact Hrest].
  - apply guard_ok_iff. rewrite Hocc, <- cap_full_over, <- Hlen. split; [exact Ef|exact Hg2].
Qed.

Lemma sim_pop ini t s :
  R ini t s ->
  match pop_row (t_ctx t), s_stack s with
  | Err e, [] => e = EPopWithEmptyStack
  | Ok cx, (cf, m, a) :: st =>
      exists e rest', c_stack cx = e :: rest' /\
        forall start, exists cx2, with_top (set_start start) cx = Ok cx2 /\
          forall loc, loc = start ->
          R ini (with_ctx cx2 t) {| s_loc := loc; s_cfa := cf; s_rules := m; s_args := a; s_stack := st |} /\
          guard c ini {| s_loc := loc; s_cfa := cf; s_rules := m; s_args := a; s_stack := st |} = Ok tt
  | _, _ => False
  end.
Proof.
  intros (tp & rest & bottom & HR & Hl).
  pose proof HR as (H1 & H2 & H3 & H4 & Hst & Htop & Hrest & Hb & Hg).
  destruct (bottom_len _ _ _ Hb) as (Hb1 & Hb2).
  unfold pop_row. rewrite Hst. cbn [length]. rewrite app_length.
  assert (Hmin : (if c_init (t_ctx t) && match c_initial_rule (t_ctx t) with None => true | Some _ => false end
                  then 2%nat else 1%nat) = S (length bottom)).
  { assert (Hb01 : length bottom = 0%nat \/ length bottom = 1%nat).
    { rewrite Hb1. destruct ini as [mm|]; [destruct (Nat.leb 2 (length mm))|]; auto. }
    destruct Hb01 as [Hb0|Hb0].
    - rewrite Hb0.
      destruct (c_init (t_ctx t)) eqn:Ei; destruct (c_initial_rule (t_ctx t)) as [o|] eqn:Er; cbn [andb]; auto.
      exfalso. assert (length bottom = 1%nat) by (apply Hb2; auto). lia.
    - rewrite Hb0. apply Hb2 in Hb0. destruct Hb0 as [Ei Er]. rewrite Ei, Er. reflexivity. }
  rewrite Hmin.
  destruct (s_stack s) as [|[[cf m] a] st] eqn:Es;
    [inversion Hrest; subst | inversion Hrest as [|e ? rest' ? He Hrest']; subst].
  - cbn [length app]. rewrite Nat.leb_refl. reflexivity.
  - cbn [length].
    match goal with |- context [Nat.leb ?x ?y] => destruct (Nat.leb x y) eqn:El end;
      [apply Nat.leb_le in El; lia|].
    exists e, (rest' ++ bottom). split; [reflexivity|].
    intros start. eexists. split; [unfold with_top; cbn [with_stack c_stack]; reflexivity|].
    intros loc ->.
    apply guard_ok_iff in Hg. destruct Hg as (Hg1 & Hg2).
    destruct He as (E1 & E2 & E3 & E4 & E5 & E6). cbn [fst snd] in *.
    assert (Hg' : guard c ini {| s_loc := start; s_cfa := cf; s_rules := m; s_args := a; s_stack := st |} = Ok tt).
    { apply guard_ok_iff. split; [|exact E6].
      eapply over_mono; [|exact Hg1]. unfold stack_occ. rewrite Es. cbn [s_stack length]. lia. }
    split; [|exact Hg'].
    exists (set_start start e), rest', bottom. split; [|reflexivity].
    unfold Rcore. cbn [t_caf t_daf t_asize t_ctx with_ctx with_stack c_stack c_init c_initial_rule s_cfa s_rules s_args s_stack].
    refine (conj H1 (conj H2 (conj H3 (conj H4 (conj eq_refl (conj _ (conj Hrest' (conj Hb Hg')))))))).
    unfold entry_rel. cbn [fst snd set_start r_cfa r_args r_regs]. repeat split; auto.
Qed.

Definition step_rel (ini : option rmap) (rm : res (bool * tbl)) (rs : res (sstate * option srow)) : Prop :=
  match rm, rs with
  | Ok (false, t'), Ok (s', None) => R ini t' s'
  | Ok (true, t'), Ok (s', Some sr) =>
      Rdone ini t' s' /\ exists tp', top (t_ctx t') = Ok tp' /\ row_equiv tp' sr
  | Err e, Err e' => e = e'
  | _, _ => False
  end.

Lemma R_guard ini t s : R ini t s -> guard c ini s = Ok tt.
Proof. intros (tp & rest & bottom & (_ & _ & _ & _ & _ & _ & _ & _ & Hg) & _). exact Hg. Qed.

Lemma R_params ini t s :
  R ini t s -> t_caf t = sp_caf p /\ t_daf t = sp_daf p /\ t_asize t = sp_asize p /\ valid_asize (sp_asize p) = true.
Proof. intros (tp & rest & bottom & (H1 & H2 & H3 & H4 & _) & _). auto. Qed.

Lemma sim_row ini t s a :
  R ini t s ->
  exists cx, with_top (set_end a) (t_ctx t) = Ok cx /\
    guard c ini (with_loc a s) = Ok tt /\
    Rdone ini (with_ctx cx (with_next_start a t)) (with_loc a s) /\
    exists tp', top cx = Ok tp' /\ row_equiv tp' (row_of s a).
Proof.
  intros (tp & rest & bottom & HR & Hl).
  pose proof HR as (H1 & H2 & H3 & H4 & Hst & Htop & Hrest & Hb & Hg).
  rewrite (with_top_eq _ _ _ _ Hst). eexists. split; [reflexivity|].
  assert (Hg' : guard c ini (with_loc a s) = Ok tt) by exact Hg.
  split; [exact Hg'|]. split.
  - exists (set_end a tp), rest, bottom. split; [|reflexivity].
    unfold Rcore. cbn [t_caf t_daf t_asize t_ctx with_ctx with_next_start c_stack c_init c_initial_rule].
    refine (conj H1 (conj H2 (conj H3 (conj H4 (conj eq_refl (conj _ (conj Hrest (conj Hb Hg')))))))).
    apply entry_rel_set_end. exact Htop.
  - exists (set_end a tp). split; [reflexivity|].
    destruct Htop as (E1 & E2 & E3 & _). cbn [fst snd] in *.
    unfold row_equiv, row_of. cbn. repeat split; auto.
Qed.

Ltac spec_ok :=
  unfold step_lim; cbn [spec_step bind].

Theorem step_sim ini t s i :
  R ini t s -> step_rel ini (evaluate c t i) (step_lim c p ini s i).
Proof.
  intros HR.
  pose proof (R_guard _ _ _ HR) as Hg.
  pose proof (R_params _ _ _ HR) as (Pc & Pd & Pa & Pv).
  destruct (R_top _ _ _ HR) as (tp & Htp & Tl & Tc & Ta & Tm).
  assert (Hcfa : forall cf, step_rel ini (t_upd_top (set_cfa cf) t)
                   (let* _ := guard c ini (with_cfa cf s) in Ok (with_cfa cf s, None))).
  { intros cf.
    assert (F1 : forall r, r_start (set_cfa cf r) = r_start r /\ r_regs (set_cfa cf r) = r_regs r)
      by (intros r; cbn; auto).
    assert (F2 : forall r, r_cfa r = s_cfa s -> r_args r = s_args s ->
                 r_cfa (set_cfa cf r) = s_cfa (with_cfa cf s) /\ r_args (set_cfa cf r) = s_args (with_cfa cf s))
      by (intros r _ Hr; cbn; auto).
    destruct (sim_upd_top ini t s (set_cfa cf) (with_cfa cf s) HR F1 F2 eq_refl eq_refl eq_refl)
      as (t' & E & HR' & Hg').
    rewrite E, Hg'. exact HR'. }
  assert (Hset : forall r x, step_rel ini (t_set_rule c r x t)
                   (let* _ := guard c ini (set_rule r x s) in Ok (set_rule r x s, None))).
  { intros r x. pose proof (sim_set_rule ini t s r x HR) as H.
    destruct (t_set_rule c r x t) as [[b t']|e| |]; destruct (guard c ini (set_rule r x s)) as [[]|e'| |];
      cbn [bind step_rel]; try contradiction; auto.
    destruct H as (-> & H). exact H. }
  destruct i; spec_ok; cbn [evaluate].
  - (* ISetLoc *)
    rewrite Htp. cbn [bind]. rewrite Tl.
    destruct (a <? s_loc s); [reflexivity|].
    destruct (sim_row ini t s a HR) as (cx & E & Hg' & Hd & Hrow).
    cbn [bind t_ctx with_next_start]. rewrite E, Hg'. cbn [bind step_rel]. split; [exact Hd|].
    cbn [t_ctx with_ctx]. exact Hrow.
  - (* IAdvanceLoc *)
    rewrite Htp. cbn [bind]. rewrite Tl, Pc, Pa, (add_sized_spec _ _ _ Pv).
    destruct (2 ^ (8 * sp_asize p) <=? s_loc s + wrap64 (d * sp_caf p)); [reflexivity|].
    destruct (sim_row ini t s (s_loc s + wrap64 (d * sp_caf p)) HR) as (cx & E & Hg' & Hd & Hrow).
    cbn [bind t_ctx with_next_start]. rewrite E, Hg'. cbn [bind step_rel]. split; [exact Hd|].
    cbn [t_ctx with_ctx]. exact Hrow.
  - (* IDefCfa *) rewrite to_i64_wrap. apply Hcfa.
  - (* IDefCfaSf *) unfold factored, wrap_i64. rewrite <- Pd. apply Hcfa.
  - (* IDefCfaRegister *)
    rewrite Htp. cbn [bind]. rewrite Tc. destruct (s_cfa s); [apply Hcfa|reflexivity].
  - (* IDefCfaOffset *)
    rewrite Htp. cbn [bind]. rewrite Tc. destruct (s_cfa s); [|reflexivity].
    rewrite to_i64_wrap. apply Hcfa.
  - (* IDefCfaOffsetSf *)
    rewrite Htp. cbn [bind]. rewrite Tc. destruct (s_cfa s); [|reflexivity].
    unfold factored, wrap_i64. rewrite <- Pd. apply Hcfa.
  - (* IDefCfaExpression *) apply Hcfa.
  - (* IUndefined *) apply Hset.
  - (* ISameValue *) apply Hset.
  - (* IOffset *) rewrite wmul_to_i64, Pd. apply Hset.
  - (* IOffsetExtendedSf *) unfold factored, wrap_i64. rewrite <- Pd. apply Hset.
  - (* IValOffset *) rewrite wmul_to_i64, Pd. apply Hset.
  - (* IValOffsetSf *) unfold factored, wrap_i64. rewrite <- Pd. apply Hset.
  - (* IRegister *) apply Hset.
  - (* IExpression *) apply Hset.
  - (* IValExpression *) apply Hset.
  - (* IRestore *)
    rewrite (sim_get_initial ini t s r HR). cbn [bind].
    destruct ini as [m|]; [|reflexivity].
    destruct (lookup r m) as [x|] eqn:El; cbn [update].
    + apply Hset.
    + destruct (sim_clear (Some m) t s r HR) as (cx & E & HR' & Hg').
      rewrite E. cbn [bind]. rewrite Hg'. cbn [bind step_rel]. exact HR'.
  - (* IRememberState *)
    pose proof (sim_push ini t s HR) as H. cbv zeta in H.
    set (s' := {| s_loc := s_loc s; s_cfa := s_cfa s; s_rules := s_rules s; s_args := s_args s;
                  s_stack := (s_cfa s, s_rules s, s_args s) :: s_stack s |}) in *.
    destruct (push_row c (t_ctx t)) as [cx|e| |]; destruct (guard c ini s') as [[]|e'| |];
      cbn [bind step_rel]; try contradiction; auto.
  - (* IRestoreState *)
    rewrite Htp. cbn [bind].
    pose proof (sim_pop ini t s HR) as H.
    destruct (pop_row (t_ctx t)) as [cx|e| |]; destruct (s_stack s) as [|[[cf m] a] st];
      cbn [bind step_rel]; try contradiction; auto.
    destruct H as (e & rest' & _ & H). destruct (H (r_start tp)) as (cx2 & E & H2).
    rewrite E. cbn [bind]. destruct (H2 (s_loc s) (eq_sym Tl)) as (HR' & Hg').
    rewrite Hg'. cbn [bind step_rel]. exact HR'.
  - (* IArgsSize *)
    assert (F1 : forall r, r_start (set_args n r) = r_start r /\ r_regs (set_args n r) = r_regs r)
      by (intros r; cbn; auto).
    assert (F2 : forall r, r_cfa r = s_cfa s -> r_args r = s_args s ->
                 r_cfa (set_args n r) = s_cfa (with_args n s) /\ r_args (set_args n r) = s_args (with_args n s))
      by (intros r Hr _; cbn; auto).
    destruct (sim_upd_top ini t s (set_args n) (with_args n s) HR F1 F2 eq_refl eq_refl eq_refl)
      as (t' & E & HR' & Hg').
    rewrite E, Hg'. exact HR'.
  - (* INegateRaState *)
    rewrite Htp. cbn [bind]. unfold rm_get. rewrite (Tm RA_SIGN_STATE).
    destruct (lookup RA_SIGN_STATE (s_rules s)) as [[]|]; try reflexivity; apply Hset.
  - (* INop *) rewrite Hg. cbn [bind step_rel]. exact HR.
Qed.
End Sim.

(* ---------- F: whole instruction streams ---------- *)

Section RunSim.
Variable c : caps.
Variable p : sparams.

Lemma Rdone_prologue ini t s a b :
  Rdone c p ini t s ->
  exists t3, prologue (with_flags a b t) = Some t3 /\ R c p ini t3 s /\ t_last_end t3 = t_last_end t.
Proof.
  intros (tp & rest & bottom & HR & Hn).
  pose proof HR as (H1 & H2 & H3 & H4 & Hst & Htop & Hrest & Hb & Hg).
  unfold prologue. cbn [t_ctx with_flags]. rewrite Hst.
  eexists. split; [reflexivity|]. split; [|reflexivity].
  exists (set_start (t_next_start t) tp), rest, bottom. split; [|cbn; exact Hn].
  unfold Rcore. cbn [t_caf t_daf t_asize t_ctx with_ctx with_flags c_stack c_init c_initial_rule].
  refine (conj H1 (conj H2 (conj H3 (conj H4 (conj eq_refl (conj _ (conj Hrest (conj Hb Hg)))))))).
  apply entry_rel_set_start. exact Htop.
Qed.

Lemma run_sim ini end_addr : forall items t s,
  R c p ini t s -> t_last_end t = end_addr ->
  match run_mid c t items, spec_run c p ini end_addr s items with
  | ((rows, o), cx), (srows, (so, sfin)) =>
      Forall2 row_equiv rows srows /\ o = so /\
      (o = Done -> exists tf tp rest bottom, t_ctx tf = cx /\ Rcore c p ini tf sfin tp rest bottom)
  end.
Proof.
  induction items as [|x items IH]; intros t s HR He.
  - (* end of the stream: the final row *)
    cbn [run_mid spec_run].
    destruct HR as (tp & rest & bottom & HR & Hl).
    pose proof HR as (H1 & H2 & H3 & H4 & Hst & Htop & Hrest & Hb & Hg).
    rewrite (with_top_eq _ _ _ _ Hst). unfold top at 1. cbn [c_stack].
    unfold prologue. cbn [t_ctx with_flags with_ctx c_stack c_init c_initial_rule t_next_start t_returned_last].
    split; [|split; [reflexivity|]].
    + constructor; [|constructor].
      destruct Htop as (E1 & E2 & E3 & _). cbn [fst snd] in *.
      unfold row_equiv, row_of. cbn. rewrite He. repeat split; auto.
    + intros _.
      match goal with |- exists tf _ _ _, t_ctx tf = ?cx /\ _ => exists (with_ctx cx t) end.
      exists (set_start (t_next_start t) (set_end (t_last_end t) tp)), rest, bottom.
      split; [reflexivity|].
      unfold Rcore. cbn [t_caf t_daf t_asize t_ctx with_ctx with_flags c_stack c_init c_initial_rule].
      refine (conj H1 (conj H2 (conj H3 (conj H4 (conj eq_refl (conj _ (conj Hrest (conj Hb Hg)))))))).
      apply entry_rel_set_start, entry_rel_set_end. exact Htop.
  - destruct x as [i|e| |]; cbn [run_mid spec_run];
      try (split; [constructor|split; [reflexivity|discriminate]]).
    pose proof (step_sim c p ini t s i HR) as Hs.
    destruct (evaluate c t i) as [[[|] t1]|e| |] eqn:Ev;
      destruct (step_lim c p ini s i) as [[s' [sr|]]|e'| |]; cbn [step_rel] in Hs; try contradiction.
    + (* a row was completed *)
      destruct Hs as (Hd & tp' & Htp & Hrow).
      cbn [t_ctx with_flags]. rewrite Htp.
      apply evaluate_flags in Ev. destruct Ev as (_ & Ev2 & _).
      destruct (Rdone_prologue ini t1 s' (t_returned_last t1) true Hd) as (t3 & Hp & HR3 & Hl3).
      rewrite Hp.
      specialize (IH t3 s' HR3 ltac:(congruence)).
      destruct (run_mid c t3 items) as [[rows o] cx].
      destruct (spec_run c p ini end_addr s' items) as [srows [so sfin]].
      destruct IH as (I1 & I2 & I3). split; [constructor; auto|]. auto.
    + (* no row yet *)
      apply evaluate_flags in Ev. destruct Ev as (_ & Ev2 & _).
      apply IH; [exact Hs|congruence].
    + subst. split; [constructor|split; [reflexivity|discriminate]].
Qed.
End RunSim.

(* ---------- G: CIE then FDE — the whole table ---------- *)

Definition sparams_of (f : fde_in) : sparams :=
  {| sp_caf := f_caf f; sp_daf := f_daf f; sp_asize := f_asize f |}.

(* the specification's answer for an already-parsed CIE/FDE (limits layered on by [c]) *)
Definition spec_of (dbg : bool) (c : caps) (f : fde_in) : list srow * outcome :=
  run_spec_lim c (sparams_of f) (f_init f) (spec_end (f_asize f) (f_init f) (f_range f))
    (decode dbg (f_dparams f) (f_cie_off f) (f_cie f))
    (decode dbg (f_dparams f) (f_fde_off f) (f_fde f)).

Lemma length_zero_nil {A} (l : list A) : length l = 0%nat -> l = [].
Proof. destruct l; [reflexivity|discriminate]. Qed.

Section Whole.
Variable c : caps.
Variable p : sparams.

Lemma Rcore_with_loc ini t s tp rest bottom a :
  Rcore c p ini t s tp rest bottom -> Rcore c p ini t (with_loc a s) tp rest bottom.
Proof. unfold Rcore. cbn [with_loc s_cfa s_rules s_args s_stack]. tauto. Qed.

Lemma guard_with_loc ini s a : guard c ini (with_loc a s) = guard c ini s.
Proof. reflexivity. Qed.

Lemma save_sim dbg t sc tp rest bottom :
  Rcore c p None t sc tp rest bottom ->
  match save_initial_rules dbg c (t_ctx t), guard c (Some (s_rules sc)) sc with
  | Ok cx2, Ok _ =>
      exists tp' rest' bottom',
        forall t', t_ctx t' = cx2 -> t_caf t' = sp_caf p -> t_daf t' = sp_daf p -> t_asize t' = sp_asize p ->
                   Rcore c p (Some (s_rules sc)) t' sc tp' rest' bottom'
  | Err e, Err e' => e = e'
  | _, _ => False
  end.
Proof.
  intros HR.
  pose proof (stack_len _ _ _ _ _ _ _ _ HR) as Hlen.
  destruct HR as (H1 & H2 & H3 & H4 & Hst & Htop & Hrest & Hb & Hg).
  destruct Hb as (Hi & Hr & ->). rewrite app_nil_r in Hst.
  pose proof Htop as (E1 & E2 & E3 & E4 & E5 & E6). cbn [fst snd] in *.
  assert (Hl : length (r_regs tp) = length (s_rules sc)) by (apply same_map_length; auto).
  apply guard_ok_iff in Hg. destruct Hg as (Hg1 & Hg2).
  unfold save_initial_rules. rewrite Hi, andb_false_r, Hst.
  assert (Hocc : stack_occ (Some (s_rules sc)) sc =
                 (stack_occ None sc + if Nat.leb 2 (length (s_rules sc)) then 1 else 0)%nat)
    by (unfold stack_occ; lia).
  destruct (r_regs tp) as [|[r x] [|y l]] eqn:Er.
  - (* no initial rules *)
    cbn [length] in Hl. symmetry in Hl. apply length_zero_nil in Hl.
    assert (Hg' : guard c (Some (s_rules sc)) sc = Ok tt).
    { apply guard_ok_iff. rewrite Hocc, Hl. cbn [length Nat.leb]. rewrite Nat.add_0_r. auto. }
    rewrite Hg'. exists tp, rest, []. intros t' Ht Hc Hd Ha.
    unfold Rcore. rewrite Ht. cbn [c_stack c_init c_initial_rule].
    refine (conj Hc (conj Hd (conj Ha (conj H4 (conj _ (conj Htop (conj Hrest (conj _ Hg')))))))).
    + rewrite app_nil_r. reflexivity.
    + unfold bottom_rel. cbn [c_init c_initial_rule]. auto.
  - (* exactly one *)
    cbn [length] in Hl.
    assert (Hg' : guard c (Some (s_rules sc)) sc = Ok tt).
    { apply guard_ok_iff. rewrite Hocc, <- Hl. cbn [Nat.leb]. rewrite Nat.add_0_r. auto. }
    rewrite Hg'. exists tp, rest, []. intros t' Ht Hc Hd Ha.
    unfold Rcore. rewrite Ht. cbn [c_stack c_init c_initial_rule].
    refine (conj Hc (conj Hd (conj Ha (conj H4 (conj _ (conj Htop (conj Hrest (conj _ Hg')))))))).
    + rewrite app_nil_r. reflexivity.
    + unfold bottom_rel. cbn [c_init c_initial_rule]. repeat split; auto.
      apply same_map_sym. exact E3.
  - (* two or more: the row is cloned under the stack *)
    cbn [length] in Hl.
    assert (H2le : Nat.leb 2 (length (s_rules sc)) = true) by (apply Nat.leb_le; lia).
    unfold guard. rewrite Hocc, H2le, Nat.add_1_r, <- cap_full_over, <- Hlen, Hst.
    destruct (cap_full (max_stack c) (length (tp :: rest))) eqn:Ef; [reflexivity|].
    unfold rules_occ in *. rewrite Hg2.
    exists tp, rest, [tp]. intros t' Ht Hc Hd Ha.
    unfold Rcore. rewrite Ht. cbn [c_stack c_init c_initial_rule].
    assert (Hg' : guard c (Some (s_rules sc)) sc = Ok tt).
    { apply guard_ok_iff. rewrite Hocc, H2le, Nat.add_1_r, <- cap_full_over, <- Hlen, Hst. auto. }
    refine (conj Hc (conj Hd (conj Ha (conj H4 (conj eq_refl (conj Htop (conj Hrest (conj _ Hg')))))))).
    unfold bottom_rel. cbn [c_init c_initial_rule]. repeat split; auto.
    exists tp. split; [reflexivity|]. split; [rewrite Er; exact E3|apply Nat.leb_le; exact H2le].
Qed.
End Whole.

Definition start_tbl (f : fde_in) (start last_end : N) (cx : ctx) : tbl :=
  {| t_caf := f_caf f; t_daf := f_daf f; t_asize := f_asize f; t_next_start := start; t_last_end := last_end;
     t_returned_last := false; t_cur_valid := false; t_ctx := cx |}.

Lemma new_table_ok f start last_end cx :
  c_stack cx <> [] ->
  new_table (f_caf f) (f_daf f) (f_asize f) start last_end cx = Ok (start_tbl f start last_end cx).
Proof. unfold new_table. destruct (c_stack cx); [congruence|reflexivity]. Qed.

(* running one instruction stream on a table whose context satisfies Rcore *)
Lemma collect_sim dbg c f ini start last_end cx items_off items s tp rest bottom :
  valid_asize (f_asize f) = true ->
  Rcore c (sparams_of f) ini (start_tbl f start last_end cx) s tp rest bottom ->
  match collect (length items + 2) None dbg c (f_dparams f) (start_tbl f start last_end cx)
                {| it_off := items_off; it_bytes := items |},
        spec_run c (sparams_of f) ini last_end (with_loc start s)
                 (decode dbg (f_dparams f) items_off items) with
  | ((rows, o), cxf), (srows, (so, sfin)) =>
      Forall2 row_equiv rows srows /\ o = so /\
      (o = Done -> exists tf tp' rest' bottom', t_ctx tf = cxf /\
                                                Rcore c (sparams_of f) ini tf sfin tp' rest' bottom')
  end.
Proof.
  intros Hv HR.
  set (it := {| it_off := items_off; it_bytes := items |}).
  set (t := start_tbl f start last_end cx).
  assert (Hd : Rdone c (sparams_of f) ini t (with_loc start s)).
  { exists tp, rest, bottom. split; [apply Rcore_with_loc; exact HR|reflexivity]. }
  destruct (Rdone_prologue c (sparams_of f) ini t (with_loc start s) false false Hd) as (t3 & Hp & HR3 & Hl3).
  assert (Hpt : prologue t = Some t3) by exact Hp.
  rewrite (collect_run_mid dbg c (f_dparams f) (length items) t it (length items + 2));
    [|apply (dec_length dbg (f_dparams f) it)|lia|reflexivity].
  rewrite Hpt.
  apply (run_sim c (sparams_of f) ini last_end (dec dbg (f_dparams f) it) t3 (with_loc start s) HR3).
  exact Hl3.
Qed.

Theorem model_eq_spec dbg c f cx :
  valid_asize (f_asize f) = true ->
  cap_full (max_stack c) 0 = false ->
  Forall2 row_equiv (fst (fst (fde_rows dbg c f cx))) (fst (spec_of dbg c f)) /\
  snd (fst (fde_rows dbg c f cx)) = snd (spec_of dbg c f).
Proof.
  intros Hv Hcap.
  unfold fde_rows, fde_rows_lim, spec_of, run_spec_lim. rewrite Hv. cbn [negb].
  unfold table_new, initialize, reset. rewrite Hcap. cbn [bind].
  set (cx0 := {| c_stack := [default_row]; c_initial_rule := None; c_init := false |}).
  rewrite (new_table_ok f 0 0 cx0) by discriminate. cbn [bind].
  (* the CIE's initial instructions *)
  assert (HR0 : Rcore c (sparams_of f) None (start_tbl f 0 0 cx0) init_state default_row [] []).
  { unfold Rcore. cbn. repeat split; auto; try constructor.
    - destruct (max_rules c); reflexivity.
    - apply guard_ok_iff. cbn. split; [|destruct (max_rules c); reflexivity].
      rewrite <- cap_full_over. exact Hcap. }
  pose proof (collect_sim dbg c f None 0 0 cx0 (f_cie_off f) (f_cie f) init_state default_row [] [] Hv HR0) as Hc.
  pose proof (drain_collect dbg c (f_dparams f) (length (f_cie f) + 2) (start_tbl f 0 0 cx0)
                {| it_off := f_cie_off f; it_bytes := f_cie f |}) as Hdr.
  destruct (collect (length (f_cie f) + 2) None dbg c (f_dparams f) (start_tbl f 0 0 cx0)
              {| it_off := f_cie_off f; it_bytes := f_cie f |}) as [[rows_c o_c] cx1].
  change (with_loc 0 init_state) with init_state in Hc.
  destruct (spec_run c (sparams_of f) None 0 init_state (decode dbg (f_dparams f) (f_cie_off f) (f_cie f)))
    as [srows_c [so_c sc]].
  destruct Hc as (_ & Ho & Hfin). subst so_c. cbn [fst snd] in Hdr.
  destruct o_c as [|e| |].
  2: { rewrite Hdr. cbn. split; [constructor|reflexivity]. }
  2: { rewrite Hdr. cbn. split; [constructor|reflexivity]. }
  2: { rewrite Hdr. cbn. split; [constructor|reflexivity]. }
  destruct Hdr as (t' & Hdr & Hctx). rewrite Hdr. cbn [bind].
  destruct (Hfin eq_refl) as (tf & tp & rest & bottom & Htf & HRc).
  (* save_initial_rules against the transition guard *)
  pose proof (save_sim c (sparams_of f) dbg tf sc tp rest bottom HRc) as Hsave.
  rewrite Htf, <- Hctx in Hsave.
  rewrite guard_with_loc.
  destruct (save_initial_rules dbg c (t_ctx t')) as [cx2|e| |];
    destruct (guard c (Some (s_rules sc)) sc) as [[]|e'| |]; try contradiction.
  2: { subst. cbn. split; [constructor|reflexivity]. }
  cbn [bind].
  destruct Hsave as (tp2 & rest2 & bottom2 & Hsave).
  assert (Hne : c_stack cx2 <> []).
  { destruct (Hsave (start_tbl f 0 0 cx2) eq_refl eq_refl eq_refl eq_refl) as (_ & _ & _ & _ & Hst & _).
    cbn [t_ctx start_tbl] in Hst. rewrite Hst. discriminate. }
  rewrite (new_table_ok f (f_init f) (end_address f) cx2 Hne).
  rewrite (end_address_spec f Hv).
  (* the FDE's instructions *)
  pose proof (collect_sim dbg c f (Some (s_rules sc)) (f_init f) (spec_end (f_asize f) (f_init f) (f_range f))
                cx2 (f_fde_off f) (f_fde f) sc tp2 rest2 bottom2 Hv
                (Hsave (start_tbl f (f_init f) (spec_end (f_asize f) (f_init f) (f_range f)) cx2)
                       eq_refl eq_refl eq_refl eq_refl)) as Hf.
  destruct (collect (length (f_fde f) + 2) None dbg c (f_dparams f)
              (start_tbl f (f_init f) (spec_end (f_asize f) (f_init f) (f_range f)) cx2)
              {| it_off := f_fde_off f; it_bytes := f_fde f |}) as [[rows o] cxf].
  destruct (spec_run c (sparams_of f) (Some (s_rules sc)) (spec_end (f_asize f) (f_init f) (f_range f))
              (with_loc (f_init f) sc) (decode dbg (f_dparams f) (f_fde_off f) (f_fde f))) as [srows [so sfin]].
  destruct Hf as (Hrows & Ho & _). cbn [fst snd]. auto.
Qed.

(* ---------- H: limited vs unlimited specification ---------- *)

Lemma guard_no_caps ini s : guard no_caps ini s = Ok tt.
Proof. reflexivity. Qed.

Lemma step_lim_no_caps p ini s i :
  step_lim no_caps p ini s i = spec_step p ini s i.
Proof.
  unfold step_lim. destruct (spec_step p ini s i) as [[s' row]|e| |]; reflexivity.
Qed.

Definition is_limit (o : outcome) : Prop := o = Fail EStackFull \/ o = Fail ETooManyRegisterRules.

Lemma guard_cases c ini s :
  guard c ini s = Ok tt \/ guard c ini s = Err EStackFull \/ guard c ini s = Err ETooManyRegisterRules.
Proof.
  unfold guard. destruct (over (max_stack c) (stack_occ ini s)); auto.
  destruct (over (max_rules c) (rules_occ s)); auto.
Qed.

Inductive prefix {A} : list A -> list A -> Prop :=
| prefix_nil l : prefix [] l
| prefix_cons a l l' : prefix l l' -> prefix (a :: l) (a :: l').

Lemma prefix_refl {A} (l : list A) : prefix l l.
Proof. induction l; constructor; auto. Qed.

(* the limited run is the unlimited run, cut at the first instruction whose result exceeds the limits *)
Lemma spec_run_fits c p ini e : forall items s,
  (fits c p ini s items = true /\ spec_run c p ini e s items = spec_run no_caps p ini e s items) \/
  (fits c p ini s items = false /\ is_limit (fst (snd (spec_run c p ini e s items))) /\
   prefix (fst (spec_run c p ini e s items)) (fst (spec_run no_caps p ini e s items))).
Proof.
  induction items as [|x items IH]; intros s; [left; split; reflexivity|].
  destruct x as [i|er| |]; try (left; split; reflexivity).
  cbn [fits spec_run]. rewrite step_lim_no_caps. unfold step_lim.
  destruct (spec_step p ini s i) as [[s' row]|er| |]; cbn [bind]; try (left; split; reflexivity).
  unfold guard_ok.
  destruct (guard_cases c ini s') as [Hg|[Hg|Hg]]; rewrite Hg; cbn [bind andb].
  - destruct (IH s') as [(F & E)|(F & L & P)].
    + left. split; [exact F|]. rewrite E. reflexivity.
    + right. split; [exact F|].
      destruct row as [r|];
        destruct (spec_run c p ini e s' items) as [rows [o sf]];
        destruct (spec_run no_caps p ini e s' items) as [rows' [o' sf']]; cbn [fst snd] in *;
        split; auto. constructor. exact P.
  - right. split; [reflexivity|]. split; [left; reflexivity|]. cbn [fst]. constructor.
  - right. split; [reflexivity|]. split; [right; reflexivity|]. cbn [fst]. constructor.
Qed.

Lemma run_spec_fits c p init_addr e cie fde :
  (fits_run c p init_addr cie fde = true /\
   run_spec_lim c p init_addr e cie fde = run_spec p init_addr e cie fde) \/
  (fits_run c p init_addr cie fde = false /\ is_limit (snd (run_spec_lim c p init_addr e cie fde)) /\
   prefix (fst (run_spec_lim c p init_addr e cie fde)) (fst (run_spec p init_addr e cie fde))).
Proof.
  unfold fits_run, run_spec, run_spec_lim.
  destruct (spec_run_fits c p None 0 cie init_state) as [(F & E)|(F & L & P)].
  - rewrite F, E. cbn [andb].
    destruct (spec_run no_caps p None 0 init_state cie) as [rows_c [[|er| |] sc]];
      try (left; split; reflexivity).
    rewrite guard_no_caps. unfold guard_ok.
    destruct (guard_cases c (Some (s_rules sc)) (with_loc init_addr sc)) as [Hg|[Hg|Hg]]; rewrite Hg; cbn [andb].
    + destruct (spec_run_fits c p (Some (s_rules sc)) e fde (with_loc init_addr sc)) as [(F2 & E2)|(F2 & L2 & P2)].
      * left. split; [exact F2|]. rewrite E2. reflexivity.
      * right. split; [exact F2|].
        destruct (spec_run c p (Some (s_rules sc)) e (with_loc init_addr sc) fde) as [rows [o sf]].
        destruct (spec_run no_caps p (Some (s_rules sc)) e (with_loc init_addr sc) fde) as [rows' [o' sf']].
        cbn [fst snd] in *. auto.
    + right. split; [reflexivity|]. split; [left; reflexivity|constructor].
    + right. split; [reflexivity|]. split; [right; reflexivity|constructor].
  - rewrite F. cbn [andb]. right. split; [reflexivity|].
    destruct (spec_run c p None 0 init_state cie) as [rows_c [o_c sc]]. cbn [fst snd] in L.
    destruct L as [-> | ->]; (split; [|constructor]); [left|right]; reflexivity.
Qed.

(* ---------- I: shape of the rows, proved once on the specification ---------- *)

Definition span := (N * N)%type.
Fixpoint chain (start : N) (l : list span) : Prop :=
  match l with
  | [] => True
  | x :: t => fst x = start /\ chain (snd x) t
  end.
Definition ordered (x : span) : Prop := fst x <= snd x.

(* contiguous from [init]; every row but the final one has start <= end; when the table
   ended normally the final row ends at [end_addr] *)
Definition shape (init end_addr : N) (l : list span) (o : outcome) : Prop :=
  chain init l /\
  match o with
  | Done => exists l0 lastx, l = l0 ++ [lastx] /\ snd lastx = end_addr /\ Forall ordered l0
  | _ => Forall ordered l
  end.

Definition sspan (r : srow) : span := (sr_start r, sr_end r).
Definition mspan (r : row) : span := (r_start r, r_end r).

Lemma spec_step_loc p ini s i s' orow :
  spec_step p ini s i = Ok (s', orow) ->
  match orow with
  | Some row => sr_start row = s_loc s /\ sr_end row = s_loc s' /\ s_loc s <= s_loc s'
  | None => s_loc s' = s_loc s
  end.
Proof.
  destruct i; cbn [spec_step]; intros H;
    repeat match type of H with
           | (if ?x then _ else _) = _ => let E := fresh "E" in destruct x eqn:E; try discriminate
           | (match ?x with _ => _ end) = _ => destruct x; try discriminate
           end;
    inversion H; subst; cbn; auto; try lia.
Qed.

Lemma spec_run_shape c p ini e : forall items s,
  shape (s_loc s) e (map sspan (fst (spec_run c p ini e s items))) (fst (snd (spec_run c p ini e s items))).
Proof.
  induction items as [|x items IH]; intros s.
  - cbn. split; [split; [reflexivity|exact I]|]. exists (@nil span). exists (s_loc s, e). repeat split. constructor.
  - destruct x as [i|er| |]; cbn [spec_run]; try (cbn; split; [exact I|constructor]).
    unfold step_lim. destruct (spec_step p ini s i) as [[s' orow]|er| |] eqn:Es; cbn [bind];
      try (cbn; split; [exact I|constructor]).
    destruct (guard c ini s') as [[]|er| |]; cbn [bind]; try (cbn; split; [exact I|constructor]).
    apply spec_step_loc in Es. specialize (IH s').
    destruct (spec_run c p ini e s' items) as [rows [o sf]]. cbn [fst snd] in *.
    destruct orow as [row|].
    + destruct Es as (E1 & E2 & E3). destruct IH as (C & T). cbn [map fst snd].
      split; [cbn; rewrite E1, E2; auto|].
      assert (Ho : ordered (sspan row)) by (unfold ordered, sspan; cbn; lia).
      destruct o; try (constructor; assumption).
      destruct T as (l0 & lastx & El & Ee & Fo). exists (sspan row :: l0), lastx.
      rewrite El. repeat split; auto.
    + rewrite <- Es. exact IH.
Qed.

Lemma run_spec_lim_shape c p init_addr e cie fde :
  shape init_addr e (map sspan (fst (run_spec_lim c p init_addr e cie fde)))
        (snd (run_spec_lim c p init_addr e cie fde)).
Proof.
  unfold run_spec_lim.
  destruct (spec_run c p None 0 init_state cie) as [rows_c [[|er| |] sc]];
    try (cbn; split; [exact I|constructor]).
  destruct (guard c (Some (s_rules sc)) (with_loc init_addr sc)) as [[]|er| |];
    try (cbn; split; [exact I|constructor]).
  pose proof (spec_run_shape c p (Some (s_rules sc)) e fde (with_loc init_addr sc)) as H.
  destruct (spec_run c p (Some (s_rules sc)) e (with_loc init_addr sc) fde) as [rows [o sf]].
  exact H.
Qed.

Fixpoint nondec (l : list N) : Prop :=
  match l with
  | a :: (b :: _) as t => a <= b /\ nondec t
  | _ => True
  end.

Lemma chain_ordered_nondec : forall l start, chain start l -> Forall ordered l -> nondec (map fst l).
Proof.
  induction l as [|x l IH]; intros start Hc Ho; [exact I|].
  destruct l as [|y l]; [exact I|].
  destruct Hc as (Hx & Hy & Hc). inversion Ho as [|? ? Ox Ol]; subst.
  cbn [map nondec]. split; [unfold ordered in Ox; lia|].
  apply (IH (snd x)); [split; auto|exact Ol].
Qed.

Lemma shape_nondec init e l o : shape init e l o -> nondec (map fst l).
Proof.
  intros (Hc & Ho). destruct o; [|eapply chain_ordered_nondec; eassumption ..].
  destruct Ho as (l0 & lastx & -> & _ & Fo).
  clear e. revert init Hc. induction l0 as [|x l0 IH]; intros init Hc; [exact I|].
  inversion Fo as [|? ? Ox Ol]; subst.
  destruct Hc as (Hx & Hc).
  destruct l0 as [|y l0].
  - cbn in *. destruct Hc as (Hy & _). unfold ordered in Ox. lia.
  - cbn [app map nondec]. cbn [app chain] in Hc. destruct Hc as (Hy & Hc).
    split; [unfold ordered in Ox; lia|].
    apply (IH Ol (snd x)). cbn [app chain]. auto.
Qed.

(* ---------- J: the property theorems, on the model ---------- *)

Definition cie_items (dbg : bool) (f : fde_in) : list item := decode dbg (f_dparams f) (f_cie_off f) (f_cie f).
Definition fde_items (dbg : bool) (f : fde_in) : list item := decode dbg (f_dparams f) (f_fde_off f) (f_fde f).
(* the unlimited DWARF machine on this CIE/FDE *)
Definition spec_unl (dbg : bool) (f : fde_in) : list srow * outcome :=
  run_spec (sparams_of f) (f_init f) (spec_end (f_asize f) (f_init f) (f_range f)) (cie_items dbg f) (fde_items dbg f).
Definition within_limits (dbg : bool) (c : caps) (f : fde_in) : bool :=
  fits_run c (sparams_of f) (f_init f) (cie_items dbg f) (fde_items dbg f).

Lemma fde_rows_invalid dbg c f cx :
  valid_asize (f_asize f) = false -> fst (fde_rows dbg c f cx) = ([], Fail EUnsupportedAddressSize).
Proof. intros H. unfold fde_rows, fde_rows_lim. rewrite H. reflexivity. Qed.

Lemma fde_rows_nocap dbg c f cx :
  valid_asize (f_asize f) = true -> cap_full (max_stack c) 0 = true -> fst (fde_rows dbg c f cx) = ([], Crash).
Proof.
  intros Hv H. unfold fde_rows, fde_rows_lim, table_new, initialize, reset. rewrite Hv, H. reflexivity.
Qed.

Lemma row_equiv_spans rows srows : Forall2 row_equiv rows srows -> map mspan rows = map sspan srows.
Proof.
  induction 1 as [|r sr rows srows (E1 & E2 & _) _ IH]; [reflexivity|].
  cbn [map]. unfold mspan at 1, sspan at 1. rewrite E1, E2, IH. reflexivity.
Qed.

Theorem rows_shape_thm dbg c f cx :
  shape (f_init f) (end_address f) (map mspan (fst (fst (fde_rows dbg c f cx)))) (snd (fst (fde_rows dbg c f cx))).
Proof.
  destruct (valid_asize (f_asize f)) eqn:Hv.
  - destruct (cap_full (max_stack c) 0) eqn:Hc.
    + rewrite (fde_rows_nocap dbg c f cx Hv Hc). cbn. split; [exact I|constructor].
    + destruct (model_eq_spec dbg c f cx Hv Hc) as (H1 & H2).
      rewrite (row_equiv_spans _ _ H1), H2, (end_address_spec f Hv). apply run_spec_lim_shape.
  - rewrite (fde_rows_invalid dbg c f cx Hv). cbn. split; [exact I|constructor].
Qed.

Theorem rows_nondecreasing_thm dbg c f cx :
  nondec (map r_start (fst (fst (fde_rows dbg c f cx)))).
Proof.
  pose proof (shape_nondec _ _ _ _ (rows_shape_thm dbg c f cx)) as H.
  rewrite map_map in H. exact H.
Qed.

Lemma outcome_done_not_limit : ~ is_limit Done.
Proof. intros [H|H]; discriminate. Qed.

Theorem refines_thm dbg c f cx rows :
  fst (fde_rows dbg c f cx) = (rows, Done) ->
  exists rows', spec_unl dbg f = (rows', Done) /\ Forall2 row_equiv rows rows'.
Proof.
  intros H.
  destruct (valid_asize (f_asize f)) eqn:Hv; [|rewrite (fde_rows_invalid dbg c f cx Hv) in H; discriminate].
  destruct (cap_full (max_stack c) 0) eqn:Hc; [rewrite (fde_rows_nocap dbg c f cx Hv Hc) in H; discriminate|].
  destruct (model_eq_spec dbg c f cx Hv Hc) as (H1 & H2). rewrite H in H1, H2. cbn [fst snd] in H1, H2.
  unfold spec_of in H1, H2.
  destruct (run_spec_fits c (sparams_of f) (f_init f) (spec_end (f_asize f) (f_init f) (f_range f))
              (cie_items dbg f) (fde_items dbg f)) as [(F & E)|(F & L & P)].
  - unfold cie_items, fde_items in E. rewrite E in H1, H2.
    exists (fst (spec_unl dbg f)). split; [|exact H1].
    unfold spec_unl, cie_items, fde_items. rewrite (surjective_pairing (run_spec _ _ _ _ _)). f_equal. auto.
  - unfold cie_items, fde_items in L. rewrite <- H2 in L. exfalso. exact (outcome_done_not_limit L).
Qed.

Theorem error_is_specific_thm dbg c f cx rows e :
  fst (fde_rows dbg c f cx) = (rows, Fail e) ->
  (valid_asize (f_asize f) = false /\ e = EUnsupportedAddressSize /\ rows = []) \/
  (exists rows', spec_unl dbg f = (rows', Fail e) /\ Forall2 row_equiv rows rows') \/
  ((e = EStackFull \/ e = ETooManyRegisterRules) /\ within_limits dbg c f = false /\
   exists rows', Forall2 row_equiv rows rows' /\ prefix rows' (fst (spec_unl dbg f))).
Proof.
  intros H.
  destruct (valid_asize (f_asize f)) eqn:Hv.
  2: { rewrite (fde_rows_invalid dbg c f cx Hv) in H. inversion H; subst. left. auto. }
  destruct (cap_full (max_stack c) 0) eqn:Hc; [rewrite (fde_rows_nocap dbg c f cx Hv Hc) in H; discriminate|].
  destruct (model_eq_spec dbg c f cx Hv Hc) as (H1 & H2). rewrite H in H1, H2. cbn [fst snd] in H1, H2.
  unfold spec_of in H1, H2. right.
  destruct (run_spec_fits c (sparams_of f) (f_init f) (spec_end (f_asize f) (f_init f) (f_range f))
              (cie_items dbg f) (fde_items dbg f)) as [(F & E)|(F & L & P)].
  - left. unfold cie_items, fde_items in E. rewrite E in H1, H2.
    exists (fst (spec_unl dbg f)). split; [|exact H1].
    unfold spec_unl, cie_items, fde_items. rewrite (surjective_pairing (run_spec _ _ _ _ _)). f_equal. auto.
  - right. unfold cie_items, fde_items in L, P. rewrite <- H2 in L.
    split; [destruct L as [L|L]; inversion L; auto|]. split; [exact F|].
    eexists. split; [exact H1|exact P].
Qed.

Theorem no_silent_limit_thm dbg c f cx :
  valid_asize (f_asize f) = true -> cap_full (max_stack c) 0 = false ->
  within_limits dbg c f = true ->
  Forall2 row_equiv (fst (fst (fde_rows dbg c f cx))) (fst (spec_unl dbg f)) /\
  snd (fst (fde_rows dbg c f cx)) = snd (spec_unl dbg f).
Proof.
  intros Hv Hc Hf.
  destruct (model_eq_spec dbg c f cx Hv Hc) as (H1 & H2). unfold spec_of in H1, H2.
  destruct (run_spec_fits c (sparams_of f) (f_init f) (spec_end (f_asize f) (f_init f) (f_range f))
              (cie_items dbg f) (fde_items dbg f)) as [(F & E)|(F & L & P)].
  - unfold cie_items, fde_items in E. rewrite E in H1, H2. auto.
  - unfold within_limits in Hf. congruence.
Qed.

(* no panic, and the fuel of the model always suffices *)
Lemma dec_clean dbg d : forall n it, (length (it_bytes it) <= n)%nat ->
  Forall (fun x => x <> BadPanic /\ x <> BadFuel) (dec dbg d it).
Proof.
  induction n as [|n IH]; intros it Hn; rewrite dec_unfold;
    pose proof (iter_next_cases dbg d it) as Hc;
    destruct (iter_next dbg d it) as [[[i|]|e| |] it']; try contradiction;
    try (constructor; [split; discriminate|]); try constructor.
  - lia.
  - apply IH. lia.
Qed.

Lemma spec_step_total p ini s i : spec_step p ini s i <> Panic /\ spec_step p ini s i <> OutOfFuel.
Proof.
  destruct i; cbn [spec_step];
    repeat match goal with
           | |- context [if ?x then _ else _] => destruct x
           | |- context [match ?x with _ => _ end] => destruct x
           end; split; discriminate.
Qed.

Lemma spec_run_clean c p ini e : forall items s,
  Forall (fun x => x <> BadPanic /\ x <> BadFuel) items ->
  fst (snd (spec_run c p ini e s items)) <> Crash /\ fst (snd (spec_run c p ini e s items)) <> Fuel.
Proof.
  induction items as [|x items IH]; intros s Hf; [cbn; split; discriminate|].
  inversion Hf as [|? ? (Hx1 & Hx2) Hf']; subst.
  destruct x as [i|er| |]; try congruence; cbn [spec_run]; [|cbn; split; discriminate].
  unfold step_lim. destruct (spec_step_total p ini s i) as (T1 & T2).
  destruct (spec_step p ini s i) as [[s' orow]|er| |]; try congruence; cbn [bind]; [|cbn; split; discriminate].
  destruct (guard_cases c ini s') as [Hg|[Hg|Hg]]; rewrite Hg; cbn [bind]; try (cbn; split; discriminate).
  specialize (IH s' Hf'). destruct (spec_run c p ini e s' items) as [rows [o sf]].
  destruct orow; exact IH.
Qed.

Theorem no_panic_thm dbg c f cx :
  cap_full (max_stack c) 0 = false ->
  snd (fst (fde_rows dbg c f cx)) <> Crash /\ snd (fst (fde_rows dbg c f cx)) <> Fuel.
Proof.
  intros Hc. destruct (valid_asize (f_asize f)) eqn:Hv;
    [|rewrite (fde_rows_invalid dbg c f cx Hv); cbn; split; discriminate].
  destruct (model_eq_spec dbg c f cx Hv Hc) as (_ & H2). rewrite H2.
  unfold spec_of, run_spec_lim.
  pose proof (dec_clean dbg (f_dparams f) _ {| it_off := f_cie_off f; it_bytes := f_cie f |} (le_n _)) as Dc.
  pose proof (dec_clean dbg (f_dparams f) _ {| it_off := f_fde_off f; it_bytes := f_fde f |} (le_n _)) as Df.
  change (dec dbg (f_dparams f) {| it_off := f_cie_off f; it_bytes := f_cie f |})
    with (decode dbg (f_dparams f) (f_cie_off f) (f_cie f)) in Dc.
  change (dec dbg (f_dparams f) {| it_off := f_fde_off f; it_bytes := f_fde f |})
    with (decode dbg (f_dparams f) (f_fde_off f) (f_fde f)) in Df.
  pose proof (spec_run_clean c (sparams_of f) None 0 _ init_state Dc) as Hcl.
  destruct (spec_run c (sparams_of f) None 0 init_state (decode dbg (f_dparams f) (f_cie_off f) (f_cie f)))
    as [rows_c [o_c sc]]. cbn [fst snd] in Hcl.
  destruct o_c; cbn [snd]; try (split; discriminate); try (destruct Hcl; congruence).
  destruct (guard_cases c (Some (s_rules sc)) (with_loc (f_init f) sc)) as [Hg|[Hg|Hg]]; rewrite Hg;
    try (cbn; split; discriminate).
  pose proof (spec_run_clean c (sparams_of f) (Some (s_rules sc))
                (spec_end (f_asize f) (f_init f) (f_range f)) _ (with_loc (f_init f) sc) Df) as Hcl2.
  destruct (spec_run c (sparams_of f) (Some (s_rules sc)) (spec_end (f_asize f) (f_init f) (f_range f))
              (with_loc (f_init f) sc) (decode dbg (f_dparams f) (f_fde_off f) (f_fde f))) as [rows [o sf]].
  exact Hcl2.
Qed.

(* ---------- K: reuse of a context (C20, unwind-context clause) ---------- *)

Theorem reset_is_fresh_thm c cx : reset c cx = new_ctx c.
Proof. reflexivity. Qed.

Theorem initialize_history_free_thm dbg c f cx cx' : initialize dbg c f cx = initialize dbg c f cx'.
Proof. unfold initialize. rewrite (reset_is_fresh_thm c cx), (reset_is_fresh_thm c cx'). reflexivity. Qed.

Lemma table_new_indep dbg c f cx cx' : table_new dbg c f cx = table_new dbg c f cx'.
Proof. unfold table_new. rewrite (initialize_history_free_thm dbg c f cx cx'). reflexivity. Qed.

Lemma use_ctx_indep dbg c u cx cx' : fst (use_ctx dbg c u cx) = fst (use_ctx dbg c u cx').
Proof.
  unfold use_ctx. destruct u as [f [lim|a]]; cbn [fst snd].
  - unfold fde_rows_lim. destruct (negb (valid_asize (f_asize f))); [reflexivity|].
    rewrite (table_new_indep dbg c f cx cx').
    destruct (table_new dbg c f cx') as [t|e| |]; reflexivity.
  - unfold unwind_info_for_address. destruct (negb (valid_asize (f_asize f))); [reflexivity|].
    rewrite (table_new_indep dbg c f cx cx').
    destruct (table_new dbg c f cx') as [t|e| |]; reflexivity.
Qed.

(* whatever happened to the context before — successful tables, failures in the CIE's initial
   instructions, mid-FDE, by StackFull / TooManyRegisterRules, abandoned tables — every use gives
   what it gives on any other context, in particular a fresh one *)
Theorem history_independent_thm dbg c : forall (h : list use) (cx cx0 : ctx),
  run_history dbg c h cx = map (fun u => fst (use_ctx dbg c u cx0)) h.
Proof.
  induction h as [|u h IH]; intros cx cx0; [reflexivity|].
  cbn [run_history map].
  destruct (use_ctx dbg c u cx) as [res cx'] eqn:E.
  rewrite (IH cx' cx0). f_equal.
  pose proof (use_ctx_indep dbg c u cx cx0) as H. rewrite E in H. exact H.
Qed.

Theorem history_fresh_thm dbg c (h : list use) (cx cx0 : ctx) :
  new_ctx c = Ok cx0 -> run_history dbg c h cx = run_fresh dbg c h.
Proof.
  intros H. rewrite (history_independent_thm dbg c h cx cx0). unfold run_fresh. rewrite H. reflexivity.
Qed.

(* ---------- L: instruction decoding round trip ---------- *)

Lemma N_sweep (n : nat) (P : N -> bool) :
  forallb P (map N.of_nat (seq 0 n)) = true -> forall x, x < N.of_nat n -> P x = true.
Proof.
  intros H x Hx. rewrite forallb_forall in H. apply H.
  apply in_map_iff. exists (N.to_nat x). split; [apply N2Nat.id|].
  apply in_seq. lia.
Qed.

Lemma hi_bits d : d < 64 ->
  (N.land (64 + d) 192 = 64 /\ N.land (64 + d) 63 = d) /\
  (N.land (128 + d) 192 = 128 /\ N.land (128 + d) 63 = d) /\
  (N.land (192 + d) 192 = 192 /\ N.land (192 + d) 63 = d).
Proof.
  intros Hd.
  pose proof (N_sweep 64 (fun d => (N.land (64 + d) 192 =? 64) && (N.land (64 + d) 63 =? d) &&
                                   (N.land (128 + d) 192 =? 128) && (N.land (128 + d) 63 =? d) &&
                                   (N.land (192 + d) 192 =? 192) && (N.land (192 + d) 63 =? d))
                      ltac:(vm_compute; reflexivity) d Hd) as H.
  cbv beta in H. lia.
Qed.

Lemma le_enc_length n v : length (le_enc n v) = n.
Proof. revert v. induction n as [|n IH]; intros v; cbn [le_enc length]; [reflexivity|]. rewrite IH. reflexivity. Qed.

Lemma le_val_le_enc : forall n v, le_val (le_enc n v) = v mod 256 ^ N.of_nat n.
Proof.
  induction n as [|n IH]; intros v.
  - cbn. rewrite N.mod_1_r. reflexivity.
  - cbn [le_enc le_val]. rewrite IH, b2n_n2b.
    rewrite Nat2N.inj_succ, N.pow_succ_r'.
    rewrite N.mod_mul_r by (try apply N.pow_nonzero; discriminate). reflexivity.
Qed.

Lemma take_app n (h rest : list byte) : length h = n -> take n (h ++ rest) = Some (h, rest).
Proof.
  revert h. induction n as [|n IH]; intros h Hl.
  - destruct h; [reflexivity|discriminate].
  - destruct h as [|b h]; [discriminate|]. cbn [app take]. rewrite IH by (cbn in Hl; lia). reflexivity.
Qed.

Lemma read_un_fixed n be v rest :
  v < 256 ^ N.of_nat n -> read_un n be (fixed_enc be n v ++ rest) = Ok (v, rest).
Proof.
  intros Hv. unfold read_un, read_bytes, fixed_enc. destruct be.
  - rewrite take_app by (rewrite rev_length; apply le_enc_length). cbn [bind].
    unfold be_val. rewrite rev_involutive, le_val_le_enc, N.mod_small by exact Hv. reflexivity.
  - rewrite take_app by apply le_enc_length. cbn [bind].
    rewrite le_val_le_enc, N.mod_small by exact Hv. reflexivity.
Qed.

Section Decode.
Variable dbg : bool.
(* what "e is a LEB128 encoding of v" means for the reader being modelled *)
Definition uleb_enc (e : list byte) (v : N) : Prop := forall rest, read_uleb128 dbg (e ++ rest) = Ok (v, rest).
Definition sleb_enc (e : list byte) (z : Z) : Prop := forall rest, read_sleb128 dbg (e ++ rest) = Ok (z, rest).
Hypothesis Hu : forall v, v < two64 -> uleb_enc (enc_uleb v) v.

Lemma rd_u v rest : v < two64 -> read_uleb128 dbg (enc_uleb v ++ rest) = Ok (v, rest).
Proof. intros H. apply Hu. exact H. Qed.

Lemma rd_reg_enc r rest : r < two16 -> rd_reg dbg (enc_uleb r ++ rest) = Ok (r, rest).
Proof.
  intros H. unfold rd_reg. rewrite rd_u by (unfold two16, two64 in *; lia). cbn [bind].
  unfold reg_from_u64, wrap16. rewrite N.mod_small by exact H. rewrite N.eqb_refl. reflexivity.
Qed.

Lemma rd_expr_enc off all pre e rest :
  N.of_nat (length e) < two64 ->
  all = pre ++ blk e ++ rest ->
  rd_expr dbg off all (blk e ++ rest) =
    Ok (mkexpr (off + N.of_nat (length pre) + ulen (N.of_nat (length e))) e, rest).
Proof.
  intros Hl ->. unfold rd_expr, blk. rewrite <- app_assoc, rd_u by exact Hl. cbn [bind].
  unfold skip_n. rewrite app_length, Nat2N.inj_add.
  destruct (N.of_nat (length e) + N.of_nat (length rest) <? N.of_nat (length e)) eqn:E; [lia|].
  cbn [bind]. rewrite Nat2N.id, skipn_app, skipn_all, Nat.sub_diag. cbn [skipn app].
  unfold mkexpr, consumed, ulen. f_equal. f_equal. f_equal.
  rewrite !app_length. lia.
Qed.

Lemma read_address_enc be asize a rest :
  valid_asize asize = true -> a < 2 ^ (8 * asize) ->
  read_address asize be (fixed_enc be (N.to_nat asize) a ++ rest) = Ok (a, rest).
Proof.
  intros Hv Ha. unfold read_address.
  destruct (valid_asize_cases _ Hv) as [-> | [-> | [-> | ->]]]; cbn [N.eqb Pos.eqb];
    apply read_un_fixed; exact Ha.
Qed.

Lemma in_i64_and a b : a && b = true -> a = true /\ b = true.
Proof. apply andb_prop. Qed.

Ltac op_literal k :=
  unfold parse_insn; cbn [app read_u8 bind]; rewrite (b2n_n2b_small k) by lia; cbv zeta;
  change (N.land k 192 =? 64) with false; change (N.land k 192 =? 128) with false;
  change (N.land k 192 =? 192) with false; cbv iota.

Section Cases.
Variables (be : bool) (asize : N) (aa : bool) (off : N) (rest : list byte).
Notation P w := (parse_insn dbg be asize aa off (enc_wire be asize w ++ rest)).

Ltac hi_case d Hd sel :=
  cbn [enc_wire]; rewrite N.mod_small by exact Hd;
  unfold parse_insn; cbn [app read_u8 bind];
  match goal with |- context [b2n (n2b ?k)] => rewrite (b2n_n2b_small k) by lia end; cbv zeta.

Lemma dec_adv0 d : d < 64 -> P (WAdvanceLoc0 d) = Ok (IAdvanceLoc d, rest).
Proof. intros Hd. destruct (hi_bits d Hd) as ((E1 & E2) & _). hi_case d Hd 1. rewrite E1, E2. reflexivity. Qed.
Lemma dec_off0 r fo : r < 64 -> fo < two64 -> P (WOffset0 r fo) = Ok (IOffset r fo, rest).
Proof.
  intros Hd Hf. destruct (hi_bits r Hd) as (_ & (E1 & E2) & _). hi_case r Hd 2.
  rewrite E1, E2. cbn [N.eqb Pos.eqb]. rewrite rd_u by exact Hf. reflexivity.
Qed.
Lemma dec_res0 r : r < 64 -> P (WRestore0 r) = Ok (IRestore r, rest).
Proof. intros Hd. destruct (hi_bits r Hd) as (_ & _ & (E1 & E2)). hi_case r Hd 3. rewrite E1, E2. reflexivity. Qed.

Lemma dec_nop : P WNop = Ok (INop, rest).
Proof. cbn [enc_wire]. op_literal 0. reflexivity. Qed.
Lemma dec_setloc a : valid_asize asize = true -> a < 2 ^ (8 * asize) -> P (WSetLoc a) = Ok (ISetLoc a, rest).
Proof. intros Hv Ha. cbn [enc_wire]. op_literal 1. cbn [N.eqb Pos.eqb]. rewrite read_address_enc by auto. reflexivity. Qed.
Lemma dec_adv1 d : d < 256 -> P (WAdvanceLoc1 d) = Ok (IAdvanceLoc d, rest).
Proof.
  intros Hd. cbn [enc_wire]. op_literal 2. cbn [N.eqb Pos.eqb].
  unfold fixed_enc. destruct be; cbn [le_enc rev app read_u8 bind]; rewrite b2n_n2b_small by lia; reflexivity.
Qed.
Lemma dec_adv2 d : d < two16 -> P (WAdvanceLoc2 d) = Ok (IAdvanceLoc d, rest).
Proof.
  intros Hd. cbn [enc_wire]. op_literal 3. cbn [N.eqb Pos.eqb]. unfold read_u16.
  rewrite read_un_fixed by (change (256 ^ N.of_nat 2) with 65536; unfold two16 in *; lia). reflexivity.
Qed.
Lemma dec_adv4 d : d < two32 -> P (WAdvanceLoc4 d) = Ok (IAdvanceLoc d, rest).
Proof.
  intros Hd. cbn [enc_wire]. op_literal 4. cbn [N.eqb Pos.eqb]. unfold read_u32.
  rewrite read_un_fixed by (change (256 ^ N.of_nat 4) with 4294967296; unfold two32 in *; lia). reflexivity.
Qed.

Ltac reg_then := cbn [N.eqb Pos.eqb]; rewrite <- ?app_assoc; rewrite rd_reg_enc by assumption; cbn [bind].

Lemma dec_offext r fo : r < two16 -> fo < two64 -> P (WOffsetExtended r fo) = Ok (IOffset r fo, rest).
Proof. intros Hr Hf. cbn [enc_wire]. op_literal 5. reg_then. rewrite rd_u by exact Hf. reflexivity. Qed.
Lemma dec_resext r : r < two16 -> P (WRestoreExtended r) = Ok (IRestore r, rest).
Proof. intros Hr. cbn [enc_wire]. op_literal 6. reg_then. reflexivity. Qed.
Lemma dec_undef r : r < two16 -> P (WUndefined r) = Ok (IUndefined r, rest).
Proof. intros Hr. cbn [enc_wire]. op_literal 7. reg_then. reflexivity. Qed.
Lemma dec_same r : r < two16 -> P (WSameValue r) = Ok (ISameValue r, rest).
Proof. intros Hr. cbn [enc_wire]. op_literal 8. reg_then. reflexivity. Qed.
Lemma dec_register d s : d < two16 -> s < two16 -> P (WRegister d s) = Ok (IRegister d s, rest).
Proof. intros Hd Hs'. cbn [enc_wire]. op_literal 9. reg_then. rewrite rd_reg_enc by assumption. reflexivity. Qed.
Lemma dec_remember : P WRememberState = Ok (IRememberState, rest).
Proof. cbn [enc_wire]. op_literal 10. reflexivity. Qed.
Lemma dec_restore_state : P WRestoreState = Ok (IRestoreState, rest).
Proof. cbn [enc_wire]. op_literal 11. reflexivity. Qed.
Lemma dec_defcfa r o : r < two16 -> o < two64 -> P (WDefCfa r o) = Ok (IDefCfa r o, rest).
Proof. intros Hr Hf. cbn [enc_wire]. op_literal 12. reg_then. rewrite rd_u by exact Hf. reflexivity. Qed.
Lemma dec_defcfareg r : r < two16 -> P (WDefCfaRegister r) = Ok (IDefCfaRegister r, rest).
Proof. intros Hr. cbn [enc_wire]. op_literal 13. reg_then. reflexivity. Qed.
Lemma dec_defcfaoff o : o < two64 -> P (WDefCfaOffset o) = Ok (IDefCfaOffset o, rest).
Proof. intros Hf. cbn [enc_wire]. op_literal 14. cbn [N.eqb Pos.eqb]. rewrite rd_u by exact Hf. reflexivity. Qed.
Lemma dec_defcfaexpr e : N.of_nat (length e) < two64 ->
  P (WDefCfaExpression e) = Ok (wire_meaning off (WDefCfaExpression e), rest).
Proof.
  intros He. cbn [enc_wire wire_meaning]. op_literal 15. cbn [N.eqb Pos.eqb].
  rewrite (rd_expr_enc off _ [n2b 15] e rest) by auto. reflexivity.
Qed.
Lemma dec_expr r e : r < two16 -> N.of_nat (length e) < two64 ->
  P (WExpression r e) = Ok (wire_meaning off (WExpression r e), rest).
Proof.
  intros Hr He. cbn [enc_wire wire_meaning]. op_literal 16. reg_then.
  rewrite (rd_expr_enc off _ (n2b 16 :: enc_uleb r) e rest) by (auto; rewrite <- app_assoc; reflexivity).
  cbn [bind length].
  replace (off + N.of_nat (S (length (enc_uleb r)))) with (off + 1 + ulen r) by (unfold ulen; lia).
  reflexivity.
Qed.
Lemma dec_valoff r o : r < two16 -> o < two64 -> P (WValOffset r o) = Ok (IValOffset r o, rest).
Proof. intros Hr Hf. cbn [enc_wire]. op_literal 20. reg_then. rewrite rd_u by exact Hf. reflexivity. Qed.
Lemma dec_valexpr r e : r < two16 -> N.of_nat (length e) < two64 ->
  P (WValExpression r e) = Ok (wire_meaning off (WValExpression r e), rest).
Proof.
  intros Hr He. cbn [enc_wire wire_meaning]. op_literal 22. reg_then.
  rewrite (rd_expr_enc off _ (n2b 22 :: enc_uleb r) e rest) by (auto; rewrite <- app_assoc; reflexivity).
  cbn [bind length].
  replace (off + N.of_nat (S (length (enc_uleb r)))) with (off + 1 + ulen r) by (unfold ulen; lia).
  reflexivity.
Qed.
Lemma dec_argssize n : n < two64 -> P (WArgsSize n) = Ok (IArgsSize n, rest).
Proof. intros Hf. cbn [enc_wire]. op_literal 46. cbn [N.eqb Pos.eqb]. rewrite rd_u by exact Hf. reflexivity. Qed.
Lemma dec_negate : P WNegateRaState = if aa then Ok (INegateRaState, rest) else Err EUnknownCallFrameInstruction.
Proof. cbn [enc_wire]. op_literal 45. cbn [N.eqb Pos.eqb andb]. destruct aa; reflexivity. Qed.

(* the four forms with a signed LEB128 operand *)
Hypothesis Hs : forall z, in_i64 z = true -> sleb_enc (enc_sleb z) z.
Lemma rd_s z rest' : in_i64 z = true -> read_sleb128 dbg (enc_sleb z ++ rest') = Ok (z, rest').
Proof. intros H. apply Hs. exact H. Qed.
Lemma dec_offextsf r o : r < two16 -> in_i64 o = true -> P (WOffsetExtendedSf r o) = Ok (IOffsetExtendedSf r o, rest).
Proof. intros Hr Hf. cbn [enc_wire]. op_literal 17. reg_then. rewrite rd_s by exact Hf. reflexivity. Qed.
Lemma dec_defcfasf r o : r < two16 -> in_i64 o = true -> P (WDefCfaSf r o) = Ok (IDefCfaSf r o, rest).
Proof. intros Hr Hf. cbn [enc_wire]. op_literal 18. reg_then. rewrite rd_s by exact Hf. reflexivity. Qed.
Lemma dec_defcfaoffsf o : in_i64 o = true -> P (WDefCfaOffsetSf o) = Ok (IDefCfaOffsetSf o, rest).
Proof. intros Hf. cbn [enc_wire]. op_literal 19. cbn [N.eqb Pos.eqb]. rewrite rd_s by exact Hf. reflexivity. Qed.
Lemma dec_valoffsf r o : r < two16 -> in_i64 o = true -> P (WValOffsetSf r o) = Ok (IValOffsetSf r o, rest).
Proof. intros Hr Hf. cbn [enc_wire]. op_literal 21. reg_then. rewrite rd_s by exact Hf. reflexivity. Qed.
End Cases.

Hypothesis Hs : forall z, in_i64 z = true -> sleb_enc (enc_sleb z) z.

Theorem insn_decode_gen be asize aa off w rest :
  valid_asize asize = true -> wire_ok asize w = true ->
  parse_insn dbg be asize aa off (enc_wire be asize w ++ rest) =
    match w with
    | WNegateRaState => if aa then Ok (wire_meaning off w, rest) else Err EUnknownCallFrameInstruction
    | _ => Ok (wire_meaning off w, rest)
    end.
Proof.
  intros Hv Hw.
  destruct w; cbn [wire_ok] in Hw;
    repeat match type of Hw with
           | _ && _ = true => apply andb_prop in Hw; let H1 := fresh "Hw" in destruct Hw as [H1 Hw]
           end;
    unfold regb, u64b, i64b in *; cbn [wire_meaning].
  - apply dec_adv0; lia.
  - apply dec_off0; lia.
  - apply dec_res0; lia.
  - apply dec_nop.
  - apply dec_setloc; [exact Hv|lia].
  - apply dec_adv1; lia.
  - apply dec_adv2; lia.
  - apply dec_adv4; lia.
  - apply dec_offext; lia.
  - apply dec_resext; lia.
  - apply dec_undef; lia.
  - apply dec_same; lia.
  - apply dec_register; lia.
  - apply dec_remember.
  - apply dec_restore_state.
  - apply dec_defcfa; lia.
  - apply dec_defcfareg; lia.
  - apply dec_defcfaoff; lia.
  - apply dec_defcfaexpr; lia.
  - apply dec_expr; lia.
  - apply dec_offextsf; [exact Hs|lia|exact Hw].
  - apply dec_defcfasf; [exact Hs|lia|exact Hw].
  - apply dec_defcfaoffsf; [exact Hs|exact Hw].
  - apply dec_valoff; lia.
  - apply dec_valoffsf; [exact Hs|lia|exact Hw].
  - apply dec_valexpr; lia.
  - apply dec_argssize; lia.
  - apply dec_negate.
Qed.
End Decode.

(* ---------- M: the spec LEB128 encoders are read back by the model readers ---------- *)

Lemma lor_disjoint acc y s : acc < 2 ^ s -> N.lor acc (y * 2 ^ s) = acc + y * 2 ^ s.
Proof.
  intros Ha.
  assert (Hl : N.land acc (y * 2 ^ s) = 0).
  { apply N.bits_inj_0. intros n. rewrite N.land_spec, <- N.shiftl_mul_pow2.
    destruct (N.lt_ge_cases n s) as [Hn|Hn].
    - rewrite N.shiftl_spec_low by exact Hn. apply andb_false_r.
    - rewrite <- (N.mod_small acc (2 ^ s)) by exact Ha.
      rewrite N.mod_pow2_bits_high by exact Hn. reflexivity. }
  rewrite (N.add_nocarry_lxor _ _ Hl). symmetry. apply N.lxor_lor. exact Hl.
Qed.

Lemma byte_facts x : x < 128 ->
  b2n (n2b x) = x /\ has_cont x = false /\ low7 x = x /\
  b2n (n2b (128 + x)) = 128 + x /\ has_cont (128 + x) = true /\ low7 (128 + x) = x.
Proof.
  intros Hx.
  pose proof (N_sweep 128 (fun x => (b2n (n2b x) =? x) && negb (has_cont x) && (low7 x =? x) &&
                                    (b2n (n2b (128 + x)) =? 128 + x) && has_cont (128 + x) &&
                                    (low7 (128 + x) =? x))
                      ltac:(vm_compute; reflexivity) x Hx) as H.
  cbv beta in H.
  repeat match type of H with _ && _ = true => apply andb_prop in H; let H1 := fresh "F" in destruct H as [H H1] end.
  repeat split; try (apply N.eqb_eq; assumption); try assumption.
  destruct (has_cont x); [discriminate|reflexivity].
Qed.

Lemma pow_split shift : shift <= 64 -> 2 ^ 64 = 2 ^ shift * 2 ^ (64 - shift).
Proof. intros H. rewrite <- N.pow_add_r. f_equal. lia. Qed.

Lemma uleb_last dbg v acc shift rest :
  shift <= 63 -> acc < 2 ^ shift -> v < 2 ^ (64 - shift) -> v < 128 ->
  uleb_loop dbg acc shift (n2b v :: rest) = Ok (acc + v * 2 ^ shift, rest).
Proof.
  intros Hs Ha Hv Hv128.
  destruct (byte_facts v Hv128) as (B1 & B2 & B3 & _).
  cbn [uleb_loop]. rewrite B1, B3.
  assert (H63 : (shift =? 63) && negb (v =? 0) && negb (v =? 1) = false).
  { destruct (N.eqb_spec shift 63) as [->|]; [|reflexivity].
    change (2 ^ (64 - 63)) with 2 in Hv. assert (v = 0 \/ v = 1) as [-> | ->] by lia; reflexivity. }
  rewrite H63. unfold shl64. destruct (64 <=? shift) eqn:E64; [lia|].
  cbn [bind]. pose proof (pow_split shift ltac:(lia)) as Hpow.
  rewrite N.shiftl_mul_pow2, wrap64_small, lor_disjoint, B2 by (auto; unfold two64; change 18446744073709551616 with (2 ^ 64); nia).
  reflexivity.
Qed.

Lemma shift_step shift : shift mod 7 = 0 -> shift < 63 -> shift <= 56.
Proof.
  intros Hm H.
  assert (shift = 7 * (shift / 7)) by (rewrite (N.div_mod shift 7) at 1 by discriminate; lia). lia.
Qed.

Lemma uleb_cont dbg v acc shift bs :
  shift mod 7 = 0 -> shift <= 63 -> acc < 2 ^ shift -> v < 2 ^ (64 - shift) -> 128 <= v ->
  uleb_loop dbg acc shift (n2b (128 + v mod 128) :: bs) =
    uleb_loop dbg (acc + v mod 128 * 2 ^ shift) (shift + 7) bs /\ shift <= 56.
Proof.
  intros Hm Hs Ha Hv Hv128.
  assert (Hmod : v mod 128 < 128) by (apply N.mod_lt; discriminate).
  destruct (byte_facts (v mod 128) Hmod) as (_ & _ & _ & B4 & B5 & B6).
  assert (Hs63 : shift <> 63) by (intros ->; change (2 ^ (64 - 63)) with 2 in Hv; lia).
  assert (Hs56 : shift <= 56) by (apply shift_step; [exact Hm|lia]).
  split; [|exact Hs56].
  cbn [uleb_loop]. rewrite B4, B6.
  destruct (shift =? 63) eqn:E63; [apply N.eqb_eq in E63; contradiction|]. cbn [andb].
  unfold shl64. destruct (64 <=? shift) eqn:E64; [lia|]. cbn [bind].
  pose proof (pow_split shift ltac:(lia)) as Hpow.
  assert (H7 : 2 ^ (64 - shift) = 2 ^ (64 - shift - 7) * 128).
  { replace (64 - shift) with ((64 - shift - 7) + 7) at 1 by lia. rewrite N.pow_add_r. reflexivity. }
  assert (Hsmall : v mod 128 * 2 ^ shift < two64).
  { unfold two64. change 18446744073709551616 with (2 ^ 64). nia. }
  rewrite N.shiftl_mul_pow2, wrap64_small, lor_disjoint, B5 by auto. reflexivity.
Qed.

Lemma enc_uleb_fuel_S f v :
  enc_uleb_fuel (S f) v = if v <? 128 then [n2b v] else n2b (128 + v mod 128) :: enc_uleb_fuel f (v / 128).
Proof. reflexivity. Qed.

Lemma uleb_loop_enc dbg : forall f v acc shift rest,
  shift mod 7 = 0 -> shift <= 63 -> acc < 2 ^ shift -> v < 2 ^ (64 - shift) -> v < 128 ^ N.of_nat (S f) ->
  uleb_loop dbg acc shift (enc_uleb_fuel (S f) v ++ rest) = Ok (acc + v * 2 ^ shift, rest).
Proof.
  induction f as [|f IH]; intros v acc shift rest Hm Hs Ha Hv Hf;
    rewrite enc_uleb_fuel_S; destruct (v <? 128) eqn:E.
  - cbn [app]. apply uleb_last; auto; lia.
  - change (128 ^ N.of_nat 1) with 128 in Hf. lia.
  - cbn [app]. apply uleb_last; auto; lia.
  - assert (Hv128 : 128 <= v) by lia.
    destruct (uleb_cont dbg v acc shift (enc_uleb_fuel (S f) (v / 128) ++ rest) Hm Hs Ha Hv Hv128) as (Hc & Hs56).
    rewrite <- app_comm_cons. rewrite Hc.
    assert (Hmod : v mod 128 < 128) by (apply N.mod_lt; discriminate).
    assert (Hp7 : 2 ^ (shift + 7) = 2 ^ shift * 128) by (rewrite N.pow_add_r; reflexivity).
    rewrite IH.
    + f_equal. f_equal. rewrite Hp7. rewrite (N.div_mod v 128) at 3 by discriminate. lia.
    + rewrite <- N.add_mod_idemp_l, Hm by discriminate. reflexivity.
    + lia.
    + rewrite Hp7. nia.
    + assert (2 ^ (64 - shift) = 2 ^ (64 - (shift + 7)) * 128).
      { replace (64 - shift) with ((64 - (shift + 7)) + 7) by lia. rewrite N.pow_add_r. reflexivity. }
      apply N.div_lt_upper_bound; [discriminate|]. lia.
    + rewrite (Nat2N.inj_succ (S f)), N.pow_succ_r' in Hf.
      apply N.div_lt_upper_bound; [discriminate|]. exact Hf.
Qed.

Theorem enc_uleb_read dbg v rest : v < two64 -> read_uleb128 dbg (enc_uleb v ++ rest) = Ok (v, rest).
Proof.
  intros Hv. unfold enc_uleb. change 19%nat with (S 18). rewrite enc_uleb_fuel_S.
  destruct (v <? 128) eqn:E.
  - assert (Hv128 : v < 128) by lia. destruct (byte_facts v Hv128) as (B1 & B2 & _).
    cbn [app read_uleb128]. rewrite B1, B2. reflexivity.
  - assert (Hmod : v mod 128 < 128) by (apply N.mod_lt; discriminate).
    destruct (byte_facts (v mod 128) Hmod) as (_ & _ & _ & B4 & B5 & B6).
    cbn [app read_uleb128]. rewrite B4, B5, B6.
    rewrite (uleb_loop_enc dbg 17).
    + f_equal. f_equal. change (2 ^ 7) with 128. rewrite (N.div_mod v 128) at 3 by discriminate. lia.
    + reflexivity.
    + lia.
    + exact Hmod.
    + change (2 ^ (64 - 7)) with 144115188075855872. unfold two64 in Hv.
      apply N.div_lt_upper_bound; [discriminate|]. lia.
    + unfold two64 in Hv. apply N.div_lt_upper_bound; [discriminate|].
      assert (18446744073709551616 < 128 * 128 ^ N.of_nat 18) by (vm_compute; reflexivity). lia.
Qed.

(* wire forms without a signed LEB128 operand *)
Definition unsigned_wire (w : wire) : bool :=
  match w with
  | WOffsetExtendedSf _ _ | WDefCfaSf _ _ | WDefCfaOffsetSf _ | WValOffsetSf _ _ => false
  | _ => true
  end.

Definition decode_expect (aa : bool) (off : N) (w : wire) (rest : list byte) : res (insn * list byte) :=
  match w with
  | WNegateRaState => if aa then Ok (wire_meaning off w, rest) else Err EUnknownCallFrameInstruction
  | _ => Ok (wire_meaning off w, rest)
  end.

(* every opcode, both vendors, given that the signed operands' encoder is read back *)
Theorem insn_decode_signed_hyp dbg :
  (forall z, in_i64 z = true -> sleb_enc dbg (enc_sleb z) z) ->
  forall be asize aa off w rest,
    valid_asize asize = true -> wire_ok asize w = true ->
    parse_insn dbg be asize aa off (enc_wire be asize w ++ rest) = decode_expect aa off w rest.
Proof.
  intros Hs be asize aa off w rest Hv Hw.
  apply (insn_decode_gen dbg (fun v H rest' => enc_uleb_read dbg v rest' H) Hs); assumption.
Qed.

(* ... and unconditionally for the 24 forms whose operands are unsigned *)
Theorem insn_decode_unsigned_thm dbg be asize aa off w rest :
  valid_asize asize = true -> wire_ok asize w = true -> unsigned_wire w = true ->
  parse_insn dbg be asize aa off (enc_wire be asize w ++ rest) = decode_expect aa off w rest.
Proof.
  intros Hv Hw Hu.
  pose proof (fun v H rest' => enc_uleb_read dbg v rest' H) as HU.
  destruct w; try discriminate Hu; cbn [wire_ok] in Hw;
    repeat match type of Hw with
           | _ && _ = true => apply andb_prop in Hw; let H1 := fresh "Hw" in destruct Hw as [H1 Hw]
           end;
    unfold regb, u64b, i64b in *; cbn [decode_expect wire_meaning].
  - apply dec_adv0; try exact HU; try exact Hv; lia.
  - apply dec_off0; try exact HU; try exact Hv; lia.
  - apply dec_res0; try exact HU; try exact Hv; lia.
  - apply dec_nop; try exact HU; try exact Hv; lia.
  - apply dec_setloc; try exact HU; try exact Hv; lia.
  - apply dec_adv1; try exact HU; try exact Hv; lia.
  - apply dec_adv2; try exact HU; try exact Hv; lia.
  - apply dec_adv4; try exact HU; try exact Hv; lia.
  - apply dec_offext; try exact HU; try exact Hv; lia.
  - apply dec_resext; try exact HU; try exact Hv; lia.
  - apply dec_undef; try exact HU; try exact Hv; lia.
  - apply dec_same; try exact HU; try exact Hv; lia.
  - apply dec_register; try exact HU; try exact Hv; lia.
  - apply dec_remember; try exact HU; try exact Hv; lia.
  - apply dec_restore_state; try exact HU; try exact Hv; lia.
  - apply dec_defcfa; try exact HU; try exact Hv; lia.
  - apply dec_defcfareg; try exact HU; try exact Hv; lia.
  - apply dec_defcfaoff; try exact HU; try exact Hv; lia.
  - apply dec_defcfaexpr; try exact HU; try exact Hv; lia.
  - apply dec_expr; try exact HU; try exact Hv; lia.
  - apply dec_valoff; try exact HU; try exact Hv; lia.
  - apply dec_valexpr; try exact HU; try exact Hv; lia.
  - apply dec_argssize; try exact HU; try exact Hv; lia.
  - apply dec_negate; exact HU.
Qed.

(* ---------- N: signed LEB128 ---------- *)
Ltac Zify.zify_post_hook ::= Z.div_mod_to_equations.

Lemma enc_sleb_fuel_S f v :
  enc_sleb_fuel (S f) v =
    (if (((v / 128 =? 0)%Z && (v mod 128 <? 64)%Z) || ((v / 128 =? -1)%Z && (64 <=? v mod 128)%Z))
     then [n2b (Z.to_N (v mod 128))]
     else n2b (128 + Z.to_N (v mod 128)) :: enc_sleb_fuel f (v / 128)).
Proof. reflexivity. Qed.

Lemma bit6_fact x : x < 128 -> (N.land x 64 =? 64) = (64 <=? x).
Proof.
  intros Hx.
  pose proof (N_sweep 128 (fun x => Bool.eqb (N.land x 64 =? 64) (64 <=? x)) ltac:(vm_compute; reflexivity) x Hx) as H.
  cbv beta in H. apply Bool.eqb_prop in H. exact H.
Qed.

(* the 64-bit two's complement pattern of z * 2^s *)
Definition pat (z : Z) (s : N) : N := Z.to_N ((z * Z.of_N (2 ^ s)) mod 18446744073709551616)%Z.

Definition shifts : list N := [0; 7; 14; 21; 28; 35; 42; 49; 56; 63].

Lemma sleb_step dbg acc shift b r :
  shift < 64 ->
  sleb_loop dbg acc shift (b :: r) =
    if (shift =? 63) && negb (b2n b =? 0) && negb (b2n b =? 127) then Err EBadSignedLeb128 else
    let result := N.lor acc (wrap64 (low7 (b2n b) * 2 ^ shift)) in
    if has_cont (b2n b) then sleb_loop dbg result (shift + 7) r
    else if (shift + 7 <? 64) && (N.land (b2n b) 64 =? 64)
         then Ok (to_i64 (N.lor result (wrap64 ((two64 - 1) * 2 ^ (shift + 7)))), r)
         else Ok (to_i64 result, r).
Proof.
  intros Hs. cbn [sleb_loop].
  destruct ((shift =? 63) && negb (b2n b =? 0) && negb (b2n b =? 127)); [reflexivity|].
  unfold shl64 at 1. destruct (64 <=? shift) eqn:E; [lia|]. cbn [bind]. rewrite N.shiftl_mul_pow2.
  cbv zeta. destruct (has_cont (b2n b)); [reflexivity|].
  destruct (shift + 7 <? 64) eqn:E2; cbn [andb]; [|reflexivity].
  destruct (N.land (b2n b) 64 =? 64); [|reflexivity].
  unfold shl64. destruct (64 <=? shift + 7) eqn:E3; [lia|]. cbn [bind]. rewrite N.shiftl_mul_pow2. reflexivity.
Qed.


Definition done_byte (z : Z) : bool :=
  ((z / 128 =? 0)%Z && (z mod 128 <? 64)%Z) || ((z / 128 =? -1)%Z && (64 <=? z mod 128)%Z).

Ltac pow_lits :=
  repeat match goal with
         | |- context [2 ^ ?k] => let v := eval vm_compute in (2 ^ k) in change (2 ^ k) with v
         | H : context [2 ^ ?k] |- _ => let v := eval vm_compute in (2 ^ k) in change (2 ^ k) with v in H
         end.

Ltac last_case s Ha Hb Hz Hd Ebn :=
  let A1 := fresh "A1" in let A2 := fresh "A2" in let E6 := fresh "E6" in let T := fresh "T" in
  match goal with |- context [wrap64 (?x * 2 ^ s)] =>
    assert (A1 : wrap64 (x * 2 ^ s) = x * 2 ^ s) by (unfold wrap64, two64; pow_lits; lia) end;
  rewrite A1, (lor_disjoint _ _ s Ha);
  assert (T : (s + 7 <? 64) = true) by reflexivity; rewrite T; cbn [andb N.eqb Pos.eqb];
  assert (A2 : wrap64 ((two64 - 1) * 2 ^ (s + 7)) = (2 ^ (64 - (s + 7)) - 1) * 2 ^ (s + 7)) by (vm_compute; reflexivity);
  rewrite A2;
  match goal with |- context [64 <=? ?bn] => destruct (64 <=? bn) eqn:E6 end;
  [ rewrite (lor_disjoint _ (2 ^ (64 - (s + 7)) - 1) (s + 7)) by (pow_lits; lia);
    do 3 f_equal; unfold pat; pow_lits; lia
  | do 3 f_equal; unfold pat; pow_lits; lia ].

Lemma sleb_last_at (s : N) dbg z acc rest :
  In s shifts ->
  acc < 2 ^ s -> (- Z.of_N (2 ^ (63 - s)) <= z < Z.of_N (2 ^ (63 - s)))%Z -> done_byte z = true ->
  sleb_loop dbg acc s (n2b (Z.to_N (z mod 128)) :: rest) = Ok (to_i64 (acc + pat z s), rest).
Proof.
  intros Hin Ha Hz Hd.
  assert (Hb : Z.to_N (z mod 128) < 128) by lia.
  destruct (byte_facts _ Hb) as (B1 & B2 & B3 & _).
  pose proof (bit6_fact _ Hb) as B6.
  unfold done_byte in Hd.
  rewrite sleb_step by (cbn in Hin; lia).
  rewrite B1, B2, B3, B6. cbv zeta.
  remember (Z.to_N (z mod 128)) as bn eqn:Ebn.
  cbn in Hin.
  destruct Hin as [<-|[<-|[<-|[<-|[<-|[<-|[<-|[<-|[<-|[<-|[]]]]]]]]]]].
  - last_case 0 Ha Hb Hz Hd Ebn.
  - last_case 7 Ha Hb Hz Hd Ebn.
  - last_case 14 Ha Hb Hz Hd Ebn.
  - last_case 21 Ha Hb Hz Hd Ebn.
  - last_case 28 Ha Hb Hz Hd Ebn.
  - last_case 35 Ha Hb Hz Hd Ebn.
  - last_case 42 Ha Hb Hz Hd Ebn.
  - last_case 49 Ha Hb Hz Hd Ebn.
  - last_case 56 Ha Hb Hz Hd Ebn.
  - (* 63: the value is 0 or -1 *)
    change (2 ^ (63 - 63)) with 1 in Hz.
    assert (Hz01 : (z = 0 \/ z = -1)%Z) by lia.
    destruct Hz01 as [-> | ->]; vm_compute in Ebn; subst bn.
    + replace ((63 =? 63) && negb (0 =? 0) && negb (0 =? 127)) with false by reflexivity.
      replace ((63 + 7 <? 64) && (64 <=? 0)) with false by reflexivity.
      cbv iota. change (wrap64 (0 * 2 ^ 63)) with 0. rewrite N.lor_0_r.
      change (pat 0 63) with 0. rewrite N.add_0_r. reflexivity.
    + replace ((63 =? 63) && negb (127 =? 0) && negb (127 =? 127)) with false by reflexivity.
      replace ((63 + 7 <? 64) && (64 <=? 127)) with false by reflexivity.
      cbv iota. change (wrap64 (127 * 2 ^ 63)) with (1 * 2 ^ 63). rewrite (lor_disjoint acc 1 63 Ha).
      change (pat (-1) 63) with (1 * 2 ^ 63). reflexivity.
Qed.

Ltac cont_case s Ha Hb Hz Hd Ebn :=
  let A1 := fresh "A1" in
  match goal with |- context [wrap64 (?x * 2 ^ s)] =>
    assert (A1 : wrap64 (x * 2 ^ s) = x * 2 ^ s) by (unfold wrap64, two64; pow_lits; lia) end;
  rewrite A1, (lor_disjoint _ _ s Ha); cbn [andb N.eqb Pos.eqb];
  split; [reflexivity|];
  split; [cbn; tauto|];
  split; [pow_lits; lia|];
  split; [pow_lits; lia|];
  unfold pat; pow_lits; lia.

Lemma sleb_cont_at (s : N) dbg z acc bs :
  In s shifts ->
  acc < 2 ^ s -> (- Z.of_N (2 ^ (63 - s)) <= z < Z.of_N (2 ^ (63 - s)))%Z -> done_byte z = false ->
  sleb_loop dbg acc s (n2b (128 + Z.to_N (z mod 128)) :: bs) =
    sleb_loop dbg (acc + Z.to_N (z mod 128) * 2 ^ s) (s + 7) bs /\
  In (s + 7) shifts /\
  acc + Z.to_N (z mod 128) * 2 ^ s < 2 ^ (s + 7) /\
  (- Z.of_N (2 ^ (63 - (s + 7))) <= z / 128 < Z.of_N (2 ^ (63 - (s + 7))))%Z /\
  acc + Z.to_N (z mod 128) * 2 ^ s + pat (z / 128) (s + 7) = acc + pat z s.
Proof.
  intros Hin Ha Hz Hd.
  assert (Hb : Z.to_N (z mod 128) < 128) by lia.
  destruct (byte_facts _ Hb) as (_ & _ & _ & B4 & B5 & B6).
  unfold done_byte in Hd.
  rewrite sleb_step by (cbn in Hin; lia).
  rewrite B4, B5, B6. cbv zeta.
  remember (Z.to_N (z mod 128)) as bn eqn:Ebn.
  cbn in Hin.
  destruct Hin as [<-|[<-|[<-|[<-|[<-|[<-|[<-|[<-|[<-|[<-|[]]]]]]]]]]].
  - cont_case 0 Ha Hb Hz Hd Ebn.
  - cont_case 7 Ha Hb Hz Hd Ebn.
  - cont_case 14 Ha Hb Hz Hd Ebn.
  - cont_case 21 Ha Hb Hz Hd Ebn.
  - cont_case 28 Ha Hb Hz Hd Ebn.
  - cont_case 35 Ha Hb Hz Hd Ebn.
  - cont_case 42 Ha Hb Hz Hd Ebn.
  - cont_case 49 Ha Hb Hz Hd Ebn.
  - cont_case 56 Ha Hb Hz Hd Ebn.
  - exfalso. change (2 ^ (63 - 63)) with 1 in Hz. lia.
Qed.


Lemma sleb_loop_enc dbg : forall f z acc s rest,
  In s shifts -> acc < 2 ^ s ->
  (- Z.of_N (2 ^ (63 - s)) <= z < Z.of_N (2 ^ (63 - s)))%Z ->
  (- 64 * 128 ^ Z.of_nat f <= z < 64 * 128 ^ Z.of_nat f)%Z ->
  sleb_loop dbg acc s (enc_sleb_fuel (S f) z ++ rest) = Ok (to_i64 (acc + pat z s), rest).
Proof.
  induction f as [|f IH]; intros z acc s rest Hin Ha Hz Hf; rewrite enc_sleb_fuel_S;
    fold (done_byte z); destruct (done_byte z) eqn:Hd.
  - cbn [app]. apply sleb_last_at; auto.
  - exfalso. unfold done_byte in Hd. change (128 ^ Z.of_nat 0)%Z with 1%Z in Hf. lia.
  - cbn [app]. apply sleb_last_at; auto.
  - rewrite <- app_comm_cons.
    destruct (sleb_cont_at s dbg z acc (enc_sleb_fuel (S f) (z / 128) ++ rest) Hin Ha Hz Hd)
      as (Hc & Hin' & Ha' & Hz' & Hp).
    rewrite Hc, IH; auto.
    + rewrite Hp. reflexivity.
    + rewrite Nat2Z.inj_succ, Z.pow_succ_r in Hf by lia. lia.
Qed.

Theorem enc_sleb_read dbg z rest :
  in_i64 z = true -> read_sleb128 dbg (enc_sleb z ++ rest) = Ok (z, rest).
Proof.
  intros Hz. unfold in_i64 in Hz. unfold read_sleb128, enc_sleb. change 19%nat with (S 18).
  rewrite (sleb_loop_enc dbg 18 z 0 0 rest).
  - f_equal. f_equal. unfold pat. change (2 ^ 0) with 1. rewrite N.add_0_l, Z.mul_1_r.
    unfold to_i64, to_signed, wrapN. change (2 ^ 64) with 18446744073709551616.
    change (2 ^ (64 - 1)) with 9223372036854775808.
    destruct (Z.to_N (z mod 18446744073709551616) mod 18446744073709551616 <? 9223372036854775808) eqn:E; lia.
  - cbn. auto.
  - reflexivity.
  - change (2 ^ (63 - 0)) with 9223372036854775808. lia.
  - assert (H : (64 * 128 ^ Z.of_nat 18 = 5444517870735015415413993718908291383296)%Z) by (vm_compute; reflexivity).
    rewrite H. lia.
Qed.

(* every DW_CFA opcode form, both vendors *)
Theorem insn_decode_thm dbg be asize aa off w rest :
  valid_asize asize = true -> wire_ok asize w = true ->
  parse_insn dbg be asize aa off (enc_wire be asize w ++ rest) = decode_expect aa off w rest.
Proof.
  apply insn_decode_signed_hyp. intros z Hz rest'. apply enc_sleb_read. exact Hz.
Qed.

(* ---------- O: RegisterRuleMap's PartialEq is order-insensitive ---------- *)

Lemma uexpr_eqb_eq a b : uexpr_eqb a b = true <-> a = b.
Proof.
  destruct a as [o1 l1], b as [o2 l2]. unfold uexpr_eqb. cbn [ue_off ue_len].
  rewrite andb_true_iff, !N.eqb_eq. split; [intros [-> ->]; reflexivity|intros H; inversion H; auto].
Qed.

Lemma rule_eqb_eq a b : rule_eqb a b = true <-> a = b.
Proof.
  destruct a, b; cbn [rule_eqb]; split; intros H; try discriminate; try reflexivity;
    try (apply Z.eqb_eq in H; subst; reflexivity);
    try (apply N.eqb_eq in H; subst; reflexivity);
    try (apply uexpr_eqb_eq in H; subst; reflexivity);
    inversion H; subst;
    try apply Z.eqb_refl; try apply N.eqb_refl; try (apply uexpr_eqb_eq; reflexivity).
Qed.

Lemma lookup_in r x m : lookup r m = Some x -> In (r, x) m.
Proof.
  induction m as [|[k y] m IH]; cbn [lookup]; [discriminate|].
  destruct (N.eqb_spec k r) as [->|Hne]; [intros H; inversion H; left; reflexivity|].
  intros H. right. apply IH. exact H.
Qed.

Lemma in_lookup r x m : nodup m -> In (r, x) m -> lookup r m = Some x.
Proof.
  unfold nodup. induction m as [|[k y] m IH]; intros Hn Hi; [contradiction|].
  cbn [keys map fst] in Hn. inversion Hn as [|? ? Hk Hd]; subst. cbn [lookup].
  destruct Hi as [Hi|Hi].
  - inversion Hi; subst. rewrite N.eqb_refl. reflexivity.
  - destruct (N.eqb_spec k r) as [->|Hne]; [|apply IH; assumption].
    exfalso. apply Hk. change (In r (keys m)). apply (lookup_some_in r m x). apply IH; assumption.
Qed.

Lemma half_eq a b :
  forallb (fun p => orule_eqb (Some (snd p)) (rm_get (fst p) b)) a = true <->
  (forall r x, In (r, x) a -> lookup r b = Some x).
Proof.
  rewrite forallb_forall. split.
  - intros H r x Hi. specialize (H (r, x) Hi). cbn [fst snd] in H. unfold rm_get in H.
    destruct (lookup r b) as [y|]; cbn [orule_eqb] in H; [|discriminate].
    apply rule_eqb_eq in H. subst. reflexivity.
  - intros H [r x] Hi. cbn [fst snd]. unfold rm_get. rewrite (H r x Hi). cbn [orule_eqb].
    apply rule_eqb_eq. reflexivity.
Qed.

(* `==` on rule maps with unique registers holds exactly when every register has the same rule *)
Theorem rm_eq_same_map a b : nodup a -> nodup b -> (rm_eq a b = true <-> same_map a b).
Proof.
  intros Ha Hb. unfold rm_eq. rewrite andb_true_iff, !half_eq. split.
  - intros [H1 H2] r. destruct (lookup r a) as [x|] eqn:Ea.
    + symmetry. apply H1. apply lookup_in. exact Ea.
    + destruct (lookup r b) as [y|] eqn:Eb; [|reflexivity].
      apply lookup_in in Eb. apply H2 in Eb. congruence.
  - intros Hs. split; intros r x Hi.
    + rewrite <- Hs. apply in_lookup; assumption.
    + rewrite Hs. apply in_lookup; assumption.
Qed.
