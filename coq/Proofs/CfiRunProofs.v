From Coq Require Import List NArith ZArith Bool Lia Permutation.
From Coq Require Import ZifyBool ZifyN ZifyNat.
From Coq.Strings Require Import Byte.
Require Import GV.Base.Res GV.Base.Byt GV.Base.Ints GV.Model.Leb GV.Model.Prim GV.Spec.CfaSpec GV.Model.CfiRun.
Import ListNotations.
Local Open Scope N_scope.
Local Arguments N.add : simpl never.
Local Arguments N.sub : simpl never.
Local Arguments N.mul : simpl never.
Local Arguments N.shiftl : simpl never.
Local Arguments N.shiftr : simpl never.
Local Arguments N.land : simpl never.
Local Arguments N.lor : simpl never.
Local Arguments N.pow : simpl never.

(* ---------- A: readers consume input, never panic ---------- *)

(* a reader result is "tame": an error, or a value with a strictly shorter rest *)
Definition tame {A} (bs : list byte) (r : res (A * list byte)) : Prop :=
  match r with
  | Ok (_, rest) => (length rest < length bs)%nat
  | Err _ => True
  | Panic => False
  | OutOfFuel => False
  end.
(* same, allowing no consumption *)
Definition tame0 {A} (bs : list byte) (r : res (A * list byte)) : Prop :=
  match r with
  | Ok (_, rest) => (length rest <= length bs)%nat
  | Err _ => True
  | Panic => False
  | OutOfFuel => False
  end.

Lemma has_cont_at_63 b : b = 0 \/ b = 1 -> has_cont b = false.
Proof. intros [->| ->]; reflexivity. Qed.

Lemma shl64_ok dbg x s : s < 64 -> exists v, shl64 dbg x s = Ok v.
Proof. intros H. unfold shl64. destruct (64 <=? s) eqn:E; [lia|]. eauto. Qed.

Lemma uleb_loop_tame dbg : forall bs result shift,
  shift <= 63 -> shift mod 7 = 0 -> tame bs (uleb_loop dbg result shift bs).
Proof.
  induction bs as [|b bs IH]; intros result shift Hs Hm; cbn [uleb_loop tame]; auto.
  destruct ((shift =? 63) && negb (b2n b =? 0) && negb (b2n b =? 1)) eqn:E63; cbn [tame]; auto.
  assert (Hlt : shift < 64) by lia.
  destruct (shl64_ok dbg (low7 (b2n b)) shift Hlt) as [v ->]. cbn [bind].
  destruct (has_cont (b2n b)) eqn:Hc.
  - destruct (N.eqb_spec shift 63) as [->|Hne].
    + assert (b2n b = 0 \/ b2n b = 1) as Hb by lia.
      rewrite (has_cont_at_63 _ Hb) in Hc. discriminate.
    + assert (shift + 7 <= 63) by lia.
      assert ((shift + 7) mod 7 = 0) by lia.
      specialize (IH (N.lor result v) (shift + 7) H H0).
      destruct (uleb_loop dbg (N.lor result v) (shift + 7) bs) as [[? ?]| | |]; cbn [tame length] in *; auto; lia.
  - cbn [tame length]. lia.
Qed.

Lemma read_uleb128_tame dbg bs : tame bs (read_uleb128 dbg bs).
Proof.
  destruct bs as [|b bs]; cbn [read_uleb128 tame]; auto.
  destruct (has_cont (b2n b)).
  - pose proof (uleb_loop_tame dbg bs (low7 (b2n b)) 7 ltac:(lia) ltac:(reflexivity)) as H.
    destruct (uleb_loop dbg (low7 (b2n b)) 7 bs) as [[? ?]| | |]; cbn [tame length] in *; auto; lia.
  - cbn [tame length]. lia.
Qed.

Lemma sleb_loop_tame dbg : forall bs result shift,
  shift <= 63 -> shift mod 7 = 0 -> tame bs (sleb_loop dbg result shift bs).
Proof.
  induction bs as [|b bs IH]; intros result shift Hs Hm; cbn [sleb_loop tame]; auto.
  destruct ((shift =? 63) && negb (b2n b =? 0) && negb (b2n b =? 127)) eqn:E63; cbn [tame]; auto.
  assert (Hlt : shift < 64) by lia.
  destruct (shl64_ok dbg (low7 (b2n b)) shift Hlt) as [v ->]. cbn [bind].
  destruct (has_cont (b2n b)) eqn:Hc.
  - destruct (N.eqb_spec shift 63) as [->|Hne].
    + assert (b2n b = 0 \/ b2n b = 127) as Hb by lia.
      destruct Hb as [Hb|Hb]; rewrite Hb in Hc; discriminate.
    + assert (shift + 7 <= 63) by lia.
      assert ((shift + 7) mod 7 = 0) by lia.
      specialize (IH (N.lor result v) (shift + 7) H H0).
      destruct (sleb_loop dbg (N.lor result v) (shift + 7) bs) as [[? ?]| | |]; cbn [tame length] in *; auto; lia.
  - destruct ((shift + 7 <? 64) && (N.land (b2n b) 64 =? 64)) eqn:E2.
    + assert (Hlt2 : shift + 7 < 64) by lia.
      destruct (shl64_ok dbg (two64 - 1) (shift + 7) Hlt2) as [w ->]. cbn [bind tame length]. lia.
    + cbn [tame length]. lia.
Qed.

Lemma read_sleb128_tame dbg bs : tame bs (read_sleb128 dbg bs).
Proof. apply sleb_loop_tame; [lia|reflexivity]. Qed.

Lemma tame_weaken {A} bs (r : res (A * list byte)) : tame bs r -> tame0 bs r.
Proof. destruct r as [[? ?]| | |]; cbn; auto; lia. Qed.

Lemma tame_bind {A B} bs (r : res (A * list byte)) (k : A * list byte -> res (B * list byte)) :
  tame bs r ->
  (forall a rest, (length rest < length bs)%nat -> tame0 rest (k (a, rest))) ->
  tame bs (bind r k).
Proof.
  intros Hr Hk. destruct r as [[a rest]| | |]; cbn [bind tame] in *; auto.
  specialize (Hk a rest Hr). destruct (k (a, rest)) as [[? ?]| | |]; cbn [tame tame0] in *; auto. lia.
Qed.

Lemma tame0_bind {A B} bs (r : res (A * list byte)) (k : A * list byte -> res (B * list byte)) :
  tame0 bs r ->
  (forall a rest, (length rest <= length bs)%nat -> tame0 rest (k (a, rest))) ->
  tame0 bs (bind r k).
Proof.
  intros Hr Hk. destruct r as [[a rest]| | |]; cbn [bind tame0] in *; auto.
  specialize (Hk a rest Hr). destruct (k (a, rest)) as [[? ?]| | |]; cbn [tame0] in *; auto. lia.
Qed.

Lemma tame0_ok {A} bs (a : A) : tame0 bs (Ok (a, bs)).
Proof. cbn. lia. Qed.

Lemma read_u8_tame bs : tame bs (read_u8 bs).
Proof. destruct bs; cbn; auto. Qed.

Lemma take_length n : forall bs h t, take n bs = Some (h, t) -> (length bs = n + length t)%nat.
Proof.
  induction n as [|n IH]; intros bs h t H; cbn [take] in H.
  - inversion H; subst. reflexivity.
  - destruct bs as [|b bs]; [discriminate|].
    destruct (take n bs) as [[h' t']|] eqn:E; [|discriminate].
    inversion H; subst. apply IH in E. cbn [length]. lia.
Qed.

Lemma read_un_tame n be bs : (0 < n)%nat -> tame bs (read_un n be bs).
Proof.
  intros Hn. unfold read_un, read_bytes.
  destruct (take n bs) as [[h t]|] eqn:E; cbn [bind tame]; auto.
  apply take_length in E. lia.
Qed.

Lemma read_address_tame asize be bs : tame bs (read_address asize be bs).
Proof.
  unfold read_address.
  destruct (asize =? 1); [apply read_un_tame; lia|].
  destruct (asize =? 2); [apply read_un_tame; lia|].
  destruct (asize =? 4); [apply read_un_tame; lia|].
  destruct (asize =? 8); [apply read_un_tame; lia|].
  exact I.
Qed.

Lemma rd_reg_tame dbg bs : tame bs (rd_reg dbg bs).
Proof.
  unfold rd_reg. apply tame_bind; [apply read_uleb128_tame|].
  intros a rest _. unfold reg_from_u64. destruct (wrap16 a =? a); cbn; auto.
Qed.

Lemma skipn_length_le {A} n (l : list A) : (length (skipn n l) <= length l)%nat.
Proof. rewrite skipn_length. lia. Qed.

Lemma rd_expr_tame dbg off all bs : tame bs (rd_expr dbg off all bs).
Proof.
  unfold rd_expr. apply tame_bind; [apply read_uleb128_tame|].
  intros a rest _. unfold skip_n.
  destruct (N.of_nat (length rest) <? a); cbn [bind tame0]; auto.
  apply skipn_length_le.
Qed.

(* the body of every opcode arm: readers in sequence *)
Ltac tame_leaf :=
  first [ apply read_uleb128_tame | apply read_sleb128_tame | apply rd_reg_tame | apply rd_expr_tame
        | apply read_u8_tame | apply read_address_tame | (apply read_un_tame; lia) ].
Ltac tame_arm :=
  repeat first
    [ apply tame0_ok
    | apply tame0_bind; [apply tame_weaken; tame_leaf | intros ? ? _; cbv beta iota] ].

Theorem parse_insn_tame dbg be asize aa off bs : tame bs (parse_insn dbg be asize aa off bs).
Proof.
  unfold parse_insn. apply tame_bind; [apply read_u8_tame|].
  intros op r _. cbv zeta.
  repeat match goal with
         | |- tame0 _ (if ?c then _ else _) => destruct c
         end;
    try (cbn; lia); try exact I;
    unfold read_u16, read_u32; tame_arm.
Qed.

(* ---------- B: the fuel loops, flattened to a recursion over the decoded items ---------- *)

Section Flatten.
Variable dbg : bool.
Variable c : caps.
Variable d : dparams.

Definition dec (it : cfi_iter) : list item := decode_fuel (S (length (it_bytes it))) dbg d it.

Lemma iter_next_cases it :
  match iter_next dbg d it with
  | (Ok None, it') => it_bytes it = [] /\ it' = it
  | (Ok (Some _), it') => (length (it_bytes it') < length (it_bytes it))%nat
  | (Err _, it') => it_bytes it' = [] /\ it_bytes it <> []
  | (Panic, _) => False
  | (OutOfFuel, _) => False
  end.
Proof.
  unfold iter_next. destruct (it_bytes it) as [|b bs] eqn:E; [auto|].
  pose proof (parse_insn_tame dbg (d_be d) (d_asize d) (d_aarch64 d) (it_off it) (b :: bs)) as H.
  destruct (parse_insn dbg (d_be d) (d_asize d) (d_aarch64 d) (it_off it) (b :: bs)) as [[i rest]|e| |];
    cbn [tame] in H; cbn [it_bytes]; auto. split; [reflexivity|discriminate].
Qed.

Lemma decode_fuel_enough : forall f1 f2 it,
  (length (it_bytes it) < f1)%nat -> (length (it_bytes it) < f2)%nat ->
  decode_fuel f1 dbg d it = decode_fuel f2 dbg d it.
Proof.
  induction f1 as [|f1 IH]; intros f2 it H1 H2; [lia|].
  destruct f2 as [|f2]; [lia|]. cbn [decode_fuel].
  pose proof (iter_next_cases it) as Hc.
  destruct (iter_next dbg d it) as [[[i|]|e| |] it']; try reflexivity.
  f_equal. apply IH; lia.
Qed.

Lemma dec_unfold it :
  dec it = match iter_next dbg d it with
           | (Ok None, _) => []
           | (Ok (Some i), it') => It i :: dec it'
           | (Err e, _) => [Bad e]
           | (Panic, _) => [BadPanic]
           | (OutOfFuel, _) => [BadFuel]
           end.
Proof.
  unfold dec at 1. cbn [decode_fuel].
  pose proof (iter_next_cases it) as Hc.
  destruct (iter_next dbg d it) as [[[i|]|e| |] it']; try reflexivity.
  f_equal. apply decode_fuel_enough; lia.
Qed.

Lemma dec_empty it : it_bytes it = [] -> dec it = [].
Proof. intros H. rewrite dec_unfold. unfold iter_next. rewrite H. reflexivity. Qed.

Lemma dec_length it : (length (dec it) <= length (it_bytes it))%nat.
Proof.
  remember (length (it_bytes it)) as n eqn:En. revert it En.
  induction n as [n IH] using lt_wf_ind. intros it En.
  rewrite dec_unfold. pose proof (iter_next_cases it) as Hc.
  destruct (iter_next dbg d it) as [[[i|]|e| |] it']; cbn [length]; try lia.
  - specialize (IH (length (it_bytes it')) ltac:(lia) it' eq_refl). lia.
  - destruct Hc as [_ Hne]. destruct (it_bytes it); [congruence|cbn [length] in En; lia].
Qed.

(* the loop of next_row over decoded items *)
Fixpoint loop_items (t : tbl) (items : list item) : res (option row) * (tbl * list item) :=
  match items with
  | [] =>
      if t_returned_last t then (Ok None, (t, [])) else
      match with_top (set_end (t_last_end t)) (t_ctx t) with
      | Ok cx => (some_row cx, (with_flags true true (with_ctx cx t), []))
      | Err e => (Err e, (t, []))
      | Panic => (Panic, (t, []))
      | OutOfFuel => (OutOfFuel, (t, []))
      end
  | Bad e :: _ => (Err e, (t, []))
  | BadPanic :: _ => (Panic, (t, []))
  | BadFuel :: _ => (OutOfFuel, (t, []))
  | It i :: rest =>
      match evaluate c t i with
      | Ok (true, t1) =>
          let t2 := with_flags (t_returned_last t1) true t1 in
          (some_row (t_ctx t2), (t2, rest))
      | Ok (false, t1) => loop_items t1 rest
      | Err e => (Err e, (t, rest))
      | Panic => (Panic, (t, rest))
      | OutOfFuel => (OutOfFuel, (t, rest))
      end
  end.

(* next_row_loop = loop_items on the decoded stream; the iterator left behind decodes to the
   items left behind (irrelevant after Panic/OutOfFuel, which never come from the iterator) *)
Lemma loop_eq : forall fuel t it,
  (length (it_bytes it) < fuel)%nat ->
  exists it',
    next_row_loop fuel dbg c d t it =
      (fst (loop_items t (dec it)), (fst (snd (loop_items t (dec it))), it')) /\
    dec it' = snd (snd (loop_items t (dec it))) /\
    (length (it_bytes it') <= length (it_bytes it))%nat.
Proof.
  induction fuel as [|fuel IH]; intros t it Hf; [lia|].
  cbn [next_row_loop]. rewrite (dec_unfold it).
  pose proof (iter_next_cases it) as Hc.
  destruct (iter_next dbg d it) as [[[i|]|e| |] it'] eqn:En; try contradiction.
  - (* instruction *)
    cbn [loop_items].
    destruct (evaluate c t i) as [[[|] t1]|e| |] eqn:Ev; cbn [fst snd].
    + exists it'. repeat split; auto; lia.
    + destruct (IH t1 it' ltac:(lia)) as (it2 & H1 & H2 & H3).
      exists it2. repeat split; auto; lia.
    + exists it'. repeat split; auto; lia.
    + exists it'. repeat split; auto; lia.
    + exists it'. repeat split; auto; lia.
  - (* end of input *)
    destruct Hc as [Hb ->]. cbn [loop_items].
    destruct (t_returned_last t).
    + exists it. cbn [fst snd]. repeat split; auto. apply dec_empty; auto.
    + destruct (with_top (set_end (t_last_end t)) (t_ctx t)) as [cx|e| |]; cbn [fst snd];
        exists it; repeat split; auto; apply dec_empty; auto.
  - (* decode error *)
    destruct Hc as [Hb _]. cbn [loop_items fst snd]. exists it'. repeat split; auto.
    + apply dec_empty; auto.
    + rewrite Hb. cbn [length]. lia.
Qed.

(* the prologue of next_row *)
Definition prologue (t : tbl) : option tbl :=
  match c_stack (t_ctx t) with
  | [] => None
  | r :: st =>
      Some (with_flags (t_returned_last t) false
              (with_ctx {| c_stack := set_start (t_next_start t) r :: st;
                           c_initial_rule := c_initial_rule (t_ctx t); c_init := c_init (t_ctx t) |} t))
  end.

Lemma next_row_eq t it :
  exists it',
    next_row dbg c d t it =
      match prologue t with
      | None => (Panic, (t, it))
      | Some t0 => (fst (loop_items t0 (dec it)), (fst (snd (loop_items t0 (dec it))), it'))
      end /\
    (forall t0, prologue t = Some t0 -> dec it' = snd (snd (loop_items t0 (dec it)))) /\
    (length (it_bytes it') <= length (it_bytes it))%nat.
Proof.
  unfold next_row, prologue, with_top.
  destruct (c_stack (t_ctx t)) as [|r st] eqn:Es.
  - exists it. repeat split; auto. discriminate.
  - match goal with |- context [next_row_loop _ _ _ _ ?t0 _] => set (T0 := t0) end.
    destruct (loop_eq (S (length (it_bytes it))) T0 it ltac:(lia)) as (it' & H1 & H2 & H3).
    exists it'. repeat split; auto. intros t0 H. inversion H; subst. exact H2.
Qed.

(* everything `while let Some(row) = table.next_row()?` sees, and the context it leaves behind,
   by recursion on the items. [t] is the table after the prologue of the next_row call under way. *)
Fixpoint run_mid (t : tbl) (items : list item) : (list row * outcome) * ctx :=
  match items with
  | [] =>
      match with_top (set_end (t_last_end t)) (t_ctx t) with
      | Ok cx =>
          let t1 := with_flags true true (with_ctx cx t) in
          match top cx with
          | Ok r =>
              match prologue t1 with
              | Some t2 => (([r], Done), t_ctx t2)
              | None => (([r], Crash), t_ctx t1)
              end
          | Err e => (([], Fail e), cx) | Panic => (([], Crash), cx) | OutOfFuel => (([], Fuel), cx)
          end
      | Err e => (([], Fail e), t_ctx t) | Panic => (([], Crash), t_ctx t) | OutOfFuel => (([], Fuel), t_ctx t)
      end
  | Bad e :: _ => (([], Fail e), t_ctx t)
  | BadPanic :: _ => (([], Crash), t_ctx t)
  | BadFuel :: _ => (([], Fuel), t_ctx t)
  | It i :: rest =>
      match evaluate c t i with
      | Ok (true, t1) =>
          let t2 := with_flags (t_returned_last t1) true t1 in
          match top (t_ctx t2) with
          | Ok r =>
              match prologue t2 with
              | Some t3 => let '((rows, o), cx) := run_mid t3 rest in ((r :: rows, o), cx)
              | None => (([r], Crash), t_ctx t2)
              end
          | Err e => (([], Fail e), t_ctx t2) | Panic => (([], Crash), t_ctx t2) | OutOfFuel => (([], Fuel), t_ctx t2)
          end
      | Ok (false, t1) => run_mid t1 rest
      | Err e => (([], Fail e), t_ctx t)
      | Panic => (([], Crash), t_ctx t)
      | OutOfFuel => (([], Fuel), t_ctx t)
      end
  end.

Definition out_of (r : res (option row)) : outcome :=
  match r with Ok _ => Done | Err e => Fail e | Panic => Crash | OutOfFuel => Fuel end.

Lemma evaluate_flags t i b t' :
  evaluate c t i = Ok (b, t') ->
  t_returned_last t' = t_returned_last t /\ t_last_end t' = t_last_end t /\
  t_caf t' = t_caf t /\ t_daf t' = t_daf t /\ t_asize t' = t_asize t.
Proof.
  unfold evaluate, t_set_rule, t_upd_top. intros H.
  repeat match type of H with
         | bind ?r _ = Ok _ => let E := fresh "E" in destruct r eqn:E; cbn [bind] in H; try discriminate
         | (match ?x with _ => _ end) = Ok _ => let E := fresh "E" in destruct x eqn:E; try discriminate
         | (if ?x then _ else _) = Ok _ => let E := fresh "E" in destruct x eqn:E; try discriminate
         | (let* _ := ?r in _) = Ok _ => let E := fresh "E" in destruct r eqn:E; cbn [bind] in H; try discriminate
         end;
    try (inversion H; subst; cbn; auto).
Qed.

Lemma prologue_flags t t0 :
  prologue t = Some t0 ->
  t_returned_last t0 = t_returned_last t /\ t_last_end t0 = t_last_end t /\
  t_caf t0 = t_caf t /\ t_daf t0 = t_daf t /\ t_asize t0 = t_asize t /\
  c_stack (t_ctx t0) <> [].
Proof.
  unfold prologue. destruct (c_stack (t_ctx t)); [discriminate|].
  intros H; inversion H; subst; cbn. repeat split; auto; discriminate.
Qed.

Lemma prologue_some t : c_stack (t_ctx t) <> [] -> exists t0, prologue t = Some t0.
Proof. unfold prologue. destruct (c_stack (t_ctx t)); [congruence|eauto]. Qed.

Lemma with_top_stack f cx cx' : with_top f cx = Ok cx' -> c_stack cx' <> [].
Proof.
  unfold with_top. destruct (c_stack cx); [discriminate|].
  intros H; inversion H; subst; cbn. discriminate.
Qed.

Lemma loop_items_char : forall items t,
  t_returned_last t = false ->
  match loop_items t items with
  | (Ok (Some r), (t', items')) =>
      (t_returned_last t' = false /\ (length items' < length items)%nat /\
       run_mid t items =
         match prologue t' with
         | Some t3 => let '((rows, o), cx) := run_mid t3 items' in ((r :: rows, o), cx)
         | None => (([r], Crash), t_ctx t')
         end)
      \/ (t_returned_last t' = true /\ items' = [] /\ c_stack (t_ctx t') <> [] /\
          run_mid t items =
            match prologue t' with
            | Some t2 => (([r], Done), t_ctx t2)
            | None => (([r], Crash), t_ctx t')
            end)
  | (Ok None, _) => False
  | (Err e, (t', _)) => run_mid t items = (([], Fail e), t_ctx t')
  | (Panic, (t', _)) => run_mid t items = (([], Crash), t_ctx t')
  | (OutOfFuel, (t', _)) => run_mid t items = (([], Fuel), t_ctx t')
  end.
Proof.
  induction items as [|x items IH]; intros t Hr.
  - cbn [loop_items run_mid]. rewrite Hr.
    destruct (with_top (set_end (t_last_end t)) (t_ctx t)) as [cx|e| |] eqn:Ew; auto.
    unfold some_row. destruct (top cx) as [r|e| |] eqn:Et; auto.
    right. cbn [t_returned_last with_flags]. repeat split; auto.
    cbn. eapply with_top_stack; eauto.
  - destruct x as [i|e| |]; cbn [loop_items run_mid]; auto.
    destruct (evaluate c t i) as [[[|] t1]|e| |] eqn:Ev; auto.
    + apply evaluate_flags in Ev. destruct Ev as (Ev1 & _).
      unfold some_row. cbn [t_ctx with_flags].
      destruct (top (t_ctx t1)) as [r|e| |] eqn:Et; auto.
      left. cbn [t_returned_last with_flags length]. repeat split; [congruence|lia].
    + pose proof Ev as Ev'. apply evaluate_flags in Ev'. destruct Ev' as (Ev1 & _).
      specialize (IH t1 ltac:(congruence)).
      destruct (loop_items t1 items) as [[[r|]|e| |] [t' items']]; auto.
      destruct IH as [(H1 & H2 & H3)|(H1 & H2 & H3 & H4)]; [left|right]; repeat split; auto.
      cbn [length]. lia.
Qed.

Lemma collect_after_last fuel t it :
  t_returned_last t = true -> dec it = [] -> (1 <= fuel)%nat ->
  collect fuel None dbg c d t it =
    match prologue t with
    | Some t0 => (([], Done), t_ctx t0)
    | None => (([], Crash), t_ctx t)
    end.
Proof.
  intros Hr Hd Hf. destruct fuel as [|f]; [lia|]. cbn [collect].
  destruct (next_row_eq t it) as (it' & H1 & _ & _). rewrite H1.
  destruct (prologue t) as [t0|] eqn:Hp; [|reflexivity].
  apply prologue_flags in Hp. destruct Hp as (Hp & _).
  rewrite Hd. cbn [loop_items]. rewrite Hp, Hr. reflexivity.
Qed.

Lemma collect_run_mid : forall n t it fuel,
  (length (dec it) <= n)%nat -> (n + 2 <= fuel)%nat -> t_returned_last t = false ->
  collect fuel None dbg c d t it =
    match prologue t with
    | None => (([], Crash), t_ctx t)
    | Some t0 => run_mid t0 (dec it)
    end.
Proof.
  induction n as [|n IH]; intros t it fuel Hn Hf Hr;
    (destruct fuel as [|f]; [lia|]); cbn [collect];
    destruct (next_row_eq t it) as (it' & H1 & H2 & H3); rewrite H1;
    (destruct (prologue t) as [t0|] eqn:Hp; [|reflexivity]);
    specialize (H2 t0 eq_refl);
    pose proof (prologue_flags _ _ Hp) as (Hp1 & _);
    pose proof (loop_items_char (dec it) t0 ltac:(congruence)) as Hc;
    destruct (loop_items t0 (dec it)) as [[[r|]|e| |] [t' items']]; cbn [fst snd] in *;
    try contradiction; try (rewrite Hc; reflexivity).
  - (* n = 0: only the final row is possible *)
    destruct Hc as [(Hc1 & Hc2 & _)|(Hc1 & Hc2 & Hc3 & Hc4)]; [lia|].
    rewrite (collect_after_last f t' it' Hc1 ltac:(congruence) ltac:(lia)).
    rewrite Hc4. destruct (prologue t'); reflexivity.
  - destruct Hc as [(Hc1 & Hc2 & Hc3)|(Hc1 & Hc2 & Hc3 & Hc4)].
    + rewrite (IH t' it' f ltac:(rewrite H2; lia) ltac:(lia) Hc1).
      rewrite Hc3. rewrite <- H2.
      destruct (prologue t') as [t3|]; [|reflexivity].
      destruct (run_mid t3 (dec it')) as [[rows o] cx]. reflexivity.
    + rewrite (collect_after_last f t' it' Hc1 ltac:(congruence) ltac:(lia)).
      rewrite Hc4. destruct (prologue t'); reflexivity.
Qed.

(* drain is collect with the rows thrown away *)
Lemma drain_collect : forall fuel t it,
  match fst (collect fuel None dbg c d t it) with
  | (_, Done) => exists t', drain fuel dbg c d t it = Ok t' /\ t_ctx t' = snd (collect fuel None dbg c d t it)
  | (_, Fail e) => drain fuel dbg c d t it = Err e
  | (_, Crash) => drain fuel dbg c d t it = Panic
  | (_, Fuel) => drain fuel dbg c d t it = OutOfFuel
  end.
Proof.
  induction fuel as [|fuel IH]; intros t it; cbn [collect drain fst snd]; auto.
  destruct (next_row dbg c d t it) as [[[r|]|e| |] [t' it']]; cbn [fst snd]; eauto.
  specialize (IH t' it').
  destruct (collect fuel None dbg c d t' it') as [[rows o] cx]. cbn [fst snd] in *. exact IH.
Qed.
End Flatten.
