(* Proofs/GenAgreeCfiTable.v — translator tie for CallFrameInstruction::parse (src/read/cfi.rs): the
   opcode -> variant table regenerated from the source text (coq/Gen/CfiTable.v) against Model/CfiRun.v
   parse_insn, for all 256 instruction bytes and both vendors. *)
From Coq Require Import List NArith Bool String Lia.
From Coq.Strings Require Import Byte.
Require Import GV.Base.Res GV.Base.Byt GV.Proofs.GenSweep.
Require GV.Gen.CfiTable GV.Gen.Constants.
Require Import GV.Spec.CfaSpec GV.Model.CfiRun.
Import ListNotations.
Local Open Scope string_scope.
Local Open Scope N_scope.

(* the Rust name of each constructor of the model's CallFrameInstruction *)
Definition insn_ctor (i : insn) : string :=
  match i with
  | ISetLoc _ => "SetLoc" | IAdvanceLoc _ => "AdvanceLoc" | IDefCfa _ _ => "DefCfa" | IDefCfaSf _ _ => "DefCfaSf"
  | IDefCfaRegister _ => "DefCfaRegister" | IDefCfaOffset _ => "DefCfaOffset" | IDefCfaOffsetSf _ => "DefCfaOffsetSf"
  | IDefCfaExpression _ => "DefCfaExpression" | IUndefined _ => "Undefined" | ISameValue _ => "SameValue"
  | IOffset _ _ => "Offset" | IOffsetExtendedSf _ _ => "OffsetExtendedSf" | IValOffset _ _ => "ValOffset"
  | IValOffsetSf _ _ => "ValOffsetSf" | IRegister _ _ => "Register" | IExpression _ _ => "Expression"
  | IValExpression _ _ => "ValExpression" | IRestore _ => "Restore" | IRememberState => "RememberState"
  | IRestoreState => "RestoreState" | IArgsSize _ => "ArgsSize" | INegateRaState => "NegateRaState" | INop => "Nop"
  end.

Fixpoint lookup_hi (n : N) (l : list (N * string)) : option string :=
  match l with [] => None | (k, v) :: r => if n =? k then Some v else lookup_hi n r end.
Fixpoint lookup_lo (n : N) (l : list (N * (string * string))) : option (string * string) :=
  match l with [] => None | (k, v) :: r => if n =? k then Some v else lookup_lo n r end.

(* CallFrameInstruction::parse as the regenerated tables describe it: the variant built for an instruction byte *)
Definition gen_cfi_variant (aarch64 : bool) (b : N) : option string :=
  match lookup_hi (N.land b CfiTable.high_bits_mask) CfiTable.high_table with
  | Some v => Some v
  | None =>
      match lookup_lo b CfiTable.low_table with
      | Some (v, guard) =>
          if String.eqb guard "" then Some v
          else if String.eqb guard "AArch64" then (if aarch64 then Some v else None)
          else None
      | None => None
      end
  end.

(* a benign operand tail: every LEB128 / register / length is the single byte 1 *)
Definition tail : list byte := repeat x01 24.

Definition insn_agree (aarch64 : bool) (b : N) : bool :=
  match parse_insn false false 8 aarch64 0 (n2b b :: tail), gen_cfi_variant aarch64 b with
  | Ok (i, _), Some v => String.eqb (insn_ctor i) v
  | Err EUnknownCallFrameInstruction, None => true
  | _, _ => false
  end.

Lemma gen_cfi_table_sweep :
  forallb (insn_agree false) (count_up 256) = true /\ forallb (insn_agree true) (count_up 256) = true.
Proof. split; vm_compute; reflexivity. Qed.

Lemma gen_cfi_table_agree : forall aarch64 b, b < 256 -> insn_agree aarch64 b = true.
Proof.
  intros aarch64 b H. destruct gen_cfi_table_sweep as [S0 S1].
  destruct aarch64; [exact (sweep_lt _ _ S1 b H)|exact (sweep_lt _ _ S0 b H)].
Qed.

(* the three high-bits tests never fire on a byte whose high bits are 0, so the order of the two stages is immaterial;
   the keys are DW_CFA_* constants *)
Lemma gen_cfi_table_keys :
  lookup_hi 0 CfiTable.high_table = None /\
  forallb (fun k => existsb (N.eqb k) Constants.DwCfa_values) (map fst CfiTable.high_table ++ map fst CfiTable.low_table) = true /\
  forallb (fun k => N.land k CfiTable.high_bits_mask =? 0) (map fst CfiTable.low_table) = true.
Proof. repeat split; vm_compute; reflexivity. Qed.

(* ---- for ALL inputs (any operand bytes, byte order, address size, section offset, both build modes) *)
Ltac crack H :=
  repeat (cbn [bind] in H;
          match type of H with
          | (if ?x then _ else _) = Ok _ =>
              let E := fresh "E" in destruct x eqn:E; try (vm_compute in E; discriminate E); try discriminate H
          | bind ?x _ = Ok _ => destruct x eqn:?; cbn [bind] in H; try discriminate H
          | (match ?x with _ => _ end) = Ok _ => destruct x eqn:?; try discriminate H
          end).

(* whenever the model decodes an instruction, its variant is the one CallFrameInstruction::parse builds for the byte *)
Lemma gen_cfi_table_all_inputs : forall dbg be asize aarch64 off b t i r',
  parse_insn dbg be asize aarch64 off (b :: t) = Ok (i, r') ->
  gen_cfi_variant aarch64 (b2n b) = Some (insn_ctor i).
Proof.
  intros dbg be asize aarch64 off b t i r' H.
  unfold parse_insn in H. cbn [GV.Model.Leb.read_u8 bind] in H.
  destruct b; crack H; injection H as <- <-; try (vm_compute; reflexivity).
  all: destruct aarch64; vm_compute; try reflexivity; vm_compute in E; discriminate.
Qed.
