(* Proofs/FilterParents.v — ConvertUnit::read_entry skips unreserved DIEs and still attaches every
   reserved DIE to its own parent, provided the reserved set contains the parent of each of its DIEs
   (which the filter guarantees). *)
From Coq Require Import List NArith ZArith Bool Lia.
Require Import GV.Base.Res GV.Spec.Graph GV.Model.Filter GV.Spec.FilterSpec.
Require Import GV.Proofs.FilterProofs GV.Proofs.FilterEdges GV.Proofs.FilterConv.
Import ListNotations.
Local Open Scope N_scope.

Lemma pop_ge_c_idem : forall d ps, pop_ge_c d (pop_ge_c d ps) = pop_ge_c d ps.
Proof.
  intros d ps. induction ps as [|[pd pid] ps IH]; cbn; auto.
  destruct (d <=? pd)%Z eqn:E; auto. cbn. now rewrite E.
Qed.

Lemma pop_ge_c_le : forall d d' ps, (d <= d')%Z -> pop_ge_c d (pop_ge_c d' ps) = pop_ge_c d ps.
Proof.
  intros d d' ps Hle. induction ps as [|[pd pid] ps IH]; cbn; auto.
  destruct (d' <=? pd)%Z eqn:E.
  - rewrite IH. assert (H : (d <=? pd)%Z = true) by (apply Z.leb_le; apply Z.leb_le in E; lia).
    now rewrite H.
  - reflexivity.
Qed.

Lemma cu_entries_app : forall u ids a b st,
  cu_entries u ids st (a ++ b) = (let* st' := cu_entries u ids st a in cu_entries u ids st' b).
Proof.
  intros u ids a. induction a as [|r a IH]; intros b st; cbn [app cu_entries]; auto.
  destruct (cu_entry u ids st r); cbn [bind]; auto.
Qed.

Section Attach.
  Variable u : unitd.
  Variable ids : list N.

  Definition attach (par : option entry) : N :=
    match par with Some pe => sec u (e_off pe) | None => root_off u end.
  Definition head_c (ps : list (Z * N)) : N :=
    match ps with (_, pid) :: _ => pid | [] => root_off u end.
  Definition top_res (top : option entry) : bool :=
    match top with Some pe => mem_n (sec u (e_off pe)) ids | None => true end.
  Definition sel (p : entry * option entry) : list (N * N) :=
    if mem_n (sec u (e_off (fst p))) ids then [(sec u (e_off (fst p)), attach (snd p))] else [].

  Definition parent_closed_in (pairs : list (entry * option entry)) : Prop :=
    forall e pe, In (e, Some pe) pairs ->
      mem_n (sec u (e_off e)) ids = true -> mem_n (sec u (e_off pe)) ids = true.

  Definition attach_spec (l : list rawent) (pairs : list (entry * option entry)) (d : Z)
             (top : option entry) : Prop :=
    forall ps out st',
      parent_closed_in pairs ->
      (top_res top = true -> head_c (pop_ge_c d ps) = attach top) ->
      cu_entries u ids (ps, out) l = Ok st' ->
      snd st' = out ++ flat_map sel pairs /\ pop_ge_c d (fst st') = pop_ge_c d ps.

  Lemma attach_forest : forall ts d top,
    attach_spec (flatten_list d ts) (forest_pairs top ts) d top.
  Proof.
    intros ts.
    apply (forest_ind2
      (fun t => forall d top, attach_spec (flatten_tree d t) (tree_pairs top t) d top)
      (fun l => forall d top, attach_spec (flatten_list d l) (forest_pairs top l) d top)).
    - (* Node *)
      intros e ks IH d top ps out st' Hpc Hhead Hrun.
      rewrite flatten_tree_eq in Hrun. rewrite tree_pairs_eq in *.
      cbn [cu_entries cu_entry r_ent r_depth r_kids] in Hrun.
      cbn [flat_map]. unfold sel at 1. cbn [fst snd].
      assert (Hpc' : parent_closed_in (forest_pairs (Some e) ks)).
      { intros e1 pe1 Hin. apply Hpc. now right. }
      destruct (mem_n (sec u (e_off e)) ids) eqn:Em.
      + (* reserved: attached to the parent on top of the stack *)
        assert (Htr : top_res top = true).
        { destruct top as [pe|]; [|reflexivity]. cbn [top_res].
          apply (Hpc e pe); [now left|exact Em]. }
        destruct (conv_sites u ids (e_sites e)) as [[]| | |]; cbn [bind] in Hrun; try discriminate.
        assert (Hatt : match pop_ge_c d ps with (_, pid) :: _ => pid | [] => root_off u end = attach top)
          by (apply Hhead; exact Htr).
        rewrite Hatt in Hrun.
        destruct ks as [|k ks'].
        * cbn [is_nil negb flatten_list cu_entries] in Hrun. inversion Hrun; subst st'.
          cbn [snd fst forest_pairs flat_map]. rewrite app_nil_r. split; [reflexivity|apply pop_ge_c_idem].
        * assert (Hnn : negb (is_nil (k :: ks')) = true) by reflexivity.
          set (ks := k :: ks') in *. rewrite Hnn in Hrun. clear Hnn.
          set (me := (d, sec u (e_off e))) in *.
          assert (Hpop : pop_ge_c (d + 1) (me :: pop_ge_c d ps) = me :: pop_ge_c d ps).
          { unfold me. cbn. assert (H : (d + 1 <=? d)%Z = false) by (apply Z.leb_gt; lia). now rewrite H. }
          destruct (IH (d + 1)%Z (Some e) _ _ _ Hpc' (fun _ => f_equal head_c Hpop) Hrun) as [H1 H2].
          split.
          -- rewrite H1. now rewrite <- app_assoc.
          -- match goal with |- pop_ge_c d ?X = _ =>
               transitivity (pop_ge_c d (pop_ge_c (d + 1) X)); [symmetry; apply pop_ge_c_le; lia|] end.
             rewrite H2, Hpop. unfold me. cbn. rewrite Z.leb_refl. apply pop_ge_c_idem.
      + (* not reserved: skipped, nothing pushed *)
        cbn [bind] in Hrun.
        assert (Htr : top_res (Some e) = true -> head_c (pop_ge_c (d + 1) (pop_ge_c d ps)) = attach (Some e)).
        { cbn [top_res]. rewrite Em. discriminate. }
        destruct (IH (d + 1)%Z (Some e) _ _ _ Hpc' Htr Hrun) as [H1 H2].
        split; [exact H1|].
        match goal with |- pop_ge_c d ?X = _ =>
          transitivity (pop_ge_c d (pop_ge_c (d + 1) X)); [symmetry; apply pop_ge_c_le; lia|] end.
        rewrite H2, pop_ge_c_le by lia. apply pop_ge_c_idem.
    - intros d top ps out st' _ _ Hrun. cbn in Hrun. inversion Hrun; subst. cbn. now rewrite app_nil_r.
    - intros t l IHt IHl d top ps out st' Hpc Hhead Hrun.
      cbn [flatten_list forest_pairs] in *. rewrite cu_entries_app in Hrun.
      destruct (cu_entries u ids (ps, out) (flatten_tree d t)) as [[ps1 out1]| | |] eqn:E1;
        cbn [bind] in Hrun; try discriminate.
      assert (Hpc1 : parent_closed_in (tree_pairs top t)).
      { intros e pe Hin. apply Hpc. apply in_or_app. now left. }
      assert (Hpc2 : parent_closed_in (forest_pairs top l)).
      { intros e pe Hin. apply Hpc. apply in_or_app. now right. }
      destruct (IHt d top _ _ _ Hpc1 Hhead E1) as [H1 H2]. cbn [fst snd] in H1, H2.
      assert (Hhead2 : top_res top = true -> head_c (pop_ge_c d ps1) = attach top).
      { rewrite H2. exact Hhead. }
      destruct (IHl d top _ _ _ Hpc2 Hhead2 Hrun) as [H3 H4].
      split.
      + rewrite H3, H1, flat_map_app. now rewrite <- app_assoc.
      + now rewrite H4, H2.
  Qed.
End Attach.

Definition expected_out (ids : list N) (u : unitd) : list (N * N) :=
  flat_map (sel u ids) (unit_pairs u).

Lemma convert_units_out : forall ids units out out',
  (forall u, In u units -> parent_closed_in u ids (unit_pairs u)) ->
  convert_units ids units out = Ok out' ->
  out' = out ++ flat_map (expected_out ids) units.
Proof.
  intros ids units. induction units as [|u us IH]; intros out out' Hpc Hrun.
  - cbn in Hrun. inversion Hrun; subst. cbn. now rewrite app_nil_r.
  - cbn [convert_units] in Hrun.
    match type of Hrun with context [cu_entries u ids (?ps0, out) ?rs] =>
      destruct (cu_entries u ids (ps0, out) rs) as [st'| | |] eqn:E1 end;
      cbn [bind] in Hrun; try discriminate.
    assert (H1 : snd st' = out ++ flat_map (sel u ids) (forest_pairs None (u_kids u))).
    { eapply (attach_forest u ids (u_kids u) 1%Z None); [apply Hpc; now left| |exact E1].
      intros _. destruct (u_kids u); cbn; reflexivity. }
    rewrite (IH _ _ (fun u' Hu' => Hpc u' (or_intror Hu')) Hrun), H1.
    cbn [flat_map]. unfold expected_out at 2, unit_pairs. now rewrite <- app_assoc.
Qed.

(* every DIE of the filtered output hangs below its own parent (or the unit root) *)
Lemma filtered_parents : forall rf dbg req units out,
  wf_offsets units -> wf_layout units ->
  convert_filtered rf dbg req units = Ok out ->
  forall x p, In (x, p) out ->
    exists u e par, occurs units u e par /\ x = sec u (e_off e) /\
      p = match par with Some pe => sec u (e_off pe) | None => root_off u end.
Proof.
  intros rf dbg req units out Hwf Hlay Hrun x p Hin.
  destruct (filtered_ids rf dbg req units Hwf Hlay) as [S [ids [HS [Hsort [HinS [_ [Hconv Hids]]]]]]].
  destruct (reserved_closure rf dbg req units Hwf) as [S' [HS' [_ [Hclosed [Hvalid _]]]]].
  rewrite HS in HS'. inversion HS'; subst S'. clear HS'.
  rewrite Hconv in Hrun.
  assert (Hpc : forall u, In u units -> parent_closed_in u ids (unit_pairs u)).
  { intros u Hu e pe Hpair Hm. apply mem_n_iff, Hids. apply mem_n_iff, Hids in Hm.
    assert (Hocc : occurs units u e (Some pe)) by (split; auto).
    destruct Hm as [Hroot|HeS].
    - exfalso. eapply valid_not_root; [exact Hlay| |exact Hroot]. exists u, e, (Some pe). auto.
    - right. destruct Hclosed as [_ [Hpar _]]. eapply Hpar; eauto. }
  rewrite (convert_units_out _ _ _ _ Hpc Hrun) in Hin. cbn [app] in Hin.
  apply in_flat_map in Hin. destruct Hin as [u [Hu Hin]].
  unfold expected_out in Hin. apply in_flat_map in Hin. destruct Hin as [[e par] [Hpair Hsel]].
  unfold sel in Hsel. cbn [fst snd] in Hsel.
  destruct (mem_n (sec u (e_off e)) ids); [|destruct Hsel].
  destruct Hsel as [Heq|[]]. inversion Heq; subst.
  exists u, e, par. split; [split; auto|]. split; reflexivity.
Qed.
