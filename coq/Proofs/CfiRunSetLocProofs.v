(* Proofs/CfiRunSetLocProofs.v — the table evaluation through encoded DW_CFA_set_loc (Model/CfiRunSetLoc.v):
   A. the generic loops flattened to CfiRunProofs.run_mid over the decoded items (the decoder-independent half of
      C06's refinement proof is reused as it is);
   B. fde_rows_sl refines CfaSpec.run_spec_lim on (CIE items, FDE items decoded with the FDE's address encoding);
   C. agreement with CfiRun / CfiUwi where those are exact;
   D. the C05 composition theorems WITHOUT section_setloc_plain; the set_loc operand inside the table. *)
From Coq Require Import List NArith ZArith Bool Lia ZifyBool ZifyN ZifyNat.
From Coq.Strings Require Import Byte.
Require Import GV.Base.Res GV.Base.Byt GV.Base.Ints GV.Model.Leb GV.Model.Prim.
Require Import GV.Spec.CfaSpec GV.Model.CfiRun GV.Model.CfiRd GV.Model.CfiUwi GV.Model.CfiRunSetLoc.
Require Import GV.Proofs.CfiRunProofs.
Require Import GV.Proofs.CfiRdBase GV.Proofs.CfiRdPtr GV.Proofs.CfiRdBs GV.Proofs.CfiRdIter GV.Proofs.CfiRdSafe GV.Proofs.CfiRdHdr GV.Proofs.CfiRdEnt.
Require Import GV.Proofs.CfiUwiProofs.
Import ListNotations.
Local Open Scope N_scope.
Local Arguments N.add : simpl never.
Local Arguments N.sub : simpl never.
Local Arguments N.mul : simpl never.
Local Arguments N.pow : simpl never.

(* ------------------------------------------------------------------ A. flattening *)
Section FlattenG.
Variable P : N -> list byte -> res (insn * list byte).
Hypothesis P_tame : forall off bs, tame bs (P off bs).
Variable c : caps.

Definition dec_g (it : cfi_iter) : list CfaSpec.item := decode_fuel_g P (S (length (it_bytes it))) it.

Lemma iter_next_cases_g it :
  match iter_next_g P it with
  | (Ok None, it') => it_bytes it = [] /\ it' = it
  | (Ok (Some _), it') => (length (it_bytes it') < length (it_bytes it))%nat
  | (Err _, it') => it_bytes it' = [] /\ it_bytes it <> []
  | (Panic, _) => False
  | (OutOfFuel, _) => False
  end.
Proof.
  unfold iter_next_g. destruct (it_bytes it) as [|b bs] eqn:E; [auto|].
  pose proof (P_tame (it_off it) (b :: bs)) as H.
  destruct (P (it_off it) (b :: bs)) as [[i rest]|e| |]; cbn [tame] in H; cbn [it_bytes]; auto.
  split; [reflexivity|discriminate].
Qed.

Lemma decode_fuel_enough_g : forall f1 f2 it,
  (length (it_bytes it) < f1)%nat -> (length (it_bytes it) < f2)%nat ->
  decode_fuel_g P f1 it = decode_fuel_g P f2 it.
Proof.
  induction f1 as [|f1 IH]; intros f2 it H1 H2; [lia|].
  destruct f2 as [|f2]; [lia|]. cbn [decode_fuel_g].
  pose proof (iter_next_cases_g it) as Hc.
  destruct (iter_next_g P it) as [[[i|]|e| |] it']; try reflexivity.
  f_equal. apply IH; lia.
Qed.

Lemma dec_unfold_g it :
  dec_g it = match iter_next_g P it with
             | (Ok None, _) => []
             | (Ok (Some i), it') => It i :: dec_g it'
             | (Err e, _) => [Bad e]
             | (Panic, _) => [BadPanic]
             | (OutOfFuel, _) => [BadFuel]
             end.
Proof.
  unfold dec_g at 1. cbn [decode_fuel_g].
  pose proof (iter_next_cases_g it) as Hc.
  destruct (iter_next_g P it) as [[[i|]|e| |] it']; try reflexivity.
  f_equal. apply decode_fuel_enough_g; lia.
Qed.

Lemma dec_empty_g it : it_bytes it = [] -> dec_g it = [].
Proof. intros H. rewrite dec_unfold_g. unfold iter_next_g. rewrite H. reflexivity. Qed.

Lemma dec_length_g it : (length (dec_g it) <= length (it_bytes it))%nat.
Proof.
  remember (length (it_bytes it)) as n eqn:En. revert it En.
  induction n as [n IH] using lt_wf_ind. intros it En.
  rewrite dec_unfold_g. pose proof (iter_next_cases_g it) as Hc.
  destruct (iter_next_g P it) as [[[i|]|e| |] it']; cbn [length]; try lia.
  - specialize (IH (length (it_bytes it')) ltac:(lia) it' eq_refl). lia.
  - destruct Hc as [_ Hne]. destruct (it_bytes it); [congruence|cbn [length] in En; lia].
Qed.

Lemma loop_eq_g : forall fuel t it,
  (length (it_bytes it) < fuel)%nat ->
  exists it',
    next_row_loop_g P fuel c t it =
      (fst (loop_items c t (dec_g it)), (fst (snd (loop_items c t (dec_g it))), it')) /\
    dec_g it' = snd (snd (loop_items c t (dec_g it))) /\
    (length (it_bytes it') <= length (it_bytes it))%nat.
Proof.
  induction fuel as [|fuel IH]; intros t it Hf; [lia|].
  cbn [next_row_loop_g]. rewrite (dec_unfold_g it).
  pose proof (iter_next_cases_g it) as Hc.
  destruct (iter_next_g P it) as [[[i|]|e| |] it'] eqn:En; try contradiction.
  - cbn [loop_items].
    destruct (evaluate c t i) as [[[|] t1]|e| |] eqn:Ev; cbn [fst snd].
    + exists it'. repeat split; auto; lia.
    + destruct (IH t1 it' ltac:(lia)) as (it2 & H1 & H2 & H3).
      exists it2. repeat split; auto; lia.
    + exists it'. repeat split; auto; lia.
    + exists it'. repeat split; auto; lia.
    + exists it'. repeat split; auto; lia.
  - destruct Hc as [Hb ->]. cbn [loop_items].
    destruct (t_returned_last t).
    + exists it. cbn [fst snd]. repeat split; auto. apply dec_empty_g; auto.
    + destruct (with_top (set_end (t_last_end t)) (t_ctx t)) as [cx|e| |]; cbn [fst snd];
        exists it; repeat split; auto; apply dec_empty_g; auto.
  - destruct Hc as [Hb _]. cbn [loop_items fst snd]. exists it'. repeat split; auto.
    + apply dec_empty_g; auto.
    + rewrite Hb. cbn [length]. lia.
Qed.

Lemma next_row_eq_g t it :
  exists it',
    next_row_g P c t it =
      match prologue t with
      | None => (Panic, (t, it))
      | Some t0 => (fst (loop_items c t0 (dec_g it)), (fst (snd (loop_items c t0 (dec_g it))), it'))
      end /\
    (forall t0, prologue t = Some t0 -> dec_g it' = snd (snd (loop_items c t0 (dec_g it)))) /\
    (length (it_bytes it') <= length (it_bytes it))%nat.
Proof.
  unfold next_row_g, prologue, with_top.
  destruct (c_stack (t_ctx t)) as [|r st] eqn:Es.
  - exists it. repeat split; auto. discriminate.
  - match goal with |- context [next_row_loop_g _ _ _ ?t0 _] => set (T0 := t0) end.
    destruct (loop_eq_g (S (length (it_bytes it))) T0 it ltac:(lia)) as (it' & H1 & H2 & H3).
    exists it'. repeat split; auto. intros t0 H. inversion H; subst. exact H2.
Qed.

Lemma collect_after_last_g fuel t it :
  t_returned_last t = true -> dec_g it = [] -> (1 <= fuel)%nat ->
  collect_g P fuel c t it =
    match prologue t with
    | Some t0 => (([], Done), t_ctx t0)
    | None => (([], Crash), t_ctx t)
    end.
Proof.
  intros Hr Hd Hf. destruct fuel as [|f]; [lia|]. cbn [collect_g].
  destruct (next_row_eq_g t it) as (it' & H1 & _ & _). rewrite H1.
  destruct (prologue t) as [t0|] eqn:Hp; [|reflexivity].
  apply prologue_flags in Hp. destruct Hp as (Hp & _).
  rewrite Hd. cbn [loop_items]. rewrite Hp, Hr. reflexivity.
Qed.

Lemma collect_run_mid_g : forall n t it fuel,
  (length (dec_g it) <= n)%nat -> (n + 2 <= fuel)%nat -> t_returned_last t = false ->
  collect_g P fuel c t it =
    match prologue t with
    | None => (([], Crash), t_ctx t)
    | Some t0 => run_mid c t0 (dec_g it)
    end.
Proof.
  induction n as [|n IH]; intros t it fuel Hn Hf Hr;
    (destruct fuel as [|f]; [lia|]); cbn [collect_g];
    destruct (next_row_eq_g t it) as (it' & H1 & H2 & H3); rewrite H1;
    (destruct (prologue t) as [t0|] eqn:Hp; [|reflexivity]);
    specialize (H2 t0 eq_refl);
    pose proof (prologue_flags _ _ Hp) as (Hp1 & _);
    pose proof (loop_items_char c (dec_g it) t0 ltac:(congruence)) as Hc;
    destruct (loop_items c t0 (dec_g it)) as [[[r|]|e| |] [t' items']]; cbn [fst snd] in *;
    try contradiction; try (rewrite Hc; reflexivity).
  - destruct Hc as [(Hc1 & Hc2 & _)|(Hc1 & Hc2 & Hc3 & Hc4)]; [lia|].
    rewrite (collect_after_last_g f t' it' Hc1 ltac:(congruence) ltac:(lia)).
    rewrite Hc4. destruct (prologue t'); reflexivity.
  - destruct Hc as [(Hc1 & Hc2 & Hc3)|(Hc1 & Hc2 & Hc3 & Hc4)].
    + rewrite (IH t' it' f ltac:(rewrite H2; lia) ltac:(lia) Hc1).
      rewrite Hc3. rewrite <- H2.
      destruct (prologue t') as [t3|]; [|reflexivity].
      destruct (run_mid c t3 (dec_g it')) as [[rows o] cx]. reflexivity.
    + rewrite (collect_after_last_g f t' it' Hc1 ltac:(congruence) ltac:(lia)).
      rewrite Hc4. destruct (prologue t'); reflexivity.
Qed.

(* unwind_info_for_address = the first collected row containing the address *)
Lemma find_row_collect_g : forall fuel a t it,
  fst (find_row_g P fuel c a t it) =
  pick a (fst (fst (collect_g P fuel c t it))) (snd (fst (collect_g P fuel c t it))).
Proof.
  induction fuel as [|f IH]; intros a t it; [reflexivity|].
  cbn [find_row_g collect_g].
  destruct (next_row_g P c t it) as [[[r|]|e| |] [t' it']]; try reflexivity.
  specialize (IH a t' it').
  destruct (collect_g P f c t' it') as [[rows o] cx]. cbn [fst snd] in *.
  unfold pick. cbn [find]. destruct (row_contains r a); [reflexivity|].
  rewrite IH. reflexivity.
Qed.
End FlattenG.

(* ------------------------------------------------------------------ B. refinement *)
Lemma valid_asize_asz_ok a : valid_asize a = true -> asz_ok a.
Proof. intros H. apply valid_asize_cases in H. exact H. Qed.

(* the FDE's instruction parser consumes input and never panics *)
Lemma parse_insn_sl_tame dbg c aa fd off bs :
  asz_ok (ci_asz (fd_cie fd)) -> tame bs (parse_insn_sl dbg c aa fd off bs).
Proof.
  intros Hasz. unfold parse_insn_sl.
  destruct (fde_addr_enc fd) as [e|] eqn:He; [|apply parse_insn_tame].
  destruct bs as [|b r]; [apply parse_insn_tame|].
  destruct (b2n b =? 1); [|apply parse_insn_tame].
  unfold parse_set_loc. rewrite He.
  pose proof (pep_safe dbg (sc_be c) e (mkpp (sc_bases c) None (ci_asz (fd_cie fd))) (mkrd (off + 1) r) Hasz) as [S1 S2].
  destruct (parse_encoded_pointer dbg (sc_be c) e (mkpp (sc_bases c) None (ci_asz (fd_cie fd))) (mkrd (off + 1) r))
    as [[p r1]|e1| |] eqn:E; try congruence; cbn [bind tame]; [|exact I].
  apply pep_shorter in E; [|exact Hasz]. cbn [win] in E.
  destruct p; cbn [pointer_direct bind tame]; [cbn [length]; lia|exact I].
Qed.

Lemma collect_sim_g P (Ht : forall off bs, tame bs (P off bs)) c f ini start last_end cx items_off items s tp rest bottom :
  valid_asize (f_asize f) = true ->
  Rcore c (sparams_of f) ini (start_tbl f start last_end cx) s tp rest bottom ->
  match collect_g P (length items + 2) c (start_tbl f start last_end cx) {| it_off := items_off; it_bytes := items |},
        spec_run c (sparams_of f) ini last_end (with_loc start s) (decode_g P items_off items) with
  | ((rows, o), cxf), (srows, (so, sfin)) => Forall2 row_equiv rows srows /\ o = so
  end.
Proof.
  intros Hv HR.
  set (it := {| it_off := items_off; it_bytes := items |}).
  set (t := start_tbl f start last_end cx).
  assert (Hd : Rdone c (sparams_of f) ini t (with_loc start s)).
  { exists tp, rest, bottom. split; [apply Rcore_with_loc; exact HR|reflexivity]. }
  destruct (Rdone_prologue c (sparams_of f) ini t (with_loc start s) false false Hd) as (t3 & Hp & HR3 & Hl3).
  assert (Hpt : prologue t = Some t3) by exact Hp.
  rewrite (collect_run_mid_g P Ht c (length items) t it (length items + 2));
    [|apply (dec_length_g P Ht it)|lia|reflexivity].
  rewrite Hpt.
  pose proof (run_sim c (sparams_of f) ini last_end (dec_g P it) t3 (with_loc start s) HR3 Hl3) as H.
  change (decode_g P items_off items) with (dec_g P it).
  destruct (run_mid c t3 (dec_g P it)) as [[rows o] cxf].
  destruct (spec_run c (sparams_of f) ini last_end (with_loc start s) (dec_g P it)) as [srows [so sfin]].
  destruct H as (H1 & H2 & _). auto.
Qed.

(* what the reader's table of the FDE record fd must equal: the DWARF call-frame machine (C06 spec, storage limits as
   a guard) on the CIE's initial instructions and on the FDE's instructions AS ITS ITERATOR DECODES THEM, i.e.
   DW_CFA_set_loc operands under the CIE's FDE address encoding *)
Definition spec_of_sl (dbg : bool) (cp : caps) (c : scfg) (aa : bool) (fd : CfiRd.fde) : list srow * outcome :=
  let f := fde_in_of (sc_be c) aa fd in
  run_spec_lim cp (sparams_of f) (f_init f) (spec_end (f_asize f) (f_init f) (f_range f))
    (decode dbg (f_dparams f) (f_cie_off f) (f_cie f)) (fde_items_sl dbg c aa fd).

Theorem model_eq_spec_sl dbg cp c aa fd cx :
  valid_asize (ci_asz (fd_cie fd)) = true ->
  cap_full (max_stack cp) 0 = false ->
  Forall2 row_equiv (fst (fst (fde_rows_sl dbg cp c aa fd cx))) (fst (spec_of_sl dbg cp c aa fd)) /\
  snd (fst (fde_rows_sl dbg cp c aa fd cx)) = snd (spec_of_sl dbg cp c aa fd).
Proof.
  intros Hv0 Hcap. unfold fde_rows_sl, spec_of_sl, fde_items_sl. cbv zeta.
  set (f := fde_in_of (sc_be c) aa fd).
  assert (Hv : valid_asize (f_asize f) = true) by exact Hv0.
  set (P := parse_insn_sl dbg c aa fd).
  assert (Ht : forall off bs, tame bs (P off bs)).
  { intros off bs. apply parse_insn_sl_tame. apply valid_asize_asz_ok. exact Hv0. }
  change (CfiRd.off (fd_instr fd)) with (f_fde_off f). change (win (fd_instr fd)) with (f_fde f).
  unfold run_spec_lim. rewrite Hv. cbn [negb].
  unfold table_new, initialize, reset. rewrite Hcap. cbn [bind].
  set (cx0 := {| c_stack := [default_row]; c_initial_rule := None; c_init := false |}).
  rewrite (new_table_ok f 0 0 cx0) by discriminate. cbn [bind].
  assert (HR0 : Rcore cp (sparams_of f) None (start_tbl f 0 0 cx0) init_state default_row [] []).
  { unfold Rcore. cbn. repeat split; auto; try constructor.
    - destruct (max_rules cp); reflexivity.
    - apply guard_ok_iff. cbn. split; [|destruct (max_rules cp); reflexivity].
      rewrite <- cap_full_over. exact Hcap. }
  pose proof (collect_sim dbg cp f None 0 0 cx0 (f_cie_off f) (f_cie f) init_state default_row [] [] Hv HR0) as Hc.
  pose proof (drain_collect dbg cp (f_dparams f) (length (f_cie f) + 2) (start_tbl f 0 0 cx0)
                {| it_off := f_cie_off f; it_bytes := f_cie f |}) as Hdr.
  destruct (collect (length (f_cie f) + 2) None dbg cp (f_dparams f) (start_tbl f 0 0 cx0)
              {| it_off := f_cie_off f; it_bytes := f_cie f |}) as [[rows_c o_c] cx1].
  change (with_loc 0 init_state) with init_state in Hc.
  destruct (spec_run cp (sparams_of f) None 0 init_state (decode dbg (f_dparams f) (f_cie_off f) (f_cie f)))
    as [srows_c [so_c sc]].
  destruct Hc as (_ & Ho & Hfin). subst so_c. cbn [fst snd] in Hdr.
  destruct o_c as [|e| |].
  2: { rewrite Hdr. cbn. split; [constructor|reflexivity]. }
  2: { rewrite Hdr. cbn. split; [constructor|reflexivity]. }
  2: { rewrite Hdr. cbn. split; [constructor|reflexivity]. }
  destruct Hdr as (t' & Hdr & Hctx). rewrite Hdr. cbn [bind].
  destruct (Hfin eq_refl) as (tf & tp & rest & bottom & Htf & HRc).
  pose proof (save_sim cp (sparams_of f) dbg tf sc tp rest bottom HRc) as Hsave.
  rewrite Htf, <- Hctx in Hsave.
  rewrite guard_with_loc.
  destruct (save_initial_rules dbg cp (t_ctx t')) as [cx2|e| |];
    destruct (guard cp (Some (s_rules sc)) sc) as [[]|e'| |]; try contradiction.
  2: { subst. cbn. split; [constructor|reflexivity]. }
  cbn [bind].
  destruct Hsave as (tp2 & rest2 & bottom2 & Hsave).
  assert (Hne : c_stack cx2 <> []).
  { destruct (Hsave (start_tbl f 0 0 cx2) eq_refl eq_refl eq_refl eq_refl) as (_ & _ & _ & _ & Hst & _).
    cbn [t_ctx start_tbl] in Hst. rewrite Hst. discriminate. }
  rewrite (new_table_ok f (f_init f) (end_address f) cx2 Hne).
  rewrite (end_address_spec f Hv).
  pose proof (collect_sim_g P Ht cp f (Some (s_rules sc)) (f_init f) (spec_end (f_asize f) (f_init f) (f_range f))
                cx2 (f_fde_off f) (f_fde f) sc tp2 rest2 bottom2 Hv
                (Hsave (start_tbl f (f_init f) (spec_end (f_asize f) (f_init f) (f_range f)) cx2)
                       eq_refl eq_refl eq_refl eq_refl)) as Hf.
  destruct (collect_g P (length (f_fde f) + 2) cp
              (start_tbl f (f_init f) (spec_end (f_asize f) (f_init f) (f_range f)) cx2)
              {| it_off := f_fde_off f; it_bytes := f_fde f |}) as [[rows o] cxf].
  destruct (spec_run cp (sparams_of f) (Some (s_rules sc)) (spec_end (f_asize f) (f_init f) (f_range f))
              (with_loc (f_init f) sc) (decode_g P (f_fde_off f) (f_fde f))) as [srows [so sfin]].
  destruct Hf as (Hrows & Ho). cbn [fst snd]. auto.
Qed.

(* FrameDescriptionEntry::unwind_info_for_address = first row of fde.rows() containing the address *)
Lemma fde_uwi_sl_pick dbg cp c aa fd cx a :
  fst (fde_uwi_sl dbg cp c aa fd cx a) =
  pick a (fst (fst (fde_rows_sl dbg cp c aa fd cx))) (snd (fst (fde_rows_sl dbg cp c aa fd cx))).
Proof.
  unfold fde_uwi_sl, fde_rows_sl. cbv zeta.
  destruct (negb (valid_asize (f_asize (fde_in_of (sc_be c) aa fd)))); [reflexivity|].
  destruct (table_new dbg cp (fde_in_of (sc_be c) aa fd) cx) as [t|e| |]; try reflexivity.
  apply find_row_collect_g.
Qed.

(* ------------------------------------------------------------------ C. agreement with CfiRun / CfiUwi *)
Section Agree.
Variable dbg : bool.
Variable d : dparams.
Variable P : N -> list byte -> res (insn * list byte).
Hypothesis HP : forall off bs, P off bs = parse_insn dbg (d_be d) (d_asize d) (d_aarch64 d) off bs.

Lemma iter_next_g_old it : iter_next_g P it = CfiRun.iter_next dbg d it.
Proof. unfold iter_next_g, CfiRun.iter_next. rewrite HP. reflexivity. Qed.

Lemma next_row_loop_g_old : forall fuel c t it, next_row_loop_g P fuel c t it = next_row_loop fuel dbg c d t it.
Proof.
  induction fuel as [|f IH]; intros c t it; [reflexivity|]. cbn [next_row_loop_g next_row_loop].
  rewrite iter_next_g_old. destruct (CfiRun.iter_next dbg d it) as [[[i|]|e| |] it']; try reflexivity.
  destruct (evaluate c t i) as [[[|] t1]|e| |]; try reflexivity. apply IH.
Qed.

Lemma next_row_g_old c t it : next_row_g P c t it = next_row dbg c d t it.
Proof.
  unfold next_row_g, next_row. destruct (c_stack (t_ctx t)); [reflexivity|].
  destruct (with_top _ _); try reflexivity. apply next_row_loop_g_old.
Qed.

Lemma collect_g_old : forall fuel c t it, collect_g P fuel c t it = collect fuel None dbg c d t it.
Proof.
  induction fuel as [|f IH]; intros c t it; [reflexivity|]. cbn [collect_g collect].
  rewrite next_row_g_old. destruct (next_row dbg c d t it) as [[[r|]|e| |] [t' it']]; try reflexivity.
  rewrite IH. reflexivity.
Qed.

Lemma find_row_g_old : forall fuel c a t it, find_row_g P fuel c a t it = find_row fuel dbg c d a t it.
Proof.
  induction fuel as [|f IH]; intros c a t it; [reflexivity|]. cbn [find_row_g find_row].
  rewrite next_row_g_old. destruct (next_row dbg c d t it) as [[[r|]|e| |] [t' it']]; try reflexivity.
  destruct (row_contains r a); [reflexivity|]. apply IH.
Qed.
End Agree.

Lemma parse_insn_sl_plain dbg c aa fd : fde_addr_enc fd = None ->
  forall off bs, parse_insn_sl dbg c aa fd off bs = parse_insn dbg (sc_be c) (ci_asz (fd_cie fd)) aa off bs.
Proof. intros H off bs. unfold parse_insn_sl. rewrite H. reflexivity. Qed.

(* without an FDE address encoding ('R' absent) the extension IS C06's evaluator on the adapter's record:
   every byte string, rows, outcome and context left behind *)
Theorem fde_rows_sl_plain dbg cp c aa fd cx : fde_addr_enc fd = None ->
  fde_rows_sl dbg cp c aa fd cx = fde_rows dbg cp (fde_in_of (sc_be c) aa fd) cx.
Proof.
  intros H. unfold fde_rows_sl, fde_rows, fde_rows_lim. cbv zeta.
  destruct (negb _); [reflexivity|]. destruct (table_new _ _ _ _); try reflexivity.
  apply (collect_g_old dbg (f_dparams (fde_in_of (sc_be c) aa fd))). apply parse_insn_sl_plain. exact H.
Qed.

Theorem fde_uwi_sl_plain dbg cp c aa fd cx a : fde_addr_enc fd = None ->
  fde_uwi_sl dbg cp c aa fd cx a = CfiRun.unwind_info_for_address dbg cp (fde_in_of (sc_be c) aa fd) cx a.
Proof.
  intros H. unfold fde_uwi_sl, CfiRun.unwind_info_for_address. cbv zeta.
  destruct (negb _); [reflexivity|]. destruct (table_new _ _ _ _); try reflexivity.
  apply (find_row_g_old dbg (f_dparams (fde_in_of (sc_be c) aa fd))). apply parse_insn_sl_plain. exact H.
Qed.

(* with an encoding: as long as no instruction of the FDE starts with opcode 0x01 (DW_CFA_set_loc) *)
Fixpoint no_op1 (fuel : nat) (P : N -> list byte -> res (insn * list byte)) (it : cfi_iter) : bool :=
  match fuel with
  | O => true
  | S f =>
      match it_bytes it with
      | [] => true
      | b :: _ =>
          negb (b2n b =? 1) &&
          match iter_next_g P it with
          | (Ok (Some _), it') => no_op1 f P it'
          | _ => true
          end
      end
  end.

Definition setloc_free (dbg : bool) (c : scfg) (aa : bool) (fd : CfiRd.fde) : bool :=
  no_op1 (S (length (win (fd_instr fd)))) (parse_insn_sl dbg c aa fd)
         {| it_off := CfiRd.off (fd_instr fd); it_bytes := win (fd_instr fd) |}.

Lemma no_op1_decode dbg c aa fd : forall fuel it,
  no_op1 fuel (parse_insn_sl dbg c aa fd) it = true ->
  decode_fuel_g (parse_insn_sl dbg c aa fd) fuel it =
  decode_fuel fuel dbg (f_dparams (fde_in_of (sc_be c) aa fd)) it.
Proof.
  induction fuel as [|f IH]; intros it H; [reflexivity|]. cbn [no_op1 decode_fuel_g decode_fuel] in *.
  assert (E : iter_next_g (parse_insn_sl dbg c aa fd) it = CfiRun.iter_next dbg (f_dparams (fde_in_of (sc_be c) aa fd)) it).
  { unfold iter_next_g, CfiRun.iter_next. destruct (it_bytes it) as [|b r] eqn:Eb; [reflexivity|].
    apply andb_true_iff in H. destruct H as [Hb _].
    unfold parse_insn_sl. destruct (fde_addr_enc fd); [|reflexivity].
    destruct (b2n b =? 1); [discriminate|reflexivity]. }
  rewrite <- E. destruct (it_bytes it) as [|b r] eqn:Eb.
  - unfold iter_next_g. rewrite Eb. reflexivity.
  - apply andb_true_iff in H. destruct H as [_ H].
    destruct (iter_next_g (parse_insn_sl dbg c aa fd) it) as [[[i|]|e| |] it']; try reflexivity.
    f_equal. apply IH. exact H.
Qed.

Theorem setloc_free_items dbg c aa fd : setloc_free dbg c aa fd = true ->
  fde_items_sl dbg c aa fd =
  decode dbg (f_dparams (fde_in_of (sc_be c) aa fd)) (CfiRd.off (fd_instr fd)) (win (fd_instr fd)).
Proof. intros H. unfold fde_items_sl, decode_g, decode. apply no_op1_decode. exact H. Qed.

(* ------------------------------------------------------------------ D. the composition, without section_setloc_plain *)
Lemma fde_uwi_sl_spec dbg cp c aa fd cx a :
  valid_asize (ci_asz (fd_cie fd)) = true -> cap_full (max_stack cp) 0 = false ->
  uwi_result_spec a (fst (spec_of_sl dbg cp c aa fd)) (snd (spec_of_sl dbg cp c aa fd))
                  (fst (fde_uwi_sl dbg cp c aa fd cx a)).
Proof.
  intros Hv Hc. rewrite fde_uwi_sl_pick.
  destruct (model_eq_spec_sl dbg cp c aa fd cx Hv Hc) as (H1 & H2). rewrite H2.
  apply pick_row_equiv. exact H1.
Qed.

(* every byte string: the lookup, then the first row of the FDE's table (decoded with ITS encoding) *)
Lemma uwi_sl_compose dbg cp c aa sec cx a :
  fst (unwind_info_for_address_sl dbg cp c aa sec cx a) =
  match fde_for_address dbg c sec a with
  | Ok fd => pick a (fst (fst (fde_rows_sl dbg cp c aa fd cx))) (snd (fst (fde_rows_sl dbg cp c aa fd cx)))
  | Err e => Err e
  | Panic => Panic
  | OutOfFuel => OutOfFuel
  end.
Proof.
  unfold unwind_info_for_address_sl.
  destruct (fde_for_address dbg c sec a) as [fd|e| |]; try reflexivity. apply fde_uwi_sl_pick.
Qed.

(* first FDE in section order that covers a; its table, through encoded set_loc operands *)
Lemma uwi_sl_spec_lem dbg cp c aa sec cx a items fds :
  asz_ok (sc_asz c) -> cap_full (max_stack cp) 0 = false ->
  entries_all dbg c sec = Ok (items, None) ->
  parsed_fdes dbg c sec items = Some fds ->
  match find (fun f => covers f a) fds with
  | None => fst (unwind_info_for_address_sl dbg cp c aa sec cx a) = Err ENoUnwindInfoForAddress
  | Some fd =>
      uwi_result_spec a (fst (spec_of_sl dbg cp c aa fd)) (snd (spec_of_sl dbg cp c aa fd))
                      (fst (unwind_info_for_address_sl dbg cp c aa sec cx a))
  end.
Proof.
  intros Hc Hcap He Hp.
  unfold unwind_info_for_address_sl. rewrite (linear_lookup_lem dbg c sec a items fds Hc He Hp).
  destruct (find (fun f => covers f a) fds) as [fd|] eqn:Ef; [|reflexivity].
  apply fde_uwi_sl_spec; [|exact Hcap].
  apply asz_ok_valid.
  pose proof (parsed_fdes_asz dbg c sec items fds Hp Hc) as Hall. rewrite Forall_forall in Hall.
  apply Hall. apply find_some in Ef. tauto.
Qed.

(* the old composition is the new one wherever it was claimed: sections whose FDEs carry no 'R' encoding *)
Lemma uwi_sl_agrees_plain dbg cp c aa sec cx a :
  (forall fd, fde_for_address dbg c sec a = Ok fd -> fde_addr_enc fd = None) ->
  unwind_info_for_address_sl dbg cp c aa sec cx a = unwind_info_for_address dbg cp c aa sec cx a.
Proof.
  intros H. unfold unwind_info_for_address_sl, unwind_info_for_address.
  destruct (fde_for_address dbg c sec a) as [fd|e| |] eqn:E; try reflexivity.
  apply fde_uwi_sl_plain. apply H. reflexivity.
Qed.

(* header path and totality *)
Lemma hdr_uwi_sl_designated_lem dbg cp hb h c aa sec cx a :
  asz_ok (sc_asz c) ->
  fst (hdr_unwind_info_for_address_sl dbg cp hb h c aa sec cx a) =
  (let* p := hdr_lookup dbg hb h a in
   let* o := pointer_to_offset dbg h p in
   let* fd := fde_from_offset dbg c sec o in
   if covers fd a then
     pick a (fst (fst (fde_rows_sl dbg cp c aa fd cx))) (snd (fst (fde_rows_sl dbg cp c aa fd cx)))
   else Err ENoUnwindInfoForAddress).
Proof.
  intros Hc. unfold hdr_unwind_info_for_address_sl, hdr_fde_for_address.
  destruct (hdr_lookup dbg hb h a) as [p|e| |]; try reflexivity. cbn [bind].
  destruct (pointer_to_offset dbg h p) as [o|e| |]; try reflexivity. cbn [bind].
  destruct (fde_from_offset dbg c sec o) as [fd|e| |] eqn:Efd; try reflexivity. cbn [bind].
  rewrite fde_contains_covers.
  - cbn [bind]. destruct (covers fd a); [apply fde_uwi_sl_pick|reflexivity].
  - unfold fde_from_offset in Efd. apply bind_ok in Efd as (p0 & _ & Efd). eapply fde_parse_asz; eassumption.
Qed.

Lemma uwi_sl_paths_agree_lem dbg cp hb h c aa sec cx a items fds size o0 rows locs extra tfds e :
  asz_ok (sc_asz c) ->
  entries_all dbg c sec = Ok (items, None) ->
  parsed_fdes dbg c sec items = Some fds ->
  wf_hdr dbg hb h fds size o0 rows locs extra tfds e ->
  hdr_unwind_info_for_address_sl dbg cp hb h c aa sec cx a = unwind_info_for_address_sl dbg cp c aa sec cx a.
Proof.
  intros. unfold hdr_unwind_info_for_address_sl, unwind_info_for_address_sl.
  erewrite hdr_lookup_agrees_lem by eassumption. reflexivity.
Qed.

(* ------------------------------------------------------------------ the set_loc operand inside the table *)
(* wherever the FDE's iterator stands on opcode 0x01 under an address encoding, the next item is the operand
   theorem's pointer (CfiUwi.parse_set_loc at the offset after the opcode), and decoding goes on after it *)
Lemma dec_g_set_loc dbg c aa fd enc off r :
  fde_addr_enc fd = Some enc -> asz_ok (ci_asz (fd_cie fd)) ->
  dec_g (parse_insn_sl dbg c aa fd) {| it_off := off; it_bytes := n2b 1 :: r |} =
  match parse_set_loc dbg c fd (mkrd (off + 1) r) with
  | Ok (a, r1) => It (ISetLoc a) :: dec_g (parse_insn_sl dbg c aa fd)
                                      {| it_off := off + consumed (n2b 1 :: r) (win r1); it_bytes := win r1 |}
  | Err e => [Bad e]
  | Panic => [BadPanic]
  | OutOfFuel => [BadFuel]
  end.
Proof.
  intros He Hasz. rewrite dec_unfold_g by (intros; apply parse_insn_sl_tame; exact Hasz).
  unfold iter_next_g. cbn [it_bytes it_off]. unfold parse_insn_sl. rewrite He.
  change (b2n (n2b 1) =? 1) with true. cbv iota.
  destruct (parse_set_loc dbg c fd (mkrd (off + 1) r)) as [[a r1]|e| |]; reflexivity.
Qed.

(* with the operand theorem: a set_loc whose operand encodes v under enc yields the LSB pointer a = ptr_spec(...)
   (bases of the section, the operand's own offset, no function base) and the rest is decoded behind it; an
   indirect encoding ends the stream with UnsupportedIndirectPointer *)
Lemma set_loc_in_table_lem dbg c aa fd enc off v rest ind a :
  fde_addr_enc fd = Some enc ->
  enc < 256 -> asz_ok (ci_asz (fd_cie fd)) -> CfiSpec.valid_spec enc = true -> enc <> 255 ->
  CfiSpec.value_fits (CfiSpec.fmt_of enc) (ci_asz (fd_cie fd)) v = true ->
  CfiSpec.ptr_spec enc (ci_asz (fd_cie fd)) (pb_of (mkpp (sc_bases c) None (ci_asz (fd_cie fd)))) (off + 1) v = Some (ind, a) ->
  let ev := CfiSpec.enc_value (CfiSpec.fmt_of enc) (ci_asz (fd_cie fd)) (sc_be c) v in
  dec_g (parse_insn_sl dbg c aa fd) {| it_off := off; it_bytes := n2b 1 :: ev ++ rest |} =
  if ind then [Bad EUnsupportedIndirectPointer]
  else It (ISetLoc a) :: dec_g (parse_insn_sl dbg c aa fd) {| it_off := off + 1 + nlen ev; it_bytes := rest |}.
Proof.
  intros He H256 Hasz Hv Hn Hfit Hps ev.
  rewrite (dec_g_set_loc dbg c aa fd enc off (ev ++ rest) He Hasz).
  unfold ev. rewrite (set_loc_roundtrip_lem dbg c fd enc (off + 1) v rest ind a He H256 Hasz Hv Hn Hfit Hps).
  destruct ind; [reflexivity|]. cbn [win]. do 3 f_equal.
  unfold consumed, nlen. cbn [length]. rewrite app_length. lia.
Qed.

(* ------------------------------------------------------------------ E. unlimited table, for the extension *)
Definition spec_unl_sl (dbg : bool) (c : scfg) (aa : bool) (fd : CfiRd.fde) : list srow * outcome :=
  let f := fde_in_of (sc_be c) aa fd in
  run_spec (sparams_of f) (f_init f) (spec_end (f_asize f) (f_init f) (f_range f))
    (decode dbg (f_dparams f) (f_cie_off f) (f_cie f)) (fde_items_sl dbg c aa fd).
Definition within_limits_sl (dbg : bool) (cp : caps) (c : scfg) (aa : bool) (fd : CfiRd.fde) : bool :=
  let f := fde_in_of (sc_be c) aa fd in
  fits_run cp (sparams_of f) (f_init f) (decode dbg (f_dparams f) (f_cie_off f) (f_cie f)) (fde_items_sl dbg c aa fd).

Lemma spec_of_sl_unl dbg cp c aa fd :
  within_limits_sl dbg cp c aa fd = true -> spec_of_sl dbg cp c aa fd = spec_unl_sl dbg c aa fd.
Proof.
  unfold within_limits_sl, spec_of_sl, spec_unl_sl. cbv zeta. intros H.
  match goal with |- run_spec_lim ?c ?p ?i ?e ?ci ?fi = _ => destruct (run_spec_fits c p i e ci fi) as [(_ & E)|(F & _)] end;
    [exact E|congruence].
Qed.

Lemma uwi_sl_spec_unl_lem dbg cp c aa sec cx a items fds fd :
  asz_ok (sc_asz c) -> cap_full (max_stack cp) 0 = false ->
  entries_all dbg c sec = Ok (items, None) ->
  parsed_fdes dbg c sec items = Some fds ->
  find (fun f => covers f a) fds = Some fd ->
  within_limits_sl dbg cp c aa fd = true ->
  uwi_result_spec a (fst (spec_unl_sl dbg c aa fd)) (snd (spec_unl_sl dbg c aa fd))
                  (fst (unwind_info_for_address_sl dbg cp c aa sec cx a)).
Proof.
  intros Hc Hcap He Hp Ef Hw.
  pose proof (uwi_sl_spec_lem dbg cp c aa sec cx a items fds Hc Hcap He Hp) as H.
  rewrite Ef in H. rewrite (spec_of_sl_unl dbg cp c aa fd Hw) in H. exact H.
Qed.

(* ------------------------------------------------------------------ F. shape, success iff covered *)
Lemma fde_rows_sl_invalid dbg cp c aa fd cx :
  valid_asize (ci_asz (fd_cie fd)) = false ->
  fst (fde_rows_sl dbg cp c aa fd cx) = ([], Fail EUnsupportedAddressSize).
Proof. intros H. unfold fde_rows_sl. cbv zeta. cbn [fde_in_of f_asize]. rewrite H. reflexivity. Qed.

Lemma fde_rows_sl_nocap dbg cp c aa fd cx :
  valid_asize (ci_asz (fd_cie fd)) = true -> cap_full (max_stack cp) 0 = true ->
  fst (fde_rows_sl dbg cp c aa fd cx) = ([], Crash).
Proof.
  intros Hv H. unfold fde_rows_sl, table_new, initialize, reset. cbv zeta. cbn [fde_in_of f_asize]. rewrite Hv, H. reflexivity.
Qed.

Lemma rows_shape_sl dbg cp c aa fd cx :
  shape (fd_init fd) (end_address (fde_in_of (sc_be c) aa fd))
        (map mspan (fst (fst (fde_rows_sl dbg cp c aa fd cx)))) (snd (fst (fde_rows_sl dbg cp c aa fd cx))).
Proof.
  destruct (valid_asize (ci_asz (fd_cie fd))) eqn:Hv.
  - destruct (cap_full (max_stack cp) 0) eqn:Hc.
    + rewrite (fde_rows_sl_nocap dbg cp c aa fd cx Hv Hc). cbn. split; [exact I|constructor].
    + destruct (model_eq_spec_sl dbg cp c aa fd cx Hv Hc) as (H1 & H2).
      rewrite (row_equiv_spans _ _ H1), H2, (end_address_spec (fde_in_of (sc_be c) aa fd) Hv).
      unfold spec_of_sl. cbv zeta. apply run_spec_lim_shape.
  - rewrite (fde_rows_sl_invalid dbg cp c aa fd cx Hv). cbn. split; [exact I|constructor].
Qed.

Lemma fde_uwi_sl_done_succeeds dbg cp c aa fd cx a :
  snd (fst (fde_rows_sl dbg cp c aa fd cx)) = Done ->
  fd_init fd <= a -> a < end_address (fde_in_of (sc_be c) aa fd) ->
  exists r, fst (fde_uwi_sl dbg cp c aa fd cx a) = Ok r /\ row_contains r a = true.
Proof.
  intros Hd H1 H2. rewrite fde_uwi_sl_pick. unfold pick.
  pose proof (rows_shape_sl dbg cp c aa fd cx) as [Hch Hsh]. rewrite Hd in Hsh.
  destruct Hsh as (l0 & lastx & Hl & Hlast & Ho).
  rewrite Hl in Hch. rewrite <- Hlast in H2.
  destruct (chain_covers l0 lastx _ a Hch Ho H1 H2) as (x & Hx & Hx1 & Hx2).
  rewrite <- Hl in Hx. apply in_map_iff in Hx as (r & Hr & Hin). subst x. cbn [mspan fst snd] in *.
  assert (Hrc : row_contains r a = true) by (unfold row_contains; lia).
  destruct (find_exists _ (fun r => row_contains r a) _ r Hin Hrc) as (y & Hy). rewrite Hy.
  exists y. split; [reflexivity|]. apply find_some in Hy. tauto.
Qed.

Lemma uwi_sl_succeeds_iff_lem dbg cp c aa sec cx a items fds :
  asz_ok (sc_asz c) ->
  entries_all dbg c sec = Ok (items, None) ->
  parsed_fdes dbg c sec items = Some fds ->
  (forall fd, find (fun f => covers f a) fds = Some fd ->
              snd (fst (fde_rows_sl dbg cp c aa fd cx)) = Done) ->
  ((exists r, fst (unwind_info_for_address_sl dbg cp c aa sec cx a) = Ok r /\ row_contains r a = true)
   <-> exists fd, In fd fds /\ covers fd a = true).
Proof.
  intros Hc He Hp Hdone.
  unfold unwind_info_for_address_sl. rewrite (linear_lookup_lem dbg c sec a items fds Hc He Hp).
  destruct (find (fun f => covers f a) fds) as [fd|] eqn:Ef.
  - split.
    + intros _. exists fd. apply find_some in Ef. exact Ef.
    + intros _. pose proof Ef as Ef'. apply find_some in Ef' as [Hin Hcov].
      assert (Hasz : asz_ok (ci_asz (fd_cie fd))).
      { pose proof (parsed_fdes_asz dbg c sec items fds Hp Hc) as Hall. rewrite Forall_forall in Hall. apply Hall, Hin. }
      destruct (end_address_covers (sc_be c) aa fd a Hasz Hcov) as [H1 H2].
      apply fde_uwi_sl_done_succeeds; [apply Hdone; reflexivity|exact H1|exact H2].
  - split.
    + intros (r & Hr & _). discriminate.
    + intros (fd & Hin & Hcov). eapply find_none in Ef; [|exact Hin]. cbv beta in Ef. congruence.
Qed.

(* ------------------------------------------------------------------ G. no panic, fuel suffices *)
Lemma dec_clean_g P (Ht : forall off bs, tame bs (P off bs)) : forall n it, (length (it_bytes it) <= n)%nat ->
  Forall (fun x => x <> BadPanic /\ x <> BadFuel) (dec_g P it).
Proof.
  induction n as [|n IH]; intros it Hn; rewrite (dec_unfold_g P Ht);
    pose proof (iter_next_cases_g P Ht it) as Hc;
    destruct (iter_next_g P it) as [[[i|]|e| |] it']; try contradiction;
    try (constructor; [split; discriminate|]); try constructor.
  - lia.
  - apply IH. lia.
Qed.

Lemma no_panic_sl dbg cp c aa fd cx :
  cap_full (max_stack cp) 0 = false ->
  snd (fst (fde_rows_sl dbg cp c aa fd cx)) <> Crash /\ snd (fst (fde_rows_sl dbg cp c aa fd cx)) <> Fuel.
Proof.
  intros Hc. destruct (valid_asize (ci_asz (fd_cie fd))) eqn:Hv;
    [|rewrite (fde_rows_sl_invalid dbg cp c aa fd cx Hv); cbn; split; discriminate].
  destruct (model_eq_spec_sl dbg cp c aa fd cx Hv Hc) as (_ & H2). rewrite H2.
  unfold spec_of_sl, run_spec_lim, fde_items_sl. cbv zeta.
  set (f := fde_in_of (sc_be c) aa fd).
  assert (Ht : forall off bs, tame bs (parse_insn_sl dbg c aa fd off bs)).
  { intros off bs. apply parse_insn_sl_tame. apply valid_asize_asz_ok. exact Hv. }
  pose proof (dec_clean dbg (f_dparams f) _ {| it_off := f_cie_off f; it_bytes := f_cie f |} (le_n _)) as Dc.
  pose proof (dec_clean_g _ Ht _ {| it_off := CfiRd.off (fd_instr fd); it_bytes := win (fd_instr fd) |} (le_n _)) as Df.
  change (dec dbg (f_dparams f) {| it_off := f_cie_off f; it_bytes := f_cie f |})
    with (decode dbg (f_dparams f) (f_cie_off f) (f_cie f)) in Dc.
  change (dec_g (parse_insn_sl dbg c aa fd) {| it_off := CfiRd.off (fd_instr fd); it_bytes := win (fd_instr fd) |})
    with (decode_g (parse_insn_sl dbg c aa fd) (CfiRd.off (fd_instr fd)) (win (fd_instr fd))) in Df.
  pose proof (spec_run_clean cp (sparams_of f) None 0 _ init_state Dc) as Hcl.
  destruct (spec_run cp (sparams_of f) None 0 init_state (decode dbg (f_dparams f) (f_cie_off f) (f_cie f)))
    as [rows_c [o_c sc]]. cbn [fst snd] in Hcl.
  destruct o_c; cbn [snd]; try (split; discriminate); try (destruct Hcl; congruence).
  destruct (guard_cases cp (Some (s_rules sc)) (with_loc (f_init f) sc)) as [Hg|[Hg|Hg]]; rewrite Hg;
    try (cbn; split; discriminate).
  pose proof (spec_run_clean cp (sparams_of f) (Some (s_rules sc))
                (spec_end (f_asize f) (f_init f) (f_range f)) _ (with_loc (f_init f) sc) Df) as Hcl2.
  destruct (spec_run cp (sparams_of f) (Some (s_rules sc)) (spec_end (f_asize f) (f_init f) (f_range f))
              (with_loc (f_init f) sc) (decode_g (parse_insn_sl dbg c aa fd) (CfiRd.off (fd_instr fd)) (win (fd_instr fd))))
    as [rows [o sf]].
  exact Hcl2.
Qed.

Lemma uwi_sl_total_lem dbg cp c aa sec cx a :
  asz_ok (sc_asz c) -> cap_full (max_stack cp) 0 = false ->
  fst (unwind_info_for_address_sl dbg cp c aa sec cx a) <> Panic /\
  fst (unwind_info_for_address_sl dbg cp c aa sec cx a) <> OutOfFuel.
Proof.
  intros Hc Hcap. rewrite uwi_sl_compose.
  pose proof (fde_for_address_safe_lem dbg c sec a Hc) as [S1 S2].
  destruct (fde_for_address dbg c sec a) as [fd|e| |]; try congruence; [|split; discriminate].
  unfold pick. destruct (find _ _); [split; discriminate|].
  pose proof (no_panic_sl dbg cp c aa fd cx Hcap) as [N1 N2].
  destruct (snd (fst (fde_rows_sl dbg cp c aa fd cx))); cbn [outcome_err]; try congruence; split; discriminate.
Qed.
