(* Proofs/SibOvTreeProofs.v — the full tree walk (walk_tree, children() of every node) over units whose
   DW_AT_sibling values are overridden (Proofs/SibOvProofs.v). Copy of NavProofs.walk_list / walk_tree_claim
   over evs_ov: a walk that iterates every child list only ever calls EntriesTree::next on an entry without
   children or on a list terminator (`inert`), so the fast path is never taken, whatever the values. *)
From Coq Require Import List NArith ZArith Bool Lia ZifyBool ZifyN ZifyNat.
From Coq.Strings Require Import Byte.
Require Import GV.Base.Res GV.Base.Byt GV.Base.Ints GV.Model.Leb GV.Model.Prim
               GV.Spec.LebSpec GV.Spec.FormSpec GV.Model.Attr GV.Spec.Forest GV.Model.AbbrevRd
               GV.Model.DieRd GV.Proofs.AttrProofs GV.Proofs.AbbrevRdProofs GV.Proofs.DieRdProofs GV.Proofs.NavProofs
               GV.Proofs.SibOvProofs.
Import ListNotations.
Local Open Scope N_scope.
Local Arguments N.add : simpl never.
Local Arguments N.sub : simpl never.
Local Arguments N.mul : simpl never.
Local Arguments N.pow : simpl never.
Local Arguments N.of_nat : simpl never.
Local Arguments Z.add : simpl never.
Local Arguments Z.sub : simpl never.

Section OvTree.
  Variables (codes : coding) (ov : N -> option N).

  Definition tail_ov (bigend : bool) (d : Z) (off : N) (t : tree) : list xev :=
    if has_children t
    then evs_list_ov codes ov bigend (d + 1) (kids_off codes off t) (t_kids t) ++
         [null_ev (off + tree_size codes t - 1) (d + 1)]
    else [].

  Lemma evs_ov_tail bigend d off t :
    evs_ov codes ov bigend d off t = head_ev_ov codes ov bigend d off t :: tail_ov bigend d off t.
  Proof. rewrite evs_ov_unfold. reflexivity. Qed.

  Lemma tail_ov_end_depth bigend d off t : end_depth (post_depth d t) (tail_ov bigend d off t) = d.
  Proof.
    destruct (evs_ov_facts codes ov bigend t d off) as (_ & _ & _ & E). rewrite evs_ov_tail in E.
    cbn [end_depth head_ev_ov x_post] in E. exact E.
  Qed.

  Lemma root_die_ov_not_null e off d t : node_ok codes e t -> is_null (root_die_ov codes ov off d t) = false.
  Proof.
    intros [(_ & Ht & _) _]. cbn [t_abbrev ab_tag] in Ht. unfold is_null, root_die_ov. cbn [d_tag]. lia.
  Qed.

  Fixpoint dtree_ov (depth : Z) (off : N) (t : tree) : dtree :=
    match t with
    | Node tag flag items kids =>
        DNode (root_die_ov codes ov off depth t)
              (on_list (fun o k => [dtree_ov (depth + 1) o k]) (tree_size codes) (kids_off codes off t) kids)
    end.
  Definition kid_trees_ov (D : Z) (off : N) (ks : list tree) : list dtree :=
    on_list (fun o k => [dtree_ov D o k]) (tree_size codes) off ks.
  Lemma dtree_ov_unfold D off t :
    dtree_ov D off t = DNode (root_die_ov codes ov off D t) (kid_trees_ov (D + 1) (kids_off codes off t) (t_kids t)).
  Proof. destruct t. reflexivity. Qed.

  Section W.
  Variables (dbg : bool) (e : enc) (tbl : abbrevs) (E : N) (rest : list byte).

  Definition walk_claim_ov (k : tree) : Prop :=
    forall D off l2 ts fuel,
      tr_entry ts = root_die_ov codes ov off D k ->
      at_chain dbg e tbl E rest (tr_raw ts) (tail_ov (be e) D off k ++ l2) ->
      r_depth (tr_raw ts) = post_depth D k ->
      Forall (placed_ok_ov codes ov e tbl) (placed codes off k) ->
      (length (forest_nodes (t_kids k)) < fuel)%nat ->
      walk_children fuel dbg e tbl (D + 1) ts =
      Ok (kid_trees_ov (D + 1) (kids_off codes off k) (t_kids k), None,
          if has_children k
          then mkTree (tr_root ts) (mkRaw (xbytes l2 ++ rest) E D) (null_at (off + tree_size codes k - 1) (D + 1))
          else ts).

  Lemma walk_list_ov : forall ks D off' oN l2 ts0 fuel,
    Forall walk_claim_ov ks ->
    at_chain dbg e tbl E rest (tr_raw ts0) (evs_list_ov codes ov (be e) D off' ks ++ null_ev oN D :: l2) ->
    r_depth (tr_raw ts0) = D -> inert D (tr_entry ts0) ->
    Forall (placed_ok_ov codes ov e tbl) (on_list (placed codes) (tree_size codes) off' ks) ->
    (length (forest_nodes ks) < fuel)%nat ->
    walk_children fuel dbg e tbl D ts0 =
    Ok (kid_trees_ov D off' ks, None,
        mkTree (tr_root ts0) (mkRaw (xbytes l2 ++ rest) E (D - 1)) (null_at oN D)).
  Proof.
    induction ks as [|k ks IH]; intros D off' oN l2 ts0 fuel Hcl Hat HD Hin Hp Hf;
      (destruct fuel as [|fuel]; [lia|]); cbn [walk_children].
    - cbn [evs_list_ov on_list app] in Hat. unfold evs_list_ov in Hat. cbn [on_list app] in Hat.
      rewrite (tree_next_read dbg e tbl E rest D ts0 _ _ (tree_fuel ts0) Hat HD Hin ltac:(unfold tree_fuel; lia)).
      cbn [bind null_ev x_die x_post null_at is_null d_tag N.eqb negb]. reflexivity.
    - apply Forall_cons_iff in Hcl. destruct Hcl as [Hk Hks].
      rewrite on_list_cons in Hp. apply Forall_app in Hp. destruct Hp as [Hpk Hpks].
      assert (Hn : node_ok codes e k).
      { rewrite placed_unfold in Hpk. inversion Hpk as [|? ? (_ & Hn & _) _]. exact Hn. }
      unfold evs_list_ov in Hat. rewrite on_list_cons in Hat.
      fold (evs_list_ov codes ov (be e) D (off' + tree_size codes k) ks) in Hat.
      rewrite evs_ov_tail in Hat. rewrite <- !app_assoc in Hat. cbn [app] in Hat.
      set (l3 := evs_list_ov codes ov (be e) D (off' + tree_size codes k) ks ++ null_ev oN D :: l2) in *.
      rewrite (tree_next_read dbg e tbl E rest D ts0 _ _ (tree_fuel ts0) Hat HD Hin ltac:(unfold tree_fuel; lia)).
      cbn [bind head_ev_ov x_die x_post]. rewrite (root_die_ov_not_null e off' D k Hn). cbn [negb tr_entry].
      destruct (at_chain_step _ _ _ _ _ _ _ _ Hat) as (_ & Hat1 & _). cbn [head_ev_ov x_post] in Hat1.
      set (t1 := mkTree (tr_root ts0) (mkRaw (xbytes (tail_ov (be e) D off' k ++ l3) ++ rest) E (post_depth D k))
                        (root_die_ov codes ov off' D k)).
      cbn [forest_nodes flat_map] in Hf. rewrite app_length in Hf.
      assert (Hnk : nodes k = k :: forest_nodes (t_kids k)) by (destruct k; reflexivity).
      rewrite Hnk in Hf. cbn [length] in Hf. change (flat_map nodes ks) with (forest_nodes ks) in Hf.
      rewrite (Hk D off' l3 t1 fuel eq_refl Hat1 eq_refl Hpk ltac:(lia)). cbn [bind].
      pose proof (at_chain_drop _ _ _ _ _ _ _ _ Hat1) as Hat2. cbn [r_depth] in Hat2. rewrite tail_ov_end_depth in Hat2.
      set (t2 := if has_children k
                 then mkTree (tr_root t1) (mkRaw (xbytes l3 ++ rest) E D) (null_at (off' + tree_size codes k - 1) (D + 1))
                 else t1).
      assert (Ht2 : tr_root t2 = tr_root ts0 /\ at_chain dbg e tbl E rest (tr_raw t2) l3 /\ r_depth (tr_raw t2) = D /\
                    inert D (tr_entry t2)).
      { unfold t2. destruct (has_children k) eqn:Hc.
        - cbn [tr_root tr_raw tr_entry t1 r_depth]. split; [reflexivity|]. split; [exact Hat2|]. split; [reflexivity|].
          right. cbn [null_at d_depth d_children]. split; [lia|reflexivity].
        - cbn [tr_root tr_raw tr_entry t1 r_depth]. unfold post_depth, tail_ov in *. rewrite Hc in *. cbn [app] in *.
          split; [reflexivity|]. split; [exact Hat1|]. split; [reflexivity|].
          right. cbn [root_die_ov d_depth d_children]. split; [lia|exact Hc]. }
      destruct Ht2 as (Hroot & Hat3 & HD3 & Hin3).
      rewrite (IH D (off' + tree_size codes k) oN l2 t2 fuel Hks Hat3 HD3 Hin3 Hpks ltac:(lia)).
      rewrite Hroot. unfold kid_trees_ov. rewrite on_list_cons. cbn [app]. rewrite dtree_ov_unfold. reflexivity.
  Qed.

  Lemma walk_tree_claim_ov : forall k, walk_claim_ov k.
  Proof.
    induction k as [tag flag items kids IH] using tree_ind'.
    set (k := Node tag flag items kids) in *.
    intros D off l2 ts fuel Hent Hat Hdep Hp Hf.
    rewrite placed_unfold in Hp. apply Forall_cons_iff in Hp. destruct Hp as [_ Hpk].
    change (t_kids k) with kids in *.
    destruct (has_children k) eqn:Hc.
    - unfold tail_ov in Hat. rewrite Hc in Hat. change (t_kids k) with kids in Hat.
      rewrite <- app_assoc in Hat. cbn [app] in Hat.
      unfold post_depth in Hdep. rewrite Hc in Hdep.
      rewrite (walk_list_ov kids (D + 1)%Z (kids_off codes off k) _ l2 ts fuel IH Hat Hdep);
        [| |exact Hpk|exact Hf].
      + replace (D + 1 - 1)%Z with D by lia. reflexivity.
      + left. rewrite Hent. cbn [root_die_ov d_depth d_children]. repeat split; [lia|exact Hc].
    - apply no_children_no_kids in Hc as Hk. change (t_kids k) with kids in Hk. subst kids.
      destruct fuel as [|fuel]; [lia|]. cbn [walk_children]. unfold tree_next.
      rewrite Hent. cbn [root_die_ov d_depth d_children].
      replace (D <? D + 1)%Z with true by lia. replace (D + 1 =? D + 1)%Z with true by lia.
      rewrite andb_false_r, Hc. cbn [negb bind]. reflexivity.
  Qed.
  End W.
End OvTree.

Lemma entries_tree_raw_any dbg h o r :
  entries_raw dbg h o = Ok r -> entries_tree dbg h o = Ok (mkTree (r_in r) r null_die).
Proof.
  unfold entries_raw, entries_tree.
  destruct (match o with Some o0 => Ok o0 | None => header_size dbg h end) as [off| | |]; cbn [bind]; try discriminate.
  destruct (range_from dbg h off) as [input| | |]; cbn [bind]; try discriminate.
  unfold raw_new. destruct (chk_add 64 dbg off (nlen input)) as [x| | |]; cbn [bind]; try discriminate.
  intros H. inversion H; subst. reflexivity.
Qed.

Section UnitOvTree.
  Variables (dbg bigend types : bool) (uoff : N) (h : uheader) (codes : coding) (ov : N -> option N)
            (t : tree) (f : list tree) (pad : nat) (tbl : abbrevs).
  Let e := unit_enc bigend h.
  Let hl := header_len h.
  Let body := enc_forest_ov codes ov bigend hl (t :: f) pad.
  Let hdr := parsed_header bigend types uoff h body.
  Hypothesis He : addr_size_ok e.
  Hypothesis Hlen : hl + nlen body < two63.
  Hypothesis Hcov : all_covered tbl codes (t :: f).
  Hypothesis Hok : forest_ok codes e (t :: f).
  Hypothesis Hfit : sibs_fit_ov codes ov hl (t :: f).

  Lemma tree_ov :
    exists ts, entries_tree dbg hdr None = Ok ts /\
               walk_tree dbg e tbl ts = Ok (Some (dtree_ov codes ov 0 hl t), None).
  Proof.
    set (l := evs_list_ov codes ov bigend 0 hl (t :: f) ++ pad_evs (hl + forest_size codes (t :: f)) 0 pad).
    assert (Hfacts : Forall (tree_facts codes ov bigend) (t :: f))
      by (apply Forall_forall; intros k _; apply evs_ov_facts).
    destruct (list_facts codes ov bigend 0 (t :: f) hl Hfacts) as (B & L & C & Ee).
    assert (Hb : xbytes l = body).
    { unfold l, body, enc_forest_ov. rewrite xbytes_app, B, pad_evs_bytes. reflexivity. }
    assert (Hp : Forall (placed_ok_ov codes ov e tbl) (on_list (placed codes) (tree_size codes) hl (t :: f))).
    { unfold all_covered in Hcov. unfold forest_ok in Hok. unfold sibs_fit_ov in Hfit.
      rewrite Forall_forall in *. intros p Hin. split; [|split].
      - apply Hcov. rewrite <- (placed_list_nodes codes (t :: f) hl). apply (in_map snd) in Hin. exact Hin.
      - apply Hok. rewrite <- (placed_list_nodes codes (t :: f) hl). apply (in_map snd) in Hin. exact Hin.
      - apply Hfit. exact Hin. }
    assert (Hev : Forall (ev_ok dbg e tbl) l).
    { unfold l. apply Forall_app. split; [|apply pad_evs_ok].
      change bigend with (be e).
      apply (evs_list_ov_ok_of codes ov dbg e tbl 0 (t :: f) hl); [|exact Hp].
      apply Forall_forall. intros k _ d o. apply evs_ov_ok. exact He. }
    assert (Hch : chain hl 0 l).
    { unfold l. apply chain_app. split; [exact C|]. rewrite Ee, L. apply pad_evs_chain. }
    pose proof (at_chain_init dbg e tbl l hl (hl + nlen body) Hev Hch ltac:(rewrite Hb; reflexivity) Hlen) as Hat.
    rewrite Hb in Hat.
    (* the first event is the root entry of t *)
    unfold l, evs_list_ov in Hat. rewrite on_list_cons, evs_ov_tail in Hat.
    fold (evs_list_ov codes ov bigend 0 (hl + tree_size codes t) f) in Hat.
    rewrite <- !app_assoc in Hat. cbn [app] in Hat. change bigend with (be e) in Hat.
    set (l2 := evs_list_ov codes ov (be e) 0 (hl + tree_size codes t) f ++ pad_evs (hl + forest_size codes (t :: f)) 0 pad) in *.
    destruct (at_chain_step _ _ _ _ _ _ _ _ Hat) as (Hr & Hat1 & _ & _ & (b0 & r0 & Eb)).
    cbn [r_in] in Eb.
    assert (Hne : body <> []) by (rewrite Eb; discriminate).
    pose proof (entries_raw_root dbg bigend types uoff h body Hlen Hne) as Hraw.
    eexists. split; [apply entries_tree_raw_any; exact Hraw|].
    cbn [r_in]. unfold walk_tree, tree_root. cbn [tr_root tr_raw r_end]. fold hl. rewrite Hr. clear Hr.
    assert (Hpt : Forall (placed_ok_ov codes ov e tbl) (placed codes hl t)).
    { rewrite on_list_cons in Hp. apply Forall_app in Hp. tauto. }
    assert (Hn : node_ok codes e t).
    { rewrite placed_unfold in Hpt. inversion Hpt as [|? ? (_ & Hn & _) _]. exact Hn. }
    cbn [head_ev_ov x_die x_post bind] in Hat1 |- *. rewrite (root_die_ov_not_null codes ov e hl 0 t Hn). cbn [negb tr_entry].
    set (t1 := mkTree _ _ _).
    rewrite (walk_tree_claim_ov codes ov dbg e tbl (hl + nlen body) [] t 0%Z hl l2 t1 _ eq_refl Hat1 eq_refl Hpt).
    - cbn [bind]. rewrite dtree_ov_unfold. change (0 + 1)%Z with 1%Z. reflexivity.
    - pose proof (nodes_le_size codes t) as Hs.
      assert (Hnk : nodes t = t :: forest_nodes (t_kids t)) by (destruct t; reflexivity).
      rewrite Hnk in Hs. cbn [length] in Hs.
      pose proof (enc_forest_ov_len codes ov bigend hl (t :: f) pad) as Hl. fold body in Hl.
      unfold enc_forest in Hl. rewrite nlen_app, enc_forest_list_len in Hl. unfold forest_size in Hl.
      cbn [map sumN fold_right] in Hl. unfold nlen in *. lia.
  Qed.
End UnitOvTree.
