"""props.py — per-property configuration of ./check: Coq target, correspondence streams, tier sizes,
claimed level and what is theorem vs explored-only. Kept in one table so MANIFEST.json can be generated."""


class Stream:
    def __init__(self, name, quick_n, thorough_n, kind='model', modes=('debug', 'release'), shards=None,
                 timeout=300, exhaustive=''):
        self.name = name
        self.quick_n = quick_n
        self.thorough_n = thorough_n
        # kind 'spec'  : the expected column is proved (in Coq) to be the spec value for every input, so a
        #                difference IS a concrete input on which the implementation fails the property;
        # kind 'model' : the expected column mirrors the code; a difference breaks the correspondence only;
        # kind 'oracle': the harness evaluates a spec-level oracle on the implementation itself
        #                (round trip, reused = fresh, scan = lookup ...); expected is the fixed token.
        self.kind = kind
        self.modes = modes
        self.shards = shards
        self.timeout = timeout
        self.exhaustive = exhaustive


class Prop:
    def __init__(self, pid, streams, level='proof', clauses=None, explored_only=None, assumptions=None,
                 trusted_extra=None, technique='', level_text='', level_note='', design_ref=''):
        self.pid = pid
        self.streams = streams
        self.level = level
        self.clauses = clauses or []
        self.explored_only = explored_only or []
        self.assumptions = assumptions or []
        self.trusted_extra = trusted_extra or []
        self.technique = technique
        self.level_text = level_text
        self.level_note = level_note
        self.design_ref = design_ref


TRUSTED_BASE = [
    'Coq 8.16.1 kernel + vm_compute (no native_compute); coqchk re-check in the thorough tier',
    'axioms: none (Print Assumptions of every property theorem must print "Closed under the global context")',
    'extraction: ExtrOcamlBasic only (bool/option/unit/list/prod/sumbool/sumor inductives, andb/orb inlined); no Extract Constant of ours',
    'ocaml/{conv,streams,s_*,main}.ml (generators, printing), harness/src/*.rs (drives the public gimli API, canonical printing, catch_unwind), check/props.py (diff, verdict, evidence), translate/*.py',
    'hand-written Gallina models mirror the Rust function by function; the tie is differential execution (both build modes) on every run',
    'rustc/cargo 1.95, OCaml 4.13.1',
]

RULE = ('cases are produced by gv-model (extracted Coq model + OCaml generators, one SplitMix64 stream from VERIF_SEED): '
        'exhaustive sub-domains first, then structured/boundary-biased random cases; every case is run on the model and on '
        'gimli built from /repo in debug (overflow checks) and release; a case is distinct by its full case line and '
        'non-trivial when its input payload is non-empty and its expected outcome is not an immediate EOF on empty input')


def nontrivial(case, expected):
    toks = case.split(' ')
    if len(toks) < 2:
        return False
    if all(t == '-' for t in toks[1:]):
        return False
    return True


def is_property_failure(kind, m):
    """Return a reason string when the mismatch is a concrete failing input for the property, else None."""
    a = m['actual']
    if a == 'panic' or a.startswith('abort') or a == 'hang':
        return 'implementation ' + a
    if 'mismatch' in a.split(' ')[0]:
        return 'spec-level oracle evaluated on the implementation failed: ' + a.split(' ')[0]
    if kind in ('spec', 'oracle'):
        return 'expected value is the proved specification value'
    return None


PROPS = {}


def reg(p):
    PROPS[p.pid] = p


reg(Prop('C09', [
    Stream('c09.uleb', 20000, 2000000, 'spec', exhaustive='all byte strings of length <= 2; runs of 6..10 continuation bytes x all 256 final bytes'),
    Stream('c09.sleb', 20000, 2000000, 'spec', exhaustive='same domain as c09.uleb'),
    Stream('c09.uleb32', 5000, 500000, 'spec'),
    Stream('c09.skipleb', 5000, 500000, 'spec'),
    Stream('c09.uleb16', 1, 1000000, 'spec', exhaustive='quick: all strings <= 2 bytes and 3-byte strings over a 48x128x256 grid; thorough: every string of length <= 3'),
    Stream('c09.wuleb', 20000, 2000000, 'spec', exhaustive='all values < 2^16, 2^k-1,2^k,2^k+1 for every k'),
    Stream('c09.wsleb', 20000, 2000000, 'spec', exhaustive='all values in [-2^15,2^15), +-(2^k-1,2^k,2^k+1)'),
    Stream('c09.fixed', 30000, 3000000, 'spec'),
    Stream('c09.sized', 10000, 1000000, 'spec', exhaustive='every size argument 0..255'),
    Stream('c09.ilen', 10000, 1000000, 'spec', exhaustive='0xffffffdf..0xffffffff'),
    Stream('c09.wdata', 10000, 1000000, 'spec', exhaustive='every size argument 0..255; boundary values per width'),
], clauses=[], design_ref='§5 C09',
    level_text='Theorems (Coq) state that the LEB128 readers return exactly the mathematical value of the unique terminated prefix and reject exactly the encodings that do not fit, for every byte string; fixed-width, sized and initial-length codecs likewise. The model is tied to the Rust by running both on ~1.8M cases per quick run (exhaustive short strings, every size argument).',
    level_note='Trusted: Coq kernel, the hand-written model (tied by differential execution only), OCaml/Rust/Python glue. usize = u64 is assumed for offsets.',
    technique='Coq proof of exact LEB128/fixed-width/initial-length codec theorems over a Gallina model + differential correspondence with gimli (debug+release)',
))

NOT_CLAIMED = {}
