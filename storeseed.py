#!/usr/bin/env python3
"""storeseed.py Cxx N 'breaks' 'needs' — file /tmp/Cxx_seedN.diff + /tmp/Cxx_seedN_demo.rs under seeded/Cxx-seedN/."""
import sys, os, shutil, json
pid, n, breaks, needs = sys.argv[1:5]
d = f'/verif/seeded/{pid}-seed{n}'
os.makedirs(d, exist_ok=True)
shutil.copy(f'/tmp/{pid}_seed{n}.diff', d + '/patch.diff')
shutil.copy(f'/tmp/{pid}_seed{n}_demo.rs', d + '/demo.rs')
json.dump({"property": pid, "breaks": breaks, "needs_to_manifest": needs,
           "produced_by": "independent sub-agent that saw only the property text and a scratch worktree of /repo (round " + (sys.argv[5] if len(sys.argv) > 5 else "2") + ": asked for subtle, off-centre changes)",
           "verification": "see verified.txt (output of ./seedverify.sh)"}, open(d + '/meta.json', 'w'), indent=1)
print(d)
