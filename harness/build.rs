// build.rs — generate the module list and dispatcher from src/c*.rs so that adding a stream family
// never needs an edit of main.rs.
use std::{env, fs, path::Path};
fn main() {
    let src = Path::new(&env::var("CARGO_MANIFEST_DIR").unwrap()).join("src");
    let mut fams: Vec<String> = fs::read_dir(&src)
        .unwrap()
        .filter_map(|e| e.ok())
        .filter_map(|e| e.file_name().into_string().ok())
        .filter(|n| n.ends_with(".rs") && n.starts_with('c') && n[1..n.len() - 3].chars().all(|c| c.is_ascii_digit()) && n.len() > 4)
        .map(|n| n[..n.len() - 3].to_string())
        .collect();
    fams.sort();
    let mut out = String::new();
    for f in &fams {
        out.push_str(&format!("#[path = {:?}] pub mod {};\n", src.join(format!("{}.rs", f)), f));
    }
    out.push_str("pub fn dispatch(toks: &[&str]) -> String {\n    let fam = toks[0].split('.').next().unwrap_or(\"\");\n    match fam {\n");
    for f in &fams {
        out.push_str(&format!("        {:?} => {}::run(toks),\n", f, f));
    }
    out.push_str("        _ => format!(\"unknown-stream {}\", toks[0]),\n    }\n}\n");
    let dest = Path::new(&env::var("OUT_DIR").unwrap()).join("dispatch.rs");
    fs::write(dest, out).unwrap();
    println!("cargo:rerun-if-changed=src");
    println!("cargo:rerun-if-changed=build.rs");
}
