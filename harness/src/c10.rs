// c10.rs — reader kinds (endian_slice.rs, endian_reader.rs, reader.rs, relocate.rs).
//
// Case:   c10.<stream> <kindmask> <be> <bufhex> (<k> <i> <arg>)*
//   kindmask bits: 1 EndianSlice, 2 EndianRcSlice, 4 EndianArcSlice, 8 EndianReader<_, CustomBuf>,
//                  16 RelocateReader<EndianSlice, identity>, 32 RelocateReader<EndianRcSlice, identity>
//   every kind starts with a pool [root]; (k i arg) is one call on pool[i]:
//    0 read_slice(arg bytes)   1 read_u{8*arg}       2 read_i{8*arg}         3 read_uint(arg)
//    4 skip(arg)               5 split(arg) ->pool   6 truncate(arg)         7 empty
//    8 find(arg as u8)         9 len                 10 is_empty             11 offset_id (printed - section ptr)
//   12 lookup_offset_id(section ptr + arg)           13 section.lookup_offset_id(self.offset_id())
//   14 offset_from(section)   15 to_slice            16 to_string            17 read_null_terminated_slice ->pool
//   18 read_address(arg)      19 read_offset(arg=8:Dwarf64)  20 read_length  21 read_sized_offset(arg)
//   22 clone ->pool           23 drop                24 offset_from(pool[arg])   25 lookup_offset_id(pool[arg].offset_id())
// Case:   c10.parse <what> <be> <flag> <addrsize> <hex>   what: 1 .debug_abbrev, 2 .debug_line, 3 DWARF expression
//   the blob is parsed under each of the six reader kinds and the dumps (values, strings, blocks as bytes,
//   error names; flag=1: also OperationIter::offset_from after an error) must be identical: `same`.
// Result: `ok tok tok ...`, one token `<result>/<off>.<len>` per call (off/len of pool[i] afterwards).
// Oracles evaluated here on the implementation alone:
//   * after every call the reader (and any returned reader) must be a zero-copy view: pointer range inside
//     the source buffer, pointer = section pointer + offset_from(section), contents = section[off..off+len],
//     to_slice borrowed and equal, section.lookup_offset_id(offset_id) = Some(off)   (`!ptr !view !copy !id` marks)
//   * all selected kinds must produce the same trace, else `kinds-mismatch ...`
//   * the custom buffer must not be dropped while a reader is alive and must be dropped afterwards
//   * the identity relocation is handed the offset of the value being read (`!reloff`)
use crate::util::*;
use gimli::{
    EndianReader, EndianSlice, Format, Reader, ReaderOffsetId, Relocate, RelocateReader,
    RunTimeEndian,
};
use std::borrow::Cow;
use std::cell::Cell;
use std::fmt::Debug;
use std::ops::Deref;
use std::panic::{catch_unwind, AssertUnwindSafe};
use std::rc::Rc;
use std::sync::Arc;

pub trait K: Reader<Offset = usize> {
    fn raw(&self) -> &[u8];
}
impl<'a> K for EndianSlice<'a, RunTimeEndian> {
    fn raw(&self) -> &[u8] {
        self.slice()
    }
}
impl<T> K for EndianReader<RunTimeEndian, T>
where
    T: gimli::CloneStableDeref<Target = [u8]> + Debug,
{
    fn raw(&self) -> &[u8] {
        self.bytes()
    }
}
impl<R: K> K for RelocateReader<R, IdReloc> {
    fn raw(&self) -> &[u8] {
        self.inner().raw()
    }
}

/// identity relocation that remembers the offset it was last asked about
#[derive(Debug, Clone)]
pub struct IdReloc {
    last: Rc<Cell<Option<usize>>>,
}
impl Relocate<usize> for IdReloc {
    fn relocate_address(&self, offset: usize, value: u64) -> gimli::Result<u64> {
        self.last.set(Some(offset));
        Ok(value)
    }
    fn relocate_offset(&self, offset: usize, value: usize) -> gimli::Result<usize> {
        self.last.set(Some(offset));
        Ok(value)
    }
}

#[derive(Debug)]
struct Owner {
    data: Vec<u8>,
    freed: Rc<Cell<bool>>,
}
impl Drop for Owner {
    fn drop(&mut self) {
        self.freed.set(true);
    }
}
#[derive(Debug, Clone)]
struct CustomBuf(Rc<Owner>);
impl Deref for CustomBuf {
    type Target = [u8];
    fn deref(&self) -> &[u8] {
        &self.0.data
    }
}
unsafe impl gimli::StableDeref for CustomBuf {}
unsafe impl gimli::CloneStableDeref for CustomBuf {}

struct Cx<'a> {
    data: &'a [u8],  // contents of the section (a separate copy)
    sec_ptr: usize,  // address of the section bytes this kind reads from
    freed: Option<Rc<Cell<bool>>>,
    probe: Option<Rc<Cell<Option<usize>>>>,
}

fn obs<R: K>(cx: &Cx, section: &R, r: &R) -> String {
    let len = r.len();
    let off = catch_unwind(AssertUnwindSafe(|| r.offset_from(section)));
    let mut s = match off {
        Ok(o) => format!("{}.{}", o, len),
        Err(_) => format!("P.{}", len),
    };
    let raw = r.raw();
    let p = raw.as_ptr() as usize;
    if raw.len() != len {
        s.push_str("!len");
    }
    let inside = cx.sec_ptr <= p && p.wrapping_add(raw.len()) <= cx.sec_ptr + cx.data.len()
        && p.wrapping_add(raw.len()) >= p;
    if !inside {
        s.push_str("!ptr");
    } else {
        let o = p - cx.sec_ptr;
        if off.as_ref().ok() != Some(&o) {
            s.push_str("!ptr");
        }
        if raw != &cx.data[o..o + raw.len()] {
            s.push_str("!view");
        }
    }
    match r.to_slice() {
        Ok(Cow::Borrowed(b)) if b.as_ptr() == raw.as_ptr() && b.len() == raw.len() => {}
        _ => s.push_str("!copy"),
    }
    match r.to_string_lossy() {
        Ok(l) if l == String::from_utf8_lossy(raw) => {}
        _ => s.push_str("!lossy"),
    }
    if let Ok(o) = off {
        if section.lookup_offset_id(r.offset_id()) != Some(o) {
            s.push_str("!id");
        }
    }
    if let Some(f) = &cx.freed {
        if f.get() {
            s.push_str("!freed");
        }
    }
    s
}

fn e<T>(r: gimli::Result<T>, f: impl FnOnce(T) -> String) -> String {
    match r {
        Ok(v) => f(v),
        Err(x) => format!("E{}", errname(&x)),
    }
}
fn opt(o: Option<usize>) -> String {
    match o {
        Some(k) => format!("s{}", k),
        None => "none".into(),
    }
}
fn fmt_of(arg: u64) -> Format {
    if arg == 8 {
        Format::Dwarf64
    } else {
        Format::Dwarf32
    }
}

type Op = (u32, usize, u64);

/// one call; returns the result token (without the trailing observation)
fn call<R: K>(cx: &Cx, section: &R, pool: &mut Vec<R>, op: Op) -> String {
    let (k, i, arg) = op;
    if i >= pool.len() {
        return "x".into();
    }
    let n = arg as usize;
    match k {
        0 => {
            let mut b = vec![0u8; n.min(1 << 16)];
            e(pool[i].read_slice(&mut b), |_| format!("b{}", tohex(&b)))
        }
        1 => match arg {
            1 => e(pool[i].read_u8(), |v| format!("n{}", v)),
            2 => e(pool[i].read_u16(), |v| format!("n{}", v)),
            4 => e(pool[i].read_u32(), |v| format!("n{}", v)),
            8 => e(pool[i].read_u64(), |v| format!("n{}", v)),
            16 => e(pool[i].read_u128(), |v| format!("n{}", v)),
            _ => "badop".into(),
        },
        2 => match arg {
            1 => e(pool[i].read_i8(), |v| format!("i{}", v)),
            2 => e(pool[i].read_i16(), |v| format!("i{}", v)),
            4 => e(pool[i].read_i32(), |v| format!("i{}", v)),
            8 => e(pool[i].read_i64(), |v| format!("i{}", v)),
            _ => "badop".into(),
        },
        3 => e(pool[i].read_uint(n), |v| format!("n{}", v)),
        4 => e(pool[i].skip(n), |_| "u".into()),
        5 => match pool[i].split(n) {
            Ok(r) => {
                let s = format!("r{}", obs(cx, section, &r));
                pool.push(r);
                s
            }
            Err(x) => format!("E{}", errname(&x)),
        },
        6 => e(pool[i].truncate(n), |_| "u".into()),
        7 => {
            pool[i].empty();
            "u".into()
        }
        8 => e(pool[i].find(arg as u8), |v| format!("n{}", v)),
        9 => format!("n{}", pool[i].len()),
        10 => (if pool[i].is_empty() { "t" } else { "f" }).into(),
        11 => format!("n{}", pool[i].offset_id().0.wrapping_sub(cx.sec_ptr as u64)),
        12 => opt(pool[i].lookup_offset_id(ReaderOffsetId((cx.sec_ptr as u64).wrapping_add(arg)))),
        13 => opt(section.lookup_offset_id(pool[i].offset_id())),
        14 => format!("n{}", pool[i].offset_from(section)),
        15 => e(pool[i].to_slice(), |c| format!("b{}", tohex(&c))),
        16 => e(pool[i].to_string(), |c| format!("b{}", tohex(c.as_bytes()))),
        17 => match pool[i].read_null_terminated_slice() {
            Ok(r) => {
                let s = format!("r{}", obs(cx, section, &r));
                pool.push(r);
                s
            }
            Err(x) => format!("E{}", errname(&x)),
        },
        18 | 19 | 21 => {
            let before = catch_unwind(AssertUnwindSafe(|| pool[i].offset_from(section))).ok();
            if let Some(p) = &cx.probe {
                p.set(None);
            }
            let r = match k {
                18 => pool[i].read_address(arg as u8),
                19 => pool[i].read_offset(fmt_of(arg)).map(|x| x as u64),
                _ => pool[i].read_sized_offset(arg as u8).map(|x| x as u64),
            };
            let mut s = e(r, |v| format!("n{}", v));
            if let Some(p) = &cx.probe {
                if r.is_ok() && p.get() != before {
                    s.push_str("!reloff");
                }
            }
            s
        }
        20 => e(pool[i].read_length(fmt_of(arg)), |v| format!("n{}", v)),
        22 => {
            let r = pool[i].clone();
            let s = format!("r{}", obs(cx, section, &r));
            pool.push(r);
            s
        }
        23 => {
            drop(pool.remove(i));
            "u".into()
        }
        24 => {
            if n >= pool.len() {
                return "x".into();
            }
            format!("n{}", pool[i].offset_from(&pool[n]))
        }
        25 => {
            if n >= pool.len() {
                return "x".into();
            }
            opt(pool[i].lookup_offset_id(pool[n].offset_id()))
        }
        _ => "badop".into(),
    }
}

fn run_kind<R: K>(cx: &Cx, root: R, ops: &[Op]) -> Vec<String> {
    let section = root.clone();
    let mut pool = vec![root];
    let mut out = Vec::with_capacity(ops.len());
    for &op in ops {
        let r = catch_unwind(AssertUnwindSafe(|| call(cx, &section, &mut pool, op)));
        let mut tok = match r {
            Ok(s) => s,
            Err(_) => "P".to_string(),
        };
        if tok != "x" && op.0 != 23 && op.1 < pool.len() {
            tok.push('/');
            tok.push_str(&obs(cx, &section, &pool[op.1]));
        }
        out.push(tok);
    }
    out
}

pub fn run(t: &[&str]) -> String {
    if t[0] == "c10.parse" {
        return run_parse(t);
    }
    let mask: u32 = t[1].parse().unwrap();
    let endian = endian(t[2]);
    let data = hex(t[3]);
    let mut ops: Vec<Op> = Vec::new();
    let mut j = 4;
    while j + 2 < t.len() {
        ops.push((t[j].parse().unwrap(), t[j + 1].parse().unwrap(), u(t[j + 2])));
        j += 3;
    }
    let mut traces: Vec<(&'static str, Vec<String>)> = Vec::new();
    // reference-counted kinds first: they are the reference in a kinds-mismatch report
    if mask & 2 != 0 {
        let rc: Rc<[u8]> = Rc::from(&data[..]);
        let cx = Cx { data: &data, sec_ptr: rc.as_ptr() as usize, freed: None, probe: None };
        traces.push(("rc", run_kind(&cx, EndianReader::new(rc, endian), &ops)));
    }
    if mask & 4 != 0 {
        let arc: Arc<[u8]> = Arc::from(&data[..]);
        let cx = Cx { data: &data, sec_ptr: arc.as_ptr() as usize, freed: None, probe: None };
        traces.push(("arc", run_kind(&cx, EndianReader::new(arc, endian), &ops)));
    }
    if mask & 8 != 0 {
        let freed = Rc::new(Cell::new(false));
        let buf = CustomBuf(Rc::new(Owner { data: data.clone(), freed: freed.clone() }));
        let cx = Cx { data: &data, sec_ptr: buf.as_ptr() as usize, freed: Some(freed.clone()), probe: None };
        let mut tr = run_kind(&cx, EndianReader::new(buf, endian), &ops);
        if !freed.get() {
            if let Some(l) = tr.last_mut() {
                l.push_str("!leak");
            }
        }
        traces.push(("custom", tr));
    }
    if mask & 32 != 0 {
        let rc: Rc<[u8]> = Rc::from(&data[..]);
        let probe = Rc::new(Cell::new(None));
        let cx = Cx { data: &data, sec_ptr: rc.as_ptr() as usize, freed: None, probe: Some(probe.clone()) };
        let rd = RelocateReader::new(EndianReader::new(rc, endian), IdReloc { last: probe });
        traces.push(("rrc", run_kind(&cx, rd, &ops)));
    }
    let copy = data.clone(); // the borrowed kinds read from their own allocation
    if mask & 1 != 0 {
        let cx = Cx { data: &data, sec_ptr: copy.as_ptr() as usize, freed: None, probe: None };
        traces.push(("slice", run_kind(&cx, EndianSlice::new(&copy, endian), &ops)));
    }
    if mask & 16 != 0 {
        let probe = Rc::new(Cell::new(None));
        let cx = Cx { data: &data, sec_ptr: copy.as_ptr() as usize, freed: None, probe: Some(probe.clone()) };
        let rd = RelocateReader::new(EndianSlice::new(&copy, endian), IdReloc { last: probe });
        traces.push(("rslice", run_kind(&cx, rd, &ops)));
    }
    if traces.is_empty() {
        return "badmask".into();
    }
    let (_, reference) = &traces[0];
    for s in 0..ops.len() {
        for (name, tr) in &traces[1..] {
            if tr[s] != reference[s] {
                return format!(
                    "kinds-mismatch step={} op={} {}={} {}={}",
                    s, ops[s].0, name, tr[s], traces[0].0, reference[s]
                );
            }
        }
    }
    // every kind agrees; an oracle mark (`!ptr !view !copy !id !len !lossy !freed !leak !reloff`) is a failure
    // of the zero-copy-view oracle on the implementation itself
    for (s, tok) in reference.iter().enumerate() {
        if tok.contains('!') {
            return format!("view-mismatch step={} op={} {}", s, ops[s].0, tok);
        }
    }
    let mut line = String::from("ok");
    for tok in reference {
        line.push(' ');
        line.push_str(tok);
    }
    line
}

// ------------------------------------------------------------------ whole-section parses under every kind
trait Job {
    fn go<R: K>(&self, r: R) -> String;
}

fn hexr<R: K>(r: &R) -> String {
    match r.to_slice() {
        Ok(c) => tohex(&c),
        Err(x) => err(&x),
    }
}

fn attr_bytes<R: K>(a: &gimli::AttributeValue<R>) -> String {
    match a {
        gimli::AttributeValue::String(r) => format!("s{}", hexr(r)),
        gimli::AttributeValue::Block(r) => format!("b{}", hexr(r)),
        gimli::AttributeValue::Udata(v) => format!("u{}", v),
        gimli::AttributeValue::Data1(v) => format!("u{}", v),
        gimli::AttributeValue::Data2(v) => format!("u{}", v),
        gimli::AttributeValue::Data4(v) => format!("u{}", v),
        gimli::AttributeValue::Data8(v) => format!("u{}", v),
        _ => "other".into(),
    }
}

struct AbbrevJob;
impl Job for AbbrevJob {
    fn go<R: K>(&self, r: R) -> String {
        let da = gimli::DebugAbbrev::from(r);
        match da.abbreviations(gimli::DebugAbbrevOffset(0)) {
            Err(x) => err(&x),
            Ok(ab) => {
                let mut s = String::from("ok");
                for code in 0..=48u64 {
                    if let Some(a) = ab.get(code) {
                        s.push_str(&format!(" [{} {} {}", a.code(), a.tag().0, a.has_children()));
                        for at in a.attributes() {
                            s.push_str(&format!(" {}:{}:{:?}", at.name().0, at.form().0, at.implicit_const_value()));
                        }
                        s.push(']');
                    }
                }
                s
            }
        }
    }
}

struct LineJob {
    address_size: u8,
}
impl Job for LineJob {
    fn go<R: K>(&self, r: R) -> String {
        let dl = gimli::DebugLine::from(r);
        let prog = match dl.program(gimli::DebugLineOffset(0), self.address_size, None, None) {
            Ok(p) => p,
            Err(x) => return err(&x),
        };
        let mut s = String::from("ok");
        {
            let h = prog.header();
            s.push_str(&format!(
                " v{} {} {} {} {} {} {}",
                h.version(),
                h.minimum_instruction_length(),
                h.maximum_operations_per_instruction(),
                h.default_is_stmt(),
                h.line_base(),
                h.line_range(),
                h.opcode_base()
            ));
            s.push_str(&format!(" L{}", tohex(h.standard_opcode_lengths().raw())));
            for d in h.include_directories() {
                s.push_str(&format!(" d{}", attr_bytes(d)));
            }
            for f in h.file_names() {
                s.push_str(&format!(" f{}:{}:{}:{}", attr_bytes(&f.path_name()), f.directory_index(), f.timestamp(), f.size()));
            }
            s.push_str(&format!(" P{}", hexr(&h.raw_program_buf())));
            let mut ins = h.instructions();
            loop {
                match ins.next_instruction(h) {
                    Ok(Some(i)) => match i {
                        gimli::LineInstruction::UnknownExtended(op, r) => s.push_str(&format!(" X{}:{}", op.0, hexr(&r))),
                        gimli::LineInstruction::DefineFile(f) => s.push_str(&format!(
                            " F{}:{}:{}:{}",
                            attr_bytes(&f.path_name()), f.directory_index(), f.timestamp(), f.size()
                        )),
                        gimli::LineInstruction::UnknownStandardN(op, r) => s.push_str(&format!(" N{}:{}", op.0, hexr(&r))),
                        other => s.push_str(&format!(" {:?}", other).replace(' ', "")),
                    },
                    Ok(None) => break,
                    Err(x) => {
                        s.push_str(&format!(" {}", err(&x).replace(' ', "-")));
                        break;
                    }
                }
            }
        }
        let mut rows = prog.rows();
        loop {
            match rows.next_row() {
                Ok(Some((_, row))) => s.push_str(&format!(
                    " ({:x} {} {} {:?} {:?} {} {} {} {})",
                    row.address(), row.op_index(), row.file_index(), row.line().map(|l| l.get()),
                    row.column(), row.is_stmt(), row.basic_block(), row.end_sequence(), row.discriminator()
                )),
                Ok(None) => break,
                Err(x) => {
                    s.push_str(&format!(" {}", err(&x).replace(' ', "-")));
                    break;
                }
            }
        }
        s
    }
}

struct ExprJob {
    encoding: gimli::Encoding,
    after_error: bool,
}
impl Job for ExprJob {
    fn go<R: K>(&self, r: R) -> String {
        let expr = gimli::Expression(r);
        let mut it = expr.clone().operations(self.encoding);
        let mut s = String::from("ok");
        loop {
            match it.next() {
                Ok(Some(op)) => {
                    let d = match &op {
                        gimli::Operation::ImplicitValue { data } => format!("ImplicitValue:{}", hexr(data)),
                        gimli::Operation::EntryValue { expression } => format!("EntryValue:{}", hexr(expression)),
                        gimli::Operation::TypedLiteral { base_type, value } => {
                            format!("TypedLiteral:{}:{}", base_type.0, hexr(value))
                        }
                        other => format!("{:?}", other).replace(' ', ""),
                    };
                    s.push_str(&format!(" {}@{}", d, it.offset_from(&expr)));
                }
                Ok(None) => break,
                Err(x) => {
                    s.push_str(&format!(" E{}", errname(&x)));
                    if self.after_error {
                        // public API: where did the iterator stop?
                        match catch_unwind(AssertUnwindSafe(|| it.offset_from(&expr))) {
                            Ok(o) => s.push_str(&format!(" @{}", o)),
                            Err(_) => s.push_str(" @P"),
                        }
                    }
                    break;
                }
            }
        }
        s
    }
}

fn guarded<J: Job, R: K>(job: &J, r: R) -> String {
    match catch_unwind(AssertUnwindSafe(|| job.go(r))) {
        Ok(s) => s,
        Err(_) => "panic".into(),
    }
}

fn all_kinds<J: Job>(data: &[u8], endian: RunTimeEndian, job: &J) -> Vec<(&'static str, String)> {
    let mut v = Vec::new();
    let rc: Rc<[u8]> = Rc::from(data);
    v.push(("rc", guarded(job, EndianReader::new(rc.clone(), endian))));
    let arc: Arc<[u8]> = Arc::from(data);
    v.push(("arc", guarded(job, EndianReader::new(arc, endian))));
    let freed = Rc::new(Cell::new(false));
    let buf = CustomBuf(Rc::new(Owner { data: data.to_vec(), freed: freed.clone() }));
    let mut c = guarded(job, EndianReader::new(buf, endian));
    if !freed.get() {
        c.push_str(" !leak");
    }
    v.push(("custom", c));
    let probe = Rc::new(Cell::new(None));
    v.push(("rrc", guarded(job, RelocateReader::new(EndianReader::new(rc, endian), IdReloc { last: probe.clone() }))));
    v.push(("slice", guarded(job, EndianSlice::new(data, endian))));
    v.push(("rslice", guarded(job, RelocateReader::new(EndianSlice::new(data, endian), IdReloc { last: probe }))));
    v
}

fn run_parse(t: &[&str]) -> String {
    let what: u32 = t[1].parse().unwrap();
    let endian = endian(t[2]);
    let flag = t[3] == "1";
    let address_size: u8 = t[4].parse().unwrap();
    let data = hex(t[5]);
    let dumps = match what {
        1 => all_kinds(&data, endian, &AbbrevJob),
        2 => all_kinds(&data, endian, &LineJob { address_size }),
        3 => all_kinds(
            &data,
            endian,
            &ExprJob {
                encoding: gimli::Encoding { format: Format::Dwarf32, version: 5, address_size },
                after_error: flag,
            },
        ),
        _ => return "badop".into(),
    };
    if std::env::var_os("GV_C10_DUMP").is_some() {
        return dumps[0].1.clone();
    }
    let (rname, reference) = &dumps[0];
    for (name, d) in &dumps[1..] {
        if d != reference {
            // first differing token
            let a: Vec<&str> = d.split(' ').collect();
            let b: Vec<&str> = reference.split(' ').collect();
            let mut k = 0;
            while k < a.len() && k < b.len() && a[k] == b[k] {
                k += 1;
            }
            return format!(
                "kinds-mismatch tok={} {}={} {}={}",
                k, name, a.get(k).unwrap_or(&"<end>"), rname, b.get(k).unwrap_or(&"<end>")
            );
        }
    }
    "same".into()
}
