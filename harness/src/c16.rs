// c16.rs — written range / location lists (write/range.rs, write/loc.rs, write/unit.rs) through the public API:
// build write::Unit(s) with DW_AT_ranges / DW_AT_location attributes referring to lists added with
// unit.ranges.add / unit.locations.add, write all sections, print the four list sections and the offset every
// added list was given (read from the DIE attributes), and evaluate the spec-level oracles on gimli itself:
//   readback-mismatch  read::Dwarf::{attr_ranges_offset+ranges, attr_locations_offset+locations} on the written
//                      sections must yield the meaning of the written list (EXPECT tokens of the case line =
//                      ListWrSpec.meaning_* relative to the unit base address);
//   dedup-mismatch     equal lists added to one unit must get equal offsets.
// Case grammar: see ocaml/s_c16.ml.
use crate::util::*;
use gimli::write::{
    self, Address, AttributeValue, EndianVec, Expression, LineProgram, Location, LocationList, Range,
    RangeList, Sections, Unit,
};
use gimli::{constants, read, Encoding, EndianSlice, Format, RunTimeEndian};

struct Tok<'a> {
    t: &'a [&'a str],
    i: usize,
}
impl<'a> Tok<'a> {
    fn s(&mut self) -> &'a str {
        let x = self.t.get(self.i).copied().unwrap_or("0");
        self.i += 1;
        x
    }
    fn u(&mut self) -> u64 {
        u(self.s())
    }
    fn n(&mut self) -> usize {
        self.s().parse::<usize>().unwrap()
    }
    fn addr(&mut self) -> Address {
        let s = self.u();
        if s == 0 {
            Address::Constant(self.u())
        } else {
            Address::Symbol { symbol: (s - 1) as usize, addend: i(self.s()) }
        }
    }
    fn expr(&mut self) -> Expression {
        Expression::raw(hex(self.s()))
    }
}

struct UnitIn {
    version: u16,
    asz: u8,
    rl: Vec<RangeList>,
    ll: Vec<LocationList>,
}

fn ones(asz: u8) -> u64 {
    if asz >= 8 { !0 } else { (1u64 << (8 * asz as u32)) - 1 }
}

fn clash_r(l: &RangeList, asz: u8) -> bool {
    l.0.iter().any(|r| match *r {
        Range::OffsetPair { begin, .. } => begin == ones(asz),
        Range::StartEnd { begin: Address::Constant(b), .. } => b == ones(asz),
        Range::StartLength { begin: Address::Constant(b), .. } => b == ones(asz),
        _ => false,
    })
}
fn clash_l(l: &LocationList, asz: u8) -> bool {
    l.0.iter().any(|r| match *r {
        Location::OffsetPair { begin, .. } => begin == ones(asz),
        Location::StartEnd { begin: Address::Constant(b), .. } => b == ones(asz),
        Location::StartLength { begin: Address::Constant(b), .. } => b == ones(asz),
        _ => false,
    })
}

// which documented input family a panicking case belongs to (pre-v5 writers only)
fn panic_class(units: &[UnitIn]) -> &'static str {
    let sl_overflow = |b: &Address, len: u64| match *b {
        Address::Constant(v) => v.checked_add(len).is_none(),
        Address::Symbol { addend, .. } => addend.checked_add(len as i64).is_none(),
    };
    let mut sl = false;
    let mut shift = false;
    for u in units {
        if !(2..=4).contains(&u.version) {
            continue;
        }
        for l in &u.rl {
            for r in &l.0 {
                match r {
                    Range::StartLength { begin, length } if sl_overflow(begin, *length) => sl = true,
                    Range::BaseAddress { .. } if u.asz == 0 || u.asz > 8 => shift = true,
                    _ => {}
                }
            }
        }
        for l in &u.ll {
            for r in &l.0 {
                match r {
                    Location::StartLength { begin, length, .. } if sl_overflow(begin, *length) => sl = true,
                    Location::BaseAddress { .. } if u.asz == 0 || u.asz > 8 => shift = true,
                    _ => {}
                }
            }
        }
    }
    match (sl, shift) {
        (true, false) => "startlength-overflow",
        (false, true) => "marker-shift",
        (true, true) => "startlength-overflow+marker-shift",
        _ => "other",
    }
}

#[path = "c16_refs.rs"]
mod refs;

pub fn run(t: &[&str]) -> String {
    let stream = t[0];
    if stream == "c16.refs" {
        return refs::run(t);
    }
    let mut k = Tok { t, i: 1 };
    let endian = endian(k.s());
    let nunits = k.n();
    let mut dwarf = write::Dwarf::new();
    let mut units: Vec<UnitIn> = Vec::new();
    for _ in 0..nunits {
        let version = k.u() as u16;
        let format = if k.u() == 1 { Format::Dwarf64 } else { Format::Dwarf32 };
        let asz = k.u() as u8;
        let encoding = Encoding { format, version, address_size: asz };
        let uid = dwarf.units.add(Unit::new(encoding, LineProgram::none()));
        let unit = dwarf.units.get_mut(uid);
        let root = unit.root();
        let lpkind = k.u();
        match lpkind {
            1 => {
                let a = k.addr();
                unit.get_mut(root).set(constants::DW_AT_low_pc, AttributeValue::Address(a));
            }
            2 => {
                k.s();
                let v = k.u();
                unit.get_mut(root).set(constants::DW_AT_low_pc, AttributeValue::Udata(v));
            }
            _ => {
                k.s();
                k.s();
            }
        }
        let mut rl = Vec::new();
        let nr = k.n();
        for _ in 0..nr {
            let n = k.n();
            let mut v = Vec::with_capacity(n);
            for _ in 0..n {
                v.push(match k.u() {
                    0 => Range::BaseAddress { address: k.addr() },
                    1 => {
                        let begin = k.u();
                        let end = k.u();
                        Range::OffsetPair { begin, end }
                    }
                    2 => {
                        let begin = k.addr();
                        let end = k.addr();
                        Range::StartEnd { begin, end }
                    }
                    _ => {
                        let begin = k.addr();
                        let length = k.u();
                        Range::StartLength { begin, length }
                    }
                });
            }
            let list = RangeList(v);
            let id = unit.ranges.add(list.clone());
            let die = unit.add(root, constants::DW_TAG_lexical_block);
            unit.get_mut(die).set(constants::DW_AT_ranges, AttributeValue::RangeListRef(id));
            rl.push(list);
        }
        let mut ll = Vec::new();
        let nl = k.n();
        for _ in 0..nl {
            let n = k.n();
            let mut v = Vec::with_capacity(n);
            for _ in 0..n {
                v.push(match k.u() {
                    0 => Location::BaseAddress { address: k.addr() },
                    1 => {
                        let begin = k.u();
                        let end = k.u();
                        Location::OffsetPair { begin, end, data: k.expr() }
                    }
                    2 => {
                        let begin = k.addr();
                        let end = k.addr();
                        Location::StartEnd { begin, end, data: k.expr() }
                    }
                    3 => {
                        let begin = k.addr();
                        let length = k.u();
                        Location::StartLength { begin, length, data: k.expr() }
                    }
                    _ => Location::DefaultLocation { data: k.expr() },
                });
            }
            let list = LocationList(v);
            let id = unit.locations.add(list.clone());
            let die = unit.add(root, constants::DW_TAG_variable);
            unit.get_mut(die).set(constants::DW_AT_location, AttributeValue::LocationListRef(id));
            ll.push(list);
        }
        units.push(UnitIn { version, asz, rl, ll });
    }

    let mut sections = Sections::new(EndianVec::new(endian));
    if stream == "c16.nopanic" {
        // no-panic oracle: classify a panic by the input family so that known findings stay narrow
        let r = std::panic::catch_unwind(std::panic::AssertUnwindSafe(|| {
            let _ = dwarf.write(&mut sections);
        }));
        return match r {
            Ok(()) => "nopanic".to_string(),
            Err(_) => format!("panic-mismatch {}", panic_class(&units)),
        };
    }
    let res = dwarf.write(&mut sections);
    if let Err(e) = res {
        return err(&e);
    }
    let head = format!(
        "ok {} {} {} {}",
        tohex(sections.debug_ranges.slice()),
        tohex(sections.debug_rnglists.slice()),
        tohex(sections.debug_loc.slice()),
        tohex(sections.debug_loclists.slice())
    );
    // spec-level oracle on the DWARF 5 section headers (DWARF 5 section 7.28/7.29): the contributions tile the
    // section exactly, version 5, segment selector size 0, offset entry count 0
    for (name, bytes) in [
        ("rnglists", sections.debug_rnglists.slice()),
        ("loclists", sections.debug_loclists.slice()),
    ] {
        if let Some(why) = bad_v5_headers(bytes, endian, &units) {
            return format!("header-mismatch {} {}", name, why);
        }
    }
    // units with an address size the reader refuses cannot be read back at all
    if units.iter().any(|u| !matches!(u.asz, 1 | 2 | 4 | 8)) {
        return head;
    }
    match readback(&sections, endian, &units, &mut k) {
        Ok(offs) => {
            let mut s = head;
            for o in offs {
                s.push_str(&format!(" {}", o));
            }
            s
        }
        Err(m) => m,
    }
}

type Rd<'a> = EndianSlice<'a, RunTimeEndian>;

fn bad_v5_headers(bytes: &[u8], endian: RunTimeEndian, units: &[UnitIn]) -> Option<String> {
    use gimli::Reader;
    let mut r = EndianSlice::new(bytes, endian);
    while !r.is_empty() {
        let (len, format) = match r.read_initial_length() {
            Ok(x) => x,
            Err(e) => return Some(format!("initial-length {}", errname(&e))),
        };
        if len > r.len() {
            return Some(format!("unit_length {} exceeds the remaining {} bytes", len, r.len()));
        }
        let mut body = match r.split(len) {
            Ok(b) => b,
            Err(e) => return Some(errname(&e)),
        };
        let _ = format;
        let version = body.read_u16().unwrap_or(0);
        let asz = body.read_u8().unwrap_or(0);
        let seg = body.read_u8().unwrap_or(1);
        let count = body.read_u32().unwrap_or(1);
        if version != 5 || seg != 0 || count != 0 || !units.iter().any(|u| u.version == 5 && u.asz == asz) {
            return Some(format!("version={} address_size={} segment_selector_size={} offset_entry_count={}", version, asz, seg, count));
        }
    }
    None
}

fn readback(
    sections: &Sections<EndianVec<RunTimeEndian>>,
    endian: RunTimeEndian,
    units: &[UnitIn],
    k: &mut Tok,
) -> Result<Vec<u64>, String> {
    let rerr = |what: &str, e: gimli::Error| format!("readback-mismatch reader-error {} {}", what, errname(&e));
    let dwarf: read::Dwarf<Rd> = read::Dwarf::load(|id| -> Result<Rd, gimli::Error> {
        Ok(EndianSlice::new(sections.get(id).map(|w| w.slice()).unwrap_or(&[]), endian))
    })
    .map_err(|e| rerr("load", e))?;
    let mut offs = Vec::new();
    let mut iter = dwarf.units();
    for (ui, uin) in units.iter().enumerate() {
        let header = iter.next().map_err(|e| rerr("units", e))?.ok_or_else(|| format!("readback-mismatch missing-unit {}", ui))?;
        let unit = dwarf.unit(header).map_err(|e| rerr("unit", e))?;
        let mut cursor = unit.entries();
        cursor.next_dfs().map_err(|e| rerr("root", e))?;
        let mut roffs = Vec::new();
        for (li, list) in uin.rl.iter().enumerate() {
            cursor.next_dfs().map_err(|e| rerr("die", e))?;
            let die = cursor.current().ok_or_else(|| "readback-mismatch missing-die".to_string())?;
            let attr = die.attr(constants::DW_AT_ranges).ok_or_else(|| "readback-mismatch missing-attr".to_string())?;
            let off = dwarf
                .attr_ranges_offset(&unit, attr.value())
                .map_err(|e| rerr("attr_ranges_offset", e))?
                .ok_or_else(|| format!("readback-mismatch not-a-rangelist-ref {:?}", attr.value()))?;
            roffs.push(off.0 as u64);
            // what the spec says this list means
            let cnt = k.n();
            let mut want = Vec::new();
            for _ in 0..cnt {
                let b = k.u();
                let e = k.u();
                want.push((b, e));
            }
            let class = if uin.version <= 4 && clash_r(list, uin.asz) { "marker" } else { "other" };
            let mut got = Vec::new();
            let mut it = dwarf.ranges(&unit, off).map_err(|e| rerr("ranges", e))?;
            loop {
                match it.next() {
                    Ok(Some(r)) => got.push((r.begin, r.end)),
                    Ok(None) => break,
                    Err(e) => return Err(format!("readback-mismatch {} unit={} rlist={} reader-error {}", class, ui, li, errname(&e))),
                }
            }
            if got != want {
                return Err(format!("readback-mismatch {} unit={} rlist={} got={:x?} want={:x?}", class, ui, li, got, want));
            }
        }
        let mut loffs = Vec::new();
        for (li, list) in uin.ll.iter().enumerate() {
            cursor.next_dfs().map_err(|e| rerr("die", e))?;
            let die = cursor.current().ok_or_else(|| "readback-mismatch missing-die".to_string())?;
            let attr = die.attr(constants::DW_AT_location).ok_or_else(|| "readback-mismatch missing-attr".to_string())?;
            let off = dwarf
                .attr_locations_offset(&unit, attr.value())
                .map_err(|e| rerr("attr_locations_offset", e))?
                .ok_or_else(|| format!("readback-mismatch not-a-loclist-ref {:?}", attr.value()))?;
            loffs.push(off.0 as u64);
            let cnt = k.n();
            let mut want = Vec::new();
            for _ in 0..cnt {
                let b = k.u();
                let e = k.u();
                let d = hex(k.s());
                want.push((b, e, d));
            }
            let class = if uin.version <= 4 && clash_l(list, uin.asz) { "marker" } else { "other" };
            let mut got = Vec::new();
            let mut it = dwarf.locations(&unit, off).map_err(|e| rerr("locations", e))?;
            loop {
                match it.next() {
                    Ok(Some(r)) => got.push((r.range.begin, r.range.end, r.data.0.slice().to_vec())),
                    Ok(None) => break,
                    Err(e) => return Err(format!("readback-mismatch {} unit={} llist={} reader-error {}", class, ui, li, errname(&e))),
                }
            }
            if got != want {
                return Err(format!("readback-mismatch {} unit={} llist={} got={:x?} want={:x?}", class, ui, li, got, want));
            }
        }
        // equal lists share one identifier and one emitted copy
        for a in 0..uin.rl.len() {
            for b in 0..a {
                if (uin.rl[a] == uin.rl[b]) != (roffs[a] == roffs[b]) {
                    return Err(format!("dedup-mismatch unit={} rlists {} {} offsets {} {}", ui, b, a, roffs[b], roffs[a]));
                }
            }
        }
        for a in 0..uin.ll.len() {
            for b in 0..a {
                if (uin.ll[a] == uin.ll[b]) != (loffs[a] == loffs[b]) {
                    return Err(format!("dedup-mismatch unit={} llists {} {} offsets {} {}", ui, b, a, loffs[b], loffs[a]));
                }
            }
        }
        offs.extend(roffs);
        offs.extend(loffs);
    }
    Ok(offs)
}
