// c05.rs — CIE/FDE decoding and address lookup (src/read/cfi.rs, DwEhPe in src/constants.rs).
// Only gimli's public API is used. The bytes left in a private reader field (instruction blobs,
// the .eh_frame_hdr table) are observed through the derived `Debug` output of the owning struct,
// which prints `EndianSlice(<endian>, [first <= 8 bytes; total length])`.
use crate::util::*;
use gimli::constants::DwEhPe;
use crate::c06::{fmt_row, with_fresh_ctx, S1x1, S2x3, S4x192, S8x256, SVec};
use gimli::{
    BaseAddresses, CallFrameInstruction, CieOrFde, CommonInformationEntry, DebugFrame, EhFrame,
    EhFrameHdr, EndianSlice, FrameDescriptionEntry, Pointer, RunTimeEndian, SectionBaseAddresses,
    StoreOnHeap, UnwindContext, UnwindContextStorage, UnwindOffset, UnwindSection, Vendor,
};

type R<'a> = EndianSlice<'a, RunTimeEndian>;

fn opt(tok: &str) -> Option<u64> {
    if tok == "-" {
        None
    } else {
        Some(u(tok))
    }
}

fn sb(t: &[&str]) -> SectionBaseAddresses {
    let mut s = SectionBaseAddresses::default();
    s.section = opt(t[0]);
    s.text = opt(t[1]);
    s.data = opt(t[2]);
    s
}

/// (length, hex of the first <= 8 bytes) of the `EndianSlice` printed after `key` in a Debug string.
fn dbg_slice(s: &str, key: &str) -> String {
    let pat = format!("{}EndianSlice(", key);
    let i = match s.find(&pat) {
        Some(i) => i + pat.len(),
        None => return "?".into(),
    };
    let rest = &s[i..];
    let lb = match rest.find('[') {
        Some(x) => x,
        None => return "?".into(),
    };
    let rb = match rest[lb..].find(']') {
        Some(x) => lb + x,
        None => return "?".into(),
    };
    let body = &rest[lb + 1..rb];
    let mut n = 0usize;
    let mut total: Option<usize> = None;
    let mut hexs = String::new();
    for part in body.split(", ") {
        let part = part.trim();
        if let Some(h) = part.strip_prefix("0x") {
            n += 1;
            hexs.push_str(h);
        } else if let Some(l) = part.strip_prefix("...; ") {
            total = l.parse().ok();
        }
    }
    format!("{}:{}", total.unwrap_or(n), if hexs.is_empty() { "-".to_string() } else { hexs })
}

fn dbg_fmt64(s: &str) -> &'static str {
    match s.find("format: ") {
        Some(i) => {
            if s[i..].starts_with("format: Dwarf64") {
                "64"
            } else {
                "32"
            }
        }
        None => "?",
    }
}

fn ptr(p: Pointer) -> String {
    match p {
        Pointer::Direct(a) => format!("D{}", a),
        Pointer::Indirect(a) => format!("I{}", a),
    }
}

fn cie_line(c: &CommonInformationEntry<R>) -> String {
    let d = format!("{:?}", c);
    let aug = if c.augmentation().is_some() {
        format!(
            "L{}P{}R{}S{}",
            c.lsda_encoding().map(|e| e.0.to_string()).unwrap_or("-".into()),
            c.personality_with_encoding().map(|(e, p)| format!("{}:{}", e.0, ptr(p))).unwrap_or("-".into()),
            c.fde_address_encoding().map(|e| e.0.to_string()).unwrap_or("-".into()),
            if c.is_signal_trampoline() { 1 } else { 0 }
        )
    } else {
        "-".to_string()
    };
    format!(
        "C {} {} {} {} {} {} {} {} {} {}",
        c.offset(),
        c.entry_len(),
        dbg_fmt64(&d),
        c.version(),
        c.address_size(),
        c.code_alignment_factor(),
        c.data_alignment_factor(),
        c.return_address_register().0,
        aug,
        dbg_slice(&d, "initial_instructions: ")
    )
}

fn fde_line(f: &FrameDescriptionEntry<R>) -> String {
    let d = format!("{:?}", f);
    format!(
        "ok {} {} {} {} {} {}",
        f.cie().offset(),
        f.initial_address(),
        f.len(),
        if f.cie().augmentation().is_some() { "A" } else { "N" },
        f.lsda().map(ptr).unwrap_or("-".into()),
        dbg_slice(&d, " instructions: ")
    )
}

/// the remaining items of an entries iterator, one text per item, ending with "end" or "err X";
/// `clones`: positions (items already delivered) at which the iterator is cloned — every clone must
/// continue exactly like the original from there
fn dump_lines<'a, 'b, S>(
    sec: &S,
    bases: &'b BaseAddresses,
    mut it: gimli::CfiEntriesIter<'b, S, R<'a>>,
    clones: &[usize],
) -> Result<Vec<String>, String>
where
    S: UnwindSection<R<'a>>,
    S::Offset: UnwindOffset<usize>,
{
    let mut out: Vec<String> = Vec::new();
    let mut saved: Vec<(usize, gimli::CfiEntriesIter<'b, S, R<'a>>)> = Vec::new();
    let mut guard = 0usize;
    loop {
        if clones.contains(&out.len()) {
            saved.push((out.len(), it.clone()));
        }
        guard += 1;
        if guard > 100000 {
            return Err("iter-nonterminating-mismatch".into());
        }
        match it.next() {
            Ok(None) => {
                out.push("end".into());
                break;
            }
            Err(e) => {
                out.push(format!("err {}", errname(&e)));
                // stop-after-error: the iterator must be exhausted now
                match it.next() {
                    Ok(None) => {}
                    _ => return Err("iter-continues-after-error-mismatch".into()),
                }
                break;
            }
            Ok(Some(CieOrFde::Cie(c))) => out.push(cie_line(&c)),
            Ok(Some(CieOrFde::Fde(p))) => {
                let d = format!("{:?}", p);
                let co: usize = UnwindOffset::into(p.cie_offset());
                let mut l = format!("F {} {} {} {} ", p.offset(), p.entry_len(), dbg_fmt64(&d), co);
                match p.parse(|s, b, o| s.cie_from_offset(b, o)) {
                    Ok(f) => {
                        // the FDE must carry exactly the CIE found at its pointer
                        match sec.cie_from_offset(bases, p.cie_offset()) {
                            Ok(c) if &c == f.cie() => {}
                            _ => return Err("fde-cie-binding-mismatch".into()),
                        }
                        l.push_str(&fde_line(&f));
                    }
                    Err(e) => l.push_str(&err(&e)),
                }
                out.push(l);
            }
        }
    }
    for (at, c) in saved {
        let rest = dump_lines(sec, bases, c, &[])?;
        if rest[..] != out[at..] {
            return Err(format!("history-mismatch clone taken after {} items continues differently", at));
        }
    }
    Ok(out)
}

/// every entry of the section in iteration order, each FDE fully parsed against its CIE
fn dump_with<'a, S>(sec: &S, bases: &BaseAddresses, clones: &[usize]) -> String
where
    S: UnwindSection<R<'a>>,
    S::Offset: UnwindOffset<usize>,
{
    match dump_lines(sec, bases, sec.entries(bases), clones) {
        Ok(lines) => format!("ok | {}", lines.join(" | ")),
        Err(m) => m,
    }
}

fn dump<'a, S>(sec: &S, bases: &BaseAddresses) -> String
where
    S: UnwindSection<R<'a>>,
    S::Offset: UnwindOffset<usize>,
{
    dump_with(sec, bases, &[])
}

/// the impl's own exhaustive scan: first FDE in iteration order that contains `a`
fn scan<'a, S>(sec: &S, bases: &BaseAddresses, a: u64) -> Result<FrameDescriptionEntry<R<'a>>, gimli::Error>
where
    S: UnwindSection<R<'a>>,
{
    let mut it = sec.entries(bases);
    while let Some(e) = it.next()? {
        if let CieOrFde::Fde(p) = e {
            let f = p.parse(|s, b, o| s.cie_from_offset(b, o))?;
            if f.initial_address() <= a && a < f.end_address() {
                return Ok(f);
            }
        }
    }
    Err(gimli::Error::NoUnwindInfoForAddress)
}

fn look_line(r: &Result<FrameDescriptionEntry<R>, gimli::Error>) -> String {
    match r {
        Ok(f) => format!("ok {} {} {}", f.offset(), f.initial_address(), f.end_address()),
        Err(e) => err(e),
    }
}

/// linear lookup of every probe address; oracle: equals the exhaustive scan; with nop-only
/// instruction blobs unwind_info_for_address must succeed exactly when the FDE lookup does and
/// return the single row [initial_address, end_address)
fn lookups<'a, S>(sec: &S, bases: &BaseAddresses, nops: bool, addrs: &[u64]) -> String
where
    S: UnwindSection<R<'a>>,
{
    let mut out = String::from("ok");
    let mut ctx = UnwindContext::new();
    for &a in addrs {
        let r = sec.fde_for_address(bases, a, |s, b, o| s.cie_from_offset(b, o));
        let s = scan(sec, bases, a);
        let (lr, ls) = (look_line(&r), look_line(&s));
        if lr != ls {
            return format!("lookup-mismatch addr={} fde_for_address={} scan={}", a, lr.replace(' ', "_"), ls.replace(' ', "_"));
        }
        if let Ok(f) = &r {
            if !f.contains(a) {
                return format!("lookup-mismatch addr={} returned-fde-does-not-contain", a);
            }
        }
        if nops {
            let ui = sec.unwind_info_for_address(bases, &mut ctx, a, |s, b, o| s.cie_from_offset(b, o));
            match (&r, ui) {
                (Ok(f), Ok(row)) => {
                    if row.start_address() != f.initial_address() || row.end_address() != f.end_address() {
                        return format!("lookup-mismatch addr={} unwind-row-differs", a);
                    }
                }
                (Err(e1), Err(e2)) => {
                    if errname(e1) != errname(&e2) {
                        return format!("lookup-mismatch addr={} unwind-error-differs", a);
                    }
                }
                _ => return format!("lookup-mismatch addr={} unwind-info-disagrees", a),
            }
        }
        out.push_str(" | ");
        out.push_str(&lr);
    }
    out
}

fn section_case(t: &[&str], want_lookup: bool) -> String {
    // <eh> <be> <asz> <sec> <text> <data> <bytes> [<nops> <addr>*]
    let eh = t[1] == "1";
    let en = endian(t[2]);
    let asz = u(t[3]) as u8;
    let mut bases = BaseAddresses::default();
    bases.eh_frame = sb(&t[4..7]);
    let bytes = hex(t[7]);
    let (nops, addrs): (bool, Vec<u64>) = if want_lookup {
        (t[8] == "1", t[9..].iter().map(|x| u(x)).collect())
    } else {
        (false, vec![])
    };
    if eh {
        let mut s = EhFrame::new(&bytes, en);
        s.set_address_size(asz);
        if want_lookup {
            lookups(&s, &bases, nops, &addrs)
        } else {
            dump(&s, &bases)
        }
    } else {
        let mut s = DebugFrame::new(&bytes, en);
        s.set_address_size(asz);
        if want_lookup {
            lookups(&s, &bases, nops, &addrs)
        } else {
            dump(&s, &bases)
        }
    }
}

/// .eh_frame_hdr: parse, table rows, and the three lookup paths for every probe address
fn hdr_case(t: &[&str]) -> String {
    // <be> <hasz> <hsec> <htext> <hdata> <hdrbytes> <easz> <esec> <etext> <edata> <ehbytes> <wf> <addr>*
    let en = endian(t[1]);
    let hasz = u(t[2]) as u8;
    let mut bases = BaseAddresses::default();
    bases.eh_frame_hdr = sb(&t[3..6]);
    let hbytes = hex(t[6]);
    let easz = u(t[7]) as u8;
    bases.eh_frame = sb(&t[8..11]);
    let ebytes = hex(t[11]);
    let wf = t[12] == "1";
    let addrs: Vec<u64> = t[13..].iter().map(|x| u(x)).collect();
    let hdr = EhFrameHdr::new(&hbytes, en);
    let parsed = match hdr.parse(&bases, hasz) {
        Ok(p) => p,
        Err(e) => return err(&e),
    };
    let d = format!("{:?}", parsed);
    let mut out = format!("ok {} {}", ptr(parsed.eh_frame_ptr()), dbg_slice(&d, "table: "));
    let table = match parsed.table() {
        Some(tb) => tb,
        None => {
            out.push_str(" notable");
            return out;
        }
    };
    // rows through the iterator, `while let Some(..) = next()?` protocol
    let mut it = table.iter(&bases);
    let cap = hbytes.len() + 2;
    let mut nrows = 0usize;
    out.push_str(" rows");
    loop {
        match it.next() {
            Ok(None) => {
                out.push_str(" end");
                break;
            }
            Ok(Some((a, b))) => {
                nrows += 1;
                if nrows > cap {
                    return "iter-nonterminating-mismatch".into();
                }
                out.push_str(&format!(" {}:{}", ptr(a), ptr(b)));
            }
            Err(e) => {
                out.push_str(&format!(" err {}", errname(&e)));
                // stop-after-error: the iterator must be exhausted now
                match it.next() {
                    Ok(None) => {}
                    _ => return "iter-continues-after-error-mismatch".into(),
                }
                break;
            }
        }
    }
    let mut frame = EhFrame::new(&ebytes, en);
    frame.set_address_size(easz);
    let mut ctx = UnwindContext::new();
    for &a in &addrs {
        out.push_str(" |");
        match table.lookup(a, &bases) {
            Ok(p) => {
                out.push_str(&format!(" {}", ptr(p)));
                match table.pointer_to_offset(p) {
                    Ok(o) => out.push_str(&format!(" {}", o.0)),
                    Err(e) => out.push_str(&format!(" {}", errname(&e))),
                }
            }
            Err(e) => out.push_str(&format!(" {}", errname(&e))),
        }
        let r = table.fde_for_address(&frame, &bases, a, EhFrame::cie_from_offset);
        out.push_str(&format!(" {}", look_line(&r).replace(' ', ":")));
        if let Ok(f) = &r {
            if !f.contains(a) {
                return format!("lookup-mismatch addr={} hdr-fde-does-not-contain", a);
            }
        }
        if wf {
            // well-formed header over disjoint FDEs: all paths agree with the exhaustive scan
            let s = scan(&frame, &bases, a);
            let l = frame.fde_for_address(&bases, a, EhFrame::cie_from_offset);
            let (lr, ls, ll) = (look_line(&r), look_line(&s), look_line(&l));
            if lr != ls || ll != ls {
                return format!("lookup-mismatch addr={} hdr={} linear={} scan={}", a, lr.replace(' ', "_"), ll.replace(' ', "_"), ls.replace(' ', "_"));
            }
            let ui = table.unwind_info_for_address(&frame, &bases, &mut ctx, a, EhFrame::cie_from_offset);
            match (&r, ui) {
                (Ok(f), Ok(row)) => {
                    if row.start_address() != f.initial_address() || row.end_address() != f.end_address() {
                        return format!("lookup-mismatch addr={} unwind-row-differs", a);
                    }
                }
                (Err(e1), Err(e2)) => {
                    if errname(e1) != errname(&e2) {
                        return format!("lookup-mismatch addr={} unwind-error-differs", a);
                    }
                }
                _ => return format!("lookup-mismatch addr={} unwind-info-disagrees", a),
            }
        }
    }
    out
}


// ---------------------------------------------------------------- unwind_info_for_address
fn uwi_row<St: UnwindContextStorage<usize>>(
    r: Result<&gimli::UnwindTableRow<usize, St>, gimli::Error>,
    a: u64,
) -> String {
    match r {
        Ok(row) => {
            if !row.contains(a) {
                return format!("lookup-mismatch row does not contain {}", a);
            }
            match fmt_row(row, &[]) {
                Ok(s) => format!("ok {}", s),
                Err(m) => m,
            }
        }
        Err(e) => err(&e),
    }
}

/// spec-level oracle on the implementation alone: own exhaustive scan for the FDE, then a plain
/// walk over fde.rows() on a fresh context until a row contains the address
fn uwi_oracle<'a, S, St>(sec: &S, bases: &BaseAddresses, a: u64) -> String
where
    S: UnwindSection<R<'a>>,
    St: UnwindContextStorage<usize>,
{
    let f = match scan(sec, bases, a) {
        Ok(f) => f,
        Err(e) => return err(&e),
    };
    let mut ctx = Box::new(UnwindContext::<usize, St>::new_in());
    let mut table = match f.rows(sec, bases, &mut ctx) {
        Ok(t) => t,
        Err(e) => return err(&e),
    };
    loop {
        match table.next_row() {
            Ok(Some(row)) => {
                if row.contains(a) {
                    return match fmt_row(row, &[]) {
                        Ok(s) => format!("ok {}", s),
                        Err(m) => m,
                    };
                }
            }
            Ok(None) => return "err NoUnwindInfoForAddress".into(),
            Err(e) => return err(&e),
        }
    }
}

fn uwi_lin<'a, S, St>(sec: &S, bases: &BaseAddresses, ctx: &mut UnwindContext<usize, St>, addrs: &[u64]) -> String
where
    S: UnwindSection<R<'a>>,
    St: UnwindContextStorage<usize>,
{
    let mut out = String::from("ok");
    for &a in addrs {
        let got = uwi_row(sec.unwind_info_for_address(bases, ctx, a, |s, b, o| s.cie_from_offset(b, o)), a);
        if got.contains("-mismatch") {
            return got;
        }
        let want = uwi_oracle::<S, St>(sec, bases, a);
        if got != want {
            return format!("uwi-row-mismatch addr={} got={} scan+rows={}", a, got.replace(' ', "_"), want.replace(' ', "_"));
        }
        out.push_str(" | ");
        out.push_str(&got);
    }
    out
}

fn uwi_case(t: &[&str]) -> String {
    let storage = t[2];
    let vendor = if t[3] == "1" { Vendor::AArch64 } else { Vendor::Default };
    if t[1] == "L" {
        // L <storage> <vendor> <eh> <be> <asz> <sec> <text> <data> <bytes> <addr>*
        let eh = t[4] == "1";
        let en = endian(t[5]);
        let asz = u(t[6]) as u8;
        let mut bases = BaseAddresses::default();
        bases.eh_frame = sb(&t[7..10]);
        let bytes = hex(t[10]);
        let addrs: Vec<u64> = t[11..].iter().map(|x| u(x)).collect();
        if eh {
            let mut s = EhFrame::new(&bytes, en);
            s.set_address_size(asz);
            s.set_vendor(vendor);
            with_fresh_ctx!(storage, ctx, uwi_lin(&s, &bases, &mut *ctx, &addrs))
        } else {
            let mut s = DebugFrame::new(&bytes, en);
            s.set_address_size(asz);
            s.set_vendor(vendor);
            with_fresh_ctx!(storage, ctx, uwi_lin(&s, &bases, &mut *ctx, &addrs))
        }
    } else {
        // H <storage> <vendor> <be> <hasz> <hsec> <htext> <hdata> <hdrbytes> <easz> <esec> <etext> <edata> <ehbytes> <wf> <addr>*
        let en = endian(t[4]);
        let hasz = u(t[5]) as u8;
        let mut bases = BaseAddresses::default();
        bases.eh_frame_hdr = sb(&t[6..9]);
        let hbytes = hex(t[9]);
        let easz = u(t[10]) as u8;
        bases.eh_frame = sb(&t[11..14]);
        let ebytes = hex(t[14]);
        let wf = t[15] == "1";
        let addrs: Vec<u64> = t[16..].iter().map(|x| u(x)).collect();
        let hdr = EhFrameHdr::new(&hbytes, en);
        let parsed = match hdr.parse(&bases, hasz) {
            Ok(p) => p,
            Err(e) => return err(&e),
        };
        let table = match parsed.table() {
            Some(tb) => tb,
            None => return "ok notable".into(),
        };
        let mut frame = EhFrame::new(&ebytes, en);
        frame.set_address_size(easz);
        frame.set_vendor(vendor);
        with_fresh_ctx!(storage, ctx, {
            let mut out = String::from("ok");
            let mut bad: Option<String> = None;
            for &a in &addrs {
                let got = uwi_row(
                    table.unwind_info_for_address(&frame, &bases, &mut *ctx, a, EhFrame::cie_from_offset),
                    a,
                );
                if got.contains("-mismatch") {
                    bad = Some(got);
                    break;
                }
                if wf {
                    // well-formed header over disjoint FDEs: the header path = the linear path
                    let lin = uwi_row(
                        frame.unwind_info_for_address(&bases, &mut *ctx, a, EhFrame::cie_from_offset),
                        a,
                    );
                    if lin != got {
                        bad = Some(format!("lookup-mismatch addr={} hdr={} linear={}", a, got.replace(' ', "_"), lin.replace(' ', "_")));
                        break;
                    }
                }
                out.push_str(" | ");
                out.push_str(&got);
            }
            bad.unwrap_or(out)
        })
    }
}

/// first instruction of every FDE that parses, when it is DW_CFA_set_loc
fn setloc_case(t: &[&str]) -> String {
    let eh = t[1] == "1";
    let en = endian(t[2]);
    let asz = u(t[3]) as u8;
    let mut bases = BaseAddresses::default();
    bases.eh_frame = sb(&t[4..7]);
    let bytes = hex(t[7]);
    fn go<'a, S>(sec: &S, bases: &BaseAddresses) -> String
    where
        S: UnwindSection<R<'a>>,
    {
        let mut out = String::from("ok");
        let mut it = sec.entries(bases);
        loop {
            match it.next() {
                Ok(Some(CieOrFde::Fde(p))) => match p.parse(|s, b, o| s.cie_from_offset(b, o)) {
                    Ok(f) => {
                        let d = format!("{:?}", f);
                        let sl = dbg_slice(&d, " instructions: ");
                        let first_is_set_loc = sl.split(':').nth(1).map(|h| h.starts_with("01")).unwrap_or(false);
                        if !first_is_set_loc {
                            out.push_str(" n");
                        } else {
                            match f.instructions(sec, bases).next() {
                                Ok(Some(CallFrameInstruction::SetLoc { address })) => out.push_str(&format!(" S{}", address)),
                                Ok(_) => return "setloc-decode-mismatch".into(),
                                Err(e) => out.push_str(&format!(" E{}", errname(&e))),
                            }
                        }
                    }
                    Err(_) => out.push_str(" p"),
                },
                Ok(Some(_)) => {}
                Ok(None) => break,
                Err(_) => break,
            }
        }
        out
    }
    if eh {
        let mut s = EhFrame::new(&bytes, en);
        s.set_address_size(asz);
        go(&s, &bases)
    } else {
        let mut s = DebugFrame::new(&bytes, en);
        s.set_address_size(asz);
        go(&s, &bases)
    }
}

// ---------------------------------------------------------------- EhHdrTableIter histories
fn hiter_case(t: &[&str]) -> String {
    // <be> <hasz> <hsec> <htext> <hdata> <hdrbytes> <op>*   op: n | k<num> | h
    let en = endian(t[1]);
    let hasz = u(t[2]) as u8;
    let mut bases = BaseAddresses::default();
    bases.eh_frame_hdr = sb(&t[3..6]);
    let hbytes = hex(t[6]);
    let hdr = EhFrameHdr::new(&hbytes, en);
    let parsed = match hdr.parse(&bases, hasz) {
        Ok(p) => p,
        Err(e) => return err(&e),
    };
    let table = match parsed.table() {
        Some(tb) => tb,
        None => return "ok notable".into(),
    };
    // spec-level oracle on the implementation alone: the rows of a fresh full scan
    let mut scan: Vec<(Pointer, Pointer)> = Vec::new();
    {
        let mut it = table.iter(&bases);
        let cap = hbytes.len() + 2;
        while let Ok(Some(r)) = it.next() {
            scan.push(r);
            if scan.len() > cap {
                return "iter-nonterminating-mismatch".into();
            }
        }
    }
    let mut it = table.iter(&bases);
    // where the history stands: At(i) = i rows consumed or skipped; Ended = an operation returned None
    // (or next failed): no row may be yielded any more; Unknown = nth failed while skipping (gimli has
    // then reduced its count without moving: no index oracle from there on)
    #[derive(Clone, Copy, PartialEq)]
    enum Pos {
        At(usize),
        Ended,
        Unknown,
    }
    let mut pos = Pos::At(0);
    let mut out = String::from("ok");
    for op in &t[7..] {
        if *op == "h" {
            let a = Iterator::size_hint(&it);
            let b = fallible_iterator::FallibleIterator::size_hint(&it);
            if a != b {
                return "history-mismatch size_hint of the two iterator traits differ".into();
            }
            // the upper bound must cover the rows a drain from here can still yield
            if let (Some(hi), Pos::At(p)) = (a.1, pos) {
                if p <= scan.len() && hi < scan.len() - p {
                    return format!("history-mismatch size_hint upper bound {} below the {} rows left", hi, scan.len() - p);
                }
            }
            out.push_str(&format!(" H{}:{}", a.0, a.1.map(|x| x.to_string()).unwrap_or("-".into())));
            continue;
        }
        let (k, res) = if *op == "n" {
            (0usize, it.next())
        } else {
            let k: u64 = op[1..].parse().unwrap();
            (k as usize, it.nth(k as usize))
        };
        match res {
            Ok(Some(r)) => {
                match pos {
                    Pos::At(p) => {
                        let idx = p.saturating_add(k);
                        if scan.get(idx) != Some(&r) {
                            return format!("history-mismatch {} returned {}:{} as row {}", op, ptr(r.0), ptr(r.1), idx);
                        }
                        pos = Pos::At(idx + 1);
                    }
                    Pos::Ended => return format!("history-mismatch {} yielded a row after the end", op),
                    Pos::Unknown => {}
                }
                out.push_str(&format!(" S{}:{}", ptr(r.0), ptr(r.1)));
            }
            Ok(None) => {
                pos = Pos::Ended;
                out.push_str(" N")
            }
            Err(e) => {
                let name = errname(&e);
                if *op == "n" {
                    pos = Pos::Ended;
                } else if name != "UnsupportedPointerEncoding" {
                    // nth refuses variable-size encodings before touching the iterator
                    pos = Pos::Unknown;
                }
                out.push_str(&format!(" E{}", name))
            }
        }
    }
    out
}

// ---------------------------------------------------------------- mixed-operation histories
fn first_fde<'a, S>(sec: &S, bases: &BaseAddresses) -> Option<FrameDescriptionEntry<R<'a>>>
where
    S: UnwindSection<R<'a>>,
{
    let mut it = sec.entries(bases);
    while let Ok(Some(e)) = it.next() {
        if let CieOrFde::Fde(p) = e {
            if let Ok(f) = p.parse(|s, b, o| s.cie_from_offset(b, o)) {
                return Some(f);
            }
        }
    }
    None
}

/// count the instructions of a stream, cloning the iterator after `j` items and resuming the clone
fn insn_hist<'a>(mut it: gimli::CallFrameInstructionIter<'a, R<'a>>, j: usize) -> Result<String, String> {
    fn drain<'a>(it: &mut gimli::CallFrameInstructionIter<'a, R<'a>>) -> Result<(usize, String), String> {
        let mut n = 0usize;
        loop {
            match it.next() {
                Ok(Some(_)) => n += 1,
                Ok(None) => return Ok((n, "ok".into())),
                Err(e) => {
                    if !matches!(it.next(), Ok(None)) {
                        return Err("iter-continues-after-error-mismatch".into());
                    }
                    return Ok((n, errname(&e)));
                }
            }
        }
    }
    let mut n = 0usize;
    let mut saved = None;
    let term;
    loop {
        if n == j {
            saved = Some(it.clone());
        }
        match it.next() {
            Ok(Some(_)) => n += 1,
            Ok(None) => {
                term = "ok".to_string();
                break;
            }
            Err(e) => {
                if !matches!(it.next(), Ok(None)) {
                    return Err("iter-continues-after-error-mismatch".into());
                }
                term = errname(&e);
                break;
            }
        }
    }
    if let Some(mut c) = saved {
        let (m, t2) = drain(&mut c)?;
        if m + j != n || t2 != term {
            return Err(format!("history-mismatch instruction iterator cloned after {} items: {}:{} vs {}:{}", j, m + j, t2, n, term));
        }
    }
    Ok(format!("{}:{}", n, term))
}

fn hist_sec<'a, S>(kind: &str, sec: &S, bases: &BaseAddresses, js: &[usize]) -> String
where
    S: UnwindSection<R<'a>>,
    S::Offset: UnwindOffset<usize>,
{
    match kind {
        "E" => dump_with(sec, bases, js),
        "I" => {
            let f = match first_fde(sec, bases) {
                Some(f) => f,
                None => return "ok nofde".into(),
            };
            let a = match insn_hist(f.cie().instructions(sec, bases), js[0]) {
                Ok(x) => x,
                Err(m) => return m,
            };
            let b = match insn_hist(f.instructions(sec, bases), js[0]) {
                Ok(x) => x,
                Err(m) => return m,
            };
            format!("ok c{} f{}", a, b)
        }
        _ => {
            // T: next_row j times, then into_current_row
            let f = match first_fde(sec, bases) {
                Some(f) => f,
                None => return "ok nofde".into(),
            };
            let mut ctx = UnwindContext::<usize, StoreOnHeap>::new();
            let mut table = match f.rows(sec, bases, &mut ctx) {
                Ok(t) => t,
                Err(e) => return err(&e),
            };
            let mut out = String::from("ok");
            let mut last: Option<String> = None;
            for _ in 0..js[0] {
                match table.next_row() {
                    Ok(Some(row)) => {
                        out.push_str(&format!(" {}-{}", row.start_address(), row.end_address()));
                        last = match fmt_row(row, &[]) {
                            Ok(s) => Some(s),
                            Err(m) => return m,
                        };
                    }
                    Ok(None) => {
                        out.push_str(" none");
                        last = None;
                    }
                    Err(e) => {
                        out.push_str(&format!(" E{}", errname(&e)));
                        last = None;
                        break;
                    }
                }
            }
            let cur = match table.into_current_row() {
                Some(row) => match fmt_row(row, &[]) {
                    Ok(s) => Some(s),
                    Err(m) => return m,
                },
                None => None,
            };
            // oracle: the current row is the row the last next_row delivered, and only then
            if cur != last {
                return format!("history-mismatch into_current_row = {:?} after last delivered {:?}", cur, last).replace(' ', "_");
            }
            out.push_str(&format!(" cur={}", cur.unwrap_or("none".into())));
            out
        }
    }
}

fn hist_case(t: &[&str]) -> String {
    let kind = t[1];
    if kind == "L" {
        // L <be> <hasz> <hsec> <htext> <hdata> <hdrbytes> <easz> <esec> <etext> <edata> <ehbytes> <wf> <j> <a>
        let en = endian(t[2]);
        let hasz = u(t[3]) as u8;
        let mut bases = BaseAddresses::default();
        bases.eh_frame_hdr = sb(&t[4..7]);
        let hbytes = hex(t[7]);
        let j = u(t[14]) as usize;
        let a = u(t[15]);
        let hdr = EhFrameHdr::new(&hbytes, en);
        let parsed = match hdr.parse(&bases, hasz) {
            Ok(p) => p,
            Err(e) => return err(&e),
        };
        let table = match parsed.table() {
            Some(tb) => tb,
            None => return "ok notable".into(),
        };
        let fresh = match table.lookup(a, &bases) {
            Ok(p) => ptr(p),
            Err(e) => errname(&e),
        };
        let mut it = table.iter(&bases);
        let mut out = String::from("ok rows");
        let mut n = 0usize;
        let cap = hbytes.len() + 2;
        let mut mid: Option<String> = None;
        loop {
            if n == j {
                // a lookup in the middle of an iteration
                mid = Some(match table.lookup(a, &bases) {
                    Ok(p) => ptr(p),
                    Err(e) => errname(&e),
                });
            }
            match it.next() {
                Ok(Some((x, y))) => {
                    n += 1;
                    if n > cap {
                        return "iter-nonterminating-mismatch".into();
                    }
                    out.push_str(&format!(" {}:{}", ptr(x), ptr(y)));
                }
                Ok(None) => {
                    out.push_str(" end");
                    break;
                }
                Err(e) => {
                    out.push_str(&format!(" err {}", errname(&e)));
                    break;
                }
            }
        }
        let after = match table.lookup(a, &bases) {
            Ok(p) => ptr(p),
            Err(e) => errname(&e),
        };
        if let Some(m) = &mid {
            if *m != fresh {
                return "history-mismatch lookup during iteration differs from a fresh lookup".into();
            }
        }
        if after != fresh {
            return "history-mismatch lookup after iteration differs from a fresh lookup".into();
        }
        out.push_str(&format!(" | {}", fresh));
        return out;
    }
    // E/I/T <eh> <be> <asz> <sec> <text> <data> <bytes> <j>*
    let eh = t[2] == "1";
    let en = endian(t[3]);
    let asz = u(t[4]) as u8;
    let mut bases = BaseAddresses::default();
    bases.eh_frame = sb(&t[5..8]);
    let bytes = hex(t[8]);
    let js: Vec<usize> = t[9..].iter().map(|x| u(x) as usize).collect();
    if eh {
        let mut s = EhFrame::new(&bytes, en);
        s.set_address_size(asz);
        hist_sec(kind, &s, &bases, &js)
    } else {
        let mut s = DebugFrame::new(&bytes, en);
        s.set_address_size(asz);
        hist_sec(kind, &s, &bases, &js)
    }
}

pub fn run(t: &[&str]) -> String {
    match t[0] {
        "c05.pe" => {
            let e = DwEhPe(u(t[1]) as u8);
            format!(
                "ok {} {} {} {} {}",
                e.is_valid_encoding() as u8,
                e.format().0,
                e.application().0,
                e.is_absent() as u8,
                e.is_indirect() as u8
            )
        }
        "c05.ptr" => {
            // <be> <enc> <asz> <sec> <text> <data> <bytes>: the eh_frame_ptr field of a header
            let en = endian(t[1]);
            let enc = u(t[2]) as u8;
            let asz = u(t[3]) as u8;
            let mut bases = BaseAddresses::default();
            bases.eh_frame_hdr = sb(&t[4..7]);
            let mut b = vec![1u8, enc, 0xff, 0xff];
            b.extend_from_slice(&hex(t[7]));
            let hdr = EhFrameHdr::new(&b, en);
            match hdr.parse(&bases, asz) {
                Ok(p) => {
                    let d = format!("{:?}", p);
                    format!("ok {} {}", ptr(p.eh_frame_ptr()), dbg_slice(&d, "table: "))
                }
                Err(e) => err(&e),
            }
        }
        "c05.ent" | "c05.raw" => section_case(t, false),
        "c05.look" | "c05.lraw" => section_case(t, true),
        "c05.hdr" | "c05.hraw" => hdr_case(t),
        "c05.uwi" => uwi_case(t),
        "c05.setloctab" => uwi_case(t),
        "c05.hiter" => hiter_case(t),
        "c05.hist" => hist_case(t),
        "c05.setloc" => setloc_case(t),
        "c05.nopanic" => {
            // <class> <kind> rest...: run the named family, report only that it returned
            let inner: Vec<&str> = t[2..].to_vec();
            let _ = run(&inner);
            "nopanic".into()
        }
        _ => format!("unknown-stream {}", t[0]),
    }
}
