// c12.rs — read→write conversion preserves meaning or fails; converting again reproduces the output.
// Meaning = crate::dump (semantic dump by gimli's own reader). All streams are impl-side oracles:
//   `ok same` / `ok err <ConvertError>` / `ok skip <why>`  are acceptable,
//   `convert-mismatch …` (meaning changed silently), `idempotence-mismatch …` (second conversion differs),
//   `reread-mismatch …` (the converted output cannot be read back) are property failures.
use crate::dump::{self, diff_classes};
use crate::util::*;
use gimli::write::{self, Address, EndianVec};
use gimli::{BaseAddresses, Dwarf, EndianSlice, Reader, RunTimeEndian, SectionId};
use std::collections::HashMap;

type Secs = HashMap<SectionId, Vec<u8>>;

// stream c12.lineconv (Model/ConvertLine.v): see c12_lineconv.rs
#[path = "c12_lineconv.rs"]
mod lineconv;

fn corpus_dir() -> String {
    std::env::var("GV_CORPUS")
        .unwrap_or_else(|_| concat!(env!("CARGO_MANIFEST_DIR"), "/../corpus/sections").to_string())
}

fn load_dwarf<'a>(secs: &'a Secs, endian: RunTimeEndian) -> Dwarf<EndianSlice<'a, RunTimeEndian>> {
    static EMPTY: [u8; 0] = [];
    Dwarf::load(|id| -> Result<_, ()> {
        Ok(EndianSlice::new(secs.get(&id).map(|v| &v[..]).unwrap_or(&EMPTY[..]), endian))
    })
    .unwrap()
}

fn write_sections(w: &mut write::Dwarf, endian: RunTimeEndian) -> Result<Secs, write::Error> {
    let mut sections = write::Sections::new(EndianVec::new(endian));
    w.write(&mut sections)?;
    let mut out = Secs::new();
    let _: Result<(), ()> = sections.for_each(|id, data| {
        out.insert(id, data.slice().to_vec());
        Ok(())
    });
    Ok(out)
}

fn convert(d: &Dwarf<EndianSlice<'_, RunTimeEndian>>) -> Result<write::Dwarf, write::ConvertError> {
    write::Dwarf::from(d, &|a| Some(Address::Constant(a)))
}

/// dump(in) == dump(read(write(convert(in)))) and convert∘read∘write is a fixpoint on the output.
fn roundtrip(secs: &Secs, endian: RunTimeEndian) -> String {
    let din = load_dwarf(secs, endian);
    let dump_in = match dump::dump_dwarf(&din, true) {
        Ok(d) => d,
        Err(x) => return format!("ok skip input-not-dumpable:{}", x.replace(' ', "_")),
    };
    let mut w = match convert(&din) {
        Ok(w) => w,
        Err(x) => return format!("ok err {}", errname(&x)),
    };
    let out1 = match write_sections(&mut w, endian) {
        Ok(s) => s,
        Err(x) => return format!("ok err write:{}", errname(&x)),
    };
    let dout = load_dwarf(&out1, endian);
    let dump_out = match dump::dump_dwarf(&dout, true) {
        Ok(d) => d,
        Err(x) => return format!("reread-mismatch {}", x.replace(' ', "_")),
    };
    let d = diff_classes(&dump_in, &dump_out);
    if !d.is_empty() {
        return format!("convert-mismatch {}", d);
    }
    // second conversion reproduces the first output
    let mut w2 = match convert(&dout) {
        Ok(w) => w,
        Err(x) => return format!("idempotence-mismatch second-conversion-failed:{}", errname(&x)),
    };
    let out2 = match write_sections(&mut w2, endian) {
        Ok(s) => s,
        Err(x) => return format!("idempotence-mismatch second-write-failed:{}", errname(&x)),
    };
    // (string-table order may differ because base types were moved to the front: compare meanings,
    //  and bytes only for the abbreviation table)
    let dout2 = load_dwarf(&out2, endian);
    let dump_out2 = match dump::dump_dwarf(&dout2, true) {
        Ok(d) => d,
        Err(x) => return format!("idempotence-mismatch reread:{}", x.replace(' ', "_")),
    };
    let d = diff_classes(&dump_out, &dump_out2);
    if !d.is_empty() {
        return format!("idempotence-mismatch {}", d);
    }
    if out1.get(&SectionId::DebugAbbrev) != out2.get(&SectionId::DebugAbbrev) {
        return "idempotence-mismatch abbrev-bytes".to_string();
    }
    format!("ok same {}", dump_in.len())
}

/// does the (single) line program contain a DW_LNE_set_address that is not the first address-affecting
/// instruction of its sequence?
fn midseq_set_address(secs: &Secs, endian: RunTimeEndian, asz: u8) -> bool {
    let data = match secs.get(&SectionId::DebugLine) {
        Some(d) => d,
        None => return false,
    };
    let dl = gimli::DebugLine::new(data, endian);
    let program = match dl.program(gimli::DebugLineOffset(0), asz, None, None) {
        Ok(p) => p,
        Err(_) => return false,
    };
    let header = program.header().clone();
    let mut it = header.instructions();
    let mut rows_in_seq = false;
    while let Ok(Some(i)) = it.next_instruction(&header) {
        use gimli::LineInstruction as LI;
        match i {
            LI::SetAddress(_) if rows_in_seq => return true,
            LI::EndSequence => rows_in_seq = false,
            // anything that emits a row or moves the address away from the sequence's first address
            LI::Copy | LI::Special(_) | LI::AdvancePc(_) | LI::ConstAddPc | LI::FixedAddPc(_) | LI::SetAddress(_) => rows_in_seq = true,
            _ => {}
        }
    }
    false
}

fn load_variant(variant: &str) -> Secs {
    let mut m = Secs::new();
    let dir = format!("{}/{}", corpus_dir(), variant);
    let ids = [
        SectionId::DebugAbbrev, SectionId::DebugAddr, SectionId::DebugAranges, SectionId::DebugInfo,
        SectionId::DebugLine, SectionId::DebugLineStr, SectionId::DebugLoc, SectionId::DebugLocLists,
        SectionId::DebugMacinfo, SectionId::DebugMacro, SectionId::DebugRanges, SectionId::DebugRngLists,
        SectionId::DebugStr, SectionId::DebugStrOffsets, SectionId::DebugTypes, SectionId::EhFrame,
        SectionId::EhFrameHdr, SectionId::DebugFrame,
    ];
    for id in ids {
        let name = id.name().trim_start_matches('.');
        if let Ok(data) = std::fs::read(format!("{}/{}", dir, name)) {
            m.insert(id, data);
        }
    }
    m
}

fn cfi_roundtrip(eh: bool, data: &[u8], endian: RunTimeEndian, address_size: u8) -> String {
    let bases = BaseAddresses::default().set_eh_frame(0);
    macro_rules! go {
        ($rd:expr, $wr_ty:ty, $write:ident, $rd_ty:ident) => {{
            let mut sec = $rd;
            sec.set_address_size(address_size);
            let dump_in = match dump::dump_cfi(&sec, &bases) {
                Ok(d) => d,
                Err(x) => return format!("ok skip input-not-readable:{}", x.replace(' ', "_")),
            };
            if dump_in.iter().any(|l| l.contains(") !")) {
                return "ok skip input-rows-error".to_string();
            }
            let table = match write::FrameTable::from(&sec, &|a| Some(Address::Constant(a))) {
                Ok(t) => t,
                Err(x) => return format!("ok err {}", errname(&x)),
            };
            let mut w = <$wr_ty>::from(EndianVec::new(endian));
            if let Err(x) = table.$write(&mut w) {
                return format!("ok err write:{}", errname(&x));
            }
            let bytes = w.slice().to_vec();
            let mut back = gimli::$rd_ty::new(&bytes, endian);
            back.set_address_size(address_size);
            let dump_out = match dump::dump_cfi(&back, &bases) {
                Ok(d) => d,
                Err(x) => return format!("reread-mismatch {}", x.replace(' ', "_")),
            };
            let d = diff_classes(&dump_in, &dump_out);
            if !d.is_empty() {
                return format!("convert-mismatch {}", d);
            }
            // second conversion
            let table2 = match write::FrameTable::from(&back, &|a| Some(Address::Constant(a))) {
                Ok(t) => t,
                Err(x) => return format!("idempotence-mismatch second-conversion-failed:{}", errname(&x)),
            };
            let mut w2 = <$wr_ty>::from(EndianVec::new(endian));
            if let Err(x) = table2.$write(&mut w2) {
                return format!("idempotence-mismatch second-write-failed:{}", errname(&x));
            }
            if w2.slice() != &bytes[..] {
                return "idempotence-mismatch bytes".to_string();
            }
            format!("ok same {}", dump_in.len())
        }};
    }
    if eh {
        go!(gimli::EhFrame::new(data, endian), write::EhFrame<EndianVec<RunTimeEndian>>, write_eh_frame, EhFrame)
    } else {
        go!(gimli::DebugFrame::new(data, endian), write::DebugFrame<EndianVec<RunTimeEndian>>, write_debug_frame, DebugFrame)
    }
}

fn uleb(mut v: u64, out: &mut Vec<u8>) {
    loop {
        let b = (v & 0x7f) as u8;
        v >>= 7;
        if v == 0 {
            out.push(b);
            return;
        }
        out.push(b | 0x80);
    }
}
fn sleb(mut v: i64, out: &mut Vec<u8>) {
    loop {
        let b = (v & 0x7f) as u8;
        let s = v >> 6;
        if s == 0 || s == -1 {
            out.push(b);
            return;
        }
        v >>= 7;
        out.push(b | 0x80);
    }
}
fn put(out: &mut Vec<u8>, v: u64, n: usize, be: bool) {
    let b = v.to_le_bytes();
    if be {
        for i in (0..n).rev() {
            out.push(b[i]);
        }
    } else {
        out.extend_from_slice(&b[..n]);
    }
}

/// one CIE + one FDE (.debug_frame or .eh_frame) from abstract parameters
#[allow(clippy::too_many_arguments)]
fn frame_section(eh: bool, be: bool, asz: usize, version: u8, caf: u64, daf: i64, ra: u64, cie_insns: &[u8],
                 initial: u64, range: u64, fde_insns: &[u8]) -> Vec<u8> {
    let mut cie = Vec::new();
    put(&mut cie, if eh { 0 } else { 0xffff_ffff }, 4, be);
    cie.push(version);
    cie.push(0); // augmentation ""
    if version >= 4 && !eh {
        cie.push(asz as u8);
        cie.push(0);
    }
    uleb(caf, &mut cie);
    sleb(daf, &mut cie);
    if version == 1 {
        cie.push(ra as u8);
    } else {
        uleb(ra, &mut cie);
    }
    cie.extend_from_slice(cie_insns);
    while (cie.len() + 4) % asz != 0 {
        cie.push(0);
    }
    let mut sec = Vec::new();
    put(&mut sec, cie.len() as u64, 4, be);
    sec.extend_from_slice(&cie);
    let fde_start = sec.len();
    let mut fde = Vec::new();
    // CIE pointer: .debug_frame = offset of the CIE (0); .eh_frame = distance back to the CIE
    put(&mut fde, if eh { (fde_start + 4) as u64 } else { 0 }, 4, be);
    put(&mut fde, initial, asz, be);
    put(&mut fde, range, asz, be);
    fde.extend_from_slice(fde_insns);
    while (fde.len() + 4) % asz != 0 {
        fde.push(0);
    }
    put(&mut sec, fde.len() as u64, 4, be);
    sec.extend_from_slice(&fde);
    if eh {
        put(&mut sec, 0, 4, be);
    }
    sec
}

/// `Debug` output without whitespace and without the `base_id` fields of the id types (a per-table counter in
/// builds with debug assertions, `()` otherwise)
fn canon_debug(s: &str) -> String {
    let s: String = s.chars().filter(|c| !c.is_whitespace()).collect();
    let mut out = String::new();
    let mut rest = &s[..];
    while let Some(k) = rest.find("base_id:") {
        out.push_str(&rest[..k]);
        let after = &rest[k..];
        let end = after.find(',').map(|e| e + 1).unwrap_or(after.len());
        rest = &after[end..];
    }
    out.push_str(rest);
    out
}
/// the scalar after `key` (up to the next `,` or `}`)
fn field_after(s: &str, key: &str) -> String {
    match s.find(key) {
        Some(k) => {
            let r = &s[k + key.len()..];
            let end = r.find(|c: char| c == ',' || c == '}').unwrap_or(r.len());
            r[..end].to_string()
        }
        None => "?".into(),
    }
}
/// the bracketed list after the first `key` at or after `from`; returns it and the position after it
fn list_after(s: &str, key: &str, from: usize) -> (String, usize) {
    let k = match s[from..].find(key) {
        Some(k) => from + k + key.len(),
        None => return ("?".into(), s.len()),
    };
    let b = s.as_bytes();
    let mut depth = 0i32;
    let mut j = k;
    while j < b.len() {
        match b[j] {
            b'[' => depth += 1,
            b']' => {
                depth -= 1;
                if depth == 0 {
                    return (s[k..=j].to_string(), j + 1);
                }
            }
            _ => {}
        }
        j += 1;
    }
    ("?".into(), s.len())
}
/// ConvertError with Read(e) / Write(e) flattened to the inner variant name
fn cerr(e: &write::ConvertError) -> String {
    let s = format!("{:?}", e);
    if let Some(rest) = s.strip_prefix("Read(").or_else(|| s.strip_prefix("Write(")) {
        let end = rest.find(|ch: char| ch == '(' || ch == '{' || ch == ' ' || ch == ')').unwrap_or(rest.len());
        rest[..end].to_string()
    } else {
        errname(e)
    }
}
/// the address conversion callbacks the streams use: 0 = constant; 1 = additionally None for 0xdead;
/// 2 = additionally a symbol for addresses >= 2^31
fn cvt_mode(mode: u64, a: u64) -> Option<Address> {
    if mode >= 1 && a == 0xdead {
        return None;
    }
    if mode >= 2 && a >= 0x8000_0000 {
        return Some(Address::Symbol { symbol: 1, addend: (a - 0x8000_0000) as i64 });
    }
    Some(Address::Constant(a))
}

/// A unit of four DIEs — root (DW_TAG_compile_unit; DW_AT_low_pc when low_pc != 0; DW_AT_addr_base 8 in DWARF 5),
/// two base types and a DIE carrying `attr` (name, form, data bytes) — converted up to the point where the
/// ConvertUnit and its root entry are available.
#[allow(clippy::too_many_arguments)]
fn unit_sections(be: bool, asz: usize, version: u16, low_pc: u64, attr: &[(u64, u64, Vec<u8>, i64)], debug_addr: &[u8],
                 lists: &[u8], debug_line: &[u8]) -> Secs {
    // abbreviations
    let mut abbrev: Vec<u8> = vec![1, 0x11, 1];
    if low_pc != 0 {
        abbrev.extend_from_slice(&[0x11, 0x01]);
    }
    if version >= 5 {
        abbrev.extend_from_slice(&[0x73, 0x17]);
    }
    if !debug_line.is_empty() {
        abbrev.extend_from_slice(&[0x10, if version >= 4 { 0x17 } else { 0x06 }]);
    }
    abbrev.extend_from_slice(&[0, 0]);
    abbrev.extend_from_slice(&[2, 0x24, 0, 0x0b, 0x0b, 0, 0]);
    abbrev.extend_from_slice(&[3, 0x34, 0]);
    for (name, form, _, ic) in attr {
        uleb(*name, &mut abbrev);
        uleb(*form, &mut abbrev);
        if *form == 0x21 {
            sleb(*ic, &mut abbrev);
        }
    }
    abbrev.extend_from_slice(&[0, 0, 0]);
    // DIEs
    let mut dies = vec![1u8];
    if low_pc != 0 {
        put(&mut dies, low_pc, asz, be);
    }
    if version >= 5 {
        put(&mut dies, 8, 4, be);
    }
    if !debug_line.is_empty() {
        put(&mut dies, 0, 4, be);
    }
    dies.extend_from_slice(&[2, 4, 2, 8, 3]);
    for (_, _, data, _) in attr {
        dies.extend_from_slice(data);
    }
    dies.push(0);
    let mut unit = Vec::new();
    put(&mut unit, u64::from(version), 2, be);
    if version >= 5 {
        unit.push(1);
        unit.push(asz as u8);
        put(&mut unit, 0, 4, be);
    } else {
        put(&mut unit, 0, 4, be);
        unit.push(asz as u8);
    }
    unit.extend_from_slice(&dies);
    let mut info = Vec::new();
    put(&mut info, unit.len() as u64, 4, be);
    info.extend_from_slice(&unit);
    let mut secs = Secs::new();
    secs.insert(SectionId::DebugInfo, info);
    secs.insert(SectionId::DebugAbbrev, abbrev);
    secs.insert(SectionId::DebugAddr, debug_addr.to_vec());
    if version >= 5 {
        secs.insert(SectionId::DebugRngLists, lists.to_vec());
        secs.insert(SectionId::DebugLocLists, lists.to_vec());
    } else {
        secs.insert(SectionId::DebugRanges, lists.to_vec());
        secs.insert(SectionId::DebugLoc, lists.to_vec());
    }
    secs.insert(SectionId::DebugLine, debug_line.to_vec());
    secs
}

/// convert up to the point where the ConvertUnit and its root entry are available, then run the body
macro_rules! with_unit {
    ($secs:expr, $en:expr, $unit:ident, $root:ident, $body:block) => {{
        let rd = load_dwarf(&$secs, $en);
        let mut out = write::Dwarf::new();
        let mut conv = match out.convert(&rd) {
            Ok(c) => c,
            Err(x) => return format!("setup-err convert:{}", cerr(&x)),
        };
        let r: String = match conv.read_unit() {
            #[allow(unused_mut)]
            Ok(Some((mut $unit, $root))) => $body,
            Ok(None) => "setup-err no-unit".into(),
            Err(x) => format!("setup-err read_unit:{}", cerr(&x)),
        };
        r
    }};
}

pub fn run(t: &[&str]) -> String {
    dump::EMPTY_LINE_PROGRAM_IS_NOTHING.store(true, std::sync::atomic::Ordering::Relaxed);
    let r = run_inner(t);
    dump::EMPTY_LINE_PROGRAM_IS_NOTHING.store(false, std::sync::atomic::Ordering::Relaxed);
    r
}

fn run_inner(t: &[&str]) -> String {
    match t[0] {
        "c12.lineconv" => lineconv::run(t),
        // c12.corpus <variant> units|ehframe|debugframe
        "c12.corpus" => {
            let secs = load_variant(t[1]);
            if secs.is_empty() {
                return format!("missing-corpus {}", t[1]);
            }
            match t[2] {
                "units" => roundtrip(&secs, RunTimeEndian::Little),
                "ehframe" => match secs.get(&SectionId::EhFrame) {
                    Some(d) => cfi_roundtrip(true, d, RunTimeEndian::Little, 8),
                    None => "ok skip no-eh_frame".into(),
                },
                _ => match secs.get(&SectionId::DebugFrame) {
                    Some(d) => cfi_roundtrip(false, d, RunTimeEndian::Little, 8),
                    None => "ok skip no-debug_frame".into(),
                },
            }
        }
        // c12.arith off|foff|fac|adv <a> <b> <c> — one conversion arithmetic step observed through
        // FrameTable::from + write + read (ties Model/ConvertArith.v to write::cfi::convert)
        "c12.arith" => {
            let kind = t[1];
            let (caf, daf, cie_insns, fde_insns): (u64, i64, Vec<u8>, Vec<u8>) = match kind {
                "off" => {
                    let mut f = vec![0x0c, 7];
                    uleb(u(t[2]), &mut f);
                    (1, 1, vec![], f)
                }
                "foff" => {
                    let mut f = vec![0x12, 7];
                    sleb(i(t[2]), &mut f);
                    (1, i(t[3]), vec![], f)
                }
                "fac" => (u(t[2]), i(t[3]), vec![], vec![0x0c, 7, 8]),
                _ => {
                    // advance_loc4 delta ; def_cfa_offset 8   (initial offset = t[2] via a first advance)
                    let mut f = vec![0x0c, 7, 0];
                    f.push(0x04);
                    put(&mut f, u(t[2]), 4, false);
                    f.extend_from_slice(&[0x0e, 1]);
                    f.push(0x04);
                    put(&mut f, u(t[3]), 4, false);
                    f.extend_from_slice(&[0x0e, 8]);
                    (u(t[4]), 1, vec![], f)
                }
            };
            // .debug_frame, version 3 (ULEB return register), address size 8
            let mut cie = Vec::new();
            put(&mut cie, 0xffff_ffff, 4, false);
            cie.push(3);
            cie.push(0);
            uleb(caf, &mut cie);
            sleb(daf, &mut cie);
            uleb(16, &mut cie);
            cie.extend_from_slice(&cie_insns);
            while (cie.len() + 4) % 8 != 0 {
                cie.push(0);
            }
            let mut sec = Vec::new();
            put(&mut sec, cie.len() as u64, 4, false);
            sec.extend_from_slice(&cie);
            let mut fde = Vec::new();
            put(&mut fde, 0, 4, false);
            put(&mut fde, 0, 8, false);
            put(&mut fde, 0xffff_ffff, 8, false);
            fde.extend_from_slice(&fde_insns);
            while (fde.len() + 4) % 8 != 0 {
                fde.push(0);
            }
            put(&mut sec, fde.len() as u64, 4, false);
            sec.extend_from_slice(&fde);
            let rd = gimli::DebugFrame::new(&sec, RunTimeEndian::Little);
            let table = match write::FrameTable::from(&rd, &|a| Some(Address::Constant(a))) {
                Ok(t) => t,
                Err(x) => return format!("err {}", errname(&x)),
            };
            let mut w = write::DebugFrame::from(EndianVec::new(RunTimeEndian::Little));
            if let Err(x) = table.write_debug_frame(&mut w) {
                return format!("writeerr {}", errname(&x));
            }
            let bytes = w.slice().to_vec();
            let back = gimli::DebugFrame::new(&bytes, RunTimeEndian::Little);
            let bases = BaseAddresses::default();
            let mut ctx: gimli::UnwindContext<usize> = gimli::UnwindContext::new();
            let mut it = back.entries(&bases);
            use gimli::UnwindSection;
            while let Ok(Some(e)) = it.next() {
                if let gimli::CieOrFde::Fde(p) = e {
                    let fde = match p.parse(|s, b, o| s.cie_from_offset(b, o)) {
                        Ok(f) => f,
                        Err(x) => return format!("reread-mismatch {}", errname(&x)),
                    };
                    if kind == "fac" {
                        return format!("ok {} {}", fde.cie().code_alignment_factor(), fde.cie().data_alignment_factor());
                    }
                    let mut rows = match fde.rows(&back, &bases, &mut ctx) {
                        Ok(r) => r,
                        Err(x) => return format!("reread-mismatch {}", errname(&x)),
                    };
                    let mut last = String::from("norow");
                    let mut starts = Vec::new();
                    while let Ok(Some(row)) = rows.next_row() {
                        starts.push(row.start_address());
                        if let gimli::CfaRule::RegisterAndOffset { offset, .. } = row.cfa() {
                            last = format!("ok {}", offset);
                        }
                    }
                    if kind == "adv" {
                        return format!("ok {}", starts.last().copied().unwrap_or(0));
                    }
                    return last;
                }
            }
            "reread-mismatch no-fde".into()
        }
        // c12.dumpout <variant> <dir> — debugging aid: write the converted sections as files
        "c12.dumpout" => {
            let secs = load_variant(t[1]);
            let din = load_dwarf(&secs, RunTimeEndian::Little);
            let mut w = match convert(&din) {
                Ok(w) => w,
                Err(x) => return format!("err {:?}", x),
            };
            let out = write_sections(&mut w, RunTimeEndian::Little).unwrap();
            std::fs::create_dir_all(t[2]).unwrap();
            for (id, data) in &out {
                std::fs::write(format!("{}/{}", t[2], id.name().trim_start_matches('.')), data).unwrap();
            }
            let dout = load_dwarf(&out, RunTimeEndian::Little);
            let mut w2 = convert(&dout).unwrap();
            let out2 = write_sections(&mut w2, RunTimeEndian::Little).unwrap();
            std::fs::create_dir_all(format!("{}/second", t[2])).unwrap();
            for (id, data) in &out2 {
                std::fs::write(format!("{}/second/{}", t[2], id.name().trim_start_matches('.')), data).unwrap();
            }
            "ok".into()
        }
        // c12.cfi <eh:0|1> <be> <asz 4|8> <version> <caf> <daf> <ra> <cie-insns hex> <initial> <range> <fde-insns hex>
        // the harness assembles a one-CIE one-FDE section from the abstract parameters
        "c12.cfi" => {
            let eh = t[1] == "1";
            let be = t[2] == "1";
            let endian = endian(t[2]);
            let asz: usize = t[3].parse().unwrap();
            let version: u8 = t[4].parse().unwrap();
            let caf = u(t[5]);
            let daf = i(t[6]);
            let ra = u(t[7]);
            let cie_insns = hex(t[8]);
            let initial = u(t[9]);
            let range = u(t[10]);
            let fde_insns = hex(t[11]);
            let sec = frame_section(eh, be, asz, version, caf, daf, ra, &cie_insns, initial, range, &fde_insns);
            cfi_roundtrip(eh, &sec, endian, asz as u8)
        }
        // c12.line <be> <asz> <version 2..4> <min_inst_len> <max_ops> <line_base> <line_range> <opcode_base> <program hex>
        // one v2-4 line program with one file, wrapped in a minimal unit so that Dwarf::from converts it
        "c12.line" | "c12.vliw" => {
            let be = t[1] == "1";
            let endian = endian(t[1]);
            let asz: usize = t[2].parse().unwrap();
            let version: u16 = t[3].parse().unwrap();
            let min_len: u8 = t[4].parse().unwrap();
            let max_ops: u8 = t[5].parse().unwrap();
            let line_base: i8 = t[6].parse().unwrap();
            let line_range: u8 = t[7].parse().unwrap();
            let opcode_base: u8 = t[8].parse().unwrap();
            let program = hex(t[9]);
            // header
            let mut hdr_rest = Vec::new(); // after header_length
            hdr_rest.push(min_len);
            if version >= 4 {
                hdr_rest.push(max_ops);
            }
            hdr_rest.push(1); // default_is_stmt
            hdr_rest.push(line_base as u8);
            hdr_rest.push(line_range);
            hdr_rest.push(opcode_base);
            let std_lens: [u8; 12] = [0, 1, 1, 1, 1, 0, 0, 0, 1, 0, 0, 1];
            for k in 1..opcode_base {
                hdr_rest.push(if (k as usize) <= 12 { std_lens[k as usize - 1] } else { 0 });
            }
            hdr_rest.extend_from_slice(b"dir1\0\0"); // include_directories
            hdr_rest.extend_from_slice(b"a.c\0\x01\0\0"); // file 1: dir 1
            hdr_rest.extend_from_slice(b"b.c\0\0\0\0\0"); // file 2: dir 0 + terminator
            let mut body = Vec::new();
            put(&mut body, u64::from(version), 2, be);
            put(&mut body, hdr_rest.len() as u64, 4, be);
            body.extend_from_slice(&hdr_rest);
            body.extend_from_slice(&program);
            let mut line = Vec::new();
            put(&mut line, body.len() as u64, 4, be);
            line.extend_from_slice(&body);
            // unit: DW_TAG_compile_unit with name, comp_dir, stmt_list, low_pc
            let abbrev: Vec<u8> = vec![1, 0x11, 0, 0x03, 0x08, 0x1b, 0x08, 0x10, if version >= 4 { 0x17 } else { 0x06 }, 0x11, 0x01, 0, 0, 0];
            let mut die = vec![1u8];
            die.extend_from_slice(b"a.c\0");
            die.extend_from_slice(b"/comp\0");
            put(&mut die, 0, 4, be);
            put(&mut die, 0, asz, be);
            let mut unit = Vec::new();
            put(&mut unit, u64::from(version), 2, be);
            put(&mut unit, 0, 4, be);
            unit.push(asz as u8);
            unit.extend_from_slice(&die);
            let mut info = Vec::new();
            put(&mut info, unit.len() as u64, 4, be);
            info.extend_from_slice(&unit);
            let mut secs = Secs::new();
            secs.insert(SectionId::DebugInfo, info);
            secs.insert(SectionId::DebugAbbrev, abbrev);
            secs.insert(SectionId::DebugLine, line);
            let r = roundtrip(&secs, endian);
            if r.starts_with("convert-mismatch ") && midseq_set_address(&secs, endian, asz as u8) {
                // known class: DW_LNE_set_address that is not the first address-affecting instruction
                let classes: Vec<String> = r["convert-mismatch ".len()..]
                    .split(',')
                    .map(|c| format!("{}:midseq-setaddress", c))
                    .collect();
                return format!("convert-mismatch {}", classes.join(","));
            }
            r
        }
        // ---- correspondence with the converter models (Model/Convert{Cfi,Expr,Lists,Attr}.v) ----
        // c12.cficonv <be> <asz> <version> <caf> <daf> <cie-insns hex> <fde-insns hex>
        // FrameTable::from on a one-CIE one-FDE .debug_frame; prints the converted instruction lists
        // c12.line5 <be> <asz 4|8> <fmt 4|8> <version 2..5> <flags: 1 timestamp, 2 size, 4 md5, 8 source> <nfiles> <seed>
        // A unit whose line program is built with gimli::write (every combination of the optional DWARF 5 file
        // entry fields, several directories and files with distinct infos, rows naming every file), then
        // read, converted, written and read again: same meaning, and the second conversion is a fixpoint.
        "c12.line5" => {
            let be = t[1] == "1";
            let endian = if be { RunTimeEndian::Big } else { RunTimeEndian::Little };
            let asz: u8 = t[2].parse().unwrap_or(8);
            let format = if t[3] == "8" { gimli::Format::Dwarf64 } else { gimli::Format::Dwarf32 };
            let version: u16 = t[4].parse().unwrap_or(5);
            let flags = u(t[5]);
            let nfiles = u(t[6]) as usize;
            let mut rng = Rng(u(t[7]));
            let encoding = gimli::Encoding { format, version, address_size: asz };
            let mut dwarf = write::Dwarf::new();
            let ls = |v: &str, d: &mut write::Dwarf| write::LineString::new(v.as_bytes().to_vec(), encoding, &mut d.line_strings);
            let info = |i: u64, rng: &mut Rng, d: &mut write::Dwarf| {
                let mut md5 = [0u8; 16];
                for (j, b) in md5.iter_mut().enumerate() {
                    *b = (i as u8).wrapping_mul(17).wrapping_add(j as u8 + 1);
                }
                write::FileInfo {
                    timestamp: 1000 + i * 7 + rng.below(3),
                    size: 50 + i * 11,
                    md5,
                    source: if flags & 8 != 0 { Some(ls(&format!("source text {}", i), d)) } else { None },
                }
            };
            let wd = ls("/work/dir", &mut dwarf);
            let sf = ls("main.c", &mut dwarf);
            let fi0 = info(0, &mut rng, &mut dwarf);
            let mut program = write::LineProgram::new(encoding, gimli::LineEncoding::default(), wd, None, sf, Some(fi0));
            program.file_has_timestamp = flags & 1 != 0;
            program.file_has_size = flags & 2 != 0;
            program.file_has_md5 = flags & 4 != 0;
            program.file_has_source = flags & 8 != 0;
            let mut dirs = vec![program.default_directory()];
            for i in 0..2 {
                let d = ls(&format!("sub{}", i), &mut dwarf);
                dirs.push(program.add_directory(d));
            }
            let mut files = Vec::new();
            for i in 0..nfiles {
                let name = ls(&format!("f{}.c", i), &mut dwarf);
                let fi = info(i as u64 + 1, &mut rng, &mut dwarf);
                let dir = dirs[rng.below(dirs.len() as u64) as usize];
                files.push(program.add_file(name, dir, Some(fi)));
            }
            program.begin_sequence(Some(Address::Constant(0x1000)));
            let mut off = 0u64;
            for (i, f) in files.iter().enumerate() {
                program.row().file = *f;
                program.row().line = 10 + i as u64 * 3;
                program.row().address_offset = off;
                program.generate_row();
                off += 4 + rng.below(8);
            }
            program.end_sequence(off + 4);
            let uid = dwarf.units.add(write::Unit::new(encoding, program));
            {
                let unit = dwarf.units.get_mut(uid);
                let root = unit.root();
                unit.get_mut(root).set(gimli::DW_AT_name, write::AttributeValue::String(b"main.c".to_vec()));
                unit.get_mut(root).set(gimli::DW_AT_stmt_list, write::AttributeValue::LineProgramRef);
                if let Some(f) = files.first() {
                    let v = unit.add(root, gimli::DW_TAG_variable);
                    unit.get_mut(v).set(gimli::DW_AT_name, write::AttributeValue::String(b"v".to_vec()));
                    unit.get_mut(v).set(gimli::DW_AT_decl_file, write::AttributeValue::FileIndex(Some(*f)));
                }
            }
            let secs = match write_sections(&mut dwarf, endian) {
                Ok(s) => s,
                Err(x) => return format!("ok skip input-unbuildable:{}", errname(&x)),
            };
            roundtrip(&secs, endian)
        }
        "c12.cficonv" => {
            let asz: usize = t[2].parse().unwrap();
            let sec = frame_section(false, t[1] == "1", asz, t[3].parse().unwrap(), u(t[4]), i(t[5]), 16,
                                    &hex(t[6]), 0x1000, 0x10000, &hex(t[7]));
            let mut rd = gimli::DebugFrame::new(&sec, endian(t[1]));
            rd.set_address_size(asz as u8);
            match write::FrameTable::from(&rd, &|a| Some(Address::Constant(a))) {
                Ok(tb) => {
                    let d = canon_debug(&format!("{:?}", tb));
                    let caf = field_after(&d, "code_alignment_factor:");
                    let daf = field_after(&d, "data_alignment_factor:");
                    let (cie, at) = list_after(&d, "instructions:", 0);
                    let (fde, _) = list_after(&d, "instructions:", at);
                    format!("ok {} {} {} {}", caf, daf, cie, fde)
                }
                Err(x) => format!("err {}", cerr(&x)),
            }
        }
        // c12.exprconv cfi <be> <asz> <version> <addrmode> <expr hex>
        //   Expression::from reached through DW_CFA_def_cfa_expression (no unit: addrx/constx unsupported, no references)
        // c12.exprconv unit <be> <asz> <version> <addrmode> <debug_addr hex> <expr hex>
        //   ConvertUnit::convert_expression in a unit with four DIEs (root, two base types, a variable)
        "c12.exprconv" => {
            let be = t[2] == "1";
            let asz: usize = t[3].parse().unwrap();
            let version: u16 = t[4].parse().unwrap();
            let mode = u(t[5]);
            if t[1] == "cfi" {
                let expr = hex(t[6]);
                let mut f = vec![0x0f];
                uleb(expr.len() as u64, &mut f);
                f.extend_from_slice(&expr);
                let sec = frame_section(false, be, asz, version as u8, 1, 1, 16, &[], 0x1000, 0x10000, &f);
                let mut rd = gimli::DebugFrame::new(&sec, endian(t[2]));
                rd.set_address_size(asz as u8);
                return match write::FrameTable::from(&rd, &|a| cvt_mode(mode, a)) {
                    Ok(tb) => {
                        let d = canon_debug(&format!("{:?}", tb));
                        let (_, at) = list_after(&d, "instructions:", 0);
                        let (fde, _) = list_after(&d, "instructions:", at);
                        let (ops, _) = list_after(&fde, "operations:", 0);
                        format!("ok {}", ops)
                    }
                    Err(x) => format!("err {}", cerr(&x)),
                };
            }
            let debug_addr = hex(t[6]);
            let expr = hex(t[7]);
            let en = endian(t[2]);
            let secs = unit_sections(be, asz, version, 0, &[], &debug_addr, &[], &[]);
            with_unit!(secs, en, unit, root, {
                let e = gimli::Expression(EndianSlice::new(&expr, en));
                match unit.convert_expression(root.read_unit, e, &|a| cvt_mode(mode, a)) {
                    Ok(x) => {
                        let d = canon_debug(&format!("{:?}", x));
                        let (ops, _) = list_after(&d, "operations:", 0);
                        format!("ok {}", ops)
                    }
                    Err(x) => format!("err {}", cerr(&x)),
                }
            })
        }
        // c12.listconv rng|loc <be> <asz> <version> <addrmode> <low_pc> <debug_addr hex> <list section hex> <offset>
        //   ConvertUnit::convert_range_list / convert_location_list (RangeList::from / LocationList::from)
        "c12.listconv" => {
            let be = t[2] == "1";
            let asz: usize = t[3].parse().unwrap();
            let version: u16 = t[4].parse().unwrap();
            let mode = u(t[5]);
            let low_pc = u(t[6]);
            let debug_addr = hex(t[7]);
            let lists = hex(t[8]);
            let offset = u(t[9]) as usize;
            let en = endian(t[2]);
            let secs = unit_sections(be, asz, version, low_pc, &[], &debug_addr, &lists, &[]);
            with_unit!(secs, en, unit, root, {
                if t[1] == "rng" {
                    match unit.convert_range_list(root.read_unit, gimli::RangeListsOffset(offset), &|a| cvt_mode(mode, a)) {
                        Ok(l) => format!("ok {}", canon_debug(&format!("{:?}", l.0))),
                        Err(x) => format!("err {}", cerr(&x)),
                    }
                } else {
                    match unit.convert_location_list(root.read_unit, gimli::LocationListsOffset(offset), &|a| cvt_mode(mode, a)) {
                        Ok(l) => format!("ok {}", canon_debug(&format!("{:?}", l.0))),
                        Err(x) => format!("err {}", cerr(&x)),
                    }
                }
            })
        }
        // c12.attrconv <be> <asz> <version> <addrmode> <files: comma list of file ids or -> <debug_addr hex> <name> <form> <ic> <data hex>
        //   ConvertUnit::convert_attribute_value on the single attribute of the fourth DIE, after
        //   set_line_program with the given source-index -> FileId table
        "c12.attrconv" => {
            let be = t[1] == "1";
            let asz: usize = t[2].parse().unwrap();
            let version: u16 = t[3].parse().unwrap();
            let mode = u(t[4]);
            let perm: Vec<usize> = if t[5] == "-" { vec![] } else { t[5].split(',').map(|x| x.parse().unwrap()).collect() };
            let debug_addr = hex(t[6]);
            let name = u(t[7]);
            let form = u(t[8]);
            let ic = i(t[9]);
            let data = hex(t[10]);
            let en = endian(t[1]);
            let secs = unit_sections(be, asz, version, 0, &[(name, form, data, ic)], &debug_addr, &[], &[]);
            with_unit!(secs, en, unit, root, {
                // a line program with 8 distinct files: FileId(k) for k in 0..8
                let enc = gimli::Encoding { format: gimli::Format::Dwarf32, version, address_size: asz as u8 };
                let mut prog = write::LineProgram::new(enc, gimli::LineEncoding::default(),
                    write::LineString::String(b"/w".to_vec()), None, write::LineString::String(b"f0".to_vec()), None);
                let dir = prog.default_directory();
                let mut ids = vec![prog.add_file(write::LineString::String(b"f0".to_vec()), dir, None)];
                for k in 1..8 {
                    ids.push(prog.add_file(write::LineString::String(format!("f{}", k).into_bytes()), dir, None));
                }
                let files: Vec<write::FileId> = perm.iter().map(|&k| ids[k]).collect();
                unit.set_line_program(prog, files);
                let mut entry = root;
                let mut n = 0;
                let mut res = String::from("setup-err no-entry");
                loop {
                    match unit.read_entry(&mut entry) {
                        Ok(Some(_)) => {}
                        Ok(None) => break,
                        Err(x) => {
                            res = format!("setup-err read_entry:{}", cerr(&x));
                            break;
                        }
                    }
                    n += 1;
                    if n == 3 {
                        // metadata attributes are removed by filter_attributes: read the DIE again without the filter
                        let mut raw_entry = gimli::DebuggingInformationEntry::null();
                        let unfiltered = if entry.attrs.is_empty() {
                            match entry.read_unit.entries_raw(Some(entry.offset)) {
                                Ok(mut raw) => raw.read_entry(&mut raw_entry).is_ok(),
                                Err(_) => false,
                            }
                        } else {
                            false
                        };
                        let first = if unfiltered { raw_entry.attrs.first() } else { entry.attrs.first() };
                        res = match first {
                            None => "setup-err no-attr".into(),
                            Some(attr) => {
                                use gimli::AttributeValue as V;
                                let outside = attr.form() != gimli::DW_FORM_implicit_const
                                    && matches!(attr.value(),
                                        V::Exprloc(_) | V::UnitRef(_) | V::DebugInfoRef(_) | V::DebugLineRef(_)
                                        | V::LocationListsRef(_) | V::DebugLocListsIndex(_) | V::RangeListsRef(_)
                                        | V::DebugRngListsIndex(_) | V::DebugStrRef(_) | V::DebugStrOffsetsIndex(_)
                                        | V::DebugLineStrRef(_));
                                if outside {
                                    "ok outside".into()
                                } else {
                                    match unit.convert_attribute_value(entry.read_unit, attr, &|a| cvt_mode(mode, a)) {
                                        Ok(v) => format!("ok {}", canon_debug(&format!("{:?}", v))),
                                        Err(x) => format!("err {}", cerr(&x)),
                                    }
                                }
                            }
                        };
                        break;
                    }
                }
                res
            })
        }
        _ => format!("unknown-stream {}", t[0]),
    }
}
