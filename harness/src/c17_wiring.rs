// c17_wiring.rs — loader wiring (DwarfSections::load/borrow/borrow_with_sup, Dwarf::load/load_sup/borrow/
// make_dwo, DwarfPackageSections::load/borrow, DwarfPackage::load/find_cu/find_tu/sections): a loader returning a
// distinct marker per SectionId, then every field must hold exactly its own section's marker.
// Any deviation is reported as `wiring-mismatch <field>`.
use super::R;
use crate::util::*;
use gimli::{
    DebugTypeSignature, Dwarf, DwarfFileType, DwarfPackage, DwarfPackageSections, DwarfSections, DwoId,
    EndianSlice, Encoding, Format, IndexSectionId, LocationListsOffset, RangeListsOffset, RawLocListEntry,
    RawRngListEntry, Reader, ReaderOffsetId, RunTimeEndian, Section, SectionId,
};

const ALL_IDS: [SectionId; 23] = [
    SectionId::DebugAbbrev,
    SectionId::DebugAddr,
    SectionId::DebugAranges,
    SectionId::DebugCuIndex,
    SectionId::DebugFrame,
    SectionId::EhFrame,
    SectionId::EhFrameHdr,
    SectionId::DebugInfo,
    SectionId::DebugLine,
    SectionId::DebugLineStr,
    SectionId::DebugLoc,
    SectionId::DebugLocLists,
    SectionId::DebugMacinfo,
    SectionId::DebugMacro,
    SectionId::DebugNames,
    SectionId::DebugPubNames,
    SectionId::DebugPubTypes,
    SectionId::DebugRanges,
    SectionId::DebugRngLists,
    SectionId::DebugStr,
    SectionId::DebugStrOffsets,
    SectionId::DebugTuIndex,
    SectionId::DebugTypes,
];

fn ord(id: SectionId) -> usize {
    ALL_IDS.iter().position(|x| *x == id).unwrap()
}

fn tag_addr(tag: u8, id: SectionId) -> u64 {
    0x1000 + 0x100 * (tag as u64) + ord(id) as u64
}

/// marker bytes of a section: parseable one-entry lists for the four list sections, `<tag>:<name>` otherwise
fn marker(tag: u8, id: SectionId) -> Vec<u8> {
    let a = tag_addr(tag, id).to_le_bytes();
    let mut v = Vec::new();
    match id {
        SectionId::DebugLoc => {
            v.extend_from_slice(&a);
            v.extend_from_slice(&(tag_addr(tag, id) + 4).to_le_bytes());
            v.extend_from_slice(&[0, 0]);
            v.extend_from_slice(&[0u8; 16]);
        }
        SectionId::DebugRanges => {
            v.extend_from_slice(&a);
            v.extend_from_slice(&(tag_addr(tag, id) + 4).to_le_bytes());
            v.extend_from_slice(&[0u8; 16]);
        }
        SectionId::DebugLocLists => {
            v.push(0x08); // DW_LLE_start_length
            v.extend_from_slice(&a);
            v.extend_from_slice(&[4, 0, 0]);
        }
        SectionId::DebugRngLists => {
            v.push(0x07); // DW_RLE_start_length
            v.extend_from_slice(&a);
            v.extend_from_slice(&[4, 0]);
        }
        _ => {
            v.push(tag);
            v.push(b':');
            v.extend_from_slice(id.name().as_bytes());
        }
    }
    while v.len() < 72 {
        let k = v.len();
        v.push((k as u8).wrapping_mul(7) ^ tag ^ (ord(id) as u8));
    }
    v
}

struct Markers {
    tag: u8,
    bufs: Vec<Vec<u8>>,
}
impl Markers {
    fn new(tag: u8) -> Self {
        // slack bytes so that used ranges of different sections never touch
        Markers { tag, bufs: ALL_IDS.iter().map(|&id| { let mut m = marker(tag, id); m.extend_from_slice(&[0xee; 8]); m }).collect() }
    }
    fn get(&self, id: SectionId) -> &[u8] {
        let b = &self.bufs[ord(id)];
        &b[..b.len() - 8]
    }
    fn loader<'a>(&'a self) -> impl FnMut(SectionId) -> Result<R<'a>, gimli::Error> + 'a {
        move |id| Ok(EndianSlice::new(self.get(id), RunTimeEndian::Little))
    }
}

macro_rules! chk {
    ($what:expr, $got:expr, $want:expr) => {
        if $got != $want {
            return Err(format!("wiring-mismatch {}", $what));
        }
    };
}

fn enc(version: u16) -> Encoding {
    Encoding { format: Format::Dwarf32, version, address_size: 8 }
}

/// locations / ranges of a Dwarf hold the markers `loc`, `loclists`, `ranges`, `rnglists` (tags may differ)
fn check_lists(
    pfx: &str,
    d: &Dwarf<R>,
    loc: &[u8],
    loclists: &[u8],
    ranges: &[u8],
    rnglists: &[u8],
) -> Result<(), String> {
    chk!(format!("{}ranges.debug_ranges", pfx), d.ranges.debug_ranges().reader().slice(), ranges);
    chk!(format!("{}ranges.debug_rnglists", pfx), d.ranges.debug_rnglists().reader().slice(), rnglists);
    chk!(
        format!("{}ranges.debug_ranges(ptr)", pfx),
        d.ranges.debug_ranges().reader().slice().as_ptr(),
        ranges.as_ptr()
    );
    // locations has no accessors: identify the readers by address ...
    for (name, buf, want) in [
        ("debug_loc", loc, SectionId::DebugLoc),
        ("debug_loclists", loclists, SectionId::DebugLocLists),
    ] {
        let p = buf.as_ptr() as u64;
        chk!(format!("{}locations.{}", pfx, name), d.locations.lookup_offset_id(ReaderOffsetId(p + 1)), Some((want, 1)));
        chk!(
            format!("{}locations.{}(end)", pfx, name),
            d.locations.lookup_offset_id(ReaderOffsetId(p + buf.len() as u64)),
            Some((want, buf.len()))
        );
        chk!(
            format!("{}locations.{}(past end)", pfx, name),
            d.locations.lookup_offset_id(ReaderOffsetId(p + buf.len() as u64 + 1)),
            None
        );
    }
    // ... and by what they parse to
    let first8 = |b: &[u8], skip: usize| u64::from_le_bytes(b[skip..skip + 8].try_into().unwrap());
    match d.locations.raw_locations(LocationListsOffset(0), enc(4)).and_then(|mut i| i.next()) {
        Ok(Some(RawLocListEntry::AddressOrOffsetPair { begin, .. })) if begin == first8(loc, 0) => {}
        _ => return Err(format!("wiring-mismatch {}locations.debug_loc(parse)", pfx)),
    }
    match d.locations.raw_locations(LocationListsOffset(0), enc(5)).and_then(|mut i| i.next()) {
        Ok(Some(RawLocListEntry::StartLength { begin, .. })) if begin == first8(loclists, 1) => {}
        _ => return Err(format!("wiring-mismatch {}locations.debug_loclists(parse)", pfx)),
    }
    match d.ranges.raw_ranges(RangeListsOffset(0), enc(4)).and_then(|mut i| i.next()) {
        Ok(Some(RawRngListEntry::AddressOrOffsetPair { begin, .. })) if begin == first8(ranges, 0) => {}
        _ => return Err(format!("wiring-mismatch {}ranges.debug_ranges(parse)", pfx)),
    }
    match d.ranges.raw_ranges(RangeListsOffset(0), enc(5)).and_then(|mut i| i.next()) {
        Ok(Some(RawRngListEntry::StartLength { begin, .. })) if begin == first8(rnglists, 1) => {}
        _ => return Err(format!("wiring-mismatch {}ranges.debug_rnglists(parse)", pfx)),
    }
    Ok(())
}

/// every section field of `d` holds the marker of `m` (no dwo overrides)
fn check_dwarf(pfx: &str, d: &Dwarf<R>, m: &Markers) -> Result<(), String> {
    chk!(format!("{}debug_abbrev", pfx), d.debug_abbrev.reader().slice(), m.get(SectionId::DebugAbbrev));
    chk!(format!("{}debug_addr", pfx), d.debug_addr.reader().slice(), m.get(SectionId::DebugAddr));
    chk!(format!("{}debug_aranges", pfx), d.debug_aranges.reader().slice(), m.get(SectionId::DebugAranges));
    chk!(format!("{}debug_info", pfx), d.debug_info.reader().slice(), m.get(SectionId::DebugInfo));
    chk!(format!("{}debug_line", pfx), d.debug_line.reader().slice(), m.get(SectionId::DebugLine));
    chk!(format!("{}debug_line_str", pfx), d.debug_line_str.reader().slice(), m.get(SectionId::DebugLineStr));
    chk!(format!("{}debug_macinfo", pfx), d.debug_macinfo.reader().slice(), m.get(SectionId::DebugMacinfo));
    chk!(format!("{}debug_macro", pfx), d.debug_macro.reader().slice(), m.get(SectionId::DebugMacro));
    chk!(format!("{}debug_names", pfx), d.debug_names.reader().slice(), m.get(SectionId::DebugNames));
    chk!(format!("{}debug_str", pfx), d.debug_str.reader().slice(), m.get(SectionId::DebugStr));
    chk!(format!("{}debug_str_offsets", pfx), d.debug_str_offsets.reader().slice(), m.get(SectionId::DebugStrOffsets));
    chk!(format!("{}debug_types", pfx), d.debug_types.reader().slice(), m.get(SectionId::DebugTypes));
    check_lists(
        pfx,
        d,
        m.get(SectionId::DebugLoc),
        m.get(SectionId::DebugLocLists),
        m.get(SectionId::DebugRanges),
        m.get(SectionId::DebugRngLists),
    )
}

fn check_sections(pfx: &str, s: &DwarfSections<R>, m: &Markers) -> Result<(), String> {
    chk!(format!("{}debug_abbrev", pfx), s.debug_abbrev.reader().slice(), m.get(SectionId::DebugAbbrev));
    chk!(format!("{}debug_addr", pfx), s.debug_addr.reader().slice(), m.get(SectionId::DebugAddr));
    chk!(format!("{}debug_aranges", pfx), s.debug_aranges.reader().slice(), m.get(SectionId::DebugAranges));
    chk!(format!("{}debug_info", pfx), s.debug_info.reader().slice(), m.get(SectionId::DebugInfo));
    chk!(format!("{}debug_line", pfx), s.debug_line.reader().slice(), m.get(SectionId::DebugLine));
    chk!(format!("{}debug_line_str", pfx), s.debug_line_str.reader().slice(), m.get(SectionId::DebugLineStr));
    chk!(format!("{}debug_macinfo", pfx), s.debug_macinfo.reader().slice(), m.get(SectionId::DebugMacinfo));
    chk!(format!("{}debug_macro", pfx), s.debug_macro.reader().slice(), m.get(SectionId::DebugMacro));
    chk!(format!("{}debug_names", pfx), s.debug_names.reader().slice(), m.get(SectionId::DebugNames));
    chk!(format!("{}debug_str", pfx), s.debug_str.reader().slice(), m.get(SectionId::DebugStr));
    chk!(format!("{}debug_str_offsets", pfx), s.debug_str_offsets.reader().slice(), m.get(SectionId::DebugStrOffsets));
    chk!(format!("{}debug_types", pfx), s.debug_types.reader().slice(), m.get(SectionId::DebugTypes));
    chk!(format!("{}debug_loc", pfx), s.debug_loc.reader().slice(), m.get(SectionId::DebugLoc));
    chk!(format!("{}debug_loclists", pfx), s.debug_loclists.reader().slice(), m.get(SectionId::DebugLocLists));
    chk!(format!("{}debug_ranges", pfx), s.debug_ranges.reader().slice(), m.get(SectionId::DebugRanges));
    chk!(format!("{}debug_rnglists", pfx), s.debug_rnglists.reader().slice(), m.get(SectionId::DebugRngLists));
    Ok(())
}

const DWARF_ORDER: [SectionId; 16] = [
    SectionId::DebugAbbrev,
    SectionId::DebugAddr,
    SectionId::DebugAranges,
    SectionId::DebugInfo,
    SectionId::DebugLine,
    SectionId::DebugLineStr,
    SectionId::DebugMacinfo,
    SectionId::DebugMacro,
    SectionId::DebugNames,
    SectionId::DebugStr,
    SectionId::DebugStrOffsets,
    SectionId::DebugTypes,
    SectionId::DebugLoc,
    SectionId::DebugLocLists,
    SectionId::DebugRanges,
    SectionId::DebugRngLists,
];
const PACKAGE_ORDER: [SectionId; 13] = [
    SectionId::DebugCuIndex,
    SectionId::DebugTuIndex,
    SectionId::DebugAbbrev,
    SectionId::DebugInfo,
    SectionId::DebugLine,
    SectionId::DebugMacinfo,
    SectionId::DebugMacro,
    SectionId::DebugStr,
    SectionId::DebugStrOffsets,
    SectionId::DebugLoc,
    SectionId::DebugLocLists,
    SectionId::DebugRngLists,
    SectionId::DebugTypes,
];

/// An owned section that remembers which id it was loaded for (a `T` that is not a `Reader`).
struct Owned {
    id: SectionId,
    data: Vec<u8>,
}

fn owned_loader(tag: u8) -> impl FnMut(SectionId) -> Result<Owned, gimli::Error> {
    move |id| {
        let mut data = marker(tag, id);
        data.extend_from_slice(&[0xee; 8]);
        Ok(Owned { id, data })
    }
}
fn owned_slice(o: &Owned) -> R<'_> {
    EndianSlice::new(&o.data[..o.data.len() - 8], RunTimeEndian::Little)
}

/// check a Dwarf borrowed from owned sections: content equality against fresh markers of `tag`
fn check_dwarf_by_content(pfx: &str, d: &Dwarf<R>, tag: u8) -> Result<(), String> {
    let m = Markers::new(tag);
    chk!(format!("{}debug_abbrev", pfx), d.debug_abbrev.reader().slice(), m.get(SectionId::DebugAbbrev));
    chk!(format!("{}debug_addr", pfx), d.debug_addr.reader().slice(), m.get(SectionId::DebugAddr));
    chk!(format!("{}debug_aranges", pfx), d.debug_aranges.reader().slice(), m.get(SectionId::DebugAranges));
    chk!(format!("{}debug_info", pfx), d.debug_info.reader().slice(), m.get(SectionId::DebugInfo));
    chk!(format!("{}debug_line", pfx), d.debug_line.reader().slice(), m.get(SectionId::DebugLine));
    chk!(format!("{}debug_line_str", pfx), d.debug_line_str.reader().slice(), m.get(SectionId::DebugLineStr));
    chk!(format!("{}debug_macinfo", pfx), d.debug_macinfo.reader().slice(), m.get(SectionId::DebugMacinfo));
    chk!(format!("{}debug_macro", pfx), d.debug_macro.reader().slice(), m.get(SectionId::DebugMacro));
    chk!(format!("{}debug_names", pfx), d.debug_names.reader().slice(), m.get(SectionId::DebugNames));
    chk!(format!("{}debug_str", pfx), d.debug_str.reader().slice(), m.get(SectionId::DebugStr));
    chk!(format!("{}debug_str_offsets", pfx), d.debug_str_offsets.reader().slice(), m.get(SectionId::DebugStrOffsets));
    chk!(format!("{}debug_types", pfx), d.debug_types.reader().slice(), m.get(SectionId::DebugTypes));
    chk!(format!("{}ranges.debug_ranges", pfx), d.ranges.debug_ranges().reader().slice(), m.get(SectionId::DebugRanges));
    chk!(format!("{}ranges.debug_rnglists", pfx), d.ranges.debug_rnglists().reader().slice(), m.get(SectionId::DebugRngLists));
    let first8 = |b: &[u8], skip: usize| u64::from_le_bytes(b[skip..skip + 8].try_into().unwrap());
    match d.locations.raw_locations(LocationListsOffset(0), enc(4)).and_then(|mut i| i.next()) {
        Ok(Some(RawLocListEntry::AddressOrOffsetPair { begin, .. })) if begin == first8(m.get(SectionId::DebugLoc), 0) => {}
        _ => return Err(format!("wiring-mismatch {}locations.debug_loc", pfx)),
    }
    match d.locations.raw_locations(LocationListsOffset(0), enc(5)).and_then(|mut i| i.next()) {
        Ok(Some(RawLocListEntry::StartLength { begin, .. })) if begin == first8(m.get(SectionId::DebugLocLists), 1) => {}
        _ => return Err(format!("wiring-mismatch {}locations.debug_loclists", pfx)),
    }
    Ok(())
}

// ---- package helpers

fn le32(v: &mut Vec<u8>, x: u32) {
    v.extend_from_slice(&x.to_le_bytes());
}

/// an index with one unit (row 1, id `id`) and the given columns; contribution j = (base + 2j, base + 2 + j)
fn mk_index_at(v2: bool, cols: &[u32], id: u64, slots: u32, base: u32) -> Vec<u8> {
    let mut v = Vec::new();
    if v2 {
        le32(&mut v, 2);
    } else {
        v.extend_from_slice(&[5, 0, 0, 0]);
    }
    le32(&mut v, cols.len() as u32);
    le32(&mut v, 1);
    le32(&mut v, slots);
    let mask = (slots - 1) as u64;
    let pos = id & mask;
    for s in 0..slots as u64 {
        v.extend_from_slice(&(if s == pos { id } else { 0 }).to_le_bytes());
    }
    for s in 0..slots as u64 {
        le32(&mut v, if s == pos { 1 } else { 0 });
    }
    for c in cols {
        le32(&mut v, *c);
    }
    for j in 0..cols.len() as u32 {
        le32(&mut v, base + 2 * j);
    }
    for j in 0..cols.len() as u32 {
        le32(&mut v, base + 2 + j);
    }
    v
}
fn mk_index(v2: bool, cols: &[u32], id: u64, slots: u32) -> Vec<u8> {
    mk_index_at(v2, cols, id, slots, 3)
}

fn package_unit(v2: bool, mask: u32) -> Result<(), String> {
    let codes: &[(u32, IndexSectionId)] = if v2 {
        &[
            (1, IndexSectionId::DebugInfo),
            (2, IndexSectionId::DebugTypes),
            (3, IndexSectionId::DebugAbbrev),
            (4, IndexSectionId::DebugLine),
            (5, IndexSectionId::DebugLoc),
            (6, IndexSectionId::DebugStrOffsets),
            (7, IndexSectionId::DebugMacinfo),
            (8, IndexSectionId::DebugMacro),
        ]
    } else {
        &[
            (1, IndexSectionId::DebugInfo),
            (3, IndexSectionId::DebugAbbrev),
            (4, IndexSectionId::DebugLine),
            (5, IndexSectionId::DebugLocLists),
            (6, IndexSectionId::DebugStrOffsets),
            (7, IndexSectionId::DebugMacro),
            (8, IndexSectionId::DebugRngLists),
        ]
    };
    let chosen: Vec<(u32, IndexSectionId)> =
        codes.iter().enumerate().filter(|(i, _)| mask & (1 << i) != 0).map(|(_, c)| *c).collect();
    let cols: Vec<u32> = chosen.iter().map(|c| c.0).collect();
    let cu_id = 0x1234_5678_9abc_def1u64;
    let tu_id = 0x0fed_cba9_8765_4322u64;
    let cu_index = mk_index(v2, &cols, cu_id, 4);
    // the two indexes give the same row number different contributions
    let tu_index = mk_index_at(v2, &cols, tu_id, 8, 4);
    let dm = Markers::new(b'D');
    let pm = Markers::new(b'P');
    let sm = Markers::new(b'S');
    let empty_buf = [0u8; 16];
    let empty: R = EndianSlice::new(&empty_buf[8..8], RunTimeEndian::Little);
    let loader = |id: SectionId| -> Result<R, gimli::Error> {
        Ok(match id {
            SectionId::DebugCuIndex => EndianSlice::new(&cu_index[..], RunTimeEndian::Little),
            SectionId::DebugTuIndex => EndianSlice::new(&tu_index[..], RunTimeEndian::Little),
            _ => EndianSlice::new(dm.get(id), RunTimeEndian::Little),
        })
    };
    let dwp = DwarfPackage::load(loader, empty).map_err(|e| format!("wiring-mismatch package load {}", errname(&e)))?;
    let mut parent: Dwarf<R> = Dwarf::load(pm.loader()).unwrap();
    parent.load_sup(sm.loader()).unwrap();
    // absent ids
    match dwp.find_cu(DwoId(tu_id), &parent) {
        Ok(None) => {}
        _ => return Err("wiring-mismatch find_cu(absent)".into()),
    }
    match dwp.find_tu(DebugTypeSignature(cu_id), &parent) {
        Ok(None) => {}
        _ => return Err("wiring-mismatch find_tu(absent)".into()),
    }
    let cu = dwp.find_cu(DwoId(cu_id), &parent);
    let tu = dwp.find_tu(DebugTypeSignature(tu_id), &parent);
    let by_row = dwp.cu_sections(1, &parent).map(Some);
    let tu_by_row = dwp.tu_sections(1, &parent).map(Some);
    for (what, res) in [("find_cu", cu), ("find_tu", tu), ("cu_sections", by_row), ("tu_sections", tu_by_row)] {
        let d: Dwarf<R> = match res {
            Ok(Some(d)) => d,
            Ok(None) => return Err(format!("wiring-mismatch {} not found", what)),
            Err(e) => return Err(format!("wiring-mismatch {} {}", what, errname(&e))),
        };
        // contribution of a kind: (base+2j, base+2+j) when it is column j, else (0, 0); base 3 in the CU index, 4 in the TU index
        let base: usize = if what == "find_tu" || what == "tu_sections" { 4 } else { 3 };
        let want = |k: IndexSectionId, sid: SectionId| -> &[u8] {
            match chosen.iter().position(|c| c.1 == k) {
                Some(j) => &dm.get(sid)[base + 2 * j..base + 2 * j + base + 2 + j],
                None => &dm.get(sid)[..0],
            }
        };
        let same = |got: &[u8], w: &[u8]| got == w && (got.as_ptr() == w.as_ptr());
        if !same(d.debug_abbrev.reader().slice(), want(IndexSectionId::DebugAbbrev, SectionId::DebugAbbrev)) {
            return Err(format!("wiring-mismatch {} debug_abbrev", what));
        }
        if !same(d.debug_info.reader().slice(), want(IndexSectionId::DebugInfo, SectionId::DebugInfo)) {
            return Err(format!("wiring-mismatch {} debug_info", what));
        }
        if !same(d.debug_line.reader().slice(), want(IndexSectionId::DebugLine, SectionId::DebugLine)) {
            return Err(format!("wiring-mismatch {} debug_line", what));
        }
        if !same(d.debug_macinfo.reader().slice(), want(IndexSectionId::DebugMacinfo, SectionId::DebugMacinfo)) {
            return Err(format!("wiring-mismatch {} debug_macinfo", what));
        }
        if !same(d.debug_macro.reader().slice(), want(IndexSectionId::DebugMacro, SectionId::DebugMacro)) {
            return Err(format!("wiring-mismatch {} debug_macro", what));
        }
        if !same(
            d.debug_str_offsets.reader().slice(),
            want(IndexSectionId::DebugStrOffsets, SectionId::DebugStrOffsets),
        ) {
            return Err(format!("wiring-mismatch {} debug_str_offsets", what));
        }
        if !same(d.debug_types.reader().slice(), want(IndexSectionId::DebugTypes, SectionId::DebugTypes)) {
            return Err(format!("wiring-mismatch {} debug_types", what));
        }
        if !same(
            d.ranges.debug_rnglists().reader().slice(),
            want(IndexSectionId::DebugRngLists, SectionId::DebugRngLists),
        ) {
            return Err(format!("wiring-mismatch {} ranges.debug_rnglists", what));
        }
        for (k, sid, name) in [
            (IndexSectionId::DebugLoc, SectionId::DebugLoc, "debug_loc"),
            (IndexSectionId::DebugLocLists, SectionId::DebugLocLists, "debug_loclists"),
        ] {
            let w = want(k, sid);
            let got = super::scan_range(|id| d.locations.lookup_offset_id(id), &dm.bufs[ord(sid)], sid);
            let start = w.as_ptr() as usize - dm.get(sid).as_ptr() as usize;
            if got != Some((start, w.len())) {
                return Err(format!("wiring-mismatch {} locations.{} got={:?} want={:?}", what, name, got, (start, w.len())));
            }
        }
        // whole sections
        chk!(format!("{} debug_str", what), d.debug_str.reader().slice(), dm.get(SectionId::DebugStr));
        chk!(format!("{} debug_addr", what), d.debug_addr.reader().slice(), pm.get(SectionId::DebugAddr));
        chk!(format!("{} ranges.debug_ranges", what), d.ranges.debug_ranges().reader().slice(), pm.get(SectionId::DebugRanges));
        chk!(format!("{} debug_aranges", what), d.debug_aranges.reader().len(), 0);
        chk!(format!("{} debug_line_str", what), d.debug_line_str.reader().len(), 0);
        chk!(format!("{} debug_names", what), d.debug_names.reader().len(), 0);
        chk!(format!("{} file_type", what), d.file_type, DwarfFileType::Dwo);
        match d.sup() {
            Some(s) => check_dwarf(&format!("{} sup.", what), s, &sm)?,
            None => return Err(format!("wiring-mismatch {} sup", what)),
        }
    }
    // rows out of range
    for row in [0u32, 2, u32::MAX] {
        match dwp.cu_sections(row, &parent) {
            Err(gimli::Error::InvalidIndexRow(r)) if r == row => {}
            _ => return Err(format!("wiring-mismatch cu_sections({})", row)),
        }
    }
    Ok(())
}

fn run_api(api: &str, arg: usize) -> Result<(), String> {
    let m = Markers::new(b'M');
    let s = Markers::new(b'S');
    match api {
        "sections_load" => {
            let secs: DwarfSections<R> = DwarfSections::load(m.loader()).unwrap();
            check_sections("DwarfSections.", &secs, &m)
        }
        "sections_borrow" => {
            let secs: DwarfSections<Owned> = DwarfSections::load(owned_loader(b'M')).unwrap();
            let d = secs.borrow(owned_slice);
            chk!("file_type", d.file_type, DwarfFileType::Main);
            chk!("sup", d.sup().is_none(), true);
            check_dwarf_by_content("borrow.", &d, b'M')
        }
        "sections_borrow_with_sup" => {
            let secs: DwarfSections<Owned> = DwarfSections::load(owned_loader(b'M')).unwrap();
            let sup: DwarfSections<Owned> = DwarfSections::load(owned_loader(b'S')).unwrap();
            let d = secs.borrow_with_sup(Some(&sup), owned_slice);
            check_dwarf_by_content("borrow_with_sup.", &d, b'M')?;
            match d.sup() {
                Some(x) => check_dwarf_by_content("borrow_with_sup.sup.", x, b'S')?,
                None => return Err("wiring-mismatch borrow_with_sup.sup".into()),
            }
            let d2 = secs.borrow_with_sup(None, owned_slice);
            chk!("borrow_with_sup(None).sup", d2.sup().is_none(), true);
            Ok(())
        }
        "dwarf_load" => {
            let d: Dwarf<R> = Dwarf::load(m.loader()).unwrap();
            chk!("file_type", d.file_type, DwarfFileType::Main);
            chk!("sup", d.sup().is_none(), true);
            check_dwarf("Dwarf.", &d, &m)
        }
        "dwarf_load_sup" => {
            let mut d: Dwarf<R> = Dwarf::load(m.loader()).unwrap();
            d.load_sup(s.loader()).unwrap();
            check_dwarf("Dwarf.", &d, &m)?;
            match d.sup() {
                Some(x) => check_dwarf("Dwarf.sup.", x, &s)?,
                None => return Err("wiring-mismatch Dwarf.sup".into()),
            }
            // a second load_sup replaces the first
            let s2 = Markers::new(b'T');
            d.load_sup(s2.loader()).unwrap();
            check_dwarf("Dwarf.sup(2).", d.sup().unwrap(), &s2)
        }
        "dwarf_borrow" => {
            let mut d: Dwarf<Owned> = Dwarf::load(owned_loader(b'M')).unwrap();
            d.load_sup(owned_loader(b'S')).unwrap();
            #[allow(deprecated)]
            let b = d.borrow(owned_slice);
            check_dwarf_by_content("Dwarf::borrow.", &b, b'M')?;
            match b.sup() {
                Some(x) => check_dwarf_by_content("Dwarf::borrow.sup.", x, b'S'),
                None => Err("wiring-mismatch Dwarf::borrow.sup".into()),
            }
        }
        "make_dwo" => {
            let p = Markers::new(b'P');
            let dm = Markers::new(b'D');
            let mut parent: Dwarf<R> = Dwarf::load(p.loader()).unwrap();
            parent.load_sup(s.loader()).unwrap();
            let mut d: Dwarf<R> = Dwarf::load(dm.loader()).unwrap();
            d.make_dwo(&parent);
            chk!("make_dwo.file_type", d.file_type, DwarfFileType::Dwo);
            chk!("make_dwo.debug_addr", d.debug_addr.reader().slice(), p.get(SectionId::DebugAddr));
            chk!("make_dwo.debug_abbrev", d.debug_abbrev.reader().slice(), dm.get(SectionId::DebugAbbrev));
            chk!("make_dwo.debug_aranges", d.debug_aranges.reader().slice(), dm.get(SectionId::DebugAranges));
            chk!("make_dwo.debug_info", d.debug_info.reader().slice(), dm.get(SectionId::DebugInfo));
            chk!("make_dwo.debug_line", d.debug_line.reader().slice(), dm.get(SectionId::DebugLine));
            chk!("make_dwo.debug_line_str", d.debug_line_str.reader().slice(), dm.get(SectionId::DebugLineStr));
            chk!("make_dwo.debug_macinfo", d.debug_macinfo.reader().slice(), dm.get(SectionId::DebugMacinfo));
            chk!("make_dwo.debug_macro", d.debug_macro.reader().slice(), dm.get(SectionId::DebugMacro));
            chk!("make_dwo.debug_names", d.debug_names.reader().slice(), dm.get(SectionId::DebugNames));
            chk!("make_dwo.debug_str", d.debug_str.reader().slice(), dm.get(SectionId::DebugStr));
            chk!("make_dwo.debug_str_offsets", d.debug_str_offsets.reader().slice(), dm.get(SectionId::DebugStrOffsets));
            chk!("make_dwo.debug_types", d.debug_types.reader().slice(), dm.get(SectionId::DebugTypes));
            check_lists(
                "make_dwo.",
                &d,
                dm.get(SectionId::DebugLoc),
                dm.get(SectionId::DebugLocLists),
                p.get(SectionId::DebugRanges),
                dm.get(SectionId::DebugRngLists),
            )?;
            match d.sup() {
                Some(x) => check_dwarf("make_dwo.sup.", x, &s)?,
                None => return Err("wiring-mismatch make_dwo.sup".into()),
            }
            // the parent is untouched
            check_dwarf("make_dwo.parent.", &parent, &p)
        }
        "package_sections_load" => {
            let ps: DwarfPackageSections<R> = DwarfPackageSections::load(m.loader()).unwrap();
            chk!("pkg.cu_index", ps.cu_index.reader().slice(), m.get(SectionId::DebugCuIndex));
            chk!("pkg.tu_index", ps.tu_index.reader().slice(), m.get(SectionId::DebugTuIndex));
            chk!("pkg.debug_abbrev", ps.debug_abbrev.reader().slice(), m.get(SectionId::DebugAbbrev));
            chk!("pkg.debug_info", ps.debug_info.reader().slice(), m.get(SectionId::DebugInfo));
            chk!("pkg.debug_line", ps.debug_line.reader().slice(), m.get(SectionId::DebugLine));
            chk!("pkg.debug_macinfo", ps.debug_macinfo.reader().slice(), m.get(SectionId::DebugMacinfo));
            chk!("pkg.debug_macro", ps.debug_macro.reader().slice(), m.get(SectionId::DebugMacro));
            chk!("pkg.debug_str", ps.debug_str.reader().slice(), m.get(SectionId::DebugStr));
            chk!("pkg.debug_str_offsets", ps.debug_str_offsets.reader().slice(), m.get(SectionId::DebugStrOffsets));
            chk!("pkg.debug_loc", ps.debug_loc.reader().slice(), m.get(SectionId::DebugLoc));
            chk!("pkg.debug_loclists", ps.debug_loclists.reader().slice(), m.get(SectionId::DebugLocLists));
            chk!("pkg.debug_rnglists", ps.debug_rnglists.reader().slice(), m.get(SectionId::DebugRngLists));
            chk!("pkg.debug_types", ps.debug_types.reader().slice(), m.get(SectionId::DebugTypes));
            Ok(())
        }
        "package_load" | "package_borrow" => {
            // distinguishable valid indexes: the cu index has 4 slots, the tu index 8
            let cu_index = mk_index(false, &[1, 3], 0x77, 4);
            let tu_index = mk_index(true, &[2, 3, 4], 0x99, 8);
            let empty_buf = [0u8; 16];
            let empty: R = EndianSlice::new(&empty_buf[8..8], RunTimeEndian::Little);
            let ps_owned: Option<DwarfPackageSections<Owned>> = if api == "package_borrow" {
                Some(
                    DwarfPackageSections::load(|id: SectionId| -> Result<Owned, gimli::Error> {
                        let mut data = match id {
                            SectionId::DebugCuIndex => cu_index.clone(),
                            SectionId::DebugTuIndex => tu_index.clone(),
                            _ => marker(b'M', id),
                        };
                        data.extend_from_slice(&[0xee; 8]);
                        Ok(Owned { id, data })
                    })
                    .unwrap(),
                )
            } else {
                None
            };
            let dwp: DwarfPackage<R> = match &ps_owned {
                Some(ps) => ps
                    .borrow(owned_slice, empty)
                    .map_err(|e| format!("wiring-mismatch package_borrow {}", errname(&e)))?,
                None => DwarfPackage::load(
                    |id: SectionId| -> Result<R, gimli::Error> {
                        Ok(match id {
                            SectionId::DebugCuIndex => EndianSlice::new(&cu_index[..], RunTimeEndian::Little),
                            SectionId::DebugTuIndex => EndianSlice::new(&tu_index[..], RunTimeEndian::Little),
                            _ => EndianSlice::new(m.get(id), RunTimeEndian::Little),
                        })
                    },
                    empty,
                )
                .map_err(|e| format!("wiring-mismatch package_load {}", errname(&e)))?,
            };
            chk!("dwp.cu_index", (dwp.cu_index.version(), dwp.cu_index.slot_count(), dwp.cu_index.section_count()), (5, 4, 2));
            chk!("dwp.tu_index", (dwp.tu_index.version(), dwp.tu_index.slot_count(), dwp.tu_index.section_count()), (2, 8, 3));
            chk!("dwp.cu_index.find", dwp.cu_index.find(0x77), Some(1));
            chk!("dwp.tu_index.find", dwp.tu_index.find(0x99), Some(1));
            chk!("dwp.debug_abbrev", dwp.debug_abbrev.reader().slice(), m.get(SectionId::DebugAbbrev));
            chk!("dwp.debug_info", dwp.debug_info.reader().slice(), m.get(SectionId::DebugInfo));
            chk!("dwp.debug_line", dwp.debug_line.reader().slice(), m.get(SectionId::DebugLine));
            chk!("dwp.debug_macinfo", dwp.debug_macinfo.reader().slice(), m.get(SectionId::DebugMacinfo));
            chk!("dwp.debug_macro", dwp.debug_macro.reader().slice(), m.get(SectionId::DebugMacro));
            chk!("dwp.debug_str", dwp.debug_str.reader().slice(), m.get(SectionId::DebugStr));
            chk!("dwp.debug_str_offsets", dwp.debug_str_offsets.reader().slice(), m.get(SectionId::DebugStrOffsets));
            chk!("dwp.debug_loc", dwp.debug_loc.reader().slice(), m.get(SectionId::DebugLoc));
            chk!("dwp.debug_loclists", dwp.debug_loclists.reader().slice(), m.get(SectionId::DebugLocLists));
            chk!("dwp.debug_rnglists", dwp.debug_rnglists.reader().slice(), m.get(SectionId::DebugRngLists));
            chk!("dwp.debug_types", dwp.debug_types.reader().slice(), m.get(SectionId::DebugTypes));
            chk!("dwp.empty", dwp.empty.len(), 0);
            Ok(())
        }
        "section_names" => {
            // Section::id() of every section type, and the names of every id
            macro_rules! sid {
                ($ty:ident, $id:ident, $name:expr) => {
                    chk!(concat!(stringify!($ty), "::id"), <gimli::$ty<R> as Section<R>>::id(), SectionId::$id);
                    chk!(concat!(stringify!($ty), "::section_name"), <gimli::$ty<R> as Section<R>>::section_name(), $name);
                    chk!(concat!(stringify!($id), ".name"), SectionId::$id.name(), $name);
                };
            }
            sid!(DebugAbbrev, DebugAbbrev, ".debug_abbrev");
            sid!(DebugAddr, DebugAddr, ".debug_addr");
            sid!(DebugAranges, DebugAranges, ".debug_aranges");
            sid!(DebugCuIndex, DebugCuIndex, ".debug_cu_index");
            sid!(DebugFrame, DebugFrame, ".debug_frame");
            sid!(EhFrame, EhFrame, ".eh_frame");
            sid!(EhFrameHdr, EhFrameHdr, ".eh_frame_hdr");
            sid!(DebugInfo, DebugInfo, ".debug_info");
            sid!(DebugLine, DebugLine, ".debug_line");
            sid!(DebugLineStr, DebugLineStr, ".debug_line_str");
            sid!(DebugLoc, DebugLoc, ".debug_loc");
            sid!(DebugLocLists, DebugLocLists, ".debug_loclists");
            sid!(DebugMacinfo, DebugMacinfo, ".debug_macinfo");
            sid!(DebugMacro, DebugMacro, ".debug_macro");
            sid!(DebugNames, DebugNames, ".debug_names");
            sid!(DebugPubNames, DebugPubNames, ".debug_pubnames");
            sid!(DebugPubTypes, DebugPubTypes, ".debug_pubtypes");
            sid!(DebugRanges, DebugRanges, ".debug_ranges");
            sid!(DebugRngLists, DebugRngLists, ".debug_rnglists");
            sid!(DebugStr, DebugStr, ".debug_str");
            sid!(DebugStrOffsets, DebugStrOffsets, ".debug_str_offsets");
            sid!(DebugTuIndex, DebugTuIndex, ".debug_tu_index");
            sid!(DebugTypes, DebugTypes, ".debug_types");
            for (k, sid) in [
                (IndexSectionId::DebugAbbrev, SectionId::DebugAbbrev),
                (IndexSectionId::DebugInfo, SectionId::DebugInfo),
                (IndexSectionId::DebugLine, SectionId::DebugLine),
                (IndexSectionId::DebugLoc, SectionId::DebugLoc),
                (IndexSectionId::DebugLocLists, SectionId::DebugLocLists),
                (IndexSectionId::DebugMacinfo, SectionId::DebugMacinfo),
                (IndexSectionId::DebugMacro, SectionId::DebugMacro),
                (IndexSectionId::DebugRngLists, SectionId::DebugRngLists),
                (IndexSectionId::DebugStrOffsets, SectionId::DebugStrOffsets),
                (IndexSectionId::DebugTypes, SectionId::DebugTypes),
            ] {
                chk!(format!("{:?}.section_id", k), k.section_id(), sid);
                chk!(format!("{:?}.dwo_name", k), k.dwo_name().to_string(), format!("{}.dwo", sid.name()));
            }
            Ok(())
        }
        "sections_load_fail" | "dwarf_load_fail" | "package_load_fail" => {
            let mut calls: Vec<SectionId> = Vec::new();
            #[derive(Debug)]
            struct Fail(Option<SectionId>);
            impl From<gimli::Error> for Fail {
                fn from(_: gimli::Error) -> Self {
                    Fail(None)
                }
            }
            let order: &[SectionId] = if api == "package_load_fail" { &PACKAGE_ORDER } else { &DWARF_ORDER };
            let res: Result<(), Fail> = {
                let loader = |id: SectionId| -> Result<R, Fail> {
                    calls.push(id);
                    if calls.len() == arg + 1 {
                        Err(Fail(Some(id)))
                    } else {
                        Ok(EndianSlice::new(m.get(id), RunTimeEndian::Little))
                    }
                };
                match api {
                    "sections_load_fail" => DwarfSections::<R>::load(loader).map(|_| ()),
                    "dwarf_load_fail" => Dwarf::<R>::load(loader).map(|_| ()),
                    _ => DwarfPackageSections::<R>::load(loader).map(|_| ()),
                }
            };
            // each section is requested once, by its own id; loading stops at the failing one
            match res {
                Err(Fail(Some(id))) if calls.len() == arg + 1 && calls.last() == Some(&id) => {}
                other => return Err(format!("wiring-mismatch {} {} {:?}", api, arg, other)),
            }
            let mut want: Vec<SectionId> = order.to_vec();
            want.sort();
            let mut c = calls.clone();
            c.sort();
            c.dedup();
            if c.len() != calls.len() || !c.iter().all(|x| want.contains(x)) {
                return Err(format!("wiring-mismatch {} requested {:?}", api, calls));
            }
            Ok(())
        }
        "package_unit_v2" => package_unit(true, arg as u32),
        "package_unit_v5" => package_unit(false, arg as u32),
        _ => Err(format!("bad-case {}", api)),
    }
}

pub fn run(t: &[&str]) -> String {
    let arg: usize = t[2].parse().unwrap_or(0);
    match run_api(t[1], arg) {
        Ok(()) => "ok".to_string(),
        Err(m) => m,
    }
}
