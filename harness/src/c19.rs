// c19.rs — filtered conversion (write::FilterUnitSection / Dwarf::convert_with_filter) on generated
// multi-unit forests.  Case format: see ocaml/s_c19.ml.
//
// One case = one forest + one required set:
//   1. build the input DWARF with gimli::write (identity of DIE k: DW_AT_name "e<k>"), one attribute
//      per reference site; non-DIE targets are written through DebugInfoRef::Symbol / raw operations /
//      a byte patch of the DW_FORM_ref4/8 value;
//   2. read it back, convert it unfiltered (Dwarf::from) and filtered (FilterUnitSection requiring
//      exactly the chosen DIEs, Dwarf::convert_with_filter, ConvertUnit::convert), write both, read
//      both back;
//   3. oracles evaluated here (first token ends in -mismatch):
//        missingref-mismatch  the filtered conversion fails with InvalidUnitRef/InvalidDebugInfoRef
//                             although the unfiltered one succeeds (a needed DIE was not reserved)
//        write-mismatch       writing the filtered result fails although the unfiltered one is written
//        dangling-mismatch    a reference in the filtered output does not resolve to a DIE of the output
//        attrs-mismatch       a retained DIE has other attributes than in the unfiltered conversion
//        parent-mismatch / order-mismatch / dup-mismatch   structure of the output
//   4. result `ok k:p ...` = identities present (ascending) with the identity of their parent.
use crate::util::*;
use gimli::constants as c;
use gimli::read;
use gimli::write as w;
use gimli::write::Writer;
use gimli::{EndianSlice, Encoding, Format, LittleEndian, SectionId};
use std::cell::RefCell;
use std::collections::HashMap;
use std::rc::Rc;

pub(crate) type R<'a> = EndianSlice<'a, LittleEndian>;

#[derive(Clone, Debug)]
struct Site {
    car: u8,
    op: u8,
    nest: u8,
    tkind: u8,
    tval: u8,
}
#[derive(Clone, Debug)]
struct Ent {
    depth: u8,
    tag: u16,
    decl: bool,
    sib: bool,
    sites: Vec<Site>,
}
type Forest = Vec<Vec<Ent>>;

fn parse_forest(b: &[u8]) -> Forest {
    let mut f: Forest = Vec::new();
    let mut i = 0;
    while i < b.len() {
        if b[i] == 0xfe {
            f.push(Vec::new());
            i += 1;
            continue;
        }
        let depth = b[i];
        let tag = ((b[i + 1] as u16) << 8) | b[i + 2] as u16;
        let decl = b[i + 3] & 1 != 0;
        let sib = b[i + 3] & 2 != 0;
        let ns = b[i + 4] as usize;
        i += 5;
        let mut sites = Vec::new();
        for _ in 0..ns {
            sites.push(Site { car: b[i], op: b[i + 1], nest: b[i + 2], tkind: b[i + 3], tval: b[i + 4] });
            i += 5;
        }
        f.last_mut().unwrap().push(Ent { depth, tag, decl, sib, sites });
    }
    f
}

// ---------------------------------------------------------------- writer with symbol support
#[derive(Clone, Debug)]
pub(crate) struct SymVec(w::EndianVec<LittleEndian>);
impl SymVec {
    pub(crate) fn new() -> Self {
        SymVec(w::EndianVec::new(LittleEndian))
    }
}
impl w::Writer for SymVec {
    type Endian = LittleEndian;
    fn endian(&self) -> LittleEndian {
        LittleEndian
    }
    fn len(&self) -> usize {
        self.0.len()
    }
    fn write(&mut self, bytes: &[u8]) -> w::Result<()> {
        self.0.write(bytes)
    }
    fn write_at(&mut self, offset: usize, bytes: &[u8]) -> w::Result<()> {
        self.0.write_at(offset, bytes)
    }
    // DebugInfoRef::Symbol(v): the raw value v
    fn write_reference(&mut self, symbol: usize, size: u8) -> w::Result<()> {
        self.write_udata(symbol as u64, size)
    }
}

pub(crate) type Secs = HashMap<SectionId, Vec<u8>>;

pub(crate) fn take_sections(sections: &w::Sections<SymVec>) -> Secs {
    let mut m = Secs::new();
    let _ = sections.for_each(|id, data: &SymVec| -> Result<(), ()> {
        m.insert(id, data.0.slice().to_vec());
        Ok(())
    });
    m
}

pub(crate) fn load<'a>(secs: &'a Secs) -> read::Dwarf<R<'a>> {
    static EMPTY: [u8; 0] = [];
    read::Dwarf::load(|id| -> Result<R<'a>, ()> {
        Ok(EndianSlice::new(secs.get(&id).map(|v| &v[..]).unwrap_or(&EMPTY[..]), LittleEndian))
    })
    .unwrap()
}

fn hdr_size(ver: u16, fmt: Format) -> u64 {
    let w = if fmt == Format::Dwarf64 { 8 } else { 4 };
    (if fmt == Format::Dwarf64 { 12 } else { 4 }) + 2 + w + 1 + if ver >= 5 { 1 } else { 0 }
}

const OOB_UNIT: u64 = 0x7fff_0000;
const OOB_INFO: u64 = 0x7fff_fff0;

const REF_NAMES: [c::DwAt; 8] = [
    c::DW_AT_type,
    c::DW_AT_specification,
    c::DW_AT_abstract_origin,
    c::DW_AT_import,
    c::DW_AT_containing_type,
    c::DW_AT_friend,
    c::DW_AT_extension,
    c::DW_AT_object_pointer,
];
const LOC_NAMES: [c::DwAt; 8] = [
    c::DW_AT_location,
    c::DW_AT_string_length,
    c::DW_AT_return_addr,
    c::DW_AT_data_member_location,
    c::DW_AT_frame_base,
    c::DW_AT_segment,
    c::DW_AT_static_link,
    c::DW_AT_use_location,
];

fn site_attr(j: usize, s: &Site) -> c::DwAt {
    if s.car <= 1 {
        REF_NAMES[j % 8]
    } else {
        LOC_NAMES[j % 8]
    }
}

fn carrier_name(s: &Site) -> String {
    const OPS: [&str; 10] = [
        "deref_type", "regval_type", "const_type", "convert", "reinterpret", "parameter_ref", "call", "call_ref",
        "implicit_pointer", "variable_value",
    ];
    let op = OPS.get(s.op as usize).copied().unwrap_or("?");
    let nest = if s.nest > 0 { "entry_value." } else { "" };
    match s.car {
        0 => "attr_unit_ref".to_string(),
        1 => "attr_debug_info_ref".to_string(),
        2 => format!("expr.{}{}", nest, op),
        3 => format!("loc_live.{}{}", nest, op),
        4 => format!("loc_empty.{}{}", nest, op),
        5 => format!("loc_inverted.{}{}", nest, op),
        _ => format!("loc_tombstone.{}{}", nest, op),
    }
}

enum Tgt {
    Ent(w::UnitId, w::UnitEntryId),
    Raw(u64),
}

struct Input {
    secs: Secs,
}

/// Section offsets of the written input: `die[k]` = DIE named e<k>, `units[j]` = header of unit j.
struct Layout {
    die: HashMap<usize, u64>,
    units: Vec<u64>,
}

fn layout_of(secs: &Secs) -> Result<Layout, String> {
    let dw = load(secs);
    let rd = |e: gimli::Error| format!("input-read-{}", errname(&e));
    let mut l = Layout { die: HashMap::new(), units: Vec::new() };
    let mut it = dw.units();
    while let Some(h) = it.next().map_err(rd)? {
        let unit = dw.unit(h).map_err(rd)?;
        let ur = unit.unit_ref(&dw);
        let uoff = unit.header.offset().0 as u64;
        l.units.push(uoff);
        let mut raw = ur.entries_raw(None).map_err(rd)?;
        let mut e = read::DebuggingInformationEntry::null();
        while !raw.is_empty() {
            if !raw.read_entry(&mut e).map_err(rd)? {
                continue;
            }
            if let Some(k) = parse_ident(ent_name(ur, &e).as_bytes()) {
                l.die.insert(k, uoff + e.offset.0 as u64);
            }
        }
    }
    Ok(l)
}

fn has_oobent(forest: &Forest) -> bool {
    forest.iter().any(|u| u.iter().any(|e| e.sites.iter().any(|s| s.tkind == 5)))
}

// tkind 5 needs the final layout: every reference it can be carried by has a fixed size, so the input is
// built once with a placeholder, measured, and built again with the real values.
fn build_input(ver: u16, fmt: Format, asz: u8, forest: &Forest) -> Result<Input, String> {
    if has_oobent(forest) {
        let first = build_input_with(ver, fmt, asz, forest, None)?;
        let l = layout_of(&first.secs)?;
        let second = build_input_with(ver, fmt, asz, forest, Some(&l))?;
        let l2 = layout_of(&second.secs)?;
        if l.die != l2.die || l.units != l2.units {
            return Err("layout-moved".into());
        }
        Ok(second)
    } else {
        build_input_with(ver, fmt, asz, forest, None)
    }
}

fn build_input_with(ver: u16, fmt: Format, asz: u8, forest: &Forest, layout: Option<&Layout>) -> Result<Input, String> {
    let enc = Encoding { format: fmt, version: ver, address_size: asz };
    let hdr = hdr_size(ver, fmt);
    let mut dwarf = w::Dwarf::new();
    let mut uids = Vec::new();
    let mut ids: Vec<(usize, w::UnitId, w::UnitEntryId)> = Vec::new();
    for (j, u) in forest.iter().enumerate() {
        let uid = dwarf.units.add(w::Unit::new(enc, w::LineProgram::none()));
        uids.push(uid);
        let unit = dwarf.units.get_mut(uid);
        let root = unit.root();
        unit.get_mut(root).set(c::DW_AT_name, w::AttributeValue::String(format!("root{}", j).into_bytes()));
        let mut stack: Vec<w::UnitEntryId> = vec![root];
        for e in u {
            let d = e.depth as usize;
            if d == 0 || d > stack.len() {
                return Err("bad-depth".into());
            }
            stack.truncate(d);
            let id = unit.add(stack[d - 1], c::DwTag(e.tag));
            stack.push(id);
            let k = ids.len();
            unit.get_mut(id).set(c::DW_AT_name, w::AttributeValue::String(format!("e{}", k).into_bytes()));
            if e.sib {
                unit.get_mut(id).set_sibling(true);
            }
            if e.decl {
                unit.get_mut(id).set(c::DW_AT_declaration, w::AttributeValue::Flag(true));
            }
            ids.push((j, uid, id));
        }
    }
    // (identity, attribute name, raw value) of DW_FORM_ref4/8 attributes to overwrite after writing
    let mut patches: Vec<(usize, c::DwAt, u64)> = Vec::new();
    let mut k = 0usize;
    for (j, u) in forest.iter().enumerate() {
        let uid = uids[j];
        for e in u {
            let (_, _, eid) = ids[k];
            for (sj, s) in e.sites.iter().enumerate() {
                let info = s.car == 1 || (s.car >= 2 && s.op >= 7);
                let tgt = match s.tkind {
                    0 => {
                        let (tj, tu, te) = *ids.get(s.tval as usize).ok_or("bad-target")?;
                        if !info && tj != j {
                            return Err("cross-unit-unit-ref".into());
                        }
                        Tgt::Ent(tu, te)
                    }
                    1 => {
                        let tj = s.tval as usize;
                        if tj >= uids.len() || (!info && tj != j) {
                            return Err("bad-root-target".into());
                        }
                        Tgt::Ent(uids[tj], dwarf.units.get(uids[tj]).root())
                    }
                    2 => {
                        if info {
                            if s.tval != 0 {
                                return Err("mid-info-unit-nonzero".into());
                            }
                            Tgt::Raw(hdr + 1)
                        } else {
                            Tgt::Raw(hdr + 1)
                        }
                    }
                    3 => Tgt::Raw(if info { OOB_INFO } else { OOB_UNIT }),
                    5 => {
                        // unit-relative, beyond the end of this unit, exactly on DIE e<tval> of a later unit
                        if info {
                            return Err("oobent-needs-unit-relative-carrier".into());
                        }
                        let (tj, _, _) = *ids.get(s.tval as usize).ok_or("bad-target")?;
                        if tj <= j {
                            return Err("oobent-not-later-unit".into());
                        }
                        match layout {
                            None => Tgt::Raw(OOB_UNIT),
                            Some(l) => {
                                let t = *l.die.get(&(s.tval as usize)).ok_or("oobent-unknown-die")?;
                                let u0 = *l.units.get(j).ok_or("oobent-unknown-unit")?;
                                Tgt::Raw(t - u0)
                            }
                        }
                    }
                    _ => Tgt::Raw(0),
                };
                let name = site_attr(sj, s);
                let unit = dwarf.units.get_mut(uid);
                let dref = |t: &Tgt| match *t {
                    Tgt::Ent(u, e) => w::DebugInfoRef::Entry(u, e),
                    Tgt::Raw(v) => w::DebugInfoRef::Symbol(v as usize),
                };
                match s.car {
                    0 => match tgt {
                        Tgt::Ent(_, te) => unit.get_mut(eid).set(name, w::AttributeValue::UnitRef(te)),
                        Tgt::Raw(v) => {
                            unit.get_mut(eid).set(name, w::AttributeValue::UnitRef(eid));
                            patches.push((k, name, v));
                        }
                    },
                    1 => unit.get_mut(eid).set(name, w::AttributeValue::DebugInfoRef(dref(&tgt))),
                    _ => {
                        let mut ex = w::Expression::new();
                        match (s.op, &tgt) {
                            (0, Tgt::Ent(_, te)) => ex.op_deref_type(4, *te),
                            (1, Tgt::Ent(_, te)) => ex.op_regval_type(gimli::Register(3), *te),
                            (2, Tgt::Ent(_, te)) => ex.op_const_type(*te, vec![1, 2, 3, 4].into_boxed_slice()),
                            (3, Tgt::Ent(_, te)) => ex.op_convert(Some(*te)),
                            (3, Tgt::Raw(0)) => ex.op_convert(None),
                            (4, Tgt::Ent(_, te)) => ex.op_reinterpret(Some(*te)),
                            (4, Tgt::Raw(0)) => ex.op_reinterpret(None),
                            (5, Tgt::Ent(_, te)) => ex.op_gnu_parameter_ref(*te),
                            (5, Tgt::Raw(v)) => {
                                let mut b = vec![c::DW_OP_GNU_parameter_ref.0];
                                b.extend_from_slice(&(*v as u32).to_le_bytes());
                                ex = w::Expression::raw(b);
                            }
                            (6, Tgt::Ent(_, te)) => ex.op_call(*te),
                            (6, Tgt::Raw(v)) => {
                                let mut b = vec![c::DW_OP_call4.0];
                                b.extend_from_slice(&(*v as u32).to_le_bytes());
                                ex = w::Expression::raw(b);
                            }
                            (7, t) => ex.op_call_ref(dref(t)),
                            (8, t) => ex.op_implicit_pointer(dref(t), 0),
                            (9, t) => ex.op_variable_value(dref(t)),
                            _ => return Err("unsupported-site".into()),
                        }
                        for _ in 0..s.nest {
                            let mut outer = w::Expression::new();
                            outer.op_entry_value(ex);
                            ex = outer;
                        }
                        if s.car == 2 {
                            unit.get_mut(eid).set(name, w::AttributeValue::Exprloc(ex));
                        } else {
                            let max: u64 = if asz == 4 { 0xffff_ffff } else { u64::MAX };
                            let (b, e2) = match s.car {
                                3 => (0x1000, 0x1010),
                                4 => (0x2000, 0x2000),
                                5 => (0x3010, 0x3000),
                                _ => (max - 1, max),
                            };
                            // every other live location-list carrier of a DWARF 5 unit is a DW_LLE_default_location
                            // entry (no address range): the filter must scan its expression like any other entry's
                            let list = if s.car == 3 && ver >= 5 && k % 2 == 1 {
                                w::LocationList(vec![w::Location::DefaultLocation { data: ex }])
                            } else {
                                w::LocationList(vec![w::Location::StartEnd {
                                    begin: w::Address::Constant(b),
                                    end: w::Address::Constant(e2),
                                    data: ex,
                                }])
                            };
                            let lid = unit.locations.add(list);
                            unit.get_mut(eid).set(name, w::AttributeValue::LocationListRef(lid));
                        }
                    }
                }
            }
            k += 1;
        }
    }
    let mut sections = w::Sections::new(SymVec::new());
    dwarf.write(&mut sections).map_err(|e| format!("input-write-{}", errname(&e)))?;
    let mut secs = take_sections(&sections);
    if !patches.is_empty() {
        let wsz = if fmt == Format::Dwarf64 { 8 } else { 4 };
        let mut todo: Vec<(usize, u64)> = Vec::new(); // (section position, value)
        {
            let dw = load(&secs);
            let mut units = dw.units();
            while let Some(h) = units.next().map_err(|e| format!("input-read-{}", errname(&e)))? {
                let unit = dw.unit(h).map_err(|e| format!("input-read-{}", errname(&e)))?;
                let uoff = match unit.header.offset() {
                    gimli::UnitSectionOffset(o) => o,
                };
                let mut raw = unit.entries_raw(None).map_err(|e| format!("input-read-{}", errname(&e)))?;
                while !raw.is_empty() {
                    let ab = match raw.read_abbreviation().map_err(|e| format!("input-read-{}", errname(&e)))? {
                        Some(a) => a,
                        None => continue,
                    };
                    let mut ident: Option<usize> = None;
                    for spec in ab.attributes() {
                        let pos = raw.next_offset().0;
                        let at = raw.read_attribute(*spec).map_err(|e| format!("input-read-{}", errname(&e)))?;
                        if at.name() == c::DW_AT_name {
                            if let read::AttributeValue::String(s) = at.raw_value() {
                                ident = parse_ident(s.slice());
                            }
                        } else if let Some(kk) = ident {
                            for (pk, pn, pv) in &patches {
                                if *pk == kk && *pn == at.name() {
                                    todo.push((uoff + pos, *pv));
                                }
                            }
                        }
                    }
                }
            }
        }
        if todo.len() != patches.len() {
            return Err("patch-site-not-found".into());
        }
        let info = secs.get_mut(&SectionId::DebugInfo).unwrap();
        for (pos, v) in todo {
            let bytes = v.to_le_bytes();
            info[pos..pos + wsz].copy_from_slice(&bytes[..wsz]);
        }
    }
    Ok(Input { secs })
}

pub(crate) fn parse_ident(s: &[u8]) -> Option<usize> {
    if s.len() >= 2 && s[0] == b'e' {
        std::str::from_utf8(&s[1..]).ok()?.parse::<usize>().ok()
    } else {
        None
    }
}

// ---------------------------------------------------------------- dump of a DWARF image
#[derive(Clone, Debug, PartialEq)]
pub(crate) struct DEnt {
    pub(crate) parent: String,
    pub(crate) attrs: Vec<String>,
    // per attribute (DW_AT_name / DW_AT_sibling skipped): name, numeric body (0 if none), names of the DIEs it references
    pub(crate) refs: Vec<(u16, u64, Vec<String>)>,
}
pub(crate) struct Dump {
    pub(crate) order: Vec<String>,            // names in section order
    pub(crate) ents: HashMap<String, DEnt>,   // e<k> / root<j>
    pub(crate) dangling: Option<String>,
    pub(crate) dup: bool,
}

pub(crate) fn ent_name<'a>(unit: read::UnitRef<'_, R<'a>>, e: &read::DebuggingInformationEntry<R<'a>>) -> String {
    match e.attr_value(c::DW_AT_name) {
        Some(v) => match unit.attr_string(v) {
            Ok(s) => String::from_utf8_lossy(s.slice()).into_owned(),
            Err(_) => "?".into(),
        },
        None => "?".into(),
    }
}

struct Names {
    by_off: HashMap<usize, String>,
    log: RefCell<Vec<String>>,
}
impl Names {
    fn get(&self, off: usize, dangling: &mut Option<String>, what: &str) -> String {
        match self.by_off.get(&off) {
            Some(n) => {
                self.log.borrow_mut().push(n.clone());
                n.clone()
            }
            None => {
                self.log.borrow_mut().push("dangling".to_string());
                if dangling.is_none() {
                    *dangling = Some(what.to_string());
                }
                format!("dangling@{:#x}", off)
            }
        }
    }
}

fn fmt_expr<'a>(
    unit: read::UnitRef<'_, R<'a>>,
    uoff: usize,
    ex: read::Expression<R<'a>>,
    names: &Names,
    dangling: &mut Option<String>,
) -> String {
    let mut out = String::from("[");
    let mut ops = ex.operations(unit.encoding());
    loop {
        match ops.next() {
            Ok(None) => break,
            Err(e) => {
                out.push_str(&format!("<{}>", errname(&e)));
                break;
            }
            Ok(Some(op)) => {
                let un = |o: read::UnitOffset<usize>, d: &mut Option<String>| names.get(uoff + o.0, d, "expression");
                let s = match op {
                    read::Operation::Deref { base_type, size, space } => {
                        if base_type.0 != 0 {
                            format!("deref_type({},{},{})", size, space, un(base_type, dangling))
                        } else {
                            format!("deref({},{})", size, space)
                        }
                    }
                    read::Operation::RegisterOffset { register, offset, base_type } => {
                        if base_type.0 != 0 {
                            format!("regval_type({},{})", register.0, un(base_type, dangling))
                        } else {
                            format!("breg({},{})", register.0, offset)
                        }
                    }
                    read::Operation::TypedLiteral { base_type, value } => {
                        format!("const_type({},{})", un(base_type, dangling), tohex(value.slice()))
                    }
                    read::Operation::Convert { base_type } => {
                        if base_type.0 != 0 {
                            format!("convert({})", un(base_type, dangling))
                        } else {
                            "convert(0)".into()
                        }
                    }
                    read::Operation::Reinterpret { base_type } => {
                        if base_type.0 != 0 {
                            format!("reinterpret({})", un(base_type, dangling))
                        } else {
                            "reinterpret(0)".into()
                        }
                    }
                    read::Operation::ParameterRef { offset } => format!("parameter_ref({})", un(offset, dangling)),
                    read::Operation::Call { offset: read::DieReference::UnitRef(o) } => {
                        format!("call({})", un(o, dangling))
                    }
                    read::Operation::Call { offset: read::DieReference::DebugInfoRef(o) } => {
                        format!("call_ref({})", names.get(o.0, dangling, "expression"))
                    }
                    read::Operation::ImplicitPointer { value, byte_offset } => {
                        format!("implicit_pointer({},{})", names.get(value.0, dangling, "expression"), byte_offset)
                    }
                    read::Operation::VariableValue { offset } => {
                        format!("variable_value({})", names.get(offset.0, dangling, "expression"))
                    }
                    read::Operation::EntryValue { expression } => {
                        format!("entry_value{}", fmt_expr(unit, uoff, read::Expression(expression), names, dangling))
                    }
                    other => format!("{:?}", other).replace(' ', ""),
                };
                out.push_str(&s);
                out.push(';');
            }
        }
    }
    out.push(']');
    out
}

fn fmt_loclist<'a>(
    unit: read::UnitRef<'_, R<'a>>,
    uoff: usize,
    off: gimli::LocationListsOffset<usize>,
    names: &Names,
    dangling: &mut Option<String>,
) -> String {
    let mut out = String::from("loclist{");
    match unit.raw_locations(off) {
        Err(e) => out.push_str(&format!("<{}>", errname(&e))),
        Ok(mut it) => loop {
            match it.next() {
                Ok(None) => break,
                Err(e) => {
                    out.push_str(&format!("<{}>", errname(&e)));
                    break;
                }
                Ok(Some(ent)) => {
                    use read::RawLocListEntry as L;
                    let s = match ent {
                        L::AddressOrOffsetPair { begin, end, data }
                        | L::OffsetPair { begin, end, data }
                        | L::StartEnd { begin, end, data } => {
                            format!("{:#x}..{:#x}:{}", begin, end, fmt_expr(unit, uoff, data, names, dangling))
                        }
                        L::StartLength { begin, length, data } => {
                            format!("{:#x}+{:#x}:{}", begin, length, fmt_expr(unit, uoff, data, names, dangling))
                        }
                        L::DefaultLocation { data } => format!("default:{}", fmt_expr(unit, uoff, data, names, dangling)),
                        L::BaseAddress { addr } => format!("base:{:#x}", addr),
                        other => format!("{:?}", other).replace(' ', ""),
                    };
                    out.push_str(&s);
                    out.push('|');
                }
            }
        },
    }
    out.push('}');
    out
}

pub(crate) fn dump(secs: &Secs) -> Result<Dump, String> {
    let dw = load(secs);
    let rd = |e: gimli::Error| format!("readback-{}", errname(&e));
    // pass 1: names by section offset
    let mut names = Names { by_off: HashMap::new(), log: RefCell::new(Vec::new()) };
    let mut order = Vec::new();
    let mut dup = false;
    let mut units = Vec::new();
    let mut it = dw.units();
    while let Some(h) = it.next().map_err(rd)? {
        units.push(dw.unit(h).map_err(rd)?);
    }
    for unit in &units {
        let ur = unit.unit_ref(&dw);
        let uoff = unit.header.offset().0;
        let mut raw = ur.entries_raw(None).map_err(rd)?;
        let mut e = read::DebuggingInformationEntry::null();
        while !raw.is_empty() {
            if !raw.read_entry(&mut e).map_err(rd)? {
                continue;
            }
            let n = ent_name(ur, &e);
            if names.by_off.values().any(|x| *x == n) {
                dup = true;
            }
            names.by_off.insert(uoff + e.offset.0, n.clone());
            order.push(n);
        }
    }
    // pass 2: parents and attributes
    let mut ents = HashMap::new();
    let mut dangling: Option<String> = None;
    for unit in &units {
        let ur = unit.unit_ref(&dw);
        let uoff = unit.header.offset().0;
        let mut raw = ur.entries_raw(None).map_err(rd)?;
        let mut e = read::DebuggingInformationEntry::null();
        let mut stack: Vec<(isize, String)> = Vec::new();
        while !raw.is_empty() {
            if !raw.read_entry(&mut e).map_err(rd)? {
                continue;
            }
            let n = names.by_off.get(&(uoff + e.offset.0)).cloned().unwrap_or_default();
            while let Some((d, _)) = stack.last() {
                if *d < e.depth {
                    break;
                }
                stack.pop();
            }
            let parent = stack.last().map(|p| p.1.clone()).unwrap_or_else(|| "none".into());
            if e.has_children {
                stack.push((e.depth, n.clone()));
            }
            let mut attrs = Vec::new();
            let mut refs = Vec::new();
            for a in &e.attrs {
                // DW_AT_sibling is structure, not a dependency: it points just behind the subtree (often at a null
                // entry), the writer recomputes it, and C11 checks its value
                if a.name() == c::DW_AT_name || a.name() == c::DW_AT_sibling {
                    continue;
                }
                names.log.borrow_mut().clear();
                let body = match a.value() {
                    read::AttributeValue::Data1(v) => v as u64,
                    read::AttributeValue::Data2(v) => v as u64,
                    read::AttributeValue::Data4(v) => v as u64,
                    read::AttributeValue::Data8(v) => v,
                    read::AttributeValue::Udata(v) => v,
                    read::AttributeValue::Sdata(v) => v as u64,
                    _ => 0,
                };
                let v = match a.value() {
                    read::AttributeValue::UnitRef(o) => format!("ref:{}", names.get(uoff + o.0, &mut dangling, "attribute")),
                    read::AttributeValue::DebugInfoRef(o) => format!("ref:{}", names.get(o.0, &mut dangling, "attribute")),
                    read::AttributeValue::Exprloc(ex) => format!("expr:{}", fmt_expr(ur, uoff, ex, &names, &mut dangling)),
                    read::AttributeValue::LocationListsRef(o) => fmt_loclist(ur, uoff, o, &names, &mut dangling),
                    read::AttributeValue::DebugLocListsIndex(i) => match ur.locations_offset(i) {
                        Ok(o) => fmt_loclist(ur, uoff, o, &names, &mut dangling),
                        Err(e) => format!("loclistx<{}>", errname(&e)),
                    },
                    read::AttributeValue::String(s) => format!("str:{}", String::from_utf8_lossy(s.slice())),
                    other => format!("{:?}", other).replace(' ', ""),
                };
                attrs.push(format!("{:#x}={}", a.name().0, v));
                refs.push((a.name().0, body, names.log.borrow().clone()));
            }
            ents.insert(n, DEnt { parent, attrs, refs });
        }
    }
    Ok(Dump { order, ents, dangling, dup })
}

// ---------------------------------------------------------------- conversions
pub(crate) fn addr(a: u64) -> Option<w::Address> {
    Some(w::Address::Constant(a))
}

pub(crate) fn write_out(dwarf: &mut w::Dwarf) -> Result<Secs, w::Error> {
    let mut sections = w::Sections::new(SymVec::new());
    dwarf.write(&mut sections)?;
    Ok(take_sections(&sections))
}

pub(crate) struct Unfiltered {
    // Err(variant name) when Dwarf::from or the write fails
    pub(crate) dump: Result<Dump, String>,
}

pub(crate) fn unfiltered(input: &Secs) -> Unfiltered {
    let dw = load(input);
    let dump = match w::Dwarf::from(&dw, &addr) {
        Err(e) => Err(format!("convert {}", errname(&e))),
        Ok(mut out) => match write_out(&mut out) {
            Err(e) => Err(format!("write {}", errname(&e))),
            Ok(secs) => dump(&secs),
        },
    };
    Unfiltered { dump }
}

pub(crate) fn convert_error_name(e: &w::ConvertError) -> String {
    // ConvertError::Read(inner) / Write(inner) are flattened to the inner variant
    let s = format!("{:?}", e);
    if let Some(rest) = s.strip_prefix("Read(").or_else(|| s.strip_prefix("Write(")) {
        let end = rest.find(|ch: char| ch == '(' || ch == '{' || ch == ' ' || ch == ')').unwrap_or(rest.len());
        rest[..end].to_string()
    } else {
        errname(e)
    }
}

// the filter: require exactly the DIEs named e<k>, k in req
fn make_filter<'a>(
    dw: &'a read::Dwarf<R<'a>>,
    req: &[bool],
) -> Result<w::FilterUnitSection<'a, R<'a>>, w::ConvertError> {
    let mut filter = w::FilterUnitSection::new(dw)?;
    while let Some(mut unit) = filter.read_unit()? {
        let mut entry = unit.null_entry();
        while unit.read_entry(&mut entry)? {
            let n = ent_name(entry.read_unit, &entry.read_entry);
            if let Some(k) = parse_ident(n.as_bytes()) {
                if req.get(k).copied().unwrap_or(false) {
                    unit.require_entry(entry.offset);
                }
            }
        }
    }
    Ok(filter)
}

fn filtered(dw: &read::Dwarf<R<'_>>, req: &[bool]) -> Result<w::Dwarf, w::ConvertError> {
    let filter = make_filter(dw, req)?;
    let mut out = w::Dwarf::new();
    {
        let mut conv = out.convert_with_filter(filter)?;
        while let Some((mut unit, root)) = conv.read_unit()? {
            unit.convert(root, &addr)?;
        }
    }
    Ok(out)
}

// The error-tolerant loop documented on ConvertUnit: DIE by DIE, attribute by attribute; an attribute whose
// conversion fails is skipped.
fn filtered_tolerant(dw: &read::Dwarf<R<'_>>, req: &[bool]) -> Result<w::Dwarf, w::ConvertError> {
    let filter = make_filter(dw, req)?;
    let mut out = w::Dwarf::new();
    {
        let mut conv = out.convert_with_filter(filter)?;
        while let Some((mut unit, root)) = conv.read_unit()? {
            let root_id = unit.unit.root();
            for attr in &root.attrs {
                if let Ok(v) = unit.convert_attribute_value(root.read_unit, attr, &addr) {
                    unit.unit.get_mut(root_id).set(attr.name(), v);
                }
            }
            let mut entry = root;
            while let Some(id) = unit.read_entry(&mut entry)? {
                if id.is_none() {
                    continue;
                }
                let id = unit.add_entry(id, &entry);
                for attr in &entry.attrs {
                    if let Ok(v) = unit.convert_attribute_value(entry.read_unit, attr, &addr) {
                        unit.unit.get_mut(id).set(attr.name(), v);
                    }
                }
            }
        }
    }
    Ok(out)
}

// After a failure: redo the conversion DIE by DIE and attribute by attribute (the loop documented on
// ConvertUnit) to find the attribute whose conversion fails.
fn diagnose(dw: &read::Dwarf<R<'_>>, req: &[bool], forest: &Forest) -> String {
    let flat: Vec<&Ent> = forest.iter().flat_map(|u| u.iter()).collect();
    let filter = match make_filter(dw, req) {
        Ok(f) => f,
        Err(_) => return "filter".into(),
    };
    let mut out = w::Dwarf::new();
    let mut conv = match out.convert_with_filter(filter) {
        Ok(c) => c,
        Err(_) => return "reserve".into(),
    };
    loop {
        let (mut unit, root) = match conv.read_unit() {
            Ok(Some(x)) => x,
            Ok(None) => return "none".into(),
            Err(_) => return "read_unit".into(),
        };
        let mut entry = root;
        loop {
            let id = match unit.read_entry(&mut entry) {
                Ok(Some(id)) => id,
                Ok(None) => break,
                Err(_) => return "read_entry".into(),
            };
            if id.is_none() {
                continue;
            }
            let id = unit.add_entry(id, &entry);
            let n = ent_name(entry.read_unit, &entry.read_entry);
            for attr in &entry.attrs {
                if let Err(_) = unit.convert_attribute_value(entry.read_unit, attr, &addr) {
                    let k = parse_ident(n.as_bytes());
                    let site = k.and_then(|k| flat.get(k)).and_then(|e| {
                        e.sites.iter().enumerate().find(|(j, s)| site_attr(*j, s) == attr.name()).map(|(_, s)| s)
                    });
                    return match site {
                        Some(s) => carrier_name(s),
                        None => format!("attr{:#x}", attr.name().0),
                    };
                }
            }
            let _ = id;
        }
    }
}

thread_local! {
    static CACHE: RefCell<Option<(String, Rc<(Result<Input, String>, Option<Unfiltered>)>)>> = RefCell::new(None);
}

fn run_tolerant(dw: &read::Dwarf<R<'_>>, req: &[bool]) -> String {
    let mut out = match filtered_tolerant(dw, req) {
        Ok(o) => o,
        Err(e) => return format!("err {}", convert_error_name(&e)),
    };
    let secs = match write_out(&mut out) {
        Ok(s) => s,
        Err(e) => return format!("write-mismatch {}", errname(&e)),
    };
    let d = match dump(&secs) {
        Ok(d) => d,
        Err(e) => return format!("readback-mismatch {}", e),
    };
    if let Some(what) = &d.dangling {
        return format!("dangling-mismatch {}", what);
    }
    if d.dup {
        return "dup-mismatch".into();
    }
    let mut items: Vec<(usize, String)> = Vec::new();
    for n in &d.order {
        if let Some(k) = parse_ident(n.as_bytes()) {
            let p = &d.ents[n].parent;
            let p = if p.starts_with("root") { "r".to_string() } else if let Some(pk) = parse_ident(p.as_bytes()) { pk.to_string() } else { p.clone() };
            items.push((k, p));
        } else if !n.starts_with("root") {
            return format!("readback-mismatch unnamed-entry {}", n);
        }
    }
    items.sort();
    let mut s = String::from("ok");
    for (k, p) in items {
        s.push_str(&format!(" {}:{}", k, p));
    }
    s
}

pub fn run(t: &[&str]) -> String {
    if t.len() < 6 {
        return "bad-case".into();
    }
    let ver = u(t[1]) as u16;
    let fmt = if t[2] == "8" { Format::Dwarf64 } else { Format::Dwarf32 };
    let asz = u(t[3]) as u8;
    let forest = parse_forest(&hex(t[4]));
    let total: usize = forest.iter().map(|u| u.len()).sum();
    let mut req = vec![false; total];
    for k in hex(t[5]) {
        if (k as usize) < total {
            req[k as usize] = true;
        }
    }
    let key = format!("{} {} {} {}", t[1], t[2], t[3], t[4]);
    let cached = CACHE.with(|c| {
        let mut c = c.borrow_mut();
        if let Some((k, v)) = c.as_ref() {
            if *k == key {
                return v.clone();
            }
        }
        let input = build_input(ver, fmt, asz, &forest);
        let unf = match &input {
            Ok(i) => Some(unfiltered(&i.secs)),
            Err(_) => None,
        };
        let v = Rc::new((input, unf));
        *c = Some((key.clone(), v.clone()));
        v
    });
    let input = match &cached.0 {
        Ok(i) => i,
        Err(e) => return format!("input-unbuildable {}", e),
    };
    let unf = cached.1.as_ref().unwrap();
    let dw = load(&input.secs);
    if t[0] == "c19.oob" {
        return run_tolerant(&dw, &req);
    }
    let mut out = match filtered(&dw, &req) {
        Ok(o) => o,
        Err(e) => {
            let name = convert_error_name(&e);
            if unf.dump.is_ok() {
                // the unfiltered conversion of the same input succeeds: the filter lost something
                return format!("missingref-mismatch {} {}", name, diagnose(&dw, &req, &forest));
            }
            return format!("err {}", name);
        }
    };
    let secs = match write_out(&mut out) {
        Ok(s) => s,
        Err(e) => {
            return match &unf.dump {
                Ok(_) => format!("write-mismatch {}", errname(&e)),
                Err(_) => format!("err {}", errname(&e)),
            }
        }
    };
    let d = match dump(&secs) {
        Ok(d) => d,
        Err(e) => return format!("readback-mismatch {}", e),
    };
    if let Some(what) = &d.dangling {
        return format!("dangling-mismatch {}", what);
    }
    if d.dup {
        return "dup-mismatch".into();
    }
    // identities, parents
    let mut items: Vec<(usize, String)> = Vec::new();
    for n in &d.order {
        if let Some(k) = parse_ident(n.as_bytes()) {
            let p = &d.ents[n].parent;
            let p = if p.starts_with("root") { "r".to_string() } else if let Some(pk) = parse_ident(p.as_bytes()) { pk.to_string() } else { p.clone() };
            items.push((k, p));
        } else if !n.starts_with("root") {
            return format!("readback-mismatch unnamed-entry {}", n);
        }
    }
    if let Ok(ud) = &unf.dump {
        // same relative order as the unfiltered output, same attributes
        let pos: HashMap<&String, usize> = ud.order.iter().enumerate().map(|(i, n)| (n, i)).collect();
        let mut last = None;
        for n in &d.order {
            match pos.get(n) {
                None => return format!("attrs-mismatch {} not-in-unfiltered", n),
                Some(p) => {
                    if let Some(l) = last {
                        if *p <= l {
                            return format!("order-mismatch {}", n);
                        }
                    }
                    last = Some(*p);
                }
            }
            let a = &d.ents[n];
            let b = &ud.ents[n];
            if a.attrs != b.attrs {
                return format!("attrs-mismatch {} {:?} {:?}", n, a.attrs, b.attrs).replace(' ', "_").replacen("attrs-mismatch_", "attrs-mismatch ", 1);
            }
            if !n.starts_with("root") && a.parent != b.parent {
                return format!("parent-mismatch {} {} {}", n, a.parent, b.parent);
            }
        }
    }
    items.sort();
    let mut s = String::from("ok");
    for (k, p) in items {
        s.push_str(&format!(" {}:{}", k, p));
    }
    s
}
