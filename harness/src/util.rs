// util.rs — token parsing / canonical printing shared by all streams.
use gimli::RunTimeEndian;

pub fn hex(s: &str) -> Vec<u8> {
    if s == "-" {
        return Vec::new();
    }
    let b = s.as_bytes();
    let mut v = Vec::with_capacity(b.len() / 2);
    let nib = |c: u8| -> u8 {
        match c {
            b'0'..=b'9' => c - b'0',
            b'a'..=b'f' => c - b'a' + 10,
            b'A'..=b'F' => c - b'A' + 10,
            _ => 0,
        }
    };
    let mut i = 0;
    while i + 1 < b.len() {
        v.push(nib(b[i]) << 4 | nib(b[i + 1]));
        i += 2;
    }
    v
}

pub fn tohex(b: &[u8]) -> String {
    if b.is_empty() {
        return "-".to_string();
    }
    let mut s = String::with_capacity(b.len() * 2);
    for x in b {
        s.push_str(&format!("{:02x}", x));
    }
    s
}

pub fn endian(tok: &str) -> RunTimeEndian {
    if tok == "1" {
        RunTimeEndian::Big
    } else {
        RunTimeEndian::Little
    }
}

/// Variant name of an error value (`Debug` output up to the first `(`, `{` or space).
pub fn errname<E: core::fmt::Debug>(e: &E) -> String {
    let s = format!("{:?}", e);
    let end = s.find(|c: char| c == '(' || c == '{' || c == ' ').unwrap_or(s.len());
    s[..end].to_string()
}

pub fn err<E: core::fmt::Debug>(e: &E) -> String {
    format!("err {}", errname(e))
}

pub fn u(tok: &str) -> u64 {
    tok.parse::<u64>().unwrap_or_else(|_| panic!("bad u64 token {}", tok))
}
pub fn i(tok: &str) -> i64 {
    tok.parse::<i64>().unwrap_or_else(|_| panic!("bad i64 token {}", tok))
}

/// SplitMix64, same as ocaml/conv.ml
pub struct Rng(pub u64);
impl Rng {
    pub fn next(&mut self) -> u64 {
        self.0 = self.0.wrapping_add(0x9E3779B97F4A7C15);
        let mut z = self.0;
        z = (z ^ (z >> 30)).wrapping_mul(0xBF58476D1CE4E5B9);
        z = (z ^ (z >> 27)).wrapping_mul(0x94D049BB133111EB);
        z ^ (z >> 31)
    }
    pub fn below(&mut self, n: u64) -> u64 {
        if n == 0 { 0 } else { self.next() % n }
    }
}
