// c03.rs — attribute forms: parse_attribute / skip_attributes / get_attribute_size /
// Attribute::value and the AttributeValue helpers, through the public API only:
//   DebugAbbrev::abbreviations (AttributeSpecification::parse), DebugInfo::units (unit header),
//   UnitHeader::entries_raw, EntriesRaw::{read_abbreviation, read_attribute, skip_attributes,
//   next_offset}, UnitHeader::entries (EntriesCursor -> read_attributes), AttributeSpecification::size.
use crate::util::*;
use gimli::constants::*;
use gimli::{
    AttributeSpecification, AttributeValue, DebugAbbrev, DebugAbbrevOffset, DebugAddrBase,
    DebugAddrIndex, DebugInfo, DebugInfoOffset, DebugLineOffset, DebugLineStrOffset,
    DebugLocListsBase, DebugLocListsIndex, DebugMacinfoOffset, DebugMacroOffset, DebugRngListsBase,
    DebugRngListsIndex, DebugStrOffset, DebugStrOffsetsBase, DebugStrOffsetsIndex,
    DebugTypeSignature, DwoId, EndianSlice, Expression, LocationListsOffset, RawRangeListsOffset,
    Reader, RunTimeEndian, UnitOffset,
};

type R<'a> = EndianSlice<'a, RunTimeEndian>;

fn uleb(out: &mut Vec<u8>, mut v: u64) {
    loop {
        let b = (v & 0x7f) as u8;
        v >>= 7;
        if v == 0 {
            out.push(b);
            return;
        }
        out.push(b | 0x80);
    }
}

fn sleb(out: &mut Vec<u8>, mut v: i64) {
    loop {
        let b = (v & 0x7f) as u8;
        let done = (v >> 6) == 0 || (v >> 6) == -1;
        if done {
            out.push(b);
            return;
        }
        v >>= 7;
        out.push(b | 0x80);
    }
}

fn put(out: &mut Vec<u8>, be: bool, v: u64, n: usize) {
    for k in 0..n {
        let sh = if be { n - 1 - k } else { k };
        out.push((v >> (8 * sh)) as u8);
    }
}

fn hx(r: &R) -> String {
    tohex(r.slice())
}

/// canonical text of a value: Variant(payload), no spaces
pub fn show(v: &AttributeValue<R>) -> String {
    use AttributeValue::*;
    match v {
        Addr(a) => format!("Addr({})", a),
        Block(b) => format!("Block({})", hx(b)),
        Data1(d) => format!("Data1({})", d),
        Data2(d) => format!("Data2({})", d),
        Data4(d) => format!("Data4({})", d),
        Data8(d) => format!("Data8({})", d),
        Data16(d) => format!("Data16({})", d),
        Sdata(d) => format!("Sdata({})", d),
        Udata(d) => format!("Udata({})", d),
        Exprloc(e) => format!("Exprloc({})", hx(&e.0)),
        Flag(f) => format!("Flag({})", if *f { 1 } else { 0 }),
        SecOffset(o) => format!("SecOffset({})", o),
        DebugAddrBase(o) => format!("DebugAddrBase({})", o.0),
        DebugAddrIndex(o) => format!("DebugAddrIndex({})", o.0),
        UnitRef(o) => format!("UnitRef({})", o.0),
        DebugInfoRef(o) => format!("DebugInfoRef({})", o.0),
        DebugInfoRefSup(o) => format!("DebugInfoRefSup({})", o.0),
        DebugLineRef(o) => format!("DebugLineRef({})", o.0),
        LocationListsRef(o) => format!("LocationListsRef({})", o.0),
        DebugLocListsBase(o) => format!("DebugLocListsBase({})", o.0),
        DebugLocListsIndex(o) => format!("DebugLocListsIndex({})", o.0),
        DebugMacinfoRef(o) => format!("DebugMacinfoRef({})", o.0),
        DebugMacroRef(o) => format!("DebugMacroRef({})", o.0),
        RangeListsRef(o) => format!("RangeListsRef({})", o.0),
        DebugRngListsBase(o) => format!("DebugRngListsBase({})", o.0),
        DebugRngListsIndex(o) => format!("DebugRngListsIndex({})", o.0),
        DebugTypesRef(o) => format!("DebugTypesRef({})", o.0),
        DebugStrRef(o) => format!("DebugStrRef({})", o.0),
        DebugStrRefSup(o) => format!("DebugStrRefSup({})", o.0),
        DebugStrOffsetsBase(o) => format!("DebugStrOffsetsBase({})", o.0),
        DebugStrOffsetsIndex(o) => format!("DebugStrOffsetsIndex({})", o.0),
        DebugLineStrRef(o) => format!("DebugLineStrRef({})", o.0),
        String(s) => format!("String({})", hx(s)),
        Encoding(c) => format!("Encoding({})", c.0),
        DecimalSign(c) => format!("DecimalSign({})", c.0),
        Endianity(c) => format!("Endianity({})", c.0),
        Accessibility(c) => format!("Accessibility({})", c.0),
        Visibility(c) => format!("Visibility({})", c.0),
        Virtuality(c) => format!("Virtuality({})", c.0),
        Language(c) => format!("Language({})", c.0),
        AddressClass(c) => format!("AddressClass({})", c.0),
        IdentifierCase(c) => format!("IdentifierCase({})", c.0),
        CallingConvention(c) => format!("CallingConvention({})", c.0),
        Inline(c) => format!("Inline({})", c.0),
        Ordering(c) => format!("Ordering({})", c.0),
        FileIndex(i) => format!("FileIndex({})", i),
        DwoId(i) => format!("DwoId({})", i.0),
    }
}

/// numeric payload / target of a value (spec-level: what normalisation must preserve)
#[derive(PartialEq, Debug)]
enum Payload {
    Int(i128),
    Wide(u128),
    Bytes(Vec<u8>),
    Flag(bool),
}

fn payload_of(v: &AttributeValue<R>) -> Payload {
    use AttributeValue::*;
    let n = |x: u64| Payload::Int(x as i128);
    let o = |x: usize| Payload::Int(x as i128);
    match v {
        Addr(a) => n(*a),
        Block(b) => Payload::Bytes(b.slice().to_vec()),
        Data1(d) => n(*d as u64),
        Data2(d) => n(*d as u64),
        Data4(d) => n(*d as u64),
        Data8(d) => n(*d),
        Data16(d) => Payload::Wide(*d),
        Sdata(d) => Payload::Int(*d as i128),
        Udata(d) => n(*d),
        Exprloc(e) => Payload::Bytes(e.0.slice().to_vec()),
        Flag(f) => Payload::Flag(*f),
        SecOffset(x) => o(*x),
        DebugAddrBase(x) => o(x.0),
        DebugAddrIndex(x) => o(x.0),
        UnitRef(x) => o(x.0),
        DebugInfoRef(x) => o(x.0),
        DebugInfoRefSup(x) => o(x.0),
        DebugLineRef(x) => o(x.0),
        LocationListsRef(x) => o(x.0),
        DebugLocListsBase(x) => o(x.0),
        DebugLocListsIndex(x) => o(x.0),
        DebugMacinfoRef(x) => o(x.0),
        DebugMacroRef(x) => o(x.0),
        RangeListsRef(x) => o(x.0),
        DebugRngListsBase(x) => o(x.0),
        DebugRngListsIndex(x) => o(x.0),
        DebugTypesRef(x) => n(x.0),
        DebugStrRef(x) => o(x.0),
        DebugStrRefSup(x) => o(x.0),
        DebugStrOffsetsBase(x) => o(x.0),
        DebugStrOffsetsIndex(x) => o(x.0),
        DebugLineStrRef(x) => o(x.0),
        String(s) => Payload::Bytes(s.slice().to_vec()),
        Encoding(c) => n(c.0 as u64),
        DecimalSign(c) => n(c.0 as u64),
        Endianity(c) => n(c.0 as u64),
        Accessibility(c) => n(c.0 as u64),
        Visibility(c) => n(c.0 as u64),
        Virtuality(c) => n(c.0 as u64),
        Language(c) => n(c.0 as u64),
        AddressClass(c) => n(c.0),
        IdentifierCase(c) => n(c.0 as u64),
        CallingConvention(c) => n(c.0 as u64),
        Inline(c) => n(c.0 as u64),
        Ordering(c) => n(c.0 as u64),
        FileIndex(i) => n(*i),
        DwoId(i) => n(i.0),
    }
}

/// spec-level oracle for the sign rules (Spec/FormSpec.v unsigned_reading / signed_reading),
/// evaluated on the implementation alone
fn sign_check(v: &AttributeValue<R>) -> Option<String> {
    use AttributeValue::*;
    let twos = |x: u64, bits: u32| -> i64 {
        if bits == 64 {
            x as i64
        } else if x >= 1u64 << (bits - 1) {
            (x as i128 - (1i128 << bits)) as i64
        } else {
            x as i64
        }
    };
    let (eu, es): (Option<u64>, Option<i64>) = match v {
        Data1(d) => (Some(*d as u64), Some(twos(*d as u64, 8))),
        Data2(d) => (Some(*d as u64), Some(twos(*d as u64, 16))),
        Data4(d) => (Some(*d as u64), Some(twos(*d as u64, 32))),
        Data8(d) => (Some(*d), Some(twos(*d, 64))),
        Udata(d) => (Some(*d), if *d < (1u64 << 63) { Some(*d as i64) } else { None }),
        Sdata(d) => (if *d >= 0 { Some(*d as u64) } else { None }, Some(*d)),
        _ => (None, None),
    };
    if v.udata_value() != eu || v.sdata_value() != es {
        return Some(format!(
            "sign-mismatch {} udata={:?} sdata={:?}",
            show(v),
            v.udata_value(),
            v.sdata_value()
        ));
    }
    let e8 = eu.and_then(|x| if x < 256 { Some(x as u8) } else { None });
    let e16 = eu.and_then(|x| if x < 65536 { Some(x as u16) } else { None });
    if v.u8_value() != e8 || v.u16_value() != e16 {
        return Some(format!("sign-mismatch {} u8={:?} u16={:?}", show(v), v.u8_value(), v.u16_value()));
    }
    None
}

fn opt<T: core::fmt::Display>(o: Option<T>) -> String {
    match o {
        Some(x) => format!("{}", x),
        None => "-".to_string(),
    }
}

/// u= s= o= e= u8= u16= of a value
fn helpers(v: &AttributeValue<R>) -> String {
    format!(
        "u={} s={} o={} e={} u8={} u16={}",
        opt(v.udata_value()),
        opt(v.sdata_value()),
        opt(v.offset_value()),
        match v.exprloc_value() {
            Some(e) => format!("[{}]", hx(&e.0)),
            None => "-".to_string(),
        },
        opt(v.u8_value()),
        opt(v.u16_value())
    )
}

struct Spec {
    name: u16,
    form: u16,
    implicit: i64,
}

fn mkspec(s: &Spec) -> AttributeSpecification {
    AttributeSpecification::new(
        DwAt(s.name),
        DwForm(s.form),
        if s.form == DW_FORM_implicit_const.0 { Some(s.implicit) } else { None },
    )
}

/// .debug_info holding one unit: header + abbreviation code 1 + payload
fn unit_bytes(version: u16, fmt64: bool, asz: u8, be: bool, payload: &[u8]) -> Vec<u8> {
    let w = if fmt64 { 8 } else { 4 };
    let mut body = Vec::new();
    put(&mut body, be, version as u64, 2);
    if version >= 5 {
        body.push(DW_UT_compile.0);
        body.push(asz);
        put(&mut body, be, 0, w);
    } else {
        put(&mut body, be, 0, w);
        body.push(asz);
    }
    body.push(1); // abbreviation code
    body.extend_from_slice(payload);
    let mut out = Vec::new();
    if fmt64 {
        put(&mut out, be, 0xffff_ffff, 4);
        put(&mut out, be, body.len() as u64, 8);
    } else {
        put(&mut out, be, body.len() as u64, 4);
    }
    out.extend_from_slice(&body);
    out
}

fn abbrev_bytes(specs: &[Spec]) -> Vec<u8> {
    let mut a = Vec::new();
    uleb(&mut a, 1);
    uleb(&mut a, DW_TAG_compile_unit.0 as u64);
    a.push(DW_CHILDREN_no.0);
    for s in specs {
        uleb(&mut a, s.name as u64);
        uleb(&mut a, s.form as u64);
        if s.form == DW_FORM_implicit_const.0 {
            sleb(&mut a, s.implicit);
        }
    }
    a.push(0);
    a.push(0);
    a.push(0);
    a
}

// <ver> <fmt64> <asz> <be> <k> (<name> <form> <implicit>)*k <payload>
fn attrs(t: &[&str], with_helpers: bool) -> String {
    let version: u16 = t[1].parse().unwrap();
    let fmt64 = t[2] == "1";
    let asz: u8 = t[3].parse().unwrap();
    let be = t[4] == "1";
    let k: usize = t[5].parse().unwrap();
    let mut specs = Vec::new();
    for j in 0..k {
        specs.push(Spec {
            name: t[6 + 3 * j].parse().unwrap(),
            form: t[7 + 3 * j].parse().unwrap(),
            implicit: i(t[8 + 3 * j]),
        });
    }
    let payload = hex(t[6 + 3 * k]);
    let e = endian(t[4]);

    let constructed: Vec<AttributeSpecification> = specs.iter().map(mkspec).collect();
    // the abbreviation table route needs non-zero names and forms
    let via_abbrev = specs.iter().all(|s| s.name != 0 && s.form != 0);
    let ab = abbrev_bytes(if via_abbrev { &specs } else { &[] });
    let debug_abbrev = DebugAbbrev::new(&ab, e);
    let info = unit_bytes(version, fmt64, asz, be, &payload);
    let debug_info = DebugInfo::new(&info, e);
    // versions 2..5 with address size 1/2/4/8 go through the unit header parser; other encodings can only be given
    // through the public constructors UnitHeader::new / EntriesRaw::new
    let std_version = (2..=5).contains(&version) && [1u8, 2, 4, 8].contains(&asz);
    let mut die = vec![1u8];
    die.extend_from_slice(&payload);
    let header = if std_version {
        match debug_info.units().next() {
            Ok(Some(h)) => h,
            other => return format!("setup-fail header {:?}", other.map(|_| ())),
        }
    } else {
        gimli::UnitHeader::new(
            gimli::Encoding {
                format: if fmt64 { gimli::Format::Dwarf64 } else { gimli::Format::Dwarf32 },
                version,
                address_size: asz,
            },
            die.len() + 3 + if fmt64 { 8 } else { 4 },
            gimli::UnitType::Compilation,
            DebugAbbrevOffset(0),
            gimli::SectionId::DebugInfo,
            gimli::UnitSectionOffset(0),
            EndianSlice::new(&die[..], e),
        )
    };
    let enc = header.encoding();
    if enc.version != version || enc.address_size != asz || (enc.format == gimli::Format::Dwarf64) != fmt64 {
        return format!("setup-fail encoding {:?}", enc);
    }
    let abbrevs = match header.abbreviations(&debug_abbrev) {
        Ok(a) => a,
        Err(x) => return format!("setup-fail abbrev {}", errname(&x)),
    };
    let mut raw = if std_version {
        match header.entries_raw(&abbrevs, None) {
            Ok(r) => r,
            Err(x) => return format!("setup-fail raw {}", errname(&x)),
        }
    } else {
        gimli::EntriesRaw::new(EndianSlice::new(&die[..], e), enc, &abbrevs, UnitOffset(0))
    };
    let abbrev = match raw.read_abbreviation() {
        Ok(Some(a)) => a,
        other => return format!("setup-fail code {:?}", other.map(|_| ())),
    };
    let parsed_specs: Vec<AttributeSpecification> = abbrev.attributes().to_vec();
    if via_abbrev && parsed_specs != constructed {
        // AttributeSpecification::parse must reproduce name, form and the implicit constant
        return format!("abbrev-mismatch {:?}", parsed_specs);
    }
    let use_specs: &[AttributeSpecification] = if via_abbrev { &parsed_specs } else { &constructed };

    let start = raw.next_offset().0;
    let mut skipper = raw.clone();
    // reading, one attribute at a time
    let mut vals = Vec::new();
    let mut sizes = Vec::new();
    let mut read_err = None;
    for sp in use_specs {
        let before = raw.next_offset().0;
        sizes.push(match sp.size(&header) {
            Some(n) => format!("{}", n),
            None => "-".to_string(),
        });
        match raw.read_attribute(*sp) {
            Ok(a) => {
                if a.name() != sp.name() || a.form() != sp.form() {
                    return "attr-name-form-mismatch".to_string();
                }
                let used = raw.next_offset().0 - before;
                if let Some(n) = sp.size(&header) {
                    if n != used {
                        return format!("size-mismatch form={} size={} consumed={}", sp.form().0, n, used);
                    }
                }
                let rawv = a.raw_value();
                let norm = a.value();
                // spec-level oracles on the implementation alone
                if payload_of(&rawv) != payload_of(&norm) {
                    return format!("payload-mismatch name={} {} -> {}", sp.name().0, show(&rawv), show(&norm));
                }
                if let Some(m) = sign_check(&rawv) {
                    return m;
                }
                let mut s = format!("{}/{}", show(&rawv), show(&norm));
                if with_helpers {
                    s.push_str(&format!(
                        " {} | u={} s={} o={}",
                        helpers(&rawv),
                        opt(a.udata_value()),
                        opt(a.sdata_value()),
                        opt(a.offset_value())
                    ));
                }
                vals.push(s);
            }
            Err(x) => {
                read_err = Some(errname(&x));
                break;
            }
        }
    }
    let read_pos = raw.next_offset().0 - start;
    // skipping
    let skip_res = skipper.skip_attributes(use_specs);
    let skip_pos = skipper.next_offset().0 - start;
    if read_err.is_none() {
        // spec-level oracle: skipping consumes exactly what reading consumed
        match &skip_res {
            Ok(()) if skip_pos == read_pos => {}
            Ok(()) => return format!("skip-mismatch read={} skip={}", read_pos, skip_pos),
            Err(x) => return format!("skip-mismatch read={} skip=err:{}", read_pos, errname(x)),
        }
        // the cursor API (read_entry -> read_attributes) must see the same attributes
        let mut cur = header.entries(&abbrevs);
        if via_abbrev && std_version {
            match cur.next_dfs() {
                Ok(Some(entry)) => {
                    let got: Vec<String> = entry
                        .attrs()
                        .iter()
                        .map(|a| format!("{}/{}", show(&a.raw_value()), show(&a.value())))
                        .collect();
                    let want: Vec<String> =
                        vals.iter().map(|s| s.split(' ').next().unwrap().to_string()).collect();
                    if got != want || cur.next_offset().0 - start != read_pos {
                        return format!("cursor-mismatch {:?}", got);
                    }
                }
                other => return format!("cursor-mismatch {:?}", other.map(|_| ())),
            }
        }
    }
    let r = match read_err {
        None => format!("ok {} {}", read_pos, if vals.is_empty() { "-".to_string() } else { vals.join(" ; ") }),
        Some(x) => format!("err {}", x),
    };
    let s = match skip_res {
        Ok(()) => format!("ok {}", skip_pos),
        Err(x) => format!("err {}", errname(&x)),
    };
    format!("read {} skip {} sizes {}", r, s, if sizes.is_empty() { "-".to_string() } else { sizes.join(",") })
}

// <form> <ver> <fmt64> <asz>
fn size(t: &[&str]) -> String {
    let form: u16 = t[1].parse().unwrap();
    let version: u16 = t[2].parse().unwrap();
    let fmt64 = t[3] == "1";
    let asz: u8 = t[4].parse().unwrap();
    let encoding = gimli::Encoding {
        format: if fmt64 { gimli::Format::Dwarf64 } else { gimli::Format::Dwarf32 },
        version,
        address_size: asz,
    };
    let empty: [u8; 0] = [];
    let header = gimli::UnitHeader::new(
        encoding,
        0usize,
        gimli::UnitType::Compilation,
        DebugAbbrevOffset(0),
        gimli::SectionId::DebugInfo,
        gimli::UnitSectionOffset(0),
        EndianSlice::new(&empty[..], RunTimeEndian::Little),
    );
    let sp = AttributeSpecification::new(
        DW_AT_name,
        DwForm(form),
        if form == DW_FORM_implicit_const.0 { Some(0) } else { None },
    );
    match sp.size(&header) {
        Some(n) => format!("some {}", n),
        None => "none".to_string(),
    }
}

// <kind> <number|hex> : helpers on a directly constructed AttributeValue of every variant
fn helper_case(t: &[&str]) -> String {
    let kind: usize = t[1].parse().unwrap();
    let e = RunTimeEndian::Little;
    let bytes = if kind == 1 || kind == 9 || kind == 32 { hex(t[2]) } else { Vec::new() };
    let sl = EndianSlice::new(&bytes[..], e);
    let n = || u(t[2]);
    let o = || u(t[2]) as usize;
    use AttributeValue::*;
    let v: AttributeValue<R> = match kind {
        0 => Addr(n()),
        1 => Block(sl),
        2 => Data1(n() as u8),
        3 => Data2(n() as u16),
        4 => Data4(n() as u32),
        5 => Data8(n()),
        6 => Data16(t[2].parse::<u128>().unwrap()),
        7 => Sdata(i(t[2])),
        8 => Udata(n()),
        9 => Exprloc(Expression(sl)),
        10 => Flag(n() != 0),
        11 => SecOffset(o()),
        12 => DebugAddrBase(gimli::DebugAddrBase(o())),
        13 => DebugAddrIndex(gimli::DebugAddrIndex(o())),
        14 => UnitRef(UnitOffset(o())),
        15 => DebugInfoRef(DebugInfoOffset(o())),
        16 => DebugInfoRefSup(DebugInfoOffset(o())),
        17 => DebugLineRef(DebugLineOffset(o())),
        18 => LocationListsRef(LocationListsOffset(o())),
        19 => DebugLocListsBase(gimli::DebugLocListsBase(o())),
        20 => DebugLocListsIndex(gimli::DebugLocListsIndex(o())),
        21 => DebugMacinfoRef(DebugMacinfoOffset(o())),
        22 => DebugMacroRef(DebugMacroOffset(o())),
        23 => RangeListsRef(RawRangeListsOffset(o())),
        24 => DebugRngListsBase(gimli::DebugRngListsBase(o())),
        25 => DebugRngListsIndex(gimli::DebugRngListsIndex(o())),
        26 => DebugTypesRef(DebugTypeSignature(n())),
        27 => DebugStrRef(DebugStrOffset(o())),
        28 => DebugStrRefSup(DebugStrOffset(o())),
        29 => DebugStrOffsetsBase(gimli::DebugStrOffsetsBase(o())),
        30 => DebugStrOffsetsIndex(gimli::DebugStrOffsetsIndex(o())),
        31 => DebugLineStrRef(DebugLineStrOffset(o())),
        32 => String(sl),
        33 => Encoding(DwAte(n() as u8)),
        34 => DecimalSign(DwDs(n() as u8)),
        35 => Endianity(DwEnd(n() as u8)),
        36 => Accessibility(DwAccess(n() as u8)),
        37 => Visibility(DwVis(n() as u8)),
        38 => Virtuality(DwVirtuality(n() as u8)),
        39 => Language(DwLang(n() as u16)),
        40 => AddressClass(DwAddr(n())),
        41 => IdentifierCase(DwId(n() as u8)),
        42 => CallingConvention(DwCc(n() as u8)),
        43 => Inline(DwInl(n() as u8)),
        44 => Ordering(DwOrd(n() as u8)),
        45 => FileIndex(n()),
        46 => DwoId(gimli::DwoId(n())),
        _ => return "bad-kind".to_string(),
    };
    if let Some(m) = sign_check(&v) {
        return m;
    }
    format!("ok {} {}", show(&v), helpers(&v))
}

// <fmt64> <asz> <be> <form> <payload>: a DWARF 5 .debug_line header whose only directory entry has
// the format (DW_LNCT_path, form) and the given bytes; line.rs parse_attribute decodes it.
fn lineform(t: &[&str]) -> String {
    let fmt64 = t[1] == "1";
    let asz: u8 = t[2].parse().unwrap();
    let be = t[3] == "1";
    let form: u64 = t[4].parse().unwrap();
    let payload = hex(t[5]);
    let e = endian(t[3]);
    let w = if fmt64 { 8 } else { 4 };
    let mut hdr = Vec::new(); // after header_length
    hdr.extend_from_slice(&[1, 1, 1, 0xfb, 14, 1]); // min_inst_len, max_ops, default_is_stmt, line_base, line_range, opcode_base
    hdr.push(1); // directory_entry_format_count
    uleb(&mut hdr, 1); // DW_LNCT_path
    uleb(&mut hdr, form);
    uleb(&mut hdr, 1); // directories_count
    hdr.extend_from_slice(&payload);
    hdr.extend_from_slice(&[1, 1, 0x08, 0]); // one file format (path, string), no files
    let mut body = Vec::new();
    put(&mut body, be, 5, 2);
    body.push(asz);
    body.push(0);
    put(&mut body, be, hdr.len() as u64, w);
    body.extend_from_slice(&hdr);
    let mut sect = Vec::new();
    if fmt64 {
        put(&mut sect, be, 0xffff_ffff, 4);
        put(&mut sect, be, body.len() as u64, 8);
    } else {
        put(&mut sect, be, body.len() as u64, 4);
    }
    sect.extend_from_slice(&body);
    let dl = gimli::DebugLine::new(&sect, e);
    match dl.program(DebugLineOffset(0), 4, None, None) {
        Ok(p) => {
            let h = p.header();
            if h.encoding().address_size != asz || (h.encoding().format == gimli::Format::Dwarf64) != fmt64 {
                return format!("setup-fail encoding {:?}", h.encoding());
            }
            match h.directory(0) {
                Some(v) => format!("ok {}", show(&v)),
                None => "setup-fail no-directory".to_string(),
            }
        }
        Err(x) => err(&x),
    }
}

pub fn run(t: &[&str]) -> String {
    match t[0] {
        "c03.forms" | "c03.lists" => attrs(t, false),
        "c03.value" => attrs(t, true),
        "c03.size" => size(t),
        "c03.helpers" => helper_case(t),
        "c03.lineform" => lineform(t),
        _ => format!("unknown-stream {}", t[0]),
    }
}
