// c20.rs — reused state behaves like fresh state.
// Clause 1 (this section): one UnwindContext reused over a history of evaluations (successful,
// failing in the CIE, mid-FDE, by StackFull / TooManyRegisterRules, abandoned tables, address
// lookups) gives exactly the results fresh contexts give. Other clauses add their own streams
// (match arms) below.
use crate::c06::{at_on, parse_fdes, rows_on, section, S1x1, S2x3, S4x192, S8x256, SVec, R};
use crate::util::*;
use gimli::{BaseAddresses, DebugFrame, FrameDescriptionEntry, StoreOnHeap, UnwindContext, UnwindContextStorage};

#[derive(Clone, Copy)]
enum How {
    All,
    First(usize),
    At(u64),
}

fn use_on<'a, S: UnwindContextStorage<usize> + PartialEq>(
    df: &DebugFrame<R<'a>>,
    bases: &BaseAddresses,
    fde: &FrameDescriptionEntry<R<'a>>,
    ctx: &mut UnwindContext<usize, S>,
    how: How,
) -> String {
    match how {
        How::All => rows_on(df, bases, fde, ctx, None, &[]),
        How::First(k) => rows_on(df, bases, fde, ctx, Some(k), &[]),
        How::At(a) => at_on(df, bases, fde, ctx, a),
    }
}

/// results on ONE reused context, and on a fresh context per use
fn history<'a, S: UnwindContextStorage<usize> + PartialEq>(
    df: &DebugFrame<R<'a>>,
    bases: &BaseAddresses,
    fdes: &[FrameDescriptionEntry<R<'a>>],
    uses: &[(usize, How)],
) -> (Vec<String>, Vec<String>) {
    let mut reused = Box::new(UnwindContext::<usize, S>::new_in());
    let mut a = Vec::new();
    let mut b = Vec::new();
    for (i, how) in uses {
        a.push(use_on(df, bases, &fdes[*i], &mut *reused, *how));
    }
    for (i, how) in uses {
        let mut fresh = Box::new(UnwindContext::<usize, S>::new_in());
        b.push(use_on(df, bases, &fdes[*i], &mut *fresh, *how));
    }
    (a, b)
}

pub fn run(t: &[&str]) -> String {
    match t[0] {
        // ---------------------------------------------------------------- entry buffers, tree re-rooting,
        // iterator clones, abbreviation caches (harness/src/reuse.rs)
        "c20.buf" | "c20.tree" | "c20.clone" | "c20.cache" => crate::reuse::run(t),
        // ---------------------------------------------------------------- the stateful side of unit.rs
        // against Model/EntryBuf.v (reused entry buffer, cursor cache + clones, tree re-rooting)
        "c20.bufm" => entrybuf::bufm(t),
        "c20.curm" => entrybuf::curm(t),
        "c20.treem" => entrybuf::treem(t),
        "c20.linem" => entrybuf::linem(t),
        // ---------------------------------------------------------------- unwind context
        "c20.hist" | "c20.histm" => {
            let bytes = hex(t[5]);
            let df = section(&bytes, t[2], t[3], t[4]);
            let bases = BaseAddresses::default();
            let fdes = match parse_fdes(&df, &bases) {
                Ok(v) => v,
                Err(s) => return format!("bad-case {}", s),
            };
            let mut uses = Vec::new();
            let mut k = 6;
            while k + 2 < t.len() {
                let idx: usize = t[k].parse().unwrap();
                if idx >= fdes.len() {
                    return "bad-case index".into();
                }
                let how = match t[k + 1] {
                    "0" => How::All,
                    "1" => How::First(t[k + 2].parse().unwrap()),
                    _ => How::At(u(t[k + 2])),
                };
                uses.push((idx, how));
                k += 3;
            }
            let (a, b) = match t[1] {
                "0" => history::<StoreOnHeap>(&df, &bases, &fdes, &uses),
                "1" => history::<S1x1>(&df, &bases, &fdes, &uses),
                "2" => history::<S2x3>(&df, &bases, &fdes, &uses),
                "3" => history::<S4x192>(&df, &bases, &fdes, &uses),
                "4" => history::<S8x256>(&df, &bases, &fdes, &uses),
                _ => history::<SVec>(&df, &bases, &fdes, &uses),
            };
            for i in 0..a.len() {
                if a[i] != b[i] {
                    return format!(
                        "history-mismatch use={} fde={} reused=[{}] fresh=[{}]",
                        i, uses[i].0, a[i], b[i]
                    );
                }
            }
            if t[0] == "c20.hist" {
                format!("ok {}", a.len())
            } else {
                format!("ok {}", a.join(" || "))
            }
        }
        _ => format!("unknown-stream {}", t[0]),
    }
}

/// Streams c20.bufm / c20.curm / c20.treem: one reused DebuggingInformationEntry buffer, several cursors
/// with clones, one re-rooted EntriesTree — step by step, printed for comparison with Model/EntryBuf.v.
/// Line format: see ocaml/s_c20e.ml.
mod entrybuf {
    use crate::c03::show;
    use crate::util::*;
    use gimli::{
        Abbreviations, DebugAbbrev, DebugInfo, DebugTypes, DebuggingInformationEntry, EndianSlice, EntriesCursor,
        EntriesRaw, EntriesTreeNode, RunTimeEndian, UnitHeader, UnitOffset,
    };
    type R<'a> = EndianSlice<'a, RunTimeEndian>;

    /// the buffer in full, whatever it holds
    fn show_buf(e: &DebuggingInformationEntry<R>) -> String {
        let attrs: Vec<String> = e
            .attrs()
            .iter()
            .map(|a| format!("{}/{}={}", a.name().0, a.form().0, show(&a.raw_value())))
            .collect();
        format!(
            "{}:{}:{}:{}:{}",
            e.offset().0,
            e.depth(),
            e.tag().0,
            if e.has_children() { 1 } else { 0 },
            if attrs.is_empty() { "-".to_string() } else { attrs.join(",") }
        )
    }

    fn finish(toks: Vec<String>) -> String {
        format!("ok {}", if toks.is_empty() { "-".to_string() } else { toks.join(" ; ") })
    }

    /// first unit header of the section + its abbreviations; Err = the whole result line
    fn setup<'a>(t: &[&str], info: &'a [u8], abb: &'a [u8]) -> Result<(UnitHeader<R<'a>>, Abbreviations), String> {
        let en = endian(t[1]);
        let h = if t[2] == "1" {
            match DebugTypes::new(info, en).units().next() {
                Ok(Some(h)) => h,
                Ok(None) => return Err("nounit".into()),
                Err(e) => return Err(err(&e)),
            }
        } else {
            match DebugInfo::new(info, en).units().next() {
                Ok(Some(h)) => h,
                Ok(None) => return Err("nounit".into()),
                Err(e) => return Err(err(&e)),
            }
        };
        let da = DebugAbbrev::new(abb, en);
        match h.abbreviations(&da) {
            Ok(tbl) => Ok((h, tbl)),
            Err(e) => Err(format!("abbrev!{}", errname(&e))),
        }
    }

    fn obs(r: &EntriesRaw<R>) -> String {
        format!("{},{},{}", r.next_offset().0, r.next_depth(), if r.is_empty() { 1 } else { 0 })
    }

    pub fn bufm(t: &[&str]) -> String {
        let (info, abb) = (hex(t[3]), hex(t[4]));
        let (h, tbl) = match setup(t, &info, &abb) {
            Ok(x) => x,
            Err(s) => return s,
        };
        let mut rd = match h.entries_raw(&tbl, None) {
            Ok(r) => r,
            Err(e) => return format!("start!{}", errname(&e)),
        };
        let mut broken = false;
        // THE reused buffer
        let mut buf = DebuggingInformationEntry::null();
        let mut out = Vec::new();
        let mut k = 5;
        while k < t.len() {
            match t[k] {
                "1" => {
                    k += 1;
                    if broken {
                        out.push("undef".to_string());
                        continue;
                    }
                    // oracle: the same read into a fresh null buffer gives the same result and, when it
                    // succeeds, the same entry
                    let mut rd2 = rd.clone();
                    let mut fresh = DebuggingInformationEntry::null();
                    let r2 = rd2.read_entry(&mut fresh);
                    let r1 = rd.read_entry(&mut buf);
                    match (&r1, &r2) {
                        (Ok(a), Ok(b)) => {
                            if a != b || show_buf(&buf) != show_buf(&fresh) || obs(&rd) != obs(&rd2) {
                                return format!("buffer-mismatch reused={} fresh={}", show_buf(&buf), show_buf(&fresh));
                            }
                        }
                        (Err(a), Err(b)) => {
                            if errname(a) != errname(b) {
                                return "buffer-mismatch error".into();
                            }
                        }
                        _ => return "buffer-mismatch result-class".into(),
                    }
                    match r1 {
                        Ok(b) => out.push(format!("R:{}:{}:{}", if b { 1 } else { 0 }, show_buf(&buf), obs(&rd))),
                        Err(e) => {
                            broken = true;
                            out.push(format!("R:!{}:{}:-", errname(&e), show_buf(&buf)))
                        }
                    }
                }
                "2" => {
                    k += 1;
                    if broken {
                        out.push("undef".to_string());
                        continue;
                    }
                    match rd.read_abbreviation() {
                        Ok(None) => out.push(format!("S:null:{}", obs(&rd))),
                        Ok(Some(a)) => match rd.skip_attributes(a.attributes()) {
                            Ok(()) => out.push(format!("S:{}:{}", a.tag().0, obs(&rd))),
                            Err(e) => {
                                broken = true;
                                out.push(format!("S:!{}:-", errname(&e)))
                            }
                        },
                        Err(e) => {
                            broken = true;
                            out.push(format!("S:!{}:-", errname(&e)))
                        }
                    }
                }
                _ => {
                    let off = u(t[k + 1]) as usize;
                    k += 2;
                    match h.entries_raw(&tbl, Some(UnitOffset(off))) {
                        Ok(r) => {
                            rd = r;
                            broken = false;
                            out.push(format!("O:ok:{}", obs(&rd)))
                        }
                        Err(e) => out.push(format!(
                            "O:!{}:{}",
                            errname(&e),
                            if broken { "-".to_string() } else { obs(&rd) }
                        )),
                    }
                }
            }
        }
        finish(out)
    }

    fn show_cur(res: &str, c: &EntriesCursor<R>) -> String {
        format!(
            "{}:{}:{}:{}:{}:{}",
            res,
            match c.current() {
                Some(e) => show_buf(e),
                None => "none".to_string(),
            },
            c.offset().0,
            c.depth(),
            c.next_offset().0,
            c.next_depth()
        )
    }

    pub fn curm(t: &[&str]) -> String {
        let (info, abb) = (hex(t[3]), hex(t[4]));
        let (h, tbl) = match setup(t, &info, &abb) {
            Ok(x) => x,
            Err(s) => return s,
        };
        let mut cs: Vec<EntriesCursor<R>> = vec![h.entries(&tbl)];
        let mut out = Vec::new();
        let mut k = 5;
        while k + 1 < t.len() {
            let i: usize = t[k + 1].parse().unwrap();
            let op = t[k];
            k += 2;
            if i >= cs.len() {
                out.push("D".to_string());
                continue;
            }
            if op == "4" {
                let c = cs[i].clone();
                cs.push(c);
                out.push("D".to_string());
                continue;
            }
            let res = match op {
                "1" => cs[i].next_entry().map(|b| b),
                "2" => cs[i].next_dfs().map(|o| o.is_some()),
                _ => cs[i].next_sibling().map(|o| o.is_some()),
            };
            let rs = match res {
                Ok(b) => (if b { "1" } else { "0" }).to_string(),
                Err(e) => format!("!{}", errname(&e)),
            };
            out.push(show_cur(&rs, &cs[i]));
        }
        finish(out)
    }

    /// the driver of Model/EntryBuf.v walk_kids: emit, spend budget, maybe descend
    fn walk(node: EntriesTreeNode<R>, k: u64, budget: &mut u64, out: &mut Vec<String>) -> bool {
        let (off, _) = (node.entry().offset().0 as u64, ());
        out.push(show_buf(node.entry()));
        if *budget <= 1 {
            *budget = 0;
            return false;
        }
        *budget -= 1;
        if !(k == 0 || off % k != 0) {
            return true;
        }
        let mut ch = node.children();
        loop {
            match ch.next() {
                Ok(Some(c)) => {
                    if !walk(c, k, budget, out) {
                        return false;
                    }
                }
                Ok(None) => return true,
                Err(e) => {
                    out.push(format!("!{}", errname(&e)));
                    return false;
                }
            }
        }
    }

    fn line_row(r: &gimli::LineRow) -> String {
        format!(
            "{},{},{},{},{},{}{}{}{}{},{},{}",
            r.address(),
            r.op_index(),
            r.file_index(),
            r.line().map(|l| l.get()).unwrap_or(0),
            match r.column() {
                gimli::ColumnType::LeftEdge => 0,
                gimli::ColumnType::Column(c) => c.get(),
            },
            r.is_stmt() as u8,
            r.basic_block() as u8,
            r.end_sequence() as u8,
            r.prologue_end() as u8,
            r.epilogue_begin() as u8,
            r.isa(),
            r.discriminator()
        )
    }

    fn drain_rows<'a>(r: &mut gimli::LineRows<R<'a>, gimli::IncompleteLineProgram<R<'a>>>, cap: usize) -> Vec<String> {
        let mut v = Vec::new();
        let mut calls = 0;
        loop {
            calls += 1;
            if calls > cap {
                v.push("termination-mismatch".into());
                return v;
            }
            match r.next_row() {
                Ok(Some((_, row))) => v.push(line_row(row)),
                Ok(None) => {
                    v.push("end".into());
                    return v;
                }
                Err(e) => v.push(format!("err:{}", errname(&e))),
            }
        }
    }

    /// c20.linem <be> <asz> <unit hex> <k>: k calls, clone, drain the clone, drain the original
    pub fn linem(t: &[&str]) -> String {
        let en = endian(t[1]);
        let asz = u(t[2]) as u8;
        let bytes = hex(t[3]);
        let k = u(t[4]) as usize;
        let dl = gimli::DebugLine::new(&bytes, en);
        let prog = match dl.program(gimli::DebugLineOffset(0), asz, None, None) {
            Ok(p) => p,
            Err(e) => return err(&e),
        };
        let mut rows = prog.rows();
        let mut out = vec!["ok".to_string()];
        let mut ended = false;
        for _ in 0..k {
            match rows.next_row() {
                Ok(Some((_, r))) => out.push(line_row(r)),
                Ok(None) => {
                    ended = true;
                    break;
                }
                Err(e) => out.push(format!("err:{}", errname(&e))),
            }
        }
        let _ = ended;
        let mut copy = rows.clone();
        let cap = bytes.len() + 2;
        let a = drain_rows(&mut copy, cap);
        let b = drain_rows(&mut rows, cap);
        if a != b {
            return format!("clone-mismatch clone=[{}] original=[{}]", a.join(" "), b.join(" "));
        }
        out.push("|".into());
        out.extend(a);
        out.push("|".into());
        out.extend(b);
        out.join(" ")
    }

    pub fn treem(t: &[&str]) -> String {
        let (info, abb) = (hex(t[3]), hex(t[4]));
        let (h, tbl) = match setup(t, &info, &abb) {
            Ok(x) => x,
            Err(s) => return s,
        };
        // THE reused tree
        let mut tree = match h.entries_tree(&tbl, None) {
            Ok(x) => x,
            Err(e) => return format!("start!{}", errname(&e)),
        };
        let mut out = Vec::new();
        let mut k = 5;
        while k + 1 < t.len() {
            let (budget, sel) = (u(t[k]), u(t[k + 1]));
            k += 2;
            let run = |tr: &mut gimli::EntriesTree<R>| -> String {
                let mut evs = Vec::new();
                let mut b = budget;
                match tr.root() {
                    Ok(node) => {
                        walk(node, sel, &mut b, &mut evs);
                    }
                    Err(e) => evs.push(format!("!{}", errname(&e))),
                }
                evs.join(",")
            };
            let reused = run(&mut tree);
            // oracle: a tree fresh from entries_tree walks the same
            let mut fresh = h.entries_tree(&tbl, None).unwrap();
            let want = run(&mut fresh);
            if reused != want {
                return format!("reroot-mismatch reused=[{}] fresh=[{}]", reused, want);
            }
            out.push(reused);
        }
        finish(out)
    }
}
