// c20.rs — temporary dispatcher until the unwind-context streams are merged (they live in the c06 branch).
pub fn run(t: &[&str]) -> String {
    crate::reuse::run(t)
}
