// c20.rs — reused state behaves like fresh state.
// Clause 1 (this section): one UnwindContext reused over a history of evaluations (successful,
// failing in the CIE, mid-FDE, by StackFull / TooManyRegisterRules, abandoned tables, address
// lookups) gives exactly the results fresh contexts give. Other clauses add their own streams
// (match arms) below.
use crate::c06::{at_on, parse_fdes, rows_on, section, S1x1, S2x3, S4x192, S8x256, SVec, R};
use crate::util::*;
use gimli::{BaseAddresses, DebugFrame, FrameDescriptionEntry, StoreOnHeap, UnwindContext, UnwindContextStorage};

#[derive(Clone, Copy)]
enum How {
    All,
    First(usize),
    At(u64),
}

fn use_on<'a, S: UnwindContextStorage<usize> + PartialEq>(
    df: &DebugFrame<R<'a>>,
    bases: &BaseAddresses,
    fde: &FrameDescriptionEntry<R<'a>>,
    ctx: &mut UnwindContext<usize, S>,
    how: How,
) -> String {
    match how {
        How::All => rows_on(df, bases, fde, ctx, None, &[]),
        How::First(k) => rows_on(df, bases, fde, ctx, Some(k), &[]),
        How::At(a) => at_on(df, bases, fde, ctx, a),
    }
}

/// results on ONE reused context, and on a fresh context per use
fn history<'a, S: UnwindContextStorage<usize> + PartialEq>(
    df: &DebugFrame<R<'a>>,
    bases: &BaseAddresses,
    fdes: &[FrameDescriptionEntry<R<'a>>],
    uses: &[(usize, How)],
) -> (Vec<String>, Vec<String>) {
    let mut reused = Box::new(UnwindContext::<usize, S>::new_in());
    let mut a = Vec::new();
    let mut b = Vec::new();
    for (i, how) in uses {
        a.push(use_on(df, bases, &fdes[*i], &mut *reused, *how));
    }
    for (i, how) in uses {
        let mut fresh = Box::new(UnwindContext::<usize, S>::new_in());
        b.push(use_on(df, bases, &fdes[*i], &mut *fresh, *how));
    }
    (a, b)
}

pub fn run(t: &[&str]) -> String {
    match t[0] {
        // ---------------------------------------------------------------- entry buffers, tree re-rooting,
        // iterator clones, abbreviation caches (harness/src/reuse.rs)
        "c20.buf" | "c20.tree" | "c20.clone" | "c20.cache" => crate::reuse::run(t),
        // ---------------------------------------------------------------- unwind context
        "c20.hist" | "c20.histm" => {
            let bytes = hex(t[5]);
            let df = section(&bytes, t[2], t[3], t[4]);
            let bases = BaseAddresses::default();
            let fdes = match parse_fdes(&df, &bases) {
                Ok(v) => v,
                Err(s) => return format!("bad-case {}", s),
            };
            let mut uses = Vec::new();
            let mut k = 6;
            while k + 2 < t.len() {
                let idx: usize = t[k].parse().unwrap();
                if idx >= fdes.len() {
                    return "bad-case index".into();
                }
                let how = match t[k + 1] {
                    "0" => How::All,
                    "1" => How::First(t[k + 2].parse().unwrap()),
                    _ => How::At(u(t[k + 2])),
                };
                uses.push((idx, how));
                k += 3;
            }
            let (a, b) = match t[1] {
                "0" => history::<StoreOnHeap>(&df, &bases, &fdes, &uses),
                "1" => history::<S1x1>(&df, &bases, &fdes, &uses),
                "2" => history::<S2x3>(&df, &bases, &fdes, &uses),
                "3" => history::<S4x192>(&df, &bases, &fdes, &uses),
                "4" => history::<S8x256>(&df, &bases, &fdes, &uses),
                _ => history::<SVec>(&df, &bases, &fdes, &uses),
            };
            for i in 0..a.len() {
                if a[i] != b[i] {
                    return format!(
                        "history-mismatch use={} fde={} reused=[{}] fresh=[{}]",
                        i, uses[i].0, a[i], b[i]
                    );
                }
            }
            if t[0] == "c20.hist" {
                format!("ok {}", a.len())
            } else {
                format!("ok {}", a.join(" || "))
            }
        }
        _ => format!("unknown-stream {}", t[0]),
    }
}
