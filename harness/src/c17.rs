// c17.rs — accelerated lookups and section plumbing (index.rs, names.rs, aranges.rs, lookup.rs, pubnames.rs,
// pubtypes.rs, str.rs, addr.rs, case_fold.rs, dwarf.rs loaders). Canonical printing mirrors ocaml/s_c17.ml.
use crate::util::*;
use gimli::{
    DebugAddr, DebugAddrBase, DebugAddrIndex, DebugAranges, DebugArangesOffset, DebugCuIndex, DebugNames,
    DebugPubNames, DebugPubTypes, DebugStrOffsets, DebugStrOffsetsBase, DebugStrOffsetsIndex, DebugTuIndex,
    Dwarf, DwarfPackage, EndianSlice, Format, IndexSectionId, NameAttributeValue, NameEntry, NameIndex,
    NameTableIndex, NameTypeUnit, Reader, ReaderOffsetId, RunTimeEndian, Section, SectionId, UnitIndex,
};

#[path = "c17_wiring.rs"]
mod wiring;
#[path = "c17_corpus.rs"]
mod corpus;
#[path = "c17_glue.rs"]
mod glue;

pub type R<'a> = EndianSlice<'a, RunTimeEndian>;

pub fn rs<T, F: FnOnce(T) -> String>(r: gimli::Result<T>, f: F) -> String {
    match r {
        Ok(v) => f(v),
        Err(e) => format!("E:{}", errname(&e)),
    }
}

pub fn kind_code(s: IndexSectionId) -> u32 {
    match s {
        IndexSectionId::DebugAbbrev => 0,
        IndexSectionId::DebugInfo => 1,
        IndexSectionId::DebugLine => 2,
        IndexSectionId::DebugLoc => 3,
        IndexSectionId::DebugLocLists => 4,
        IndexSectionId::DebugMacinfo => 5,
        IndexSectionId::DebugMacro => 6,
        IndexSectionId::DebugRngLists => 7,
        IndexSectionId::DebugStrOffsets => 8,
        IndexSectionId::DebugTypes => 9,
    }
}

fn idxs(c: u64) -> Vec<u64> {
    let mut v: Vec<u64> = (0..c.min(4)).collect();
    v.push(c);
    v
}

fn rd_u(b: &[u8], off: usize, w: usize, be: bool) -> Option<u64> {
    if off.checked_add(w)? > b.len() {
        return None;
    }
    let mut v = 0u64;
    for k in 0..w {
        let byte = if be { b[off + k] } else { b[off + w - 1 - k] };
        v = (v << 8) | byte as u64;
    }
    Some(v)
}

// ------------------------------------------------------------------ unit index

fn show_row(ix: &UnitIndex<R>, row: u32) -> String {
    rs(ix.sections(row), |it| {
        let v: Vec<String> =
            it.map(|s| format!("{}.{}.{}", kind_code(s.section), s.offset, s.size)).collect();
        if v.is_empty() {
            "-".to_string()
        } else {
            v.join(",")
        }
    })
}

fn run_index(t: &[&str]) -> String {
    let e = endian(t[1]);
    let be = t[1] == "1";
    let wf = t[2] == "1";
    let b = hex(t[3]);
    let n: usize = t[4].parse().unwrap();
    let ids: Vec<u64> = (0..n).map(|k| u(t[5 + k])).collect();
    let ix = match DebugCuIndex::new(&b, e).index() {
        Ok(i) => i,
        Err(er) => {
            // the type-unit index goes through the same parser
            if DebugTuIndex::new(&b, e).index().map_err(|x| errname(&x)).err() != Some(errname(&er)) {
                return "cu-tu-mismatch".into();
            }
            return err(&er);
        }
    };
    let tix = match DebugTuIndex::new(&b, e).index() {
        Ok(i) => i,
        Err(_) => return "cu-tu-mismatch".into(),
    };
    let finds: Vec<String> = ids
        .iter()
        .map(|&id| match ix.find(id) {
            None => "-".to_string(),
            Some(r) => r.to_string(),
        })
        .collect();
    let uc = ix.unit_count() as u64;
    let rows = [0u64, 1, 2, uc, (uc + 1).min(u32::MAX as u64), u32::MAX as u64];
    let rows_s: Vec<String> = rows.iter().map(|&r| format!("{}={}", r, show_row(&ix, r as u32))).collect();
    // ---- spec-level oracle on the implementation: lookup = exhaustive scan of the raw tables
    if !b.is_empty() {
        let slots = ix.slot_count() as usize;
        let sc = ix.section_count() as usize;
        let ids_off = 16usize;
        let rows_off = ids_off + 8 * slots;
        let cols_off = rows_off + 4 * slots;
        let offs_off = cols_off + 4 * sc;
        let sizes_off = offs_off + 4 * sc * (uc as usize);
        if wf {
            for &id in ids.iter() {
                // exhaustive scan of the used slots (id 0 marks an unused slot: never an entry)
                let mut scan = None;
                for s in 0..slots {
                    if id != 0 && rd_u(&b, ids_off + 8 * s, 8, be) == Some(id) {
                        scan = rd_u(&b, rows_off + 4 * s, 4, be).map(|x| x as u32);
                        break;
                    }
                }
                if scan != ix.find(id) || scan != tix.find(id) {
                    return format!("lookup-mismatch find {} scan={:?} find={:?}", id, scan, ix.find(id));
                }
            }
        }
        for row in 1..=uc.min(64) {
            let got: Vec<(u32, u32)> = match ix.sections(row as u32) {
                Ok(it) => it.map(|s| (s.offset, s.size)).collect(),
                Err(_) => return format!("lookup-mismatch sections row {} rejected", row),
            };
            let want: Vec<(u32, u32)> = (0..sc)
                .map(|j| {
                    let k = (row as usize - 1) * sc + j;
                    (
                        rd_u(&b, offs_off + 4 * k, 4, be).unwrap_or(u64::MAX) as u32,
                        rd_u(&b, sizes_off + 4 * k, 4, be).unwrap_or(u64::MAX) as u32,
                    )
                })
                .collect();
            if got != want {
                return format!("lookup-mismatch sections row {} got={:?} want={:?}", row, got, want);
            }
        }
    }
    format!(
        "ok {} {} {} {} | f:{} | r:{}",
        ix.version(),
        ix.section_count(),
        ix.unit_count(),
        ix.slot_count(),
        finds.join(","),
        rows_s.join(";")
    )
}

/// (start, len) of the part of `base[..len]` that `lookup` recognises as belonging to `want`.
pub fn scan_range<F: Fn(ReaderOffsetId) -> Option<(SectionId, usize)>>(
    lookup: F,
    base: &[u8],
    want: SectionId,
) -> Option<(usize, usize)> {
    let p0 = base.as_ptr() as u64;
    let mut first = None;
    let mut count = 0usize;
    for p in 0..=base.len() {
        if let Some((id, off)) = lookup(ReaderOffsetId(p0 + p as u64)) {
            if id != want {
                return None;
            }
            if first.is_none() {
                if off != 0 {
                    return None;
                }
                first = Some(p);
            }
            count += 1;
        }
    }
    first.map(|f| (f, count - 1))
}

fn run_pkg(t: &[&str]) -> String {
    let e = endian(t[1]);
    let b = hex(t[2]);
    let row = u(t[3]);
    let lens: Vec<usize> = (0..10).map(|k| t[4 + k].parse().unwrap()).collect();
    // section buffers with slack so that no two used ranges touch
    let bufs: Vec<Vec<u8>> =
        lens.iter().enumerate().map(|(k, &l)| (0..l + 8).map(|i| (k * 31 + i) as u8).collect()).collect();
    let sec = |k: usize| -> &[u8] { &bufs[k][..lens[k]] };
    let empty_buf = vec![0u8; 8];
    let loader = |id: SectionId| -> Result<R, gimli::Error> {
        let s: &[u8] = match id {
            SectionId::DebugCuIndex => &b,
            SectionId::DebugAbbrev => sec(0),
            SectionId::DebugInfo => sec(1),
            SectionId::DebugLine => sec(2),
            SectionId::DebugLoc => sec(3),
            SectionId::DebugLocLists => sec(4),
            SectionId::DebugMacinfo => sec(5),
            SectionId::DebugMacro => sec(6),
            SectionId::DebugRngLists => sec(7),
            SectionId::DebugStrOffsets => sec(8),
            SectionId::DebugTypes => sec(9),
            _ => &empty_buf[..0],
        };
        Ok(EndianSlice::new(s, e))
    };
    let dwp = match DwarfPackage::load(loader, EndianSlice::new(&empty_buf[..0], e)) {
        Ok(d) => d,
        Err(er) => return err(&er),
    };
    let parent: Dwarf<R> = Dwarf::load(|_| Ok::<_, gimli::Error>(EndianSlice::new(&empty_buf[4..4], e))).unwrap();
    let d = match dwp.cu_sections(row as u32, &parent) {
        Ok(d) => d,
        Err(er) => return err(&er),
    };
    let rng = |k: usize, r: &R| -> String {
        let o = r.slice().as_ptr() as usize - bufs[k].as_ptr() as usize;
        format!("{}.{}.{}", k, o, r.len())
    };
    let loc = match scan_range(|id| d.locations.lookup_offset_id(id), &bufs[3], SectionId::DebugLoc) {
        Some((o, z)) => format!("3.{}.{}", o, z),
        None => return "wiring-mismatch locations.debug_loc".into(),
    };
    let loclists = match scan_range(|id| d.locations.lookup_offset_id(id), &bufs[4], SectionId::DebugLocLists) {
        Some((o, z)) => format!("4.{}.{}", o, z),
        None => return "wiring-mismatch locations.debug_loclists".into(),
    };
    format!(
        "ok {} {} {} {} {} {} {} {} {} {}",
        rng(0, d.debug_abbrev.reader()),
        rng(1, d.debug_info.reader()),
        rng(2, d.debug_line.reader()),
        loc,
        loclists,
        rng(5, d.debug_macinfo.reader()),
        rng(6, d.debug_macro.reader()),
        rng(8, d.debug_str_offsets.reader()),
        rng(7, d.ranges.debug_rnglists().reader()),
        rng(9, d.debug_types.reader()),
    )
}

/// Exhaustive decoding of an index section, independent of UnitIndex: used slots and the rows' contributions
/// per section kind code (0 abbrev 1 info 2 line 3 loc 4 loclists 5 macinfo 6 macro 7 rnglists 8 str_offsets 9 types).
struct RawIndex {
    used: Vec<(u64, u32)>,
    units: usize,
    rows: Vec<[(usize, usize); 10]>,
}
fn raw_index(b: &[u8], be: bool) -> Option<RawIndex> {
    if b.is_empty() {
        return Some(RawIndex { used: Vec::new(), units: 0, rows: Vec::new() });
    }
    let v2 = rd_u(b, 0, 4, be)? == 2;
    let sc = rd_u(b, 4, 4, be)? as usize;
    let uc = rd_u(b, 8, 4, be)? as usize;
    let slots = rd_u(b, 12, 4, be)? as usize;
    let ids_off = 16;
    let rows_off = ids_off + 8 * slots;
    let cols_off = rows_off + 4 * slots;
    let offs_off = cols_off + 4 * sc;
    let sizes_off = offs_off + 4 * sc * uc;
    let mut used = Vec::new();
    for s in 0..slots {
        let id = rd_u(b, ids_off + 8 * s, 8, be)?;
        if id != 0 {
            used.push((id, rd_u(b, rows_off + 4 * s, 4, be)? as u32));
        }
    }
    let kind = |code: u64| -> Option<usize> {
        Some(match (v2, code) {
            (_, 1) => 1,
            (true, 2) => 9,
            (_, 3) => 0,
            (_, 4) => 2,
            (true, 5) => 3,
            (false, 5) => 4,
            (_, 6) => 8,
            (true, 7) => 5,
            (true, 8) => 6,
            (false, 7) => 6,
            (false, 8) => 7,
            _ => return None,
        })
    };
    let mut rows = Vec::new();
    for r in 0..uc {
        let mut row = [(0usize, 0usize); 10];
        for j in 0..sc {
            let k = kind(rd_u(b, cols_off + 4 * j, 4, be)?)?;
            row[k] = (
                rd_u(b, offs_off + 4 * (r * sc + j), 4, be)? as usize,
                rd_u(b, sizes_off + 4 * (r * sc + j), 4, be)? as usize,
            );
        }
        rows.push(row);
    }
    Some(RawIndex { used, units: uc, rows })
}

// ---- whole packages: both indexes, compilation and type units (mirrors dwp_case of s_c17.ml)
fn run_dwp(t: &[&str]) -> String {
    let e = endian(t[1]);
    let cu_index = hex(t[2]);
    let tu_index = hex(t[3]);
    // section buffers (kind-code order) with slack so that used ranges of different sections never touch
    let lens: Vec<usize> = (0..10).map(|k| hex(t[4 + k]).len()).collect();
    let bufs: Vec<Vec<u8>> = (0..10)
        .map(|k| {
            let mut v = hex(t[4 + k]);
            v.extend_from_slice(&[0xdd; 8]);
            v
        })
        .collect();
    let nids: usize = t[14].parse().unwrap();
    let ids: Vec<u64> = (0..nids).map(|k| u(t[15 + k])).collect();
    let maxrow: u32 = t[15 + nids].parse().unwrap();
    let sec = |k: usize| -> &[u8] { &bufs[k][..lens[k]] };
    let empty_buf = vec![0u8; 8];
    let loader = |id: SectionId| -> Result<R, gimli::Error> {
        let s: &[u8] = match id {
            SectionId::DebugCuIndex => &cu_index,
            SectionId::DebugTuIndex => &tu_index,
            SectionId::DebugAbbrev => sec(0),
            SectionId::DebugInfo => sec(1),
            SectionId::DebugLine => sec(2),
            SectionId::DebugLoc => sec(3),
            SectionId::DebugLocLists => sec(4),
            SectionId::DebugMacinfo => sec(5),
            SectionId::DebugMacro => sec(6),
            SectionId::DebugRngLists => sec(7),
            SectionId::DebugStrOffsets => sec(8),
            SectionId::DebugTypes => sec(9),
            _ => &empty_buf[..0],
        };
        Ok(EndianSlice::new(s, e))
    };
    let dwp = match DwarfPackage::load(loader, EndianSlice::new(&empty_buf[..0], e)) {
        Ok(d) => d,
        Err(er) => return err(&er),
    };
    let parent: Dwarf<R> = Dwarf::load(|_| Ok::<_, gimli::Error>(EndianSlice::new(&empty_buf[4..4], e))).unwrap();
    // returns the printed form, the (start, len) of the ten section kinds, and (type code, id) of the units
    let show = |res: gimli::Result<Dwarf<R>>| -> (String, Option<[(usize, usize); 10]>, Vec<(u32, u64)>) {
        let d = match res {
            Ok(d) => d,
            Err(er) => return (format!("E:{}", errname(&er)), None, Vec::new()),
        };
        let mut facts: Vec<(u32, u64)> = Vec::new();
        let pos = |k: usize, r: &R| -> (usize, usize) { (r.slice().as_ptr() as usize - bufs[k].as_ptr() as usize, r.len()) };
        let rng = |k: usize, r: &R| -> String {
            let o = r.slice().as_ptr() as usize - bufs[k].as_ptr() as usize;
            format!("{}.{}.{}", k, o, r.len())
        };
        let loc = match scan_range(|id| d.locations.lookup_offset_id(id), &bufs[3], SectionId::DebugLoc) {
            Some((o, z)) => format!("3.{}.{}", o, z),
            None => return ("wiring-mismatch locations.debug_loc".into(), None, Vec::new()),
        };
        let loclists = match scan_range(|id| d.locations.lookup_offset_id(id), &bufs[4], SectionId::DebugLocLists) {
            Some((o, z)) => format!("4.{}.{}", o, z),
            None => return ("wiring-mismatch locations.debug_loclists".into(), None, Vec::new()),
        };
        let loc_pos = scan_range(|id| d.locations.lookup_offset_id(id), &bufs[3], SectionId::DebugLoc).unwrap();
        let loclists_pos = scan_range(|id| d.locations.lookup_offset_id(id), &bufs[4], SectionId::DebugLocLists).unwrap();
        let ranges: [(usize, usize); 10] = [
            pos(0, d.debug_abbrev.reader()),
            pos(1, d.debug_info.reader()),
            pos(2, d.debug_line.reader()),
            loc_pos,
            loclists_pos,
            pos(5, d.debug_macinfo.reader()),
            pos(6, d.debug_macro.reader()),
            pos(7, d.ranges.debug_rnglists().reader()),
            pos(8, d.debug_str_offsets.reader()),
            pos(9, d.debug_types.reader()),
        ];
        // the units of the returned contribution: type, id, name
        let mut units: Vec<String> = Vec::new();
        let mut headers = Vec::new();
        let mut it = d.units();
        loop {
            match it.next() {
                Ok(Some(h)) => headers.push(h),
                Ok(None) => break,
                Err(er) => {
                    units.push(format!("U!{}", errname(&er)));
                    break;
                }
            }
        }
        let mut it = d.type_units();
        loop {
            match it.next() {
                Ok(Some(h)) => headers.push(h),
                Ok(None) => break,
                Err(er) => {
                    units.push(format!("U!{}", errname(&er)));
                    break;
                }
            }
        }
        for h in headers {
            let ty = h.type_();
            match d.unit(h) {
                Ok(unit) => {
                    let (code, uid) = match ty {
                        gimli::UnitType::Compilation => (1, unit.dwo_id.map(|x| x.0).unwrap_or(0)),
                        gimli::UnitType::Type { type_signature, .. } => (2, type_signature.0),
                        gimli::UnitType::Partial => (3, 0),
                        gimli::UnitType::Skeleton(i) => (4, i.0),
                        gimli::UnitType::SplitCompilation(i) => (5, i.0),
                        gimli::UnitType::SplitType { type_signature, .. } => (6, type_signature.0),
                    };
                    let name = unit.name.map(|n| tohex(n.slice())).unwrap_or_else(|| "noname".to_string());
                    units.push(format!("U{}.{}.{}", code, uid, name));
                    facts.push((code, uid));
                }
                Err(er) => units.push(format!("U!{}", errname(&er))),
            }
        }
        let text = format!(
            "{} {} {} {} {} {} {} {} {} {} {}",
            rng(0, d.debug_abbrev.reader()),
            rng(1, d.debug_info.reader()),
            rng(2, d.debug_line.reader()),
            loc,
            loclists,
            rng(5, d.debug_macinfo.reader()),
            rng(6, d.debug_macro.reader()),
            rng(8, d.debug_str_offsets.reader()),
            rng(7, d.ranges.debug_rnglists().reader()),
            rng(9, d.debug_types.reader()),
            if units.is_empty() { "-".to_string() } else { units.join("+") }
        );
        (text, Some(ranges), facts)
    };
    // ---- spec-level oracle on the implementation: every lookup = exhaustive scan of the raw index of ITS kind,
    // the returned sections are byte for byte the packaged contributions, and the unit found is the one asked for
    let be = t[1] == "1";
    let raw = [raw_index(&cu_index, be), raw_index(&tu_index, be)];
    let check = |which: usize, what: &str, row: Option<u32>, id: Option<u64>,
                 got: &(String, Option<[(usize, usize); 10]>, Vec<(u32, u64)>)| -> Option<String> {
        let ri = raw[which].as_ref()?;
        match row {
            Some(r) if r >= 1 && (r as usize) <= ri.units => {
                let want = ri.rows[r as usize - 1];
                // contributions lying inside the package sections (always so for generated packages)
                if (0..10).all(|k| want[k].0 + want[k].1 <= lens[k]) {
                    match got.1 {
                        Some(g) if g == want => {}
                        _ => return Some(format!("package-mismatch {} row {}: sections {} want {:?}", what, r, got.0, want)),
                    }
                    for k in 0..10 {
                        let (o, z) = want[k];
                        let _ = &bufs[k][o..o + z];
                    }
                    if let Some(id) = id {
                        let tu = which == 1;
                        let ok = got.2.len() == 1
                            && got.2[0].1 == id
                            && (if tu { got.2[0].0 == 2 || got.2[0].0 == 6 } else { got.2[0].0 == 1 || got.2[0].0 == 5 });
                        if !ok {
                            return Some(format!("package-mismatch {}({}): unit found is {:?}", what, id, got.2));
                        }
                    }
                }
                None
            }
            Some(r) => {
                if got.0 != "E:InvalidIndexRow" {
                    return Some(format!("package-mismatch {} row {}: {}", what, r, got.0));
                }
                None
            }
            None => None,
        }
    };
    let mut parts: Vec<String> = Vec::new();
    for &id in &ids {
        let mut texts = Vec::new();
        for which in 0..2 {
            let what = if which == 0 { "find_cu" } else { "find_tu" };
            let res = if which == 0 {
                dwp.find_cu(gimli::DwoId(id), &parent)
            } else {
                dwp.find_tu(gimli::DebugTypeSignature(id), &parent)
            };
            let scan: Option<u32> =
                raw[which].as_ref().and_then(|ri| ri.used.iter().find(|(x, _)| *x == id && id != 0).map(|(_, r)| *r));
            match res {
                Ok(None) => {
                    if raw[which].is_some() && scan.is_some() {
                        return format!("lookup-mismatch {}({}) = None, exhaustive scan finds row {:?}", what, id, scan);
                    }
                    texts.push("none".to_string());
                }
                Ok(Some(d)) => {
                    let got = show(Ok(d));
                    if raw[which].is_some() {
                        match scan {
                            None => return format!("lookup-mismatch {}({}) found, exhaustive scan finds nothing", what, id),
                            Some(r) => {
                                if let Some(m) = check(which, what, Some(r), Some(id), &got) {
                                    return m;
                                }
                            }
                        }
                    }
                    texts.push(got.0);
                }
                Err(er) => {
                    if let (Some(ri), Some(r)) = (raw[which].as_ref(), scan) {
                        if r >= 1 && (r as usize) <= ri.units && (0..10).all(|k| ri.rows[r as usize - 1][k].0 + ri.rows[r as usize - 1][k].1 <= lens[k]) {
                            return format!("package-mismatch {}({}) fails with {} although row {} is valid", what, id, errname(&er), r);
                        }
                    }
                    texts.push(format!("E:{}", errname(&er)))
                }
            }
        }
        parts.push(format!("{}:C={};T={}", id, texts[0], texts[1]));
    }
    for row in 0..=maxrow {
        let c = show(dwp.cu_sections(row, &parent));
        if let Some(m) = check(0, "cu_sections", Some(row), None, &c) {
            return m;
        }
        let tt = show(dwp.tu_sections(row, &parent));
        if let Some(m) = check(1, "tu_sections", Some(row), None, &tt) {
            return m;
        }
        parts.push(format!("R{}:C={};T={}", row, c.0, tt.0));
    }
    parts.join(" | ")
}

// ------------------------------------------------------------------ .debug_names

fn show_opt<T, F: FnOnce(T) -> String>(o: Option<T>, f: F) -> String {
    match o {
        None => "-".to_string(),
        Some(v) => f(v),
    }
}

fn show_tu(t: NameTypeUnit<usize>) -> String {
    match t {
        NameTypeUnit::Local(o) => format!("L{}", o.0),
        NameTypeUnit::Foreign(s) => format!("F{}", s.0),
    }
}

fn show_entry<'a>(ix: &NameIndex<R<'a>>, e: &NameEntry<R<'a>>) -> String {
    let attrs: Vec<String> = e
        .attrs
        .iter()
        .map(|a| {
            let v = match a.value() {
                NameAttributeValue::Unsigned(v) => format!("u{}", v),
                NameAttributeValue::Offset(v) => format!("o{}", v),
                NameAttributeValue::Flag(b) => (if *b { "f1" } else { "f0" }).to_string(),
            };
            format!("{}.{}.{}", a.name().0, a.form().0, v)
        })
        .collect();
    let par = rs(e.parent(), |p| match p {
        None => "-".to_string(),
        Some(None) => "none".to_string(),
        Some(Some(off)) => format!("{}({})", off.0, rs(ix.name_entry(off), |pe| pe.tag.0.to_string())),
    });
    format!(
        "{}.{}.{}{{{}}}cu={},tu={},die={},par={},th={}",
        e.offset.0,
        e.abbrev_code,
        e.tag.0,
        attrs.join(","),
        rs(e.compile_unit(ix), |o| show_opt(o, |v| v.0.to_string())),
        rs(e.type_unit(ix), |o| show_opt(o, show_tu)),
        rs(e.die_offset(), |o| show_opt(o, |v| v.0.to_string())),
        par,
        rs(e.type_hash(), |o| show_opt(o, |v| v.to_string())),
    )
}

/// drain a `next() -> Result<Option<T>>` iterator: items and the stop suffix
pub fn drain<T, F: FnMut() -> gimli::Result<Option<T>>>(mut next: F) -> (Vec<T>, String) {
    let mut v = Vec::new();
    let mut guard = 0usize;
    loop {
        guard += 1;
        if guard > 10_000_000 {
            return (v, "!nonterm".into());
        }
        match next() {
            Ok(Some(x)) => v.push(x),
            Ok(None) => return (v, String::new()),
            Err(e) => return (v, format!("!{}", errname(&e))),
        }
    }
}

fn show_name_index(ix: &NameIndex<R>, probes: &[u64], wf: bool) -> Result<String, String> {
    let abbr: Vec<String> = ix
        .abbreviations()
        .abbreviations()
        .iter()
        .map(|a| {
            let at: Vec<String> =
                a.attributes().iter().map(|s| format!("{}.{}", s.name().0, s.form().0)).collect();
            format!("{}.{}({})", a.code(), a.tag().0, at.join(","))
        })
        .collect();
    let cu: Vec<String> = idxs(ix.compile_unit_count() as u64)
        .iter()
        .map(|&i| rs(ix.compile_unit(i as u32), |v| v.0.to_string()))
        .collect();
    let dcu = rs(ix.default_compile_unit(), |o| show_opt(o, |v| v.0.to_string()));
    let lt: Vec<String> = idxs(ix.local_type_unit_count() as u64)
        .iter()
        .map(|&i| rs(ix.local_type_unit(i as u32), |v| v.0.to_string()))
        .collect();
    let ft: Vec<String> = idxs(ix.foreign_type_unit_count() as u64)
        .iter()
        .map(|&i| rs(ix.foreign_type_unit(i as u32), |v| v.0.to_string()))
        .collect();
    let tc = ix.type_unit_count().to_string();
    let tsum = (ix.local_type_unit_count() as u64 + ix.foreign_type_unit_count() as u64).min(u32::MAX as u64);
    let tu: Vec<String> = idxs(tsum).iter().map(|&i| rs(ix.type_unit(i as u32), show_tu)).collect();
    let mut all_items: Vec<(u32, u32)> = Vec::new();
    let mut buckets_clean = true;
    let bk: Vec<String> = idxs(ix.bucket_count() as u64)
        .iter()
        .map(|&b| {
            format!(
                "{}={}",
                b,
                rs(ix.find_by_bucket(b as u32), |o| match o {
                    None => "empty".to_string(),
                    Some(mut it) => {
                        let (items, st) = drain(|| it.next());
                        let s: Vec<String> = items.iter().map(|(i, h)| format!("{}.{}", i.0, h)).collect();
                        format!("[{}]{}", s.join(","), st)
                    }
                })
            )
        })
        .collect();
    for b in 0..ix.bucket_count() {
        match ix.find_by_bucket(b) {
            Ok(None) => {}
            Ok(Some(mut it)) => {
                let (items, st) = drain(|| it.next());
                if !st.is_empty() {
                    buckets_clean = false;
                }
                all_items.extend(items.iter().map(|(i, h)| (i.0, *h)));
            }
            Err(_) => buckets_clean = false,
        }
    }
    let q: Vec<String> = probes
        .iter()
        .map(|&h| {
            format!(
                "{}={}",
                h,
                rs(ix.find_by_hash(h as u32), |mut it| {
                    let (items, st) = drain(|| it.next());
                    let s: Vec<String> = items.iter().map(|i| i.0.to_string()).collect();
                    format!("[{}]{}", s.join(","), st)
                })
            )
        })
        .collect();
    // ---- oracle: for a well-formed table the buckets partition the names and find_by_hash = exhaustive scan
    if wf && ix.bucket_count() > 0 {
        let mut idx: Vec<u32> = all_items.iter().map(|p| p.0).collect();
        idx.sort();
        let want: Vec<u32> = (0..ix.name_count()).collect();
        if !buckets_clean || idx != want {
            return Err(format!("lookup-mismatch buckets do not partition the names: {:?}", idx));
        }
        for &h in probes {
            let mut scan: Vec<u32> = all_items.iter().filter(|p| p.1 as u64 == h).map(|p| p.0).collect();
            scan.sort();
            let got: Vec<u32> = match ix.find_by_hash(h as u32) {
                Ok(mut it) => drain(|| it.next()).0.iter().map(|i| i.0).collect(),
                Err(_) => return Err(format!("lookup-mismatch find_by_hash {} failed", h)),
            };
            if got != scan {
                return Err(format!("lookup-mismatch find_by_hash {} got={:?} scan={:?}", h, got, scan));
            }
        }
        let listed: Vec<u32> = ix.names().map(|i| i.0).collect();
        if listed != want {
            return Err("lookup-mismatch names()".to_string());
        }
    }
    let nm: Vec<String> = idxs(ix.name_count() as u64)
        .iter()
        .map(|&i| {
            let i = NameTableIndex(i as u32);
            format!(
                "{}={}/{}",
                i.0,
                rs(ix.name_string_offset(i), |v| v.0.to_string()),
                rs(ix.name_entries(i), |mut it| {
                    let (es, st) = drain(|| it.next());
                    let s: Vec<String> = es.iter().map(|e| show_entry(ix, e)).collect();
                    format!("[{}]{}", s.join("|"), st)
                })
            )
        })
        .collect();
    Ok(format!(
        "A {} ; CU {} ; D {} ; LT {} ; FT {} ; TC {} ; TU {} ; B {} ; Q {} ; N {}",
        abbr.join(" "),
        cu.join(","),
        dcu,
        lt.join(","),
        ft.join(","),
        tc,
        tu.join(","),
        bk.join(" "),
        q.join(" "),
        nm.join(" ")
    ))
}

fn run_names(t: &[&str]) -> String {
    let e = endian(t[1]);
    let wf = t[2] == "1";
    let b = hex(t[3]);
    let n: usize = t[4].parse().unwrap();
    let probes: Vec<u64> = (0..n).map(|k| u(t[5 + k])).collect();
    let dn = DebugNames::new(&b, e);
    let mut it = dn.headers();
    let mut parts: Vec<String> = Vec::new();
    let st;
    let mut guard = 0;
    loop {
        guard += 1;
        if guard > 100000 {
            return "nonterm-mismatch NameIndexHeaderIter".into();
        }
        match it.next() {
            Ok(Some(h)) => {
                let hd = format!(
                    "H {} {} {} {} {} {} {} {} {} {}",
                    h.offset().0,
                    h.length(),
                    if h.format() == Format::Dwarf64 { 64 } else { 32 },
                    h.compile_unit_count(),
                    h.local_type_unit_count(),
                    h.foreign_type_unit_count(),
                    h.bucket_count(),
                    h.name_count(),
                    h.abbrev_table_size(),
                    match h.augmentation_string() {
                        None => "none".to_string(),
                        Some(a) => tohex(a.slice()),
                    }
                );
                match h.index() {
                    Ok(ix) => match show_name_index(&ix, &probes, wf) {
                        Ok(s) => parts.push(format!("{} ; {}", hd, s)),
                        Err(m) => return m,
                    },
                    Err(er) => parts.push(format!("{} ; I E:{}", hd, errname(&er))),
                }
            }
            Ok(None) => {
                st = String::new();
                break;
            }
            Err(er) => {
                st = format!("!{}", errname(&er));
                break;
            }
        }
    }
    parts.push(format!("S{}", st));
    parts.join(" ; ")
}

// ------------------------------------------------------------------ aranges / pubnames

fn run_aranges(t: &[&str]) -> String {
    let e = endian(t[1]);
    let b = hex(t[2]);
    let n: usize = t[3].parse().unwrap();
    let ats: Vec<u64> = (0..n).map(|k| u(t[4 + k])).collect();
    let da = DebugAranges::new(&b, e);
    let hd = |h: &gimli::ArangeHeader<R>| -> String {
        let enc = h.encoding();
        format!(
            "H {} {} {} {} {} {}",
            h.offset().0,
            h.length(),
            if enc.format == Format::Dwarf64 { 64 } else { 32 },
            enc.version,
            h.debug_info_offset().0,
            enc.address_size
        )
    };
    let mut it = da.headers();
    let (hs, st) = drain(|| it.next());
    let mut parts: Vec<String> = Vec::new();
    for h in &hs {
        let mut raw_it = h.entries();
        let (raw, rst) = drain(|| raw_it.next_raw());
        let mut ent_it = h.entries();
        let (es, est) = drain(|| ent_it.next());
        // ---- oracle: the converted entries are the raw tuples minus tombstones, each with begin+len
        let asz = h.encoding().address_size;
        let max: u128 = if asz >= 8 { u64::MAX as u128 } else { (1u128 << (8 * asz as u32)) - 1 };
        let mut want: Vec<(u64, u64, u64)> = Vec::new();
        let mut want_err = false;
        if rst.is_empty() {
            for r in &raw {
                let (bg, ln) = (r.address() as u128, r.length() as u128);
                if bg >= max - 1 {
                    continue;
                }
                if bg + ln > max {
                    want_err = true;
                    break;
                }
                want.push((bg as u64, ln as u64, (bg + ln) as u64));
            }
            let got: Vec<(u64, u64, u64)> = es.iter().map(|x| (x.address(), x.length(), x.range().end)).collect();
            if got != want || want_err != (est == "!AddressOverflow") {
                return format!("lookup-mismatch aranges got={:?} want={:?} {}", got, want, est);
            }
        }
        let rs_: Vec<String> = raw.iter().map(|x| format!("{}.{}", x.address(), x.length())).collect();
        let es_: Vec<String> =
            es.iter().map(|x| format!("{}.{}.{}", x.address(), x.length(), x.range().end)).collect();
        parts.push(format!("{} R[{}]{} E[{}]{}", hd(h), rs_.join(","), rst, es_.join(","), est));
    }
    parts.push(format!("S{}", st));
    for &o in &ats {
        parts.push(format!("AT {}={}", o, rs(da.header(DebugArangesOffset(o as usize)), |h| hd(&h))));
    }
    parts.join(" ; ")
}

fn run_pub(t: &[&str]) -> String {
    let e = endian(t[2]);
    let b = hex(t[3]);
    let (items, st): (Vec<String>, String) = if t[1] == "n" {
        let s = DebugPubNames::new(&b, e);
        let mut it = s.items();
        let (v, st) = drain(|| it.next());
        (
            v.iter()
                .map(|x| format!("{}.{}.{}", x.die_offset().0, x.unit_header_offset().0, tohex(x.name().slice())))
                .collect(),
            st,
        )
    } else {
        let s = DebugPubTypes::new(&b, e);
        let mut it = s.items();
        let (v, st) = drain(|| it.next());
        (
            v.iter()
                .map(|x| format!("{}.{}.{}", x.die_offset().0, x.unit_header_offset().0, tohex(x.name().slice())))
                .collect(),
            st,
        )
    };
    format!("[{}]{}", items.join(","), st)
}

fn run_indexed(t: &[&str]) -> String {
    let e = endian(t[2]);
    let be = t[2] == "1";
    let sz: usize = t[3].parse().unwrap();
    let base = u(t[4]);
    let index = u(t[5]);
    let b = hex(t[6]);
    let got = if t[1] == "s" {
        let s = DebugStrOffsets::from(EndianSlice::new(&b, e));
        let f = if sz == 8 { Format::Dwarf64 } else { Format::Dwarf32 };
        s.get_str_offset(f, DebugStrOffsetsBase(base as usize), DebugStrOffsetsIndex(index as usize))
            .map(|x| x.0 as u64)
    } else {
        let s = DebugAddr::from(EndianSlice::new(&b, e));
        s.get_address(sz as u8, DebugAddrBase(base as usize), DebugAddrIndex(index as usize))
    };
    // oracle: the index-th word after the base
    let off = base as u128 + index as u128 * sz as u128;
    let want = if base as u128 > b.len() as u128 || off + sz as u128 > b.len() as u128 {
        None
    } else {
        rd_u(&b, off as usize, sz, be)
    };
    match (&got, want) {
        (Ok(g), Some(w)) if *g == w => format!("ok {}", g),
        (Err(er), None) => err(er),
        _ => format!("lookup-mismatch indexed got={:?} want={:?}", got.map_err(|x| errname(&x)), want),
    }
}

fn djb(bytes: &[u8]) -> u32 {
    let mut h: u64 = 5381;
    for b in bytes {
        h = (h * 33 + *b as u64) & 0xffff_ffff;
    }
    h as u32
}

// c17.strbase <version> <format 4|8> <be> <dwo> <index>
// A unit without DW_AT_str_offsets_base whose name is an indexed string. In a version 5 .dwo the implicit base
// is the size of the .debug_str_offsets header (initial length + version + padding); otherwise it is 0 (a
// version <= 4 .dwo has a headerless GNU table). Oracle: Unit::new picks exactly that base and the indexed
// string resolves to the string an exhaustive scan of the table finds.
fn run_strbase(t: &[&str]) -> String {
    use gimli::{Dwarf, DwarfFileType, EndianSlice, RunTimeEndian, SectionId};
    if t.len() < 6 {
        return "bad-case".into();
    }
    let version = u(t[1]) as u16;
    let fmt64 = t[2] == "8";
    let be = t[3] == "1";
    let dwo = t[4] == "1";
    let index = u(t[5]) as usize;
    let endian = if be { RunTimeEndian::Big } else { RunTimeEndian::Little };
    let w16 = |v: &mut Vec<u8>, x: u16| v.extend_from_slice(&if be { x.to_be_bytes() } else { x.to_le_bytes() });
    let w32 = |v: &mut Vec<u8>, x: u32| v.extend_from_slice(&if be { x.to_be_bytes() } else { x.to_le_bytes() });
    let w64 = |v: &mut Vec<u8>, x: u64| v.extend_from_slice(&if be { x.to_be_bytes() } else { x.to_le_bytes() });
    let word = |v: &mut Vec<u8>, x: u64| if fmt64 { w64(v, x) } else { w32(v, x as u32) };
    let init_len = |v: &mut Vec<u8>, x: u64| {
        if fmt64 {
            w32(v, 0xffff_ffff);
            w64(v, x);
        } else {
            w32(v, x as u32);
        }
    };
    // strings and the offsets table
    let names = ["s0", "s1x", "s2yy", "s3", "s4zzzz"];
    let mut strs = Vec::new();
    let mut offs = Vec::new();
    strs.extend_from_slice(b"pad\0");
    for n in names.iter() {
        offs.push(strs.len() as u64);
        strs.extend_from_slice(n.as_bytes());
        strs.push(0);
    }
    let headered = version >= 5;
    let mut table = Vec::new();
    let mut body = Vec::new();
    for o in &offs {
        word(&mut body, *o);
    }
    let header_len;
    if headered {
        init_len(&mut table, 4 + body.len() as u64);
        w16(&mut table, 5);
        w16(&mut table, 0);
        header_len = table.len();
        table.extend_from_slice(&body);
    } else {
        header_len = 0;
        table.extend_from_slice(&body);
    }
    // abbreviations: code 1, DW_TAG_compile_unit, no children, DW_AT_name in an indexed form
    let mut abbrev = vec![0x01, 0x11, 0x00, 0x03];
    if version >= 5 {
        abbrev.push(0x25); // DW_FORM_strx1
    } else {
        abbrev.extend_from_slice(&[0x82, 0x3e]); // DW_FORM_GNU_str_index 0x1f02
    }
    abbrev.extend_from_slice(&[0, 0, 0]);
    // unit
    let mut unit_body = Vec::new();
    w16(&mut unit_body, version);
    if version >= 5 {
        unit_body.push(0x01); // DW_UT_compile
        unit_body.push(8);
        word(&mut unit_body, 0);
    } else {
        word(&mut unit_body, 0);
        unit_body.push(8);
    }
    unit_body.push(1);
    unit_body.push(index as u8);
    let mut info = Vec::new();
    init_len(&mut info, unit_body.len() as u64);
    info.extend_from_slice(&unit_body);
    let empty: Vec<u8> = Vec::new();
    let mut dwarf = Dwarf::load(|id| -> Result<_, ()> {
        Ok(EndianSlice::new(
            match id {
                SectionId::DebugInfo => &info[..],
                SectionId::DebugAbbrev => &abbrev[..],
                SectionId::DebugStr => &strs[..],
                SectionId::DebugStrOffsets => &table[..],
                _ => &empty[..],
            },
            endian,
        ))
    })
    .unwrap();
    dwarf.file_type = if dwo { DwarfFileType::Dwo } else { DwarfFileType::Main };
    let header = match dwarf.units().next() {
        Ok(Some(h)) => h,
        other => return format!("harness-unit-header {:?}", other.err()),
    };
    let unit = match dwarf.unit(header) {
        Ok(x) => x,
        Err(e) => return format!("strbase-mismatch unit {}", errname(&e)),
    };
    let want_base = if dwo && version >= 5 { header_len } else { 0 };
    if unit.str_offsets_base.0 != want_base {
        return format!("strbase-mismatch base {} want {}", unit.str_offsets_base.0, want_base);
    }
    // the lookup is meaningful when the base really is where the entries start
    if want_base == header_len {
        let want = names.get(index).map(|s| s.as_bytes().to_vec());
        let got = unit.name.as_ref().map(|r| r.slice().to_vec());
        if index < names.len() && got != want {
            return format!("strbase-mismatch name {:?} want {:?}", got.map(|v| String::from_utf8_lossy(&v).into_owned()), names.get(index));
        }
        let mut cur = unit.entries();
        if let Ok(Some(e)) = cur.next_dfs() {
            if let Some(v) = e.attr_value(gimli::DW_AT_name) {
                match dwarf.attr_string(&unit, v) {
                    Ok(r) => {
                        if index < names.len() && Some(r.slice().to_vec()) != want {
                            return format!("strbase-mismatch attr_string {:?}", String::from_utf8_lossy(r.slice()));
                        }
                    }
                    Err(e) => {
                        if index < names.len() {
                            return format!("strbase-mismatch attr_string {}", errname(&e));
                        }
                    }
                }
            }
        }
    }
    "ok".into()
}

pub fn run(t: &[&str]) -> String {
    match t[0] {
        "c17.index" => run_index(t),
        "c17.findzero" => {
            // regression for gimli 8339644: id 0 is the unused-slot marker, never an entry of the table
            let b = hex(t[2]);
            let e = endian(t[1]);
            match DebugCuIndex::new(&b, e).index() {
                Ok(ix) => {
                    if let Some(r) = ix.find(0) {
                        return format!("lookup-mismatch find(0)=Some({})", r);
                    }
                    let empty: [u8; 0] = [];
                    let dwp = DwarfPackage::load(
                        |id: SectionId| -> Result<R, gimli::Error> {
                            Ok(EndianSlice::new(if id == SectionId::DebugCuIndex || id == SectionId::DebugTuIndex { &b[..] } else { &empty[..] }, e))
                        },
                        EndianSlice::new(&empty[..], e),
                    );
                    let parent: Dwarf<R> = Dwarf::load(|_| Ok::<_, gimli::Error>(EndianSlice::new(&empty[..], e))).unwrap();
                    match dwp {
                        Ok(p) => match (p.find_cu(gimli::DwoId(0), &parent), p.find_tu(gimli::DebugTypeSignature(0), &parent)) {
                            (Ok(None), Ok(None)) => "ok none".to_string(),
                            (a, b2) => format!("lookup-mismatch find_cu(0)={:?} find_tu(0)={:?}", a.map(|x| x.is_some()).map_err(|x| errname(&x)), b2.map(|x| x.is_some()).map_err(|x| errname(&x))),
                        },
                        Err(er) => err(&er),
                    }
                }
                Err(er) => err(&er),
            }
        }
        "c17.pkg" => run_pkg(t),
        "c17.dwp" => run_dwp(t),
        "c17.names" => run_names(t),
        "c17.aranges" => run_aranges(t),
        "c17.pub" => run_pub(t),
        "c17.indexed" => run_indexed(t),
        "c17.strbase" => run_strbase(t),
        "c17.djb" => {
            let b = hex(t[1]);
            match std::str::from_utf8(&b) {
                Ok(s) => format!("ok {}", gimli::case_folding_djb_hash(s)),
                Err(_) => "bad-case".into(),
            }
        }
        "c17.djbfold" => {
            let b = hex(t[1]);
            let s = match std::str::from_utf8(&b) {
                Ok(s) => s,
                Err(_) => return "bad-case".into(),
            };
            // the hash of s is the DJB hash of the UTF-8 bytes of the per-character case folding
            let mut folded = String::new();
            for c in s.chars() {
                let f = gimli::case_fold(c);
                if c.is_ascii() && f != c.to_ascii_lowercase() {
                    return format!("djbfold-mismatch ascii {:?}", c);
                }
                folded.push(f);
            }
            let want = djb(folded.as_bytes());
            let got = gimli::case_folding_djb_hash(s);
            if got != want {
                return format!("djbfold-mismatch got={} want={}", got, want);
            }
            // folding is idempotent and hash is insensitive to it
            if gimli::case_folding_djb_hash(&folded) != got {
                return "djbfold-mismatch not-idempotent".into();
            }
            "ok".into()
        }
        "c17.unitglue" => glue::run(t),
        "c17.lookup" => glue::run_lookup(t),
        "c17.wiring" => wiring::run(t),
        "c17.corpus" => corpus::run(t),
        _ => format!("unknown-stream {}", t[0]),
    }
}
