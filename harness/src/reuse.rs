// reuse.rs — C20 "reused contexts, buffers, iterators and caches behave like fresh ones": impl-side oracles for
// entry buffers, EntriesTree re-rooting, iterator clones and abbreviation caches (the unwind-context part lives
// in c20.rs). Each function returns `ok <detail>` or `<what>-mismatch <detail>`.
use crate::util::*;
use gimli::{
    AbbreviationsCacheStrategy, DebuggingInformationEntry, Dwarf, EndianSlice, Reader, RunTimeEndian,
    SectionId, UnitOffset, UnwindSection,
};
use std::collections::HashMap;

type Secs = HashMap<String, Vec<u8>>;
type R<'a> = EndianSlice<'a, RunTimeEndian>;

fn corpus_dir() -> String {
    std::env::var("GV_CORPUS")
        .unwrap_or_else(|_| concat!(env!("CARGO_MANIFEST_DIR"), "/../corpus/sections").to_string())
}

fn load_variant(variant: &str) -> Secs {
    let mut m = Secs::new();
    if let Ok(rd) = std::fs::read_dir(format!("{}/{}", corpus_dir(), variant)) {
        for e in rd.flatten() {
            if let (Ok(name), Ok(data)) = (e.file_name().into_string(), std::fs::read(e.path())) {
                m.insert(name, data);
            }
        }
    }
    m
}

fn dwarf_of<'a>(secs: &'a Secs) -> Dwarf<R<'a>> {
    static EMPTY: [u8; 0] = [];
    let dwo = secs.keys().any(|k| k.ends_with(".dwo")) && !secs.contains_key("debug_info");
    let mut d = Dwarf::load(|id: SectionId| -> Result<_, ()> {
        let n = id.name().trim_start_matches('.');
        let k = if dwo { format!("{}.dwo", n) } else { n.to_string() };
        Ok(EndianSlice::new(secs.get(&k).map(|v| &v[..]).unwrap_or(&EMPTY[..]), RunTimeEndian::Little))
    })
    .unwrap();
    if dwo {
        d.file_type = gimli::DwarfFileType::Dwo;
    }
    d
}

/// seeded damage of one section (byte flips / extreme values), same recipe family as c01
fn damage(secs: &mut Secs, target: &str, rng: &mut Rng, n: u64) {
    if let Some(buf) = secs.get_mut(target) {
        for _ in 0..n {
            if buf.is_empty() {
                break;
            }
            let pos = rng.below(buf.len() as u64) as usize;
            match rng.below(4) {
                0 => buf[pos] ^= 1 << rng.below(8),
                1 => buf[pos] = 0xff,
                2 => buf[pos] = 0,
                _ => buf[pos] = rng.next() as u8,
            }
        }
    }
}

fn entry_sig(e: &DebuggingInformationEntry<R<'_>>) -> String {
    let mut s = format!("{:#x}@{:?}/{}c{}", e.tag().0, e.offset().0, e.depth(), e.has_children() as u8);
    for a in e.attrs() {
        s.push_str(&format!(";{}:{}={:?}", a.name().0, a.form().0, a.raw_value()));
    }
    s.replace(' ', "")
}

/// entry buffer reused across entries (differing attribute counts, nulls, errors) == fresh null buffer each time
pub fn buf(variant: &str, seed: u64, nmut: u64) -> String {
    let mut secs = load_variant(variant);
    if secs.is_empty() {
        return format!("missing-corpus {}", variant);
    }
    let mut rng = Rng(seed);
    let tgt = if secs.contains_key("debug_info") { "debug_info" } else { "debug_info.dwo" };
    damage(&mut secs, tgt, &mut rng, nmut);
    let dwarf = dwarf_of(&secs);
    let mut units = dwarf.units();
    let mut checked = 0u64;
    let mut errors = 0u64;
    while let Ok(Some(h)) = units.next() {
        let unit = match dwarf.unit(h) {
            Ok(u) => u,
            Err(_) => continue,
        };
        let mut reused = DebuggingInformationEntry::null();
        let mut a = match unit.entries_raw(None) {
            Ok(x) => x,
            Err(_) => continue,
        };
        let mut b = a.clone();
        let mut steps = 0;
        while !a.is_empty() && steps < 20000 {
            steps += 1;
            let ra = a.read_entry(&mut reused);
            let mut fresh = DebuggingInformationEntry::null();
            let rb = b.read_entry(&mut fresh);
            match (ra, rb) {
                (Ok(x), Ok(y)) => {
                    if x != y || entry_sig(&reused) != entry_sig(&fresh) {
                        return format!("buffer-mismatch unit={:?} entry={:?}", unit.header.offset(), fresh.offset().0)
                            .replace(' ', "");
                    }
                    checked += 1;
                }
                (Err(_), Err(_)) => {
                    errors += 1;
                    // after an error: reuse the (partially modified) buffer for a later readable entry
                    // at a fresh position, and compare again
                    let off = UnitOffset(unit.header.header_size());
                    if let (Ok(mut a2), Ok(mut b2)) = (unit.entries_raw(Some(off)), unit.entries_raw(Some(off))) {
                        let mut fresh2 = DebuggingInformationEntry::null();
                        let (x, y) = (a2.read_entry(&mut reused), b2.read_entry(&mut fresh2));
                        match (x, y) {
                            (Ok(p), Ok(q)) if p == q && entry_sig(&reused) == entry_sig(&fresh2) => {}
                            (Err(_), Err(_)) => {}
                            _ => return "buffer-mismatch after-error".to_string(),
                        }
                    }
                    break;
                }
                _ => return "buffer-mismatch result-class".to_string(),
            }
        }
    }
    format!("ok {} {}", checked, errors)
}

fn tree_walk(node: gimli::EntriesTreeNode<'_, '_, R<'_>>, out: &mut Vec<String>, budget: &mut i64, depth: usize) -> bool {
    // returns false when the budget ran out (partial traversal)
    out.push(format!("{}:{}", depth, entry_sig(node.entry())));
    *budget -= 1;
    if *budget <= 0 || depth > 300 {
        return false;
    }
    let mut children = node.children();
    loop {
        match children.next() {
            Ok(Some(c)) => {
                if !tree_walk(c, out, budget, depth + 1) {
                    return false;
                }
            }
            Ok(None) => return true,
            Err(_) => {
                out.push("err".into());
                return true;
            }
        }
    }
}

/// EntriesTree::root() after any partial traversal == root() of a new tree
pub fn tree(variant: &str, seed: u64, nmut: u64) -> String {
    let mut secs = load_variant(variant);
    if secs.is_empty() {
        return format!("missing-corpus {}", variant);
    }
    let mut rng = Rng(seed);
    let tgt = if secs.contains_key("debug_info") { "debug_info" } else { "debug_info.dwo" };
    damage(&mut secs, tgt, &mut rng, nmut);
    let dwarf = dwarf_of(&secs);
    let mut units = dwarf.units();
    let mut n = 0;
    while let Ok(Some(h)) = units.next() {
        let unit = match dwarf.unit(h) {
            Ok(u) => u,
            Err(_) => continue,
        };
        // reference: a fresh tree, full traversal
        let mut fresh = match unit.entries_tree(None) {
            Ok(t) => t,
            Err(_) => continue,
        };
        let mut want = Vec::new();
        let full = match fresh.root() {
            Ok(r) => tree_walk(r, &mut want, &mut 100_000, 0),
            Err(e) => {
                want.push(format!("rooterr {}", errname(&e)));
                true
            }
        };
        if !full {
            continue;
        }
        // reused tree: several partial traversals of random lengths, then a full one
        let mut reused = unit.entries_tree(None).unwrap();
        for _ in 0..3 {
            let mut partial = Vec::new();
            let mut budget = 1 + rng.below(want.len() as u64 + 2) as i64;
            if let Ok(r) = reused.root() {
                tree_walk(r, &mut partial, &mut budget, 0);
            }
            if partial.len() <= want.len() && partial[..] != want[..partial.len()] {
                return "reroot-mismatch partial-prefix".to_string();
            }
        }
        let mut got = Vec::new();
        match reused.root() {
            Ok(r) => {
                tree_walk(r, &mut got, &mut 100_000, 0);
            }
            Err(e) => got.push(format!("rooterr {}", errname(&e))),
        }
        if got != want {
            return format!("reroot-mismatch unit={}", n);
        }
        n += 1;
    }
    format!("ok {}", n)
}

fn drain<T, E>(mut next: impl FnMut() -> Result<Option<T>, E>, fmt: impl Fn(&T) -> String, cap: usize) -> Vec<String> {
    let mut v = Vec::new();
    for _ in 0..cap {
        match next() {
            Ok(Some(x)) => v.push(fmt(&x)),
            Ok(None) => break,
            Err(_) => {
                v.push("err".into());
                // keep going: an iterator may legitimately continue or stop; both copies must do the same
            }
        }
    }
    v
}

/// a clone taken at position k continues exactly like the original, and consuming it leaves the original alone
pub fn clone(variant: &str, seed: u64, nmut: u64) -> String {
    let mut secs = load_variant(variant);
    if secs.is_empty() {
        return format!("missing-corpus {}", variant);
    }
    let mut rng = Rng(seed);
    let names: Vec<String> = {
        let mut v: Vec<String> = secs.keys().filter(|k| *k != "ADDRS").cloned().collect();
        v.sort();
        v
    };
    let tgt = names[rng.below(names.len() as u64) as usize].clone();
    damage(&mut secs, &tgt, &mut rng, nmut);
    let dwarf = dwarf_of(&secs);
    let mut checked = 0;
    // macro: iterator `mk()`; take k steps, clone, drain clone, drain original, compare with a reference run
    macro_rules! check_iter {
        ($name:expr, $mk:expr, $next:expr, $fmt:expr) => {{
            let mut reference = $mk;
            let all = drain(|| $next(&mut reference), $fmt, 5000);
            if all.len() < 5000 {
                for _ in 0..3 {
                    let k = rng.below(all.len() as u64 + 1) as usize;
                    let mut orig = $mk;
                    let head = drain(|| $next(&mut orig), $fmt, k);
                    if head[..] != all[..head.len().min(all.len())] {
                        return format!("clone-mismatch {} head", $name);
                    }
                    let mut copy = orig.clone();
                    let tail_copy = drain(|| $next(&mut copy), $fmt, 5000);
                    let tail_orig = drain(|| $next(&mut orig), $fmt, 5000);
                    if tail_copy != tail_orig || [&head[..], &tail_orig[..]].concat() != all {
                        return format!("clone-mismatch {} k={}", $name, k);
                    }
                    checked += 1;
                }
            }
        }};
    }
    let mut units = dwarf.units();
    let mut nunits = 0;
    while let Ok(Some(h)) = units.next() {
        nunits += 1;
        if nunits > 6 {
            break;
        }
        let unit = match dwarf.unit(h) {
            Ok(u) => u,
            Err(_) => continue,
        };
        check_iter!(
            "EntriesCursor",
            unit.entries(),
            |c: &mut _| gimli::EntriesCursor::next_dfs(c).map(|o| o.map(|e| entry_sig(e))),
            |s: &String| s.clone()
        );
        if let Some(p) = unit.line_program.clone() {
            check_iter!(
                "LineRows",
                p.clone().rows(),
                |r: &mut gimli::LineRows<_, _>| r
                    .next_row()
                    .map(|o| o.map(|(_, row)| format!("{:?}", row).replace(' ', ""))),
                |s: &String| s.clone()
            );
        }
        // the first few expressions and lists of the unit
        let mut cur = unit.entries();
        let mut seen = 0;
        while let Ok(Some(e)) = cur.next_dfs() {
            for a in e.attrs() {
                if seen > 12 {
                    break;
                }
                if let Some(x) = a.exprloc_value() {
                    seen += 1;
                    let enc = unit.encoding();
                    check_iter!(
                        "OperationIter",
                        x.clone().operations(enc),
                        |i: &mut gimli::OperationIter<_>| i.next().map(|o| o.map(|op| format!("{:?}", op).replace(' ', ""))),
                        |s: &String| s.clone()
                    );
                }
            }
        }
    }
    // CFI entries
    static EMPTY: [u8; 0] = [];
    let eh = gimli::EhFrame::new(secs.get("eh_frame").map(|v| &v[..]).unwrap_or(&EMPTY[..]), RunTimeEndian::Little);
    let bases = gimli::BaseAddresses::default().set_eh_frame(0x2000).set_text(0x1000);
    check_iter!(
        "CfiEntriesIter",
        eh.entries(&bases),
        |i: &mut gimli::CfiEntriesIter<'_, _, _>| i.next().map(|o| o.map(|e| match e {
            gimli::CieOrFde::Cie(c) => format!("cie@{}", c.offset()),
            gimli::CieOrFde::Fde(f) => format!("fde@{}", f.offset()),
        })),
        |s: &String| s.clone()
    );
    format!("ok {}", checked)
}

/// Dwarf::unit / abbreviations under cache strategies {none, Duplicates, All} give identical results
pub fn cache(variant: &str, seed: u64, nmut: u64) -> String {
    let mut secs = load_variant(variant);
    if secs.is_empty() {
        return format!("missing-corpus {}", variant);
    }
    let mut rng = Rng(seed);
    // damage the abbreviation table and/or the unit headers so that some offsets are shared, some invalid
    let (info, abbrev) = if secs.contains_key("debug_info") { ("debug_info", "debug_abbrev") } else { ("debug_info.dwo", "debug_abbrev.dwo") };
    if rng.below(2) == 0 {
        damage(&mut secs, abbrev, &mut rng, nmut);
    } else {
        // overwrite the debug_abbrev_offset field of a unit header (v2-4: bytes 6..10; v5: bytes 8..12) with
        // the offset used by another unit / an invalid one
        if let Some(buf) = secs.get_mut(info) {
            if buf.len() > 12 && nmut > 0 {
                let v5 = buf[4] == 5;
                let pos = if v5 { 8 } else { 6 };
                let val: u32 = [0u32, 1, 0xffff_fff0, rng.below(64) as u32][rng.below(4) as usize];
                buf[pos..pos + 4].copy_from_slice(&val.to_le_bytes());
            }
        }
    }
    let sig = |d: &Dwarf<R<'_>>| -> Vec<String> {
        let mut out = Vec::new();
        let mut units = d.units();
        let mut guard = 0;
        loop {
            guard += 1;
            if guard > 10_000 {
                break;
            }
            match units.next() {
                Ok(Some(h)) => {
                    let r = d.abbreviations(&h);
                    match r {
                        Ok(a) => {
                            let mut s = format!("u{:?}:", h.offset());
                            for code in [1u64, 2, 3, 5, 8, 13, 21, 34, 100, 1000] {
                                s.push_str(&format!("{:?};", a.get(code).map(|x| (x.tag().0, x.has_children(), x.attributes().len()))));
                            }
                            out.push(s.replace(' ', ""));
                        }
                        Err(e) => out.push(format!("u{:?}:err{}", h.offset(), errname(&e)).replace(' ', "")),
                    }
                    match d.unit(h) {
                        Ok(u) => {
                            let mut c = u.entries();
                            let mut k = 0;
                            while let Ok(Some(e)) = c.next_dfs() {
                                k += 1;
                                if k < 4 {
                                    out.push(entry_sig(e));
                                }
                                if k > 2000 {
                                    break;
                                }
                            }
                            out.push(format!("n{}", k));
                        }
                        Err(e) => out.push(format!("uniterr{}", errname(&e))),
                    }
                }
                Ok(None) => break,
                Err(e) => {
                    out.push(format!("hdrerr{}", errname(&e)));
                    break;
                }
            }
        }
        out
    };
    let plain = dwarf_of(&secs);
    let want = sig(&plain);
    for (name, strat) in [("Duplicates", AbbreviationsCacheStrategy::Duplicates), ("All", AbbreviationsCacheStrategy::All)] {
        let mut d = dwarf_of(&secs);
        d.populate_abbreviations_cache(strat);
        let got = sig(&d);
        if got != want {
            return format!("cache-mismatch {}", name);
        }
        // populate twice / query twice
        d.populate_abbreviations_cache(strat);
        if sig(&d) != want {
            return format!("cache-mismatch {}-repopulated", name);
        }
    }
    format!("ok {}", want.len())
}

pub fn run(t: &[&str]) -> String {
    // c20.buf|tree|clone|cache <variant> <seed> <nmut>
    let (v, seed, nmut) = (t[1], u(t[2]), u(t[3]));
    match t[0] {
        "c20.buf" => buf(v, seed, nmut),
        "c20.tree" => tree(v, seed, nmut),
        "c20.clone" => clone(v, seed, nmut),
        "c20.cache" => cache(v, seed, nmut),
        _ => format!("unknown-stream {}", t[0]),
    }
}
