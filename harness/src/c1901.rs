// c1901.rs — attribute level of C19 on HAND-BUILT sections (case format and encoder: ocaml/s_c19a.ml).
//   c1901.attrs   Dwarf::convert_with_filter + ConvertUnit::convert (mode 0) or the attribute-by-attribute
//                 tolerant loop (mode 1); result = emitted DIEs, parents and every converted attribute
//                 (name, body, referenced DIEs); oracles of c19.rs against the unfiltered conversion
//   c1901.split   skeleton + one-unit .dwo: FilterUnitSection::new_split, ConvertUnit::convert_split_with_filter
//   c1901.bounds  UnitOffset::is_in_bounds / to_unit_section_offset, UnitSectionOffset::to_unit_offset
use super::c19::{addr, convert_error_name, dump, ent_name, load, parse_ident, unfiltered, write_out, Dump, Secs, R};
use crate::util::*;
use gimli::read;
use gimli::write as w;
use gimli::SectionId;

#[derive(Clone, Debug)]
struct Op {
    opi: u8,
    nest: u8,
    tk: u8,
    tv: u8,
}
#[derive(Clone, Debug)]
enum Kind {
    Plain(u8),
    Flag,
    URef(u8, u8, u8),
    IRef(u8, u8),
    Expr(Vec<Op>),
}
#[derive(Clone, Debug)]
struct Attr {
    name: u16,
    k: Kind,
}
#[derive(Clone, Debug)]
struct Ent {
    depth: u8,
    tag: u16,
    attrs: Vec<Attr>,
}
type Forest = Vec<Vec<Ent>>;

fn parse_forest(b: &[u8]) -> Forest {
    let mut f: Forest = Vec::new();
    let mut i = 0;
    while i < b.len() {
        if b[i] == 0xfe {
            f.push(Vec::new());
            i += 1;
            continue;
        }
        let depth = b[i];
        let tag = ((b[i + 1] as u16) << 8) | b[i + 2] as u16;
        let na = b[i + 3] as usize;
        i += 4;
        let mut attrs = Vec::new();
        for _ in 0..na {
            let name = ((b[i] as u16) << 8) | b[i + 1] as u16;
            let kind = b[i + 2];
            i += 3;
            let k = match kind {
                0 => {
                    i += 1;
                    Kind::Plain(b[i - 1])
                }
                1 => Kind::Flag,
                2 => {
                    i += 3;
                    Kind::URef(b[i - 3], b[i - 2], b[i - 1])
                }
                3 => {
                    i += 2;
                    Kind::IRef(b[i - 2], b[i - 1])
                }
                _ => {
                    let n = b[i] as usize;
                    i += 1;
                    let mut ops = Vec::new();
                    for _ in 0..n {
                        ops.push(Op { opi: b[i], nest: b[i + 1], tk: b[i + 2], tv: b[i + 3] });
                        i += 4;
                    }
                    Kind::Expr(ops)
                }
            };
            attrs.push(Attr { name, k });
        }
        f.last_mut().unwrap().push(Ent { depth, tag, attrs });
    }
    f
}

fn osz(fmt: u8) -> u64 {
    if fmt == 8 {
        8
    } else {
        4
    }
}
fn hdr_size(ver: u16, fmt: u8, extra: u64) -> u64 {
    (if fmt == 8 { 12 } else { 4 }) + 2 + osz(fmt) + 1 + if ver >= 5 { 1 } else { 0 } + extra
}
fn form_size(form: u8) -> u64 {
    match form {
        0x11 => 1,
        0x12 => 2,
        0x13 => 4,
        0x14 => 8,
        _ => 5,
    }
}
fn op_base(fmt: u8, opi: u8) -> u64 {
    match opi {
        0 | 1 => 7,
        2 => 8,
        3 | 4 => 6,
        5 | 6 => 5,
        7 => 1 + osz(fmt),
        8 => 2 + osz(fmt),
        9 => 1 + osz(fmt),
        _ => 3,
    }
}
fn op_size(fmt: u8, o: &Op) -> u64 {
    op_base(fmt, o.opi) + 2 * o.nest as u64
}
fn attr_size(fmt: u8, a: &Attr) -> u64 {
    match &a.k {
        Kind::Plain(_) => 1,
        Kind::Flag => 0,
        Kind::URef(form, _, _) => form_size(*form),
        Kind::IRef(_, _) => osz(fmt),
        Kind::Expr(ops) => 1 + ops.iter().map(|o| op_size(fmt, o)).sum::<u64>(),
    }
}
fn ent_size(fmt: u8, e: &Ent) -> u64 {
    7 + e.attrs.iter().map(|a| attr_size(fmt, a)).sum::<u64>()
}

struct Layout {
    uoff: Vec<u64>,
    hdr: u64,
    ulen: Vec<u64>,
    eoff: Vec<(usize, u64)>,
}

fn layout(ver: u16, fmt: u8, extra: u64, rootx: u64, f: &Forest) -> Layout {
    let hdr = hdr_size(ver, fmt, extra);
    let mut l = Layout { uoff: vec![0], hdr, ulen: Vec::new(), eoff: Vec::new() };
    for (j, u) in f.iter().enumerate() {
        let mut pos = hdr + 7 + rootx;
        for (i, e) in u.iter().enumerate() {
            l.eoff.push((j, pos));
            pos += ent_size(fmt, e);
            let dnext = if i + 1 < u.len() { u[i + 1].depth } else { 0 };
            if dnext <= e.depth {
                pos += (e.depth - dnext) as u64;
            }
        }
        l.ulen.push(pos - hdr);
        let next = l.uoff[j] + pos;
        l.uoff.push(next);
    }
    l
}

const FAR_UNIT: u64 = 0x7fff_0000;
const FAR_INFO: u64 = 0x7fff_fff0;

fn mask(bits: u32, v: u64) -> u64 {
    if bits >= 62 {
        v
    } else {
        v & ((1u64 << bits) - 1)
    }
}

fn value(l: &Layout, j: usize, info: bool, bits: u32, tk: u8, tv: u8) -> u64 {
    let nu = l.ulen.len();
    let tv = tv as usize;
    let v = if info {
        match tk {
            0 => {
                if tv < l.eoff.len() {
                    l.uoff[l.eoff[tv].0] + l.eoff[tv].1
                } else {
                    FAR_INFO
                }
            }
            1 => {
                if tv < nu {
                    l.uoff[tv] + l.hdr
                } else {
                    FAR_INFO
                }
            }
            2 => {
                if tv < nu {
                    l.uoff[tv] + l.hdr + 1
                } else {
                    FAR_INFO
                }
            }
            4 => 0,
            _ => FAR_INFO,
        }
    } else {
        match tk {
            0 => {
                if tv < l.eoff.len() && l.eoff[tv].0 == j {
                    l.eoff[tv].1
                } else {
                    FAR_UNIT
                }
            }
            1 => l.hdr,
            2 => l.hdr + 1,
            4 => 0,
            5 => {
                if tv < l.eoff.len() && l.eoff[tv].0 > j {
                    l.uoff[l.eoff[tv].0] + l.eoff[tv].1 - l.uoff[j]
                } else {
                    FAR_UNIT
                }
            }
            6 => l.hdr + l.ulen[j],
            7 => l.hdr + l.ulen[j] - 1,
            8 => l.hdr - 1,
            9 => {
                if j + 1 < nu {
                    l.uoff[j + 1] + l.hdr - l.uoff[j]
                } else {
                    FAR_UNIT
                }
            }
            _ => FAR_UNIT,
        }
    };
    mask(bits, v)
}

fn op_info(opi: u8) -> bool {
    (7..=9).contains(&opi)
}
fn op_bits(fmt: u8, opi: u8) -> u32 {
    match opi {
        0..=4 => 35,
        5 | 6 => 32,
        10 => 16,
        _ => 8 * osz(fmt) as u32,
    }
}
fn form_bits(form: u8) -> u32 {
    match form {
        0x11 => 8,
        0x12 => 16,
        0x13 => 32,
        0x14 => 64,
        _ => 35,
    }
}

fn uleb(mut v: u64, out: &mut Vec<u8>) {
    loop {
        let b = (v & 0x7f) as u8;
        v >>= 7;
        if v == 0 {
            out.push(b);
            return;
        }
        out.push(b | 0x80);
    }
}
fn uleb_pad(v: u64, n: usize, out: &mut Vec<u8>) {
    for i in 0..n {
        let b = ((v >> (7 * i)) & 0x7f) as u8;
        out.push(if i + 1 < n { b | 0x80 } else { b });
    }
}
fn le(v: u64, n: u64, out: &mut Vec<u8>) {
    out.extend_from_slice(&v.to_le_bytes()[..n as usize]);
}

const DWO_ID: u64 = 0x1122_3344_5566_7788;

/// unit type of DWARF 5 headers: 1 compile, 4 skeleton, 5 split_compile (the last two carry a dwo_id)
fn build(ver: u16, fmt: u8, asz: u8, utype: u8, f: &Forest) -> Secs {
    let split = utype == 4 || utype == 5;
    // DWARF 5: dwo_id in the header; GNU split DWARF 4: DW_AT_GNU_dwo_id (data8) on the root DIE
    let extra = if split && ver >= 5 { 8 } else { 0 };
    let rootx = if split && ver < 5 { 8 } else { 0 };
    let l = layout(ver, fmt, extra, rootx, f);
    let mut info: Vec<u8> = Vec::new();
    let mut abbrev: Vec<u8> = Vec::new();
    let mut code: u64 = 0;
    let mut k = 0usize;
    for (j, u) in f.iter().enumerate() {
        debug_assert_eq!(info.len() as u64, l.uoff[j]);
        let initlen = if fmt == 8 { 12 } else { 4 };
        let unit_length = l.hdr - initlen + l.ulen[j];
        if fmt == 8 {
            le(0xffff_ffff, 4, &mut info);
            le(unit_length, 8, &mut info);
        } else {
            le(unit_length, 4, &mut info);
        }
        le(ver as u64, 2, &mut info);
        if ver >= 5 {
            info.push(utype);
            info.push(asz);
            le(0, osz(fmt), &mut info);
            if extra > 0 {
                le(DWO_ID, 8, &mut info);
            }
        } else {
            le(0, osz(fmt), &mut info);
            info.push(asz);
        }
        // root DIE
        code += 1;
        uleb_pad(code, 2, &mut abbrev);
        uleb(0x11, &mut abbrev);
        abbrev.push(if u.is_empty() { 0 } else { 1 });
        abbrev.extend_from_slice(&[0x03, 0x08]);
        if rootx > 0 {
            abbrev.extend_from_slice(&[0xb1, 0x42, 0x07]); // DW_AT_GNU_dwo_id DW_FORM_data8
        }
        abbrev.extend_from_slice(&[0, 0]);
        uleb_pad(code, 2, &mut info);
        info.extend_from_slice(format!("r{:03}\0", j).as_bytes());
        if rootx > 0 {
            le(DWO_ID, 8, &mut info);
        }
        for (i, e) in u.iter().enumerate() {
            let dnext = if i + 1 < u.len() { u[i + 1].depth } else { 0 };
            code += 1;
            uleb_pad(code, 2, &mut abbrev);
            uleb(e.tag as u64, &mut abbrev);
            abbrev.push(if dnext == e.depth + 1 { 1 } else { 0 });
            abbrev.extend_from_slice(&[0x03, 0x08]);
            uleb_pad(code, 2, &mut info);
            info.extend_from_slice(format!("e{:03}\0", k).as_bytes());
            for a in &e.attrs {
                uleb(a.name as u64, &mut abbrev);
                match &a.k {
                    Kind::Plain(v) => {
                        abbrev.push(0x0b);
                        info.push(*v);
                    }
                    Kind::Flag => abbrev.push(0x19),
                    Kind::URef(form, tk, tv) => {
                        abbrev.push(*form);
                        let v = value(&l, j, false, form_bits(*form), *tk, *tv);
                        if *form == 0x15 {
                            uleb_pad(v, 5, &mut info);
                        } else {
                            le(v, form_size(*form), &mut info);
                        }
                    }
                    Kind::IRef(tk, tv) => {
                        abbrev.push(0x10);
                        let v = value(&l, j, true, 8 * osz(fmt) as u32, *tk, *tv);
                        le(v, osz(fmt), &mut info);
                    }
                    Kind::Expr(ops) => {
                        abbrev.push(0x18);
                        let mut ex: Vec<u8> = Vec::new();
                        for o in ops {
                            let v = value(&l, j, op_info(o.opi), op_bits(fmt, o.opi), o.tk, o.tv);
                            let mut b: Vec<u8> = Vec::new();
                            match o.opi {
                                0 => {
                                    b.extend_from_slice(&[0xa6, 4]);
                                    uleb_pad(v, 5, &mut b);
                                }
                                1 => {
                                    b.extend_from_slice(&[0xa5, 3]);
                                    uleb_pad(v, 5, &mut b);
                                }
                                2 => {
                                    b.push(0xa4);
                                    uleb_pad(v, 5, &mut b);
                                    b.extend_from_slice(&[1, 0x2a]);
                                }
                                3 => {
                                    b.push(0xa8);
                                    uleb_pad(v, 5, &mut b);
                                }
                                4 => {
                                    b.push(0xa9);
                                    uleb_pad(v, 5, &mut b);
                                }
                                5 => {
                                    b.push(0xfa);
                                    le(v, 4, &mut b);
                                }
                                6 => {
                                    b.push(0x99);
                                    le(v, 4, &mut b);
                                }
                                7 => {
                                    b.push(0x9a);
                                    le(v, osz(fmt), &mut b);
                                }
                                8 => {
                                    b.push(0xa0);
                                    le(v, osz(fmt), &mut b);
                                    b.push(0);
                                }
                                9 => {
                                    b.push(0xfd);
                                    le(v, osz(fmt), &mut b);
                                }
                                _ => {
                                    b.push(0x98);
                                    le(v, 2, &mut b);
                                }
                            }
                            for _ in 0..o.nest {
                                let mut outer = vec![0xa3, b.len() as u8];
                                outer.extend_from_slice(&b);
                                b = outer;
                            }
                            ex.extend_from_slice(&b);
                        }
                        info.push(ex.len() as u8);
                        info.extend_from_slice(&ex);
                    }
                }
            }
            abbrev.extend_from_slice(&[0, 0]);
            if dnext <= e.depth {
                for _ in 0..(e.depth - dnext) {
                    info.push(0);
                }
            }
            k += 1;
        }
    }
    abbrev.push(0);
    let mut m = Secs::new();
    if utype == 5 {
        m.insert(SectionId::DebugInfo, info);
        m.insert(SectionId::DebugAbbrev, abbrev);
    } else {
        m.insert(SectionId::DebugInfo, info);
        m.insert(SectionId::DebugAbbrev, abbrev);
    }
    m
}

fn make_filter<'a, 'b>(
    mut filter: w::FilterUnitSection<'a, R<'b>>,
    req: &[bool],
) -> Result<w::FilterUnitSection<'a, R<'b>>, w::ConvertError> {
    while let Some(mut unit) = filter.read_unit()? {
        let mut entry = unit.null_entry();
        while unit.read_entry(&mut entry)? {
            let n = ent_name(entry.read_unit, &entry.read_entry);
            if let Some(k) = parse_ident(n.as_bytes()) {
                if req.get(k).copied().unwrap_or(false) {
                    unit.require_entry(entry.offset);
                }
            }
        }
    }
    Ok(filter)
}

fn convert_tolerant<'a, 'b>(unit: &mut w::ConvertUnit<'a, R<'b>>, root: w::ConvertUnitEntry<'a, R<'b>>) -> Result<(), w::ConvertError> {
    let root_id = unit.unit.root();
    for attr in &root.attrs {
        if let Ok(v) = unit.convert_attribute_value(root.read_unit, attr, &addr) {
            unit.unit.get_mut(root_id).set(attr.name(), v);
        }
    }
    let mut entry = root;
    while let Some(id) = unit.read_entry(&mut entry)? {
        if id.is_none() {
            continue;
        }
        let id = unit.add_entry(id, &entry);
        for attr in &entry.attrs {
            if attr.name() == gimli::constants::DW_AT_GNU_locviews {
                continue;
            }
            if let Ok(v) = unit.convert_attribute_value(entry.read_unit, attr, &addr) {
                unit.unit.get_mut(id).set(attr.name(), v);
            }
        }
    }
    Ok(())
}

fn filtered(dw: &read::Dwarf<R<'_>>, req: &[bool], tol: bool) -> Result<w::Dwarf, w::ConvertError> {
    let filter = make_filter(w::FilterUnitSection::new(dw)?, req)?;
    let mut out = w::Dwarf::new();
    {
        let mut conv = out.convert_with_filter(filter)?;
        while let Some((mut unit, root)) = conv.read_unit()? {
            if tol {
                convert_tolerant(&mut unit, root)?;
            } else {
                unit.convert(root, &addr)?;
            }
        }
    }
    Ok(out)
}

fn split_filtered<'d>(skel: &'d read::Dwarf<R<'d>>, dwo: &'d read::Dwarf<R<'d>>, req: Option<&[bool]>) -> Result<w::Dwarf, w::ConvertError> {
    let mut out = w::Dwarf::new();
    {
        let mut conv = out.convert(skel)?;
        while let Some((mut unit, _root)) = conv.read_unit()? {
            match req {
                Some(req) => {
                    let filter = make_filter(w::FilterUnitSection::new_split(dwo, unit.read_unit)?, req)?;
                    let mut cs = unit.convert_split_with_filter(filter)?;
                    let (mut su, sroot) = cs.read_unit()?;
                    su.convert(sroot, &addr)?;
                }
                None => {
                    let mut cs = unit.convert_split(dwo)?;
                    let (mut su, sroot) = cs.read_unit()?;
                    su.convert(sroot, &addr)?;
                }
            }
        }
    }
    Ok(out)
}

fn parent_tok(p: &str) -> String {
    if p.starts_with('r') {
        "r".to_string()
    } else if let Some(pk) = parse_ident(p.as_bytes()) {
        pk.to_string()
    } else {
        p.to_string()
    }
}
fn ref_tok(n: &str) -> String {
    if let Some(k) = parse_ident(n.as_bytes()) {
        k.to_string()
    } else if n.len() == 4 && n.starts_with('r') {
        format!("r{}", n[1..].parse::<usize>().unwrap_or(999))
    } else {
        n.to_string()
    }
}

/// `ok k:p|name.body>t>t ...` (with_attrs) or `ok k:p ...`
fn show(d: &Dump, with_attrs: bool) -> String {
    let mut items: Vec<(usize, String)> = Vec::new();
    for n in &d.order {
        if let Some(k) = parse_ident(n.as_bytes()) {
            let e = &d.ents[n];
            let mut s = format!(" {}:{}", k, parent_tok(&e.parent));
            if with_attrs {
                for (name, body, refs) in &e.refs {
                    s.push_str(&format!("|{:x}.{}", name, body));
                    for r in refs {
                        s.push('>');
                        s.push_str(&ref_tok(r));
                    }
                }
            }
            items.push((k, s));
        } else if !n.starts_with('r') {
            return format!("readback-mismatch unnamed-entry {}", n);
        }
    }
    items.sort();
    let mut s = String::from("ok");
    for (_, t) in items {
        s.push_str(&t);
    }
    s
}

/// oracles against the unfiltered conversion of the same input
fn compare(d: &Dump, ud: &Dump) -> Option<String> {
    let pos: std::collections::HashMap<&String, usize> = ud.order.iter().enumerate().map(|(i, n)| (n, i)).collect();
    let mut last = None;
    for n in &d.order {
        match pos.get(n) {
            None => return Some(format!("attrs-mismatch {} not-in-unfiltered", n)),
            Some(p) => {
                if let Some(l) = last {
                    if *p <= l {
                        return Some(format!("order-mismatch {}", n));
                    }
                }
                last = Some(*p);
            }
        }
        let a = &d.ents[n];
        let b = &ud.ents[n];
        if a.attrs != b.attrs {
            return Some(format!("attrs-mismatch {}_{:?}_{:?}", n, a.attrs, b.attrs).replace(' ', "_").replacen("attrs-mismatch_", "attrs-mismatch ", 1));
        }
        if !n.starts_with('r') && a.parent != b.parent {
            return Some(format!("parent-mismatch {} {} {}", n, a.parent, b.parent));
        }
    }
    None
}

fn finish(out: Result<w::Dwarf, w::ConvertError>, unf: Option<&Result<Dump, String>>, with_attrs: bool, split: bool) -> String {
    let mut out = match out {
        Ok(o) => o,
        Err(e) => {
            let name = convert_error_name(&e);
            if let Some(Ok(_)) = unf {
                return format!("missingref-mismatch {}", name);
            }
            return format!("err {}", name);
        }
    };
    let secs = match write_out(&mut out) {
        Ok(s) => s,
        Err(e) => {
            return match unf {
                // the filtered split conversion SUCCEEDED and produced a reference to a DIE that is never added, while
                // the unfiltered split conversion reports the reference as a conversion error
                Some(Err(u)) if split && u.starts_with("convert ") && errname(&e) == "InvalidReference" => {
                    format!("splitdangling-mismatch {} {}", errname(&e), u.replace(' ', ":"))
                }
                Some(Err(_)) => format!("err {}", errname(&e)),
                _ => format!("write-mismatch {}", errname(&e)),
            }
        }
    };
    let d = match dump(&secs) {
        Ok(d) => d,
        Err(e) => return format!("readback-mismatch {}", e),
    };
    if let Some(what) = &d.dangling {
        return format!("dangling-mismatch {}", what);
    }
    if d.dup {
        return "dup-mismatch".into();
    }
    if let Some(Ok(ud)) = unf {
        if let Some(m) = compare(&d, ud) {
            return m;
        }
    }
    show(&d, with_attrs)
}

fn req_of(f: &Forest, tok: &str) -> Vec<bool> {
    let total: usize = f.iter().map(|u| u.len()).sum();
    let mut req = vec![false; total];
    for k in hex(tok) {
        if (k as usize) < total {
            req[k as usize] = true;
        }
    }
    req
}

pub fn run(t: &[&str]) -> String {
    match t[0] {
        "c1901.bounds" => {
            if t.len() < 8 {
                return "bad-case".into();
            }
            let (ver, fmt, asz) = (u(t[1]) as u16, u(t[2]) as u8, u(t[3]) as u8);
            let f = parse_forest(&hex(t[4]));
            let sel = u(t[5]) as usize;
            let o = u(t[6]) as usize;
            let x = u(t[7]) as usize;
            let secs = build(ver, fmt, asz, 1, &f);
            let dw = load(&secs);
            let mut it = dw.units();
            let mut j = 0;
            loop {
                match it.next() {
                    Ok(Some(h)) => {
                        if j == sel {
                            let uo = gimli::UnitOffset(o);
                            let b = uo.is_in_bounds(&h);
                            let s = uo.to_unit_section_offset(&h).0;
                            let tt = gimli::UnitSectionOffset(x).to_unit_offset(&h);
                            return format!(
                                "ok {} {} {}",
                                if b { 1 } else { 0 },
                                s,
                                match tt {
                                    Some(y) => y.0.to_string(),
                                    None => "none".to_string(),
                                }
                            );
                        }
                        j += 1;
                    }
                    Ok(None) => return "no-such-unit".into(),
                    Err(e) => return format!("input-read-{}", errname(&e)),
                }
            }
        }
        "c1901.attrs" => {
            if t.len() < 7 {
                return "bad-case".into();
            }
            let tol = t[1] == "1";
            let (ver, fmt, asz) = (u(t[2]) as u16, u(t[3]) as u8, u(t[4]) as u8);
            let f = parse_forest(&hex(t[5]));
            let req = req_of(&f, t[6]);
            let secs = build(ver, fmt, asz, 1, &f);
            let dw = load(&secs);
            if tol {
                finish(filtered(&dw, &req, true), None, true, false)
            } else {
                let unf = unfiltered(&secs);
                finish(filtered(&dw, &req, false), Some(&unf.dump), true, false)
            }
        }
        "c1901.split" => {
            if t.len() < 7 {
                return "bad-case".into();
            }
            let (ver, fmt, asz) = (u(t[2]) as u16, u(t[3]) as u8, u(t[4]) as u8);
            let f = parse_forest(&hex(t[5]));
            let req = req_of(&f, t[6]);
            let skel_secs = build(ver, fmt, asz, 4, &vec![Vec::new()]);
            let dwo_secs = build(ver, fmt, asz, 5, &f);
            let skel = load(&skel_secs);
            let mut dwo = load(&dwo_secs);
            dwo.file_type = gimli::DwarfFileType::Dwo;
            let unf: Result<Dump, String> = match split_filtered(&skel, &dwo, None) {
                Err(e) => Err(format!("convert {}", convert_error_name(&e))),
                Ok(mut out) => match write_out(&mut out) {
                    Err(e) => Err(format!("write {}", errname(&e))),
                    Ok(secs) => dump(&secs),
                },
            };
            finish(split_filtered(&skel, &dwo, Some(&req)), Some(&unf), false, true)
        }
        _ => format!("unknown-stream {}", t[0]),
    }
}
