// c17_glue.rs — stream c17.unitglue: the glue of src/read/dwarf.rs (Unit::new, Dwarf::attr_string /
// attr_line_string / attr_address / unit_ranges, Unit::dwo_name, Dwarf::make_dwo, Unit::copy_relocated_attributes)
// on the real gimli. Canonical printing mirrors ocaml/s_c17g.ml (model: coq/Model/UnitGlue.v).
//
// c17.unitglue <be> <dwo> <types> <mode> <unit section> <abbrev> <str> <str_offsets> <line_str> <addr> <line>
//              <ranges> <rnglists> <has_sup> <sup .debug_str>
//              [mode 1: <parent info> <parent abbrev> <parent addr> <parent ranges> <parent has_sup> <parent sup str>]
use crate::util::*;
use gimli::{AttributeValue, Dwarf, DwarfFileType, EndianSlice, RunTimeEndian, SectionId, Unit, UnitType};

type R<'a> = EndianSlice<'a, RunTimeEndian>;

struct Secs {
    info: Vec<u8>,
    types: Vec<u8>,
    abbrev: Vec<u8>,
    str_: Vec<u8>,
    str_offsets: Vec<u8>,
    line_str: Vec<u8>,
    addr: Vec<u8>,
    line: Vec<u8>,
    ranges: Vec<u8>,
    rnglists: Vec<u8>,
    sup: Option<Vec<u8>>,
}

static EMPTY: [u8; 0] = [];

fn load<'a>(s: &'a Secs, e: RunTimeEndian) -> Dwarf<R<'a>> {
    let mut d = Dwarf::load(|id| -> Result<R<'a>, ()> {
        Ok(EndianSlice::new(
            match id {
                SectionId::DebugInfo => &s.info[..],
                SectionId::DebugTypes => &s.types[..],
                SectionId::DebugAbbrev => &s.abbrev[..],
                SectionId::DebugStr => &s.str_[..],
                SectionId::DebugStrOffsets => &s.str_offsets[..],
                SectionId::DebugLineStr => &s.line_str[..],
                SectionId::DebugAddr => &s.addr[..],
                SectionId::DebugLine => &s.line[..],
                SectionId::DebugRanges => &s.ranges[..],
                SectionId::DebugRngLists => &s.rnglists[..],
                _ => &EMPTY[..],
            },
            e,
        ))
    })
    .unwrap();
    if let Some(sup) = &s.sup {
        d.load_sup(|id| -> Result<R<'a>, ()> {
            Ok(EndianSlice::new(if id == SectionId::DebugStr { &sup[..] } else { &EMPTY[..] }, e))
        })
        .unwrap();
    }
    d
}

fn shex(b: &[u8]) -> String {
    format!("s{}", tohex(b))
}

fn rs<T, F: FnOnce(T) -> String>(r: gimli::Result<T>, f: F) -> String {
    match r {
        Ok(v) => f(v),
        Err(e) => format!("E:{}", errname(&e)),
    }
}

fn opt<T, F: FnOnce(T) -> String>(o: Option<T>, f: F) -> String {
    match o {
        Some(v) => f(v),
        None => "none".to_string(),
    }
}

fn ut_code(t: UnitType<usize>) -> u32 {
    match t {
        UnitType::Compilation => 1,
        UnitType::Type { .. } => 2,
        UnitType::Partial => 3,
        UnitType::Skeleton(_) => 4,
        UnitType::SplitCompilation(_) => 5,
        UnitType::SplitType { .. } => 6,
    }
}

fn show_unit<'a>(d: &Dwarf<R<'a>>, u: &Unit<R<'a>>, cap: usize) -> String {
    let enc = u.header.encoding();
    let lp = opt(u.line_program.as_ref(), |p| {
        let h = p.header();
        let old = h.version() <= 4;
        let dir0 = if old {
            match h.directory(0) {
                None => "none".to_string(),
                Some(AttributeValue::String(s)) => shex(s.slice()),
                Some(_) => "?".to_string(),
            }
        } else {
            "x".to_string()
        };
        let file0 = if old {
            match h.file(0).map(|f| f.path_name()) {
                None => "none".to_string(),
                Some(AttributeValue::String(s)) => shex(s.slice()),
                Some(_) => "?".to_string(),
            }
        } else {
            "x".to_string()
        };
        format!("{}.{}.{}.{}.{}.{}.{}", h.offset().0, h.version(), h.address_size(), h.header_length(), h.unit_length(), dir0, file0)
    });
    let fields = format!(
        "hdr={},{},{},{} name={} dir={} low={} sob={} ab={} llb={} rlb={} id={} lp={}",
        enc.version,
        enc.format.word_size(),
        enc.address_size,
        ut_code(u.header.type_()),
        opt(u.name.as_ref(), |r| shex(r.slice())),
        opt(u.comp_dir.as_ref(), |r| shex(r.slice())),
        u.low_pc,
        u.str_offsets_base.0,
        u.addr_base.0,
        u.loclists_base.0,
        u.rnglists_base.0,
        opt(u.dwo_id, |i| i.0.to_string()),
        lp
    );
    let dwon = match u.dwo_name() {
        Ok(None) => "none".to_string(),
        Ok(Some(v)) => format!("S{}", rs(d.attr_string(u, v), |r| shex(r.slice()))),
        Err(e) => format!("E:{}", errname(&e)),
    };
    let mut cur = u.entries();
    let probes = match cur.next_dfs() {
        Ok(Some(root)) => {
            let v: Vec<String> = root
                .attrs()
                .iter()
                .map(|a| {
                    let v = a.value();
                    format!(
                        "{},{},{}",
                        rs(d.attr_string(u, v.clone()), |r| shex(r.slice())),
                        rs(d.attr_line_string(v.clone()), |r| shex(r.slice())),
                        rs(d.attr_address(u, v), |o| opt(o, |a| a.to_string()))
                    )
                })
                .collect();
            v.join(";")
        }
        _ => "noroot".to_string(),
    };
    let ur = match d.unit_ranges(u) {
        Err(e) => format!("E:{}", errname(&e)),
        Ok(mut it) => {
            let mut out = String::from("ok");
            let mut done = false;
            for _ in 0..cap {
                match it.next() {
                    Ok(None) => {
                        done = true;
                        break;
                    }
                    Ok(Some(r)) => out.push_str(&format!(" r {} {}", r.begin, r.end)),
                    Err(e) => out.push_str(&format!(" e {}", errname(&e))),
                }
            }
            if !done {
                return format!("hang-mismatch unit_ranges {}", cap);
            }
            out
        }
    };
    format!("{} dwon={} probes={} ranges={}", fields, dwon, probes, ur)
}

pub fn run(t: &[&str]) -> String {
    if t.len() < 16 {
        return "bad-case".into();
    }
    let e = endian(t[1]);
    let dwo = t[2] == "1";
    let types = t[3] == "1";
    let mode = t[4];
    let unit_sec = hex(t[5]);
    let s = Secs {
        info: if types { Vec::new() } else { unit_sec.clone() },
        types: if types { unit_sec } else { Vec::new() },
        abbrev: hex(t[6]),
        str_: hex(t[7]),
        str_offsets: hex(t[8]),
        line_str: hex(t[9]),
        addr: hex(t[10]),
        line: hex(t[11]),
        ranges: hex(t[12]),
        rnglists: hex(t[13]),
        sup: if t[14] == "1" { Some(hex(t[15])) } else { None },
    };
    let cap = s.ranges.len() + s.rnglists.len() + 600;
    let mut d = load(&s, e);
    d.file_type = if dwo { DwarfFileType::Dwo } else { DwarfFileType::Main };
    let header = if types {
        match d.type_units().next() {
            Ok(Some(h)) => h,
            Ok(None) => return "nounit".into(),
            Err(x) => return format!("hdr-err {}", errname(&x)),
        }
    } else {
        match d.units().next() {
            Ok(Some(h)) => h,
            Ok(None) => return "nounit".into(),
            Err(x) => return format!("hdr-err {}", errname(&x)),
        }
    };
    if mode == "0" {
        return match d.unit(header) {
            Ok(u) => format!("ok {}", show_unit(&d, &u, cap)),
            Err(x) => err(&x),
        };
    }
    if t.len() < 22 {
        return "bad-case".into();
    }
    let ps = Secs {
        info: hex(t[16]),
        types: Vec::new(),
        abbrev: hex(t[17]),
        str_: Vec::new(),
        str_offsets: Vec::new(),
        line_str: Vec::new(),
        addr: hex(t[18]),
        line: Vec::new(),
        ranges: hex(t[19]),
        rnglists: Vec::new(),
        sup: if t[20] == "1" { Some(hex(t[21])) } else { None },
    };
    let pd = load(&ps, e);
    let ph = match pd.units().next() {
        Ok(Some(h)) => h,
        Ok(None) => return "parent-nounit".into(),
        Err(x) => return format!("parent-hdr-err {}", errname(&x)),
    };
    let skeleton = match pd.unit(ph) {
        Ok(u) => u,
        Err(x) => return format!("parent-err {}", errname(&x)),
    };
    d.make_dwo(&pd);
    let mut u = match d.unit(header) {
        Ok(u) => u,
        Err(x) => return err(&x),
    };
    u.copy_relocated_attributes(&skeleton);
    let plumbing = format!(
        "dwo={} addr={} ranges={} sup={}",
        if d.file_type == DwarfFileType::Dwo { 1 } else { 0 },
        tohex(gimli::Section::reader(&d.debug_addr).slice()),
        tohex(gimli::Section::reader(d.ranges.debug_ranges()).slice()),
        opt(d.sup(), |s| tohex(gimli::Section::reader(&s.debug_str).slice()))
    );
    let cap = cap + ps.ranges.len();
    format!("ok {} {}", plumbing, show_unit(&d, &u, cap))
}

// c17.lookup <L> <16 x (start len)> <has_sup> [<16 x (start len)>]
// Dwarf::lookup_offset_id with every section a sub-slice of one buffer of L bytes.
fn sid_index(id: SectionId) -> i32 {
    match id {
        SectionId::DebugAbbrev => 0,
        SectionId::DebugAddr => 1,
        SectionId::DebugAranges => 2,
        SectionId::DebugInfo => 3,
        SectionId::DebugLine => 4,
        SectionId::DebugLineStr => 5,
        SectionId::DebugMacinfo => 6,
        SectionId::DebugMacro => 7,
        SectionId::DebugNames => 8,
        SectionId::DebugStr => 9,
        SectionId::DebugStrOffsets => 10,
        SectionId::DebugTypes => 11,
        SectionId::DebugLoc => 12,
        SectionId::DebugLocLists => 13,
        SectionId::DebugRanges => 14,
        SectionId::DebugRngLists => 15,
        _ => -1,
    }
}

pub fn run_lookup(t: &[&str]) -> String {
    use gimli::{Reader, ReaderOffsetId, Section};
    if t.len() < 35 {
        return "bad-case".into();
    }
    let l = u(t[1]) as usize;
    let places = |from: usize| -> Vec<(usize, usize)> { (0..16).map(|i| (u(t[from + 2 * i]) as usize, u(t[from + 2 * i + 1]) as usize)).collect() };
    let main = places(2);
    let has_sup = t[34] == "1";
    if has_sup && t.len() < 67 {
        return "bad-case".into();
    }
    let sup = if has_sup { Some(places(35)) } else { None };
    let buf = vec![0u8; l];
    let e = RunTimeEndian::Little;
    let slice = |pl: &Vec<(usize, usize)>, id: SectionId| -> R {
        let i = sid_index(id);
        if i < 0 {
            return EndianSlice::new(&buf[l..l], e);
        }
        let (s, n) = pl[i as usize];
        EndianSlice::new(&buf[s..s + n], e)
    };
    let mut d: Dwarf<R> = Dwarf::load(|id| -> Result<R, ()> { Ok(slice(&main, id)) }).unwrap();
    if let Some(sp) = &sup {
        d.load_sup(|id| -> Result<R, ()> { Ok(slice(sp, id)) }).unwrap();
    }
    let base = buf.as_ptr() as u64;
    let show = |id: u64| -> String {
        match d.lookup_offset_id(ReaderOffsetId(id)) {
            None => "-".to_string(),
            Some((is_sup, s, off)) => format!("{}{}.{}", if is_sup { "s" } else { "m" }, sid_index(s), off),
        }
    };
    let sweep: Vec<String> = (0..l + 3).map(|i| show(base.wrapping_add(i as u64).wrapping_sub(1))).collect();
    // ids taken from readers positioned inside each section (start, middle, one past the end)
    let readers: Vec<(usize, &R)> = vec![
        (0, d.debug_abbrev.reader()),
        (1, d.debug_addr.reader()),
        (2, d.debug_aranges.reader()),
        (3, d.debug_info.reader()),
        (4, d.debug_line.reader()),
        (5, d.debug_line_str.reader()),
        (6, d.debug_macinfo.reader()),
        (7, d.debug_macro.reader()),
        (8, d.debug_names.reader()),
        (9, d.debug_str.reader()),
        (10, d.debug_str_offsets.reader()),
        (11, d.debug_types.reader()),
        (14, d.ranges.debug_ranges().reader()),
        (15, d.ranges.debug_rnglists().reader()),
    ];
    let mut probes = Vec::new();
    for (i, r) in readers {
        let n = main[i].1;
        for o in [0, n / 2, n] {
            let mut c = r.clone();
            if c.skip(o).is_err() {
                return format!("id-mismatch skip {} {}", i, o);
            }
            let id = c.offset_id();
            if id.0 != base + (main[i].0 + o) as u64 {
                return format!("id-mismatch section {} offset {}", i, o);
            }
            probes.push(format!("{}.{}={}", i, o, show(id.0)));
        }
    }
    format!("ok {} | {}", sweep.join(","), probes.join(","))
}
