// c17_glue.rs — stream c17.unitglue: the glue of src/read/dwarf.rs (Unit::new, Dwarf::attr_string /
// attr_line_string / attr_address / unit_ranges, Unit::dwo_name, Dwarf::make_dwo, Unit::copy_relocated_attributes)
// on the real gimli. Canonical printing mirrors ocaml/s_c17g.ml (model: coq/Model/UnitGlue.v).
//
// c17.unitglue <be> <dwo> <types> <mode> <unit section> <abbrev> <str> <str_offsets> <line_str> <addr> <line>
//              <ranges> <rnglists> <has_sup> <sup .debug_str>
//              [mode 1: <parent info> <parent abbrev> <parent addr> <parent ranges> <parent has_sup> <parent sup str>]
use crate::util::*;
use gimli::{AttributeValue, Dwarf, DwarfFileType, EndianSlice, RunTimeEndian, SectionId, Unit, UnitType};

type R<'a> = EndianSlice<'a, RunTimeEndian>;

struct Secs {
    info: Vec<u8>,
    types: Vec<u8>,
    abbrev: Vec<u8>,
    str_: Vec<u8>,
    str_offsets: Vec<u8>,
    line_str: Vec<u8>,
    addr: Vec<u8>,
    line: Vec<u8>,
    ranges: Vec<u8>,
    rnglists: Vec<u8>,
    sup: Option<Vec<u8>>,
}

static EMPTY: [u8; 0] = [];

fn load<'a>(s: &'a Secs, e: RunTimeEndian) -> Dwarf<R<'a>> {
    let mut d = Dwarf::load(|id| -> Result<R<'a>, ()> {
        Ok(EndianSlice::new(
            match id {
                SectionId::DebugInfo => &s.info[..],
                SectionId::DebugTypes => &s.types[..],
                SectionId::DebugAbbrev => &s.abbrev[..],
                SectionId::DebugStr => &s.str_[..],
                SectionId::DebugStrOffsets => &s.str_offsets[..],
                SectionId::DebugLineStr => &s.line_str[..],
                SectionId::DebugAddr => &s.addr[..],
                SectionId::DebugLine => &s.line[..],
                SectionId::DebugRanges => &s.ranges[..],
                SectionId::DebugRngLists => &s.rnglists[..],
                _ => &EMPTY[..],
            },
            e,
        ))
    })
    .unwrap();
    if let Some(sup) = &s.sup {
        d.load_sup(|id| -> Result<R<'a>, ()> {
            Ok(EndianSlice::new(if id == SectionId::DebugStr { &sup[..] } else { &EMPTY[..] }, e))
        })
        .unwrap();
    }
    d
}

fn shex(b: &[u8]) -> String {
    format!("s{}", tohex(b))
}

fn rs<T, F: FnOnce(T) -> String>(r: gimli::Result<T>, f: F) -> String {
    match r {
        Ok(v) => f(v),
        Err(e) => format!("E:{}", errname(&e)),
    }
}

fn opt<T, F: FnOnce(T) -> String>(o: Option<T>, f: F) -> String {
    match o {
        Some(v) => f(v),
        None => "none".to_string(),
    }
}

fn ut_code(t: UnitType<usize>) -> u32 {
    match t {
        UnitType::Compilation => 1,
        UnitType::Type { .. } => 2,
        UnitType::Partial => 3,
        UnitType::Skeleton(_) => 4,
        UnitType::SplitCompilation(_) => 5,
        UnitType::SplitType { .. } => 6,
    }
}

fn show_unit<'a>(d: &Dwarf<R<'a>>, u: &Unit<R<'a>>, cap: usize) -> String {
    let enc = u.header.encoding();
    let lp = opt(u.line_program.as_ref(), |p| {
        let h = p.header();
        let old = h.version() <= 4;
        let dir0 = if old {
            match h.directory(0) {
                None => "none".to_string(),
                Some(AttributeValue::String(s)) => shex(s.slice()),
                Some(_) => "?".to_string(),
            }
        } else {
            "x".to_string()
        };
        let file0 = if old {
            match h.file(0).map(|f| f.path_name()) {
                None => "none".to_string(),
                Some(AttributeValue::String(s)) => shex(s.slice()),
                Some(_) => "?".to_string(),
            }
        } else {
            "x".to_string()
        };
        format!("{}.{}.{}.{}.{}.{}.{}", h.offset().0, h.version(), h.address_size(), h.header_length(), h.unit_length(), dir0, file0)
    });
    let fields = format!(
        "hdr={},{},{},{} name={} dir={} low={} sob={} ab={} llb={} rlb={} id={} lp={}",
        enc.version,
        enc.format.word_size(),
        enc.address_size,
        ut_code(u.header.type_()),
        opt(u.name.as_ref(), |r| shex(r.slice())),
        opt(u.comp_dir.as_ref(), |r| shex(r.slice())),
        u.low_pc,
        u.str_offsets_base.0,
        u.addr_base.0,
        u.loclists_base.0,
        u.rnglists_base.0,
        opt(u.dwo_id, |i| i.0.to_string()),
        lp
    );
    let dwon = match u.dwo_name() {
        Ok(None) => "none".to_string(),
        Ok(Some(v)) => format!("S{}", rs(d.attr_string(u, v), |r| shex(r.slice()))),
        Err(e) => format!("E:{}", errname(&e)),
    };
    let mut cur = u.entries();
    let probes = match cur.next_dfs() {
        Ok(Some(root)) => {
            let v: Vec<String> = root
                .attrs()
                .iter()
                .map(|a| {
                    let v = a.value();
                    format!(
                        "{},{},{}",
                        rs(d.attr_string(u, v.clone()), |r| shex(r.slice())),
                        rs(d.attr_line_string(v.clone()), |r| shex(r.slice())),
                        rs(d.attr_address(u, v), |o| opt(o, |a| a.to_string()))
                    )
                })
                .collect();
            v.join(";")
        }
        _ => "noroot".to_string(),
    };
    let ur = match d.unit_ranges(u) {
        Err(e) => format!("E:{}", errname(&e)),
        Ok(mut it) => {
            let mut out = String::from("ok");
            let mut done = false;
            for _ in 0..cap {
                match it.next() {
                    Ok(None) => {
                        done = true;
                        break;
                    }
                    Ok(Some(r)) => out.push_str(&format!(" r {} {}", r.begin, r.end)),
                    Err(e) => out.push_str(&format!(" e {}", errname(&e))),
                }
            }
            if !done {
                return format!("hang-mismatch unit_ranges {}", cap);
            }
            out
        }
    };
    format!("{} dwon={} probes={} ranges={}", fields, dwon, probes, ur)
}

pub fn run(t: &[&str]) -> String {
    if t.len() < 16 {
        return "bad-case".into();
    }
    let e = endian(t[1]);
    let dwo = t[2] == "1";
    let types = t[3] == "1";
    let mode = t[4];
    let unit_sec = hex(t[5]);
    let s = Secs {
        info: if types { Vec::new() } else { unit_sec.clone() },
        types: if types { unit_sec } else { Vec::new() },
        abbrev: hex(t[6]),
        str_: hex(t[7]),
        str_offsets: hex(t[8]),
        line_str: hex(t[9]),
        addr: hex(t[10]),
        line: hex(t[11]),
        ranges: hex(t[12]),
        rnglists: hex(t[13]),
        sup: if t[14] == "1" { Some(hex(t[15])) } else { None },
    };
    let cap = s.ranges.len() + s.rnglists.len() + 600;
    let mut d = load(&s, e);
    d.file_type = if dwo { DwarfFileType::Dwo } else { DwarfFileType::Main };
    let header = if types {
        match d.type_units().next() {
            Ok(Some(h)) => h,
            Ok(None) => return "nounit".into(),
            Err(x) => return format!("hdr-err {}", errname(&x)),
        }
    } else {
        match d.units().next() {
            Ok(Some(h)) => h,
            Ok(None) => return "nounit".into(),
            Err(x) => return format!("hdr-err {}", errname(&x)),
        }
    };
    if mode == "0" {
        return match d.unit(header) {
            Ok(u) => format!("ok {}", show_unit(&d, &u, cap)),
            Err(x) => err(&x),
        };
    }
    if t.len() < 22 {
        return "bad-case".into();
    }
    let ps = Secs {
        info: hex(t[16]),
        types: Vec::new(),
        abbrev: hex(t[17]),
        str_: Vec::new(),
        str_offsets: Vec::new(),
        line_str: Vec::new(),
        addr: hex(t[18]),
        line: Vec::new(),
        ranges: hex(t[19]),
        rnglists: Vec::new(),
        sup: if t[20] == "1" { Some(hex(t[21])) } else { None },
    };
    let pd = load(&ps, e);
    let ph = match pd.units().next() {
        Ok(Some(h)) => h,
        Ok(None) => return "parent-nounit".into(),
        Err(x) => return format!("parent-hdr-err {}", errname(&x)),
    };
    let skeleton = match pd.unit(ph) {
        Ok(u) => u,
        Err(x) => return format!("parent-err {}", errname(&x)),
    };
    d.make_dwo(&pd);
    let mut u = match d.unit(header) {
        Ok(u) => u,
        Err(x) => return err(&x),
    };
    u.copy_relocated_attributes(&skeleton);
    let plumbing = format!(
        "dwo={} addr={} ranges={} sup={}",
        if d.file_type == DwarfFileType::Dwo { 1 } else { 0 },
        tohex(gimli::Section::reader(&d.debug_addr).slice()),
        tohex(gimli::Section::reader(d.ranges.debug_ranges()).slice()),
        opt(d.sup(), |s| tohex(gimli::Section::reader(&s.debug_str).slice()))
    );
    let cap = cap + ps.ranges.len();
    format!("ok {} {}", plumbing, show_unit(&d, &u, cap))
}
